/* Spec macros and module-local ghosts for src/core/url.c (no nng code).
 * Included BEFORE the real source so that woven loop invariants can use the
 * macros. */
#ifndef VP_URL_SPEC_H
#define VP_URL_SPEC_H

/* ctype: glibc implements isxdigit() as a macro indexing a locale table
 * obtained from __ctype_b_loc(), which has no body under CBMC.  Dropping the
 * macro makes the call go to CBMC's C-locale model of the FUNCTION isxdigit
 * (same for tolower/toupper, which already are functions).  ASSUMED: "C"
 * locale (nng never calls setlocale). */
#include <ctype.h>
#ifdef VP_CBMC
#undef isxdigit
#undef isdigit
#undef isalpha
#undef tolower
#undef toupper
#endif

/* snprintf: CBMC has no body for it (the call would leave the buffer
 * untouched).  Calls in url.c go to vp_snprintf (env.h), an exact model of
 * the one format the parser uses, snprintf(buf, n, "%s", str); any other
 * format trips an assertion. */
#include <stdio.h>
#ifdef VP_CBMC
int vp_snprintf(char *dst, size_t n, const char *fmt, ...);
#define snprintf vp_snprintf
#endif

/* module-local ghosts */
size_t g_exit;          /* url_utf8_validate: offset of the scan pointer at return (woven before every return) */
size_t g_alloc_refused; /* number of non-empty allocation requests the allocator refused */

/* largest string object considered (CBMC object model limit is 2^55) */
#ifdef URL_STR_CAP
#define URL_STR_MAX ((size_t) URL_STR_CAP + 1)
#else
#define URL_STR_MAX ((size_t) 1 << 54)
#endif

/* ------------------------------------------------------------------------
 * RFC 3629 section 4, byte-range table:
 *   UTF8-1 = 00-7F
 *   UTF8-2 = C2-DF tail
 *   UTF8-3 = E0 A0-BF tail / E1-EC 2(tail) / ED 80-9F tail / EE-EF 2(tail)
 *   UTF8-4 = F0 90-BF 2(tail) / F1-F3 3(tail) / F4 80-8F 2(tail)
 *   tail   = 80-BF
 * A NUL-terminated byte string is well-formed UTF-8 iff EVERY index k before
 * the terminator is "good":
 *   - a[k] is a tail byte  => it is covered by a lead byte 1..3 positions
 *     back that demands at least that many tails, with only tails between;
 *   - otherwise            => a[k] starts a well-formed sequence by the table
 *     (C0, C1, F5..FF start nothing).
 * (Equivalence with the grammar: induction over sequence boundaries; a tail
 * byte at a boundary cannot be covered, a lead inside a sequence is not a
 * tail.)  The terminator 0 is never a tail, so reading a[k+1] is in bounds
 * whenever a[k] != 0.
 * ---------------------------------------------------------------------- */
#define U8_TAIL(b) ((b) >= 0x80u && (b) <= 0xBFu)
#define U8_LEAD2(b) ((b) >= 0xC2u && (b) <= 0xDFu)
#define U8_LEAD3(b) ((b) >= 0xE0u && (b) <= 0xEFu)
#define U8_LEAD4(b) ((b) >= 0xF0u && (b) <= 0xF4u)
#define U8_NEED(b) (U8_LEAD2(b) ? 1 : U8_LEAD3(b) ? 2 : U8_LEAD4(b) ? 3 : 0)
#define U8_SECOND_OK(l, b)                                   \
	((l) == 0xE0u   ? ((b) >= 0xA0u && (b) <= 0xBFu)     \
	    : (l) == 0xEDu ? ((b) >= 0x80u && (b) <= 0x9Fu) \
	    : (l) == 0xF0u ? ((b) >= 0x90u && (b) <= 0xBFu) \
	    : (l) == 0xF4u ? ((b) >= 0x80u && (b) <= 0x8Fu) \
	                   : U8_TAIL(b))
/* a[i] starts a well-formed sequence */
#define U8_SEQ_OK(a, i)                                                       \
	((a)[(i)] <= 0x7Fu ? 1                                                \
	    : U8_LEAD2((a)[(i)])                                              \
	    ? U8_TAIL((a)[(i) + 1])                                           \
	    : U8_LEAD3((a)[(i)])                                              \
	    ? (U8_SECOND_OK((a)[(i)], (a)[(i) + 1]) && U8_TAIL((a)[(i) + 2])) \
	    : U8_LEAD4((a)[(i)])                                              \
	    ? (U8_SECOND_OK((a)[(i)], (a)[(i) + 1]) &&                        \
	          U8_TAIL((a)[(i) + 2]) && U8_TAIL((a)[(i) + 3]))             \
	    : 0)
/* tail byte a[i] is covered by a lead byte; pos = distance of a[i] from the
 * start of the string (nothing in front of the string can cover it) */
#define U8_COVERED(a, i, pos)                                         \
	(((pos) >= 1 && U8_NEED((a)[(i) - 1]) >= 1) ||                \
	    ((pos) >= 2 && U8_TAIL((a)[(i) - 1]) &&                   \
	        U8_NEED((a)[(i) - 2]) >= 2) ||                        \
	    ((pos) >= 3 && U8_TAIL((a)[(i) - 1]) &&                   \
	        U8_TAIL((a)[(i) - 2]) && U8_NEED((a)[(i) - 3]) >= 3))
#define U8_GOOD_AT(a, i, pos) \
	(U8_TAIL((a)[(i)]) ? U8_COVERED(a, i, pos) : U8_SEQ_OK(a, i))

/* Ghost window.  The predicates above read up to 7 bytes each; written on the
 * string itself they put hundreds of guarded dereferences into one clause
 * (symex did not finish in 10 min).  Instead a precondition EQUATION ties the
 * 11 free ghost bytes g_w[0..10] to the string bytes at g_k-7 .. g_k+3
 * (wherever those indices are inside the object; no restriction of the
 * input), and the clauses talk about g_w only:
 *     g_w[7]      is the byte at the free ghost index g_k,
 *     g_w[7 - d]  the byte d places before it. */
uint8_t g_w[11];
#define U8_WIN_EQ(a, n, i)                                      \
	((g_k <= (n) && g_k + (i) >= 7 && g_k + (i) - 7 <= (n)) ==> \
	    g_w[(i)] == (a)[g_k + (i) - 7])
#define U8_WIN_PRE(a, n)                                                   \
	(U8_WIN_EQ(a, n, 0) && U8_WIN_EQ(a, n, 1) && U8_WIN_EQ(a, n, 2) && \
	    U8_WIN_EQ(a, n, 3) && U8_WIN_EQ(a, n, 4) &&                    \
	    U8_WIN_EQ(a, n, 5) && U8_WIN_EQ(a, n, 6) &&                    \
	    U8_WIN_EQ(a, n, 7) && U8_WIN_EQ(a, n, 8) &&                    \
	    U8_WIN_EQ(a, n, 9) && U8_WIN_EQ(a, n, 10))
/* the string index g_k - d is good */
#define U8_WIN_GOOD(d) U8_GOOD_AT(g_w, 7 - (d), g_k - (d))
/* some index in g_k-4 .. g_k is not good */
#define U8_WIN_BAD_NEAR                                \
	(!U8_WIN_GOOD(0) || (g_k >= 1 && !U8_WIN_GOOD(1)) || \
	    (g_k >= 2 && !U8_WIN_GOOD(2)) ||               \
	    (g_k >= 3 && !U8_WIN_GOOD(3)) ||               \
	    (g_k >= 4 && !U8_WIN_GOOD(4)))

#define U8P(p) ((uint8_t *) (p))

/* pre-state snapshot of the ghost window (woven at function entry, read by
 * vp/replay.py from counterexample traces) */
#define VP_SNAP_U8()                                                         \
	uint8_t vp_in_w0 = g_w[0], vp_in_w1 = g_w[1], vp_in_w2 = g_w[2],      \
	        vp_in_w3 = g_w[3], vp_in_w4 = g_w[4], vp_in_w5 = g_w[5],      \
	        vp_in_w6 = g_w[6], vp_in_w7 = g_w[7], vp_in_w8 = g_w[8],      \
	        vp_in_w9 = g_w[9], vp_in_w10 = g_w[10];                       \
	size_t vp_in_k = g_k, vp_in_n = g_n

/* ------------------------------------------------------------------------
 * nng_url representation (core/url.h): all components live in ONE storage
 * area, either the inline array u_static[128] (u_bufsz == 0, u_buffer ==
 * u_static) or a heap block of u_bufsz bytes.
 * ---------------------------------------------------------------------- */
#define URL_INLINE_SZ ((size_t) NNG_MAXADDRLEN)
#define URL_HEAP_MAX ((size_t) 1 << 40)
#define URL_STORE(u) ((u)->u_bufsz != 0 ? (u)->u_bufsz : URL_INLINE_SZ)
/* component pointer: NULL or inside the storage area (precondition form) */
#define URL_COMP_PRE(u, c)                                        \
	((u)->c == NULL ||                                        \
	    __CPROVER_pointer_in_range_dfcc((u)->u_buffer, (u)->c, \
	        (u)->u_buffer + (URL_STORE(u) - 1)))
#define URL_STORAGE_PRE(u)                                                  \
	(((u)->u_bufsz == 0 &&                                              \
	     __CPROVER_pointer_in_range_dfcc(                               \
	         &(u)->u_static[0], (u)->u_buffer, &(u)->u_static[0])) ||   \
	    ((u)->u_bufsz != 0 && (u)->u_bufsz <= URL_HEAP_MAX &&           \
	        __CPROVER_is_fresh((u)->u_buffer, (u)->u_bufsz)))
/* "d->c is the clone of s->c": NULL iff NULL, else same offset in d's own
 * storage */
#define URL_COMP_CLONED(d, s, c)                  \
	((d)->c ==                                \
	    (((s)->c == NULL) ? (char *) NULL     \
	                      : (d)->u_buffer + ((s)->c - (s)->u_buffer)))
/* constant bound used inside quantifiers of capped (Pb) contracts */
#ifdef URL_STR_CAP
#define URL_QCAP URL_STR_CAP
#else
#define URL_QCAP 16
#endif

/* ---- strings handed to functions that may be called on the middle of a
 * buffer (canonify on the path part of the URL storage): the string is what
 * lies between the pointer and the end of ITS OBJECT.  Written with
 * OBJECT_SIZE/POINTER_OFFSET so that the same precondition can be assumed
 * (enforce: a fresh object of any size) and asserted (replace: pointer into
 * u_static or a heap block). */
#define STR_ROOM(p) \
	((size_t) __CPROVER_OBJECT_SIZE(p) - (size_t) __CPROVER_POINTER_OFFSET(p))
/* a terminator exists within the first cap+1 bytes (cap: constant) */
#define STR_TERMINATED_WITHIN(p, cap, v) \
	__CPROVER_exists { size_t v; (v <= (cap)) && ((p)[v] == 0) }
/* no terminator in p[0..k] (k < cap) */
#define STR_BEFORE_END(p, k, cap, v) \
	__CPROVER_forall { size_t v; (v <= (cap)) ==> ((v <= (k)) ==> (p)[v] != 0) }
/* no '?' or '#' in p[0..k]: index k belongs to the path part */
#define STR_IN_PATH(p, k, cap, v) \
	__CPROVER_forall { size_t v; (v <= (cap)) ==> ((v <= (k)) ==> ((p)[v] != '?' && (p)[v] != '#')) }

/* RFC 3986 2.3 unreserved characters */
#define URI_UNRESERVED(c)                                              \
	(((c) >= 'A' && (c) <= 'Z') || ((c) >= 'a' && (c) <= 'z') ||   \
	    ((c) >= '0' && (c) <= '9') || (c) == '-' || (c) == '.' ||  \
	    (c) == '_' || (c) == '~')
#define URI_UPHEX(c) (((c) >= '0' && (c) <= '9') || ((c) >= 'A' && (c) <= 'F'))
#define URI_HEXV(c) ((c) <= '9' ? (c) - '0' : (c) - 'A' + 10)
#define URI_SEG_END(c) ((c) == 0 || (c) == '/' || (c) == '?' || (c) == '#')

/* Size-capped input strings (grade Pb): an object of symbolic size made the
 * array encoding of the parser explode (48 GB), so the string lives in a
 * CONSTANT-size object g_base[cap+1] and is RIGHT-ALIGNED in it: it occupies
 * the last len+1 bytes, its terminator is the last byte of the object.  Any
 * read past the terminator is therefore still out of bounds. */
char *g_base;
#define STR_RIGHT_ALIGNED_PRE(p, len, cap)                                  \
	((len) <= (cap) && __CPROVER_is_fresh(g_base, (cap) + 1) &&         \
	    __CPROVER_pointer_in_range_dfcc(g_base + ((cap) - (len)), (p),  \
	        g_base + ((cap) - (len))) &&                                \
	    (p)[(len)] == 0)

/* ---- scheme table (url.c nni_schemes[]: 35 entries, longest 8 chars) ---- */
#define URL_NSCHEMES 35
#define URL_SCHEME_MAXLEN 8
/* no NUL in s[0..j] / s has length exactly j (j <= 8) */
#define SCH_NO_NUL_UPTO(s, j, v)                            \
	__CPROVER_forall { size_t v; (v < 9) ==> ((v <= (j)) ==> \
	    (v < STR_ROOM(s) && (s)[v] != 0)) }
#define SCH_LEN_IS(s, j, v)                                            \
	((j) < STR_ROOM(s) && (s)[(j)] == 0 &&                         \
	    __CPROVER_forall { size_t v; (v < 9) ==> ((v < (j)) ==>    \
	        (v < STR_ROOM(s) && (s)[v] != 0)) })
/* input class of the scheme unit: at most 3 bytes after the first ':' */
#define STR_SHORT_TAIL(p, len, cap, v) \
	__CPROVER_forall { size_t v; (v < (cap)) ==> ((v + 4 < (len)) ==> (p)[v] != ':') }

/* input string snapshot (first 16 bytes) for the native replay driver */
#define VP_SNAP_RAW(p)                                                     \
	size_t vp_in_n = g_n;                                                  \
	uint8_t vp_in_r0 = (g_n > 0) ? (uint8_t) (p)[0] : 0, \
	        vp_in_r1 = (g_n > 1) ? (uint8_t) (p)[1] : 0, \
	        vp_in_r2 = (g_n > 2) ? (uint8_t) (p)[2] : 0, \
	        vp_in_r3 = (g_n > 3) ? (uint8_t) (p)[3] : 0, \
	        vp_in_r4 = (g_n > 4) ? (uint8_t) (p)[4] : 0, \
	        vp_in_r5 = (g_n > 5) ? (uint8_t) (p)[5] : 0, \
	        vp_in_r6 = (g_n > 6) ? (uint8_t) (p)[6] : 0, \
	        vp_in_r7 = (g_n > 7) ? (uint8_t) (p)[7] : 0, \
	        vp_in_r8 = (g_n > 8) ? (uint8_t) (p)[8] : 0, \
	        vp_in_r9 = (g_n > 9) ? (uint8_t) (p)[9] : 0, \
	        vp_in_r10 = (g_n > 10) ? (uint8_t) (p)[10] : 0, \
	        vp_in_r11 = (g_n > 11) ? (uint8_t) (p)[11] : 0, \
	        vp_in_r12 = (g_n > 12) ? (uint8_t) (p)[12] : 0, \
	        vp_in_r13 = (g_n > 13) ? (uint8_t) (p)[13] : 0, \
	        vp_in_r14 = (g_n > 14) ? (uint8_t) (p)[14] : 0, \
	        vp_in_r15 = (g_n > 15) ? (uint8_t) (p)[15] : 0
#define VP_SNAP_URL(u)                                                     \
	size_t vp_in_bufsz = (u)->u_bufsz, vp_in_host = ((u)->u_hostname != NULL), \
	       vp_in_user = ((u)->u_userinfo != NULL),                         \
	       vp_in_query = ((u)->u_query != NULL),                           \
	       vp_in_frag = ((u)->u_fragment != NULL)


#endif
