/* Environment of url.c (ASSUMED models, ghost accounting only).
 *
 * Allocator: same model as include/env_alloc.h (nni_alloc = sz > 0 ? malloc :
 * NULL, malloc may fail, sized-free assertion) plus one more ghost counter,
 * g_alloc_refused, that counts the NON-EMPTY requests the allocator refused:
 * "NNG_ENOMEM only when memory really was refused" needs it. */
void *
nni_alloc(size_t sz)
{
	void *p = (sz > 0 ? malloc(sz) : NULL);
	if (p != NULL) {
		g_alloc_ok++;
	} else if (sz > 0) {
		g_alloc_refused++;
	}
	return (p);
}

void *
nni_zalloc(size_t sz)
{
	void *p = (sz > 0 ? calloc(1, sz) : NULL);
	if (p != NULL) {
		g_alloc_ok++;
	} else if (sz > 0) {
		g_alloc_refused++;
	}
	return (p);
}

void
nni_free(void *ptr, size_t size)
{
	if (ptr != NULL) {
		g_free_calls++;
		__CPROVER_assert(__CPROVER_OBJECT_SIZE(ptr) == size,
		    "sized free: nni_free size equals allocation size");
		__CPROVER_assert(__CPROVER_POINTER_OFFSET(ptr) == 0,
		    "sized free: nni_free of block start");
	}
	free(ptr);
}

/* nni_strdup (src/core/strs.c): same body as the real one. */
char *
nni_strdup(const char *src)
{
	char  *dst;
	size_t len = strlen(src) + 1;

	if ((dst = nni_alloc(len)) != NULL) {
		memcpy(dst, src, len);
	}
	return (dst);
}

/* nni_get_port_by_name (platform resolver: strtol / getservbyname): ASSUMED
 * to either fail or store some 16-bit port; the name is not interpreted. */
int
nni_get_port_by_name(const char *name, uint32_t *portp)
{
	__CPROVER_assert(__CPROVER_r_ok(name, 1), "port name readable");
	if (nondet_bool()) {
		return (NNG_EADDRINVAL);
	}
	*portp = nondet_u16();
	return (0);
}

/* snprintf(dst, n, "%s", s): exact model (truncating copy, always
 * NUL-terminated for n > 0, returns strlen(s)). */
#include <stdarg.h>
int
vp_snprintf(char *dst, size_t n, const char *fmt, ...)
{
	va_list     ap;
	const char *s;
	size_t      l, c;
	__CPROVER_assert(fmt[0] == '%' && fmt[1] == 's' && fmt[2] == 0,
	    "snprintf model: only the \"%s\" format is modelled");
	va_start(ap, fmt);
	s = va_arg(ap, const char *);
	va_end(ap);
	l = strlen(s);
	if (n > 0) {
		c = (l < n - 1) ? l : n - 1;
		memcpy(dst, s, c);
		dst[c] = 0;
	}
	return ((int) l);
}
