/* Environment of url.c (ASSUMED models, ghost accounting only).
 *
 * Allocator: same model as include/env_alloc.h (nni_alloc = sz > 0 ? malloc :
 * NULL, malloc may fail, sized-free assertion) plus one more ghost counter,
 * g_alloc_refused, that counts the NON-EMPTY requests the allocator refused:
 * "NNG_ENOMEM only when memory really was refused" needs it. */
void *
nni_alloc(size_t sz)
{
	void *p = (sz > 0 ? malloc(sz) : NULL);
	if (p != NULL) {
		g_alloc_ok++;
	} else if (sz > 0) {
		g_alloc_refused++;
	}
	return (p);
}

void *
nni_zalloc(size_t sz)
{
	void *p = (sz > 0 ? calloc(1, sz) : NULL);
	if (p != NULL) {
		g_alloc_ok++;
	} else if (sz > 0) {
		g_alloc_refused++;
	}
	return (p);
}

void
nni_free(void *ptr, size_t size)
{
	if (ptr != NULL) {
		g_free_calls++;
		__CPROVER_assert(__CPROVER_OBJECT_SIZE(ptr) == size,
		    "sized free: nni_free size equals allocation size");
		__CPROVER_assert(__CPROVER_POINTER_OFFSET(ptr) == 0,
		    "sized free: nni_free of block start");
	}
	free(ptr);
}
