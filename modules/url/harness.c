/* One entry per unit: arguments unconstrained, the precondition (assumed by
 * the DFCC wrapper) is the only restriction. */
#define VP_HAVOC_GHOSTS()                                            \
	do {                                                         \
		g_k             = nondet_size_t();                   \
		g_j             = nondet_size_t();                   \
		g_n             = nondet_size_t();                   \
		g_b             = nondet_u8();                       \
		g_exit          = nondet_size_t();                   \
		g_base          = nondet_ptr();                      \
		g_w[0] = nondet_u8(); g_w[1] = nondet_u8(); g_w[2] = nondet_u8(); g_w[3] = nondet_u8(); g_w[4] = nondet_u8(); g_w[5] = nondet_u8(); g_w[6] = nondet_u8(); g_w[7] = nondet_u8(); g_w[8] = nondet_u8(); g_w[9] = nondet_u8(); g_w[10] = nondet_u8(); \
		g_free_calls    = nondet_size_t();                   \
		g_alloc_ok      = nondet_size_t();                   \
		g_alloc_refused = nondet_size_t();                   \
		__CPROVER_assume(g_alloc_ok < ((size_t) 1 << 40));   \
		__CPROVER_assume(g_free_calls < ((size_t) 1 << 40)); \
		__CPROVER_assume(g_alloc_refused < ((size_t) 1 << 40)); \
	} while (0)

#ifndef VP_TABLES_ONLY
void h_utf8_validate(void) { void *p; VP_HAVOC_GHOSTS(); url_utf8_validate(p); VP_CANARY(); }
void h_hex_val(void) { char c; url_hex_val(c); VP_CANARY(); }
void h_clone_inline(void) { nng_url *d; nng_url *s; VP_HAVOC_GHOSTS(); nni_url_clone_inline(d, s); VP_CANARY(); }
void h_url_clone(void) { nng_url **dp; nng_url *s; VP_HAVOC_GHOSTS(); nng_url_clone(dp, s); VP_CANARY(); }
void h_parse_inner(void) { nng_url *u; char *raw; VP_HAVOC_GHOSTS(); vp_tables_init(); nni_url_parse_inline_inner(u, raw); VP_CANARY(); }
void h_canonify(void) { char *o; VP_HAVOC_GHOSTS(); nni_url_canonify_uri(o); VP_CANARY(); }
void h_default_port(void) { char *sch; VP_HAVOC_GHOSTS(); vp_tables_init(); nni_url_default_port(sch); VP_CANARY(); }
#endif
/* no DFCC: the statics still have their real initialisers here */
void h_tables_match(void)
{
	__CPROVER_assert(VP_NELEM(nni_schemes) == VP_NSCHEMES + 1 && VP_NSCHEMES == URL_NSCHEMES, "scheme table: same number of entries");
	__CPROVER_assert(VP_NELEM(nni_url_default_ports) == VP_NPORTS + 1, "port table: same number of entries");
#define X(i, n) __CPROVER_assert(nni_schemes[i] != NULL && strcmp(nni_schemes[i], n) == 0 && strlen(n) <= URL_SCHEME_MAXLEN, "scheme table: entry equal, length <= 8");
	VP_SCHEMES(X)
#undef X
	__CPROVER_assert(nni_schemes[VP_NSCHEMES] == NULL, "scheme table: terminator at the same place");
#define X(i, n, p) __CPROVER_assert(nni_url_default_ports[i].scheme != NULL && strcmp(nni_url_default_ports[i].scheme, n) == 0 && nni_url_default_ports[i].port == p, "port table: entry equal");
	VP_PORTS(X)
#undef X
	__CPROVER_assert(nni_url_default_ports[VP_NPORTS].scheme == NULL, "port table: terminator at the same place");
	VP_CANARY();
}
