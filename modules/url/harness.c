/* One entry per unit: arguments unconstrained, the precondition (assumed by
 * the DFCC wrapper) is the only restriction. */
#define VP_HAVOC_GHOSTS()                                            \
	do {                                                         \
		g_k             = nondet_size_t();                   \
		g_j             = nondet_size_t();                   \
		g_n             = nondet_size_t();                   \
		g_b             = nondet_u8();                       \
		g_exit          = nondet_size_t();                   \
		for (int vp_i = 0; vp_i < 11; vp_i++) g_w[vp_i] = nondet_u8(); \
		g_free_calls    = nondet_size_t();                   \
		g_alloc_ok      = nondet_size_t();                   \
		g_alloc_refused = nondet_size_t();                   \
		__CPROVER_assume(g_alloc_ok < ((size_t) 1 << 40));   \
		__CPROVER_assume(g_free_calls < ((size_t) 1 << 40)); \
		__CPROVER_assume(g_alloc_refused < ((size_t) 1 << 40)); \
	} while (0)

void h_utf8_validate(void) { void *p; VP_HAVOC_GHOSTS(); url_utf8_validate(p); VP_CANARY(); }
