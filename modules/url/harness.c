/* One entry per unit: arguments unconstrained, the precondition (assumed by
 * the DFCC wrapper) is the only restriction. */
#define VP_HAVOC_GHOSTS()                                            \
	do {                                                         \
		g_k             = nondet_size_t();                   \
		g_j             = nondet_size_t();                   \
		g_n             = nondet_size_t();                   \
		g_b             = nondet_u8();                       \
		g_exit          = nondet_size_t();                   \
		for (int vp_i = 0; vp_i < 11; vp_i++) g_w[vp_i] = nondet_u8(); \
		g_free_calls    = nondet_size_t();                   \
		g_alloc_ok      = nondet_size_t();                   \
		g_alloc_refused = nondet_size_t();                   \
		__CPROVER_assume(g_alloc_ok < ((size_t) 1 << 40));   \
		__CPROVER_assume(g_free_calls < ((size_t) 1 << 40)); \
		__CPROVER_assume(g_alloc_refused < ((size_t) 1 << 40)); \
	} while (0)

void h_utf8_validate(void) { void *p; VP_HAVOC_GHOSTS(); url_utf8_validate(p); VP_CANARY(); }
void h_hex_val(void) { char c; url_hex_val(c); VP_CANARY(); }
void h_clone_inline(void) { nng_url *d; nng_url *s; VP_HAVOC_GHOSTS(); nni_url_clone_inline(d, s); VP_CANARY(); }
void h_url_clone(void) { nng_url **dp; nng_url *s; VP_HAVOC_GHOSTS(); nng_url_clone(dp, s); VP_CANARY(); }
void h_parse_inner(void) { nng_url *u; char *raw; VP_HAVOC_GHOSTS(); nni_url_parse_inline_inner(u, raw); VP_CANARY(); }
void h_canonify(void) { char *o; VP_HAVOC_GHOSTS(); nni_url_canonify_uri(o); VP_CANARY(); }
void h_default_port(void) { char *sch; VP_HAVOC_GHOSTS(); nni_url_default_port(sch); VP_CANARY(); }
