/* Contracts for src/core/url.c (redeclarations after the definitions).
 * Every top-level postcondition is taken from property C19 and the RFCs it
 * names (RFC 3629 for UTF-8, RFC 3986 for escapes and normalisation), not
 * from the code. */
#ifndef VP_URL_CONTRACTS_H
#define VP_URL_CONTRACTS_H

#define RV __CPROVER_return_value
#define OLD(e) __CPROVER_old(e)

/* ---- url_utf8_validate ---------------------------------------------------
 * Input: any object of g_n+1 bytes whose last byte is 0 (the string is
 * whatever precedes the FIRST 0; g_n is unconstrained).
 * g_exit = scan offset at return (ghost set before every return).
 * g_k free ghost index, g_w = the string bytes around it (U8_WIN_PRE).
 *  always => no 0 before g_exit (the scan stayed inside the string);
 *  accept => g_exit is the terminator and every index g_k before it is good
 *            by the RFC 3629 table (spec.h);
 *  reject => some index in g_exit-4 .. g_exit is not good, i.e. the string
 *            really is malformed. */
static nng_err url_utf8_validate(void *arg)
    /* clang-format off */
__CPROVER_requires(g_n < URL_STR_MAX && __CPROVER_is_fresh(arg, g_n + 1) && U8P(arg)[g_n] == 0)
/* window equations: one clause each (a single conjunction of guarded
 * dereferences made goto conversion exponential) */
__CPROVER_requires(U8_WIN_EQ(U8P(arg), g_n, 0))
__CPROVER_requires(U8_WIN_EQ(U8P(arg), g_n, 1))
__CPROVER_requires(U8_WIN_EQ(U8P(arg), g_n, 2))
__CPROVER_requires(U8_WIN_EQ(U8P(arg), g_n, 3))
__CPROVER_requires(U8_WIN_EQ(U8P(arg), g_n, 4))
__CPROVER_requires(U8_WIN_EQ(U8P(arg), g_n, 5))
__CPROVER_requires(U8_WIN_EQ(U8P(arg), g_n, 6))
__CPROVER_requires(U8_WIN_EQ(U8P(arg), g_n, 7))
__CPROVER_requires(U8_WIN_EQ(U8P(arg), g_n, 8))
__CPROVER_requires(U8_WIN_EQ(U8P(arg), g_n, 9))
__CPROVER_requires(U8_WIN_EQ(U8P(arg), g_n, 10))
__CPROVER_assigns(g_exit)
__CPROVER_ensures(RV == NNG_OK || RV == NNG_EINVAL)
__CPROVER_ensures(g_exit <= g_n)
__CPROVER_ensures(g_k < g_exit ==> g_w[7] != 0)
__CPROVER_ensures((RV == NNG_OK && g_k == g_exit) ==> g_w[7] == 0)
__CPROVER_ensures((RV == NNG_OK && g_k < g_exit) ==> U8_WIN_GOOD(0))
__CPROVER_ensures((RV != NNG_OK && g_k == g_exit) ==> U8_WIN_BAD_NEAR)
    /* clang-format on */
    ;

#endif
