/* Contracts for src/core/url.c (redeclarations after the definitions).
 * Every top-level postcondition is taken from property C19 and the RFCs it
 * names (RFC 3629 for UTF-8, RFC 3986 for escapes and normalisation), not
 * from the code. */
#ifndef VP_URL_CONTRACTS_H
#define VP_URL_CONTRACTS_H

#define RV __CPROVER_return_value
#define OLD(e) __CPROVER_old(e)

/* ---- url_utf8_validate ---------------------------------------------------
 * Input: any object of g_n+1 bytes whose last byte is 0 (the string is
 * whatever precedes the FIRST 0; g_n is unconstrained).
 * g_exit = scan offset at return (ghost set before every return).
 * g_k free ghost index, g_w = the string bytes around it (U8_WIN_PRE).
 *  always => no 0 before g_exit (the scan stayed inside the string);
 *  accept => g_exit is the terminator and every index g_k before it is good
 *            by the RFC 3629 table (spec.h);
 *  reject => some index in g_exit-4 .. g_exit is not good, i.e. the string
 *            really is malformed. */
static nng_err url_utf8_validate(void *arg)
    /* clang-format off */
__CPROVER_requires(g_n < URL_STR_MAX && __CPROVER_is_fresh(arg, g_n + 1) && U8P(arg)[g_n] == 0)
/* window equations: one clause each (a single conjunction of guarded
 * dereferences made goto conversion exponential) */
__CPROVER_requires(U8_WIN_EQ(U8P(arg), g_n, 0))
__CPROVER_requires(U8_WIN_EQ(U8P(arg), g_n, 1))
__CPROVER_requires(U8_WIN_EQ(U8P(arg), g_n, 2))
__CPROVER_requires(U8_WIN_EQ(U8P(arg), g_n, 3))
__CPROVER_requires(U8_WIN_EQ(U8P(arg), g_n, 4))
__CPROVER_requires(U8_WIN_EQ(U8P(arg), g_n, 5))
__CPROVER_requires(U8_WIN_EQ(U8P(arg), g_n, 6))
__CPROVER_requires(U8_WIN_EQ(U8P(arg), g_n, 7))
__CPROVER_requires(U8_WIN_EQ(U8P(arg), g_n, 8))
__CPROVER_requires(U8_WIN_EQ(U8P(arg), g_n, 9))
__CPROVER_requires(U8_WIN_EQ(U8P(arg), g_n, 10))
__CPROVER_assigns(g_exit)
__CPROVER_ensures(RV == NNG_OK || RV == NNG_EINVAL)
__CPROVER_ensures(g_exit <= g_n)
__CPROVER_ensures(g_k < g_exit ==> g_w[7] != 0)
__CPROVER_ensures((RV == NNG_OK && g_k == g_exit) ==> g_w[7] == 0)
__CPROVER_ensures((RV == NNG_OK && g_k < g_exit) ==> U8_WIN_GOOD(0))
__CPROVER_ensures((RV != NNG_OK && g_k == g_exit) ==> U8_WIN_BAD_NEAR)
    /* clang-format on */
    ;

/* ---- url_hex_val -------------------------------------------------------- */
static uint8_t url_hex_val(char c)
    /* clang-format off */
__CPROVER_assigns()
__CPROVER_ensures(RV <= 15)
__CPROVER_ensures((c >= '0' && c <= '9') ==> RV == c - '0')
__CPROVER_ensures((c >= 'A' && c <= 'F') ==> RV == 10 + (c - 'A'))
__CPROVER_ensures((c >= 'a' && c <= 'f') ==> RV == 10 + (c - 'a'))
    /* clang-format on */
    ;

/* ---- nni_url_clone_inline / nng_url_clone --------------------------------
 * C19: "nng_url_clone yields an equal, independent URL whatever its length".
 * Source: any well-shaped URL, inline or heap storage, hostname / userinfo /
 * query / fragment each NULL or inside the storage, path inside the storage.
 * ASSUMED: the destination structure is zero-initialised (every caller hands
 * in memory from nni_zalloc).
 *  equal       : scheme, port, storage size, every storage byte (ghost g_k /
 *                g_b), every component NULL iff the source's is, else at the
 *                same offset;
 *  independent : components point into the clone's OWN storage (its u_static
 *                or a fresh heap block), the source is not assigned;
 *  errors      : only NNG_ENOMEM, only when the allocator refused a non-empty
 *                request, and then nothing is left allocated. */
#define URL_SRC_PRE(src)                                                      \
	(__CPROVER_is_fresh(src, sizeof(nng_url)) && URL_STORAGE_PRE(src) &&  \
	    URL_COMP_PRE(src, u_hostname) && URL_COMP_PRE(src, u_userinfo) && \
	    URL_COMP_PRE(src, u_query) && URL_COMP_PRE(src, u_fragment) &&    \
	    __CPROVER_pointer_in_range_dfcc((src)->u_buffer, (src)->u_path,   \
	        (src)->u_buffer + (URL_STORE(src) - 1)))
#define URL_ZEROED(d)                                                        \
	((d)->u_scheme == NULL && (d)->u_userinfo == NULL &&                 \
	    (d)->u_hostname == NULL && (d)->u_port == 0 &&                   \
	    (d)->u_path == NULL && (d)->u_query == NULL &&                   \
	    (d)->u_fragment == NULL && (d)->u_buffer == NULL && (d)->u_bufsz == 0)
/* one clause per component: a single conjunction of guarded dereferences
 * makes goto conversion exponential */
#define URL_CLONE_POST_CLAUSES(d, src)                                                   \
	__CPROVER_ensures(RV == NNG_OK ==> ((d)->u_scheme == (src)->u_scheme && (d)->u_port == (src)->u_port && (d)->u_bufsz == (src)->u_bufsz)) \
	__CPROVER_ensures(RV == NNG_OK ==> URL_COMP_CLONED(d, src, u_hostname))           \
	__CPROVER_ensures(RV == NNG_OK ==> URL_COMP_CLONED(d, src, u_userinfo))           \
	__CPROVER_ensures(RV == NNG_OK ==> URL_COMP_CLONED(d, src, u_query))              \
	__CPROVER_ensures(RV == NNG_OK ==> URL_COMP_CLONED(d, src, u_fragment))           \
	__CPROVER_ensures(RV == NNG_OK ==> URL_COMP_CLONED(d, src, u_path))

nng_err nni_url_clone_inline(nng_url *dst, const nng_url *src)
    /* clang-format off */
__CPROVER_requires(URL_SRC_PRE(src))
__CPROVER_requires(__CPROVER_is_fresh(dst, sizeof(nng_url)) && URL_ZEROED(dst))
__CPROVER_requires(g_k < URL_STORE(src) ==> g_b == U8P(src->u_buffer)[g_k])
__CPROVER_assigns(*dst, g_alloc_ok, g_alloc_refused)
__CPROVER_ensures(RV == NNG_OK || RV == NNG_ENOMEM)
__CPROVER_ensures(RV == NNG_ENOMEM ==> (src->u_bufsz != 0 && g_alloc_refused == OLD(g_alloc_refused) + 1 && g_alloc_ok == OLD(g_alloc_ok)))
__CPROVER_ensures(RV == NNG_OK ==> g_alloc_refused == OLD(g_alloc_refused))
__CPROVER_ensures(RV == NNG_OK ==> g_alloc_ok == OLD(g_alloc_ok) + (src->u_bufsz != 0 ? 1 : 0))
__CPROVER_ensures((RV == NNG_OK && src->u_bufsz != 0) ==> __CPROVER_is_fresh(dst->u_buffer, src->u_bufsz))
__CPROVER_ensures((RV == NNG_OK && src->u_bufsz == 0) ==> dst->u_buffer == &dst->u_static[0])
URL_CLONE_POST_CLAUSES(dst, src)
__CPROVER_ensures((RV == NNG_OK && g_k < URL_STORE(src)) ==> U8P(dst->u_buffer)[g_k] == g_b)
    /* clang-format on */
    ;

nng_err nng_url_clone(nng_url **dstp, const nng_url *src)
    /* clang-format off */
__CPROVER_requires(URL_SRC_PRE(src))
__CPROVER_requires(__CPROVER_is_fresh(dstp, sizeof(*dstp)))
__CPROVER_requires(g_k < URL_STORE(src) ==> g_b == U8P(src->u_buffer)[g_k])
__CPROVER_assigns(*dstp, g_alloc_ok, g_alloc_refused, g_free_calls)
__CPROVER_ensures(RV == NNG_OK || RV == NNG_ENOMEM)
/* failure: the caller's pointer is untouched, memory really was refused, nothing leaked */
__CPROVER_ensures(RV != NNG_OK ==> *dstp == OLD(*dstp))
__CPROVER_ensures(RV != NNG_OK ==> g_alloc_refused == OLD(g_alloc_refused) + 1)
__CPROVER_ensures(RV != NNG_OK ==> (g_alloc_ok - OLD(g_alloc_ok) == g_free_calls - OLD(g_free_calls)))
/* success: a fresh structure owning exactly its own storage */
__CPROVER_ensures(RV == NNG_OK ==> (g_alloc_refused == OLD(g_alloc_refused) && g_free_calls == OLD(g_free_calls)))
__CPROVER_ensures(RV == NNG_OK ==> g_alloc_ok == OLD(g_alloc_ok) + (src->u_bufsz != 0 ? 2 : 1))
__CPROVER_ensures(RV == NNG_OK ==> __CPROVER_is_fresh(*dstp, sizeof(nng_url)))
__CPROVER_ensures((RV == NNG_OK && src->u_bufsz != 0) ==> __CPROVER_is_fresh((*dstp)->u_buffer, src->u_bufsz))
__CPROVER_ensures((RV == NNG_OK && src->u_bufsz == 0) ==> (*dstp)->u_buffer == &(*dstp)->u_static[0])
URL_CLONE_POST_CLAUSES(*dstp, src)
__CPROVER_ensures((RV == NNG_OK && g_k < URL_STORE(src)) ==> U8P((*dstp)->u_buffer)[g_k] == g_b)
    /* clang-format on */
    ;

/* ---- nni_url_default_port -------------------------------------------------
 * Memory safety and frame for any NUL-terminated scheme string of any length
 * (every loop is bounded by the port table: 12 entries, names <= 6 chars);
 * a non-zero result is a port of the table. */
uint16_t nni_url_default_port(const char *scheme)
    /* clang-format off */
__CPROVER_requires(g_n < URL_STR_MAX && __CPROVER_is_fresh(scheme, g_n + 1) && scheme[g_n] == 0)
__CPROVER_assigns()
__CPROVER_ensures(RV == 0 || RV == 9418 || RV == 70 || RV == 80 || RV == 443 || RV == 22 || RV == 23)
    /* clang-format on */
    ;

/* ---- nni_url_canonify_uri -------------------------------------------------
 * Input: the string between `out` and the end of its object, terminator
 * within the first URL_QCAP+1 bytes (grade Pb).
 *
 * Two contract texts, selected per unit:
 *  VP_CANON_ABSTRACT  memory safety + "still terminated" only; this is the
 *                     text the parser unit uses when it REPLACES the call,
 *                     and unit canonify_abs enforces the very same text.
 *  default            RFC 3986 6.2.2 normal form of an accepted string, at
 *                     the free ghost index g_k (see clauses). */
#ifdef VP_CANON_ABSTRACT
nng_err nni_url_canonify_uri(char *out)
    /* clang-format off */
__CPROVER_requires(__CPROVER_is_fresh(out, URL_QCAP + 1))
__CPROVER_requires(STR_TERMINATED_WITHIN(out, URL_QCAP, vp_c1))
__CPROVER_assigns(__CPROVER_object_from(out), g_exit)
__CPROVER_ensures(RV == NNG_OK || RV == NNG_EINVAL)
__CPROVER_ensures(STR_TERMINATED_WITHIN(out, URL_QCAP, vp_c2))
    /* clang-format on */
    ;
#else
nng_err nni_url_canonify_uri(char *out)
    /* clang-format off */
__CPROVER_requires(__CPROVER_is_fresh(out, URL_QCAP + 1))
/* g_n := strlen(out) (defines the ghost, does not restrict the input) */
__CPROVER_requires(g_n <= URL_QCAP && out[g_n] == 0)
__CPROVER_requires(g_n == 0 || STR_BEFORE_END(out, g_n - 1, URL_QCAP, vp_c0))
__CPROVER_assigns(__CPROVER_object_from(out), g_exit)
__CPROVER_ensures(RV == NNG_OK || RV == NNG_EINVAL)
/* in place, never longer than the input */
__CPROVER_ensures(__CPROVER_exists { size_t vp_c3; (vp_c3 <= URL_QCAP) && (vp_c3 <= g_n && out[vp_c3] == 0) })
/* escapes that remain are upper-case hex and do not encode an unreserved character */
__CPROVER_ensures((RV == NNG_OK && g_k < URL_QCAP && STR_BEFORE_END(out, g_k, URL_QCAP, vp_c4) && out[g_k] == '%') ==>
    (URI_UPHEX(out[g_k + 1]) && URI_UPHEX(out[g_k + 2]) && !URI_UNRESERVED(URI_HEXV(out[g_k + 1]) * 16 + URI_HEXV(out[g_k + 2]))))
/* path part: no empty segment ... */
__CPROVER_ensures((RV == NNG_OK && g_k < URL_QCAP && STR_BEFORE_END(out, g_k, URL_QCAP, vp_c5) && STR_IN_PATH(out, g_k, URL_QCAP, vp_c6) && out[g_k] == '/') ==> out[g_k + 1] != '/')
/* ... and no "." or ".." segment */
__CPROVER_ensures((RV == NNG_OK && g_k < URL_QCAP && STR_BEFORE_END(out, g_k, URL_QCAP, vp_c7) && STR_IN_PATH(out, g_k, URL_QCAP, vp_c8) && out[g_k] == '/' && out[g_k + 1] == '.') ==>
    (!URI_SEG_END(out[g_k + 2]) && !(out[g_k + 2] == '.' && URI_SEG_END(out[g_k + 3]))))
    /* clang-format on */
    ;
#endif

/* ---- nni_url_parse_inline_inner -------------------------------------------
 * C19: "accepts a string only if it has a known scheme followed by ://".
 * Input: any string of g_n <= URL_STR_CAP bytes (grade Pb), right-aligned in a
 * constant-size object so that its terminator is the object's last byte.
 * ASSUMED: the nng_url is zero-initialised (callers use nni_zalloc; the
 * parser itself tests u_scheme == NULL after the table search).
 *  accept => u_scheme is an entry of the scheme table, and the input starts
 *            with EXACTLY that entry followed by "://" (g_j free ghost: if
 *            g_j is inside the entry the bytes agree, if g_j is its length
 *            the input continues with "://");
 *            storage is the inline array (input shorter than 128), every
 *            component is NULL or points into it, path is not NULL;
 *  reject => one of the documented codes. */
static nng_err nni_url_parse_inline_inner(nng_url *url, const char *raw)
    /* clang-format off */
__CPROVER_requires(__CPROVER_is_fresh(url, sizeof(nng_url)) && URL_ZEROED(url))
__CPROVER_requires(STR_RIGHT_ALIGNED_PRE(raw, g_n, URL_QCAP))
#ifdef VP_PARSE_SHORT_TAIL
/* scheme unit only: nothing but "//" and at most one more byte after the first ':' */
__CPROVER_requires(STR_SHORT_TAIL(raw, g_n, URL_QCAP, vp_p0))
#endif
__CPROVER_assigns(*url, g_alloc_ok, g_alloc_refused, g_exit)
__CPROVER_ensures(RV == NNG_OK || RV == NNG_EINVAL || RV == NNG_ENOTSUP || RV == NNG_ENOMEM)
__CPROVER_ensures(RV == NNG_OK ==> __CPROVER_exists { int vp_s; (0 <= vp_s && vp_s < URL_NSCHEMES) && url->u_scheme == nni_schemes[vp_s] })
__CPROVER_ensures((RV == NNG_OK && g_j < URL_SCHEME_MAXLEN && SCH_NO_NUL_UPTO(url->u_scheme, g_j, vp_i1)) ==> (g_j < g_n && raw[g_j] == url->u_scheme[g_j]))
__CPROVER_ensures((RV == NNG_OK && g_j <= URL_SCHEME_MAXLEN && SCH_LEN_IS(url->u_scheme, g_j, vp_i2)) ==> (g_j + 2 < g_n && raw[g_j] == ':' && raw[g_j + 1] == '/' && raw[g_j + 2] == '/'))
__CPROVER_ensures((RV == NNG_OK && g_n < URL_INLINE_SZ) ==> (url->u_bufsz == 0 && url->u_buffer == &url->u_static[0]))
__CPROVER_ensures((RV == NNG_OK && g_n < URL_INLINE_SZ) ==> (url->u_path != NULL && __CPROVER_same_object(url->u_path, url->u_buffer)))
__CPROVER_ensures((RV == NNG_OK && g_n < URL_INLINE_SZ) ==> (url->u_hostname == NULL || __CPROVER_same_object(url->u_hostname, url->u_buffer)))
__CPROVER_ensures((RV == NNG_OK && g_n < URL_INLINE_SZ) ==> (url->u_userinfo == NULL || __CPROVER_same_object(url->u_userinfo, url->u_buffer)))
__CPROVER_ensures((RV == NNG_OK && g_n < URL_INLINE_SZ) ==> (url->u_query == NULL || __CPROVER_same_object(url->u_query, url->u_buffer)))
__CPROVER_ensures((RV == NNG_OK && g_n < URL_INLINE_SZ) ==> (url->u_fragment == NULL || __CPROVER_same_object(url->u_fragment, url->u_buffer)))
    /* clang-format on */
    ;

#endif
