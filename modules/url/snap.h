/* Entry snapshots for the native replay of nni_url_default_port and nni_url_canonify_uri
 * (macros only; read by vp/replay.py).  No proof obligation on the reads. */
#ifndef VP_URL_SNAP_H
#define VP_URL_SNAP_H
#define VP_URLSNAP_BEGIN                                                           \
	_Pragma("CPROVER check push") _Pragma("CPROVER check disable \"pointer\"")   \
	_Pragma("CPROVER check disable \"bounds\"")                                  \
	_Pragma("CPROVER check disable \"pointer-primitive\"")                       \
	_Pragma("CPROVER check disable \"pointer-overflow\"")
#define VP_URLSNAP_END _Pragma("CPROVER check pop")
/* scheme string of g_n bytes (ghost of the contract): first 12 bytes */
#define VP_SNAP_PB(i) uint8_t vp_in_p##i = ((size_t) (i) <= g_n) ? (uint8_t) scheme[i] : (uint8_t) 0
#define VP_SNAP_PORT()                                                             \
	VP_URLSNAP_BEGIN                                                               \
	size_t vp_in_n = g_n;                                                          \
	VP_SNAP_PB(0); VP_SNAP_PB(1); VP_SNAP_PB(2); VP_SNAP_PB(3); VP_SNAP_PB(4); VP_SNAP_PB(5); VP_SNAP_PB(6); VP_SNAP_PB(7); \
	VP_SNAP_PB(8); VP_SNAP_PB(9); VP_SNAP_PB(10); VP_SNAP_PB(11);                  \
	VP_URLSNAP_END
/* the URI: an object of URL_QCAP + 1 bytes, terminator somewhere inside */
#define VP_SNAP_CB(i) uint8_t vp_in_c##i = ((size_t) (i) <= (size_t) URL_QCAP) ? (uint8_t) out[i] : (uint8_t) 0
#define VP_SNAP_CANON()                                                            \
	VP_URLSNAP_BEGIN                                                               \
	size_t vp_in_qcap = (size_t) URL_QCAP;                                         \
	VP_SNAP_CB(0); VP_SNAP_CB(1); VP_SNAP_CB(2); VP_SNAP_CB(3); VP_SNAP_CB(4); VP_SNAP_CB(5); VP_SNAP_CB(6); VP_SNAP_CB(7); \
	VP_SNAP_CB(8); VP_SNAP_CB(9); VP_SNAP_CB(10); VP_SNAP_CB(11); VP_SNAP_CB(12); VP_SNAP_CB(13); VP_SNAP_CB(14); VP_SNAP_CB(15); \
	VP_SNAP_CB(16);                                                                \
	VP_URLSNAP_END
#endif
