// hostile raw AF_UNIX peer against an nng pull0 listener on ipc://
#include <nng/nng.h>
#include <stdio.h>
#include <string.h>
#include <unistd.h>
#include <poll.h>
#include <sys/socket.h>
#include <sys/un.h>
static int peer_connect(const char *path) {
	int fd = socket(AF_UNIX, SOCK_STREAM, 0);
	struct sockaddr_un sa; memset(&sa, 0, sizeof sa); sa.sun_family = AF_UNIX; strcpy(sa.sun_path, path);
	if (connect(fd, (struct sockaddr *) &sa, sizeof sa) != 0) { perror("connect"); return -1; }
	unsigned char hello[8] = {0, 'S', 'P', 0, 0, 0x50 /* push */, 0, 0}, in[8];
	write(fd, hello, 8);
	size_t got = 0; while (got < 8) { ssize_t n = read(fd, in + got, 8 - got); if (n <= 0) break; got += n; }
	return fd;
}
static int closed_by_nng(int fd) {
	struct pollfd p = {fd, POLLIN, 0};
	if (poll(&p, 1, 2000) <= 0) return 0;
	char c; return read(fd, &c, 1) <= 0; // EOF or ECONNRESET (unread data at close)
}
static int try_case(nng_socket s, const char *path, const char *what, const unsigned char *frame, size_t len, int expect_msg) {
	int fd = peer_connect(path);
	write(fd, frame, len);
	nng_msg *m = NULL;
	int rv = nng_recvmsg(s, &m, 0);
	int cl = closed_by_nng(fd);
	printf("%-28s recv rv=%d (%s) len=%zu peer-sees-close=%d => %s\n", what, rv, nng_strerror(rv), m ? nng_msg_len(m) : 0, cl,
	    (expect_msg ? (rv == 0) : (rv != 0 && cl)) ? "OK" : "UNEXPECTED");
	if (m) nng_msg_free(m);
	close(fd);
	return 0;
}
int main(void) {
	nng_socket s; const char *path = "/tmp/vp_ipc_hostile.sock"; char url[64];
	nng_init(NULL);
	snprintf(url, sizeof url, "ipc://%s", path);
	nng_pull0_open(&s);
	nng_socket_set_size(s, NNG_OPT_RECVMAXSZ, 16);
	nng_socket_set_ms(s, NNG_OPT_RECVTIMEO, 500);
	if (nng_listen(s, url, NULL, 0) != 0) { printf("listen failed\n"); return 1; }
	unsigned char ok[9 + 3]   = {1, 0,0,0,0,0,0,0,3, 'a','b','c'};
	unsigned char bad[9 + 3]  = {2, 0,0,0,0,0,0,0,3, 'a','b','c'};
	unsigned char zero[9 + 3] = {0, 0,0,0,0,0,0,0,3, 'a','b','c'};
	unsigned char big[9 + 17] = {1, 0,0,0,0,0,0,0,17};
	unsigned char inval[9]    = {1, 0x10,0,0,0,0,0,0,0};
	unsigned char edge[9 + 16] = {1, 0,0,0,0,0,0,0,16};
	try_case(s, path, "type 1, 3 bytes", ok, sizeof ok, 1);
	try_case(s, path, "type 2", bad, sizeof bad, 0);
	try_case(s, path, "type 0", zero, sizeof zero, 0);
	try_case(s, path, "len 17 > rcvmax 16", big, sizeof big, 0);
	try_case(s, path, "len 2^60 (invalid)", inval, sizeof inval, 0);
	try_case(s, path, "len 16 == rcvmax", edge, sizeof edge, 1);
	try_case(s, path, "type 1 again (listener ok)", ok, sizeof ok, 1);
	nng_socket_close(s);
	return 0;
}
