/* Contracts for the framing steps of src/sp/transport/ipc/ipc.c.
 * Every top-level postcondition is taken from C01/C11 and the SP-over-IPC
 * mapping (see spec.h), not from the code.  "Nothing else changes" is carried
 * by the assigns clauses: no field of the pipe outside them may be written. */
#ifndef VP_IPCFRAME_CONTRACTS_H
#define VP_IPCFRAME_CONTRACTS_H
/* clang-format off */
#define RV __CPROVER_return_value
#define OLD(e) __CPROVER_old(e)
#define P ((ipc_pipe *) arg)
#define TF_FIN_GHOSTS g_fin_calls, g_fin_last, g_fin_last_rv, g_fin_last_count, g_fin_last_sync, g_fin_mark_rv
/* every completion made by this call carried result `code` (g_fin_mark: free ghost sequence number) */
#define TF_FIN_ALL(code) ((g_fin_mark >= OLD(g_fin_calls) && g_fin_mark < g_fin_calls) ==> g_fin_mark_rv == (int) (code))
#define TF_IO_GHOSTS g_send_calls, g_recv_calls, g_io_conn, g_io_aio
#define TF_MSG_GHOSTS g_msg_alloc_calls, g_msg_alloc_sz, g_alloc_ok, g_msg_freed, g_msg_freed_at_j, g_msg_freed_last
#define TF_BUMP_GHOSTS g_bump_rx_calls, g_bump_tx_calls, g_bump_err_calls, g_bump_last
#define TF_LISTS_PRE(p) (g_recvq_addr == &(p)->recv_q && g_sendq_addr == &(p)->send_q && g_the_pipe == (void *) (p))
#define TF_ENV_PRE(p) (TF_LISTS_PRE(p) && VP_NO_LOCK_HELD)
#define TF_IOV_OF(a) (a).a_nio, __CPROVER_object_upto(&(a).a_iov[0], sizeof((a).a_iov))
#define TF_FIN_IS(aio, rv, cnt) (g_fin_calls == OLD(g_fin_calls) + 1 && g_fin_last == (aio) && g_fin_last_rv == (int) (rv) && g_fin_last_count == (cnt))
#define TF_NO_IO (g_send_calls == OLD(g_send_calls) && g_recv_calls == OLD(g_recv_calls))
#define TF_RECV_ARMED(p) (g_recv_calls == OLD(g_recv_calls) + 1 && g_send_calls == OLD(g_send_calls) && g_io_aio == &(p)->rx_aio && g_io_conn == (p)->conn)
#define TF_SEND_ARMED(p) (g_send_calls == OLD(g_send_calls) + 1 && g_recv_calls == OLD(g_recv_calls) && g_io_aio == &(p)->tx_aio && g_io_conn == (p)->conn)
#define TF_HDR_READ(p) ((p)->rx_aio.a_nio == 1 && (p)->rx_aio.a_iov[0].iov_buf == (void *) &(p)->rx_head[0] && (p)->rx_aio.a_iov[0].iov_len == TF_IPC_HDR)

/* ---- receive: arm the next header read --------------------------------- */
static void ipc_pipe_recv_start(ipc_pipe *p)
__CPROVER_requires(__CPROVER_is_fresh(p, sizeof(*p)) && TF_LISTS_PRE(p) && TF_Q_OK(g_recvq) && p->rx_msg == NULL)
__CPROVER_assigns(p->closed: g_recvq, TF_FIN_GHOSTS; !p->closed && g_recvq.n > 0: TF_IOV_OF(p->rx_aio), TF_IO_GHOSTS)
/* closed pipe: every queued receiver is refused, once each */
__CPROVER_ensures(p->closed ==> (g_recvq.n == 0 && g_fin_calls == OLD(g_fin_calls) + OLD(g_recvq.n) && (OLD(g_recvq.n) > 0 ==> g_fin_last_rv == NNG_ECLOSED)))
__CPROVER_ensures(p->closed ==> TF_FIN_ALL(NNG_ECLOSED))
/* open pipe with a receiver waiting: a read of exactly the 9 header bytes (type octet + size) is armed */
__CPROVER_ensures((!p->closed && g_recvq.n > 0) ==> (TF_HDR_READ(p) && TF_RECV_ARMED(p)))
;

/* ---- receive completion ------------------------------------------------ */
#define RX0 (P->rx_aio.a_iov[0])
#define O_RV   OLD(P->rx_aio.a_result)
#define O_N    OLD(P->rx_aio.a_count)
#define O_R    OLD(P->rx_aio.a_iov[0].iov_len)
#define O_BUF  ((uint8_t *) OLD(P->rx_aio.a_iov[0].iov_buf))
#define O_HEAD OLD(g_recvq.head)
#define O_QN   OLD(g_recvq.n)
#define O_MSG  OLD(P->rx_msg)
/* ipc.c does not consult p->closed here: closing the pipe closes the stream, which fails the read in flight */
#define RX_ERR  (O_RV != 0)
#define RX_PART (!RX_ERR && O_N < O_R)
#define RX_DONE (!RX_ERR && O_N == O_R)
#define RX_TYPE_OK (P->rx_head[0] == TF_IPC_MSG)
#define RX_LEN  TF_BE64(P->rx_head + 1)
/* refused: EVERY queued receiver gets the error (the connection is unusable: no further read is armed, the
 * protocol closes the pipe on the error), nothing is delivered to the first one */
#define RX_REFUSED(code) (g_recvq.n == 0 && g_fin_calls == OLD(g_fin_calls) + O_QN && g_fin_last_rv == (int) (code) && g_fin_last_count == 0 && TF_FIN_ALL(code) && P->rx_msg == NULL && TF_NO_IO && O_HEAD->a_msg == OLD(g_recvq.head->a_msg) && g_bump_err_calls == OLD(g_bump_err_calls) + 1)
/* delivered to the first receiver; on a pipe closed meanwhile the receivers queued behind it are refused with NNG_ECLOSED (recv_start) */
#define RX_DELIVERED_Q (P->closed ? (g_recvq.n == 0 && g_fin_calls == OLD(g_fin_calls) + O_QN) : (g_recvq.n == O_QN - 1 && g_fin_calls == OLD(g_fin_calls) + 1))
#define RX_NEXT_ARMED ((g_recvq.n > 0 && !P->closed) ? (TF_HDR_READ(P) && TF_RECV_ARMED(P)) : TF_NO_IO)

static void ipc_pipe_recv_cb(void *arg)
__CPROVER_requires(__CPROVER_is_fresh(arg, sizeof(ipc_pipe)) && TF_ENV_PRE(P))
/* a read is in flight only while a receiver is queued (established by recv_start / kept by this function) */
__CPROVER_requires(g_recvq.n >= 1 && __CPROVER_is_fresh(g_recvq.head, sizeof(nni_aio)) && TF_Q_OK(g_recvq))
__CPROVER_requires(P->rx_aio.a_nio == 1 && RX0.iov_len >= 1)
#ifdef TF_RX_BODY
/* body phase: the vector is the not yet filled tail of the body of rx_msg */
__CPROVER_requires(TF_MSG_PRE(P->rx_msg) && P->rx_msg->vm_blen >= 1)
__CPROVER_requires(__CPROVER_pointer_in_range_dfcc(P->rx_msg->vm_body, RX0.iov_buf, P->rx_msg->vm_body + (P->rx_msg->vm_blen - 1)))
__CPROVER_requires(RX0.iov_len == P->rx_msg->vm_blen - (size_t) ((uint8_t *) RX0.iov_buf - P->rx_msg->vm_body))
#else
/* header phase: the vector is the not yet filled tail of the 9 header bytes (type octet + size) */
__CPROVER_requires(P->rx_msg == NULL)
__CPROVER_requires(__CPROVER_pointer_in_range_dfcc(&P->rx_head[0], RX0.iov_buf, &P->rx_head[TF_IPC_HDR - 1]))
__CPROVER_requires(RX0.iov_len == TF_IPC_HDR - (size_t) ((uint8_t *) RX0.iov_buf - &P->rx_head[0]))
#endif
/* ASSUMED about the stream layer: a successful completion reports at most what was asked for */
__CPROVER_requires(P->rx_aio.a_result != 0 || P->rx_aio.a_count <= RX0.iov_len)
__CPROVER_assigns(P->rx_msg, TF_IOV_OF(P->rx_aio), g_recvq, g_recvq.head->a_msg, TF_FIN_GHOSTS, TF_IO_GHOSTS, TF_MSG_GHOSTS, TF_BUMP_GHOSTS, VP_SYNC_GHOSTS)
#ifdef TF_RX_BODY
__CPROVER_frees(P->rx_msg, P->rx_msg->vm_body)
#endif
__CPROVER_ensures(VP_NO_LOCK_HELD)
/* failed: every queued receiver gets the error, nothing is delivered, a partial message is released once */
__CPROVER_ensures(RX_ERR ==> (RX_REFUSED(O_RV) && g_msg_alloc_calls == OLD(g_msg_alloc_calls)))
#ifdef TF_RX_BODY
__CPROVER_ensures(RX_ERR ==> (g_msg_freed == OLD(g_msg_freed) + 1 && g_msg_freed_last == O_MSG))
#else
__CPROVER_ensures(RX_ERR ==> g_msg_freed == OLD(g_msg_freed))
#endif
/* partial: re-submitted with exactly the advanced vector; nothing else changes */
__CPROVER_ensures(RX_PART ==> (P->rx_aio.a_nio == 1 && (uint8_t *) RX0.iov_buf == O_BUF + O_N && RX0.iov_len == O_R - O_N && TF_RECV_ARMED(P)))
__CPROVER_ensures(RX_PART ==> (g_recvq.n == O_QN && g_recvq.head == O_HEAD && g_fin_calls == OLD(g_fin_calls) && P->rx_msg == O_MSG && g_msg_alloc_calls == OLD(g_msg_alloc_calls) && g_msg_freed == OLD(g_msg_freed) && O_HEAD->a_msg == OLD(g_recvq.head->a_msg)))
#ifdef TF_RX_BODY
/* body complete: exactly that message goes to the FIRST queued receiver, rx_msg cleared, next header read armed */
__CPROVER_ensures(RX_DONE ==> (O_HEAD->a_msg == O_MSG && g_fin_last == O_HEAD && g_fin_last_rv == 0 && g_fin_last_count == O_MSG->vm_blen && g_fin_last_sync && P->rx_msg == NULL && RX_DELIVERED_Q && g_msg_freed == OLD(g_msg_freed) && g_msg_alloc_calls == OLD(g_msg_alloc_calls)))
__CPROVER_ensures(RX_DONE ==> RX_NEXT_ARMED)
#else
/* header complete, type octet not 1: protocol error -- nothing allocated, nothing delivered, whatever the size field says */
__CPROVER_ensures((RX_DONE && !RX_TYPE_OK) ==> (RX_REFUSED(NNG_EPROTO) && g_msg_alloc_calls == OLD(g_msg_alloc_calls) && g_msg_freed == OLD(g_msg_freed)))
/* type 1: refused with NNG_EMSGSIZE iff the size is invalid or over the limit -- never allocated, never delivered */
__CPROVER_ensures((RX_DONE && RX_TYPE_OK && !TF_LEN_OK(RX_LEN, P->rcv_max)) ==> (RX_REFUSED(NNG_EMSGSIZE) && g_msg_alloc_calls == OLD(g_msg_alloc_calls) && g_msg_freed == OLD(g_msg_freed)))
/* otherwise a message of exactly that size is requested ... */
#define RX_ACCEPT (RX_DONE && RX_TYPE_OK && TF_LEN_OK(RX_LEN, P->rcv_max))
__CPROVER_ensures(RX_ACCEPT ==> (g_msg_alloc_calls == OLD(g_msg_alloc_calls) + 1 && g_msg_alloc_sz == RX_LEN && g_msg_freed == OLD(g_msg_freed)))
/* ... out of memory: the receivers are told, nothing delivered */
__CPROVER_ensures((RX_ACCEPT && g_alloc_ok == OLD(g_alloc_ok)) ==> RX_REFUSED(NNG_ENOMEM))
/* ... allocated, non-empty: a read of exactly len bytes into its body is armed, nobody completed */
__CPROVER_ensures((RX_ACCEPT && g_alloc_ok != OLD(g_alloc_ok) && RX_LEN > 0) ==> (P->rx_msg != NULL && P->rx_msg->vm_blen == RX_LEN && __CPROVER_OBJECT_SIZE(P->rx_msg->vm_body) == RX_LEN && P->rx_aio.a_nio == 1 && RX0.iov_buf == (void *) P->rx_msg->vm_body && RX0.iov_len == RX_LEN && TF_RECV_ARMED(P) && g_recvq.n == O_QN && g_recvq.head == O_HEAD && g_fin_calls == OLD(g_fin_calls) && O_HEAD->a_msg == OLD(g_recvq.head->a_msg)))
/* ... allocated, empty message: delivered at once to the first receiver, next header read armed */
__CPROVER_ensures((RX_ACCEPT && g_alloc_ok != OLD(g_alloc_ok) && RX_LEN == 0) ==> (O_HEAD->a_msg != NULL && O_HEAD->a_msg->vm_blen == 0 && g_fin_last == O_HEAD && g_fin_last_rv == 0 && g_fin_last_count == 0 && g_fin_last_sync && P->rx_msg == NULL && RX_DELIVERED_Q && RX_NEXT_ARMED))
#endif
;

/* ---- send: frame the message at the head of the send queue ------------- */
#define SQ_MSG (g_sendq.head->a_msg)
static void ipc_pipe_send_start(ipc_pipe *p)
__CPROVER_requires(__CPROVER_is_fresh(p, sizeof(*p)) && TF_LISTS_PRE(p))
__CPROVER_requires(g_sendq.n == 0 || (__CPROVER_is_fresh(g_sendq.head, sizeof(nni_aio)) && TF_MSG_PRE(g_sendq.head->a_msg)))
__CPROVER_requires(TF_Q_OK(g_sendq))
__CPROVER_assigns(p->closed: g_sendq, TF_FIN_GHOSTS; !p->closed && g_sendq.n > 0: __CPROVER_object_upto(&p->tx_head[0], sizeof(p->tx_head)), TF_IOV_OF(p->tx_aio), TF_IO_GHOSTS)
__CPROVER_ensures(p->closed ==> (g_sendq.n == 0 && g_fin_calls == OLD(g_fin_calls) + OLD(g_sendq.n) && (OLD(g_sendq.n) > 0 ==> g_fin_last_rv == NNG_ECLOSED)))
__CPROVER_ensures(p->closed ==> TF_FIN_ALL(NNG_ECLOSED))
/* prefix = type octet 1, then big-endian 64 of header length + body length */
__CPROVER_ensures((!p->closed && g_sendq.n > 0) ==> (p->tx_head[0] == TF_IPC_MSG && TF_BE64(p->tx_head + 1) == (uint64_t) SQ_MSG->vm_hlen + (uint64_t) SQ_MSG->vm_blen))
/* vector = [prefix, header?, body?] in that order with exact lengths */
__CPROVER_ensures((!p->closed && g_sendq.n > 0) ==> (p->tx_aio.a_nio == 1u + (SQ_MSG->vm_hlen > 0 ? 1u : 0u) + (SQ_MSG->vm_blen > 0 ? 1u : 0u) && p->tx_aio.a_iov[0].iov_buf == (void *) &p->tx_head[0] && p->tx_aio.a_iov[0].iov_len == TF_IPC_HDR))
__CPROVER_ensures((!p->closed && g_sendq.n > 0 && SQ_MSG->vm_hlen > 0) ==> (p->tx_aio.a_iov[1].iov_buf == (void *) &SQ_MSG->vm_hdr[0] && p->tx_aio.a_iov[1].iov_len == SQ_MSG->vm_hlen))
__CPROVER_ensures((!p->closed && g_sendq.n > 0 && SQ_MSG->vm_blen > 0) ==> (p->tx_aio.a_iov[p->tx_aio.a_nio - 1].iov_buf == (void *) SQ_MSG->vm_body && p->tx_aio.a_iov[p->tx_aio.a_nio - 1].iov_len == SQ_MSG->vm_blen))
__CPROVER_ensures((!p->closed && g_sendq.n > 0) ==> TF_SEND_ARMED(p))
;

/* ---- send completion ---------------------------------------------------- */
#define TXA (&P->tx_aio)
#define TX_ENT_PRE(i) ((i) >= P->tx_aio.a_nio || P->tx_aio.a_iov[i].iov_len == 0 || __CPROVER_is_fresh(P->tx_aio.a_iov[i].iov_buf, P->tx_aio.a_iov[i].iov_len))
#define T_RV   OLD(P->tx_aio.a_result)
#define T_N    OLD(P->tx_aio.a_count)
/* the vector in flight has at most 3 entries: prefix sums / total / dropped-entry count of the aioiov spec, specialised to 3 slots */
#define T_NIO  OLD(P->tx_aio.a_nio)
#define T_L(i) ((i) < T_NIO ? OLD(P->tx_aio.a_iov[i].iov_len) : (size_t) 0)
#define T_P1   (T_L(0))
#define T_P2   (T_P1 + T_L(1))
#define T_TOT  (T_P2 + T_L(2))
#define T_PJ(j) ((j) == 0 ? (size_t) 0 : (j) == 1 ? T_P1 : (j) == 2 ? T_P2 : T_TOT)
#define T_DROP ((T_N == 0 || T_N < T_P1) ? 0u : (T_N == T_P1 || T_N < T_P2) ? VP_MIN(1u, T_NIO) : (T_N == T_P2 || T_N < T_TOT) ? VP_MIN(2u, T_NIO) : T_NIO)
#define T_CL(i) ((i) < P->tx_aio.a_nio ? P->tx_aio.a_iov[i].iov_len : (size_t) 0)
#define T_CTOT ((T_CL(0) + T_CL(1)) + T_CL(2))
#define T_HEAD OLD(g_sendq.head)
#define T_MSG  OLD(g_sendq.head->a_msg)
static void ipc_pipe_send_cb(void *arg)
__CPROVER_requires(__CPROVER_is_fresh(arg, sizeof(ipc_pipe)) && TF_ENV_PRE(P))
/* a write is in flight only while its sender is at the head of the queue, carrying its message */
__CPROVER_requires(g_sendq.n >= 1 && __CPROVER_is_fresh(g_sendq.head, sizeof(nni_aio)) && TF_MSG_PRE(g_sendq.head->a_msg))
/* ... and whoever is queued behind it carries a message too */
__CPROVER_requires(g_sendq.n < 2 || (__CPROVER_is_fresh(g_sendq.next, sizeof(nni_aio)) && TF_MSG_PRE(g_sendq.next->a_msg)))
/* an aio waits in at most one queue */
__CPROVER_requires(TF_Q_OK(g_sendq) && (g_recvq.n == 0 || (g_recvq.head != g_sendq.head && (g_sendq.n < 2 || g_recvq.head != g_sendq.next))))
/* the vector in flight: up to three existing buffers (prefix, header, body or what is left of them) */
__CPROVER_requires(P->tx_aio.a_nio <= 3 && TX_ENT_PRE(0) && TX_ENT_PRE(1) && TX_ENT_PRE(2))
/* ASSUMED about the stream layer: a successful completion reports at most what was asked for */
__CPROVER_requires(P->tx_aio.a_result != 0 || P->tx_aio.a_count <= T_CTOT)
__CPROVER_requires(T_CL(0) <= VIOV_LENMAX && T_CL(1) <= VIOV_LENMAX && T_CL(2) <= VIOV_LENMAX)
__CPROVER_assigns(__CPROVER_object_upto(&P->tx_head[0], sizeof(P->tx_head)), TF_IOV_OF(P->tx_aio), g_sendq, g_sendq.head->a_msg, TF_FIN_GHOSTS, TF_IO_GHOSTS, TF_MSG_GHOSTS, TF_BUMP_GHOSTS, VP_SYNC_GHOSTS)
__CPROVER_frees(g_sendq.head->a_msg, g_sendq.head->a_msg->vm_body)
__CPROVER_ensures(VP_NO_LOCK_HELD)
/* error: EVERY queued sender is told (the connection is unusable after a failed or partial write: nothing further
 * is written); the message in flight is still attached to its aio and not freed */
__CPROVER_ensures(T_RV != 0 ==> (g_sendq.n == 0 && g_fin_calls == OLD(g_fin_calls) + OLD(g_sendq.n) && g_fin_last_rv == (int) T_RV && g_fin_last_count == 0 && TF_FIN_ALL(T_RV) && T_HEAD->a_msg == T_MSG && g_msg_freed == OLD(g_msg_freed) && TF_NO_IO && g_bump_err_calls == OLD(g_bump_err_calls) + 1))
/* partial: continue with the advanced vector (entries used up are dropped in order, the first survivor
 * loses its consumed front, exactly n bytes fewer remain), nothing completed or freed */
__CPROVER_ensures((T_RV == 0 && T_N < T_TOT) ==> (TF_SEND_ARMED(P) && g_sendq.n == OLD(g_sendq.n) && g_sendq.head == T_HEAD && T_HEAD->a_msg == T_MSG && g_fin_calls == OLD(g_fin_calls) && g_msg_freed == OLD(g_msg_freed)))
__CPROVER_ensures((T_RV == 0 && T_N < T_TOT) ==> (P->tx_aio.a_nio == T_NIO - T_DROP && P->tx_aio.a_nio >= 1))
__CPROVER_ensures((T_RV == 0 && T_N < T_TOT && g_n == T_DROP && g_n < 3) ==> (P->tx_aio.a_iov[0].iov_len == OLD(P->tx_aio.a_iov[g_n & 3u].iov_len) - (T_N - T_PJ(g_n)) && (T_N == T_PJ(g_n) ? P->tx_aio.a_iov[0].iov_buf == OLD(P->tx_aio.a_iov[g_n & 3u].iov_buf) : (char *) P->tx_aio.a_iov[0].iov_buf == (char *) OLD(P->tx_aio.a_iov[g_n & 3u].iov_buf) + (T_N - T_PJ(g_n)))))
__CPROVER_ensures((T_RV == 0 && T_N < T_TOT && g_j >= 1 && g_j < P->tx_aio.a_nio && g_n == g_j + T_DROP && g_n < 3) ==> (P->tx_aio.a_iov[g_j & 3u].iov_len == OLD(P->tx_aio.a_iov[g_n & 3u].iov_len) && P->tx_aio.a_iov[g_j & 3u].iov_buf == OLD(P->tx_aio.a_iov[g_n & 3u].iov_buf)))
#ifdef TF_TX_TOTAL
__CPROVER_ensures((T_RV == 0 && T_N < T_TOT) ==> T_CTOT == T_TOT - T_N)
#endif
/* complete: message freed exactly once and detached from the aio, sender completed with the body length */
/* (on a pipe closed meanwhile the senders queued behind it are refused with NNG_ECLOSED first, see send_start) */
__CPROVER_ensures((T_RV == 0 && T_N == T_TOT) ==> (T_HEAD->a_msg == NULL && g_msg_freed == OLD(g_msg_freed) + 1 && g_msg_freed_last == T_MSG && g_fin_last == T_HEAD && g_fin_last_rv == 0 && g_fin_last_count == OLD(g_sendq.head->a_msg->vm_blen) && g_fin_last_sync))
__CPROVER_ensures((T_RV == 0 && T_N == T_TOT) ==> (P->closed ? (g_sendq.n == 0 && g_fin_calls == OLD(g_fin_calls) + OLD(g_sendq.n)) : (g_sendq.n == OLD(g_sendq.n) - 1 && g_fin_calls == OLD(g_fin_calls) + 1)))
/* ... and the next queued message (if any) is started */
__CPROVER_ensures((T_RV == 0 && T_N == T_TOT) ==> ((g_sendq.n > 0 && !P->closed) ? TF_SEND_ARMED(P) : TF_NO_IO))
;

/* ---- connection header negotiation ------------------------------------- */
#define EP (P->ep)
#define NG0 (P->neg_aio.a_iov[0])
#define N_RV OLD(P->neg_aio.a_result)
#define N_N  OLD(P->neg_aio.a_count)
#define N_GT OLD(P->got_tx_head)
#define N_GR OLD(P->got_rx_head)
#define N_ERR (EP->closed || N_RV != 0)
#define N_REJECTED(code) (g_negoq.n == OLD(g_negoq.n) - 1 && !g_negoq.has_p && !g_waitq.has_p && g_waitq.n == OLD(g_waitq.n) && g_sclose_calls == OLD(g_sclose_calls) + 1 && g_io_conn == P->conn && g_pipe_close_calls == OLD(g_pipe_close_calls) + 1 && g_pipe_rele_calls == OLD(g_pipe_rele_calls) + 1 && EP->user_aio == NULL && (OLD(EP->user_aio) != NULL ? TF_FIN_IS(OLD(EP->user_aio), code, 0) : g_fin_calls == OLD(g_fin_calls)) && g_send_calls == OLD(g_send_calls) && g_recv_calls == OLD(g_recv_calls))
static void ipc_pipe_nego_cb(void *arg)
__CPROVER_requires(__CPROVER_is_fresh(arg, sizeof(ipc_pipe)) && __CPROVER_is_fresh(P->ep, sizeof(ipc_ep)))
__CPROVER_requires(EP->user_aio == NULL || __CPROVER_is_fresh(EP->user_aio, sizeof(nni_aio)))
__CPROVER_requires(g_the_pipe == arg && g_negoq_addr == &EP->nego_pipes && g_waitq_addr == &EP->wait_pipes && g_recvq_addr == &P->recv_q && g_sendq_addr == &P->send_q && VP_NO_LOCK_HELD)
/* the pipe is negotiating: on negopipes, not on waitpipes */
__CPROVER_requires(g_negoq.has_p && g_negoq.n >= 1 && !g_waitq.has_p && !g_waitq.p_first && g_other_pipe == NULL)
/* 8 header bytes each way (ipc_pipe_start), transmit first */
__CPROVER_requires(P->want_tx_head == 8 && P->want_rx_head == 8 && P->got_tx_head <= 8 && P->got_rx_head <= 8 && (P->got_tx_head == 8 || P->got_rx_head == 0) && P->got_rx_head < 8)
/* ASSUMED about the stream layer: a successful completion reports at most what was asked for */
__CPROVER_requires(P->neg_aio.a_result != 0 || P->neg_aio.a_count <= (P->got_tx_head < 8 ? 8 - P->got_tx_head : 8 - P->got_rx_head))
__CPROVER_assigns(P->got_tx_head, P->got_rx_head, P->peer, P->rcv_max, TF_IOV_OF(P->neg_aio), EP->user_aio, g_negoq, g_waitq, g_other_pipe, g_sclose_calls, g_pipe_close_calls, g_pipe_rele_calls, TF_FIN_GHOSTS, TF_IO_GHOSTS, VP_SYNC_GHOSTS)
__CPROVER_assigns(EP->user_aio != NULL: EP->user_aio->a_outputs[0])
__CPROVER_ensures(VP_NO_LOCK_HELD)
/* closed endpoint or failed transfer: the connection is dropped, the waiting accept/connect gets the error */
__CPROVER_ensures(N_ERR ==> N_REJECTED(EP->closed ? (int) NNG_ECONNSHUT : (N_RV == NNG_ECLOSED ? (int) NNG_ECONNSHUT : (int) N_RV)))
/* our header not fully sent: send exactly the rest of it */
__CPROVER_ensures((!N_ERR && N_GT + N_N < 8) ==> (P->got_tx_head == N_GT + N_N && P->got_rx_head == N_GR && P->neg_aio.a_nio == 1 && NG0.iov_buf == (void *) &P->tx_head[P->got_tx_head] && NG0.iov_len == 8 - P->got_tx_head && g_send_calls == OLD(g_send_calls) + 1 && g_recv_calls == OLD(g_recv_calls) && g_io_aio == &P->neg_aio && g_io_conn == P->conn && g_negoq.has_p && g_negoq.n == OLD(g_negoq.n) && g_fin_calls == OLD(g_fin_calls)))
/* peer header not fully received: read exactly the rest of it */
#define N_GR2 (N_GT < 8 ? N_GR : N_GR + N_N)
__CPROVER_ensures((!N_ERR && N_GT + (N_GT < 8 ? N_N : 0) == 8 && N_GR2 < 8) ==> (P->got_rx_head == N_GR2 && P->neg_aio.a_nio == 1 && NG0.iov_buf == (void *) &P->rx_head[P->got_rx_head] && NG0.iov_len == 8 - P->got_rx_head && g_recv_calls == OLD(g_recv_calls) + 1 && g_send_calls == OLD(g_send_calls) && g_io_aio == &P->neg_aio && g_io_conn == P->conn && g_negoq.has_p && g_negoq.n == OLD(g_negoq.n) && g_fin_calls == OLD(g_fin_calls)))
/* both complete: accepted iff the peer sent 00 'S' 'P' 00 pp pp 00 00 */
#define N_BOTH (!N_ERR && N_GT == 8 && N_GR + N_N == 8)
__CPROVER_ensures((N_BOTH && !TF_HELLO_OK(P->rx_head)) ==> N_REJECTED(NNG_EPROTO))
/* accepted: peer protocol recorded exactly as announced (the protocol layer compares it), pipe moves to the wait list */
__CPROVER_ensures((N_BOTH && TF_HELLO_OK(P->rx_head)) ==> (P->peer == TF_BE16(&P->rx_head[4]) && !g_negoq.has_p && g_negoq.n == OLD(g_negoq.n) - 1 && g_sclose_calls == OLD(g_sclose_calls) && g_pipe_close_calls == OLD(g_pipe_close_calls) && TF_NO_IO))
/* ... and handed to a waiting accept/connect in arrival order */
__CPROVER_ensures((N_BOTH && TF_HELLO_OK(P->rx_head) && OLD(EP->user_aio) == NULL) ==> (g_waitq.has_p && g_waitq.n == OLD(g_waitq.n) + 1 && g_fin_calls == OLD(g_fin_calls)))
__CPROVER_ensures((N_BOTH && TF_HELLO_OK(P->rx_head) && OLD(EP->user_aio) != NULL) ==> (g_waitq.n == OLD(g_waitq.n) && EP->user_aio == NULL && TF_FIN_IS(OLD(EP->user_aio), 0, 0)))
__CPROVER_ensures((N_BOTH && TF_HELLO_OK(P->rx_head) && OLD(EP->user_aio) != NULL && OLD(g_waitq.n) == 0) ==> (!g_waitq.has_p && OLD(EP->user_aio)->a_outputs[0] == (void *) P->pipe && P->rcv_max == EP->rcv_max))
;

/* ---- start of the negotiation: our own connection header ---------------- */
/* we announce 00 'S' 'P' 00 <our protocol id, big endian> 00 00 -- exactly 8 bytes -- and the pipe waits on negopipes;
 * the peer gets 10 s to answer (C11: a silent peer cannot hold the connection for ever) */
static void ipc_pipe_start(ipc_pipe *p, nng_stream *conn, ipc_ep *ep)
__CPROVER_requires(__CPROVER_is_fresh(p, sizeof(*p)) && __CPROVER_is_fresh(ep, sizeof(*ep)))
__CPROVER_requires(g_the_pipe == (void *) p && g_negoq_addr == &ep->nego_pipes && g_waitq_addr == &ep->wait_pipes && !g_negoq.has_p && !g_waitq.has_p)
__CPROVER_assigns(p->conn, p->ep, p->proto, __CPROVER_object_upto(&p->tx_head[0], sizeof(p->tx_head)), p->got_tx_head, p->got_rx_head, p->want_tx_head, p->want_rx_head, TF_IOV_OF(p->neg_aio), p->neg_aio.a_timeout, p->neg_aio.a_use_expire, g_negoq, TF_IO_GHOSTS)
__CPROVER_ensures(TF_HELLO_OK(p->tx_head) && TF_BE16(&p->tx_head[4]) == ep->proto && p->proto == ep->proto)
__CPROVER_ensures(p->got_tx_head == 0 && p->got_rx_head == 0 && p->want_tx_head == 8 && p->want_rx_head == 8)
__CPROVER_ensures(p->neg_aio.a_nio == 1 && p->neg_aio.a_iov[0].iov_buf == (void *) &p->tx_head[0] && p->neg_aio.a_iov[0].iov_len == 8)
__CPROVER_ensures(p->conn == conn && p->ep == ep && g_negoq.has_p && g_negoq.n == OLD(g_negoq.n) + 1 && !g_waitq.has_p)
__CPROVER_ensures(g_send_calls == OLD(g_send_calls) + 1 && g_recv_calls == OLD(g_recv_calls) && g_io_aio == &p->neg_aio && g_io_conn == conn)
__CPROVER_ensures(p->neg_aio.a_timeout == 10000 && !p->neg_aio.a_use_expire)
;

static uint16_t ipc_pipe_peer(void *arg)
__CPROVER_requires(__CPROVER_is_fresh(arg, sizeof(ipc_pipe)))
__CPROVER_assigns()
__CPROVER_ensures(RV == P->peer)
;
#endif
