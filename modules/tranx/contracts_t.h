/* Contract TEMPLATE for the pipe / endpoint operations of one stream transport (tcp.c, ipc.c, sockfd.c), instantiated
 * by contracts.h once per transport through the TX_* / f_* / e_* / FN_* macros.  The framing steps (nego_cb, recv_cb,
 * send_cb, recv_start, send_start) are under contract in tcpframe / ipcframe / sockfdframe; here recv_start and
 * send_start are the REAL callees (their loops closed by the same woven invariants as there).
 * Postconditions come from C01 (arrival order), C02 (exactly-once completion, cancel), C03 (ownership),
 * C11 (our own connection header), C14 (listener keeps accepting). */
/* clang-format off */
#undef P
#undef EP
#undef EPA
#undef THEPIPE
#define P ((TX_PIPE *) arg)
#define EP (P->ep)
#define EPA ((TX_EP *) arg)
#define THEPIPE ((TX_PIPE *) g_the_pipe)
#undef TX_LISTS_PRE
#define TX_LISTS_PRE(p) (g_recvq_addr == &(p)->f_recvq && g_sendq_addr == &(p)->f_sendq && g_the_pipe == (void *) (p) && g_aio_rx == &(p)->f_rxaio && g_aio_tx == &(p)->f_txaio && g_aio_nego == &(p)->f_negoaio)
#undef TX_EPLISTS_PRE
#define TX_EPLISTS_PRE(ep) (g_negoq_addr == &(ep)->e_negopipes && g_waitq_addr == &(ep)->e_waitpipes)
#undef TX_HDR
#define TX_HDR(p) (&(p)->f_txlen[TX_HDR_OFF])
_Static_assert(sizeof(TX_PIPE) <= VP_PIPE_MAXSZ, "model pipe object large enough");

/* ===== pipe_send / pipe_recv: queue the aio, start the transfer only if it is the first (C01 order, C02, C03) ===== */
#undef  SND_ARMED
#define SND_ARMED (g_send_calls == OLD(g_send_calls) + 1 && g_recv_calls == OLD(g_recv_calls) && g_io_aio == &P->f_txaio && g_io_conn == P->conn)
#undef  RCV_ARMED
#define RCV_ARMED (g_recv_calls == OLD(g_recv_calls) + 1 && g_send_calls == OLD(g_send_calls) && g_io_aio == &P->f_rxaio && g_io_conn == P->conn)

static void FN_send(void *arg, nni_aio *aio)
__CPROVER_requires(__CPROVER_is_fresh(arg, sizeof(TX_PIPE)) && __CPROVER_is_fresh(aio, sizeof(nni_aio)) && TX_LISTS_PRE(P) && VP_NO_LOCK_HELD && g_the_aio == aio)
/* the sender hands over a message with the aio */
__CPROVER_requires(TF_MSG_PRE(aio->a_msg))
__CPROVER_requires(TF_Q_OK(g_sendq) && TF_Q_OK(g_recvq))
/* a new operation: the aio is not queued anywhere */
__CPROVER_requires(TX_NOT_QUEUED(aio))
__CPROVER_assigns(TX_RESET_OF(aio), g_sendq, g_sendq_tail, g_deep, TX_START_GHOSTS, TX_FIN_GHOSTS, VP_SYNC_GHOSTS)
__CPROVER_assigns(g_sendq.n == 0: __CPROVER_object_upto(&P->f_txlen[0], sizeof(P->f_txlen)), TX_IOV_OF(P->f_txaio), TX_IO_GHOSTS)
__CPROVER_ensures(VP_NO_LOCK_HELD)
/* C02: the operation is registered exactly once, cancellable through the transport's send-cancel function */
__CPROVER_ensures(g_start_calls == OLD(g_start_calls) + 1 && g_start_aio == aio && g_start_fn == FN_send_cancel && g_start_arg == arg)
/* refused by the aio layer (which completes it itself): nothing is queued, nothing sent, nobody completed here; C03: message still attached */
__CPROVER_ensures(!g_start_ok ==> (g_sendq.n == OLD(g_sendq.n) && g_sendq.head == OLD(g_sendq.head) && g_sendq.next == OLD(g_sendq.next) && g_deep == 0 && TX_NO_IO && g_fin_calls == OLD(g_fin_calls)))
__CPROVER_ensures(aio->a_msg == OLD(aio->a_msg))
/* C01 order: behind others => appended at the TAIL, the members in front keep their places, and nothing is started (one transfer at a time) */
__CPROVER_ensures((g_start_ok && OLD(g_sendq.n) >= 1) ==> (g_sendq.n == OLD(g_sendq.n) + 1 && g_sendq.head == OLD(g_sendq.head) && g_sendq_tail == aio && TX_NO_IO && g_fin_calls == OLD(g_fin_calls)))
__CPROVER_ensures((g_start_ok && OLD(g_sendq.n) == 1) ==> (g_sendq.next == aio && g_deep == 0))
__CPROVER_ensures((g_start_ok && OLD(g_sendq.n) >= 2) ==> (g_sendq.next == OLD(g_sendq.next) && g_deep == 2))
/* first of an idle open pipe: queued as the head and its transfer started: prefix = BE64(header_len + body_len), vector = [prefix, header?, body?] */
__CPROVER_ensures((g_start_ok && OLD(g_sendq.n) == 0 && !P->closed) ==> (g_sendq.n == 1 && g_sendq.head == aio && g_sendq_tail == aio && SND_ARMED && g_fin_calls == OLD(g_fin_calls)))
__CPROVER_ensures((g_start_ok && OLD(g_sendq.n) == 0 && !P->closed) ==> (TX_PREFIX_OK(P, aio->a_msg) && P->f_txaio.a_nio == 1u + (aio->a_msg->vm_hlen > 0 ? 1u : 0u) + (aio->a_msg->vm_blen > 0 ? 1u : 0u) && P->f_txaio.a_iov[0].iov_buf == (void *) &P->f_txlen[0] && P->f_txaio.a_iov[0].iov_len == sizeof(P->f_txlen)))
__CPROVER_ensures((g_start_ok && OLD(g_sendq.n) == 0 && !P->closed && aio->a_msg->vm_hlen > 0) ==> (P->f_txaio.a_iov[1].iov_buf == (void *) &aio->a_msg->vm_hdr[0] && P->f_txaio.a_iov[1].iov_len == aio->a_msg->vm_hlen))
__CPROVER_ensures((g_start_ok && OLD(g_sendq.n) == 0 && !P->closed && aio->a_msg->vm_blen > 0) ==> (P->f_txaio.a_iov[P->f_txaio.a_nio - 1].iov_buf == (void *) aio->a_msg->vm_body && P->f_txaio.a_iov[P->f_txaio.a_nio - 1].iov_len == aio->a_msg->vm_blen))
/* first of an idle CLOSED pipe: refused with NNG_ECLOSED exactly once, not left queued (C02), nothing sent */
__CPROVER_ensures((g_start_ok && OLD(g_sendq.n) == 0 && P->closed) ==> (g_sendq.n == 0 && TX_FIN_IS(aio, NNG_ECLOSED, 0) && TX_NO_IO))
;

static void FN_recv(void *arg, nni_aio *aio)
__CPROVER_requires(__CPROVER_is_fresh(arg, sizeof(TX_PIPE)) && __CPROVER_is_fresh(aio, sizeof(nni_aio)) && TX_LISTS_PRE(P) && VP_NO_LOCK_HELD && g_the_aio == aio)
__CPROVER_requires(TF_Q_OK(g_sendq) && TF_Q_OK(g_recvq))
__CPROVER_requires(TX_NOT_QUEUED(aio))
/* an idle pipe holds no partial message */
__CPROVER_requires(g_recvq.n > 0 || P->f_rxmsg == NULL)
__CPROVER_assigns(TX_RESET_OF(aio), g_recvq, g_recvq_tail, g_deep, TX_START_GHOSTS, TX_FIN_GHOSTS, VP_SYNC_GHOSTS)
__CPROVER_assigns(g_recvq.n == 0: TX_IOV_OF(P->f_rxaio), TX_IO_GHOSTS)
__CPROVER_ensures(VP_NO_LOCK_HELD)
#if TX_RECV_CHECKS_CLOSED
/* closed pipe: refused at once with NNG_ECLOSED, never registered or queued */
__CPROVER_ensures(P->closed ==> (g_start_calls == OLD(g_start_calls) && TX_FIN_IS(aio, NNG_ECLOSED, 0) && g_recvq.n == OLD(g_recvq.n) && g_recvq.head == OLD(g_recvq.head) && g_recvq.next == OLD(g_recvq.next) && g_deep == 0 && TX_NO_IO))
#define RCV_LIVE (!P->closed)
#else
#define RCV_LIVE (1)
#endif
__CPROVER_ensures(RCV_LIVE ==> (g_start_calls == OLD(g_start_calls) + 1 && g_start_aio == aio && g_start_fn == FN_recv_cancel && g_start_arg == arg))
__CPROVER_ensures((RCV_LIVE && !g_start_ok) ==> (g_recvq.n == OLD(g_recvq.n) && g_recvq.head == OLD(g_recvq.head) && g_recvq.next == OLD(g_recvq.next) && g_deep == 0 && TX_NO_IO && g_fin_calls == OLD(g_fin_calls)))
/* C01 order: receivers are served in arrival order: appended at the tail, nothing started while another read is in flight */
__CPROVER_ensures((RCV_LIVE && g_start_ok && OLD(g_recvq.n) >= 1) ==> (g_recvq.n == OLD(g_recvq.n) + 1 && g_recvq.head == OLD(g_recvq.head) && g_recvq_tail == aio && TX_NO_IO && g_fin_calls == OLD(g_fin_calls)))
__CPROVER_ensures((RCV_LIVE && g_start_ok && OLD(g_recvq.n) == 1) ==> (g_recvq.next == aio && g_deep == 0))
__CPROVER_ensures((RCV_LIVE && g_start_ok && OLD(g_recvq.n) >= 2) ==> (g_recvq.next == OLD(g_recvq.next) && g_deep == 1))
/* first of an idle open pipe: a read of exactly the length prefix is armed */
__CPROVER_ensures((RCV_LIVE && g_start_ok && OLD(g_recvq.n) == 0 && !P->closed) ==> (g_recvq.n == 1 && g_recvq.head == aio && g_recvq_tail == aio && RCV_ARMED && g_fin_calls == OLD(g_fin_calls) && P->f_rxaio.a_nio == 1 && P->f_rxaio.a_iov[0].iov_buf == (void *) &P->f_rxlen[0] && P->f_rxaio.a_iov[0].iov_len == sizeof(P->f_rxlen)))
__CPROVER_ensures((RCV_LIVE && g_start_ok && OLD(g_recvq.n) == 0 && P->closed) ==> (g_recvq.n == 0 && TX_FIN_IS(aio, NNG_ECLOSED, 0) && TX_NO_IO))
;
#undef RCV_LIVE

/* ===== cancel functions (C02) =====
 * g_n (free ghost, never assigned) = place of the aio at entry: 0 not on the pipe's list, 1 the head (its transfer is in
 * flight), 2 the second, 3 further back. */
#undef  TX_PLACE
#define TX_PLACE(q, id) ((size_t) (((q).n >= 1 && aio == (q).head) ? 1 : ((q).n >= 2 && aio == (q).next) ? 2 : (g_deep == (id)) ? 3 : 0))
#undef  TX_Q_SAME
#define TX_Q_SAME(q) ((q).n == OLD((q).n) && (q).head == OLD((q).head) && (q).next == OLD((q).next))

static void FN_send_cancel(nni_aio *aio, void *arg, nng_err rv)
__CPROVER_requires(__CPROVER_is_fresh(arg, sizeof(TX_PIPE)) && TX_LISTS_PRE(P) && VP_NO_LOCK_HELD && aio != NULL && g_the_aio == aio)
__CPROVER_requires(TF_Q_OK(g_sendq) && TF_Q_OK(g_recvq))
/* an aio started by pipe_send waits on sendq or nowhere */
__CPROVER_requires((g_deep == 0 || (g_deep == 2 && g_sendq.n >= 3 && aio != g_sendq.head && aio != g_sendq.next)) && (g_recvq.n < 1 || aio != g_recvq.head) && (g_recvq.n < 2 || aio != g_recvq.next))
__CPROVER_requires(g_n == TX_PLACE(g_sendq, 2))
__CPROVER_assigns(g_sendq, g_deep, TX_FIN_GHOSTS, TX_ABORT_GHOSTS, VP_SYNC_GHOSTS)
__CPROVER_ensures(VP_NO_LOCK_HELD && TX_Q_SAME(g_recvq))
/* already completed / never queued: untouched */
__CPROVER_ensures(g_n == 0 ==> (TX_Q_SAME(g_sendq) && g_deep == OLD(g_deep) && g_fin_calls == OLD(g_fin_calls) && g_abort_calls == OLD(g_abort_calls)))
/* in flight: the stream operation is aborted with the code; the completion comes from the send callback, not from here */
__CPROVER_ensures(g_n == 1 ==> (TX_Q_SAME(g_sendq) && g_fin_calls == OLD(g_fin_calls) && g_abort_calls == OLD(g_abort_calls) + 1 && g_abort_aio == &P->f_txaio && g_abort_rv == (int) rv))
/* waiting behind the head: taken off the list and completed exactly once with the code; the transfer in flight is not disturbed */
__CPROVER_ensures(g_n >= 2 ==> (g_sendq.n == OLD(g_sendq.n) - 1 && g_sendq.head == OLD(g_sendq.head) && TX_FIN_IS(aio, rv, 0) && g_abort_calls == OLD(g_abort_calls) && g_deep == 0 && (g_sendq.n < 2 || g_sendq.next != aio)))
__CPROVER_ensures(g_n == 3 ==> g_sendq.next == OLD(g_sendq.next))
;

static void FN_recv_cancel(nni_aio *aio, void *arg, nng_err rv)
__CPROVER_requires(__CPROVER_is_fresh(arg, sizeof(TX_PIPE)) && TX_LISTS_PRE(P) && VP_NO_LOCK_HELD && aio != NULL && g_the_aio == aio)
__CPROVER_requires(TF_Q_OK(g_sendq) && TF_Q_OK(g_recvq))
__CPROVER_requires((g_deep == 0 || (g_deep == 1 && g_recvq.n >= 3 && aio != g_recvq.head && aio != g_recvq.next)) && (g_sendq.n < 1 || aio != g_sendq.head) && (g_sendq.n < 2 || aio != g_sendq.next))
__CPROVER_requires(g_n == TX_PLACE(g_recvq, 1))
__CPROVER_assigns(g_recvq, g_deep, TX_FIN_GHOSTS, TX_ABORT_GHOSTS, VP_SYNC_GHOSTS)
__CPROVER_ensures(VP_NO_LOCK_HELD && TX_Q_SAME(g_sendq))
__CPROVER_ensures(g_n == 0 ==> (TX_Q_SAME(g_recvq) && g_deep == OLD(g_deep) && g_fin_calls == OLD(g_fin_calls) && g_abort_calls == OLD(g_abort_calls)))
__CPROVER_ensures(g_n == 1 ==> (TX_Q_SAME(g_recvq) && g_fin_calls == OLD(g_fin_calls) && g_abort_calls == OLD(g_abort_calls) + 1 && g_abort_aio == &P->f_rxaio && g_abort_rv == (int) rv))
__CPROVER_ensures(g_n >= 2 ==> (g_recvq.n == OLD(g_recvq.n) - 1 && g_recvq.head == OLD(g_recvq.head) && TX_FIN_IS(aio, rv, 0) && g_abort_calls == OLD(g_abort_calls) && g_deep == 0 && (g_recvq.n < 2 || g_recvq.next != aio)))
__CPROVER_ensures(g_n == 3 ==> g_recvq.next == OLD(g_recvq.next))
;

/* ===== pipe_close / pipe_stop / pipe_fini (C02, C03) ===== */
#undef  TX_AIO3_EACH
#define TX_AIO3_EACH(c) ((c).rx == OLD((c).rx) + 1 && (c).tx == OLD((c).tx) + 1 && (c).nego == OLD((c).nego) + 1 && (c).other == OLD((c).other))
#undef  TX_AIO3_SAME
#define TX_AIO3_SAME(c) ((c).rx == OLD((c).rx) && (c).tx == OLD((c).tx) && (c).nego == OLD((c).nego) && (c).other == OLD((c).other))

static void FN_close(void *arg)
__CPROVER_requires(__CPROVER_is_fresh(arg, sizeof(TX_PIPE)) && TX_LISTS_PRE(P) && VP_NO_LOCK_HELD)
__CPROVER_assigns(P->closed, g_aclose, g_sclose_calls, g_io_conn, VP_SYNC_GHOSTS)
/* the pipe refuses new work from now on (send_start / recv_start flush their queue with NNG_ECLOSED) ... */
__CPROVER_ensures(VP_NO_LOCK_HELD && P->closed)
/* ... and EVERY stream operation of the pipe (read, write, negotiation) is aborted, once each: whatever user aio is queued is
 * completed by the callback of the aborted operation (recv_cb / send_cb error path); the queues are not touched here (assigns) */
__CPROVER_ensures(TX_AIO3_EACH(g_aclose))
__CPROVER_ensures(g_sclose_calls == OLD(g_sclose_calls) + 1 && g_io_conn == P->conn)
;

#undef  TX_STOP_PRE
#define TX_STOP_PRE (g_first_afini_seq == SIZE_MAX && __CPROVER_is_fresh(arg, sizeof(TX_PIPE)) && __CPROVER_is_fresh(P->ep, sizeof(TX_EP)) && TX_LISTS_PRE(P) && TX_EPLISTS_PRE(EP) && g_the_node == &P->node && VP_NO_LOCK_HELD && !(g_negoq.has_p && g_waitq.has_p) && (!g_negoq.has_p || g_negoq.n >= 1) && (!g_waitq.has_p || g_waitq.n >= 1) && g_seq < ((size_t) 1 << 40))
#undef  TX_STOP_GHOSTS
#define TX_STOP_GHOSTS g_astop, g_seq, g_last_astop_seq, g_sstop_calls, g_sstop_seq, g_io_conn, g_negoq, g_waitq, g_node_rm_seq, VP_SYNC_GHOSTS
#undef  TX_STOP_POST
#define TX_STOP_POST (TX_AIO3_EACH(g_astop) && !g_negoq.has_p && !g_waitq.has_p && g_negoq.n + (OLD(g_negoq.has_p) ? 1u : 0u) == OLD(g_negoq.n) && g_waitq.n + (OLD(g_waitq.has_p) ? 1u : 0u) == OLD(g_waitq.n) && g_node_rm_seq > g_last_astop_seq)

static void FN_stop(void *arg)
__CPROVER_requires(TX_STOP_PRE)
__CPROVER_assigns(TX_STOP_GHOSTS)
__CPROVER_ensures(VP_NO_LOCK_HELD)
/* every embedded aio is stopped once (no callback runs afterwards); only THEN the pipe leaves the endpoint's list (a
 * negotiation callback still running would remove it a second time), and it is on neither list afterwards */
__CPROVER_ensures(TX_STOP_POST)
#if TX_STOP_STREAM
__CPROVER_ensures(g_sstop_calls == OLD(g_sstop_calls) + 1 && g_io_conn == P->conn)
#else
__CPROVER_ensures(g_sstop_calls == OLD(g_sstop_calls))
#endif
;

static void FN_fini(void *arg)
#if TX_FINI_STOPS
__CPROVER_requires(TX_STOP_PRE)
#else
__CPROVER_requires(__CPROVER_is_fresh(arg, sizeof(TX_PIPE)) && TX_LISTS_PRE(P) && VP_NO_LOCK_HELD && g_seq < ((size_t) 1 << 40) && g_first_afini_seq == SIZE_MAX)
#endif
#ifdef TX_FINI_RXMSG
__CPROVER_requires(TF_MSG_PRE(P->f_rxmsg))
__CPROVER_frees(P->f_rxmsg, P->f_rxmsg->vm_body)
#else
__CPROVER_requires(P->f_rxmsg == NULL)
#endif
#if TX_FINI_STOPS
__CPROVER_assigns(TX_STOP_GHOSTS, g_afini, g_first_afini_seq, g_sfree_calls, g_sfree_last, g_sfree_seq, TX_MSG_GHOSTS)
#else
__CPROVER_assigns(g_seq, g_afini, g_first_afini_seq, g_sfree_calls, g_sfree_last, g_sfree_seq, TX_MSG_GHOSTS, VP_SYNC_GHOSTS)
#endif
__CPROVER_ensures(VP_NO_LOCK_HELD)
/* C03: a partially received message is released exactly once */
#ifdef TX_FINI_RXMSG
__CPROVER_ensures(g_msg_freed == OLD(g_msg_freed) + 1 && g_msg_freed_last == OLD(P->f_rxmsg))
#else
__CPROVER_ensures(g_msg_freed == OLD(g_msg_freed))
#endif
/* the connection is released once, the three aios are finalised once each */
__CPROVER_ensures(g_sfree_calls == OLD(g_sfree_calls) + 1 && g_sfree_last == P->conn && TX_AIO3_EACH(g_afini))
#if TX_FINI_STOPS
/* ... all of it only after everything was stopped (no callback can still use them) */
__CPROVER_ensures(TX_STOP_POST && g_last_astop_seq < g_sfree_seq && g_last_astop_seq < g_first_afini_seq && g_sstop_seq < g_sfree_seq)
#endif
;

/* ===== negotiation start (C11: our own connection header) ===== */
static void FN_start(TX_PIPE *p, nng_stream *conn, TX_EP *ep)
__CPROVER_requires(__CPROVER_is_fresh(p, sizeof(TX_PIPE)) && __CPROVER_is_fresh(ep, sizeof(TX_EP)) && TX_LISTS_PRE(p) && TX_EPLISTS_PRE(ep) && !g_negoq.has_p && !g_waitq.has_p)
__CPROVER_assigns(p->conn, p->ep, p->proto, __CPROVER_object_upto(&p->f_txlen[0], sizeof(p->f_txlen)), p->f_gottx, p->f_gotrx, p->f_wanttx, p->f_wantrx, TX_IOV_OF(p->f_negoaio), p->f_negoaio.a_timeout, p->f_negoaio.a_use_expire, g_negoq, TX_IO_GHOSTS)
__CPROVER_ensures(p->conn == conn && p->ep == ep && p->proto == ep->proto)
/* the header we announce is exactly the one a peer's negotiation accepts: 00 'S' 'P' 00 <our protocol, big endian> 00 00 */
__CPROVER_ensures(TF_HELLO_OK(p->f_txlen) && TF_BE16(&p->f_txlen[4]) == ep->proto)
/* 8 bytes each way, nothing transferred yet, transmit first: the whole header is submitted */
__CPROVER_ensures(p->f_gottx == 0 && p->f_gotrx == 0 && p->f_wanttx == 8 && p->f_wantrx == 8)
__CPROVER_ensures(p->f_negoaio.a_nio == 1 && p->f_negoaio.a_iov[0].iov_buf == (void *) &p->f_txlen[0] && p->f_negoaio.a_iov[0].iov_len == 8)
__CPROVER_ensures(g_send_calls == OLD(g_send_calls) + 1 && g_recv_calls == OLD(g_recv_calls) && g_io_aio == &p->f_negoaio && g_io_conn == conn)
/* the pipe is negotiating (and only that) */
__CPROVER_ensures(g_negoq.has_p && g_negoq.n == OLD(g_negoq.n) + 1 && !g_waitq.has_p && g_waitq.n == OLD(g_waitq.n))
/* negotiation time limit */
__CPROVER_ensures(p->f_negoaio.a_timeout == TX_NEGO_TIMEOUT && !p->f_negoaio.a_use_expire)
;

/* ===== ep_match: hand the FIRST waiting pipe to the waiting accept/connect ===== */
static void FN_match(TX_EP *ep)
__CPROVER_requires(__CPROVER_is_fresh(ep, sizeof(TX_EP)) && TX_EPLISTS_PRE(ep) && (ep->e_useraio == NULL || __CPROVER_is_fresh(ep->e_useraio, sizeof(nni_aio))))
__CPROVER_requires(g_other_pipe == NULL && (!g_waitq.has_p || g_waitq.n >= 1) && (!g_waitq.p_first || g_waitq.has_p) && (g_waitq.n != 1 || !g_waitq.has_p || g_waitq.p_first))
__CPROVER_requires(__CPROVER_is_fresh(g_the_pipe, sizeof(TX_PIPE)))
__CPROVER_requires(g_recvq_addr == NULL && g_sendq_addr == NULL && g_deep == 0 && g_recvq.n == 0 && g_sendq.n == 0)
__CPROVER_assigns(ep->e_useraio, g_waitq, g_other_pipe, TX_FIN_GHOSTS)
__CPROVER_assigns(ep->e_useraio != NULL: ep->e_useraio->a_outputs[0])
__CPROVER_assigns(g_waitq.has_p: THEPIPE->f_rcvmax)
#undef  M_HIT
#define M_HIT (OLD(ep->e_useraio) != NULL && OLD(g_waitq.n) > 0)
__CPROVER_ensures(!M_HIT ==> (ep->e_useraio == OLD(ep->e_useraio) && g_waitq.n == OLD(g_waitq.n) && g_waitq.has_p == OLD(g_waitq.has_p) && g_fin_calls == OLD(g_fin_calls)))
__CPROVER_ensures(M_HIT ==> (ep->e_useraio == NULL && g_waitq.n == OLD(g_waitq.n) - 1 && TX_FIN_IS(OLD(ep->e_useraio), 0, 0)))
/* arrival order: when the pipe under test is the first one waiting it is the one handed out, with the endpoint's receive limit */
__CPROVER_ensures((M_HIT && OLD(g_waitq.p_first)) ==> (!g_waitq.has_p && OLD(ep->e_useraio)->a_outputs[0] == (void *) THEPIPE->f_npipe && THEPIPE->f_rcvmax == ep->e_rcvmax))
/* ... otherwise it keeps waiting, its limit untouched */
__CPROVER_ensures((M_HIT && !OLD(g_waitq.p_first)) ==> (g_waitq.has_p == OLD(g_waitq.has_p)))
__CPROVER_ensures((OLD(g_waitq.has_p) && !(M_HIT && OLD(g_waitq.p_first))) ==> THEPIPE->f_rcvmax == OLD(THEPIPE->f_rcvmax))
;

/* ===== endpoint callbacks (C14, C02, ownership of the new connection) ===== */
#undef  A_RV
#define A_RV   OLD(EPA->e_connaio.a_result)
#undef  A_CONN
#define A_CONN ((nng_stream *) OLD(EPA->e_connaio.a_outputs[0]))
#undef  A_OK
#define A_OK   (A_RV == 0 && !EPA->closed && g_palloc_rv == 0)
#undef  A_ERR
#define A_ERR  (A_RV != 0 ? (int) A_RV : EPA->closed ? (int) NNG_ECLOSED : g_palloc_rv)
#undef  A_ACCEPT_ARMED
#define A_ACCEPT_ARMED (g_accept_calls == OLD(g_accept_calls) + 1 && g_accept_l == EPA->listener && g_accept_aio == &EPA->e_connaio)
#undef  A_CB_PRE
#define A_CB_PRE (__CPROVER_is_fresh(arg, sizeof(TX_EP)) && TX_EPLISTS_PRE(EPA) && VP_NO_LOCK_HELD && (EPA->e_useraio == NULL || __CPROVER_is_fresh(EPA->e_useraio, sizeof(nni_aio))) && !g_negoq.has_p && !g_waitq.has_p && g_recvq_addr == NULL && g_sendq_addr == NULL && g_deep == 0 && g_recvq.n == 0 && g_sendq.n == 0 && g_seq < ((size_t) 1 << 40))
#undef  A_CB_GHOSTS
#define A_CB_GHOSTS EPA->e_useraio, TX_FIN_GHOSTS, g_sfree_calls, g_sfree_last, g_sfree_seq, g_seq, g_palloc_calls, g_palloc_owner, g_the_pipe, g_negoq, TX_IO_GHOSTS, VP_SYNC_GHOSTS
/* a pipe was created for the connection and its negotiation started */
#undef  A_PIPE_STARTED
#define A_PIPE_STARTED(owner) (g_palloc_calls == OLD(g_palloc_calls) + 1 && g_palloc_owner == (void *) (owner) && g_negoq.has_p && g_negoq.n == OLD(g_negoq.n) + 1 && THEPIPE->conn == A_CONN && THEPIPE->ep == EPA && TF_HELLO_OK(THEPIPE->f_txlen) && g_send_calls == OLD(g_send_calls) + 1 && g_recv_calls == OLD(g_recv_calls) && g_io_aio == &THEPIPE->f_negoaio && g_io_conn == A_CONN && g_sfree_calls == OLD(g_sfree_calls) && EPA->e_useraio == OLD(EPA->e_useraio) && g_fin_calls == OLD(g_fin_calls))
/* no pipe: the waiting accept/connect (if any) gets the error once; a connection that was obtained is released exactly once */
#undef  A_FAILED
#define A_FAILED (EPA->e_useraio == NULL && (OLD(EPA->e_useraio) != NULL ? TX_FIN_IS(OLD(EPA->e_useraio), A_ERR, 0) : g_fin_calls == OLD(g_fin_calls)) && g_negoq.n == OLD(g_negoq.n) && !g_negoq.has_p && TX_NO_IO && (A_RV == 0 ? (g_sfree_calls == OLD(g_sfree_calls) + 1 && g_sfree_last == A_CONN) : g_sfree_calls == OLD(g_sfree_calls)))

static void FN_accept_cb(void *arg)
__CPROVER_requires(A_CB_PRE)
__CPROVER_assigns(A_CB_GHOSTS, g_accept_calls, g_accept_l, g_accept_aio, g_sleep_calls, g_sleep_ms, g_sleep_aio)
__CPROVER_ensures(VP_NO_LOCK_HELD)
/* a new connection on an open endpoint: a pipe starts negotiating and the NEXT accept is armed at once (C14) */
__CPROVER_ensures(A_OK ==> (A_PIPE_STARTED(EPA->nlistener) && A_ACCEPT_ARMED && g_sleep_calls == OLD(g_sleep_calls)))
__CPROVER_ensures(!A_OK ==> A_FAILED)
/* the accept aio is never started twice at once (directly AND through the timer) */
__CPROVER_ensures((g_accept_calls - OLD(g_accept_calls)) + (g_sleep_calls - OLD(g_sleep_calls)) <= 1)
/* C14: whatever happened to this connection (failed accept, failed pipe allocation), the listener keeps accepting unless the
 * endpoint / the accept operation itself was closed or stopped: re-armed directly, or through the cool-down timer */
__CPROVER_ensures((!A_OK && !EPA->closed && A_ERR != (int) NNG_ECLOSED && A_ERR != (int) NNG_ESTOPPED) ==> (A_ACCEPT_ARMED || TX_TIMER_ARMED))
#if TX_HAS_TIMER
/* resource exhaustion: cool down 10 ms (timer callback re-arms), do not spin */
__CPROVER_ensures((!A_OK && (A_ERR == (int) NNG_ENOMEM || A_ERR == (int) NNG_ENOFILES)) ==> (TX_TIMER_ARMED && g_sleep_ms == 10))
#endif
/* a stopped accept operation is not restarted */
__CPROVER_ensures((!A_OK && A_ERR == (int) NNG_ESTOPPED) ==> (g_accept_calls == OLD(g_accept_calls) && g_sleep_calls == OLD(g_sleep_calls)))
;

#if TX_HAS_DIALER
static void FN_dial_cb(void *arg)
__CPROVER_requires(A_CB_PRE)
__CPROVER_assigns(A_CB_GHOSTS)
__CPROVER_ensures(VP_NO_LOCK_HELD)
/* connected: the pipe starts negotiating; the waiting connect is completed later by the negotiation */
__CPROVER_ensures(A_OK ==> A_PIPE_STARTED(EPA->ndialer))
/* failed / endpoint closed meanwhile / no pipe: the error goes straight back to the waiting connect, once */
__CPROVER_ensures(!A_OK ==> A_FAILED)
;
#endif

#if TX_HAS_TIMER
static void FN_timer_cb(void *arg)
__CPROVER_requires(__CPROVER_is_fresh(arg, sizeof(TX_EP)) && VP_NO_LOCK_HELD)
__CPROVER_assigns(g_accept_calls, g_accept_l, g_accept_aio, VP_SYNC_GHOSTS)
__CPROVER_ensures(VP_NO_LOCK_HELD)
/* C14: the cool-down elapsed: accepting resumes; cancelled (endpoint closing): it does not */
__CPROVER_ensures(EPA->e_timeaio.a_result == 0 ? A_ACCEPT_ARMED : g_accept_calls == OLD(g_accept_calls))
;
#endif
/* clang-format on */
