#define VP_SZ(v) do { v = nondet_size_t(); __CPROVER_assume(v < ((size_t) 1 << 40)); } while (0)
#define VP_AIO3(c) do { VP_SZ((c).rx); VP_SZ((c).tx); VP_SZ((c).nego); VP_SZ((c).other); } while (0)
#define VP_HAVOC_GHOSTS()                                                     \
	do {                                                                      \
		g_k = nondet_size_t(); g_j = nondet_size_t(); g_n = nondet_size_t();  \
		VP_SZ(g_msg_freed); g_msg_freed_at_j = nondet_ptr(); g_msg_freed_last = nondet_ptr(); \
		VP_SZ(g_free_calls); VP_SZ(g_alloc_ok); VP_SZ(g_msg_alloc_calls); g_msg_alloc_sz = nondet_size_t(); \
		VP_SZ(g_recvq.n); g_recvq.head = nondet_ptr(); g_recvq.next = nondet_ptr(); VP_SZ(g_sendq.n); g_sendq.head = nondet_ptr(); g_sendq.next = nondet_ptr(); \
		g_recvq_tail = nondet_ptr(); g_sendq_tail = nondet_ptr(); g_the_aio = nondet_ptr(); g_deep = nondet_int(); \
		g_recvq_addr = nondet_ptr(); g_sendq_addr = nondet_ptr(); g_negoq_addr = nondet_ptr(); g_waitq_addr = nondet_ptr(); \
		VP_SZ(g_negoq.n); g_negoq.has_p = nondet_bool(); g_negoq.p_first = nondet_bool(); \
		VP_SZ(g_waitq.n); g_waitq.has_p = nondet_bool(); g_waitq.p_first = nondet_bool(); \
		g_the_pipe = nondet_ptr(); g_the_node = nondet_ptr(); g_other_pipe = NULL; \
		VP_SZ(g_send_calls); VP_SZ(g_recv_calls); VP_SZ(g_sclose_calls); VP_SZ(g_sstop_calls); VP_SZ(g_sfree_calls); g_io_conn = nondet_ptr(); g_io_aio = nondet_ptr(); g_sfree_last = nondet_ptr(); \
		VP_SZ(g_accept_calls); VP_SZ(g_sleep_calls); g_accept_l = nondet_ptr(); g_accept_aio = nondet_ptr(); g_sleep_aio = nondet_ptr(); g_sleep_ms = nondet_int(); \
		VP_SZ(g_fin_calls); g_fin_last = nondet_ptr(); g_fin_last_rv = nondet_int(); g_fin_last_count = nondet_size_t(); g_fin_last_sync = nondet_bool(); g_fin_mark = nondet_size_t(); g_fin_mark_rv = nondet_int(); \
		g_start_ok = nondet_bool(); VP_SZ(g_start_calls); g_start_aio = nondet_ptr(); g_start_fn = NULL; g_start_arg = nondet_ptr(); \
		VP_SZ(g_abort_calls); g_abort_aio = nondet_ptr(); g_abort_rv = nondet_int(); \
		g_aio_rx = nondet_ptr(); g_aio_tx = nondet_ptr(); g_aio_nego = nondet_ptr(); VP_AIO3(g_aclose); VP_AIO3(g_astop); VP_AIO3(g_afini); \
		g_seq = nondet_size_t(); g_last_astop_seq = nondet_size_t(); g_sstop_seq = nondet_size_t(); g_sfree_seq = nondet_size_t(); g_first_afini_seq = nondet_size_t(); g_node_rm_seq = nondet_size_t(); \
		VP_SZ(g_bump_rx_calls); VP_SZ(g_bump_tx_calls); VP_SZ(g_bump_err_calls); g_bump_last = nondet_size_t(); \
		VP_SZ(g_pipe_close_calls); VP_SZ(g_pipe_rele_calls); VP_SZ(g_palloc_calls); g_palloc_rv = nondet_int(); g_palloc_owner = nondet_ptr(); \
		VP_HAVOC_SYNC();                                                      \
	} while (0)

#define H2(name, fn)   void name(void) { void *p; nni_aio *a; VP_HAVOC_GHOSTS(); fn(p, a); VP_CANARY(); }
#define HC(name, fn)   void name(void) { void *p; nni_aio *a; nng_err rv; VP_HAVOC_GHOSTS(); fn(a, p, rv); VP_CANARY(); }
#define H1(name, fn)   void name(void) { void *p; VP_HAVOC_GHOSTS(); fn(p); VP_CANARY(); }

H2(h_tcp_send, tcptran_pipe_send)
H2(h_tcp_recv, tcptran_pipe_recv)
HC(h_tcp_send_cancel, tcptran_pipe_send_cancel)
HC(h_tcp_recv_cancel, tcptran_pipe_recv_cancel)
H1(h_tcp_close, tcptran_pipe_close)
H1(h_tcp_stop, tcptran_pipe_stop)
H1(h_tcp_fini, tcptran_pipe_fini)
void h_tcp_start(void) { tcptran_pipe *p; nng_stream *c; tcptran_ep *ep; VP_HAVOC_GHOSTS(); tcptran_pipe_start(p, c, ep); VP_CANARY(); }
void h_tcp_match(void) { tcptran_ep *ep; VP_HAVOC_GHOSTS(); tcptran_ep_match(ep); VP_CANARY(); }
H1(h_tcp_accept_cb, tcptran_accept_cb)
H1(h_tcp_dial_cb, tcptran_dial_cb)
H1(h_tcp_timer_cb, tcptran_timer_cb)

H2(h_ipc_send, ipc_pipe_send)
H2(h_ipc_recv, ipc_pipe_recv)
HC(h_ipc_send_cancel, ipc_pipe_send_cancel)
HC(h_ipc_recv_cancel, ipc_pipe_recv_cancel)
H1(h_ipc_close, ipc_pipe_close)
H1(h_ipc_stop, ipc_pipe_stop)
H1(h_ipc_fini, ipc_pipe_fini)
void h_ipc_start(void) { ipc_pipe *p; nng_stream *c; ipc_ep *ep; VP_HAVOC_GHOSTS(); ipc_pipe_start(p, c, ep); VP_CANARY(); }
void h_ipc_match(void) { ipc_ep *ep; VP_HAVOC_GHOSTS(); ipc_ep_match(ep); VP_CANARY(); }
H1(h_ipc_accept_cb, ipc_ep_accept_cb)
H1(h_ipc_dial_cb, ipc_ep_dial_cb)
H1(h_ipc_timer_cb, ipc_ep_timer_cb)

H2(h_sfd_send, sfd_tran_pipe_send)
H2(h_sfd_recv, sfd_tran_pipe_recv)
HC(h_sfd_send_cancel, sfd_tran_pipe_send_cancel)
HC(h_sfd_recv_cancel, sfd_tran_pipe_recv_cancel)
H1(h_sfd_close, sfd_tran_pipe_close)
H1(h_sfd_stop, sfd_tran_pipe_stop)
H1(h_sfd_fini, sfd_tran_pipe_fini)
void h_sfd_start(void) { sfd_tran_pipe *p; nng_stream *c; sfd_tran_ep *ep; VP_HAVOC_GHOSTS(); sfd_tran_pipe_start(p, c, ep); VP_CANARY(); }
void h_sfd_match(void) { sfd_tran_ep *ep; VP_HAVOC_GHOSTS(); sfd_tran_ep_match(ep); VP_CANARY(); }
H1(h_sfd_accept_cb, sfd_tran_accept_cb)
