/* Spec macros (copy of modules/tcpframe/spec.h: SP connection header, 64-bit length prefix) for the tranx module.
 * Oracle: SP over TCP mapping (sp-tcp-mapping-01): connection header
 * 00 'S' 'P' 00 <protocol id, 16 bit big endian> 00 00; every message is a
 * 64-bit big-endian size followed by that many payload bytes.  nng reserves
 * the upper four bits of the size (NNI_MAX_STREAM_MSGSZ, core/defs.h) and
 * documents NNG_OPT_RECVMAXSZ: 0 = no limit, larger messages are rejected
 * (NNG_EMSGSIZE) and never delivered. */
#ifndef VP_TRANX_SPEC_H
#define VP_TRANX_SPEC_H
#include "modules/aioiov/spec.h"

#define TF_BE16(b) ((uint16_t) (((uint16_t) (b)[0] << 8) | (uint16_t) (b)[1]))
#define TF_BE64(b)                                                            \
	(((uint64_t) (b)[0] << 56) | ((uint64_t) (b)[1] << 48) |                  \
	    ((uint64_t) (b)[2] << 40) | ((uint64_t) (b)[3] << 32) |               \
	    ((uint64_t) (b)[4] << 24) | ((uint64_t) (b)[5] << 16) |               \
	    ((uint64_t) (b)[6] << 8) | (uint64_t) (b)[7])
#define TF_MAXSZ UINT64_C(0x0fffffffffffffff)
#define VIOV_LENMAX (SIZE_MAX >> 3) /* buffers fit the address space */
#define TF_LEN_OK(len, rcvmax) ((len) <= TF_MAXSZ && !((rcvmax) > 0 && (len) > (rcvmax)))
#define TF_HELLO_OK(b) ((b)[0] == 0 && (b)[1] == 'S' && (b)[2] == 'P' && (b)[3] == 0 && (b)[6] == 0 && (b)[7] == 0)

#define TF_MSG_PRE(m)                                                         \
	(__CPROVER_is_fresh((m), sizeof(struct nng_msg)) && (m)->vm_hlen <= 64 && \
	    __CPROVER_is_fresh((m)->vm_body, (m)->vm_blen ? (m)->vm_blen : 1))

#define TF_Q_OK(q) ((((q).n == 0) == ((q).head == NULL)) && (((q).n >= 2) == ((q).next != NULL)) && ((q).n < 2 || (q).next != (q).head))
#endif
