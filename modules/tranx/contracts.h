/* Contracts of module tranx: instantiates contracts_t.h for each transport source of the translation unit. */
#ifndef VP_TRANX_CONTRACTS_H
#define VP_TRANX_CONTRACTS_H
/* clang-format off */
#define RV __CPROVER_return_value
#define OLD(e) __CPROVER_old(e)
#define TX_FIN_GHOSTS g_fin_calls, g_fin_last, g_fin_last_rv, g_fin_last_count, g_fin_last_sync, g_fin_mark_rv
#define TX_IO_GHOSTS g_send_calls, g_recv_calls, g_io_conn, g_io_aio
#define TX_MSG_GHOSTS g_msg_alloc_calls, g_msg_alloc_sz, g_alloc_ok, g_msg_freed, g_msg_freed_at_j, g_msg_freed_last
#define TX_START_GHOSTS g_start_calls, g_start_aio, g_start_fn, g_start_arg
#define TX_ABORT_GHOSTS g_abort_calls, g_abort_aio, g_abort_rv
#define TX_IOV_OF(a) (a).a_nio, __CPROVER_object_upto(&(a).a_iov[0], sizeof((a).a_iov))
/* what nni_aio_reset (real code) writes */
#define TX_RESET_OF(aio) (aio)->a_result, (aio)->a_count, (aio)->a_abort, (aio)->a_expire_ok, (aio)->a_sleep, (aio)->a_skipped_callback, __CPROVER_object_upto(&(aio)->a_outputs[0], sizeof((aio)->a_outputs))
#define TX_FIN_IS(aio, rv, cnt) (g_fin_calls == OLD(g_fin_calls) + 1 && g_fin_last == (aio) && g_fin_last_rv == (int) (rv) && g_fin_last_count == (cnt))
#define TX_NO_IO (g_send_calls == OLD(g_send_calls) && g_recv_calls == OLD(g_recv_calls))
#define TX_NOT_QUEUED(aio) (g_deep == 0 && (g_sendq.n < 1 || g_sendq.head != (aio)) && (g_sendq.n < 2 || g_sendq.next != (aio)) && (g_recvq.n < 1 || g_recvq.head != (aio)) && (g_recvq.n < 2 || g_recvq.next != (aio)))

/* ---------------- tcp.c ---------------- */
#define TX_PIPE tcptran_pipe
#define TX_EP tcptran_ep
#define f_recvq recvq
#define f_sendq sendq
#define f_rxaio rxaio
#define f_txaio txaio
#define f_negoaio negoaio
#define f_rxmsg rxmsg
#define f_npipe npipe
#define f_txlen txlen
#define f_rxlen rxlen
#define f_gottx gottxhead
#define f_gotrx gotrxhead
#define f_wanttx wanttxhead
#define f_wantrx wantrxhead
#define f_rcvmax rcvmax
#define e_useraio useraio
#define e_connaio connaio
#define e_timeaio timeaio
#define e_negopipes negopipes
#define e_waitpipes waitpipes
#define e_rcvmax rcvmax
#define TX_HDR_OFF 0
#define TX_PREFIX_OK(p, m) (TF_BE64((p)->txlen) == (uint64_t) (m)->vm_hlen + (uint64_t) (m)->vm_blen)
#define TX_RECV_CHECKS_CLOSED 0
#define TX_STOP_STREAM 1
#define TX_FINI_STOPS 1
#define TX_NEGO_TIMEOUT 10000
#define TX_HAS_TIMER 1
#define TX_HAS_DIALER 1
#define TX_TIMER_ARMED (g_sleep_calls == OLD(g_sleep_calls) + 1 && g_sleep_aio == &EPA->timeaio)
#define FN_send tcptran_pipe_send
#define FN_recv tcptran_pipe_recv
#define FN_send_cancel tcptran_pipe_send_cancel
#define FN_recv_cancel tcptran_pipe_recv_cancel
#define FN_close tcptran_pipe_close
#define FN_stop tcptran_pipe_stop
#define FN_fini tcptran_pipe_fini
#define FN_start tcptran_pipe_start
#define FN_match tcptran_ep_match
#define FN_accept_cb tcptran_accept_cb
#define FN_dial_cb tcptran_dial_cb
#define FN_timer_cb tcptran_timer_cb
#include "modules/tranx/contracts_t.h"

#undef TX_PIPE
#undef TX_EP
#undef f_recvq
#undef f_sendq
#undef f_rxaio
#undef f_txaio
#undef f_negoaio
#undef f_rxmsg
#undef f_npipe
#undef f_txlen
#undef f_rxlen
#undef f_gottx
#undef f_gotrx
#undef f_wanttx
#undef f_wantrx
#undef f_rcvmax
#undef e_useraio
#undef e_connaio
#undef e_timeaio
#undef e_negopipes
#undef e_waitpipes
#undef e_rcvmax
#undef TX_HDR_OFF
#undef TX_PREFIX_OK
#undef TX_RECV_CHECKS_CLOSED
#undef TX_STOP_STREAM
#undef TX_FINI_STOPS
#undef TX_NEGO_TIMEOUT
#undef TX_HAS_TIMER
#undef TX_HAS_DIALER
#undef TX_TIMER_ARMED
#undef FN_send
#undef FN_recv
#undef FN_send_cancel
#undef FN_recv_cancel
#undef FN_close
#undef FN_stop
#undef FN_fini
#undef FN_start
#undef FN_match
#undef FN_accept_cb
#undef FN_dial_cb
#undef FN_timer_cb

/* ---------------- ipc.c (9-byte prefix: type octet 1 + 64-bit length; pipe_recv refuses a closed pipe itself) ---------------- */
#define TX_PIPE ipc_pipe
#define TX_EP ipc_ep
#define f_recvq recv_q
#define f_sendq send_q
#define f_rxaio rx_aio
#define f_txaio tx_aio
#define f_negoaio neg_aio
#define f_rxmsg rx_msg
#define f_npipe pipe
#define f_txlen tx_head
#define f_rxlen rx_head
#define f_gottx got_tx_head
#define f_gotrx got_rx_head
#define f_wanttx want_tx_head
#define f_wantrx want_rx_head
#define f_rcvmax rcv_max
#define e_useraio user_aio
#define e_connaio conn_aio
#define e_timeaio time_aio
#define e_negopipes nego_pipes
#define e_waitpipes wait_pipes
#define e_rcvmax rcv_max
#define TX_HDR_OFF 0
#define TX_PREFIX_OK(p, m) ((p)->tx_head[0] == 1 && TF_BE64(&(p)->tx_head[1]) == (uint64_t) (m)->vm_hlen + (uint64_t) (m)->vm_blen)
#define TX_RECV_CHECKS_CLOSED 1
#define TX_STOP_STREAM 1
#define TX_FINI_STOPS 1
#define TX_NEGO_TIMEOUT 10000
#define TX_HAS_TIMER 1
#define TX_HAS_DIALER 1
#define TX_TIMER_ARMED (g_sleep_calls == OLD(g_sleep_calls) + 1 && g_sleep_aio == &EPA->time_aio)
#define FN_send ipc_pipe_send
#define FN_recv ipc_pipe_recv
#define FN_send_cancel ipc_pipe_send_cancel
#define FN_recv_cancel ipc_pipe_recv_cancel
#define FN_close ipc_pipe_close
#define FN_stop ipc_pipe_stop
#define FN_fini ipc_pipe_fini
#define FN_start ipc_pipe_start
#define FN_match ipc_ep_match
#define FN_accept_cb ipc_ep_accept_cb
#define FN_dial_cb ipc_ep_dial_cb
#define FN_timer_cb ipc_ep_timer_cb
#include "modules/tranx/contracts_t.h"

#undef TX_PIPE
#undef TX_EP
#undef f_recvq
#undef f_sendq
#undef f_rxaio
#undef f_txaio
#undef f_negoaio
#undef f_rxmsg
#undef f_npipe
#undef f_txlen
#undef f_rxlen
#undef f_gottx
#undef f_gotrx
#undef f_wanttx
#undef f_wantrx
#undef f_rcvmax
#undef e_useraio
#undef e_connaio
#undef e_timeaio
#undef e_negopipes
#undef e_waitpipes
#undef e_rcvmax
#undef TX_HDR_OFF
#undef TX_PREFIX_OK
#undef TX_RECV_CHECKS_CLOSED
#undef TX_STOP_STREAM
#undef TX_FINI_STOPS
#undef TX_NEGO_TIMEOUT
#undef TX_HAS_TIMER
#undef TX_HAS_DIALER
#undef TX_TIMER_ARMED
#undef FN_send
#undef FN_recv
#undef FN_send_cancel
#undef FN_recv_cancel
#undef FN_close
#undef FN_stop
#undef FN_fini
#undef FN_start
#undef FN_match
#undef FN_accept_cb
#undef FN_dial_cb
#undef FN_timer_cb

/* ---------------- sockfd.c (listener only: no dialer, no cool-down timer; no negotiation time limit; pipe_stop does not
 * stop the stream and pipe_fini does not stop the pipe: the pipe core always calls p_stop before p_fini) ---------------- */
#define TX_PIPE sfd_tran_pipe
#define TX_EP sfd_tran_ep
#define f_recvq recvq
#define f_sendq sendq
#define f_rxaio rxaio
#define f_txaio txaio
#define f_negoaio negoaio
#define f_rxmsg rxmsg
#define f_npipe npipe
#define f_txlen txlen
#define f_rxlen rxlen
#define f_gottx gottxhead
#define f_gotrx gotrxhead
#define f_wanttx wanttxhead
#define f_wantrx wantrxhead
#define f_rcvmax rcvmax
#define e_useraio useraio
#define e_connaio connaio
#define e_negopipes negopipes
#define e_waitpipes waitpipes
#define e_rcvmax rcvmax
#define TX_HDR_OFF 0
#define TX_PREFIX_OK(p, m) (TF_BE64((p)->txlen) == (uint64_t) (m)->vm_hlen + (uint64_t) (m)->vm_blen)
#define TX_RECV_CHECKS_CLOSED 0
#define TX_STOP_STREAM 0
#define TX_FINI_STOPS 0
#define TX_NEGO_TIMEOUT NNG_DURATION_INFINITE
#define TX_HAS_TIMER 0
#define TX_HAS_DIALER 0
#define TX_TIMER_ARMED (0)
#define FN_send sfd_tran_pipe_send
#define FN_recv sfd_tran_pipe_recv
#define FN_send_cancel sfd_tran_pipe_send_cancel
#define FN_recv_cancel sfd_tran_pipe_recv_cancel
#define FN_close sfd_tran_pipe_close
#define FN_stop sfd_tran_pipe_stop
#define FN_fini sfd_tran_pipe_fini
#define FN_start sfd_tran_pipe_start
#define FN_match sfd_tran_ep_match
#define FN_accept_cb sfd_tran_accept_cb
#include "modules/tranx/contracts_t.h"
/* clang-format on */
#endif
