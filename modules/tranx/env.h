/* Environment of the transport pipe / endpoint operations (ASSUMED models, ghost state in ghost.h).
 * modules/tcpframe/env.h extended by:
 *  - nni_aio_start (answer g_start_ok; cancel function and argument recorded), nni_aio_abort / close / stop /
 *    fini (recorded per embedded aio of the pipe under test), nni_aio_list_active;
 *  - wait queues: append at the tail, removal of the head / the second / a deeper member;
 *  - nni_list_node_remove (pipe leaves whichever endpoint list it is on);
 *  - nng_stream_stop/free, nng_stream_listener_accept, nng_sleep_aio (recorded);
 *  - nni_pipe_alloc_listener/dialer (may fail with any non-zero code; success = a new pipe object). */
#ifndef VP_TRANX_ENV_H
#define VP_TRANX_ENV_H

/* ---- messages ---------------------------------------------------------- */
int
nni_msg_alloc(nni_msg **mp, size_t sz)
{
	nni_msg *m;
	g_msg_alloc_calls++;
	g_msg_alloc_sz = sz;
	if ((m = malloc(sizeof(*m))) == NULL) {
		return (NNG_ENOMEM);
	}
	if ((m->vm_body = malloc(sz ? sz : 1)) == NULL) {
		free(m);
		return (NNG_ENOMEM);
	}
	m->vm_hlen = 0;
	m->vm_blen = sz;
	g_alloc_ok++;
	*mp = m;
	return (0);
}
void
nni_msg_free(nni_msg *m)
{
	if (m != NULL) {
		if (g_msg_freed == g_j) {
			g_msg_freed_at_j = m;
		}
		g_msg_freed++;
		g_msg_freed_last = m;
		free(m->vm_body);
		free(m);
	}
}
size_t nni_msg_len(const nni_msg *m) { return (m->vm_blen); }
size_t nni_msg_header_len(const nni_msg *m) { return (m->vm_hlen); }
void  *nni_msg_body(nni_msg *m) { return (m->vm_body); }
void  *nni_msg_header(nni_msg *m) { return (&m->vm_hdr[0]); }

/* ---- wait queues of user aios ------------------------------------------- */
static nni_aio *
vp_unknown_member(vp_aioq *q)
{
	/* ASSUMED list invariants: a member is not NULL, no aio twice in a queue, an aio waits in at most one queue */
	vp_aioq *o = (q == &g_recvq) ? &g_sendq : &g_recvq;
	nni_aio *x = nondet_ptr();
	__CPROVER_assume(x != NULL && x != q->head && x != g_the_aio);
	__CPROVER_assume(o->n == 0 || x != o->head);
	return (x);
}
static void
vp_aioq_pop(vp_aioq *q)
{
	/* the head leaves: the one behind it becomes head; who is behind that one is unknown */
	nni_aio *gone = q->head;
	q->n--;
	q->head = q->next;
	q->next = (q->n >= 2) ? vp_unknown_member(q) : NULL;
	__CPROVER_assume(q->next != gone || gone == NULL);
}
static vp_aioq *
vp_q_of(const nni_list *l)
{
	return (l == g_recvq_addr ? &g_recvq : l == g_sendq_addr ? &g_sendq : NULL);
}
static bool
vp_on_q(vp_aioq *q, nni_aio *aio, int deep_id)
{
	return ((q->n >= 1 && aio == q->head) || (q->n >= 2 && aio == q->next) || (aio == g_the_aio && g_deep == deep_id));
}
int
nni_aio_list_active(nni_aio *aio)
{
	return (vp_on_q(&g_recvq, aio, 1) || vp_on_q(&g_sendq, aio, 2));
}
static void
vp_aioq_remove(vp_aioq *q, nni_aio *aio, int deep_id)
{
	if (q->n >= 1 && aio == q->head) {
		vp_aioq_pop(q);
	} else if (q->n >= 2 && aio == q->next) {
		q->n--;
		q->next = (q->n >= 2) ? vp_unknown_member(q) : NULL;
	} else {
		__CPROVER_assert(aio == g_the_aio && g_deep == deep_id && q->n >= 3, "list remove: the aio is a member of that queue");
		q->n--;
		g_deep = 0;
	}
}
void
nni_aio_list_remove(nni_aio *aio)
{
	__CPROVER_assert(aio != NULL, "aio_list_remove: aio is not NULL");
	if (vp_on_q(&g_recvq, aio, 1)) {
		vp_aioq_remove(&g_recvq, aio, 1);
	} else if (vp_on_q(&g_sendq, aio, 2)) {
		vp_aioq_remove(&g_sendq, aio, 2);
	}
	/* not on a list: nni_list_node_remove does nothing */
}
void *
nni_list_first(const nni_list *l)
{
	if (l == g_recvq_addr) {
		return (g_recvq.n ? g_recvq.head : NULL);
	}
	if (l == g_sendq_addr) {
		return (g_sendq.n ? g_sendq.head : NULL);
	}
	__CPROVER_assert(l == g_waitq_addr, "list_first: a list of this model");
	if (g_waitq.n == 0) {
		return (NULL);
	}
	if (g_waitq.has_p && g_waitq.p_first) {
		return (g_the_pipe);
	}
	if (g_other_pipe == NULL) {
		g_other_pipe = malloc(VP_PIPE_MAXSZ);
		__CPROVER_assume(g_other_pipe != NULL);
	}
	return (g_other_pipe);
}
int
nni_list_empty(nni_list *l)
{
	__CPROVER_assert(l == g_recvq_addr || l == g_sendq_addr, "list_empty: an aio queue of this model");
	return (l == g_recvq_addr ? g_recvq.n == 0 : g_sendq.n == 0);
}
void
nni_list_remove(nni_list *l, void *item)
{
	vp_aioq *q = vp_q_of(l);
	if (q != NULL) {
		__CPROVER_assert(vp_on_q(q, item, q == &g_recvq ? 1 : 2), "list remove: item is a member of that queue");
		vp_aioq_remove(q, item, q == &g_recvq ? 1 : 2);
		return;
	}
	__CPROVER_assert(l == g_negoq_addr || l == g_waitq_addr, "list_remove: a list of this model");
	vp_pipeq *pq = (l == g_negoq_addr) ? &g_negoq : &g_waitq;
	if (item == g_the_pipe) {
		__CPROVER_assert(pq->has_p && pq->n > 0, "list remove: the pipe is on that list");
		pq->has_p   = false;
		pq->p_first = false;
		pq->n--;
	} else {
		__CPROVER_assert(pq->n > (pq->has_p ? 1 : 0) && item == g_other_pipe && !pq->p_first, "list remove: the other pipe is the first of that list");
		pq->n--;
		g_other_pipe = NULL;
		pq->p_first  = pq->has_p && (pq->n == 1 || nondet_bool());
	}
}
void
nni_list_append(nni_list *l, void *item)
{
	vp_aioq *q = vp_q_of(l);
	if (q != NULL) {
		/* a user aio joins a wait queue at the tail */
		__CPROVER_assert(item != NULL && !nni_aio_list_active(item), "list_append: the aio is not queued anywhere (one list node per aio)");
		if (q->n == 0) {
			q->head = item;
		} else if (q->n == 1) {
			q->next = item;
		} else if (item == g_the_aio) {
			g_deep = (q == &g_recvq) ? 1 : 2;
		}
		q->n++;
		if (q == &g_recvq) {
			g_recvq_tail = item;
		} else {
			g_sendq_tail = item;
		}
		return;
	}
	__CPROVER_assert((l == g_negoq_addr || l == g_waitq_addr) && item == g_the_pipe, "list_append: the pipe under test onto an endpoint list");
	vp_pipeq *pq = (l == g_negoq_addr) ? &g_negoq : &g_waitq;
	__CPROVER_assert(!g_negoq.has_p && !g_waitq.has_p, "list_append: the pipe is not on another list (shared list node)");
	pq->has_p   = true;
	pq->p_first = (pq->n == 0);
	pq->n++;
}
void
nni_aio_list_append(nni_list *l, nni_aio *aio)
{
	nni_aio_list_remove(aio);
	nni_list_append(l, aio);
}
/* the pipe leaves whichever endpoint list it is on (if any) */
void
nni_list_node_remove(nni_list_node *node)
{
	__CPROVER_assert(node == g_the_node, "list_node_remove: the list node of the pipe under test");
	g_node_rm_seq = ++g_seq;
	if (g_negoq.has_p) {
		g_negoq.has_p   = false;
		g_negoq.p_first = false;
		g_negoq.n--;
	} else if (g_waitq.has_p) {
		g_waitq.has_p   = false;
		g_waitq.p_first = false;
		g_waitq.n--;
	}
}

/* ---- completions ------------------------------------------------------- */
static void
vp_fin(nni_aio *aio, nng_err rv, size_t count, bool sync)
{
	__CPROVER_assert(aio != NULL, "completion of a NULL aio");
	__CPROVER_assert(aio != g_the_aio || !nni_aio_list_active(aio), "completion of the aio under test while it is still on a wait queue");
	if (g_fin_calls == g_fin_mark) {
		g_fin_mark_rv = (int) rv;
	}
	g_fin_calls++;
	g_fin_last       = aio;
	g_fin_last_rv    = (int) rv;
	g_fin_last_count = count;
	g_fin_last_sync  = sync;
}
void nni_aio_finish(nni_aio *aio, nng_err rv, size_t count) { vp_fin(aio, rv, count, false); }
void nni_aio_finish_sync(nni_aio *aio, nng_err rv, size_t count) { vp_fin(aio, rv, count, true); }
void nni_aio_finish_error(nni_aio *aio, nng_err rv) { vp_fin(aio, rv, 0, false); }

/* ---- aio run-time -------------------------------------------------------- */
bool
nni_aio_start(nni_aio *aio, nni_aio_cancel_fn cancel, void *data)
{
	/* refused (stopped / aborted / timed out before it began): the aio layer completes the aio itself */
	g_start_calls++;
	g_start_aio = aio;
	g_start_fn  = cancel;
	g_start_arg = data;
	return (g_start_ok);
}
void
nni_aio_abort(nni_aio *aio, nng_err rv)
{
	g_abort_calls++;
	g_abort_aio = aio;
	g_abort_rv  = (int) rv;
}
static void
vp_aio3_note(vp_aio3 *c, nni_aio *aio)
{
	if (aio == g_aio_rx) {
		c->rx++;
	} else if (aio == g_aio_tx) {
		c->tx++;
	} else if (aio == g_aio_nego) {
		c->nego++;
	} else {
		c->other++;
	}
}
void nni_aio_close(nni_aio *aio) { vp_aio3_note(&g_aclose, aio); }
void nni_aio_stop(nni_aio *aio) { vp_aio3_note(&g_astop, aio); g_last_astop_seq = ++g_seq; }
void
nni_aio_fini(nni_aio *aio)
{
	vp_aio3_note(&g_afini, aio);
	++g_seq;
	if (g_seq < g_first_afini_seq) {
		g_first_afini_seq = g_seq;
	}
}

/* ---- stream layer ------------------------------------------------------ */
void nng_stream_send(nng_stream *s, nng_aio *aio) { g_send_calls++; g_io_conn = s; g_io_aio = aio; }
void nng_stream_recv(nng_stream *s, nng_aio *aio) { g_recv_calls++; g_io_conn = s; g_io_aio = aio; }
void nng_stream_close(nng_stream *s) { g_sclose_calls++; g_io_conn = s; }
void nng_stream_stop(nng_stream *s) { g_sstop_calls++; g_io_conn = s; g_sstop_seq = ++g_seq; }
void nng_stream_free(nng_stream *s) { g_sfree_calls++; g_sfree_last = s; g_sfree_seq = ++g_seq; }
void nng_stream_listener_accept(nng_stream_listener *l, nng_aio *aio) { g_accept_calls++; g_accept_l = l; g_accept_aio = aio; }
void nng_sleep_aio(nng_duration ms, nng_aio *aio) { g_sleep_calls++; g_sleep_ms = ms; g_sleep_aio = aio; }
const nng_sockaddr *nng_stream_peer_addr(nng_stream *s) { (void) s; return ((const nng_sockaddr *) nondet_ptr()); }
const char *nng_str_sockaddr(const nng_sockaddr *sa, char *buf, size_t bufsz) { (void) sa; (void) bufsz; return (buf); }
void nng_log_warn(const char *msgid, const char *msg, ...) { (void) msgid; (void) msg; }
int
vp_snprintf(char *buf, size_t n)
{
	__CPROVER_assert(n == 0 || __CPROVER_w_ok(buf, n), "snprintf: the n-byte buffer is writable");
	if (n > 0) {
		size_t i = nondet_size_t(), j = nondet_size_t();
		__CPROVER_assume(i < n && j <= i);
		buf[j] = (char) nondet_u8();
		buf[i] = 0;
	}
	return (nondet_int());
}
nng_err
nng_stream_get_int(nng_stream *s, const char *name, int *valp)
{
	(void) s;
	(void) name;
	if (nondet_bool()) {
		return ((nng_err) NNG_ENOTSUP);
	}
	*valp = nondet_int();
	return (NNG_OK);
}

/* ---- pipe layer -------------------------------------------------------- */
void nni_pipe_bump_rx(nni_pipe *p, size_t n) { (void) p; g_bump_rx_calls++; g_bump_last = n; }
void nni_pipe_bump_tx(nni_pipe *p, size_t n) { (void) p; g_bump_tx_calls++; g_bump_last = n; }
void nni_pipe_bump_error(nni_pipe *p, int rv) { (void) p; (void) rv; g_bump_err_calls++; }
void nni_pipe_close(nni_pipe *p) { (void) p; g_pipe_close_calls++; }
void nni_pipe_rele(nni_pipe *p) { (void) p; g_pipe_rele_calls++; }
uint32_t nni_pipe_sock_id(nni_pipe *p) { (void) p; return (nondet_u32()); }
uint32_t nni_pipe_id(nni_pipe *p) { (void) p; return (nondet_u32()); }
/* a new pipe for an accepted / dialed connection: may fail with any error; on success the transport part is a
 * new object (it becomes "the pipe under test": its list node is not on any list) */
static int
vp_pipe_alloc(void **datap, void *owner)
{
	g_palloc_calls++;
	g_palloc_owner = owner;
	if (g_palloc_rv != 0) {
		return (g_palloc_rv);
	}
	void *p = malloc(VP_PIPE_MAXSZ);
	__CPROVER_assume(p != NULL);
	g_the_pipe = p;
	*datap     = p;
	return (0);
}
int nni_pipe_alloc_listener(void **datap, nni_listener *l) { return (vp_pipe_alloc(datap, l)); }
int nni_pipe_alloc_dialer(void **datap, nni_dialer *d) { return (vp_pipe_alloc(datap, d)); }
#endif
