/* Ghost state and model types of the tranx environment (the tcpframe environment, modules/tcpframe/ghost.h,
 * extended for the pipe/endpoint operations that are NOT framing steps: queueing, cancel, close/stop/fini,
 * negotiation start and the endpoint callbacks).  Declared before the real sources so that woven loop
 * invariants can name the ghosts.
 *
 * Pulls in the REAL src/core/aio.c: nni_aio_reset, nni_aio_set_iov, nni_aio_set_timeout, nni_aio_result,
 * nni_aio_count, nni_aio_get/set_msg, nni_aio_get/set_output are the real code.  The functions of aio.c that
 * need the aio run-time (task dispatch, expire queue, intrusive lists) are renamed away while aio.c is compiled
 * and are provided as ghost stubs by env.h. */
#ifndef VP_TRANX_GHOST_H
#define VP_TRANX_GHOST_H
#include "core/nng_impl.h"

#define nni_aio_finish        vp_rt_nni_aio_finish
#define nni_aio_finish_error  vp_rt_nni_aio_finish_error
#define nni_aio_finish_sync   vp_rt_nni_aio_finish_sync
#define nni_aio_finish_msg    vp_rt_nni_aio_finish_msg
#define nni_aio_list_init     vp_rt_nni_aio_list_init
#define nni_aio_list_append   vp_rt_nni_aio_list_append
#define nni_aio_list_remove   vp_rt_nni_aio_list_remove
#define nni_aio_list_active   vp_rt_nni_aio_list_active
#define nni_aio_start         vp_rt_nni_aio_start
#define nni_aio_abort         vp_rt_nni_aio_abort
#define nni_aio_close         vp_rt_nni_aio_close
#define nni_aio_stop          vp_rt_nni_aio_stop
#define nni_aio_fini          vp_rt_nni_aio_fini
#include "core/aio.c"
#undef nni_aio_finish
#undef nni_aio_finish_error
#undef nni_aio_finish_sync
#undef nni_aio_finish_msg
#undef nni_aio_list_init
#undef nni_aio_list_append
#undef nni_aio_list_remove
#undef nni_aio_list_active
#undef nni_aio_start
#undef nni_aio_abort
#undef nni_aio_close
#undef nni_aio_stop
#undef nni_aio_fini

/* snprintf of ipc.c: see modules/ipcframe/ghost.h (a variadic definition cannot be instrumented by DFCC) */
#include <stdio.h>
int vp_snprintf(char *buf, size_t n);
#define snprintf(buf, n, ...) vp_snprintf((buf), (n))

/* ASSUMED model of a message (message.c is under contract in module "message"), as in tcpframe */
struct nng_msg {
	size_t   vm_hlen;
	uint8_t  vm_hdr[64];
	size_t   vm_blen;
	uint8_t *vm_body;
};

/* wait queues of user aios (recvq, sendq): count + the first two members + the last one appended by this
 * call; the identities of the others are unknown, except for "the aio under test is one of them" (g_deep). */
typedef struct {
	size_t   n;
	nni_aio *head;
	nni_aio *next; /* the one behind the head (n >= 2) */
} vp_aioq;
vp_aioq   g_recvq, g_sendq;
nni_list *g_recvq_addr, *g_sendq_addr;
nni_aio  *g_recvq_tail, *g_sendq_tail; /* member appended last (set by the append stub only) */
nni_aio  *g_the_aio;                   /* the user aio under test */
int       g_deep;                      /* the aio under test is a third-or-later member: 0 no, 1 of recvq, 2 of sendq */

/* endpoint lists of pipes (negopipes, waitpipes): count + "this pipe is on it" */
typedef struct {
	size_t n;
	bool   has_p;   /* the pipe under test is a member */
	bool   p_first; /* ... and is the first one */
} vp_pipeq;
vp_pipeq  g_negoq, g_waitq;
nni_list *g_negoq_addr, *g_waitq_addr;
void     *g_the_pipe;      /* the transport pipe under test */
nni_list_node *g_the_node; /* its list node */
void     *g_other_pipe;    /* the pipe in front of ours on waitpipes, once looked at */
#define VP_PIPE_MAXSZ 4096

/* stream layer */
size_t      g_send_calls, g_recv_calls, g_sclose_calls, g_sstop_calls, g_sfree_calls;
nng_stream *g_io_conn;   /* connection of the last send/recv/close/stop */
nni_aio    *g_io_aio;    /* aio of the last send/recv */
nng_stream *g_sfree_last;
size_t      g_accept_calls, g_sleep_calls;
nng_stream_listener *g_accept_l;
nni_aio    *g_accept_aio, *g_sleep_aio;
nng_duration g_sleep_ms;

/* completions of user aios */
size_t   g_fin_calls;
nni_aio *g_fin_last;
int      g_fin_last_rv;
size_t   g_fin_last_count;
bool     g_fin_last_sync;
size_t   g_fin_mark; /* free ghost: sequence number of one completion */
int      g_fin_mark_rv;

/* aio run-time: start / abort / close / stop / fini (recorded) */
bool              g_start_ok; /* answer of the next nni_aio_start (harness: arbitrary) */
size_t            g_start_calls;
nni_aio          *g_start_aio;
nni_aio_cancel_fn g_start_fn;
void             *g_start_arg;
size_t            g_abort_calls;
nni_aio          *g_abort_aio;
int               g_abort_rv;
/* per embedded aio of the pipe under test (identified by address: g_aio_rx/tx/nego): how often closed/stopped/finalised */
nni_aio *g_aio_rx, *g_aio_tx, *g_aio_nego;
typedef struct {
	size_t rx, tx, nego, other;
} vp_aio3;
vp_aio3 g_aclose, g_astop, g_afini;
/* order of tear-down events: every recorded stop/free event takes the next sequence number */
size_t g_seq, g_last_astop_seq, g_sstop_seq, g_sfree_seq, g_first_afini_seq, g_node_rm_seq;

/* messages */
size_t   g_msg_alloc_calls; /* attempts */
size_t   g_msg_alloc_sz;    /* size of the last attempt */
nni_msg *g_msg_freed_last;

/* pipe layer */
size_t g_bump_rx_calls, g_bump_tx_calls, g_bump_err_calls, g_bump_last;
size_t g_pipe_close_calls, g_pipe_rele_calls;
size_t g_palloc_calls; /* nni_pipe_alloc_listener/dialer */
int    g_palloc_rv;    /* its answer (harness: arbitrary) */
void  *g_palloc_owner; /* the nni_listener / nni_dialer it was asked for */
#endif
