#define VP_HAVOC_GHOSTS()                                 \
	do {                                              \
		g_k = nondet_size_t(); g_j = nondet_size_t(); \
		g_p = nondet_ptr();                           \
		g_msg_freed = nondet_size_t(); g_msg_freed_at_j = nondet_ptr(); \
		g_free_calls = nondet_size_t(); g_alloc_ok = nondet_size_t(); \
		__CPROVER_assume(g_msg_freed < ((size_t) 1 << 40) && g_free_calls < ((size_t) 1 << 40) && g_alloc_ok < ((size_t) 1 << 40)); \
		g_putq.n = nondet_size_t(); g_putq.head = nondet_ptr(); g_putq.tail = nondet_ptr(); \
		g_getq.n = nondet_size_t(); g_getq.head = nondet_ptr(); g_getq.tail = nondet_ptr(); \
		g_start_calls = nondet_size_t(); g_reset_calls = nondet_size_t(); g_fin_msg_at_j = nondet_ptr(); g_aio_where = nondet_int(); g_last_app = nondet_ptr(); g_n = nondet_size_t(); \
		__CPROVER_assume(g_start_calls < ((size_t) 1 << 40)); \
		g_putq_addr = nondet_ptr(); g_getq_addr = nondet_ptr(); \
		g_sendable_addr = nondet_ptr(); g_recvable_addr = nondet_ptr(); \
		g_sendable = nondet_bool(); g_recvable = nondet_bool(); \
		g_head_msg = nondet_ptr(); \
		g_fin_calls = nondet_size_t(); g_fin_msg_calls = nondet_size_t(); \
		__CPROVER_assume(g_fin_calls < ((size_t) 1 << 40) && g_fin_msg_calls < ((size_t) 1 << 40)); \
		g_fin_last = nondet_ptr(); g_fin_last_rv = nondet_int(); g_fin_msg_last = nondet_ptr(); \
		g_aio_active = nondet_bool(); g_aio_start_ok = nondet_bool(); \
		VP_HAVOC_SYNC();                                  \
	} while (0)

void h_msgq_init(void)   { nni_msgq **mqp; unsigned cap; VP_HAVOC_GHOSTS(); nni_msgq_init(mqp, cap); VP_CANARY(); }
void h_msgq_fini(void)   { nni_msgq *mq; VP_HAVOC_GHOSTS(); nni_msgq_fini(mq); VP_CANARY(); }
void h_msgq_tryput(void) { nni_msgq *mq; nni_msg *m; VP_HAVOC_GHOSTS(); nni_msgq_tryput(mq, m); VP_CANARY(); }
void h_msgq_close(void)  { nni_msgq *mq; VP_HAVOC_GHOSTS(); nni_msgq_close(mq); VP_CANARY(); }
void h_msgq_cap(void)    { nni_msgq *mq; VP_HAVOC_GHOSTS(); nni_msgq_cap(mq); VP_CANARY(); }
void h_msgq_resize(void) { nni_msgq *mq; int cap; VP_HAVOC_GHOSTS(); nni_msgq_resize(mq, cap); VP_CANARY(); }
void h_msgq_run_notify(void) { nni_msgq *mq; VP_HAVOC_GHOSTS(); nni_msgq_run_notify(mq); VP_CANARY(); }
void h_msgq_get_recvable(void) { nni_msgq *mq; nni_pollable **sp; VP_HAVOC_GHOSTS(); nni_msgq_get_recvable(mq, sp); VP_CANARY(); }
void h_msgq_get_sendable(void) { nni_msgq *mq; nni_pollable **sp; VP_HAVOC_GHOSTS(); nni_msgq_get_sendable(mq, sp); VP_CANARY(); }
void h_msgq_run_putq(void) { nni_msgq *mq; VP_HAVOC_GHOSTS(); nni_msgq_run_putq(mq); VP_CANARY(); }
void h_msgq_run_getq(void) { nni_msgq *mq; VP_HAVOC_GHOSTS(); nni_msgq_run_getq(mq); VP_CANARY(); }
void h_msgq_aio_put(void) { nni_msgq *mq; nni_aio *a; VP_HAVOC_GHOSTS(); nni_msgq_aio_put(mq, a); VP_CANARY(); }
void h_msgq_aio_get(void) { nni_msgq *mq; nni_aio *a; VP_HAVOC_GHOSTS(); nni_msgq_aio_get(mq, a); VP_CANARY(); }
void h_msgq_cancel(void) { nni_msgq *mq; nni_aio *a; nng_err rv; VP_HAVOC_GHOSTS(); nni_msgq_cancel(a, mq, rv); VP_CANARY(); }
