/* Native replay driver for msgqueue.c ring functions: rebuilds the queue of a
 * CBMC counterexample (cap, alloc, len, ring offset), runs the REAL function
 * from /repo/src/core/msgqueue.c under ASan/UBSan and checks the FIFO /
 * resize semantics of C18 in plain C.  aio lists are empty (ring only). */
#include "vp_native.h"
#include "core/nng_impl.h"
#include "core/msgqueue.c" /* the real file */

static size_t n_freed;
static void  *freed[1 << 16];
void  nni_msg_free(nni_msg *m) { if (n_freed < (1 << 16)) freed[n_freed] = m; n_freed++; }
size_t nni_msg_len(const nni_msg *m) { (void) m; return 0; }
void *nni_alloc(size_t sz) { return (sz > 0 ? malloc(sz) : NULL); }
void *nni_zalloc(size_t sz) { return (sz > 0 ? calloc(1, sz) : NULL); }
void  nni_free(void *p, size_t sz) { (void) sz; free(p); }
void  nni_mtx_init(nni_mtx *m) { (void) m; }
void  nni_mtx_fini(nni_mtx *m) { (void) m; }
void  nni_mtx_lock(nni_mtx *m) { (void) m; }
void  nni_mtx_unlock(nni_mtx *m) { (void) m; }
void  nni_pollable_init(nni_pollable *p) { (void) p; }
void  nni_pollable_fini(nni_pollable *p) { (void) p; }
void  nni_pollable_raise(nni_pollable *p) { (void) p; }
void  nni_pollable_clear(nni_pollable *p) { (void) p; }
void *nni_list_first(const nni_list *l) { (void) l; return NULL; }
int   nni_list_empty(nni_list *l) { (void) l; return 1; }
void  nni_list_remove(nni_list *l, void *i) { (void) l; (void) i; }
void  nni_aio_list_init(nni_list *l) { (void) l; }
void  nni_aio_list_append(nni_list *l, nni_aio *a) { (void) l; (void) a; }
void  nni_aio_list_remove(nni_aio *a) { (void) a; }
int   nni_aio_list_active(nni_aio *a) { (void) a; return 0; }
nni_msg *nni_aio_get_msg(nni_aio *a) { (void) a; return NULL; }
void  nni_aio_set_msg(nni_aio *a, nni_msg *m) { (void) a; (void) m; }
void  nni_aio_finish(nni_aio *a, nng_err r, size_t c) { (void) a; (void) r; (void) c; }
void  nni_aio_finish_error(nni_aio *a, nng_err r) { (void) a; (void) r; }
void  nni_aio_finish_msg(nni_aio *a, nni_msg *m) { (void) a; (void) m; }
bool  nni_aio_start(nni_aio *a, nni_aio_cancel_fn f, void *arg) { (void) a; (void) f; (void) arg; return true; }

#define MSG(i) ((nni_msg *) (uintptr_t) (0x1000 + 16 * (i)))
#define IDX(get, k, alloc) (((get) + (k)) % (alloc))

int
main(int argc, char **argv)
{
	if (argc < 3) {
		fprintf(stderr, "usage: replay <inputs> <function>\n");
		return 2;
	}
	vp_load(argv[1]);
	const char *fn = argv[2];
	unsigned cap = (unsigned) vp_u64("vp_in_cap", 0), alloc = (unsigned) vp_u64("vp_in_alloc", 2),
	         len = (unsigned) vp_u64("vp_in_len", 0), get = (unsigned) vp_u64("vp_in_get", 0);
	if (alloc > (1u << 20) + 2 || !(alloc >= cap + 2 && get < alloc && len <= cap + 1)) {
		printf("REPLAY-RESULT: skipped (counterexample pre-state is not a well-formed ring or too large)\n");
		return 3;
	}
	struct nni_msgq *mq = calloc(1, sizeof(*mq));
	mq->mq_cap = cap; mq->mq_alloc = alloc; mq->mq_len = len; mq->mq_get = get; mq->mq_put = IDX(get, len, alloc);
	mq->mq_closed = vp_u64("vp_in_closed", 0) != 0;
	mq->mq_msgs = calloc(alloc, sizeof(nni_msg *));
	for (unsigned i = 0; i < len; i++)
		mq->mq_msgs[IDX(get, i, alloc)] = MSG(i);
	if (strcmp(fn, "nni_msgq_resize") == 0) {
		int ncap = (int) vp_u64("vp_arg_cap", 0);
		int rv   = nni_msgq_resize(mq, ncap);
		printf("nni_msgq_resize(cap=%d) on {cap=%u alloc=%u len=%u get=%u} -> %d; now cap=%u alloc=%u len=%u get=%u put=%u\n",
		    ncap, cap, alloc, len, get, rv, mq->mq_cap, mq->mq_alloc, mq->mq_len, mq->mq_get, mq->mq_put);
		unsigned keep = len > (unsigned) ncap + 1 ? (unsigned) ncap + 1 : len;
		VP_EXPECT(rv == 0);
		VP_EXPECT(mq->mq_get < mq->mq_alloc && mq->mq_put < mq->mq_alloc);
		VP_EXPECT(mq->mq_len == keep && mq->mq_cap == (unsigned) ncap);
		VP_EXPECT(n_freed == len - keep);
		for (unsigned i = 0; i < n_freed && i < len; i++)
			VP_EXPECT(freed[i] == MSG(i));
		for (unsigned i = 0; i < mq->mq_len && mq->mq_get < mq->mq_alloc; i++)
			VP_EXPECT(mq->mq_msgs[IDX(mq->mq_get, i, mq->mq_alloc)] == MSG(len - keep + i));
	} else if (strcmp(fn, "nni_msgq_tryput") == 0) {
		int rv = nni_msgq_tryput(mq, MSG(999));
		VP_EXPECT(mq->mq_closed ? rv == NNG_ECLOSED : ((rv == NNG_EAGAIN) == (len >= cap)));
		if (rv == 0) {
			VP_EXPECT(mq->mq_len == len + 1 && mq->mq_msgs[IDX(mq->mq_get, len, mq->mq_alloc)] == MSG(999));
		} else {
			VP_EXPECT(mq->mq_len == len);
		}
		for (unsigned i = 0; i < len; i++)
			VP_EXPECT(mq->mq_msgs[IDX(mq->mq_get, i, mq->mq_alloc)] == MSG(i));
	} else {
		printf("REPLAY-RESULT: skipped (no native driver for %s)\n", fn);
		return 3;
	}
	free(mq->mq_msgs);
	free(mq);
	VP_DONE();
}
