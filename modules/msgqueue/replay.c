/* Native replay driver for msgqueue.c ring functions: rebuilds the queue of a
 * CBMC counterexample (cap, alloc, len, ring offset), runs the REAL function
 * from /repo/src/core/msgqueue.c under ASan/UBSan and checks the FIFO /
 * resize semantics of C18 in plain C.  aio lists are empty (ring only). */
#include "vp_native.h"
#include "core/nng_impl.h"
#include "core/msgqueue.c" /* the real file */

static size_t n_freed;
static void  *freed[1 << 16];
void  nni_msg_free(nni_msg *m) { if (n_freed < (1 << 16)) freed[n_freed] = m; n_freed++; }
size_t nni_msg_len(const nni_msg *m) { (void) m; return 0; }
/* allocator with failure injection (k-th request refused) and sized-free bookkeeping */
static int    vp_alloc_calls, vp_alloc_fail_at, vp_nlive;
static struct { void *p; size_t sz; } vp_blk[64];
static void *
vp_alloc(size_t sz, int zero)
{
	void *p;
	if (sz == 0)
		return (NULL);
	vp_alloc_calls++;
	if (vp_alloc_fail_at != 0 && vp_alloc_calls == vp_alloc_fail_at)
		return (NULL);
	p = zero ? calloc(1, sz) : malloc(sz);
	for (int i = 0; i < 64 && p != NULL; i++)
		if (vp_blk[i].p == NULL) {
			vp_blk[i].p  = p;
			vp_blk[i].sz = sz;
			vp_nlive++;
			break;
		}
	return (p);
}
void *nni_alloc(size_t sz) { return (vp_alloc(sz, 0)); }
void *nni_zalloc(size_t sz) { return (vp_alloc(sz, 1)); }
void
nni_free(void *p, size_t sz)
{
	for (int i = 0; i < 64 && p != NULL; i++)
		if (vp_blk[i].p == p) {
			if (vp_blk[i].sz != sz) {
				printf("nni_free(%p, %zu): block was allocated with %zu bytes\n", p, sz, vp_blk[i].sz);
				VP_EXPECT(!"nni_free size == allocation size");
			}
			vp_blk[i].p = NULL;
			vp_nlive--;
			break;
		}
	free(p);
}
void  nni_mtx_init(nni_mtx *m) { (void) m; }
void  nni_mtx_fini(nni_mtx *m) { (void) m; }
void  nni_mtx_lock(nni_mtx *m) { (void) m; }
void  nni_mtx_unlock(nni_mtx *m) { (void) m; }
void  nni_pollable_init(nni_pollable *p) { (void) p; }
void  nni_pollable_fini(nni_pollable *p) { (void) p; }
void  nni_pollable_raise(nni_pollable *p) { (void) p; }
void  nni_pollable_clear(nni_pollable *p) { (void) p; }
void *nni_list_first(const nni_list *l) { (void) l; return NULL; }
int   nni_list_empty(nni_list *l) { (void) l; return 1; }
void  nni_list_remove(nni_list *l, void *i) { (void) l; (void) i; }
void  nni_aio_list_init(nni_list *l) { (void) l; }
void  nni_aio_list_append(nni_list *l, nni_aio *a) { (void) l; (void) a; }
void  nni_aio_list_remove(nni_aio *a) { (void) a; }
int   nni_aio_list_active(nni_aio *a) { (void) a; return 0; }
nni_msg *nni_aio_get_msg(nni_aio *a) { (void) a; return NULL; }
void  nni_aio_set_msg(nni_aio *a, nni_msg *m) { (void) a; (void) m; }
void  nni_aio_finish(nni_aio *a, nng_err r, size_t c) { (void) a; (void) r; (void) c; }
void  nni_aio_finish_error(nni_aio *a, nng_err r) { (void) a; (void) r; }
void  nni_aio_finish_msg(nni_aio *a, nni_msg *m) { (void) a; (void) m; }
bool  nni_aio_start(nni_aio *a, nni_aio_cancel_fn f, void *arg) { (void) a; (void) f; (void) arg; return true; }
void  nni_aio_reset(nni_aio *a) { (void) a; }

#define MSG(i) ((nni_msg *) (uintptr_t) (0x1000 + 16 * (i)))
#define IDX(get, k, alloc) (((get) + (k)) % (alloc))

int
main(int argc, char **argv)
{
	if (argc < 3) {
		fprintf(stderr, "usage: replay <inputs> <function>\n");
		return 2;
	}
	vp_load(argv[1]);
	const char *fn = argv[2];
	if (strcmp(fn, "nni_msgq_init") == 0) {
		unsigned c = (unsigned) vp_u64("vp_arg_cap", 0);
		if (!vp_has("vp_arg_cap") || c > (1u << 20)) {
			printf("REPLAY-RESULT: skipped (%s)\n", vp_has("vp_arg_cap") ? "capacity too large to build natively" : "trace has no entry snapshot");
			return 3;
		}
		for (int k = 0; k <= 2; k++) { /* every allocation succeeds / the 1st / the 2nd is refused */
			nni_msgq *q = (nni_msgq *) (uintptr_t) 0x5a5a;
			vp_alloc_calls = 0, vp_alloc_fail_at = k;
			int rv = nni_msgq_init(&q, c);
			vp_alloc_fail_at = 0;
			printf("nni_msgq_init(cap=%u)%s -> %d\n", c, k == 0 ? "" : k == 1 ? " [1st allocation refused]" : " [2nd allocation refused]", rv);
			VP_EXPECT(rv == 0 || rv == NNG_ENOMEM);
			VP_EXPECT((rv != 0) == (k != 0));
			if (rv != 0) {
				VP_EXPECT(q == (nni_msgq *) (uintptr_t) 0x5a5a && vp_nlive == 0);
			} else {
				VP_EXPECT(vp_nlive == 2);
				VP_EXPECT(q->mq_alloc == c + 2 && q->mq_cap == c && q->mq_len == 0 && !q->mq_closed && q->mq_get == 0 && q->mq_put == 0);
				/* what a user sees next: exactly cap messages are accepted, then released by fini in order */
				unsigned n = 0;
				while (n <= c + 2 && nni_msgq_tryput(q, MSG(n)) == 0)
					n++;
				VP_EXPECT(n == c);
				n_freed = 0;
				nni_msgq_fini(q);
				VP_EXPECT(n_freed == n && vp_nlive == 0);
				for (unsigned i = 0; i < n_freed && i < n; i++)
					VP_EXPECT(freed[i] == MSG(i));
			}
		}
		VP_DONE();
	}
	if (strcmp(fn, "nni_msgq_fini") == 0 && vp_has("vp_arg_mq") && vp_u64("vp_arg_mq", 1) == 0) {
		nni_msgq_fini(NULL);
		printf("nni_msgq_fini(NULL)\n");
		VP_EXPECT(n_freed == 0);
		VP_DONE();
	}
	unsigned cap = (unsigned) vp_u64("vp_in_cap", 0), alloc = (unsigned) vp_u64("vp_in_alloc", 2),
	         len = (unsigned) vp_u64("vp_in_len", 0), get = (unsigned) vp_u64("vp_in_get", 0);
	if (alloc > (1u << 20) + 2 || !(alloc >= cap + 2 && get < alloc && len <= cap + 1)) {
		printf("REPLAY-RESULT: skipped (counterexample pre-state is not a well-formed ring or too large)\n");
		return 3;
	}
	struct nni_msgq *mq = nni_zalloc(sizeof(*mq));
	mq->mq_cap = cap; mq->mq_alloc = alloc; mq->mq_len = len; mq->mq_get = get; mq->mq_put = IDX(get, len, alloc);
	mq->mq_closed = vp_u64("vp_in_closed", 0) != 0;
	mq->mq_msgs = nni_zalloc(alloc * sizeof(nni_msg *));
	for (unsigned i = 0; i < len; i++)
		mq->mq_msgs[IDX(get, i, alloc)] = MSG(i);
	if (strcmp(fn, "nni_msgq_resize") == 0) {
		int ncap = (int) vp_u64("vp_arg_cap", 0);
		int rv   = nni_msgq_resize(mq, ncap);
		printf("nni_msgq_resize(cap=%d) on {cap=%u alloc=%u len=%u get=%u} -> %d; now cap=%u alloc=%u len=%u get=%u put=%u\n",
		    ncap, cap, alloc, len, get, rv, mq->mq_cap, mq->mq_alloc, mq->mq_len, mq->mq_get, mq->mq_put);
		unsigned keep = len > (unsigned) ncap + 1 ? (unsigned) ncap + 1 : len;
		VP_EXPECT(rv == 0);
		VP_EXPECT(mq->mq_get < mq->mq_alloc && mq->mq_put < mq->mq_alloc);
		VP_EXPECT(mq->mq_len == keep && mq->mq_cap == (unsigned) ncap);
		VP_EXPECT(n_freed == len - keep);
		for (unsigned i = 0; i < n_freed && i < len; i++)
			VP_EXPECT(freed[i] == MSG(i));
		for (unsigned i = 0; i < mq->mq_len && mq->mq_get < mq->mq_alloc; i++)
			VP_EXPECT(mq->mq_msgs[IDX(mq->mq_get, i, mq->mq_alloc)] == MSG(len - keep + i));
	} else if (strcmp(fn, "nni_msgq_tryput") == 0) {
		int rv = nni_msgq_tryput(mq, MSG(999));
		VP_EXPECT(mq->mq_closed ? rv == NNG_ECLOSED : ((rv == NNG_EAGAIN) == (len >= cap)));
		if (rv == 0) {
			VP_EXPECT(mq->mq_len == len + 1 && mq->mq_msgs[IDX(mq->mq_get, len, mq->mq_alloc)] == MSG(999));
		} else {
			VP_EXPECT(mq->mq_len == len);
		}
		for (unsigned i = 0; i < len; i++)
			VP_EXPECT(mq->mq_msgs[IDX(mq->mq_get, i, mq->mq_alloc)] == MSG(i));
	} else if (strcmp(fn, "nni_msgq_fini") == 0) {
		nni_msgq_fini(mq);
		printf("nni_msgq_fini on {cap=%u alloc=%u len=%u get=%u}: %zu messages released, %d blocks still allocated\n", cap, alloc, len, get,
		    n_freed, vp_nlive);
		/* every queued message released exactly once, oldest first; array and structure released with their sizes */
		VP_EXPECT(n_freed == len);
		for (unsigned i = 0; i < n_freed && i < len; i++)
			VP_EXPECT(freed[i] == MSG(i));
		VP_EXPECT(vp_nlive == 0);
		VP_DONE();
	} else {
		printf("REPLAY-RESULT: skipped (no native driver for %s)\n", fn);
		return 3;
	}
	nni_free(mq->mq_msgs, mq->mq_alloc * sizeof(nni_msg *));
	nni_free(mq, sizeof(*mq));
	VP_DONE();
}
