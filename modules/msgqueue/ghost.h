/* Ghost state of the msgqueue environment model; declared before the real
 * source so that woven loop invariants can name it. */
#ifndef VP_MSGQ_GHOST_H
#define VP_MSGQ_GHOST_H
#include "core/nng_impl.h"
typedef struct {
	size_t   n;
	nni_aio *head;
	nni_aio *tail; /* last appended aio, while it is still on the list */
} vp_glist;
vp_glist  g_putq, g_getq;
nni_list *g_putq_addr, *g_getq_addr;
bool      g_sendable, g_recvable;   /* pollable flags (nni_pollable_raise/clear) */
nni_pollable *g_sendable_addr, *g_recvable_addr;
nni_msg  *g_head_msg;                /* message attached to the aio at the head of putq */
size_t    g_fin_calls;               /* completions issued */
size_t    g_fin_msg_calls;           /* completions that hand a message to a reader */
nni_aio  *g_fin_last;                /* last aio completed */
int       g_fin_last_rv;
nni_msg  *g_fin_msg_last;            /* last message handed to a reader */
bool      g_aio_active;              /* nni_aio_list_active answer (cancel) */
bool      g_aio_start_ok;            /* nni_aio_start answer */

nni_aio  *g_last_app;                /* the aio appended most recently (its membership is known exactly) */
size_t    g_start_calls;             /* calls of nni_aio_start */
size_t    g_reset_calls;             /* calls of nni_aio_reset */
nni_msg  *g_fin_msg_at_j;            /* message handed over by the g_j-th nni_aio_finish_msg */
int       g_aio_where;               /* cancel: 1 = aio is a non-head member of getq, 2 = of putq */
#endif
