/* Contracts for src/core/msgqueue.c.
 * Ring part (C18): bounded FIFO view, resize keeps the newest messages in
 * order and discards whole messages from the old end only.
 * Notify part (C15): every entry point that changes readiness re-establishes
 * MQ_NOTIFY_OK before it releases the lock. */
#ifndef VP_MSGQ_CONTRACTS_H
#define VP_MSGQ_CONTRACTS_H
/* clang-format off */
#define RV __CPROVER_return_value
#define OLD(e) __CPROVER_old(e)
#define MQ_ENV_GHOSTS MQ_LIST_GHOSTS, g_last_app, g_sendable, g_recvable, g_start_calls, g_reset_calls, VP_SYNC_GHOSTS
#define MQ_GEOM_SAME(mq) ((mq)->mq_cap == OLD((mq)->mq_cap) && (mq)->mq_alloc == OLD((mq)->mq_alloc) && (mq)->mq_msgs == OLD((mq)->mq_msgs))
#define MQ_RING_SAME(mq) (MQ_GEOM_SAME(mq) && (mq)->mq_len == OLD((mq)->mq_len) && (mq)->mq_get == OLD((mq)->mq_get) && (mq)->mq_put == OLD((mq)->mq_put))

int nni_msgq_init(nni_msgq **mqp, unsigned cap)
__CPROVER_requires(__CPROVER_is_fresh(mqp, sizeof(*mqp)) && cap <= MQ_MAXCAP)
__CPROVER_assigns(*mqp, g_alloc_ok, g_free_calls)
__CPROVER_ensures(RV == 0 || RV == NNG_ENOMEM)
__CPROVER_ensures(RV != 0 ==> (*mqp == OLD(*mqp) && g_alloc_ok - OLD(g_alloc_ok) == g_free_calls - OLD(g_free_calls)))
__CPROVER_ensures(RV == 0 ==> (VP_HEAP_DELTA(2, 0) && __CPROVER_is_fresh(*mqp, sizeof(struct nni_msgq))))
__CPROVER_ensures(RV == 0 ==> ((*mqp)->mq_alloc == cap + 2 && __CPROVER_is_fresh((*mqp)->mq_msgs, (size_t) (*mqp)->mq_alloc * sizeof(nni_msg *))))
__CPROVER_ensures(RV == 0 ==> ((*mqp)->mq_cap == cap && (*mqp)->mq_len == 0 && !(*mqp)->mq_closed && MQ_WF_SCALAR(*mqp)))
;

void nni_msgq_fini(nni_msgq *mq)
__CPROVER_requires(mq == NULL || (MQ_PRE(mq) && MQ_GHOST_PRE(mq)))
__CPROVER_requires(VP_NO_LOCK_HELD)
__CPROVER_assigns(mq != NULL: mq->mq_get, mq->mq_len; g_msg_freed, g_msg_freed_at_j, g_free_calls)
__CPROVER_frees(mq != NULL: mq, mq->mq_msgs)
/* every queued message released exactly once, oldest first; array and struct released with their sizes */
__CPROVER_ensures(mq != NULL ==> g_msg_freed == OLD(g_msg_freed) + OLD(mq->mq_len))
__CPROVER_ensures((mq != NULL && g_k < OLD(mq->mq_len) && g_j == OLD(g_msg_freed) + g_k) ==> g_msg_freed_at_j == g_p)
__CPROVER_ensures(mq != NULL ==> (g_free_calls == OLD(g_free_calls) + 2 && __CPROVER_was_freed(mq) && __CPROVER_was_freed(OLD(mq->mq_msgs))))
__CPROVER_ensures(mq == NULL ==> (g_free_calls == OLD(g_free_calls) && g_msg_freed == OLD(g_msg_freed)))
;

int nni_msgq_tryput(nni_msgq *mq, nni_msg *msg)
__CPROVER_requires(MQ_PRE(mq) && VP_NO_LOCK_HELD && MQ_GHOST_PRE(mq))
__CPROVER_assigns(mq->mq_put, mq->mq_len, __CPROVER_object_whole(mq->mq_msgs), MQ_ENV_GHOSTS)
__CPROVER_ensures(VP_NO_LOCK_HELD && MQ_WF_SCALAR(mq) && MQ_GEOM_SAME(mq) && mq->mq_get == OLD(mq->mq_get))
__CPROVER_ensures(RV == 0 || RV == NNG_ECLOSED || RV == NNG_EAGAIN)
__CPROVER_ensures((RV == NNG_ECLOSED) == (mq->mq_closed != 0))
/* a waiting reader gets the message directly (first reader, nothing queued) */
__CPROVER_ensures((!mq->mq_closed && OLD(g_getq.n) > 0) ==> (RV == 0 && mq->mq_len == OLD(mq->mq_len) && g_getq.n == OLD(g_getq.n) - 1 && g_fin_msg_calls == OLD(g_fin_msg_calls) + 1 && g_fin_msg_last == msg && g_fin_last == OLD(g_getq.head)))
/* bounded: refused exactly when the buffer holds cap messages (or more) */
__CPROVER_ensures((!mq->mq_closed && OLD(g_getq.n) == 0) ==> ((RV == NNG_EAGAIN) == (OLD(mq->mq_len) >= mq->mq_cap)))
__CPROVER_ensures((RV == 0 && OLD(g_getq.n) == 0) ==> (mq->mq_len == OLD(mq->mq_len) + 1 && MQ_VIEW(mq, mq->mq_len - 1) == msg && g_fin_calls == OLD(g_fin_calls)))
__CPROVER_ensures(RV != 0 ==> (mq->mq_len == OLD(mq->mq_len) && mq->mq_put == OLD(mq->mq_put) && g_fin_calls == OLD(g_fin_calls)))
/* FIFO: queued messages keep their position */
__CPROVER_ensures(g_k < OLD(mq->mq_len) ==> (void *) MQ_VIEW(mq, g_k) == g_p)
/* readiness flags are current whenever something changed */
__CPROVER_ensures(RV == 0 ==> MQ_NOTIFY_OK(mq))
;

void nni_msgq_close(nni_msgq *mq)
__CPROVER_requires(MQ_PRE(mq) && VP_NO_LOCK_HELD && MQ_GHOST_PRE(mq))
__CPROVER_assigns(mq->mq_closed, mq->mq_get, mq->mq_len, g_msg_freed, g_msg_freed_at_j, MQ_ENV_GHOSTS)
__CPROVER_ensures(VP_NO_LOCK_HELD && mq->mq_closed && mq->mq_len == 0 && MQ_WF_SCALAR(mq) && MQ_GEOM_SAME(mq))
__CPROVER_ensures(g_msg_freed == OLD(g_msg_freed) + OLD(mq->mq_len))
__CPROVER_ensures((g_k < OLD(mq->mq_len) && g_j == OLD(g_msg_freed) + g_k) ==> g_msg_freed_at_j == g_p)
/* every waiter is completed (with NNG_ECLOSED), exactly once each */
__CPROVER_ensures(g_putq.n == 0 && g_getq.n == 0 && g_fin_calls == OLD(g_fin_calls) + OLD(g_putq.n) + OLD(g_getq.n))
__CPROVER_ensures((OLD(g_putq.n) + OLD(g_getq.n) > 0) ==> g_fin_last_rv == NNG_ECLOSED)
__CPROVER_ensures(g_fin_msg_calls == OLD(g_fin_msg_calls))
;

int nni_msgq_cap(nni_msgq *mq)
__CPROVER_requires(MQ_PRE(mq) && VP_NO_LOCK_HELD)
__CPROVER_assigns(VP_SYNC_GHOSTS)
__CPROVER_ensures(RV == (int) mq->mq_cap && VP_NO_LOCK_HELD)
;

/* resize: keeps the newest min(len, cap+1) messages in their order, releases
 * the older ones exactly once each (oldest first); ENOMEM changes nothing */
int nni_msgq_resize(nni_msgq *mq, int cap)
__CPROVER_requires(MQ_PRE(mq) && VP_NO_LOCK_HELD && MQ_GHOST_PRE(mq))
__CPROVER_requires(cap >= 0 && (unsigned) cap <= MQ_MAXCAP)
/* (stated for a queue without blocked writers: with writers waiting the new room is handed to them by nni_msgq_run_putq, see its contract) */
__CPROVER_requires(g_putq.n == 0)
__CPROVER_assigns(mq->mq_cap, mq->mq_alloc, mq->mq_len, mq->mq_get, mq->mq_put, mq->mq_msgs, g_msg_freed, g_msg_freed_at_j, g_alloc_ok, g_free_calls, MQ_ENV_GHOSTS)
__CPROVER_frees(mq->mq_msgs)
/* C15: the pollables reflect the new capacity when the lock is released */
__CPROVER_ensures(RV == 0 ==> MQ_NOTIFY_OK(mq))
__CPROVER_ensures(RV == 0 || RV == NNG_ENOMEM)
__CPROVER_ensures(VP_NO_LOCK_HELD)
__CPROVER_ensures(RV != 0 ==> (!__CPROVER_was_freed(OLD(mq->mq_msgs)) && mq->mq_cap == OLD(mq->mq_cap) && mq->mq_alloc == OLD(mq->mq_alloc) && mq->mq_len == OLD(mq->mq_len) && mq->mq_get == OLD(mq->mq_get) && mq->mq_put == OLD(mq->mq_put) && VP_SAME_PTR(mq->mq_msgs) && g_msg_freed == OLD(g_msg_freed) && VP_HEAP_DELTA(0, 0)))
__CPROVER_ensures(RV == 0 ==> (mq->mq_cap == (unsigned) cap && mq->mq_alloc >= (unsigned) cap + 2))
__CPROVER_ensures(RV == 0 ==> (((unsigned) cap + 2 > OLD(mq->mq_alloc)) ? (__CPROVER_was_freed(OLD(mq->mq_msgs)) && mq->mq_alloc == (unsigned) cap + 2 && __CPROVER_is_fresh(mq->mq_msgs, (size_t) mq->mq_alloc * sizeof(nni_msg *)) && VP_HEAP_DELTA(1, 1)) : (!__CPROVER_was_freed(OLD(mq->mq_msgs)) && mq->mq_alloc == OLD(mq->mq_alloc) && VP_SAME_PTR(mq->mq_msgs) && VP_HEAP_DELTA(0, 0))))
__CPROVER_ensures(RV == 0 ==> MQ_WF_SCALAR(mq))
__CPROVER_ensures(RV == 0 ==> mq->mq_len == (OLD(mq->mq_len) > (unsigned) cap + 1 ? (unsigned) cap + 1 : OLD(mq->mq_len)))
/* only as many as no longer fit are discarded, from the old end, once each */
__CPROVER_ensures(RV == 0 ==> g_msg_freed == OLD(g_msg_freed) + (OLD(mq->mq_len) - mq->mq_len))
__CPROVER_ensures((RV == 0 && g_k < OLD(mq->mq_len) - mq->mq_len && g_j == OLD(g_msg_freed) + g_k) ==> g_msg_freed_at_j == g_p)
/* survivors keep their relative order */
/* (g_n is an instantiation hint: the claim is for every surviving g_k, with g_n its new position) */
__CPROVER_ensures((RV == 0 && g_k < OLD(mq->mq_len) && g_k >= OLD(mq->mq_len) - mq->mq_len && g_n == g_k - (OLD(mq->mq_len) - mq->mq_len)) ==> (void *) MQ_VIEW(mq, g_n) == g_p)
;

static void nni_msgq_run_notify(nni_msgq *mq)
__CPROVER_requires(MQ_PRE(mq))
__CPROVER_assigns(g_sendable, g_recvable)
__CPROVER_ensures(MQ_NOTIFY_OK(mq))
;

int nni_msgq_get_recvable(nni_msgq *mq, nni_pollable **sp)
__CPROVER_requires(MQ_PRE(mq) && VP_NO_LOCK_HELD && __CPROVER_is_fresh(sp, sizeof(*sp)))
__CPROVER_assigns(*sp, g_sendable, g_recvable, VP_SYNC_GHOSTS)
__CPROVER_ensures(RV == 0 && *sp == &mq->mq_recvable && MQ_NOTIFY_OK(mq) && VP_NO_LOCK_HELD)
;

int nni_msgq_get_sendable(nni_msgq *mq, nni_pollable **sp)
__CPROVER_requires(MQ_PRE(mq) && VP_NO_LOCK_HELD && __CPROVER_is_fresh(sp, sizeof(*sp)))
__CPROVER_assigns(*sp, g_sendable, g_recvable, VP_SYNC_GHOSTS)
__CPROVER_ensures(RV == 0 && *sp == &mq->mq_sendable && MQ_NOTIFY_OK(mq) && VP_NO_LOCK_HELD)
;

/* run_putq: move waiting writers' messages to waiting readers or into free
 * slots, in order, until neither is possible.  Nothing is lost or duplicated:
 * every writer removed is completed once and its message went to exactly one
 * place. */
static void nni_msgq_run_putq(nni_msgq *mq)
__CPROVER_requires(MQ_PRE(mq))
__CPROVER_requires(g_putq.n > 0 ==> MQ_GHOST_PRE(mq))
/* with no writer waiting nothing at all is touched */
__CPROVER_assigns(g_putq.n > 0: mq->mq_put, mq->mq_len, __CPROVER_object_whole(mq->mq_msgs), MQ_LIST_GHOSTS)
__CPROVER_ensures(MQ_WF_SCALAR(mq) && MQ_GEOM_SAME(mq) && mq->mq_get == OLD(mq->mq_get) && MQ_LISTS_OK)
/* bounded: never filled beyond the configured depth */
__CPROVER_ensures(mq->mq_len == OLD(mq->mq_len) || mq->mq_len <= mq->mq_cap)
__CPROVER_ensures(g_putq.n <= OLD(g_putq.n) && g_getq.n <= OLD(g_getq.n) && mq->mq_len >= OLD(mq->mq_len))
/* no new identities appear on the lists */
__CPROVER_ensures((g_putq.tail == OLD(g_putq.tail) || g_putq.tail == NULL) && (g_getq.tail == OLD(g_getq.tail) || g_getq.tail == NULL))
/* conservation */
__CPROVER_ensures(OLD(g_putq.n) - g_putq.n == (g_fin_msg_calls - OLD(g_fin_msg_calls)) + (mq->mq_len - OLD(mq->mq_len)))
__CPROVER_ensures(OLD(g_getq.n) - g_getq.n == g_fin_msg_calls - OLD(g_fin_msg_calls))
__CPROVER_ensures(g_fin_calls - OLD(g_fin_calls) == (OLD(g_putq.n) - g_putq.n) + (OLD(g_getq.n) - g_getq.n))
/* every completion issued here is a success */
__CPROVER_ensures(g_fin_calls > OLD(g_fin_calls) ==> g_fin_last_rv == 0)
/* maximal progress: stops only when no writer is left or nothing can take a message */
__CPROVER_ensures(g_putq.n == 0 || (g_getq.n == 0 && mq->mq_len >= mq->mq_cap))
/* the newest appended aio is completed last (FIFO among writers) */
__CPROVER_ensures((g_putq.n > 0 && OLD(g_putq.tail) != NULL) ==> g_putq.tail == OLD(g_putq.tail))
/* queued messages keep their position */
__CPROVER_ensures((OLD(g_putq.n) > 0 && g_k < OLD(mq->mq_len)) ==> (void *) MQ_VIEW(mq, g_k) == g_p)
;

/* run_getq: serve waiting readers from the ring (oldest first), then from
 * waiting writers, until neither is possible. */
static void nni_msgq_run_getq(nni_msgq *mq)
__CPROVER_requires(MQ_PRE(mq) && MQ_GHOST_PRE(mq))
__CPROVER_assigns(mq->mq_get, mq->mq_len, MQ_LIST_GHOSTS)
__CPROVER_ensures(MQ_WF_SCALAR(mq) && MQ_GEOM_SAME(mq) && mq->mq_put == OLD(mq->mq_put) && MQ_LISTS_OK)
__CPROVER_ensures(g_putq.n <= OLD(g_putq.n) && g_getq.n <= OLD(g_getq.n) && mq->mq_len <= OLD(mq->mq_len))
__CPROVER_ensures((g_putq.tail == OLD(g_putq.tail) || g_putq.tail == NULL) && (g_getq.tail == OLD(g_getq.tail) || g_getq.tail == NULL))
__CPROVER_ensures(OLD(g_getq.n) - g_getq.n == g_fin_msg_calls - OLD(g_fin_msg_calls))
__CPROVER_ensures(OLD(g_getq.n) - g_getq.n == (OLD(mq->mq_len) - mq->mq_len) + (OLD(g_putq.n) - g_putq.n))
__CPROVER_ensures(g_fin_calls - OLD(g_fin_calls) == (OLD(g_putq.n) - g_putq.n) + (OLD(g_getq.n) - g_getq.n))
__CPROVER_ensures(g_fin_calls > OLD(g_fin_calls) ==> g_fin_last_rv == 0)
__CPROVER_ensures(g_getq.n == 0 || (mq->mq_len == 0 && g_putq.n == 0))
/* writers are only drained when the ring is empty */
__CPROVER_ensures(g_putq.n < OLD(g_putq.n) ==> mq->mq_len == 0)
__CPROVER_ensures((g_getq.n > 0 && OLD(g_getq.tail) != NULL) ==> g_getq.tail == OLD(g_getq.tail))
/* FIFO: the t-th message handed out is the t-th oldest queued one */
__CPROVER_ensures((g_k < OLD(mq->mq_len) - mq->mq_len && g_j == OLD(g_fin_msg_calls) + g_k) ==> (void *) g_fin_msg_at_j == g_p)
__CPROVER_ensures((g_k < OLD(mq->mq_len) && g_k >= OLD(mq->mq_len) - mq->mq_len && g_n == g_k - (OLD(mq->mq_len) - mq->mq_len)) ==> (void *) MQ_VIEW(mq, g_n) == g_p)
;

/* aio_put / aio_get (C15 first sentence, C02 hand-off): the operation is
 * completed in the call, without consulting the timeout, whenever it can
 * proceed; nni_aio_start is reached only when it must wait; if start refuses
 * (zero timeout, stopped, aborted) the aio is not left on the list. */
void nni_msgq_aio_put(nni_msgq *mq, nni_aio *aio)
__CPROVER_requires(MQ_PRE(mq) && VP_NO_LOCK_HELD && MQ_GHOST_PRE(mq) && mq->mq_len <= mq->mq_cap)
__CPROVER_requires(g_putq.n < 8 && !(g_putq.n > 0 && (aio == g_putq.head || aio == g_putq.tail)) && !(g_getq.n > 0 && (aio == g_getq.head || aio == g_getq.tail)) && aio != NULL)
/* queue is in its stable state: writers wait only when nothing can take a message */
__CPROVER_requires(g_putq.n == 0 || (g_getq.n == 0 && mq->mq_len >= mq->mq_cap))
__CPROVER_assigns(mq->mq_put, mq->mq_len, __CPROVER_object_whole(mq->mq_msgs), MQ_ENV_GHOSTS)
__CPROVER_ensures(VP_NO_LOCK_HELD && MQ_WF_SCALAR(mq) && MQ_GEOM_SAME(mq) && MQ_LISTS_OK && MQ_NOTIFY_OK(mq))
/* can proceed now  =>  done now, timeout not consulted */
__CPROVER_ensures((OLD(g_putq.n) == 0 && (OLD(g_getq.n) > 0 || OLD(mq->mq_len) < mq->mq_cap)) ==> (g_start_calls == OLD(g_start_calls) && g_putq.n == 0 && g_fin_calls > OLD(g_fin_calls) && g_fin_last_rv == 0))
/* must wait  =>  started exactly once; refused => not on the list, nothing queued */
__CPROVER_ensures(!(OLD(g_putq.n) == 0 && (OLD(g_getq.n) > 0 || OLD(mq->mq_len) < mq->mq_cap)) ==> (g_start_calls == OLD(g_start_calls) + 1 && g_fin_calls == OLD(g_fin_calls) && mq->mq_len == OLD(mq->mq_len) && g_putq.n == OLD(g_putq.n) + (g_aio_start_ok ? 1 : 0)))
__CPROVER_ensures(g_k < OLD(mq->mq_len) ==> (void *) MQ_VIEW(mq, g_k) == g_p)
;

void nni_msgq_aio_get(nni_msgq *mq, nni_aio *aio)
__CPROVER_requires(MQ_PRE(mq) && VP_NO_LOCK_HELD && MQ_GHOST_PRE(mq))
__CPROVER_requires(g_getq.n < 8 && !(g_putq.n > 0 && (aio == g_putq.head || aio == g_putq.tail)) && !(g_getq.n > 0 && (aio == g_getq.head || aio == g_getq.tail)) && aio != NULL)
/* stable state: readers wait only when there is nothing to read */
__CPROVER_requires(g_getq.n == 0 || (mq->mq_len == 0 && g_putq.n == 0))
__CPROVER_assigns(mq->mq_get, mq->mq_len, MQ_ENV_GHOSTS)
__CPROVER_ensures(VP_NO_LOCK_HELD && MQ_WF_SCALAR(mq) && MQ_GEOM_SAME(mq) && MQ_LISTS_OK && MQ_NOTIFY_OK(mq))
__CPROVER_ensures((OLD(g_getq.n) == 0 && (OLD(mq->mq_len) > 0 || OLD(g_putq.n) > 0)) ==> (g_start_calls == OLD(g_start_calls) && g_getq.n == 0 && g_fin_msg_calls == OLD(g_fin_msg_calls) + 1))
/* FIFO: what it gets is the oldest queued message */
__CPROVER_ensures((OLD(g_getq.n) == 0 && OLD(mq->mq_len) > 0 && g_k == 0 && g_j == OLD(g_fin_msg_calls)) ==> (void *) g_fin_msg_at_j == g_p)
__CPROVER_ensures(!(OLD(g_getq.n) == 0 && (OLD(mq->mq_len) > 0 || OLD(g_putq.n) > 0)) ==> (g_start_calls == OLD(g_start_calls) + 1 && g_fin_calls == OLD(g_fin_calls) && mq->mq_len == OLD(mq->mq_len) && g_getq.n == OLD(g_getq.n) + (g_aio_start_ok ? 1 : 0)))
;

/* cancel: completes the aio only if it is still on a list (single winner) */
static void nni_msgq_cancel(nni_aio *aio, void *arg, nng_err rv)
__CPROVER_requires(MQ_PRE((nni_msgq *) arg) && VP_NO_LOCK_HELD && aio != NULL)
__CPROVER_requires((g_aio_active && !(g_getq.n > 0 && (aio == g_getq.head || aio == g_getq.tail)) && !(g_putq.n > 0 && (aio == g_putq.head || aio == g_putq.tail))) ==> ((g_aio_where == 1 && g_getq.n >= 3) || (g_aio_where == 2 && g_putq.n >= 3)))
__CPROVER_assigns(MQ_ENV_GHOSTS)
__CPROVER_ensures(VP_NO_LOCK_HELD && MQ_NOTIFY_OK((nni_msgq *) arg))
__CPROVER_ensures(g_fin_calls - OLD(g_fin_calls) == (OLD(g_putq.n) - g_putq.n) + (OLD(g_getq.n) - g_getq.n))
__CPROVER_ensures(g_fin_calls <= OLD(g_fin_calls) + 1 && g_fin_msg_calls == OLD(g_fin_msg_calls))
__CPROVER_ensures(g_fin_calls > OLD(g_fin_calls) ==> (g_fin_last == aio && g_fin_last_rv == (int) rv))
;
/* clang-format on */
#endif
