/* Spec macros for src/core/msgqueue.c (ring part: C18; notify part: C15). */
#ifndef VP_MSGQ_SPEC_H
#define VP_MSGQ_SPEC_H

/* stated cap: NNG_OPT_SENDBUF/RECVBUF are validated to 0..8192 by the socket
 * layer; the contracts allow up to 2^20 */
#ifdef MQ_MAXCAP_OVERRIDE
#define MQ_MAXCAP ((unsigned) MQ_MAXCAP_OVERRIDE)
#else
#define MQ_MAXCAP ((unsigned) 1 << 20)
#endif

#define MQ_IDX(mq, k)                                                      \
	(((mq)->mq_get + (k)) >= (mq)->mq_alloc                                \
	        ? ((mq)->mq_get + (k)) - (mq)->mq_alloc                        \
	        : ((mq)->mq_get + (k)))
/* (start + k) mod alloc for start < alloc, k < alloc */
#define MQ_ADV(start, k, alloc)                                            \
	(((start) + (k)) >= (alloc) ? ((start) + (k)) - (alloc) : ((start) + (k)))
#define MQ_VIEW(mq, k) ((mq)->mq_msgs[MQ_IDX(mq, k)])

/* ring representation invariant (scalar part).  alloc >= cap + 2: one slot for
 * the unbuffered hand-off, one for push-back, so len <= cap + 1 < alloc. */
#define MQ_WF_SCALAR(mq)                                                   \
	((mq)->mq_cap <= MQ_MAXCAP && (mq)->mq_alloc <= MQ_MAXCAP + 2 &&       \
	    (mq)->mq_alloc >= (mq)->mq_cap + 2 &&                              \
	    (mq)->mq_get < (mq)->mq_alloc && (mq)->mq_put < (mq)->mq_alloc &&  \
	    (mq)->mq_len <= (mq)->mq_cap + 1 &&                                \
	    (mq)->mq_put == MQ_IDX(mq, (mq)->mq_len))

#define MQ_PRE(mq)                                                         \
	(__CPROVER_is_fresh((mq), sizeof(struct nni_msgq)) &&                  \
	    (mq)->mq_alloc >= 2 && (mq)->mq_alloc <= MQ_MAXCAP + 2 &&          \
	    __CPROVER_is_fresh((mq)->mq_msgs,                                  \
	        (size_t) (mq)->mq_alloc * sizeof(nni_msg *)) &&                \
	    MQ_WF_SCALAR(mq) && MQ_ENV_PRE(mq))

/* ghost equation: g_p is the pre-state message at position g_k */
#define MQ_GHOST_PRE(mq)                                                   \
	((g_k < (mq)->mq_len) ==> (g_p == (void *) MQ_VIEW(mq, g_k)))

/* environment ghosts tied to this queue: which list is which, whose lock */
#define MQ_ENV_PRE(mq)                                                     \
	(g_putq_addr == &(mq)->mq_aio_putq && g_getq_addr == &(mq)->mq_aio_getq && \
	    g_sendable_addr == &(mq)->mq_sendable &&                           \
	    g_recvable_addr == &(mq)->mq_recvable &&                           \
	    g_putq.n <= 8 && g_getq.n <= 8 &&                                  \
	    MQ_LISTS_OK)

#define MQ_LIST_GHOSTS g_putq, g_getq, g_head_msg, g_fin_calls, g_fin_msg_calls, g_fin_last, g_fin_last_rv, g_fin_msg_last, g_fin_msg_at_j

/* well-formedness of the ghost wait-list model */
#define MQ_LIST_OK(q)                                                      \
	(((q).n > 0 && (q).head == g_last_app) ? ((q).n == 1 && (q).tail == g_last_app) : 1) && \
	(((q).n == 0) ? ((q).head == NULL && (q).tail == NULL)                 \
	              : ((q).head != NULL && ((q).n != 1 || (q).tail == NULL || (q).tail == (q).head) && \
	                    ((q).n == 1 || (q).tail != (q).head)))
#define MQ_LISTS_OK                                                        \
	(MQ_LIST_OK(g_putq) && MQ_LIST_OK(g_getq) &&                           \
	    !(g_putq.n > 0 && g_getq.n > 0 && g_putq.tail != NULL && g_putq.tail == g_last_app && g_getq.tail == g_last_app) && \
	    (g_putq.n == 0 || g_getq.n == 0 ||                                 \
	        (g_putq.head != g_getq.head && g_putq.head != g_getq.tail &&   \
	            (g_putq.tail == NULL || (g_putq.tail != g_getq.head && g_putq.tail != g_getq.tail)))))

/* C15 monitor invariant: what run_notify establishes */
#define MQ_NOTIFY_OK(mq)                                                   \
	((g_sendable != 0) == ((mq)->mq_len < (mq)->mq_cap || g_getq.n != 0) && \
	    (g_recvable != 0) == ((mq)->mq_len != 0 || g_putq.n != 0))

#define VP_SNAP_MQ(mq)                                                     \
	size_t vp_in_cap = (mq)->mq_cap, vp_in_alloc = (mq)->mq_alloc,         \
	       vp_in_len = (mq)->mq_len, vp_in_get = (mq)->mq_get,             \
	       vp_in_put = (mq)->mq_put, vp_in_closed = (mq)->mq_closed
#endif
