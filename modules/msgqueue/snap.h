/* Entry snapshot for nni_msgq_fini (mq may be NULL); macros only, read by vp/replay.py. */
#ifndef VP_MSGQUEUE_SNAP_H
#define VP_MSGQUEUE_SNAP_H
#define VP_SNAP_MQ_OPT(mq)                                                         \
	_Pragma("CPROVER check push") _Pragma("CPROVER check disable \"pointer\"")   \
	_Pragma("CPROVER check disable \"pointer-primitive\"")                       \
	size_t vp_arg_mq = ((mq) != NULL), vp_in_cap = (mq) ? (mq)->mq_cap : 0, vp_in_alloc = (mq) ? (mq)->mq_alloc : 0, \
	       vp_in_len = (mq) ? (mq)->mq_len : 0, vp_in_get = (mq) ? (mq)->mq_get : 0,                                 \
	       vp_in_put = (mq) ? (mq)->mq_put : 0, vp_in_closed = (mq) ? (mq)->mq_closed : 0;                           \
	_Pragma("CPROVER check pop")
#endif
