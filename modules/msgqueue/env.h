/* Environment of msgqueue.c (ASSUMED models, ghost state only).
 *
 * aio wait lists are modelled as ghost queues (count + current head): the
 * code only ever looks at the head, appends at the tail and removes the head
 * (or, in cancel, an arbitrary member).  Completion functions record what was
 * completed.  Nothing here dereferences an aio. */
static vp_glist *vp_which(const nni_list *l)
{
	__CPROVER_assert(l == g_putq_addr || l == g_getq_addr, "list is one of the queue's two wait lists");
	return (l == g_putq_addr ? &g_putq : &g_getq);
}
void *nni_list_first(const nni_list *l) { vp_glist *q = vp_which(l); return (q->n ? q->head : NULL); }
int   nni_list_empty(nni_list *l) { return (vp_which(l)->n == 0); }
static void vp_pop(vp_glist *q)
{
	/* remove the head: the next element (unknown identity) becomes head */
	q->n--;
	if (q->n == 0) {
		q->head = NULL;
		q->tail = NULL;
	} else if (q->n == 1 && q->tail != NULL) {
		q->head = q->tail; /* the only one left is the last appended */
	} else {
		q->head = nondet_ptr();
		__CPROVER_assume(q->head != NULL && q->head != q->tail && q->head != g_last_app);
		__CPROVER_assume(q == &g_putq ? (g_getq.n == 0 || (q->head != g_getq.head && q->head != g_getq.tail))
		                              : (g_putq.n == 0 || (q->head != g_putq.head && q->head != g_putq.tail)));
	}
	if (q == &g_putq) {
		g_head_msg = nondet_ptr();
	}
}
void nni_list_remove(nni_list *l, void *item)
{
	vp_glist *q = vp_which(l);
	__CPROVER_assert(q->n > 0 && item == q->head, "list remove: item is the head of that list");
	vp_pop(q);
}
void nni_aio_list_init(nni_list *l) { (void) l; }
void nni_aio_list_append(nni_list *l, nni_aio *aio)
{
	vp_glist *q = vp_which(l);
	__CPROVER_assert(!(g_putq.n > 0 && (aio == g_putq.head || aio == g_putq.tail)) && !(g_getq.n > 0 && (aio == g_getq.head || aio == g_getq.tail)), "append: aio is not already on a list");
	if (q->n == 0) {
		q->head = aio;
		if (q == &g_putq) {
			g_head_msg = nondet_ptr();
		}
	}
	q->tail    = aio;
	g_last_app = aio;
	q->n++;
}
static bool vp_on(vp_glist *q, nni_aio *aio) { return (q->n > 0 && (aio == q->head || aio == q->tail)); }
void nni_aio_list_remove(nni_aio *aio)
{
	vp_glist *q = vp_on(&g_getq, aio) ? &g_getq : (vp_on(&g_putq, aio) ? &g_putq : NULL);
	if (q != NULL && aio == q->head) {
		vp_pop(q);
	} else if (q != NULL) {
		/* the tail (n >= 2): the new tail has unknown identity */
		q->n--;
		q->tail = (q->n == 1) ? q->head : NULL;
	} else {
		/* an arbitrary interior member of one of the lists (cancel path) */
		__CPROVER_assert(g_aio_active && (g_aio_where == 1 ? g_getq.n >= 2 : (g_aio_where == 2 && g_putq.n >= 2)), "aio list remove: aio is on a list");
		if (g_aio_where == 1) {
			g_getq.n--;
		} else {
			g_putq.n--;
		}
	}
}
int nni_aio_list_active(nni_aio *aio)
{
	if (vp_on(&g_getq, aio) || vp_on(&g_putq, aio)) {
		return (1);
	}
	if (aio == g_last_app) {
		return (0); /* appended last, so it would be the tail if it were still there */
	}
	return (g_aio_active); /* identity unknown to the model: either answer */
}
nni_msg *nni_aio_get_msg(nni_aio *aio)
{
	__CPROVER_assert(g_putq.n > 0 && aio == g_putq.head, "get_msg of the head writer");
	return (g_head_msg);
}
void nni_aio_set_msg(nni_aio *aio, nni_msg *m)
{
	if (g_putq.n > 0 && aio == g_putq.head) {
		g_head_msg = m;
	}
}
void nni_aio_finish(nni_aio *aio, nng_err rv, size_t count)
{
	(void) count;
	g_fin_calls++;
	g_fin_last    = aio;
	g_fin_last_rv = (int) rv;
}
void nni_aio_finish_error(nni_aio *aio, nng_err rv) { nni_aio_finish(aio, rv, 0); }
void nni_aio_finish_msg(nni_aio *aio, nni_msg *m)
{
	if (g_fin_msg_calls == g_j) {
		g_fin_msg_at_j = m;
	}
	g_fin_msg_calls++;
	g_fin_msg_last = m;
	nni_aio_finish(aio, 0, 0);
}
bool nni_aio_start(nni_aio *aio, nni_aio_cancel_fn fn, void *arg) { (void) aio; (void) fn; (void) arg; g_start_calls++; return (g_aio_start_ok); }
void nni_aio_reset(nni_aio *aio) { (void) aio; g_reset_calls++; }
size_t nni_msg_len(const nni_msg *m) { (void) m; return (nondet_size_t()); }
void nni_msg_free(nni_msg *m)
{
	if (g_msg_freed == g_j) {
		g_msg_freed_at_j = m;
	}
	g_msg_freed++;
}
void nni_pollable_init(nni_pollable *p) { (void) p; }
void nni_pollable_fini(nni_pollable *p) { (void) p; }
void nni_pollable_raise(nni_pollable *p)
{
	__CPROVER_assert(p == g_sendable_addr || p == g_recvable_addr, "pollable of this queue");
	if (p == g_sendable_addr) g_sendable = true; else g_recvable = true;
}
void nni_pollable_clear(nni_pollable *p)
{
	__CPROVER_assert(p == g_sendable_addr || p == g_recvable_addr, "pollable of this queue");
	if (p == g_sendable_addr) g_sendable = false; else g_recvable = false;
}
