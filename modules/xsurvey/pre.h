/* included BEFORE the real sources of the xsurvey TU */
#define VP_PROTO_GHOSTS 1
#include "include/env_proto.h"
#include "modules/message/spec.h"
#include "modules/lmq/spec.h"
#include "modules/xrespond/env.h"
#include "modules/xrespond/spec.h"
size_t g_len0, g_off0, g_cap0; /* ghosts: pre-state body geometry (BT_BODY_GHOSTS) */
/* geometry part of the backtrace loop invariant (i words moved, header was empty) */
#define XV_LOOP_GEOM(msg, i)                                               \
	((msg)->m_header_len % 4 == 0 && (msg)->m_header_len <= MSG_HDRCAP && (msg)->m_refcnt.v == 1 && \
	    (msg)->m_body.ch_cap == g_cap0 && (msg)->m_body.ch_buf == (uint8_t *) g_p && \
	    4 * (size_t) (i) <= g_len0 && (msg)->m_body.ch_len == g_len0 - 4 * (size_t) (i) && \
	    __CPROVER_same_object((msg)->m_body.ch_buf, (msg)->m_body.ch_ptr) && CH_FULL_SCALAR(&(msg)->m_body) && \
	    (((msg)->m_body.ch_len != 0) ==> CH_OFF(&(msg)->m_body) == g_off0 + 4 * (size_t) (i)) && \
	    ((g_k < 4 * (size_t) (i)) ==> HDR(msg)[g_k] == g_b) &&            \
	    ((g_k >= 4 * (size_t) (i) && g_k < g_len0) ==> (msg)->m_body.ch_ptr[g_k - 4 * (size_t) (i)] == g_b))
