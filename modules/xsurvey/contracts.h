/* Contracts for src/sp/protocol/survey0/xsurvey.c (raw SURVEYOR; C13, C11) */
#ifndef VP_XSURVEY_CONTRACTS_H
#define VP_XSURVEY_CONTRACTS_H
/* clang-format off */
#define RV __CPROVER_return_value
#define OLD(e) __CPROVER_old(e)
#define XV_P ((xsurv0_pipe *) arg)
#define XV_S (((xsurv0_pipe *) arg)->psock)
#define XV_M (((xsurv0_pipe *) arg)->aio_recv.a_msg)
#define XV_LEN0 OLD(XV_M->m_body.ch_len)
#define XV_HL (OLD(XV_M)->m_header_len)
#ifdef XV_MUT1
#define XV_MUT1V 1
#else
#define XV_MUT1V 0
#endif
#ifdef XV_MUT2
#define XV_CAPW 17
#else
#define XV_CAPW 16
#endif
#define XV_MINW (XV_LEN0 / 4 < XV_CAPW ? XV_LEN0 / 4 : XV_CAPW)

/* Pipe receive callback: a response as a raw surveyor (device side) receives it.
 * For EVERY body: the backtrace words (peer ids, high bit clear) up to and
 * including the survey id (first word with the high bit set) move from the body
 * to the header; a response whose backtrace does not end within the body, or
 * does not fit the 64-byte header, disconnects its sender and is never
 * delivered; the header never exceeds 64 bytes; body = remaining bytes unchanged.
 * Stated outcome-keyed (exactly one outcome + outcome ==> class, the two classes
 * being complementary). */
#ifdef XV_RECV_FAILED
static void xsurv0_recv_cb(void *arg)
__CPROVER_requires(__CPROVER_is_fresh(arg, sizeof(struct xsurv0_pipe)) && __CPROVER_is_fresh(XV_S, sizeof(struct xsurv0_sock)) && VP_NO_LOCK_HELD)
/* state invariant of xsurvey.c: the message slot of aio_recv is emptied at the start of every callback; a failed receive leaves it empty */
__CPROVER_requires(XV_P->aio_recv.a_result != 0 && XV_M == NULL)
__CPROVER_assigns(VP_PROTO_GHOST_LIST)
__CPROVER_ensures(VP_NO_LOCK_HELD)
__CPROVER_ensures(g_pipe_close_calls == OLD(g_pipe_close_calls) + 1 && g_pipe_close_last == XV_P->npipe && g_pipe_recv_calls == OLD(g_pipe_recv_calls) && g_sv.mq_put_calls == OLD(g_sv.mq_put_calls))
;
#else
#define XV_X_DELIV (g_sv.mq_put_calls == OLD(g_sv.mq_put_calls) + 1)
#define XV_X_DISC (g_pipe_close_calls == OLD(g_pipe_close_calls) + 1)
static void xsurv0_recv_cb(void *arg)
__CPROVER_requires(__CPROVER_is_fresh(arg, sizeof(struct xsurv0_pipe)) && __CPROVER_is_fresh(XV_S, sizeof(struct xsurv0_sock)) && VP_NO_LOCK_HELD)
__CPROVER_requires(XV_P->aio_recv.a_result == 0 && SV_WIRE_MSG(XV_M) && CH_GHOST_PRE(&XV_M->m_body) && BT_BODY_GHOSTS(XV_M))
__CPROVER_assigns(XV_P->aio_recv.a_msg, XV_P->aio_putq.a_msg, VP_PROTO_GHOST_LIST, VP_SV_GHOST_LIST, g_free_calls)
__CPROVER_assigns(*XV_M)
__CPROVER_frees(XV_M, XV_M->m_body.ch_buf)
__CPROVER_ensures(VP_NO_LOCK_HELD && XV_P->aio_recv.a_msg == NULL && g_pipe_recv_calls == OLD(g_pipe_recv_calls) && g_fin_calls == OLD(g_fin_calls))
/* exactly one of: delivered (handed up once, kept) / disconnected (freed) */
__CPROVER_ensures((XV_X_DELIV && g_pipe_close_calls == OLD(g_pipe_close_calls) && !__CPROVER_was_freed(OLD(XV_M)) && g_sv.mq_put_q == XV_S->urq && g_sv.mq_put_aio == &XV_P->aio_putq && g_sv.mq_put_msg == OLD(XV_M) && XV_P->aio_putq.a_msg == OLD(XV_M))
    || (g_sv.mq_put_calls == OLD(g_sv.mq_put_calls) && XV_X_DISC && g_pipe_close_last == XV_P->npipe && __CPROVER_was_freed(OLD(XV_M))))
/* disconnected ==> malformed: no end word among the complete words that fit the header (at most 16) */
__CPROVER_ensures(XV_X_DISC ==> BT_NO_END_BELOW(XV_MINW))
/* delivered ==> header = words 0..n, n + 1 <= 16 words (64 bytes), word n is the first with the high bit; body = the rest; origin recorded */
__CPROVER_ensures(XV_X_DELIV ==> (XV_HL >= 4 && XV_HL % 4 == 0 && XV_HL <= MSG_HDRCAP - XV_MUT1V && XV_HL <= XV_LEN0 && OLD(XV_M)->m_body.ch_len == XV_LEN0 - XV_HL && OLD(XV_M)->m_pipe == g_pipe_id))
__CPROVER_ensures((XV_X_DELIV && g_k < XV_HL) ==> HDR(OLD(XV_M))[g_k] == g_b)
__CPROVER_ensures(XV_X_DELIV ==> (BT_NO_END_BELOW(XV_HL / 4 - 1) && (g_k == XV_HL - 4 ==> BT_HB(g_b))))
__CPROVER_ensures((XV_X_DELIV && g_k >= XV_HL && g_k < XV_LEN0) ==> OLD(XV_M)->m_body.ch_ptr[g_k - XV_HL] == g_b)
;
#endif

/* Pipe start: wrong peer protocol refused; else both directions armed */
static int xsurv0_pipe_start(void *arg)
__CPROVER_requires(__CPROVER_is_fresh(arg, sizeof(struct xsurv0_pipe)) && __CPROVER_is_fresh(XV_S, sizeof(struct xsurv0_sock)) && VP_NO_LOCK_HELD)
__CPROVER_requires(g_qa_addr == &XV_S->pipes && (g_qa.n == 0 || __CPROVER_is_fresh(g_qa.head, sizeof(struct xsurv0_pipe))) && VP_AIOQS_OK && g_qa.n < 8 && VP_AIO_NOT_QUEUED((nni_aio *) arg))
__CPROVER_assigns(VP_PROTO_GHOST_LIST, VP_SV_GHOST_LIST, VP_SYNC_GHOSTS)
__CPROVER_ensures(VP_NO_LOCK_HELD && VP_AIOQS_OK)
__CPROVER_ensures(g_pipe_peer != 0x63 ==> (RV == NNG_EPROTO && g_qa.n == OLD(g_qa.n) && g_pipe_recv_calls == OLD(g_pipe_recv_calls) && g_sv.mq_get_calls == OLD(g_sv.mq_get_calls)))
__CPROVER_ensures(g_pipe_peer == 0x63 ==> (RV == 0 && g_qa.n == OLD(g_qa.n) + 1 && g_last_app == (nni_aio *) arg && g_pipe_recv_calls == OLD(g_pipe_recv_calls) + 1 && g_pipe_recv_pipe == XV_P->npipe && g_pipe_recv_aio == &XV_P->aio_recv && g_sv.mq_get_calls == OLD(g_sv.mq_get_calls) + 1 && g_sv.mq_get_q == XV_P->sendq && g_sv.mq_get_aio == &XV_P->aio_getq))
;
/* clang-format on */
#endif
