#define VP_HAVOC_GHOSTS()                         \
	do {                                      \
		g_k = nondet_size_t(); g_j = nondet_size_t(); g_b = nondet_u8(); g_n = nondet_size_t(); \
		g_hk = nondet_size_t(); g_u32 = nondet_u32(); g_hb = nondet_u8(); \
		g_free_calls = nondet_size_t(); g_alloc_ok = nondet_size_t(); \
		__CPROVER_assume(g_free_calls < ((size_t) 1 << 40) && g_alloc_ok < ((size_t) 1 << 40)); \
		g_len0 = nondet_size_t(); g_off0 = nondet_size_t(); g_cap0 = nondet_size_t(); g_p = nondet_ptr(); \
		VP_HAVOC_PROTO(); VP_HAVOC_SV(); VP_HAVOC_SYNC();    \
	} while (0)
void h_xsurv0_recv_cb(void) { void *arg; VP_HAVOC_GHOSTS(); xsurv0_recv_cb(arg); VP_CANARY(); }
void h_xsurv0_pipe_start(void) { void *arg; VP_HAVOC_GHOSTS(); xsurv0_pipe_start(arg); VP_CANARY(); }
