/* included AFTER the real sources */
#include "include/env_alloc.h"
#include "include/env_sync.h"
#define VP_PROTO_STUBS 1
#include "include/env_proto.h"
#define VP_SV_STUBS 1
#define VP_SV_LIST_STUBS 1
#include "modules/xrespond/env.h"
