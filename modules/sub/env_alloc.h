/* modules/sub/env_alloc.h -- include/env_alloc.h plus ONE ghost: g_alloc_fail
 * counts allocation requests that were refused, so that a postcondition can
 * say "delivered unless an allocation failed".  Same assumed model otherwise
 * (malloc/calloc may fail; sized free). */
#ifndef VP_ENV_ALLOC_H
#define VP_ENV_ALLOC_H
void *
nni_alloc(size_t sz)
{
	void *p = (sz > 0 ? malloc(sz) : NULL);
	if (p != NULL) {
		g_alloc_ok++;
	} else {
		g_alloc_fail++;
	}
	return (p);
}
void *
nni_zalloc(size_t sz)
{
	void *p = (sz > 0 ? calloc(1, sz) : NULL);
	if (p != NULL) {
		g_alloc_ok++;
	} else {
		g_alloc_fail++;
	}
	return (p);
}
void
nni_free(void *ptr, size_t size)
{
	if (ptr != NULL) {
		g_free_calls++; /* counts releases of real blocks only */
		__CPROVER_assert(__CPROVER_OBJECT_SIZE(ptr) == size,
		    "sized free: nni_free size equals allocation size");
		__CPROVER_assert(__CPROVER_POINTER_OFFSET(ptr) == 0,
		    "sized free: nni_free of block start");
	}
	free(ptr);
}
#endif
