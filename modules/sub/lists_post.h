#ifndef VP_LISTS_POST_H
#define VP_LISTS_POST_H
#define VP_IS_AIOQ(l) ((l) == g_qa_addr || (l) == g_qb_addr)
#ifndef VP_LIST_OFF_A
#define VP_LIST_OFF_A 0
#endif
#ifndef VP_LIST_OFF_B
#define VP_LIST_OFF_B 0
#endif
/* VP_LIST_NODES: X(ptr) for every ghost pointer naming a list member */
static void *
vp_canon(void *r)
{
	if (r == NULL) {
		return (NULL);
	}
#define X(p) if (r == (void *) (p)) { return ((void *) (p)); }
	VP_LIST_NODES
#undef X
	__CPROVER_assert(0, "list member is one of the nodes named by the contract (bounded list shape)");
	__CPROVER_assume(0);
	return (NULL);
}
#define VP_WITH_OFF(l, stmt)                                               \
	do {                                                                   \
		if ((l)->ll_offset == VP_LIST_OFF_A) { stmt; }                     \
		else if ((l)->ll_offset == VP_LIST_OFF_B) { stmt; }                \
		else { stmt; }                                                     \
	} while (0)
void  nni_list_init_offset(nni_list *l, size_t off) { if (!VP_IS_AIOQ(l)) real_list_init_offset(l, off); }
void *nni_list_first(const nni_list *l) { void *r; if (VP_IS_AIOQ(l)) return (vp_aioq_first(l)); VP_WITH_OFF(l, r = real_list_first(l)); return (vp_canon(r)); }
int   nni_list_empty(nni_list *l) { return (VP_IS_AIOQ(l) ? vp_aioq_empty(l) : real_list_empty(l)); }
void  nni_list_append(nni_list *l, void *item) { if (VP_IS_AIOQ(l)) nni_aio_list_append(l, (nni_aio *) item); else VP_WITH_OFF(l, real_list_append(l, item)); }
void  nni_list_remove(nni_list *l, void *item) { if (VP_IS_AIOQ(l)) nni_aio_list_remove((nni_aio *) item); else VP_WITH_OFF(l, real_list_remove(l, item)); }
int   nni_list_active(nni_list *l, void *item) { int r; if (VP_IS_AIOQ(l)) return (nni_aio_list_active((nni_aio *) item)); VP_WITH_OFF(l, r = real_list_active(l, item)); return (r); }
void *nni_list_next(const nni_list *l, void *item)
{
	void *r;
	__CPROVER_assert(!VP_IS_AIOQ(l), "aio wait lists are never walked with nni_list_next (ghost queue model limit)");
	VP_WITH_OFF(l, r = real_list_next(l, item));
	return (vp_canon(r));
}
int  nni_list_node_active(nni_list_node *n) { return (real_list_node_active(n)); }
void nni_list_node_remove(nni_list_node *n) { real_list_node_remove(n); }
#endif
