/* lists_post.h -- nni_list_* dispatchers (see lists_pre.h); included after
 * env_proto.h (VP_PROTO_STUBS), whose two list functions were renamed to
 * vp_aioq_first / vp_aioq_empty by post.h. */
#ifndef VP_LISTS_POST_H
#define VP_LISTS_POST_H
/* an aio wait list is recognised by its member offset (nni_aio_list_init: a_prov_node), which the
 * harness sets; this is a constant for symbolic execution even when the list pointer is not */
#define VP_AIO_OFF offsetof(nni_aio, a_prov_node)
#define VP_IS_AIOQ(l) ((l)->ll_offset == VP_AIO_OFF)
void  nni_list_init_offset(nni_list *l, size_t off) { if (!VP_IS_AIOQ(l)) real_list_init_offset(l, off); }
void *nni_list_first(const nni_list *l) { return (VP_IS_AIOQ(l) ? vp_aioq_first(l) : real_list_first(l)); }
int   nni_list_empty(nni_list *l) { return (VP_IS_AIOQ(l) ? vp_aioq_empty(l) : real_list_empty(l)); }
void  nni_list_append(nni_list *l, void *item) { if (VP_IS_AIOQ(l)) nni_aio_list_append(l, (nni_aio *) item); else real_list_append(l, item); }
/* prepend on a ghost aio queue: the new member becomes the head; a former single member becomes the tail */
static void vp_aioq_prepend(nni_list *l, nni_aio *aio)
{
	vp_aioq *q = vp_which(l);
	__CPROVER_assert(!vp_on(&g_qa, aio) && !vp_on(&g_qb, aio), "prepend: aio is not already on a list");
	if (q->n == 0) {
		q->tail = aio;
	} else if (q->n == 1) {
		q->tail = q->head;
	}
	q->head = aio;
	q->n++;
}
void  nni_list_prepend(nni_list *l, void *item) { if (VP_IS_AIOQ(l)) vp_aioq_prepend(l, (nni_aio *) item); else real_list_prepend(l, item); }
void  nni_list_remove(nni_list *l, void *item) { if (VP_IS_AIOQ(l)) nni_aio_list_remove((nni_aio *) item); else real_list_remove(l, item); }
int   nni_list_active(nni_list *l, void *item) { return (VP_IS_AIOQ(l) ? nni_aio_list_active((nni_aio *) item) : real_list_active(l, item)); }
void *nni_list_next(const nni_list *l, void *item)
{
	__CPROVER_assert(!VP_IS_AIOQ(l), "aio wait lists are never walked with nni_list_next (ghost queue model limit)");
	return (real_list_next(l, item));
}
void *nni_list_last(const nni_list *l)
{
	__CPROVER_assert(!VP_IS_AIOQ(l), "aio wait lists: nni_list_last not modelled");
	return (real_list_last(l));
}
int  nni_list_node_active(nni_list_node *n) { return (real_list_node_active(n)); }
void nni_list_node_remove(nni_list_node *n) { real_list_node_remove(n); }
#endif
