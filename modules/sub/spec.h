/* Spec macros for src/sp/protocol/pubsub0/sub.c (C05, C15).  No code. */
#ifndef VP_SUB_SPEC_H
#define VP_SUB_SPEC_H
/* BOUNDS of this module (grade B): at most 2 contexts on a socket, a context
 * has at most 3 topics, each at most SUB_MAXTOPIC bytes (memcmp is CBMC's byte
 * loop); message bodies are unbounded and fully symbolic. */
#define SUB_MAXTOPIC 8
/* the topic list of ctx is the real nni_list (t0, t1, t2)[0..n) */
#define SUB_TOPICS_ARE(ctx, n, t0, t1, t2)                                 \
	((n) <= 3 && (ctx)->topics.ll_offset == 0 &&                           \
	    VP_LIST3_IS(&(ctx)->topics.ll_head, (n), &(t0)->node, &(t1)->node, &(t2)->node))
#endif
