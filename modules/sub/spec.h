/* Spec macros for src/sp/protocol/pubsub0/sub.c (C05, C15).  No code. */
#ifndef VP_SUB_SPEC_H
#define VP_SUB_SPEC_H

/* BOUNDS of this module (grade B): a context has at most 3 topics, each at
 * most SUB_MAXTOPIC bytes (memcmp is CBMC's byte loop); message bodies are
 * unbounded and fully symbolic. */
#define SUB_MAXTOPIC 8

#define SUB_TOPIC_PRE(t)                                                   \
	(__CPROVER_is_fresh((t), sizeof(struct sub0_topic)) &&                 \
	    (t)->len <= SUB_MAXTOPIC &&                                        \
	    ((t)->len == 0 || __CPROVER_is_fresh((t)->buf, (t)->len)))
/* the topic list of ctx is the real nni_list (t0, t1, t2)[0..n) */
#define SUB_TOPICS_PRE(ctx, n, t0, t1, t2)                                 \
	((n) <= 3 && (ctx)->topics.ll_offset == 0 &&                           \
	    ((n) < 1 || SUB_TOPIC_PRE(t0)) && ((n) < 2 || SUB_TOPIC_PRE(t1)) && \
	    ((n) < 3 || SUB_TOPIC_PRE(t2)) &&                                  \
	    VP_LIST3_LINKS(&(ctx)->topics.ll_head, (n), &(t0)->node, &(t1)->node, &(t2)->node))
#define SUB_TOPICS_ARE(ctx, n, t0, t1, t2)                                 \
	VP_LIST3_IS(&(ctx)->topics.ll_head, (n), &(t0)->node, &(t1)->node, &(t2)->node)

/* ORACLE (property C05): topic t is a prefix of body[0..blen) */
#define SUB_EQ_AT(t, body, i)                                              \
	((i) >= (t)->len || ((const uint8_t *) (t)->buf)[(i)] == ((const uint8_t *) (body))[(i)])
#define SUB_PREFIX(t, body, blen)                                          \
	((t)->len <= (blen) && SUB_EQ_AT(t, body, 0) && SUB_EQ_AT(t, body, 1) && \
	    SUB_EQ_AT(t, body, 2) && SUB_EQ_AT(t, body, 3) && SUB_EQ_AT(t, body, 4) && \
	    SUB_EQ_AT(t, body, 5) && SUB_EQ_AT(t, body, 6) && SUB_EQ_AT(t, body, 7))
/* "one of the current subscriptions is a prefix of the body" */
#define SUB_ORACLE(n, t0, t1, t2, body, blen)                              \
	(((n) > 0 && SUB_PREFIX(t0, body, blen)) || ((n) > 1 && SUB_PREFIX(t1, body, blen)) || \
	    ((n) > 2 && SUB_PREFIX(t2, body, blen)))
#endif
#define SUB_PREFIX_Q(t, body, blen)                                          \
	((t)->len <= (blen) && __CPROVER_forall { size_t vp_i; (vp_i < SUB_MAXTOPIC) ==> (vp_i >= (t)->len || ((const uint8_t *) (t)->buf)[vp_i] == ((const uint8_t *) (body))[vp_i]) })
#define SUB_ORACLE_Q(n, t0, t1, t2, body, blen)                              \
	(((n) > 0 && SUB_PREFIX_Q(t0, body, blen)) || ((n) > 1 && SUB_PREFIX_Q(t1, body, blen)) || \
	    ((n) > 2 && SUB_PREFIX_Q(t2, body, blen)))
