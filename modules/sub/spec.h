/* Spec macros for src/sp/protocol/pubsub0/sub.c (C05, C15).  No code. */
#ifndef VP_SUB_SPEC_H
#define VP_SUB_SPEC_H
/* BOUNDS of this module (grade B): at most 2 contexts on a socket, a context
 * has at most 3 topics, each at most SUB_MAXTOPIC bytes (memcmp is CBMC's byte
 * loop); message bodies are unbounded and fully symbolic. */
#define SUB_MAXTOPIC 8
/* the topic list of ctx is the real nni_list (t0, t1, t2)[0..n) */
#define SUB_TOPICS_ARE(ctx, n, t0, t1, t2)                                 \
	((n) <= 3 && (ctx)->topics.ll_offset == 0 &&                           \
	    VP_LIST3_IS(&(ctx)->topics.ll_head, (n), &(t0)->node, &(t1)->node, &(t2)->node))

/* a message as a transport delivers it: unshared, empty header, wire bytes in the body */
#define SUB_WIRE_MSG(m)                                                    \
	(__CPROVER_is_fresh((m), sizeof(struct nng_msg)) &&                    \
	    (m)->m_header_len == 0 && (m)->m_refcnt.v == 1 &&                  \
	    CH_FULL_PRE(&(m)->m_body))
/* BOUND: a context's receive queue is a heap ring of SUB_QSLOTS slots built by the
 * harness, every slot holding a real message object (contents unconstrained);
 * depth (lmq_cap) 1..SUB_QSLOTS, ring position and occupancy symbolic.  (A pointer
 * predicate on an element of a symbolic-size array makes CBMC run out of memory.) */
#define SUB_QSLOTS 4
#define SUB_LMQ_PRE(q)                                                     \
	((q)->lmq_alloc == SUB_QSLOTS && LMQ_WF_SCALAR(q) && (q)->lmq_cap >= 1)
/* a message sitting in a receive queue (owned by the queue; may be shared) */
#define SUB_QUEUED_MSG(m)                                                  \
	((m)->m_header_len <= MSG_HDRCAP && (m)->m_refcnt.v >= 1 &&            \
	    (m)->m_refcnt.v < 1000 && CH_FULL_PRE(&(m)->m_body))
/* BOUND (unsubscribe unit only): a queued message has a 16-byte buffer (twice the topic
 * bound; any headroom and length inside it, all bytes symbolic): the requeue loop reads every
 * queued body against every topic, and unbounded arrays make the array theory run out of memory */
#define SUB_QUEUED_MSG16(m)                                                \
	((m)->m_header_len <= MSG_HDRCAP && (m)->m_refcnt.v >= 1 &&            \
	    (m)->m_refcnt.v < 1000 && (m)->m_body.ch_cap == 16 &&              \
	    __CPROVER_is_fresh((m)->m_body.ch_buf, 16) &&                      \
	    __CPROVER_pointer_in_range_dfcc((m)->m_body.ch_buf, (m)->m_body.ch_ptr, (m)->m_body.ch_buf + 16) && \
	    CH_FULL_SCALAR(&(m)->m_body))
/* per-context state; STABLE STATE: receivers wait only while the queue is empty */
#define SUB_CTX_PRE(c, Q)                                                  \
	(SUB_LMQ_PRE(&(c)->lmq) && ((Q).n == 0 || (c)->lmq.lmq_len == 0) &&    \
	    ((c)->lmq.lmq_len == 0 || SUB_QUEUED_MSG(LMQ_VIEW(&(c)->lmq, 0))))
#define SUB_FULL_OLD(c) (OLD((c)->lmq.lmq_len) >= (c)->lmq.lmq_cap)
#endif
