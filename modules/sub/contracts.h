#include "modules/sub/oracle.h"
#define RV __CPROVER_return_value
#define OLD(e) __CPROVER_old(e)
#define TPU(t) (__CPROVER_is_fresh((t), sizeof(struct sub0_topic)) && (t)->len <= SUB_MAXTOPIC && ((t)->len == 0 || __CPROVER_is_fresh((t)->buf, (t)->len)))
static bool sub0_matches(sub0_ctx *ctx, uint8_t *body, size_t len)
__CPROVER_requires(__CPROVER_is_fresh(ctx, sizeof(struct sub0_ctx)) && TPU(g_t0) && TPU(g_t1) && TPU(g_t2) && g_nt <= 3 && ctx->topics.ll_offset == 0 && VP_LIST3_LINKS(&ctx->topics.ll_head, g_nt, &g_t0->node, &g_t1->node, &g_t2->node))
__CPROVER_requires(len == 0 || __CPROVER_is_fresh(body, len))
__CPROVER_requires(g_qa_addr == &ctx->recv_queue && g_qb_addr == NULL)
__CPROVER_assigns()
#ifndef NOORACLE
__CPROVER_ensures(RV==vp_sub_oracle(g_nt,g_t0,g_t1,g_t2,body,len))
#endif
__CPROVER_ensures(g_nt == 0 ==> !RV)
;
