/* Contracts for src/sp/protocol/pubsub0/sub.c.
 * The object skeleton (socket, contexts, topics and their real nni_list links)
 * is BUILT by the harness and named by ghosts (g_s, g_c1, g_t*, g_u*); all other
 * state is unconstrained except for what the requires clauses say. */
#ifndef VP_SUB_CONTRACTS_H
#define VP_SUB_CONTRACTS_H
/* clang-format off */
#define RV __CPROVER_return_value
#define OLD(e) __CPROVER_old(e)

/* ---- C05: matching == "some current subscription is a prefix of the body" ----
 * for every list of <= 3 topics (empty topic, topics longer than the body,
 * duplicates, overlapping, arbitrary bytes) and every body. */
static bool sub0_matches(sub0_ctx *ctx, uint8_t *body, size_t len)
__CPROVER_requires(ctx == &g_s->master && SUB_TOPICS_ARE(ctx, g_nt, g_t0, g_t1, g_t2))
__CPROVER_requires(len == 0 || __CPROVER_is_fresh(body, len))
__CPROVER_assigns()
__CPROVER_ensures(RV == vp_sub_oracle(g_nt, g_t0, g_t1, g_t2, body, len))
/* spelled out: no subscription matches nothing, the empty subscription matches everything */
__CPROVER_ensures(g_nt == 0 ==> !RV)
__CPROVER_ensures(((g_nt > 0 && g_t0->len == 0) || (g_nt > 1 && g_t1->len == 0) || (g_nt > 2 && g_t2->len == 0)) ==> RV)
;
/* clang-format on */
#endif
