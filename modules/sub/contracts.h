/* Contracts for src/sp/protocol/pubsub0/sub.c.
 * The object skeleton (socket, contexts, topics and their real nni_list links)
 * is BUILT by the harness and named by ghosts (g_s, g_c1, g_t*, g_u*); all other
 * state is unconstrained except for what the requires clauses say. */
#ifndef VP_SUB_CONTRACTS_H
#define VP_SUB_CONTRACTS_H
/* clang-format off */
#define RV __CPROVER_return_value
#define OLD(e) __CPROVER_old(e)

/* ---- C05: matching == "some current subscription is a prefix of the body" ----
 * for either context of the socket, every list of <= 3 topics (empty topic,
 * topics longer than the body, duplicates, overlapping, arbitrary bytes) and
 * every body.  (This contract also REPLACES the calls in sub0_recv_cb and
 * sub0_ctx_unsubscribe: there the requires are checked at each call.) */
#define SUB_IS_C0(ctx) ((ctx) == &g_s->master)
#define SUB_ORACLE_OF(ctx, body, len)                                                                  \
	(SUB_IS_C0(ctx) ? vp_sub_oracle(g_nt, g_t0, g_t1, g_t2, (body), (len))                             \
	                : vp_sub_oracle(g_nu, g_u0, g_u1, g_u2, (body), (len)))
static bool sub0_matches(sub0_ctx *ctx, uint8_t *body, size_t len)
__CPROVER_requires(SUB_IS_C0(ctx) || (g_nc == 2 && ctx == g_c1))
__CPROVER_requires(SUB_IS_C0(ctx) ? SUB_TOPICS_ARE(ctx, g_nt, g_t0, g_t1, g_t2) : SUB_TOPICS_ARE(ctx, g_nu, g_u0, g_u1, g_u2))
__CPROVER_requires(len == 0 || __CPROVER_is_fresh(body, len))
__CPROVER_assigns()
__CPROVER_ensures(RV == SUB_ORACLE_OF(ctx, body, len))
/* spelled out: no subscription matches nothing, the empty subscription matches everything */
__CPROVER_ensures((SUB_IS_C0(ctx) && g_nt == 0) ==> !RV)
__CPROVER_ensures((SUB_IS_C0(ctx) && ((g_nt > 0 && g_t0->len == 0) || (g_nt > 1 && g_t1->len == 0) || (g_nt > 2 && g_t2->len == 0))) ==> RV)
;
/* ---- C05/C15: arrival of a published message -------------------------------
 * Per context, independently of the other contexts:
 *   delivered  <=>  ORACLE (g_m0 / g_m1: some current topic of THAT context is a
 *   prefix of the body) and the context can take it; a full queue loses exactly
 *   one message: the oldest if prefer_new, otherwise the new one is not enqueued.
 * The delivered message has the arriving body (ghost index g_k / byte g_b).  */
#define SUB_POLL_INV (g_pollr == (g_s->master.lmq.lmq_len > 0))
#define SB_M   (g_pp->aio_recv.a_msg)
#define SB_C0  (&g_s->master)
#define SB_LEN OLD(SB_M->m_body.ch_len)
/* "context c takes the message": it matches and the drop policy lets it in */
#define SB_TAKES(c, M) ((M) && !(SUB_FULL_OLD(c) && !(c)->prefer_new))
/* context c is left exactly as it was */
#define SB_CTX_SAME(c, Q)                                                                              \
	((c)->lmq.lmq_len == OLD((c)->lmq.lmq_len) && (c)->lmq.lmq_get == OLD((c)->lmq.lmq_get) &&        \
	    (Q).n == OLD((Q).n) && (g_j >= (c)->lmq.lmq_len || LMQ_VIEW(&(c)->lmq, g_j) == OLD(LMQ_VIEW(&(c)->lmq, g_j))))
/* appended at the tail, older entries keep their place */
#define SB_CTX_APPENDED(c, Q, D)                                                                       \
	((c)->lmq.lmq_len == OLD((c)->lmq.lmq_len) + 1 && (Q).n == OLD((Q).n) &&                           \
	    LMQ_VIEW(&(c)->lmq, (c)->lmq.lmq_len - 1) == (D) &&                                            \
	    (g_j >= OLD((c)->lmq.lmq_len) || LMQ_VIEW(&(c)->lmq, g_j) == OLD(LMQ_VIEW(&(c)->lmq, g_j))))
/* full queue, prefer_new: the OLDEST one leaves (released once), the rest move up, the new one is last */
#define SB_CTX_ROTATED(c, Q, D)                                                                        \
	((c)->lmq.lmq_len == OLD((c)->lmq.lmq_len) && (Q).n == OLD((Q).n) &&                               \
	    LMQ_VIEW(&(c)->lmq, (c)->lmq.lmq_len - 1) == (D) &&                                            \
	    (g_j + 1 >= (c)->lmq.lmq_len || g_j >= LMQ_MAXALLOC || LMQ_VIEW(&(c)->lmq, g_j) == OLD(LMQ_VIEW(&(c)->lmq, g_j + 1))))

#ifdef SUB_RECV_FAILED
/* case A (own unit): the receive failed => the peer is disconnected, nothing else happens */
static void sub0_recv_cb(void *arg)
__CPROVER_requires(arg == g_pp && VP_NO_LOCK_HELD && g_pp->aio_recv.a_result != 0)
__CPROVER_requires(SUB_LMQ_PRE(&SB_C0->lmq) && VP_AIOQS_PRE)
__CPROVER_assigns(VP_PROTO_GHOST_LIST)
__CPROVER_ensures(VP_NO_LOCK_HELD)
__CPROVER_ensures(g_pipe_close_calls == OLD(g_pipe_close_calls) + 1 && g_pipe_close_last == g_pp->pipe && g_fin_calls == OLD(g_fin_calls) && g_pipe_recv_calls == OLD(g_pipe_recv_calls) && SB_C0->lmq.lmq_len == OLD(SB_C0->lmq.lmq_len) && g_qa.n == OLD(g_qa.n) && g_qb.n == OLD(g_qb.n))
;
#else
/* ---- shared clauses, per context c with wait queue Q ---- */
#define SB_CTX_REQUIRES(c, Q) SUB_CTX_PRE(c, Q)
#define SB_CTX_ASSIGNS(c, Q)                                                                           \
__CPROVER_assigns((c)->lmq.lmq_put, (c)->lmq.lmq_get, (c)->lmq.lmq_len, __CPROVER_object_whole((c)->lmq.lmq_msgs)) \
__CPROVER_assigns((c)->lmq.lmq_len > 0: *LMQ_VIEW(&(c)->lmq, 0))                                        \
__CPROVER_assigns((Q).n > 0: (Q).head->a_msg, (Q).head->a_result, (Q).head->a_count)                    \
__CPROVER_frees((c)->lmq.lmq_len > 0: LMQ_VIEW(&(c)->lmq, 0), LMQ_VIEW(&(c)->lmq, 0)->m_body.ch_buf)
/* the oldest message of c was released exactly once (last reference: freed) */
#define SB_OLDEST_RELEASED(c)                                                                          \
	((OLD(LMQ_VIEW(&(c)->lmq, 0)->m_refcnt.v) == 1) ? __CPROVER_was_freed(OLD(LMQ_VIEW(&(c)->lmq, 0)))  \
	    : (!__CPROVER_was_freed(OLD(LMQ_VIEW(&(c)->lmq, 0))) && OLD(LMQ_VIEW(&(c)->lmq, 0))->m_refcnt.v == OLD(LMQ_VIEW(&(c)->lmq, 0)->m_refcnt.v) - 1))
#if SUB_NC == 1
/* case B: one context (the socket itself) */
static void sub0_recv_cb(void *arg)
__CPROVER_requires(arg == g_pp && VP_NO_LOCK_HELD && g_nc == 1 && g_s->num_contexts == 1)
__CPROVER_requires(g_pp->aio_recv.a_result == 0 && SUB_WIRE_MSG(SB_M) && CH_GHOST_PRE(&SB_M->m_body))
__CPROVER_requires(SB_CTX_REQUIRES(SB_C0, g_qa) && SUB_POLL_INV)
__CPROVER_requires(VP_AIOQS_PRE && g_qb.n == 0 && VP_AIO_NOT_QUEUED(&g_pp->aio_recv))
/* ghost equation: g_m0 is the ORACLE value for the arriving body under the context's current topics */
__CPROVER_requires(g_m0 == vp_sub_oracle(g_nt, g_t0, g_t1, g_t2, SB_M->m_body.ch_ptr, SB_M->m_body.ch_len))
__CPROVER_assigns(g_pp->aio_recv.a_msg, *SB_M, VP_PROTO_GHOST_LIST, VP_SYNC_GHOSTS, g_free_calls, g_alloc_ok, g_alloc_fail, g_cl, g_cl_ran,
    __CPROVER_object_whole(g_cl_fin_aio), __CPROVER_object_whole(g_cl_fin_msg), __CPROVER_object_whole(g_cl_fin_rv), __CPROVER_object_whole(g_cl_fin_count))
SB_CTX_ASSIGNS(SB_C0, g_qa)
__CPROVER_frees(SB_M, SB_M->m_body.ch_buf)
__CPROVER_ensures(VP_NO_LOCK_HELD && VP_AIOQS_OK && LMQ_WF_SCALAR(&SB_C0->lmq))
/* the next receive is armed, the peer stays connected */
__CPROVER_ensures(g_pipe_recv_calls == OLD(g_pipe_recv_calls) + 1 && g_pipe_recv_pipe == g_pp->pipe && g_pipe_recv_aio == &g_pp->aio_recv && g_pp->aio_recv.a_msg == NULL && g_pipe_close_calls == OLD(g_pipe_close_calls))
/* NOT taken (no matching subscription, or queue full and prefer_new off): context untouched, message released */
__CPROVER_ensures(!SB_TAKES(SB_C0, g_m0) ==> (SB_CTX_SAME(SB_C0, g_qa) && g_fin_calls == OLD(g_fin_calls) && __CPROVER_was_freed(OLD(SB_M)) && g_pollr == OLD(g_pollr)))
/* taken: never freed, never copied, body and length untouched, origin pipe recorded */
__CPROVER_ensures(SB_TAKES(SB_C0, g_m0) ==> (!__CPROVER_was_freed(OLD(SB_M)) && OLD(SB_M)->m_refcnt.v == 1 && OLD(SB_M)->m_pipe == g_pipe_id && OLD(SB_M)->m_body.ch_len == SB_LEN && g_alloc_ok == OLD(g_alloc_ok)))
__CPROVER_ensures((SB_TAKES(SB_C0, g_m0) && g_k < SB_LEN) ==> OLD(SB_M)->m_body.ch_ptr[g_k] == g_b)
/* a receiver is waiting: the first one gets it, once */
__CPROVER_ensures((SB_TAKES(SB_C0, g_m0) && OLD(g_qa.n) > 0) ==> (g_fin_calls == OLD(g_fin_calls) + 1 && g_fin_last == OLD(g_qa.head) && g_fin_last_rv == 0 && g_fin_last_count == SB_LEN && g_fin_last_msg == OLD(SB_M) && g_qa.n == OLD(g_qa.n) - 1 && SB_C0->lmq.lmq_len == OLD(SB_C0->lmq.lmq_len)))
/* room in the queue: appended, socket readable */
__CPROVER_ensures((SB_TAKES(SB_C0, g_m0) && OLD(g_qa.n) == 0 && !SUB_FULL_OLD(SB_C0)) ==> (SB_CTX_APPENDED(SB_C0, g_qa, OLD(SB_M)) && g_fin_calls == OLD(g_fin_calls)))
/* queue full, prefer_new: exactly one message leaves - the oldest */
__CPROVER_ensures((SB_TAKES(SB_C0, g_m0) && OLD(g_qa.n) == 0 && SUB_FULL_OLD(SB_C0)) ==> (SB_CTX_ROTATED(SB_C0, g_qa, OLD(SB_M)) && g_fin_calls == OLD(g_fin_calls) && SB_OLDEST_RELEASED(SB_C0)))
/* C15: the receive descriptor mirrors "socket queue non-empty" */
__CPROVER_ensures(SUB_POLL_INV)
;
#else
/* case C: two contexts (the socket's own and one more); each gets its OWN copy
 * of the message iff ITS topics match - unless the allocation of that copy fails */
#define SB_C1 g_c1
/* D is a private copy of the arriving message */
#define SB_COPY_OK(D)                                                                                  \
	((D) != OLD(SB_M) && (D)->m_refcnt.v == 1 && (D)->m_header_len == 0 && (D)->m_pipe == g_pipe_id &&  \
	    (D)->m_body.ch_len == SB_LEN && (g_k >= SB_LEN || (D)->m_body.ch_ptr[g_k] == g_b))
#define SB_C0_DONE (g_qa.n + 1 == OLD(g_qa.n))
#define SB_C1_DONE (g_qb.n + 1 == OLD(g_qb.n))
#define SB_SLOT1 (SB_C0_DONE ? 1 : 0)
/* outcome for context c (queue Q, oracle value M, completion slot S) */
#define SB_CTX_OUTCOME(c, Q, M, S)                                                                     \
	(!SB_TAKES(c, M) ? SB_CTX_SAME(c, Q)                                                               \
	    : ((g_alloc_fail > OLD(g_alloc_fail) && SB_CTX_SAME(c, Q)) ||                                  \
	          (OLD((Q).n) > 0 ? ((Q).n == OLD((Q).n) - 1 && (c)->lmq.lmq_len == OLD((c)->lmq.lmq_len) && \
	                                g_cl_fin_aio[S] == OLD((Q).head) && g_cl_fin_rv[S] == 0 &&          \
	                                g_cl_fin_count[S] == SB_LEN && SB_COPY_OK(g_cl_fin_msg[S]))         \
	              : (!SUB_FULL_OLD(c) ? (SB_CTX_APPENDED(c, Q, LMQ_VIEW(&(c)->lmq, (c)->lmq.lmq_len - 1)) && SB_COPY_OK(LMQ_VIEW(&(c)->lmq, (c)->lmq.lmq_len - 1))) \
	                                  : (SB_CTX_ROTATED(c, Q, LMQ_VIEW(&(c)->lmq, (c)->lmq.lmq_len - 1)) && SB_COPY_OK(LMQ_VIEW(&(c)->lmq, (c)->lmq.lmq_len - 1)) && SB_OLDEST_RELEASED(c))))))
static void sub0_recv_cb(void *arg)
__CPROVER_requires(arg == g_pp && VP_NO_LOCK_HELD && g_nc == 2 && g_s->num_contexts == 2)
__CPROVER_requires(g_pp->aio_recv.a_result == 0 && SUB_WIRE_MSG(SB_M) && CH_GHOST_PRE(&SB_M->m_body))
__CPROVER_requires(SB_CTX_REQUIRES(SB_C0, g_qa) && SB_CTX_REQUIRES(SB_C1, g_qb) && SUB_POLL_INV)
__CPROVER_requires(VP_AIOQS_PRE && VP_AIO_NOT_QUEUED(&g_pp->aio_recv))
/* ghost equations: ORACLE value of the arriving body under EACH context's own topics */
__CPROVER_requires(g_m0 == vp_sub_oracle(g_nt, g_t0, g_t1, g_t2, SB_M->m_body.ch_ptr, SB_M->m_body.ch_len))
__CPROVER_requires(g_m1 == vp_sub_oracle(g_nu, g_u0, g_u1, g_u2, SB_M->m_body.ch_ptr, SB_M->m_body.ch_len))
#ifdef SUB_CASE
/* case split of this contract (one unit per case, cases disjoint and exhaustive): which contexts match */
__CPROVER_requires(g_m0 == ((SUB_CASE & 1) != 0) && g_m1 == ((SUB_CASE & 2) != 0))
#endif
__CPROVER_assigns(g_pp->aio_recv.a_msg, *SB_M, VP_PROTO_GHOST_LIST, VP_SYNC_GHOSTS, g_free_calls, g_alloc_ok, g_alloc_fail, g_cl, g_cl_ran,
    __CPROVER_object_whole(g_cl_fin_aio), __CPROVER_object_whole(g_cl_fin_msg), __CPROVER_object_whole(g_cl_fin_rv), __CPROVER_object_whole(g_cl_fin_count))
SB_CTX_ASSIGNS(SB_C0, g_qa)
SB_CTX_ASSIGNS(SB_C1, g_qb)
__CPROVER_frees(SB_M, SB_M->m_body.ch_buf)
__CPROVER_ensures(VP_NO_LOCK_HELD && VP_AIOQS_OK && LMQ_WF_SCALAR(&SB_C0->lmq) && LMQ_WF_SCALAR(&SB_C1->lmq))
__CPROVER_ensures(g_pipe_recv_calls == OLD(g_pipe_recv_calls) + 1 && g_pipe_recv_pipe == g_pp->pipe && g_pipe_recv_aio == &g_pp->aio_recv && g_pp->aio_recv.a_msg == NULL && g_pipe_close_calls == OLD(g_pipe_close_calls))
/* the arriving message itself is always released (every taker got a copy) */
__CPROVER_ensures(__CPROVER_was_freed(OLD(SB_M)))
/* contexts filter independently */
__CPROVER_ensures(SB_CTX_OUTCOME(SB_C0, g_qa, g_m0, 0))
__CPROVER_ensures(SB_CTX_OUTCOME(SB_C1, g_qb, g_m1, SB_SLOT1))
/* exactly the waiting receivers that were served are completed, after the lock is dropped */
__CPROVER_ensures(g_fin_calls == OLD(g_fin_calls) + (SB_C0_DONE ? 1 : 0) + (SB_C1_DONE ? 1 : 0))
/* C15 */
__CPROVER_ensures(SUB_POLL_INV)
;
#endif
#endif

/* ---- C15: receive on a context (the socket's own receive is the master context) ----
 * never waits while a message is queued; waits (nni_aio_start) only when the
 * queue is empty; the poll flag of the socket mirrors "master queue non-empty". */
#define SR_C   ((sub0_ctx *) arg)
#define SR_Q   (*(SUB_IS_C0(SR_C) ? &g_qa : &g_qb))
#define SR_V0  LMQ_VIEW(&SR_C->lmq, 0)
static void sub0_ctx_recv(void *arg, nni_aio *aio)
__CPROVER_requires((SUB_IS_C0(SR_C) || (g_nc == 2 && arg == g_c1)) && VP_NO_LOCK_HELD)
__CPROVER_requires(SUB_LMQ_PRE(&SR_C->lmq))
/* queued messages are unshared (established by sub0_recv_cb: delivered message has one reference) */
__CPROVER_requires(SR_C->lmq.lmq_len == 0 || (SUB_QUEUED_MSG(SR_V0) && SR_V0->m_refcnt.v == 1))
__CPROVER_requires(__CPROVER_is_fresh(aio, sizeof(nni_aio)) && VP_AIOQS_PRE && VP_AIO_NOT_QUEUED(aio) && g_qa.n < 8 && g_qb.n < 8)
__CPROVER_requires(SUB_IS_C0(SR_C) ==> SUB_POLL_INV)
__CPROVER_assigns(SR_C->lmq.lmq_len > 0: *SR_V0)
__CPROVER_frees(SR_C->lmq.lmq_len > 0: SR_V0, SR_V0->m_body.ch_buf)
__CPROVER_assigns(aio->a_msg, SR_C->lmq.lmq_get, SR_C->lmq.lmq_len, VP_PROTO_GHOST_LIST, VP_SYNC_GHOSTS, g_free_calls, g_alloc_ok, g_alloc_fail)
__CPROVER_ensures(VP_NO_LOCK_HELD && VP_AIOQS_OK && LMQ_WF_SCALAR(&SR_C->lmq))
/* empty: the operation cannot proceed => started exactly once; refused => nothing queued; never completed here */
__CPROVER_ensures(OLD(SR_C->lmq.lmq_len) == 0 ==> (g_start_calls == OLD(g_start_calls) + 1 && g_start_last == aio && g_fin_calls == OLD(g_fin_calls) && SR_C->lmq.lmq_len == 0 && aio->a_msg == OLD(aio->a_msg)))
__CPROVER_ensures((OLD(SR_C->lmq.lmq_len) == 0 && SUB_IS_C0(SR_C)) ==> (g_qa.n == OLD(g_qa.n) + (g_aio_start_ok ? 1 : 0) && g_qb.n == OLD(g_qb.n)))
__CPROVER_ensures((OLD(SR_C->lmq.lmq_len) == 0 && !SUB_IS_C0(SR_C)) ==> (g_qb.n == OLD(g_qb.n) + (g_aio_start_ok ? 1 : 0) && g_qa.n == OLD(g_qa.n)))
/* non-empty: completes in the call with the OLDEST message, without consulting the timeout */
__CPROVER_ensures(OLD(SR_C->lmq.lmq_len) > 0 ==> (g_start_calls == OLD(g_start_calls) && g_fin_calls == OLD(g_fin_calls) + 1 && g_fin_last == aio && g_fin_last_rv == 0 && g_fin_last_msg == OLD(SR_V0) && g_fin_last_count == OLD(SR_V0)->m_body.ch_len && aio->a_msg == OLD(SR_V0) && SR_C->lmq.lmq_len == OLD(SR_C->lmq.lmq_len) - 1 && g_qa.n == OLD(g_qa.n) && g_qb.n == OLD(g_qb.n)))
__CPROVER_ensures((OLD(SR_C->lmq.lmq_len) > 0 && g_j < SR_C->lmq.lmq_len && g_j < LMQ_MAXALLOC) ==> LMQ_VIEW(&SR_C->lmq, g_j) == OLD(LMQ_VIEW(&SR_C->lmq, g_j + 1)))
/* C15: the receive descriptor mirrors the master queue */
__CPROVER_ensures(SUB_IS_C0(SR_C) ? SUB_POLL_INV : g_pollr == OLD(g_pollr))
;

/* ---- C05/C15: unsubscribe -------------------------------------------------
 * removes the first topic equal to buf[0..sz) (NNG_ENOENT and no change if there
 * is none); afterwards the queue is the ORDER-PRESERVING FILTER of the old queue
 * by the remaining topics, every message that no longer matches is released
 * exactly once, and the poll flag of the socket mirrors "queue non-empty". */
#ifndef SU_MAXQ
#define SU_MAXQ SUB_QSLOTS
#endif
size_t g_r;                          /* ghost: index of the topic that goes (3 = none) */
bool   g_keep0, g_keep1, g_keep2, g_keep3; /* ghost: old queue entry i still matches afterwards */
#define SU_C   (&g_s->master)
#define SU_Q   (&SU_C->lmq)
#define SU_V(i) LMQ_VIEW(SU_Q, (i))
#define SU_OLDLEN OLD(SU_Q->lmq_len)
#define SU_KEEP(i) ((i) == 0 ? g_keep0 : (i) == 1 ? g_keep1 : (i) == 2 ? g_keep2 : g_keep3)
/* number of kept entries among the first j old entries */
#define SU_RANK(j) ((size_t) (((j) > 0 && g_keep0) ? 1 : 0) + (((j) > 1 && g_keep1) ? 1 : 0) + (((j) > 2 && g_keep2) ? 1 : 0) + (((j) > 3 && g_keep3) ? 1 : 0))
#define SU_MSG_PRE(i) (SU_Q->lmq_len <= (i) || (SUB_QUEUED_MSG16(SU_V(i)) && SU_KEEP(i) == vp_sub_oracle_skip(g_nt, g_t0, g_t1, g_t2, g_r, SU_V(i)->m_body.ch_ptr, SU_V(i)->m_body.ch_len)))
#define SU_MSG_ASSIGNS(i) __CPROVER_assigns(*SU_V(i)) __CPROVER_frees(SU_V(i), SU_V(i)->m_body.ch_buf)
/* old entry i: kept in order, or released exactly once */
#define SU_MSG_POST(i)                                                                                  \
	(SU_OLDLEN <= (i) || (SU_KEEP(i) ? (SU_V(SU_RANK(i)) == OLD(SU_V(i)) && !__CPROVER_was_freed(OLD(SU_V(i))) && OLD(SU_V(i))->m_refcnt.v == OLD(SU_V(i)->m_refcnt.v)) \
	                                 : (OLD(SU_V(i)->m_refcnt.v) == 1 ? __CPROVER_was_freed(OLD(SU_V(i))) : (!__CPROVER_was_freed(OLD(SU_V(i))) && OLD(SU_V(i))->m_refcnt.v == OLD(SU_V(i)->m_refcnt.v) - 1))))
static nng_err sub0_ctx_unsubscribe(sub0_ctx *ctx, const void *buf, size_t sz)
__CPROVER_requires(ctx == SU_C && VP_NO_LOCK_HELD && SUB_TOPICS_ARE(ctx, g_nt, g_t0, g_t1, g_t2))
__CPROVER_requires(sz == 0 || __CPROVER_is_fresh(buf, sz))
/* BOUND of this unit: ring position 0 (every ring position is covered by modules/lmq) */
__CPROVER_requires(SUB_LMQ_PRE(SU_Q) && SU_Q->lmq_get == 0 && SU_Q->lmq_len <= SU_MAXQ && SUB_POLL_INV)
/* ghost equations: which topic goes, and which queued messages still match what remains */
__CPROVER_requires(g_r == vp_sub_find(g_nt, g_t0, g_t1, g_t2, (const uint8_t *) buf, sz))
__CPROVER_requires(SU_MSG_PRE(0) && SU_MSG_PRE(1) && SU_MSG_PRE(2) && SU_MSG_PRE(3))
__CPROVER_assigns(ctx->topics.ll_head, g_t0->node, g_t1->node, g_t2->node, SU_Q->lmq_put, SU_Q->lmq_get, SU_Q->lmq_len, __CPROVER_object_whole(SU_Q->lmq_msgs), VP_PROTO_GHOST_LIST, VP_SYNC_GHOSTS, g_free_calls)
SU_MSG_ASSIGNS(0) SU_MSG_ASSIGNS(1) SU_MSG_ASSIGNS(2) SU_MSG_ASSIGNS(3)
__CPROVER_frees(g_t0, g_t0->buf, g_t1, g_t1->buf, g_t2, g_t2->buf)
__CPROVER_ensures(VP_NO_LOCK_HELD && LMQ_WF_SCALAR(SU_Q))
/* no such subscription: NNG_ENOENT, nothing changes */
__CPROVER_ensures(g_r >= g_nt ==> (RV == NNG_ENOENT && SUB_TOPICS_ARE(ctx, g_nt, g_t0, g_t1, g_t2) && SU_Q->lmq_len == SU_OLDLEN && SU_Q->lmq_get == OLD(SU_Q->lmq_get) && g_free_calls == OLD(g_free_calls) && g_pollr == OLD(g_pollr)))
/* found: exactly that topic leaves the list (the others keep their order) and is released with its bytes */
__CPROVER_ensures(g_r < g_nt ==> RV == NNG_OK)
__CPROVER_ensures((g_r < g_nt && g_r == 0) ==> (__CPROVER_was_freed(g_t0) && (OLD(g_t0->len) == 0 || __CPROVER_was_freed(OLD(g_t0->buf))) && !__CPROVER_was_freed(g_t1) && !__CPROVER_was_freed(g_t2)))
__CPROVER_ensures((g_r < g_nt && g_r == 1) ==> (__CPROVER_was_freed(g_t1) && (OLD(g_t1->len) == 0 || __CPROVER_was_freed(OLD(g_t1->buf))) && !__CPROVER_was_freed(g_t0) && !__CPROVER_was_freed(g_t2)))
__CPROVER_ensures((g_r < g_nt && g_r == 2) ==> (__CPROVER_was_freed(g_t2) && (OLD(g_t2->len) == 0 || __CPROVER_was_freed(OLD(g_t2->buf))) && !__CPROVER_was_freed(g_t0) && !__CPROVER_was_freed(g_t1)))
__CPROVER_ensures((g_r < g_nt && g_r == 0) ==> SUB_TOPICS_ARE(ctx, g_nt - 1, g_t1, g_t2, g_t2))
__CPROVER_ensures((g_r < g_nt && g_r == 1) ==> SUB_TOPICS_ARE(ctx, g_nt - 1, g_t0, g_t2, g_t2))
__CPROVER_ensures((g_r < g_nt && g_r == 2) ==> SUB_TOPICS_ARE(ctx, g_nt - 1, g_t0, g_t1, g_t1))
/* the queue is the order-preserving filter of the old queue */
__CPROVER_ensures(g_r < g_nt ==> (SU_Q->lmq_len == SU_RANK(SU_OLDLEN) && SU_MSG_POST(0) && SU_MSG_POST(1) && SU_MSG_POST(2) && SU_MSG_POST(3)))
/* C15 (D8): the receive descriptor mirrors "socket queue non-empty" */
__CPROVER_ensures(SUB_POLL_INV)
;

/* ---- C05: subscribe ---------------------------------------------------------
 * an equal topic is not added twice; otherwise the byte string is appended as
 * the last topic (private copy); allocation failure changes nothing. */
#define SS_NEW ((sub0_topic *) ctx->topics.ll_head.ln_prev)
static nng_err sub0_ctx_subscribe(sub0_ctx *ctx, const void *buf, size_t sz)
__CPROVER_requires(ctx == SU_C && VP_NO_LOCK_HELD && g_nt <= 2 && SUB_TOPICS_ARE(ctx, g_nt, g_t0, g_t1, g_t2))
__CPROVER_requires(sz == 0 || __CPROVER_is_fresh(buf, sz))
__CPROVER_requires(g_r == vp_sub_find(g_nt, g_t0, g_t1, g_t2, (const uint8_t *) buf, sz))
__CPROVER_requires((g_k < sz) ==> g_b == ((const uint8_t *) buf)[g_k])
__CPROVER_assigns(ctx->topics.ll_head, g_t0->node, g_t1->node, g_t2->node, VP_SYNC_GHOSTS, g_free_calls, g_alloc_ok, g_alloc_fail)
__CPROVER_ensures(VP_NO_LOCK_HELD && (RV == NNG_OK || RV == NNG_ENOMEM))
/* already subscribed: success, nothing added */
__CPROVER_ensures(g_r < g_nt ==> (RV == NNG_OK && SUB_TOPICS_ARE(ctx, g_nt, g_t0, g_t1, g_t2) && g_alloc_ok == OLD(g_alloc_ok)))
/* out of memory: nothing changed, nothing leaked */
__CPROVER_ensures(RV == NNG_ENOMEM ==> (g_r >= g_nt && g_alloc_fail > OLD(g_alloc_fail) && SUB_TOPICS_ARE(ctx, g_nt, g_t0, g_t1, g_t2) && g_alloc_ok - OLD(g_alloc_ok) == g_free_calls - OLD(g_free_calls)))
/* new: appended LAST, the others keep their place; its bytes are a private copy of buf */
__CPROVER_ensures((g_r >= g_nt && RV == NNG_OK) ==> (__CPROVER_is_fresh(SS_NEW, sizeof(struct sub0_topic)) && SS_NEW->len == sz && (sz == 0 || __CPROVER_is_fresh(SS_NEW->buf, sz))))
__CPROVER_ensures((g_r >= g_nt && RV == NNG_OK && g_nt == 0) ==> SUB_TOPICS_ARE(ctx, 1, SS_NEW, SS_NEW, SS_NEW))
__CPROVER_ensures((g_r >= g_nt && RV == NNG_OK && g_nt == 1) ==> SUB_TOPICS_ARE(ctx, 2, g_t0, SS_NEW, SS_NEW))
__CPROVER_ensures((g_r >= g_nt && RV == NNG_OK && g_nt == 2) ==> SUB_TOPICS_ARE(ctx, 3, g_t0, g_t1, SS_NEW))
__CPROVER_ensures((g_r >= g_nt && RV == NNG_OK && g_k < sz) ==> ((const uint8_t *) SS_NEW->buf)[g_k] == g_b)
;
/* clang-format on */
#endif
