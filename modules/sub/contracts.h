#define RV __CPROVER_return_value
#define OLD(e) __CPROVER_old(e)
size_t      g_nt;
sub0_topic *g_t0, *g_t1, *g_t2;
static bool sub0_matches(sub0_ctx *ctx, uint8_t *body, size_t len)
__CPROVER_requires(__CPROVER_is_fresh(ctx, sizeof(struct sub0_ctx)) 
#if VPV >= 1
&& SUB_TOPICS_PRE(ctx, g_nt, g_t0, g_t1, g_t2)
#else
&& g_nt == 0
#endif
)
#if VPV >= 2
__CPROVER_requires(len == 0 || __CPROVER_is_fresh(body, len))
#else
__CPROVER_requires(len == 0)
#endif
__CPROVER_requires(g_qa_addr == &ctx->recv_queue && g_qb_addr == NULL)
__CPROVER_assigns()
#if VPV >= 3
__CPROVER_ensures(VPE)
#endif
__CPROVER_ensures(g_nt == 0 ==> !RV)
;
