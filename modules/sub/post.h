/* included AFTER the real sources */
#include "modules/sub/env_alloc.h"
#include "include/env_sync.h"
/* the two list functions of env_proto.h become the ghost-queue halves of the dispatchers */
#define nni_list_first vp_aioq_first
#define nni_list_empty vp_aioq_empty
#define VP_PROTO_STUBS 1
#include "include/env_proto.h"
#undef nni_list_first
#undef nni_list_empty
size_t g_nt; sub0_topic *g_t0, *g_t1, *g_t2;
#define VP_LIST_NODES X(g_t0) X(g_t1) X(g_t2)
#include "modules/sub/lists_post.h"
#include "modules/sub/env.h"
