/* included AFTER the real sources */
#include "modules/sub/env_alloc.h"
#include "include/env_sync.h"
/* the two list functions of env_proto.h become the ghost-queue halves of the dispatchers */
#define nni_list_first vp_aioq_first
#define nni_list_empty vp_aioq_empty
#define VP_PROTO_STUBS 1
#include "include/env_proto.h"
#undef nni_list_first
#undef nni_list_empty
#include "modules/sub/lists_post.h"
#include "modules/sub/env.h"
/* ghost names of the skeleton built by the harness (modules/sub/harness.c) */
sub0_sock  *g_s;   /* the socket; its default context is g_s->master */
sub0_pipe  *g_pp;   /* a pipe of the socket */
sub0_ctx   *g_c1;  /* the second context (exists when g_nc == 2) */
size_t      g_nc;  /* number of contexts on the socket's list: 1 or 2 */
size_t      g_nt, g_nu;           /* number of topics of the master / the second context */
sub0_topic *g_t0, *g_t1, *g_t2;   /* topics of the master context, in list order */
sub0_topic *g_u0, *g_u1, *g_u2;   /* topics of the second context */
bool        g_m0, g_m1;           /* ORACLE value for the arriving body, per context (ghost equation) */
#include "modules/sub/oracle.h"
