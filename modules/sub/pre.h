/* included BEFORE the real sources of the sub TU */
#define VP_PROTO_GHOSTS 1
#include "include/env_proto.h"
/* sound over-approximation of memcpy (whole destination object havocked, bytes at the ghost
 * indices g_k / g_hk re-established): the exact model of a symbolic-length copy does not finish */
#define VP_MEMCPY_HAVOC_OBJECT 1
#include "include/env_mem.h"
#include "modules/message/spec.h"
#include "modules/lmq/spec.h"
#include "modules/sub/lists_pre.h"
#include "modules/sub/spec.h"
size_t g_alloc_fail; /* ghost: number of failed nni_alloc/nni_zalloc calls (modules/sub/env_alloc.h) */
