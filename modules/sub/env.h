/* modules/sub/env.h -- environment pieces env_proto.h does not have.
 * ASSUMED models, ghost accounting only. */
#ifndef VP_SUB_ENV_H
#define VP_SUB_ENV_H
/* deferred completions (core/aio.c nni_aio_completions_*): a list of at most
 * four aios; run() completes them, in order of addition, through the
 * nni_aio_finish model of env_proto.h, and must be called without a lock. */
struct vp_cl {
	size_t   n;
	nni_aio *aio[4];
} g_cl;
void nni_aio_completions_init(nni_aio_completions *clp) { *clp = NULL; g_cl.n = 0; }
void
nni_aio_completions_add(nni_aio_completions *clp, nni_aio *aio, nng_err result, size_t count)
{
	(void) clp;
	__CPROVER_assert(g_cl.n < 4, "completions model: at most four deferred completions");
	aio->a_result    = result;
	aio->a_count     = count;
	g_cl.aio[g_cl.n] = aio;
	g_cl.n++;
}
/* per-slot record of what was completed (slot i = i-th added) */
nni_aio *g_cl_fin_aio[4];
nni_msg *g_cl_fin_msg[4];
int      g_cl_fin_rv[4];
size_t   g_cl_fin_count[4];
size_t   g_cl_ran;
void
nni_aio_completions_run(nni_aio_completions *clp)
{
	(void) clp;
	__CPROVER_assert(VP_NO_LOCK_HELD, "completions_run: called without holding a lock");
	for (size_t i = 0; i < 4; i++) {
		if (i < g_cl.n) {
			nni_aio *a        = g_cl.aio[i];
			g_cl_fin_aio[i]   = a;
			g_cl_fin_msg[i]   = a->a_msg;
			g_cl_fin_rv[i]    = (int) a->a_result;
			g_cl_fin_count[i] = a->a_count;
			nni_aio_finish_sync(a, a->a_result, a->a_count);
		}
	}
	g_cl_ran = g_cl.n;
	g_cl.n   = 0;
}
void nng_msg_free(nng_msg *m) { nni_msg_free(m); }
#endif
