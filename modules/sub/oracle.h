/* executable ORACLE of C05 (spec code, not nng code): topic is a prefix of body */
static bool
vp_sub_prefix(const sub0_topic *t, const uint8_t *body, size_t blen)
{
	if (t->len > blen) {
		return (false);
	}
	for (size_t i = 0; i < SUB_MAXTOPIC; i++) {
		if (i < t->len && ((const uint8_t *) t->buf)[i] != body[i]) {
			return (false);
		}
	}
	return (true);
}
static bool
vp_sub_oracle(size_t n, const sub0_topic *t0, const sub0_topic *t1, const sub0_topic *t2, const uint8_t *body, size_t blen)
{
	return ((n > 0 && vp_sub_prefix(t0, body, blen)) || (n > 1 && vp_sub_prefix(t1, body, blen)) ||
	    (n > 2 && vp_sub_prefix(t2, body, blen)));
}
