/* executable ORACLE of C05 (spec code, not nng code): topic is a prefix of body */
static bool
vp_sub_prefix(const sub0_topic *t, const uint8_t *body, size_t blen)
{
	if (t->len > blen) {
		return (false);
	}
	for (size_t i = 0; i < SUB_MAXTOPIC; i++) {
		if (i < t->len && ((const uint8_t *) t->buf)[i] != body[i]) {
			return (false);
		}
	}
	return (true);
}
static bool
vp_sub_oracle(size_t n, const sub0_topic *t0, const sub0_topic *t1, const sub0_topic *t2, const uint8_t *body, size_t blen)
{
	return ((n > 0 && vp_sub_prefix(t0, body, blen)) || (n > 1 && vp_sub_prefix(t1, body, blen)) ||
	    (n > 2 && vp_sub_prefix(t2, body, blen)));
}
/* topic t is exactly the byte string buf[0..sz) */
static bool
vp_topic_eq(const sub0_topic *t, const uint8_t *buf, size_t sz)
{
	if (t->len != sz) {
		return (false);
	}
	for (size_t i = 0; i < SUB_MAXTOPIC; i++) {
		if (i < sz && ((const uint8_t *) t->buf)[i] != buf[i]) {
			return (false);
		}
	}
	return (true);
}
/* index of the first topic equal to buf[0..sz), or 3 if there is none */
static size_t
vp_sub_find(size_t n, const sub0_topic *t0, const sub0_topic *t1, const sub0_topic *t2, const uint8_t *buf, size_t sz)
{
	if (n > 0 && vp_topic_eq(t0, buf, sz)) {
		return (0);
	}
	if (n > 1 && vp_topic_eq(t1, buf, sz)) {
		return (1);
	}
	if (n > 2 && vp_topic_eq(t2, buf, sz)) {
		return (2);
	}
	return (3);
}
/* ORACLE under the topics that remain when topic number skip is taken away */
static bool
vp_sub_oracle_skip(size_t n, const sub0_topic *t0, const sub0_topic *t1, const sub0_topic *t2, size_t skip,
    const uint8_t *body, size_t blen)
{
	return ((n > 0 && skip != 0 && vp_sub_prefix(t0, body, blen)) ||
	    (n > 1 && skip != 1 && vp_sub_prefix(t1, body, blen)) || (n > 2 && skip != 2 && vp_sub_prefix(t2, body, blen)));
}
