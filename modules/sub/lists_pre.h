/* lists_pre.h -- the REAL src/core/list.c compiled under other names
 * (real_list_*), included BEFORE the protocol source.  The protocol code keeps
 * calling nni_list_*; lists_post.h defines those as dispatchers: the (at most
 * two) aio wait lists bound to the ghost queues of env_proto.h go to the ghost
 * model, every other list (pipes, contexts, topics) runs the real list.c code
 * on real nodes.  No nng code is changed. */
#ifndef VP_LISTS_PRE_H
#define VP_LISTS_PRE_H
#define nni_list_init_offset real_list_init_offset
#define nni_list_first real_list_first
#define nni_list_last real_list_last
#define nni_list_append real_list_append
#define nni_list_prepend real_list_prepend
#define nni_list_insert_before real_list_insert_before
#define nni_list_insert_after real_list_insert_after
#define nni_list_next real_list_next
#define nni_list_prev real_list_prev
#define nni_list_remove real_list_remove
#define nni_list_active real_list_active
#define nni_list_empty real_list_empty
#define nni_list_node_active real_list_node_active
#define nni_list_node_remove real_list_node_remove
#include "core/list.c"
#undef nni_list_init_offset
#undef nni_list_first
#undef nni_list_last
#undef nni_list_append
#undef nni_list_prepend
#undef nni_list_insert_before
#undef nni_list_insert_after
#undef nni_list_next
#undef nni_list_prev
#undef nni_list_remove
#undef nni_list_active
#undef nni_list_empty
#undef nni_list_node_active
#undef nni_list_node_remove
#undef NODE
#undef ITEM

/* ---- shape of a real doubly linked list with at most three members ------
 * H  = address of the list head node, n = number of members (ghost scalar),
 * N0..N2 = addresses of the member link nodes.  Precondition form: every link
 * field gets exactly one pointer predicate (scalar guard first). */
#define VP_PTR_IS(p, tgt) __CPROVER_pointer_in_range_dfcc((tgt), (p), (tgt))
#define VP_LINK2(p, c, ta, tb) (((c) && VP_PTR_IS(p, ta)) || (!(c) && VP_PTR_IS(p, tb)))
#define VP_LINK4(p, c0, t0, c1, t1, c2, t2, t3)                           \
	(((c0) && VP_PTR_IS(p, t0)) || (!(c0) && (c1) && VP_PTR_IS(p, t1)) || \
	    (!(c0) && !(c1) && (c2) && VP_PTR_IS(p, t2)) ||                   \
	    (!(c0) && !(c1) && !(c2) && VP_PTR_IS(p, t3)))
/* forward and backward links of list (H; N0, N1, N2)[0..n) */
#define VP_LIST3_LINKS(H, n, N0, N1, N2)                                  \
	(VP_LINK2((H)->ln_next, (n) == 0, (H), (N0)) &&                       \
	    VP_LINK4((H)->ln_prev, (n) == 0, (H), (n) == 1, (N0), (n) == 2, (N1), (N2)) && \
	    ((n) < 1 || (VP_LINK2((N0)->ln_next, (n) == 1, (H), (N1)) && VP_PTR_IS((N0)->ln_prev, (H)))) && \
	    ((n) < 2 || (VP_LINK2((N1)->ln_next, (n) == 2, (H), (N2)) && VP_PTR_IS((N1)->ln_prev, (N0)))) && \
	    ((n) < 3 || (VP_PTR_IS((N2)->ln_next, (H)) && VP_PTR_IS((N2)->ln_prev, (N1)))))
/* the same shape as a plain (postcondition) predicate */
#define VP_LIST3_IS(H, n, N0, N1, N2)                                     \
	((H)->ln_next == ((n) == 0 ? (H) : (N0)) &&                           \
	    (H)->ln_prev == ((n) == 0 ? (H) : (n) == 1 ? (N0) : (n) == 2 ? (N1) : (N2)) && \
	    ((n) < 1 || ((N0)->ln_next == ((n) == 1 ? (H) : (N1)) && (N0)->ln_prev == (H))) && \
	    ((n) < 2 || ((N1)->ln_next == ((n) == 2 ? (H) : (N2)) && (N1)->ln_prev == (N0))) && \
	    ((n) < 3 || ((N2)->ln_next == (H) && (N2)->ln_prev == (N1))))
#endif
