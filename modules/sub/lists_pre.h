/* lists_pre.h -- the REAL src/core/list.c compiled under other names
 * (real_list_*), included BEFORE the protocol source.  The protocol code keeps
 * calling nni_list_*; lists_post.h defines those as dispatchers: the (at most
 * two) aio wait lists bound to the ghost queues of env_proto.h go to the ghost
 * model, every other list (pipes, contexts, topics) runs the real list.c code
 * on real nodes.  No nng code is changed. */
#ifndef VP_LISTS_PRE_H
#define VP_LISTS_PRE_H
#define nni_list_init_offset real_list_init_offset
#define nni_list_first real_list_first
#define nni_list_last real_list_last
#define nni_list_append real_list_append
#define nni_list_prepend real_list_prepend
#define nni_list_insert_before real_list_insert_before
#define nni_list_insert_after real_list_insert_after
#define nni_list_next real_list_next
#define nni_list_prev real_list_prev
#define nni_list_remove real_list_remove
#define nni_list_active real_list_active
#define nni_list_empty real_list_empty
#define nni_list_node_active real_list_node_active
#define nni_list_node_remove real_list_node_remove
#include "core/list.c"
#undef nni_list_init_offset
#undef nni_list_first
#undef nni_list_last
#undef nni_list_append
#undef nni_list_prepend
#undef nni_list_insert_before
#undef nni_list_insert_after
#undef nni_list_next
#undef nni_list_prev
#undef nni_list_remove
#undef nni_list_active
#undef nni_list_empty
#undef nni_list_node_active
#undef nni_list_node_remove
#undef NODE
#undef ITEM

/* ---- shape of a real doubly linked list with at most three members ------
 * H = address of the list head node, n = number of members, N0..N2 =
 * addresses of the member link nodes (plain predicate; the lists themselves
 * are BUILT by the harness with the real list code, see HOWTO) */
#define VP_LIST3_IS(H, n, N0, N1, N2)                                     \
	((H)->ln_next == ((n) == 0 ? (H) : (N0)) &&                           \
	    (H)->ln_prev == ((n) == 0 ? (H) : (n) == 1 ? (N0) : (n) == 2 ? (N1) : (N2)) && \
	    ((n) < 1 || ((N0)->ln_next == ((n) == 1 ? (H) : (N1)) && (N0)->ln_prev == (H))) && \
	    ((n) < 2 || ((N1)->ln_next == ((n) == 2 ? (H) : (N2)) && (N1)->ln_prev == (N0))) && \
	    ((n) < 3 || ((N2)->ln_next == (H) && (N2)->ln_prev == (N1))))
#endif
