#define VP_HAVOC_GHOSTS()                         \
	do {                                      \
		g_k = nondet_size_t(); g_j = nondet_size_t(); g_b = nondet_u8(); \
		g_hk = nondet_size_t(); g_u32 = nondet_u32(); g_hb = nondet_u8(); \
		g_free_calls = nondet_size_t(); g_alloc_ok = nondet_size_t(); g_alloc_fail = nondet_size_t(); \
		__CPROVER_assume(g_free_calls < ((size_t) 1 << 40) && g_alloc_ok < ((size_t) 1 << 40) && g_alloc_fail < ((size_t) 1 << 40)); \
		g_nt = nondet_size_t(); g_t0 = nondet_ptr(); g_t1 = nondet_ptr(); g_t2 = nondet_ptr(); \
		VP_HAVOC_PROTO(); VP_HAVOC_SYNC();    \
	} while (0)
void h_sub0_matches(void) { sub0_ctx *ctx; uint8_t *body; size_t len; VP_HAVOC_GHOSTS(); sub0_matches(ctx, body, len); VP_CANARY(); }
