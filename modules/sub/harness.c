#define VP_HAVOC_GHOSTS()                         \
	do {                                      \
		g_k = nondet_size_t(); g_j = nondet_size_t(); g_b = nondet_u8(); \
		g_hk = nondet_size_t(); g_u32 = nondet_u32(); g_hb = nondet_u8(); \
		g_free_calls = nondet_size_t(); g_alloc_ok = nondet_size_t(); g_alloc_fail = nondet_size_t(); \
		__CPROVER_assume(g_free_calls < ((size_t) 1 << 40) && g_alloc_ok < ((size_t) 1 << 40) && g_alloc_fail < ((size_t) 1 << 40)); \
		g_m0 = nondet_bool(); g_m1 = nondet_bool(); g_r = nondet_size_t(); \
		g_keep0 = nondet_bool(); g_keep1 = nondet_bool(); g_keep2 = nondet_bool(); g_keep3 = nondet_bool(); \
		VP_HAVOC_PROTO(); VP_HAVOC_SYNC();    \
		/* "last seen" pointer records start as NULL (only ever compared); queue heads are made real by VP_AIOQS_PRE; \
		 * an unknown tail is NULL (see VP_AIOQ_OK) */ \
		g_pipe_close_last = NULL; g_pipe_recv_pipe = NULL; g_pipe_recv_aio = NULL; g_pipe_send_pipe = NULL; \
		g_pipe_send_aio = NULL; g_pipe_send_msg = NULL; g_fin_last = NULL; g_fin_last_msg = NULL; g_start_last = NULL; \
		g_qa.head = NULL; g_qa.tail = NULL; g_qb.head = NULL; g_qb.tail = NULL; g_last_app = NULL; \
		g_qa_addr = NULL; g_qb_addr = NULL; g_pollr_addr = NULL; g_pollw_addr = NULL; \
	} while (0)

/* ---- skeleton builders: real objects, real list code, everything else nondet ---- */
/* typed allocation (sizeof(T) keeps the object's struct type: field-sensitive); contents nondeterministic */
/* __CPROVER_allocate: a new heap object that always exists (the harness is not the code under test;
 * the code's own allocations go through nni_alloc, which may fail) */
#define VP_NEW(T) ((T *) __CPROVER_allocate(sizeof(T), 0))
static sub0_topic *vp_mk_topic(nni_list *l, bool on)
{
	sub0_topic *t   = VP_NEW(sub0_topic);
	t->node.ln_next = NULL;
	t->node.ln_prev = NULL;
	__CPROVER_assume(t->len <= SUB_MAXTOPIC);
	t->buf = NULL; /* NNI_ALLOC_STRUCT zeroes; a buffer exists only for len > 0 */
	if (t->len > 0) {
		t->buf = __CPROVER_allocate(t->len, 0);
	}
	if (on) {
		real_list_append(l, t);
	}
	return (t);
}
static void vp_mk_ctx(sub0_ctx *c)
{
	c->sock         = g_s;
	c->node.ln_next = NULL;
	c->node.ln_prev = NULL;
	/* receive queue: a heap ring of SUB_QSLOTS slots, each holding a real message object */
	c->lmq.lmq_msgs = (nng_msg **) __CPROVER_allocate(SUB_QSLOTS * sizeof(nng_msg *), 0);
	c->lmq.lmq_msgs[0] = VP_NEW(struct nng_msg); c->lmq.lmq_msgs[1] = VP_NEW(struct nng_msg);
	c->lmq.lmq_msgs[2] = VP_NEW(struct nng_msg); c->lmq.lmq_msgs[3] = VP_NEW(struct nng_msg);
	c->recv_queue.ll_offset = VP_AIO_OFF; /* nni_aio_list_init */
	real_list_init_offset(&c->topics, offsetof(sub0_topic, node));
	real_list_append(&g_s->contexts, c);
}
/* socket with nc contexts; master has nt topics, the second context nu */
static void vp_mk_sock(size_t nc, size_t nt, size_t nu)
{
	__CPROVER_assume(nc >= 1 && nc <= 2 && nt <= 3 && nu <= 3);
	g_nc = nc; g_nt = nt; g_nu = nu;
	g_s  = VP_NEW(sub0_sock);
	real_list_init_offset(&g_s->contexts, offsetof(sub0_ctx, node));
	vp_mk_ctx(&g_s->master);
	g_t0 = vp_mk_topic(&g_s->master.topics, nt > 0);
	g_t1 = vp_mk_topic(&g_s->master.topics, nt > 1);
	g_t2 = vp_mk_topic(&g_s->master.topics, nt > 2);
	g_qa_addr = &g_s->master.recv_queue;
	g_qb_addr = NULL;
	g_pollr_addr = &g_s->readable;
	g_pollw_addr = NULL;
	g_c1 = NULL; g_u0 = NULL; g_u1 = NULL; g_u2 = NULL;
	if (nc == 2) {
		g_c1 = VP_NEW(sub0_ctx);
		vp_mk_ctx(g_c1);
		g_u0 = vp_mk_topic(&g_c1->topics, nu > 0);
		g_u1 = vp_mk_topic(&g_c1->topics, nu > 1);
		g_u2 = vp_mk_topic(&g_c1->topics, nu > 2);
		g_qb_addr = &g_c1->recv_queue;
	}
	g_pp       = VP_NEW(sub0_pipe);
	g_pp->sub  = g_s;
}

#ifdef SUB_MATCH_C1
void h_sub0_matches(void) { uint8_t *body; size_t len; VP_HAVOC_GHOSTS(); vp_mk_sock(2, nondet_size_t(), nondet_size_t()); sub0_matches(g_c1, body, len); VP_CANARY(); }
#else
void h_sub0_matches(void) { uint8_t *body; size_t len; VP_HAVOC_GHOSTS(); vp_mk_sock(1, nondet_size_t(), 0); sub0_matches(&g_s->master, body, len); VP_CANARY(); }
#endif
#ifndef SUB_NC
#define SUB_NC 1
#endif
void h_sub0_recv_cb(void) { VP_HAVOC_GHOSTS(); vp_mk_sock(SUB_NC, nondet_size_t(), nondet_size_t()); sub0_recv_cb(g_pp); VP_CANARY(); }
void h_sub0_ctx_recv(void) { nni_aio *aio; VP_HAVOC_GHOSTS(); vp_mk_sock(nondet_size_t(), nondet_size_t(), nondet_size_t()); sub0_ctx_recv((g_nc == 2 && nondet_bool()) ? (void *) g_c1 : (void *) &g_s->master, aio); VP_CANARY(); }
void h_sub0_ctx_unsubscribe(void) { const void *buf; size_t sz; VP_HAVOC_GHOSTS(); vp_mk_sock(1, nondet_size_t(), 0); sub0_ctx_unsubscribe(&g_s->master, buf, sz); VP_CANARY(); }
void h_sub0_ctx_subscribe(void) { const void *buf; size_t sz; VP_HAVOC_GHOSTS(); vp_mk_sock(1, nondet_size_t(), 0); sub0_ctx_subscribe(&g_s->master, buf, sz); VP_CANARY(); }
