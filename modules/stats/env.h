/* env.h -- ASSUMED environment of src/core/stats.c (no nng code).
 *   nni_mtx_lock/unlock : one ghost "held" flag per mutex (stats_lock,
 *       stats_val_lock and the two item mutexes the harness hands out);
 *       checks lock discipline (no self-deadlock, no unlock of a free mutex);
 *       single thread of control, no interleaving explored
 *   nni_clock           : strictly increasing ghost clock; records the item
 *       mutexes held at each reading
 *   nni_atomic_*64      : plain loads/stores on the cell
 *   nni_plat_printf     : no output (arguments ignored)
 *   nng_socket_id/...   : text of src/nng.c
 */
#ifndef VP_STATS_ENV_H
#define VP_STATS_ENV_H
#include <stdarg.h>

nni_mtx *g_mx0, *g_mx1; /* item mutexes (real objects made by the harness) */

static int
vp_mtx_ix(nni_mtx *m)
{
	if (m == &stats_lock) {
		return (ST_L_STATS);
	}
	if (m == &stats_val_lock) {
		return (ST_L_VAL);
	}
	if (m == g_mx0) {
		return (ST_L_M0);
	}
	__CPROVER_assert(m == g_mx1, "mutex model: a mutex the model does not know");
	return (ST_L_M1);
}
void
nni_mtx_lock(nni_mtx *m)
{
	int i = vp_mtx_ix(m);
	g_lock_ops++;
	__CPROVER_assert(!g_held[i], "lock: mutex already held by this call chain (self-deadlock)");
	/* lock order of the file: stats_lock, then an item mutex, then stats_val_lock */
	__CPROVER_assert(i != ST_L_STATS || (!g_held[ST_L_VAL] && !g_held[ST_L_M0] && !g_held[ST_L_M1]), "lock order: stats_lock taken under another lock");
	g_held[i] = true;
}
void
nni_mtx_unlock(nni_mtx *m)
{
	int i = vp_mtx_ix(m);
	g_lock_ops++;
	__CPROVER_assert(g_held[i], "unlock of a mutex that is not held");
	g_held[i] = false;
}

nni_time
nni_clock(void)
{
	uint64_t k = g_now - g_clk_base;
	if (k < ST_NCLK) {
		g_clk_m0[k]    = g_held[ST_L_M0];
		g_clk_m1[k]    = g_held[ST_L_M1];
		g_clk_stats[k] = g_held[ST_L_STATS];
	}
	return ((nni_time) g_now++);
}

uint64_t nni_atomic_get64(nni_atomic_u64 *a) { return (a->v); }
void     nni_atomic_set64(nni_atomic_u64 *a, uint64_t v) { a->v = v; }
void     nni_atomic_add64(nni_atomic_u64 *a, uint64_t v) { a->v += v; }
void     nni_atomic_sub64(nni_atomic_u64 *a, uint64_t v) { a->v -= v; }

void
nni_plat_printf(const char *fmt, ...)
{
	(void) fmt;
}
void
nni_panic(const char *fmt, ...)
{
	(void) fmt;
	__CPROVER_assert(0, "nni_panic reached (library aborts the process)");
	__CPROVER_assume(0);
}
/* src/nng.c */
int nng_socket_id(nng_socket s) { return (((int) s.id > 0) ? (int) s.id : -1); }
int nng_dialer_id(nng_dialer d) { return (((int) d.id > 0) ? (int) d.id : -1); }
int nng_listener_id(nng_listener l) { return (((int) l.id > 0) ? (int) l.id : -1); }

#endif
