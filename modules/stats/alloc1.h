/* alloc1.h -- module-local variant of include/env_alloc.h (ASSUMED model of
 * the pluggable allocator).
 *
 * Why a variant: with CBMC's may-fail malloc every returned pointer is the
 * value "failed ? NULL : &block"; the snapshot code then walks lists whose
 * nodes are such values and symbolic execution of the recursive walkers does
 * not finish (measured: > 15 min for a single item).  Here the allocator
 * refuses at most ONE request of the call (C20: "any single memory allocation
 * fails"): either the g_fail_at-th nni_zalloc request (the snapshot nodes; a
 * CONSTANT per unit so that node addresses stay concrete for symbolic
 * execution) or the g_fail_str_at-th nni_alloc request (string copies made by
 * nni_strdup; symbolic, includes "none").
 * Every other request succeeds with a fresh block of exactly the requested
 * size (zeroed for nni_zalloc).  nni_free carries the sized-free obligation
 * of C03 and the ghost counters, as in env_alloc.h.
 */
#ifndef VP_STATS_ALLOC1_H
#define VP_STATS_ALLOC1_H

size_t g_fail_at;     /* index of the nni_zalloc request (snapshot nodes) that is refused; beyond the last: none */
size_t g_alloc_calls; /* non-empty nni_zalloc requests so far */
size_t g_fail_str_at; /* index of the nni_alloc request (string copies) that is refused; beyond the last: none */
size_t g_str_calls;   /* non-empty nni_alloc requests so far */

void *
nni_alloc(size_t sz)
{
	if (sz == 0) {
		return (NULL);
	}
	if (g_str_calls++ == g_fail_str_at) {
		return (NULL);
	}
	g_alloc_ok++;
	return (__CPROVER_allocate(sz, 0));
}

void *
nni_zalloc(size_t sz)
{
	if (sz == 0) {
		return (NULL);
	}
	if (g_alloc_calls++ == g_fail_at) {
		return (NULL);
	}
	g_alloc_ok++;
	return (__CPROVER_allocate(sz, 1));
}

void
nni_free(void *ptr, size_t size)
{
	if (ptr != NULL) {
		g_free_calls++; /* counts releases of real blocks only */
		__CPROVER_assert(__CPROVER_OBJECT_SIZE(ptr) == size,
		    "sized free: nni_free size equals allocation size");
		__CPROVER_assert(__CPROVER_POINTER_OFFSET(ptr) == 0,
		    "sized free: nni_free of block start");
	}
	free(ptr);
}

#endif
