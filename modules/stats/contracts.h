/* Contracts for src/core/stats.c (redeclarations after the definitions). */
#ifndef VP_STATS_CONTRACTS_H
#define VP_STATS_CONTRACTS_H

/* nodes of the new snapshot, named through the list links */
#define SS_R (*statp)
#define SS_NODES ((size_t) 1 + g_nc + g_ng)
#define SS_COPIES (IT_NCOPY(g_it0) + (g_nc >= 1 ? IT_NCOPY(g_it1) : 0) + (g_nc >= 2 ? IT_NCOPY(g_it2) : 0) + (g_ng >= 1 ? IT_NCOPY(g_it3) : 0))

/* ---------------------------------------------------------------------
 * nni_stat_snapshot (behind nng_stats_get): C20 + snapshot consistency + C03
 * ------------------------------------------------------------------- */
#define SNAPSHOT_CONTRACT                                                                                     \
/* the result cell is the harness object g_out (the harness inspects the tree through it) */                   \
__CPROVER_requires(statp == &g_out)                                                 \
__CPROVER_requires(ST_NO_LOCK_HELD && g_nc <= 2 && g_ng <= 1 && (g_nc >= 1 || g_ng == 0))                      \
__CPROVER_requires(g_clk_base == g_now && g_now < ((uint64_t) 1 << 40))                                      \
__CPROVER_assigns(*statp, g_alloc_ok, g_free_calls, g_alloc_calls, g_str_calls, g_now, g_lock_ops, __CPROVER_object_whole(g_held),        \
    __CPROVER_object_whole(g_clk_m0), __CPROVER_object_whole(g_clk_m1), __CPROVER_object_whole(g_clk_stats))  \
__CPROVER_ensures(RV == 0 || RV == NNG_ENOMEM)                                                                \
/* C20: no lock is left held, whatever the outcome */                                                         \
__CPROVER_ensures(ST_NO_LOCK_HELD)                                                                            \
/* C20: failure = the caller's pointer is untouched and every block obtained for the partial                  \
 * snapshot (nodes and string copies) went back to the allocator (sized frees are asserted                    \
 * inside nni_free) */                                                                                        \
__CPROVER_ensures(RV != 0 ==> (*statp == OLD(*statp) &&                                                       \
    g_alloc_ok - OLD(g_alloc_ok) == g_free_calls - OLD(g_free_calls)))                                        \
/* success: a fresh root node that is the snapshot of the root item (the rest of the tree is                  \
 * checked node by node by the harness through the public walkers' links: vp_check_tree) */                   \
__CPROVER_ensures(RV == 0 ==> (__CPROVER_is_fresh(SS_R, sizeof(nni_stat)) && SN_IS(SS_R, g_it0, NULL)))       \
/* C03 bookkeeping on success: exactly the nodes and the owned string copies were allocated,                  \
 * nothing released */                                                                                        \
__CPROVER_ensures(RV == 0 ==> (g_alloc_ok == OLD(g_alloc_ok) + SS_NODES + SS_COPIES && g_free_calls == OLD(g_free_calls)))

int nni_stat_snapshot(nni_stat **statp, nni_stat_item *item)
    /* clang-format off */
__CPROVER_requires(item == g_it0)
SNAPSHOT_CONTRACT
    /* clang-format on */
    ;

int nng_stats_get(nng_stat **statp)
    /* clang-format off */
__CPROVER_requires(g_it0 == &stats_root)
SNAPSHOT_CONTRACT
    /* clang-format on */
    ;

#endif
