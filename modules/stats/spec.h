/* spec.h -- spec macros over the real types of stats.c (included AFTER the
 * sources because struct nng_stat is private to stats.c).  No code. */
#ifndef VP_STATS_SPEC_H
#define VP_STATS_SPEC_H

#define OLD(e) __CPROVER_old(e)
#define RV __CPROVER_return_value

/* the skeleton of registered items built by the harness */
nni_stat *g_out; /* result cell of the snapshot units */
nni_stat_item *g_it0, *g_it1, *g_it2, *g_it3; /* root, child 0, child 1, child of child 0 */

/* ---- strings of at most ST_SCAP (<= 3) bytes ---------------------------- */
#define ST_STRLEN(s) ((s)[0] == 0 ? 0 : (s)[1] == 0 ? 1 : (s)[2] == 0 ? 2 : 3)
#define ST_STREQ(a, b)                                                    \
	((a)[0] == (b)[0] &&                                              \
	    ((a)[0] == 0 ||                                               \
	        ((a)[1] == (b)[1] &&                                      \
	            ((a)[1] == 0 ||                                       \
	                ((a)[2] == (b)[2] &&                              \
	                    ((a)[2] == 0 || ((a)[3] == (b)[3] && (a)[3] == 0)))))))

/* ---- intrusive child list of a snapshot node ---------------------------- */
#define SN_OFF offsetof(nni_stat, s_node)
#define SN_HEAD(st) (&(st)->s_children.ll_head)
#define SN_OF(node) ((nni_stat *) ((char *) (node) - SN_OFF))
#define SN_LIST_OK(st) ((st)->s_children.ll_offset == SN_OFF)
#define SN_EMPTY(st) (SN_LIST_OK(st) && SN_HEAD(st)->ln_next == SN_HEAD(st) && SN_HEAD(st)->ln_prev == SN_HEAD(st))
#define SN_FIRST(st) SN_OF(SN_HEAD(st)->ln_next)
#define SN_NEXT(c) SN_OF((c)->s_node.ln_next)
/* exactly one child c / exactly two children c0, c1 in that order */
#define SN_ONE(st, c) \
	(SN_LIST_OK(st) && SN_HEAD(st)->ln_next == &(c)->s_node && SN_HEAD(st)->ln_prev == &(c)->s_node && \
	    (c)->s_node.ln_next == SN_HEAD(st) && (c)->s_node.ln_prev == SN_HEAD(st))
#define SN_TWO(st, c0, c1) \
	(SN_LIST_OK(st) && SN_HEAD(st)->ln_next == &(c0)->s_node && SN_HEAD(st)->ln_prev == &(c1)->s_node && \
	    (c0)->s_node.ln_prev == SN_HEAD(st) && (c0)->s_node.ln_next == &(c1)->s_node && \
	    (c1)->s_node.ln_prev == &(c0)->s_node && (c1)->s_node.ln_next == SN_HEAD(st))

/* ---- "node n is the snapshot of item it" -------------------------------- */
#define IT_TYPE(it) ((int) (it)->si_info->si_type)
#define IT_ASTR(it) (IT_TYPE(it) == NNG_STAT_STRING && (it)->si_info->si_alloc)
/* number of string copies a snapshot of it allocates */
#define IT_NCOPY(it) ((IT_ASTR(it) && (it)->si_u.sv_string != NULL) ? (size_t) 1 : (size_t) 0)
#define SN_VAL_OK(n, it)                                                                              \
	((IT_TYPE(it) == NNG_STAT_SCOPE || IT_TYPE(it) == NNG_STAT_ID)                                \
	        ? (n)->s_val.sv_id == (it)->si_u.sv_id                                                \
	        : IT_TYPE(it) == NNG_STAT_BOOLEAN                                                     \
	        ? (n)->s_val.sv_bool == (it)->si_u.sv_bool                                            \
	        : (IT_TYPE(it) == NNG_STAT_COUNTER || IT_TYPE(it) == NNG_STAT_LEVEL)                  \
	        ? (n)->s_val.sv_value == ((it)->si_info->si_atomic ? (it)->si_u.sv_atomic.v : (it)->si_u.sv_number) \
	        : IT_TYPE(it) == NNG_STAT_STRING                                                      \
	        ? (!(it)->si_info->si_alloc                                                           \
	                  ? (n)->s_val.sv_string == (it)->si_u.sv_string                              \
	                  : ((it)->si_u.sv_string == NULL                                             \
	                            ? (n)->s_val.sv_string == NULL                                    \
	                            : ((n)->s_val.sv_string != NULL &&                                \
	                                  !__CPROVER_same_object((n)->s_val.sv_string, (it)->si_u.sv_string) && \
	                                  __CPROVER_OBJECT_SIZE((n)->s_val.sv_string) == ST_STRLEN((it)->si_u.sv_string) + 1 && \
	                                  ST_STREQ((n)->s_val.sv_string, (it)->si_u.sv_string))))     \
	        : (n)->s_val.sv_value == 0)
/* sampled under the locks: the clock reading that stamped the node saw the
 * stats lock held, and the item's own mutex if the item asks for one */
#define SN_TS(n) ((uint64_t) (n)->s_timestamp - g_clk_base)
#define SN_LOCKED_OK(n, it)                                                          \
	(SN_TS(n) < ST_NCLK && (uint64_t) (n)->s_timestamp < g_now && g_clk_stats[SN_TS(n)] &&       \
	    (!(it)->si_info->si_lock ||                                              \
	        ((it)->si_mtx == g_mx0 ? g_clk_m0[SN_TS(n)] : g_clk_m1[SN_TS(n)])))
#define SN_IS(n, it, par) \
	((n)->s_item == (it) && (n)->s_info == (it)->si_info && (n)->s_parent == (par) && SN_VAL_OK(n, it) && SN_LOCKED_OK(n, it))

#endif
