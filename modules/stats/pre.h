/* pre.h -- ghosts and spec macros of module stats (no nng code).  Included
 * BEFORE the real sources (src/core/list.c, src/core/strs.c, src/core/stats.c). */
#ifndef VP_STATS_PRE_H
#define VP_STATS_PRE_H

/* strs.c is part of the TU (real nni_strdup / nni_strfree); glibc's ctype
 * macros index a locale table that has no body under CBMC */
#include <ctype.h>
#ifdef VP_CBMC
#undef tolower
#undef toupper
#endif

/* ---- bounds of the harness-built shapes (grade B) ----------------------- */
#ifndef ST_SCAP
#define ST_SCAP 2 /* longest string value / name: ST_SCAP bytes + terminator */
#endif
#define VP_MEM_BYTELOOP 8 /* exact byte-loop memcpy (include/env_mem.h), unwound above ST_SCAP+1 */
#define ST_NCLK 8 /* more clock calls than any shape has nodes */

/* ---- mutex model: one "held" flag per mutex the file can meet ----------- */
#define ST_L_STATS 0 /* stats_lock      */
#define ST_L_VAL 1   /* stats_val_lock  */
#define ST_L_M0 2    /* item mutex g_mx0 */
#define ST_L_M1 3    /* item mutex g_mx1 */
bool   g_held[4];
size_t g_lock_ops;
#define ST_NO_LOCK_HELD (!g_held[0] && !g_held[1] && !g_held[2] && !g_held[3])

/* ---- clock model: strictly increasing; records which item mutexes were
 * held at each reading (stat_update reads the clock right after it copied the
 * value, still under the item's lock) */
uint64_t g_now;      /* next value returned by nni_clock */
uint64_t g_clk_base; /* value of g_now when the call under contract started */
bool     g_clk_m0[ST_NCLK], g_clk_m1[ST_NCLK], g_clk_stats[ST_NCLK];

/* ---- shape ghosts (set by the harness) ---------------------------------- */
size_t g_nc; /* children of the root: 0..2 */
size_t g_ng; /* children of the first child: 0..1 */

#endif
