/* Harnesses of module stats.  The registered-item skeleton (and, for the
 * walkers/free, the snapshot skeleton) is BUILT here from real objects with
 * the real list code; everything else is unconstrained.  Bounds (grade B):
 * root with 0..2 children, the first child with 0..1 child of its own;
 * strings (values, names) of at most ST_SCAP bytes. */
#define VP_NEW(T) ((T *) __CPROVER_allocate(sizeof(T), 0))

#define VP_HAVOC_GHOSTS()                                                                     \
	do {                                                                                  \
		g_k = nondet_size_t(); g_j = nondet_size_t();                                 \
		g_free_calls = nondet_size_t(); g_alloc_ok = nondet_size_t();                 \
		__CPROVER_assume(g_free_calls < ((size_t) 1 << 40) && g_alloc_ok < ((size_t) 1 << 40)); \
		g_now = nondet_u64(); __CPROVER_assume(g_now < ((uint64_t) 1 << 40));         \
		g_clk_base = g_now; g_lock_ops = 0; g_alloc_calls = 0; g_str_calls = 0;                                         \
		g_held[0] = false; g_held[1] = false; g_held[2] = false; g_held[3] = false;   \
		g_mx0 = VP_NEW(nni_mtx); g_mx1 = VP_NEW(nni_mtx);                             \
	} while (0)

/* a string of at most ST_SCAP arbitrary bytes + terminator, in a block of
 * CONSTANT size ST_SCAP+1 (read-only uses: names, descriptions, values that
 * the function under contract never releases) */
static char *
vp_mk_str(void)
{
	char *s    = (char *) __CPROVER_allocate(ST_SCAP + 1, 0);
	s[ST_SCAP] = 0;
	return (s);
}

static nni_stat_info *
vp_mk_info(void)
{
	nni_stat_info *info = VP_NEW(nni_stat_info);
	info->si_name       = vp_mk_str();
	info->si_desc       = vp_mk_str();
	/* "si_alloc: stat string is allocated" (stats.h): only string statistics own storage */
	__CPROVER_assume(!info->si_alloc || info->si_type == NNG_STAT_STRING);
	return (info);
}

/* an unlinked item with arbitrary description and value */
static nni_stat_item *
vp_mk_item(nni_stat_item *it)
{
	if (it == NULL) {
		it = VP_NEW(nni_stat_item);
	}
	it->si_node.ln_next = NULL;
	it->si_node.ln_prev = NULL;
	NNI_LIST_INIT(&it->si_children, nni_stat_item, si_node);
	it->si_info = vp_mk_info();
	it->si_mtx  = nondet_bool() ? g_mx0 : nondet_bool() ? g_mx1 : NULL;
	/* NNI_ASSERT(item->si_mtx != NULL) in stat_update: a locked statistic has its mutex */
	__CPROVER_assume(!it->si_info->si_lock || it->si_mtx != NULL);
	if (it->si_info->si_type == NNG_STAT_STRING) {
		it->si_u.sv_string = nondet_bool() ? NULL : vp_mk_str();
	}
	return (it);
}

/* registered items: root (given or new), g_nc children, g_ng grandchildren under child 0 */
static void
vp_mk_items(nni_stat_item *root, size_t nc, size_t ng)
{
	__CPROVER_assume(nc <= 2 && ng <= 1 && (nc >= 1 || ng == 0));
	g_nc  = nc;
	g_ng  = ng;
	g_it0 = vp_mk_item(root);
	g_it1 = vp_mk_item(NULL);
	g_it2 = vp_mk_item(NULL);
	g_it3 = vp_mk_item(NULL);
	if (nc >= 1) {
		nni_list_append(&g_it0->si_children, g_it1);
	}
	if (nc >= 2) {
		nni_list_append(&g_it0->si_children, g_it2);
	}
	if (ng >= 1) {
		nni_list_append(&g_it1->si_children, g_it3);
	}
}

#ifndef ST_NC
#define ST_NC nondet_size_t()
#endif
#ifndef ST_NG
#define ST_NG nondet_size_t()
#endif

/* Tree check after a successful snapshot: one node per registered item, same
 * shape and order, values copied, sampled under the locks.  Nodes are bound to
 * locals one link at a time (the same predicates written as one nested
 * postcondition expression did not get through symbolic execution). */
static void
vp_check_tree(nni_stat *r)
{
	if (g_nc == 0) {
		__CPROVER_assert(SN_EMPTY(r), "snapshot: root without children");
		return;
	}
	nni_stat *c0 = SN_FIRST(r);
	__CPROVER_assert(SN_IS(c0, g_it1, r), "snapshot: first child is the snapshot of the first registered child");
	if (g_nc == 1) {
		__CPROVER_assert(SN_ONE(r, c0), "snapshot: exactly one child");
	} else {
		nni_stat *c1 = SN_NEXT(c0);
		__CPROVER_assert(SN_TWO(r, c0, c1), "snapshot: exactly two children, registration order");
		__CPROVER_assert(SN_IS(c1, g_it2, r), "snapshot: second child is the snapshot of the second registered child");
		__CPROVER_assert(SN_EMPTY(c1), "snapshot: second child is a leaf");
	}
	if (g_ng == 0) {
		__CPROVER_assert(SN_EMPTY(c0), "snapshot: first child is a leaf");
	} else {
		nni_stat *g = SN_FIRST(c0);
		__CPROVER_assert(SN_ONE(c0, g), "snapshot: first child has exactly one child");
		__CPROVER_assert(SN_IS(g, g_it3, c0), "snapshot: grandchild is the snapshot of the registered grandchild");
		__CPROVER_assert(SN_EMPTY(g), "snapshot: grandchild is a leaf");
	}
}

/* Which allocation request is refused: a CONSTANT per unit for the node
 * allocations (nni_zalloc requests 0 .. nodes-1; -DST_FAIL=n), or any one of the
 * string-copy requests (nni_alloc; symbolic index), or none (ST_FAIL undefined). */
#ifdef ST_FAIL
#define ST_SET_FAIL() (g_fail_at = ST_FAIL, g_fail_str_at = (size_t) -1)
#else
#define ST_SET_FAIL() (g_fail_at = (size_t) -1, g_fail_str_at = nondet_size_t())
#endif
#define ST_SPLIT_FAIL(call)                     \
	do {                                    \
		ST_SET_FAIL();                  \
		if (call == 0) {                \
			vp_check_tree(g_out);     \
		}                               \
	} while (0)

void h_snapshot(void) { VP_HAVOC_GHOSTS(); g_out = (nni_stat *) nondet_ptr(); vp_mk_items(NULL, ST_NC, ST_NG); ST_SPLIT_FAIL(nni_stat_snapshot(&g_out, g_it0)); VP_CANARY(); }
/* the public entry: the root is the file's static stats_root */
void h_stats_get(void) { VP_HAVOC_GHOSTS(); g_out = (nni_stat *) nondet_ptr(); vp_mk_items(&stats_root, ST_NC, ST_NG); ST_SPLIT_FAIL(nng_stats_get(&g_out)); VP_CANARY(); }
