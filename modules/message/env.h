/* Environment of message.c.  ASSUMED: atomics behave as sequential integer
 * operations (no interleaving is explored); nni_panic does not return. */
void nni_atomic_init(nni_atomic_int *v) { v->v = 0; }
void nni_atomic_set(nni_atomic_int *v, int i) { v->v = i; }
int  nni_atomic_get(nni_atomic_int *v) { return (v->v); }
void nni_atomic_inc(nni_atomic_int *v) { v->v++; }
int  nni_atomic_dec_nv(nni_atomic_int *v) { v->v--; return (v->v); }
void
nni_panic(const char *fmt, ...)
{
	(void) fmt;
	__CPROVER_assert(0, "nni_panic reached (library aborts the process)");
	__CPROVER_assume(0);
}
