/* Spec macros for src/core/message.c (no code).
 *
 * Abstract view of a message: two byte strings
 *     H = ((uint8_t *) m_header_buf)[0 .. m_header_len)
 *     B = m_body.ch_ptr[0 .. m_body.ch_len)
 * Universally quantified content facts use the ghost pairs (g_k, g_b) for the
 * body and (g_hk, g_hb) for the header: a precondition ties g_b to the
 * pre-state byte at index g_k (an equation on a free ghost, not a
 * restriction of the input), postconditions say where that byte is afterwards.
 */
#ifndef VP_MESSAGE_SPEC_H
#define VP_MESSAGE_SPEC_H

/* Buffer sizes are NOT capped by these contracts: __CPROVER_is_fresh itself
 * limits an object to CBMC's maximum allocation size (2^55 bytes with the
 * default 8 object bits), and the malloc model fails above it. */
#define MSG_HDRCAP ((size_t) 64)
/* Size-capped variants (grade Pb): a unit may be built with -DMSG_CAPLIMIT=N;
 * its result is then reported as bounded (buffer capacity <= N), never as
 * proof. */
#ifdef MSG_CAPLIMIT
#define MSG_CAP_OK(c) ((c) <= (size_t) MSG_CAPLIMIT)
#else
#define MSG_CAP_OK(c) (1)
#endif

#define CH_OFF(ch) ((size_t) __CPROVER_POINTER_OFFSET((ch)->ch_ptr))

#define CH_EMPTY(ch)                                                      \
	((ch)->ch_cap == 0 && (ch)->ch_buf == NULL && (ch)->ch_ptr == NULL && \
	    (ch)->ch_len == 0)

/* representation invariant of an allocated chunk, scalar part:
 * data pointer strictly inside the buffer ("trim-to-empty pointer rule"),
 * data fits between the pointer and the end */
#define CH_FULL_SCALAR(ch)                                                \
	((ch)->ch_cap > 0 && CH_OFF(ch) < (ch)->ch_cap &&                                      \
	    (ch)->ch_len <= (ch)->ch_cap - CH_OFF(ch))

/* precondition form (pointer shape + scalar part) */
#define CH_FULL_PRE(ch)                                                   \
	((ch)->ch_cap > 0 && MSG_CAP_OK((ch)->ch_cap) &&                      \
	    __CPROVER_is_fresh((ch)->ch_buf, (ch)->ch_cap) &&                 \
	    __CPROVER_pointer_in_range_dfcc(                                  \
	        (ch)->ch_buf, (ch)->ch_ptr, (ch)->ch_buf + (ch)->ch_cap) &&   \
	    CH_FULL_SCALAR(ch))

/* postcondition form: the same buffer as before (still allocated), or a
 * freshly allocated one with the old one released */
#define CH_FULL_POST(ch)                                                  \
	((ch)->ch_cap > 0 &&                                                  \
	    ((__CPROVER_old((ch)->ch_cap) > 0 &&                              \
	         !__CPROVER_was_freed(__CPROVER_old((ch)->ch_buf)) &&         \
	         (ch)->ch_cap == __CPROVER_old((ch)->ch_cap) &&               \
	         VP_SAME_PTR((ch)->ch_buf)) ||                                \
	        (__CPROVER_is_fresh((ch)->ch_buf, (ch)->ch_cap) &&            \
	            (__CPROVER_old((ch)->ch_cap) > 0 ==>                      \
	                __CPROVER_was_freed(__CPROVER_old((ch)->ch_buf))))) && \
	    __CPROVER_pointer_in_range_dfcc(                                  \
	        (ch)->ch_buf, (ch)->ch_ptr, (ch)->ch_buf + (ch)->ch_cap) &&   \
	    CH_FULL_SCALAR(ch))

/* postcondition form for operations that never reallocate */
#define CH_SAMEBUF_POST(ch)                                               \
	((ch)->ch_buf == __CPROVER_old((ch)->ch_buf) &&                       \
	    (ch)->ch_cap == __CPROVER_old((ch)->ch_cap) &&                    \
	    __CPROVER_pointer_in_range_dfcc(                                  \
	        (ch)->ch_buf, (ch)->ch_ptr, (ch)->ch_buf + (ch)->ch_cap) &&   \
	    CH_FULL_SCALAR(ch))

#define CH_UNCHANGED(ch)                                                  \
	((ch)->ch_cap == __CPROVER_old((ch)->ch_cap) &&                       \
	    (ch)->ch_len == __CPROVER_old((ch)->ch_len) &&                    \
	    VP_SAME_PTR((ch)->ch_buf) && VP_SAME_PTR((ch)->ch_ptr))

/* ghost equation: g_b is the pre-state body byte at index g_k */
#define CH_GHOST_PRE(ch)                                                  \
	((g_k < (ch)->ch_len) ==> (g_b == (ch)->ch_ptr[g_k]))
/* the byte that was at g_k is now at index (idx) */
#define CH_BYTE_AT(ch, idx) ((ch)->ch_ptr[(idx)] == g_b)

#define HDR(m) ((uint8_t *) (m)->m_header_buf)
#define HDR_GHOST_PRE(m)                                                  \
	((g_hk < (m)->m_header_len) ==> (g_hb == HDR(m)[g_hk]))

#define MSG_PRE(m)                                                        \
	(__CPROVER_is_fresh((m), sizeof(struct nng_msg)) &&                   \
	    (m)->m_header_len <= MSG_HDRCAP && CH_FULL_PRE(&(m)->m_body) &&   \
	    (m)->m_refcnt.v >= 1)

#define BE16(p) ((uint16_t) (((uint16_t) (p)[0] << 8) | (uint16_t) (p)[1]))
#define BE32(p)                                                           \
	(((uint32_t) (p)[0] << 24) | ((uint32_t) (p)[1] << 16) |              \
	    ((uint32_t) (p)[2] << 8) | (uint32_t) (p)[3])
#define BE64(p)                                                           \
	(((uint64_t) BE32(p) << 32) | (uint64_t) BE32((p) + 4))

/* pre-state snapshot (locals woven at function entry, read by vp/replay.py) */
#define VP_SNAP_CH(c)                                                     \
	size_t vp_in_cap = (c)->ch_cap, vp_in_len = (c)->ch_len,              \
	       vp_in_off = (c)->ch_cap ? (size_t) __CPROVER_POINTER_OFFSET((c)->ch_ptr) : 0

#define OLD_BE16(p) ((uint16_t) (((uint16_t) __CPROVER_old((p)[0]) << 8) | (uint16_t) __CPROVER_old((p)[1])))
#define OLD_BE32(p)                                                       \
	(((uint32_t) __CPROVER_old((p)[0]) << 24) |                           \
	    ((uint32_t) __CPROVER_old((p)[1]) << 16) |                        \
	    ((uint32_t) __CPROVER_old((p)[2]) << 8) |                         \
	    (uint32_t) __CPROVER_old((p)[3]))

#endif
