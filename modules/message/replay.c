/* Native replay driver for message.c: rebuilds the chunk state of a CBMC
 * counterexample (capacity, data offset, length, arguments), runs the REAL
 * function under ASan/UBSan and checks the byte-string semantics of C17. */
#include "vp_native.h"
#include "core/message.c" /* the real file, via -I/repo/src */

void *nni_alloc(size_t sz) { return (sz > 0 ? malloc(sz) : NULL); }
void *nni_zalloc(size_t sz) { return (sz > 0 ? calloc(1, sz) : NULL); }
void  nni_free(void *p, size_t sz) { (void) sz; free(p); }
void  nni_atomic_init(nni_atomic_int *v) { v->v = 0; }
void  nni_atomic_set(nni_atomic_int *v, int i) { v->v = i; }
int   nni_atomic_get(nni_atomic_int *v) { return (v->v); }
void  nni_atomic_inc(nni_atomic_int *v) { v->v++; }
int   nni_atomic_dec_nv(nni_atomic_int *v) { v->v--; return (v->v); }
void  nni_panic(const char *fmt, ...) { printf("REPLAY-FAIL: nni_panic(\"%s\") reached: process would abort\n", fmt); printf("REPLAY-RESULT: reproduced (panic)\n"); exit(1); }

#define BYTE(i) ((uint8_t) (0x41 + ((i) % 53)))
#define DATA(i) ((uint8_t) (0x80 + ((i) % 101)))
#define LIMIT ((size_t) 1 << 24)

static int wf(nni_chunk *c)
{
	return (c->ch_cap > 0 && c->ch_buf != NULL && c->ch_ptr >= c->ch_buf && c->ch_ptr < c->ch_buf + c->ch_cap &&
	    c->ch_len <= c->ch_cap - (size_t) (c->ch_ptr - c->ch_buf));
}

int
main(int argc, char **argv)
{
	if (argc < 3) {
		fprintf(stderr, "usage: replay <inputs> <function>\n");
		return 2;
	}
	vp_load(argv[1]);
	const char *fn = argv[2];
	if (strcmp(fn, "nni_msg_alloc") == 0) {
		size_t   sz = vp_u64("vp_arg_sz", 0);
		nni_msg *m  = NULL;
		int      rv = nni_msg_alloc(&m, sz);
		printf("nni_msg_alloc(sz=%zu) -> %d\n", sz, rv);
		VP_EXPECT(rv == 0 || rv == NNG_ENOMEM);
		if (rv == 0) {
			VP_EXPECT(wf(&m->m_body) && m->m_body.ch_len == sz);
			nni_msg_free(m);
		}
		VP_DONE();
	}
	nni_chunk c;
	size_t    cap = vp_u64("vp_in_cap", 64), off = vp_u64("vp_in_off", 0), len = vp_u64("vp_in_len", 0);
	if (cap > LIMIT) {
		printf("REPLAY-RESULT: skipped (capacity %zu too large to build natively)\n", cap);
		return 3;
	}
	if (cap == 0) {
		memset(&c, 0, sizeof(c));
	} else {
		if (!(off < cap && len <= cap - off)) {
			printf("REPLAY-RESULT: skipped (counterexample pre-state is not a well-formed chunk)\n");
			return 3;
		}
		c.ch_cap = cap;
		c.ch_buf = malloc(cap);
		c.ch_ptr = c.ch_buf + off;
		c.ch_len = len;
		for (size_t i = 0; i < len; i++)
			c.ch_ptr[i] = BYTE(i);
	}
	size_t n = vp_u64("vp_arg_len", 0);
	if (strcmp(fn, "nni_chunk_insert") == 0 || strcmp(fn, "nni_chunk_append") == 0) {
		int      ins  = strcmp(fn, "nni_chunk_insert") == 0;
		uint8_t *data = NULL;
		if (vp_u64("vp_arg_data", 1) && n <= LIMIT) {
			data = malloc(n ? n : 1);
			for (size_t i = 0; i < n; i++)
				data[i] = DATA(i);
		}
		int rv = ins ? nni_chunk_insert(&c, data, n) : nni_chunk_append(&c, data, n);
		printf("%s(cap=%zu off=%zu len=%zu, n=%zu) -> %d; now cap=%zu off=%zu len=%zu\n", fn, cap, off, len, n, rv,
		    c.ch_cap, (size_t) (c.ch_ptr - c.ch_buf), c.ch_len);
		VP_EXPECT(rv == 0 || rv == NNG_ENOMEM);
		VP_EXPECT(wf(&c));
		if (rv == 0) {
			VP_EXPECT(n <= SIZE_MAX - len && c.ch_len == len + n);
			if (wf(&c) && c.ch_len == len + n && c.ch_len <= LIMIT) {
				size_t bad_old = 0, bad_new = 0;
				for (size_t i = 0; i < len; i++)
					bad_old += c.ch_ptr[ins ? i + n : i] != BYTE(i);
				for (size_t i = 0; data && i < n; i++)
					bad_new += c.ch_ptr[ins ? i : len + i] != DATA(i);
				if (bad_old || bad_new)
					printf("old bytes wrong: %zu of %zu, new bytes wrong: %zu of %zu\n", bad_old, len, bad_new, n);
				VP_EXPECT(bad_old == 0);
				VP_EXPECT(bad_new == 0);
			}
		} else {
			VP_EXPECT(c.ch_len == len);
		}
		free(data);
	} else if (strcmp(fn, "nni_chunk_trim") == 0 || strcmp(fn, "nni_chunk_chop") == 0) {
		int tr = strcmp(fn, "nni_chunk_trim") == 0;
		int rv = tr ? nni_chunk_trim(&c, n) : nni_chunk_chop(&c, n);
		VP_EXPECT((rv == NNG_EINVAL) == (n > len));
		VP_EXPECT(wf(&c));
		VP_EXPECT(c.ch_len == (rv ? len : len - n));
		for (size_t i = 0; wf(&c) && i < c.ch_len; i++)
			VP_EXPECT(c.ch_ptr[i] == BYTE((rv == 0 && tr) ? i + n : i));
	} else if (strcmp(fn, "nni_chunk_grow") == 0 || strcmp(fn, "nni_msg_realloc") == 0) {
		size_t a = vp_u64("vp_arg_newsz", vp_u64("vp_arg_sz", 0)), b = vp_u64("vp_arg_headwanted", 0);
		int    rv;
		if (strcmp(fn, "nni_chunk_grow") == 0) {
			rv = nni_chunk_grow(&c, a, b);
			printf("nni_chunk_grow(cap=%zu off=%zu len=%zu, newsz=%zu, headwanted=%zu) -> %d; now cap=%zu off=%zu len=%zu\n",
			    cap, off, len, a, b, rv, c.ch_cap, c.ch_buf ? (size_t) (c.ch_ptr - c.ch_buf) : 0, c.ch_len);
			if (rv == 0) {
				VP_EXPECT(wf(&c) && c.ch_len == len);
				VP_EXPECT(c.ch_cap - (size_t) (c.ch_ptr - c.ch_buf) >= a);
				VP_EXPECT((size_t) (c.ch_ptr - c.ch_buf) >= b);
			}
		} else {
			nni_msg m;
			memset(&m, 0, sizeof(m));
			m.m_body = c;
			rv       = nni_msg_realloc(&m, a);
			c        = m.m_body;
			printf("nni_msg_realloc(cap=%zu off=%zu len=%zu, sz=%zu) -> %d; now cap=%zu len=%zu capacity=%zu\n", cap,
			    off, len, a, rv, c.ch_cap, c.ch_len, nni_msg_capacity(&m));
			if (rv == 0) {
				VP_EXPECT(c.ch_len == a);
			}
			VP_EXPECT(wf(&c));
		}
		VP_EXPECT(rv == 0 || rv == NNG_ENOMEM);
		for (size_t i = 0; wf(&c) && i < len && i < c.ch_len; i++)
			VP_EXPECT(c.ch_ptr[i] == BYTE(i));
	} else {
		printf("REPLAY-RESULT: skipped (no native driver for %s)\n", fn);
		return 3;
	}
	free(c.ch_buf);
	VP_DONE();
}
