/* Native replay driver for message.c: rebuilds the message / chunk state of a CBMC
 * counterexample (capacity, data offset, length, header bytes, reference count,
 * arguments; entry snapshots vp_in_* / vp_in.* / vp_arg_*), runs the REAL function under
 * ASan/UBSan and checks the byte-string semantics of C17 and the ownership rules of C03
 * (every block released exactly once, with its allocation size; nothing leaked).
 *
 * Body bytes are a fixed pattern (BYTE(i)) unless the snapshot carries them (the first
 * four bytes for the *_trim_u32 functions); header bytes are those of the counterexample.
 * Functions that allocate are run once with every allocation succeeding and then again
 * with the 1st, 2nd, 3rd allocation failing (the CBMC allocator model may fail). */
#include "vp_native.h"
#include "core/message.c" /* the real file, via -I/repo/src */

/* ---- allocator with bookkeeping: sized free, double free, leak accounting, failure injection */
#define VP_NBLK 256
static struct {
	void  *p;
	size_t sz;
	int    live;
} vp_blk[VP_NBLK];
static int vp_nblk, vp_alloc_calls, vp_alloc_fail_at, vp_free_calls;

static void
vp_reg(void *p, size_t sz)
{
	if (p != NULL && vp_nblk < VP_NBLK) {
		vp_blk[vp_nblk].p    = p;
		vp_blk[vp_nblk].sz   = sz;
		vp_blk[vp_nblk].live = 1;
		vp_nblk++;
	}
}
static int
vp_live(const void *p)
{
	for (int i = vp_nblk - 1; i >= 0; i--)
		if (vp_blk[i].p == p)
			return (vp_blk[i].live);
	return (0);
}
static int
vp_live_count(void)
{
	int n = 0;
	for (int i = 0; i < vp_nblk; i++)
		n += vp_blk[i].live;
	return (n);
}
static void
vp_release_all(void)
{
	for (int i = 0; i < vp_nblk; i++)
		if (vp_blk[i].live)
			free(vp_blk[i].p);
	vp_nblk = 0;
}
static void *
vp_alloc(size_t sz, int zero)
{
	void *p;
	if (sz == 0)
		return (NULL);
	vp_alloc_calls++;
	if (vp_alloc_fail_at != 0 && vp_alloc_calls == vp_alloc_fail_at)
		return (NULL);
	if (sz > ((size_t) 1 << 32))
		return (NULL); /* out of memory for real */
	p = zero ? calloc(1, sz) : malloc(sz);
	vp_reg(p, sz);
	return (p);
}
void *nni_alloc(size_t sz) { return (vp_alloc(sz, 0)); }
void *nni_zalloc(size_t sz) { return (vp_alloc(sz, 1)); }
void
nni_free(void *p, size_t sz)
{
	if (p == NULL)
		return;
	vp_free_calls++;
	for (int i = vp_nblk - 1; i >= 0; i--) {
		if (vp_blk[i].p == p && vp_blk[i].live) {
			if (vp_blk[i].sz != sz) {
				printf("nni_free(%p, %zu): block was allocated with %zu bytes\n", p, sz, vp_blk[i].sz);
				VP_EXPECT(!"nni_free size == allocation size");
			}
			vp_blk[i].live = 0;
			free(p);
			return;
		}
	}
	printf("nni_free(%p, %zu): not a live block (double free or foreign pointer)\n", p, sz);
	VP_EXPECT(!"nni_free of a live block");
	free(p); /* let ASan say what it is */
}
void  nni_atomic_init(nni_atomic_int *v) { v->v = 0; }
void  nni_atomic_set(nni_atomic_int *v, int i) { v->v = i; }
int   nni_atomic_get(nni_atomic_int *v) { return (v->v); }
void  nni_atomic_inc(nni_atomic_int *v) { v->v++; }
int   nni_atomic_dec_nv(nni_atomic_int *v) { v->v--; return (v->v); }
void  nni_panic(const char *fmt, ...) { printf("REPLAY-FAIL: nni_panic(\"%s\") reached: process would abort\n", fmt); printf("REPLAY-RESULT: reproduced (panic)\n"); exit(1); }

#define BYTE(i) ((uint8_t) (0x41 + ((i) % 53)))
#define DATA(i) ((uint8_t) (0x80 + ((i) % 101)))
#define LIMIT ((size_t) 1 << 24)
#define HCAP ((size_t) 64)
#define HB(m) ((uint8_t *) (m)->m_header_buf)
#define NBE32(p) (((uint32_t) (p)[0] << 24) | ((uint32_t) (p)[1] << 16) | ((uint32_t) (p)[2] << 8) | (uint32_t) (p)[3])
#define IS(name) (strcmp(fn, name) == 0)
#define SKIP(...)                                  \
	do {                                           \
		printf("REPLAY-RESULT: skipped (");        \
		printf(__VA_ARGS__);                       \
		printf(")\n");                             \
		return (3);                                \
	} while (0)

static int wf(nni_chunk *c)
{
	return (c->ch_cap > 0 && c->ch_buf != NULL && c->ch_ptr >= c->ch_buf && c->ch_ptr < c->ch_buf + c->ch_cap &&
	    c->ch_len <= c->ch_cap - (size_t) (c->ch_ptr - c->ch_buf));
}
static size_t offs(nni_chunk *c) { return (c->ch_buf ? (size_t) (c->ch_ptr - c->ch_buf) : 0); }

/* body byte i of the pre-state */
static uint8_t
body0(size_t i)
{
	if (i < 4) {
		char k[16];
		snprintf(k, sizeof(k), "vp_in_b%zu", i);
		if (vp_has(k))
			return ((uint8_t) vp_u64(k, 0));
	}
	return (BYTE(i));
}

/* returns 0, or 3 when the state cannot / need not be built */
static int
build_chunk(nni_chunk *c, size_t cap, size_t off, size_t len)
{
	if (cap > LIMIT)
		SKIP("capacity %zu too large to build natively", cap);
	memset(c, 0, sizeof(*c));
	if (cap == 0)
		return (0);
	if (!(off < cap && len <= cap - off))
		SKIP("counterexample pre-state is not a well-formed chunk");
	c->ch_cap = cap;
	c->ch_buf = malloc(cap);
	vp_reg(c->ch_buf, cap);
	memset(c->ch_buf, 0xEE, cap);
	c->ch_ptr = c->ch_buf + off;
	c->ch_len = len;
	for (size_t i = 0; i < len; i++)
		c->ch_ptr[i] = body0(i);
	return (0);
}

static uint8_t  h0[64]; /* header bytes of the pre-state */
static size_t   hlen0, cap0, off0, len0;
static int      ref0;
static uint32_t pipe0;

/* message of the counterexample (snapshot `vp_in` = *m, vp_in_moff); body: the snapshot
 * geometry, or (header-only units, body unconstrained there) a plain 64-byte buffer */
#define B_BODY 1   /* body geometry is part of the precondition */
#define B_NOREF 2  /* the contract does not require refcnt >= 1 */
#define B_NOHLEN 4 /* the contract does not require header_len <= 64 */
static int
build_msg(nni_msg **mp, int flags)
{
	int with_body = flags & B_BODY;
	nni_msg *m;
	hlen0 = vp_u64("vp_in.m_header_len", 0);
	ref0  = (int) (int32_t) vp_u64("vp_in.m_refcnt.v", 1);
	pipe0 = (uint32_t) vp_u64("vp_in.m_pipe", 0);
	if (!vp_has("vp_in.m_header_len") && !(with_body && vp_has("vp_in_cap")))
		SKIP("trace has no entry snapshot");
	if ((hlen0 > HCAP && !(flags & B_NOHLEN)) || (ref0 < 1 && !(flags & B_NOREF)))
		SKIP("counterexample pre-state is not a well-formed message");
	/* (vp_in_cap/off/len: inputs recorded with the older chunk-only snapshot of nni_msg_realloc) */
	cap0 = with_body ? vp_u64("vp_in.m_body.ch_cap", vp_u64("vp_in_cap", 64)) : 64;
	off0 = with_body ? vp_u64("vp_in_moff", vp_u64("vp_in_off", 0)) : 32;
	len0 = with_body ? vp_u64("vp_in.m_body.ch_len", vp_u64("vp_in_len", 0)) : 0;
	if (with_body && cap0 == 0)
		SKIP("counterexample pre-state has no body buffer");
	m = malloc(sizeof(*m));
	memset(m, 0, sizeof(*m));
	if (build_chunk(&m->m_body, cap0, off0, len0) != 0) {
		free(m);
		return (3);
	}
	vp_reg(m, sizeof(*m));
	for (unsigned i = 0; i < 16; i++) {
		uint32_t dflt = 0;
		uint8_t  pat[4] = { BYTE(4 * i + 7), BYTE(4 * i + 8), BYTE(4 * i + 9), BYTE(4 * i + 10) };
		memcpy(&dflt, pat, 4);
		m->m_header_buf[i] = (uint32_t) vp_fmt(dflt, "vp_in.m_header_buf[%u]", i);
	}
	memcpy(h0, m->m_header_buf, 64);
	m->m_header_len = hlen0;
	m->m_pipe       = pipe0;
	m->m_refcnt.v   = ref0;
	*mp             = m;
	return (0);
}

static void
showhdr(const char *tag, const uint8_t *h, size_t n)
{
	printf("%s %zu bytes:", tag, n);
	for (size_t i = 0; i < n && i < 64; i++)
		printf(" %02x", h[i]);
	printf("\n");
}

static uint8_t *
mkdata(size_t n, size_t atleast)
{
	size_t   sz = n > LIMIT ? atleast : (n > atleast ? n : atleast);
	uint8_t *d  = malloc(sz ? sz : 1);
	for (size_t i = 0; i < sz; i++)
		d[i] = DATA(i);
	return (d);
}

/* append / insert oracle on a chunk whose pre-state was (len, bytes body0) */
static void
check_edit(nni_chunk *c, int ins, int rv, size_t len, size_t n, int have_data)
{
	VP_EXPECT(rv == 0 || rv == NNG_ENOMEM);
	VP_EXPECT(wf(c));
	if (rv == 0) {
		VP_EXPECT(n <= SIZE_MAX - len && c->ch_len == len + n);
		if (wf(c) && c->ch_len == len + n && c->ch_len <= LIMIT) {
			size_t bad_old = 0, bad_new = 0;
			for (size_t i = 0; i < len; i++)
				bad_old += c->ch_ptr[ins ? i + n : i] != body0(i);
			for (size_t i = 0; have_data && i < n; i++)
				bad_new += c->ch_ptr[ins ? i : len + i] != DATA(i);
			if (bad_old || bad_new)
				printf("old bytes wrong: %zu of %zu, new bytes wrong: %zu of %zu\n", bad_old, len, bad_new, n);
			VP_EXPECT(bad_old == 0);
			VP_EXPECT(bad_new == 0);
		}
	} else {
		VP_EXPECT(c->ch_len == len);
		for (size_t i = 0; wf(c) && i < len && i < c->ch_len; i++)
			VP_EXPECT(c->ch_ptr[i] == body0(i));
	}
}

static void
check_frame(nni_msg *m)
{
	VP_EXPECT(m->m_header_len == hlen0);
	VP_EXPECT(m->m_refcnt.v == ref0);
	VP_EXPECT(m->m_pipe == pipe0);
	VP_EXPECT(memcmp(m->m_header_buf, h0, 64) == 0);
}

static int
replay_chunk(const char *fn)
{
	nni_chunk c;
	size_t    cap = vp_u64("vp_in_cap", 64), off = vp_u64("vp_in_off", 0), len = vp_u64("vp_in_len", 0);
	size_t    n   = vp_u64("vp_arg_len", 0);
	int       rc;
	if ((rc = build_chunk(&c, cap, off, len)) != 0)
		return (rc);
	if (IS("nni_chunk_insert") || IS("nni_chunk_append")) {
		int      ins  = IS("nni_chunk_insert");
		uint8_t *data = NULL;
		if (cap == 0)
			SKIP("counterexample pre-state has no buffer");
		if (vp_u64("vp_arg_data", 1) && n <= LIMIT)
			data = mkdata(n, 1);
		int rv = ins ? nni_chunk_insert(&c, data, n) : nni_chunk_append(&c, data, n);
		printf("%s(cap=%zu off=%zu len=%zu, n=%zu) -> %d; now cap=%zu off=%zu len=%zu\n", fn, cap, off, len, n, rv,
		    c.ch_cap, offs(&c), c.ch_len);
		check_edit(&c, ins, rv, len, n, data != NULL);
		free(data);
	} else if (IS("nni_chunk_trim") || IS("nni_chunk_chop")) {
		int tr = IS("nni_chunk_trim");
		if (cap == 0)
			SKIP("counterexample pre-state has no buffer");
		int rv = tr ? nni_chunk_trim(&c, n) : nni_chunk_chop(&c, n);
		printf("%s(cap=%zu off=%zu len=%zu, n=%zu) -> %d; now off=%zu len=%zu\n", fn, cap, off, len, n, rv, offs(&c), c.ch_len);
		VP_EXPECT((rv == NNG_EINVAL) == (n > len));
		VP_EXPECT(wf(&c));
		VP_EXPECT(c.ch_len == (rv ? len : len - n));
		for (size_t i = 0; wf(&c) && i < c.ch_len; i++)
			VP_EXPECT(c.ch_ptr[i] == body0((rv == 0 && tr) ? i + n : i));
	} else if (IS("nni_chunk_grow")) {
		size_t a = vp_u64("vp_arg_newsz", 0), b = vp_u64("vp_arg_headwanted", 0);
		int    rv = nni_chunk_grow(&c, a, b);
		printf("nni_chunk_grow(cap=%zu off=%zu len=%zu, newsz=%zu, headwanted=%zu) -> %d; now cap=%zu off=%zu len=%zu\n",
		    cap, off, len, a, b, rv, c.ch_cap, offs(&c), c.ch_len);
		if (rv == 0) {
			VP_EXPECT(wf(&c) && c.ch_len == len);
			VP_EXPECT(c.ch_cap - offs(&c) >= a);
			VP_EXPECT(offs(&c) >= b);
		} else {
			VP_EXPECT(c.ch_cap == cap && c.ch_len == len && offs(&c) == off);
		}
		VP_EXPECT(rv == 0 || rv == NNG_ENOMEM);
		for (size_t i = 0; wf(&c) && i < len && i < c.ch_len; i++)
			VP_EXPECT(c.ch_ptr[i] == body0(i));
	} else if (IS("nni_chunk_free")) {
		int live = vp_live_count();
		nni_chunk_free(&c);
		printf("nni_chunk_free(cap=%zu off=%zu len=%zu); now cap=%zu len=%zu buf=%p ptr=%p\n", cap, off, len, c.ch_cap, c.ch_len,
		    (void *) c.ch_buf, (void *) c.ch_ptr);
		VP_EXPECT(c.ch_cap == 0 && c.ch_len == 0 && c.ch_buf == NULL && c.ch_ptr == NULL);
		VP_EXPECT(vp_live_count() == live - (cap > 0 ? 1 : 0));
	} else if (IS("nni_chunk_clear")) {
		if (cap == 0)
			SKIP("counterexample pre-state has no buffer");
		nni_chunk_clear(&c);
		printf("nni_chunk_clear(cap=%zu off=%zu len=%zu); now cap=%zu off=%zu len=%zu\n", cap, off, len, c.ch_cap, offs(&c), c.ch_len);
		VP_EXPECT(c.ch_len == 0 && wf(&c) && c.ch_cap == cap && offs(&c) == off);
	} else if (IS("nni_chunk_dup")) {
		nni_chunk d;
		if (cap == 0)
			SKIP("counterexample pre-state has no buffer");
		memset(&d, 0x5a, sizeof(d));
		int live = vp_live_count();
		int rv   = nni_chunk_dup(&d, &c);
		printf("nni_chunk_dup(src cap=%zu off=%zu len=%zu) -> %d", cap, off, len, rv);
		if (rv == 0)
			printf("; copy cap=%zu off=%zu len=%zu", d.ch_cap, offs(&d), d.ch_len);
		printf("\n");
		VP_EXPECT(rv == 0 || rv == NNG_ENOMEM);
		VP_EXPECT(vp_live_count() == live + (rv == 0 ? 1 : 0));
		VP_EXPECT(c.ch_cap == cap && c.ch_len == len && offs(&c) == off);
		if (rv == 0) {
			VP_EXPECT(wf(&d) && d.ch_buf != c.ch_buf);
			VP_EXPECT(d.ch_cap == cap && d.ch_len == len && offs(&d) == off);
			for (size_t i = 0; wf(&d) && i < len && i < d.ch_len; i++)
				VP_EXPECT(d.ch_ptr[i] == body0(i));
		}
	} else if (IS("nni_chunk_trim_u32")) {
		if (cap == 0 || len < 4)
			SKIP("precondition: at least 4 body bytes");
		uint32_t want = ((uint32_t) body0(0) << 24) | ((uint32_t) body0(1) << 16) | ((uint32_t) body0(2) << 8) | body0(3);
		uint32_t v    = nni_chunk_trim_u32(&c);
		printf("nni_chunk_trim_u32(cap=%zu off=%zu len=%zu, first bytes %02x %02x %02x %02x) -> 0x%08x; now off=%zu len=%zu\n", cap,
		    off, len, body0(0), body0(1), body0(2), body0(3), v, offs(&c), c.ch_len);
		VP_EXPECT(v == want);
		VP_EXPECT(wf(&c) && c.ch_cap == cap);
		VP_EXPECT(c.ch_len == len - 4);
		VP_EXPECT(offs(&c) == off + (len - 4 != 0 ? 4 : 0));
		for (size_t i = 0; wf(&c) && i < c.ch_len && i + 4 < len; i++)
			VP_EXPECT(c.ch_ptr[i] == body0(i + 4));
	} else {
		SKIP("no native driver for %s", fn);
	}
	return (0);
}

/* header functions: the body is not part of their contract */
static int
replay_hdr(const char *fn)
{
	nni_msg *m;
	int      rc;
	size_t   n = vp_u64("vp_arg_len", 0);
	int      fl = 0;
	if (IS("nni_msg_header_peek_u32") || IS("nni_msg_shared") || IS("nni_msg_set_pipe") || IS("nni_msg_get_pipe"))
		fl = B_NOREF | B_NOHLEN;
	if (IS("nni_msg_header_poke_u32"))
		fl = B_NOREF;
	if ((rc = build_msg(&m, fl)) != 0)
		return (rc);
	uint8_t *h = HB(m);
	showhdr("header before:", h0, VP_MIN(hlen0, HCAP));
	if (IS("nni_msg_header_append") || IS("nni_msg_header_insert")) {
		int      ins  = IS("nni_msg_header_insert");
		if (n >= ((size_t) 1 << 55)) /* no object has that many bytes (CBMC: 2^55, natively less) */
			SKIP("precondition: data points to an object of len = %zu bytes", n);
		uint8_t *data = mkdata(n, 65);
		int      rv   = ins ? nni_msg_header_insert(m, data, n) : nni_msg_header_append(m, data, n);
		printf("%s(header_len=%zu, len=%zu) -> %d; header_len now %zu\n", fn, hlen0, n, rv, m->m_header_len);
		VP_EXPECT(rv == 0 || rv == NNG_EINVAL);
		VP_EXPECT((rv == NNG_EINVAL) == (hlen0 + n > HCAP));
		VP_EXPECT(m->m_header_len <= HCAP);
		VP_EXPECT(m->m_header_len == (rv == 0 ? hlen0 + n : hlen0));
		if (m->m_header_len <= HCAP) {
			showhdr("header after: ", h, m->m_header_len);
			for (size_t i = 0; i < hlen0; i++)
				VP_EXPECT(h[(rv == 0 && ins) ? i + n : i] == h0[i]);
			for (size_t i = 0; rv == 0 && i < n; i++)
				VP_EXPECT(h[ins ? i : hlen0 + i] == DATA(i));
		}
		free(data);
	} else if (IS("nni_msg_header_trim") || IS("nni_msg_header_chop")) {
		int tr = IS("nni_msg_header_trim");
		int rv = tr ? nni_msg_header_trim(m, n) : nni_msg_header_chop(m, n);
		printf("%s(header_len=%zu, len=%zu) -> %d; header_len now %zu\n", fn, hlen0, n, rv, m->m_header_len);
		VP_EXPECT(rv == 0 || rv == NNG_EINVAL);
		VP_EXPECT((rv == NNG_EINVAL) == (n > hlen0));
		VP_EXPECT(m->m_header_len == (rv == 0 ? hlen0 - n : hlen0));
		if (m->m_header_len <= HCAP) {
			showhdr("header after: ", h, m->m_header_len);
			for (size_t i = 0; i < m->m_header_len; i++)
				VP_EXPECT(h[i] == h0[(rv == 0 && tr) ? i + n : i]);
		}
	} else if (IS("nni_msg_header_trim_u32")) {
		if (hlen0 < 4)
			SKIP("precondition: at least 4 header bytes");
		uint32_t v = nni_msg_header_trim_u32(m);
		printf("nni_msg_header_trim_u32(header_len=%zu) -> 0x%08x; header_len now %zu\n", hlen0, v, m->m_header_len);
		VP_EXPECT(v == NBE32(h0));
		VP_EXPECT(m->m_header_len == hlen0 - 4);
		if (m->m_header_len <= HCAP) {
			showhdr("header after: ", h, m->m_header_len);
			for (size_t i = 0; i < m->m_header_len && i + 4 < hlen0; i++)
				VP_EXPECT(h[i] == h0[i + 4]);
		}
	} else if (IS("nni_msg_header_append_u32")) {
		uint32_t val = (uint32_t) vp_u64("vp_arg_val", 0x01020304);
		if (!(hlen0 + 4 < HCAP))
			SKIP("precondition: header_len + 4 < 64");
		nni_msg_header_append_u32(m, val);
		printf("nni_msg_header_append_u32(header_len=%zu, val=0x%08x); header_len now %zu\n", hlen0, val, m->m_header_len);
		VP_EXPECT(m->m_header_len == hlen0 + 4);
		showhdr("header after: ", h, VP_MIN(m->m_header_len, HCAP));
		VP_EXPECT(NBE32(h + hlen0) == val);
		for (size_t i = 0; i < hlen0; i++)
			VP_EXPECT(h[i] == h0[i]);
	} else if (IS("nni_msg_header_peek_u32")) {
		uint32_t v = nni_msg_header_peek_u32(m);
		printf("nni_msg_header_peek_u32() -> 0x%08x\n", v);
		VP_EXPECT(v == NBE32(h0));
		VP_EXPECT(m->m_header_len == hlen0 && memcmp(h, h0, 64) == 0);
	} else if (IS("nni_msg_header_poke_u32")) {
		uint32_t val = (uint32_t) vp_u64("vp_arg_val", 0x01020304);
		nni_msg_header_poke_u32(m, val);
		printf("nni_msg_header_poke_u32(val=0x%08x)\n", val);
		showhdr("header after: ", h, m->m_header_len < 4 ? 4 : VP_MIN(m->m_header_len, HCAP));
		VP_EXPECT(NBE32(h) == val);
		VP_EXPECT(m->m_header_len == hlen0);
		for (size_t i = 4; i < HCAP; i++)
			VP_EXPECT(h[i] == h0[i]);
	} else if (IS("nni_msg_clone")) {
		if (ref0 == INT32_MAX)
			SKIP("precondition: reference count below INT32_MAX");
		nni_msg_clone(m);
		printf("nni_msg_clone(refcnt=%d); refcnt now %d\n", ref0, m->m_refcnt.v);
		VP_EXPECT(m->m_refcnt.v == ref0 + 1);
	} else if (IS("nni_msg_shared")) {
		bool b = nni_msg_shared(m);
		printf("nni_msg_shared(refcnt=%d) -> %d\n", ref0, (int) b);
		VP_EXPECT(b == (ref0 > 1));
		VP_EXPECT(m->m_refcnt.v == ref0);
	} else if (IS("nni_msg_set_pipe")) {
		uint32_t pid = (uint32_t) vp_u64("vp_arg_pid", 7);
		nni_msg_set_pipe(m, pid);
		VP_EXPECT(m->m_pipe == pid);
		VP_EXPECT(m->m_header_len == hlen0 && m->m_refcnt.v == ref0 && memcmp(h, h0, 64) == 0);
	} else if (IS("nni_msg_get_pipe")) {
		VP_EXPECT(nni_msg_get_pipe(m) == pipe0);
	} else {
		SKIP("no native driver for %s", fn);
	}
	return (0);
}

/* result of pull_up / contents of a copy: header bytes followed by body bytes */
static void
check_flat(nni_msg *r, size_t hl, size_t bl)
{
	VP_EXPECT(r->m_header_len == 0 && r->m_refcnt.v == 1);
	VP_EXPECT(wf(&r->m_body));
	VP_EXPECT(r->m_body.ch_len == hl + bl);
	if (wf(&r->m_body) && r->m_body.ch_len == hl + bl) {
		size_t bad = 0;
		for (size_t i = 0; i < hl; i++)
			bad += r->m_body.ch_ptr[i] != h0[i];
		for (size_t i = 0; i < bl; i++)
			bad += r->m_body.ch_ptr[hl + i] != body0(i);
		if (bad)
			printf("result body is not header || body: %zu of %zu bytes differ\n", bad, hl + bl);
		VP_EXPECT(bad == 0);
	}
}

static int
replay_msg(const char *fn)
{
	nni_msg *m;
	int      rc;
	size_t   n = vp_u64("vp_arg_len", 0);
	if (IS("nni_msg_free") && vp_has("vp_arg_m") && vp_u64("vp_arg_m", 1) == 0) {
		nni_msg_free(NULL);
		printf("nni_msg_free(NULL)\n");
		VP_EXPECT(vp_free_calls == 0);
		return (0);
	}
	if ((rc = build_msg(&m, B_BODY | (IS("nni_msg_dup") ? B_NOREF : 0))) != 0)
		return (rc);
	nni_chunk *c    = &m->m_body;
	int        live = vp_live_count();
	if (IS("nni_msg_append") || IS("nni_msg_insert")) {
		int      ins  = IS("nni_msg_insert");
		uint8_t *data = NULL;
		if (vp_u64("vp_arg_data", 1) && n <= LIMIT)
			data = mkdata(n, 1);
		int rv = ins ? nni_msg_insert(m, data, n) : nni_msg_append(m, data, n);
		printf("%s(cap=%zu off=%zu len=%zu, n=%zu) -> %d; now cap=%zu off=%zu len=%zu\n", fn, cap0, off0, len0, n, rv, c->ch_cap,
		    offs(c), c->ch_len);
		check_edit(c, ins, rv, len0, n, data != NULL);
		check_frame(m);
		VP_EXPECT(vp_live_count() == live);
		free(data);
	} else if (IS("nni_msg_trim") || IS("nni_msg_chop")) {
		int tr = IS("nni_msg_trim");
		int rv = tr ? nni_msg_trim(m, n) : nni_msg_chop(m, n);
		printf("%s(cap=%zu off=%zu len=%zu, n=%zu) -> %d; now off=%zu len=%zu\n", fn, cap0, off0, len0, n, rv, offs(c), c->ch_len);
		VP_EXPECT((rv == NNG_EINVAL) == (n > len0));
		VP_EXPECT(rv == 0 || rv == NNG_EINVAL);
		VP_EXPECT(wf(c) && c->ch_cap == cap0);
		VP_EXPECT(c->ch_len == (rv ? len0 : len0 - n));
		if (tr && wf(c))
			VP_EXPECT(offs(c) == off0 + ((rv == 0 && c->ch_len != 0) ? n : 0));
		if (!tr)
			VP_EXPECT(offs(c) == off0);
		for (size_t i = 0; wf(c) && i < c->ch_len && i < len0; i++)
			VP_EXPECT(c->ch_ptr[i] == body0((rv == 0 && tr) ? i + n : i));
		check_frame(m);
	} else if (IS("nni_msg_trim_u32")) {
		if (len0 < 4)
			SKIP("precondition: at least 4 body bytes");
		uint32_t want = ((uint32_t) body0(0) << 24) | ((uint32_t) body0(1) << 16) | ((uint32_t) body0(2) << 8) | body0(3);
		uint32_t v    = nni_msg_trim_u32(m);
		printf("nni_msg_trim_u32(cap=%zu off=%zu len=%zu, first bytes %02x %02x %02x %02x) -> 0x%08x; now off=%zu len=%zu\n", cap0, off0,
		    len0, body0(0), body0(1), body0(2), body0(3), v, offs(c), c->ch_len);
		VP_EXPECT(v == want);
		VP_EXPECT(wf(c) && c->ch_cap == cap0);
		VP_EXPECT(c->ch_len == len0 - 4);
		VP_EXPECT(offs(c) == off0 + (len0 - 4 != 0 ? 4 : 0));
		for (size_t i = 0; wf(c) && i < c->ch_len && i + 4 < len0; i++)
			VP_EXPECT(c->ch_ptr[i] == body0(i + 4));
		check_frame(m);
	} else if (IS("nni_msg_clear")) {
		nni_msg_clear(m);
		printf("nni_msg_clear(cap=%zu off=%zu len=%zu); now off=%zu len=%zu\n", cap0, off0, len0, offs(c), c->ch_len);
		VP_EXPECT(c->ch_len == 0 && wf(c) && c->ch_cap == cap0 && offs(c) == off0);
		check_frame(m);
	} else if (IS("nni_msg_capacity")) {
		size_t v = nni_msg_capacity(m);
		printf("nni_msg_capacity(cap=%zu off=%zu len=%zu) -> %zu\n", cap0, off0, len0, v);
		VP_EXPECT(v == cap0 - off0 && v >= len0);
	} else if (IS("nni_msg_reserve")) {
		size_t a  = vp_u64("vp_arg_capacity", 0);
		int    rv = nni_msg_reserve(m, a);
		printf("nni_msg_reserve(cap=%zu off=%zu len=%zu, capacity=%zu) -> %d; now cap=%zu off=%zu len=%zu\n", cap0, off0, len0, a, rv,
		    c->ch_cap, offs(c), c->ch_len);
		VP_EXPECT(rv == 0 || rv == NNG_ENOMEM);
		VP_EXPECT(wf(c) && c->ch_len == len0);
		if (rv == 0) {
			VP_EXPECT(c->ch_cap - offs(c) >= a);
			VP_EXPECT(offs(c) >= off0 && c->ch_cap >= cap0);
			VP_EXPECT(nni_msg_capacity(m) >= a);
		} else {
			VP_EXPECT(c->ch_cap == cap0 && offs(c) == off0);
		}
		if (a <= cap0 - off0)
			VP_EXPECT(rv == 0 && c->ch_cap == cap0 && offs(c) == off0);
		for (size_t i = 0; wf(c) && i < len0 && i < c->ch_len; i++)
			VP_EXPECT(c->ch_ptr[i] == body0(i));
		check_frame(m);
		VP_EXPECT(vp_live_count() == live);
	} else if (IS("nni_msg_realloc")) {
		size_t a  = vp_u64("vp_arg_sz", 0);
		int    rv = nni_msg_realloc(m, a);
		printf("nni_msg_realloc(cap=%zu off=%zu len=%zu, sz=%zu) -> %d; now cap=%zu len=%zu capacity=%zu\n", cap0, off0, len0, a, rv,
		    c->ch_cap, c->ch_len, wf(c) ? nni_msg_capacity(m) : 0);
		VP_EXPECT(rv == 0 || rv == NNG_ENOMEM);
		VP_EXPECT(wf(c));
		VP_EXPECT(c->ch_len == (rv == 0 ? a : len0));
		if (a <= cap0 - off0)
			VP_EXPECT(rv == 0 && offs(c) == off0 && c->ch_cap == cap0);
		for (size_t i = 0; wf(c) && i < len0 && i < c->ch_len; i++)
			VP_EXPECT(c->ch_ptr[i] == body0(i));
		check_frame(m);
		VP_EXPECT(vp_live_count() == live);
	} else if (IS("nni_msg_dup")) {
		nni_msg *d  = (nni_msg *) (uintptr_t) 0x5a5a;
		int      rv = nni_msg_dup(&d, m);
		printf("nni_msg_dup(header_len=%zu cap=%zu off=%zu len=%zu) -> %d\n", hlen0, cap0, off0, len0, rv);
		VP_EXPECT(rv == 0 || rv == NNG_ENOMEM);
		VP_EXPECT(vp_live_count() == live + (rv == 0 ? 2 : 0));
		check_frame(m);
		VP_EXPECT(c->ch_cap == cap0 && c->ch_len == len0 && offs(c) == off0);
		if (rv != 0) {
			VP_EXPECT(d == (nni_msg *) (uintptr_t) 0x5a5a);
		} else {
			VP_EXPECT(d != m && vp_live(d));
			VP_EXPECT(d->m_header_len == hlen0 && d->m_refcnt.v == 1 && d->m_pipe == pipe0);
			VP_EXPECT(wf(&d->m_body) && d->m_body.ch_buf != c->ch_buf);
			VP_EXPECT(d->m_body.ch_cap == cap0 && d->m_body.ch_len == len0 && offs(&d->m_body) == off0);
			for (size_t i = 0; wf(&d->m_body) && i < len0 && i < d->m_body.ch_len; i++)
				VP_EXPECT(d->m_body.ch_ptr[i] == body0(i));
			VP_EXPECT(memcmp(d->m_header_buf, h0, hlen0) == 0);
		}
	} else if (IS("nni_msg_free")) {
		void *buf = c->ch_buf;
		nni_msg_free(m);
		printf("nni_msg_free(refcnt=%d): message %s, body buffer %s\n", ref0, vp_live(m) ? "kept" : "released",
		    vp_live(buf) ? "kept" : "released");
		if (ref0 == 1) {
			VP_EXPECT(!vp_live(m) && !vp_live(buf) && vp_live_count() == live - 2);
		} else {
			VP_EXPECT(vp_live(m) && vp_live(buf) && vp_live_count() == live);
			if (vp_live(m))
				VP_EXPECT(m->m_refcnt.v == ref0 - 1);
		}
	} else if (IS("nni_msg_unique")) {
		nni_msg *r = nni_msg_unique(m);
		printf("nni_msg_unique(refcnt=%d header_len=%zu len=%zu) -> %s\n", ref0, hlen0, len0,
		    r == m ? "the same message" : r == NULL ? "NULL" : "a copy");
		if (ref0 == 1) {
			VP_EXPECT(r == m && m->m_refcnt.v == 1 && vp_live_count() == live);
		} else {
			VP_EXPECT(r != m);
			VP_EXPECT(vp_live(m) && vp_live(c->ch_buf));
			if (vp_live(m))
				VP_EXPECT(m->m_refcnt.v == ref0 - 1);
			VP_EXPECT(vp_live_count() == live + (r != NULL ? 2 : 0));
			if (r != NULL && vp_live(r)) {
				VP_EXPECT(r->m_refcnt.v == 1 && r->m_header_len == hlen0 && r->m_body.ch_len == len0);
				VP_EXPECT(wf(&r->m_body));
				for (size_t i = 0; wf(&r->m_body) && i < len0 && i < r->m_body.ch_len; i++)
					VP_EXPECT(r->m_body.ch_ptr[i] == body0(i));
				VP_EXPECT(memcmp(r->m_header_buf, h0, hlen0) == 0);
			}
		}
	} else if (IS("nni_msg_pull_up")) {
		void    *buf = c->ch_buf;
		nni_msg *r   = nni_msg_pull_up(m);
		printf("nni_msg_pull_up(refcnt=%d header_len=%zu cap=%zu off=%zu len=%zu) -> %s\n", ref0, hlen0, cap0, off0, len0,
		    r == m ? "in place" : r == NULL ? "NULL" : "a copy");
		if (r == NULL) {
			/* failure: the original is still the caller's, unchanged */
			VP_EXPECT(vp_live(m) && vp_live(buf) && vp_live_count() == live);
			if (vp_live(m)) {
				check_frame(m);
				VP_EXPECT(c->ch_len == len0);
			}
		} else if (r == m) {
			VP_EXPECT(ref0 == 1);
			VP_EXPECT(vp_live_count() == live);
			check_flat(m, hlen0, len0);
		} else {
			VP_EXPECT(vp_live(r));
			if (vp_live(r))
				check_flat(r, hlen0, len0);
			if (ref0 > 1) {
				VP_EXPECT(vp_live(m) && vp_live_count() == live + 2);
				if (vp_live(m))
					VP_EXPECT(m->m_refcnt.v == ref0 - 1);
			} else {
				VP_EXPECT(!vp_live(m) && !vp_live(buf) && vp_live_count() == live);
			}
		}
	} else {
		SKIP("no native driver for %s", fn);
	}
	return (0);
}

static int
replay_once(const char *fn, int fail_at)
{
	int rc;
	vp_alloc_calls   = 0;
	vp_free_calls    = 0;
	vp_alloc_fail_at = fail_at;
	if (fail_at)
		printf("-- again, allocation #%d fails --\n", fail_at);
	if (IS("nni_msg_header") || IS("nni_msg_header_len") || IS("nni_msg_body") || IS("nni_msg_len") || IS("nni_msg_header_clear") ||
	    IS("nni_chunk_room")) {
		/* accessors: any structure contents (their contracts require a valid structure only) */
		nni_msg *m = calloc(1, sizeof(*m));
		uint8_t  some[8];
		if (!vp_has("vp_in_acc_hlen") && !vp_has("vp_in_room_cap")) {
			free(m);
			SKIP("trace has no entry snapshot");
		}
		m->m_header_len  = vp_u64("vp_in_acc_hlen", 0);
		m->m_body.ch_len = IS("nni_chunk_room") ? vp_u64("vp_in_room_len", 0) : vp_u64("vp_in_acc_len", 0);
		m->m_body.ch_cap = vp_u64("vp_in_room_cap", 0);
		m->m_body.ch_ptr = some;
		printf("%s on {header_len=%zu body len=%zu cap=%zu}\n", fn, m->m_header_len, m->m_body.ch_len, m->m_body.ch_cap);
		if (IS("nni_msg_header"))
			VP_EXPECT(nni_msg_header(m) == (void *) m->m_header_buf);
		else if (IS("nni_msg_header_len"))
			VP_EXPECT(nni_msg_header_len(m) == vp_u64("vp_in_acc_hlen", 0));
		else if (IS("nni_msg_body"))
			VP_EXPECT(nni_msg_body(m) == (void *) some);
		else if (IS("nni_msg_len"))
			VP_EXPECT(nni_msg_len(m) == vp_u64("vp_in_acc_len", 0));
		else if (IS("nni_msg_header_clear")) {
			nni_msg_header_clear(m);
			VP_EXPECT(m->m_header_len == 0 && m->m_body.ch_len == vp_u64("vp_in_acc_len", 0));
		} else if (m->m_body.ch_len <= m->m_body.ch_cap) {
			VP_EXPECT(nni_chunk_room(&m->m_body) == m->m_body.ch_cap - m->m_body.ch_len);
		} else {
			free(m);
			SKIP("precondition: len <= cap");
		}
		free(m);
		return (0);
	}
	if (IS("nni_msg_alloc")) {
		size_t   sz = vp_u64("vp_arg_sz", 0);
		nni_msg *m  = (nni_msg *) (uintptr_t) 0x5a5a;
		int      rv = nni_msg_alloc(&m, sz);
		printf("nni_msg_alloc(sz=%zu) -> %d\n", sz, rv);
		VP_EXPECT(rv == 0 || rv == NNG_ENOMEM);
		VP_EXPECT(vp_live_count() == (rv == 0 ? 2 : 0));
		if (rv == 0) {
			int p2 = sz >= 1024 && (sz & (sz - 1)) == 0;
			VP_EXPECT(wf(&m->m_body) && m->m_body.ch_len == sz);
			VP_EXPECT(m->m_header_len == 0 && m->m_refcnt.v == 1);
			VP_EXPECT(offs(&m->m_body) == (p2 ? 0 : 32) && m->m_body.ch_cap == (p2 ? sz : sz + 64));
		} else {
			VP_EXPECT(m == (nni_msg *) (uintptr_t) 0x5a5a);
		}
		rc = 0;
	} else if (strncmp(fn, "nni_chunk_", 10) == 0) {
		rc = replay_chunk(fn);
	} else if (strncmp(fn, "nni_msg_header_", 15) == 0 || IS("nni_msg_clone") || IS("nni_msg_shared") || IS("nni_msg_set_pipe") ||
	    IS("nni_msg_get_pipe")) {
		rc = replay_hdr(fn);
	} else {
		rc = replay_msg(fn);
	}
	vp_release_all();
	return (rc);
}

int
main(int argc, char **argv)
{
	if (argc < 3) {
		fprintf(stderr, "usage: replay <inputs> <function>\n");
		return 2;
	}
	vp_load(argv[1]);
	const char *fn = argv[2];
	int         rc = replay_once(fn, 0);
	if (rc != 0)
		return (rc);
	/* the same call when an allocation fails (k-th request), as the CBMC allocator model may */
	int nalloc = vp_alloc_calls;
	for (int k = 1; k <= nalloc && k <= 3; k++)
		(void) replay_once(fn, k);
	VP_DONE();
}
