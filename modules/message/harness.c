#define VP_HAVOC_GHOSTS()                         \
	do {                                      \
		g_k  = nondet_size_t();           \
		g_j  = nondet_size_t();           \
		g_b  = nondet_u8();               \
		g_hk = nondet_size_t();           \
		g_hb = nondet_u8();               \
		g_free_calls = nondet_size_t();   \
		g_alloc_ok = nondet_size_t();     \
		__CPROVER_assume(g_alloc_ok < ((size_t) 1 << 40)); \
		__CPROVER_assume(g_free_calls < ((size_t) 1 << 40)); \
	} while (0)

void h_chunk_grow(void) { nni_chunk *ch; size_t a, b; VP_HAVOC_GHOSTS(); nni_chunk_grow(ch, a, b); VP_CANARY(); }
void h_chunk_free(void) { nni_chunk *ch; VP_HAVOC_GHOSTS(); nni_chunk_free(ch); VP_CANARY(); }
void h_chunk_clear(void) { nni_chunk *ch; VP_HAVOC_GHOSTS(); nni_chunk_clear(ch); VP_CANARY(); }
void h_chunk_chop(void) { nni_chunk *ch; size_t n; VP_HAVOC_GHOSTS(); nni_chunk_chop(ch, n); VP_CANARY(); }
void h_chunk_trim(void) { nni_chunk *ch; size_t n; VP_HAVOC_GHOSTS(); nni_chunk_trim(ch, n); VP_CANARY(); }
void h_chunk_dup(void) { nni_chunk *d; nni_chunk *s; VP_HAVOC_GHOSTS(); nni_chunk_dup(d, s); VP_CANARY(); }
void h_chunk_append(void) { nni_chunk *ch; void *d; size_t n; VP_HAVOC_GHOSTS(); nni_chunk_append(ch, d, n); VP_CANARY(); }
void h_chunk_room(void) { nni_chunk *ch; VP_HAVOC_GHOSTS(); nni_chunk_room(ch); VP_CANARY(); }
void h_chunk_insert(void) { nni_chunk *ch; void *d; size_t n; VP_HAVOC_GHOSTS(); nni_chunk_insert(ch, d, n); VP_CANARY(); }
void h_chunk_trim_u32(void) { nni_chunk *ch; VP_HAVOC_GHOSTS(); nni_chunk_trim_u32(ch); VP_CANARY(); }
void h_msg_append(void) { nni_msg *m; void *d; size_t n; VP_HAVOC_GHOSTS(); nni_msg_append(m, d, n); VP_CANARY(); }
void h_msg_insert(void) { nni_msg *m; void *d; size_t n; VP_HAVOC_GHOSTS(); nni_msg_insert(m, d, n); VP_CANARY(); }
void h_msg_trim(void) { nni_msg *m; size_t n; VP_HAVOC_GHOSTS(); nni_msg_trim(m, n); VP_CANARY(); }
void h_msg_chop(void) { nni_msg *m; size_t n; VP_HAVOC_GHOSTS(); nni_msg_chop(m, n); VP_CANARY(); }
void h_msg_trim_u32(void) { nni_msg *m; VP_HAVOC_GHOSTS(); nni_msg_trim_u32(m); VP_CANARY(); }
void h_msg_clear(void) { nni_msg *m; VP_HAVOC_GHOSTS(); nni_msg_clear(m); VP_CANARY(); }
void h_msg_reserve(void) { nni_msg *m; size_t n; VP_HAVOC_GHOSTS(); nni_msg_reserve(m, n); VP_CANARY(); }
void h_msg_realloc(void) { nni_msg *m; size_t n; VP_HAVOC_GHOSTS(); nni_msg_realloc(m, n); VP_CANARY(); }
void h_msg_capacity(void) { nni_msg *m; VP_HAVOC_GHOSTS(); nni_msg_capacity(m); VP_CANARY(); }
void h_msg_header(void) { nni_msg *m; VP_HAVOC_GHOSTS(); nni_msg_header(m); VP_CANARY(); }
void h_msg_header_len(void) { nni_msg *m; VP_HAVOC_GHOSTS(); nni_msg_header_len(m); VP_CANARY(); }
void h_msg_body(void) { nni_msg *m; VP_HAVOC_GHOSTS(); nni_msg_body(m); VP_CANARY(); }
void h_msg_len(void) { nni_msg *m; VP_HAVOC_GHOSTS(); nni_msg_len(m); VP_CANARY(); }
void h_msg_header_append(void) { nni_msg *m; void *d; size_t n; VP_HAVOC_GHOSTS(); nni_msg_header_append(m, d, n); VP_CANARY(); }
void h_msg_header_insert(void) { nni_msg *m; void *d; size_t n; VP_HAVOC_GHOSTS(); nni_msg_header_insert(m, d, n); VP_CANARY(); }
void h_msg_header_trim(void) { nni_msg *m; size_t n; VP_HAVOC_GHOSTS(); nni_msg_header_trim(m, n); VP_CANARY(); }
void h_msg_header_chop(void) { nni_msg *m; size_t n; VP_HAVOC_GHOSTS(); nni_msg_header_chop(m, n); VP_CANARY(); }
void h_msg_header_trim_u32(void) { nni_msg *m; VP_HAVOC_GHOSTS(); nni_msg_header_trim_u32(m); VP_CANARY(); }
void h_msg_header_append_u32(void) { nni_msg *m; uint32_t v; VP_HAVOC_GHOSTS(); nni_msg_header_append_u32(m, v); VP_CANARY(); }
void h_msg_header_peek_u32(void) { nni_msg *m; VP_HAVOC_GHOSTS(); nni_msg_header_peek_u32(m); VP_CANARY(); }
void h_msg_header_poke_u32(void) { nni_msg *m; uint32_t v; VP_HAVOC_GHOSTS(); nni_msg_header_poke_u32(m, v); VP_CANARY(); }
void h_msg_header_clear(void) { nni_msg *m; VP_HAVOC_GHOSTS(); nni_msg_header_clear(m); VP_CANARY(); }
void h_msg_set_pipe(void) { nni_msg *m; uint32_t v; VP_HAVOC_GHOSTS(); nni_msg_set_pipe(m, v); VP_CANARY(); }
void h_msg_get_pipe(void) { nni_msg *m; VP_HAVOC_GHOSTS(); nni_msg_get_pipe(m); VP_CANARY(); }
void h_msg_clone(void) { nni_msg *m; VP_HAVOC_GHOSTS(); nni_msg_clone(m); VP_CANARY(); }
void h_msg_shared(void) { nni_msg *m; VP_HAVOC_GHOSTS(); nni_msg_shared(m); VP_CANARY(); }
void h_msg_free(void) { nni_msg *m; VP_HAVOC_GHOSTS(); nni_msg_free(m); VP_CANARY(); }
void h_msg_alloc(void) { nni_msg **mp; size_t n; VP_HAVOC_GHOSTS(); nni_msg_alloc(mp, n); VP_CANARY(); }
void h_msg_dup(void) { nni_msg **mp; nni_msg *s; VP_HAVOC_GHOSTS(); nni_msg_dup(mp, s); VP_CANARY(); }
void h_msg_unique(void) { nni_msg *m; VP_HAVOC_GHOSTS(); nni_msg_unique(m); VP_CANARY(); }
void h_msg_pull_up(void) { nni_msg *m; VP_HAVOC_GHOSTS(); nni_msg_pull_up(m); VP_CANARY(); }
void h_chunk_insert_nodata(void) { nni_chunk *ch; size_t n; VP_HAVOC_GHOSTS(); nni_chunk_insert(ch, NULL, n); VP_CANARY(); }
