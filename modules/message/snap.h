/* Entry snapshots for the native replay of message.c units (macros only, used by the
 * "entry" weave of modules/message/spec.json; read by vp/replay.py, never by the code).
 * Kept apart from spec.h because spec.h is shared with the protocol modules.
 *
 * The snapshot reads carry no proof obligation (pointer/bounds checks are switched off
 * between VP_MSNAP_BEGIN and VP_MSNAP_END): what is readable is the contract's business. */
#ifndef VP_MESSAGE_SNAP_H
#define VP_MESSAGE_SNAP_H

#define VP_MSNAP_BEGIN                                                             \
	_Pragma("CPROVER check push") _Pragma("CPROVER check disable \"pointer\"")   \
	_Pragma("CPROVER check disable \"bounds\"")                                  \
	_Pragma("CPROVER check disable \"pointer-primitive\"")                       \
	_Pragma("CPROVER check disable \"pointer-overflow\"")
#define VP_MSNAP_END _Pragma("CPROVER check pop")

/* header part only (the body chunk is unconstrained in the header units): the whole
 * structure is copied, the driver reads m_header_len, m_header_buf[], m_pipe, m_refcnt.v */
#define VP_SNAP_HDR(m) VP_MSNAP_BEGIN nni_msg vp_in = *(m); VP_MSNAP_END

/* header + body geometry (data offset inside the buffer) */
#define VP_SNAP_MSG(m)                                                             \
	VP_MSNAP_BEGIN                                                                 \
	nni_msg vp_in     = *(m);                                                      \
	size_t  vp_in_moff = vp_in.m_body.ch_cap ? (size_t) __CPROVER_POINTER_OFFSET(vp_in.m_body.ch_ptr) : 0; \
	VP_MSNAP_END

/* nni_msg_pull_up is decided with --slice-formula, which drops every assignment no proof
 * obligation depends on -- the snapshot would not be in the trace.  The sum below carries
 * (always true) signed-overflow checks that mention the snapshot values, which keeps
 * them in the cone of influence; it has no other purpose. */
#define VP_SNAP_MSG_KEEP(m)                                                        \
	VP_SNAP_MSG(m)                                                                 \
	int vp_keep = (int) (vp_in_moff & 1) + (int) (vp_in.m_body.ch_cap & 1) + (int) (vp_in.m_body.ch_len & 1) + \
	    (int) (vp_in.m_header_len & 1) + (int) (vp_in.m_refcnt.v & 1);

/* nni_msg_free: m may be NULL */
#define VP_SNAP_MSG_OPT(m)                                                         \
	VP_MSNAP_BEGIN                                                                 \
	size_t  vp_arg_m = ((m) != NULL);                                              \
	nni_msg vp_in;                                                                 \
	size_t  vp_in_moff = 0;                                                        \
	if ((m) != NULL) {                                                             \
		vp_in      = *(m);                                                         \
		vp_in_moff = vp_in.m_body.ch_cap ? (size_t) __CPROVER_POINTER_OFFSET(vp_in.m_body.ch_ptr) : 0; \
	}                                                                              \
	VP_MSNAP_END

/* accessors (also called, not replaced, inside nni_msg_pull_up: names of their own) */
#define VP_SNAP_ACC(m)                                                             \
	VP_MSNAP_BEGIN                                                                 \
	size_t vp_in_acc_hlen = (m)->m_header_len, vp_in_acc_len = (m)->m_body.ch_len; \
	VP_MSNAP_END
#define VP_SNAP_ROOM(c)                                                            \
	VP_MSNAP_BEGIN                                                                 \
	size_t vp_in_room_cap = (c)->ch_cap, vp_in_room_len = (c)->ch_len;             \
	VP_MSNAP_END

/* first four body bytes (the word nni_*_trim_u32 decodes) */
#define VP_SNAP_B4(c)                                                              \
	VP_MSNAP_BEGIN                                                                 \
	uint8_t vp_in_b0 = (c)->ch_len > 0 ? (c)->ch_ptr[0] : 0,                       \
	        vp_in_b1 = (c)->ch_len > 1 ? (c)->ch_ptr[1] : 0,                       \
	        vp_in_b2 = (c)->ch_len > 2 ? (c)->ch_ptr[2] : 0,                       \
	        vp_in_b3 = (c)->ch_len > 3 ? (c)->ch_ptr[3] : 0;                       \
	VP_MSNAP_END

#endif
