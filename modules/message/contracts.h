/* Contracts for src/core/message.c (redeclarations after the definitions).
 *
 * The clause groups are macros parametrised by the chunk expression so that
 * the static nni_chunk_* layer and the nni_msg_* wrappers around it carry the
 * SAME postconditions (C17: each operation has exactly the effect of the
 * corresponding byte-string operation; EINVAL => no change; representation
 * invariant preserved).  Content facts use the ghost pairs (g_k,g_b) for the
 * body and (g_hk,g_hb) for the header, see spec.h.
 */
#ifndef VP_MESSAGE_CONTRACTS_H
#define VP_MESSAGE_CONTRACTS_H
/* clang-format off */

#define VP_HEAP_GHOSTS g_free_calls, g_alloc_ok
#define RV __CPROVER_return_value
#define OLD(e) __CPROVER_old(e)

/* ---------------------------------------------------------------- grow */
/* nni_msg_pull_up inserts the message's OWN header into its body: in the unit that
 * replaces that call the data pointer may point into the (already fresh) message */
#ifdef VP_INSERT_ALIAS_OK
#define INSERT_DATA_ALIAS_OK(data, len) (__CPROVER_r_ok((data), (len)))
#else
#define INSERT_DATA_ALIAS_OK(data, len) (0)
#endif

#define GROW_CONTRACT(ch, newsz, headwanted)                                              \
__CPROVER_requires(CH_GHOST_PRE(ch))                                                      \
__CPROVER_assigns(*(ch), VP_HEAP_GHOSTS)                                                    \
__CPROVER_frees((ch)->ch_buf)                                                             \
__CPROVER_ensures(RV == 0 || RV == NNG_ENOMEM)                                            \
/* failure: nothing changed, nothing released */                                          \
__CPROVER_ensures((RV != 0 && OLD((ch)->ch_cap) > 0) ==> !__CPROVER_was_freed(OLD((ch)->ch_buf))) \
__CPROVER_ensures(RV != 0 ==> (CH_UNCHANGED(ch) && VP_HEAP_DELTA(0, 0)))                  \
/* success: invariant, same length, same bytes, room as requested, headroom never shrinks */ \
__CPROVER_ensures(RV == 0 ==> CH_FULL_POST(ch))                                           \
__CPROVER_ensures(RV == 0 ==> (ch)->ch_len == OLD((ch)->ch_len))                          \
__CPROVER_ensures(RV == 0 ==> ((ch)->ch_cap - CH_OFF(ch) >= (newsz) && CH_OFF(ch) >= (headwanted))) \
__CPROVER_ensures((RV == 0 && OLD((ch)->ch_cap) > 0) ==> CH_OFF(ch) >= OLD(CH_OFF(ch)))   \
__CPROVER_ensures((RV == 0 && OLD((ch)->ch_cap) > 0) ==> (ch)->ch_cap >= OLD((ch)->ch_cap)) \
__CPROVER_ensures((RV == 0 && g_k < (ch)->ch_len) ==> CH_BYTE_AT(ch, g_k))                \
/* the old buffer is released exactly when it is replaced */                              \
__CPROVER_ensures((RV == 0 && OLD((ch)->ch_cap) > 0) ==> ((ch)->ch_buf != OLD((ch)->ch_buf) ? VP_HEAP_DELTA(1, 1) : VP_HEAP_DELTA(0, 0))) \
__CPROVER_ensures((RV == 0 && OLD((ch)->ch_cap) == 0) ==> VP_HEAP_DELTA(1, 0))           \
/* exact geometry when starting from an empty chunk */                                    \
__CPROVER_ensures((RV == 0 && OLD((ch)->ch_cap) == 0) ==> ((ch)->ch_cap == (newsz) + (headwanted) && CH_OFF(ch) == (headwanted))) \
/* enough room already: guaranteed success, nothing moves */                              \
__CPROVER_ensures((OLD((ch)->ch_cap) > 0 && (headwanted) <= OLD(CH_OFF(ch)) && (newsz) <= OLD((ch)->ch_cap) - OLD(CH_OFF(ch))) ==> (RV == 0 && (ch)->ch_buf == OLD((ch)->ch_buf) && (ch)->ch_ptr == OLD((ch)->ch_ptr)))

/* ---------------------------------------------------------------- chop */
#define CHOP_CONTRACT(ch, len)                                                            \
__CPROVER_requires(CH_FULL_PRE(ch))                                                       \
__CPROVER_assigns((ch)->ch_len)                                                           \
__CPROVER_ensures(RV == 0 || RV == NNG_EINVAL)                                            \
__CPROVER_ensures((RV == NNG_EINVAL) == ((len) > OLD((ch)->ch_len)))                      \
__CPROVER_ensures(RV != 0 ==> (ch)->ch_len == OLD((ch)->ch_len))                          \
__CPROVER_ensures(RV == 0 ==> (ch)->ch_len == OLD((ch)->ch_len) - (len))                  \
__CPROVER_ensures(CH_FULL_SCALAR(ch))

/* ---------------------------------------------------------------- trim */
#define TRIM_CONTRACT(ch, len)                                                            \
__CPROVER_requires(CH_FULL_PRE(ch))                                                       \
__CPROVER_requires(CH_GHOST_PRE(ch))                                                      \
__CPROVER_assigns((ch)->ch_len, (ch)->ch_ptr)                                             \
__CPROVER_ensures(RV == 0 || RV == NNG_EINVAL)                                            \
__CPROVER_ensures((RV == NNG_EINVAL) == ((len) > OLD((ch)->ch_len)))                      \
__CPROVER_ensures(CH_SAMEBUF_POST(ch))                                                    \
__CPROVER_ensures(RV != 0 ==> ((ch)->ch_len == OLD((ch)->ch_len) && (ch)->ch_ptr == OLD((ch)->ch_ptr))) \
__CPROVER_ensures(RV == 0 ==> ((ch)->ch_len == OLD((ch)->ch_len) - (len)))                \
/* pointer rule: advance by len unless the result is empty */                            \
__CPROVER_ensures(RV == 0 ==> (CH_OFF(ch) == OLD(CH_OFF(ch)) + ((ch)->ch_len != 0 ? (len) : 0))) \
/* the byte that was at index g_k >= len is now at g_k - len */                           \
__CPROVER_ensures((RV == 0 && g_k >= (len) && g_k < OLD((ch)->ch_len)) ==> CH_BYTE_AT(ch, g_k - (len))) \
__CPROVER_ensures((RV != 0 && g_k < (ch)->ch_len) ==> CH_BYTE_AT(ch, g_k))

/* ---------------------------------------------------------------- append */
#define APPEND_CONTRACT(ch, data, len)                                                    \
__CPROVER_requires(CH_FULL_PRE(ch))                                                       \
__CPROVER_requires(((data) == NULL || (len) == 0 || __CPROVER_is_fresh((data), (len)))) \
__CPROVER_requires(CH_GHOST_PRE(ch))                                                      \
__CPROVER_assigns(*(ch), VP_HEAP_GHOSTS, __CPROVER_object_whole((ch)->ch_buf))              \
__CPROVER_frees((ch)->ch_buf)                                                             \
__CPROVER_ensures(RV == 0 || RV == NNG_ENOMEM)                                            \
__CPROVER_ensures(RV != 0 ==> (!__CPROVER_was_freed(OLD((ch)->ch_buf)) && CH_UNCHANGED(ch))) \
__CPROVER_ensures(RV == 0 ==> CH_FULL_POST(ch))                                           \
__CPROVER_ensures(RV == 0 ==> ((len) <= SIZE_MAX - OLD((ch)->ch_len) && (ch)->ch_len == OLD((ch)->ch_len) + (len))) \
/* string append: old bytes stay, new bytes are the data */                               \
__CPROVER_ensures((g_k < OLD((ch)->ch_len)) ==> CH_BYTE_AT(ch, g_k))                      \
__CPROVER_ensures((RV == 0 && (data) != NULL && g_j < (len)) ==> (ch)->ch_ptr[OLD((ch)->ch_len) + g_j] == ((const uint8_t *) (data))[g_j]) \
/* enough room behind the data: guaranteed success, nothing moves */                      \
__CPROVER_ensures(((len) <= OLD((ch)->ch_cap) - OLD(CH_OFF(ch)) - OLD((ch)->ch_len)) ==> (RV == 0 && (ch)->ch_buf == OLD((ch)->ch_buf) && (ch)->ch_ptr == OLD((ch)->ch_ptr) && VP_HEAP_DELTA(0, 0))) \
__CPROVER_ensures(RV != 0 ==> VP_HEAP_DELTA(0, 0))                                        \
__CPROVER_ensures(RV == 0 ==> ((ch)->ch_buf != OLD((ch)->ch_buf) ? VP_HEAP_DELTA(1, 1) : VP_HEAP_DELTA(0, 0)))

/* ---------------------------------------------------------------- insert */
#define INSERT_CONTRACT(ch, data, len)                                                    \
__CPROVER_requires(CH_FULL_PRE(ch))                                                       \
/* data, when given, is a readable region (memcpy is called even for len == 0) */        \
__CPROVER_requires(((data) == NULL || INSERT_DATA_ALIAS_OK(data, len) || __CPROVER_is_fresh((data), (len) > 0 ? (len) : 1))) \
__CPROVER_requires(CH_GHOST_PRE(ch))                                                      \
__CPROVER_assigns(*(ch), VP_HEAP_GHOSTS, __CPROVER_object_whole((ch)->ch_buf))              \
__CPROVER_frees((ch)->ch_buf)                                                             \
__CPROVER_ensures(RV == 0 || RV == NNG_ENOMEM)                                            \
__CPROVER_ensures(RV != 0 ==> (!__CPROVER_was_freed(OLD((ch)->ch_buf)) && CH_UNCHANGED(ch))) \
__CPROVER_ensures(RV == 0 ==> CH_FULL_POST(ch))                                           \
__CPROVER_ensures(RV == 0 ==> ((len) <= SIZE_MAX - OLD((ch)->ch_len) && (ch)->ch_len == OLD((ch)->ch_len) + (len))) \
/* string prepend: new bytes first, every old byte moved up by len */                     \
__CPROVER_ensures((RV == 0 && g_k < OLD((ch)->ch_len)) ==> CH_BYTE_AT(ch, g_k + (len)))   \
__CPROVER_ensures((RV != 0 && g_k < (ch)->ch_len) ==> CH_BYTE_AT(ch, g_k))                \
__CPROVER_ensures((RV == 0 && (data) != NULL && g_j < (len)) ==> (ch)->ch_ptr[g_j] == ((const uint8_t *) (data))[g_j]) \
/* enough headroom: guaranteed success, buffer kept, data pointer moves down by len */    \
__CPROVER_ensures(((len) <= OLD(CH_OFF(ch))) ==> (RV == 0 && (ch)->ch_buf == OLD((ch)->ch_buf) && CH_OFF(ch) == OLD(CH_OFF(ch)) - (len) && VP_HEAP_DELTA(0, 0))) \
__CPROVER_ensures(RV != 0 ==> VP_HEAP_DELTA(0, 0))                                        \
__CPROVER_ensures(RV == 0 ==> ((ch)->ch_buf != OLD((ch)->ch_buf) ? VP_HEAP_DELTA(1, 1) : VP_HEAP_DELTA(0, 0)))

/* ---------------------------------------------------------------- trim_u32 */
#define TRIM_U32_CONTRACT(ch)                                                             \
__CPROVER_requires(CH_FULL_PRE(ch))                                                       \
__CPROVER_requires((ch)->ch_len >= 4) /* NNI_ASSERT in the code: caller obligation */     \
__CPROVER_requires(CH_GHOST_PRE(ch))                                                      \
__CPROVER_assigns((ch)->ch_len, (ch)->ch_ptr)                                             \
__CPROVER_ensures((ch)->ch_len == OLD((ch)->ch_len) - 4)                                  \
__CPROVER_ensures(CH_SAMEBUF_POST(ch))                                                    \
__CPROVER_ensures(RV == OLD_BE32((ch)->ch_ptr))                                           \
__CPROVER_ensures((g_k >= 4 && g_k < OLD((ch)->ch_len)) ==> CH_BYTE_AT(ch, g_k - 4))

/* the rest of the message is untouched by a body operation */
#define MSG_BODYOP_FRAME(m)                                                               \
__CPROVER_ensures((m)->m_header_len == OLD((m)->m_header_len) && (m)->m_refcnt.v == OLD((m)->m_refcnt.v) && (m)->m_pipe == OLD((m)->m_pipe))

#define MSG_HDR_PRE(m)                                                                    \
__CPROVER_requires(__CPROVER_is_fresh((m), sizeof(struct nng_msg)) && (m)->m_header_len <= MSG_HDRCAP && (m)->m_refcnt.v >= 1)

/* ============================================================ chunk layer */

static int nni_chunk_grow(nni_chunk *ch, size_t newsz, size_t headwanted)
__CPROVER_requires(__CPROVER_is_fresh(ch, sizeof(*ch)))
__CPROVER_requires((CH_EMPTY(ch) && newsz > 0) || CH_FULL_PRE(ch))
GROW_CONTRACT(ch, newsz, headwanted)
;

static void nni_chunk_free(nni_chunk *ch)
__CPROVER_requires(__CPROVER_is_fresh(ch, sizeof(*ch)))
__CPROVER_requires(CH_EMPTY(ch) || CH_FULL_PRE(ch))
__CPROVER_assigns(*ch, VP_HEAP_GHOSTS)
__CPROVER_frees(ch->ch_buf)
__CPROVER_ensures(CH_EMPTY(ch))
__CPROVER_ensures(VP_HEAP_DELTA(0, (OLD(ch->ch_cap) > 0 ? 1 : 0)))
__CPROVER_ensures(OLD(ch->ch_cap) > 0 ==> __CPROVER_was_freed(OLD(ch->ch_buf)))
;

static void nni_chunk_clear(nni_chunk *ch)
__CPROVER_requires(__CPROVER_is_fresh(ch, sizeof(*ch)) && CH_FULL_PRE(ch))
__CPROVER_assigns(ch->ch_len)
__CPROVER_ensures(ch->ch_len == 0 && CH_FULL_SCALAR(ch))
;

static int nni_chunk_chop(nni_chunk *ch, size_t len)
__CPROVER_requires(__CPROVER_is_fresh(ch, sizeof(*ch)))
CHOP_CONTRACT(ch, len)
;

static int nni_chunk_trim(nni_chunk *ch, size_t len)
__CPROVER_requires(__CPROVER_is_fresh(ch, sizeof(*ch)))
TRIM_CONTRACT(ch, len)
;

static int nni_chunk_dup(nni_chunk *dst, const nni_chunk *src)
__CPROVER_requires(__CPROVER_is_fresh(dst, sizeof(*dst)) && __CPROVER_is_fresh(src, sizeof(*src)) && CH_FULL_PRE(src))
__CPROVER_requires(CH_GHOST_PRE(src))
__CPROVER_assigns(*dst, VP_HEAP_GHOSTS)
__CPROVER_ensures(RV == 0 || RV == NNG_ENOMEM)
__CPROVER_ensures(RV == 0 ? VP_HEAP_DELTA(1, 0) : VP_HEAP_DELTA(0, 0))
__CPROVER_ensures(RV == 0 ==> (__CPROVER_is_fresh(dst->ch_buf, dst->ch_cap) && __CPROVER_pointer_in_range_dfcc(dst->ch_buf, dst->ch_ptr, dst->ch_buf + dst->ch_cap) && CH_FULL_SCALAR(dst)))
__CPROVER_ensures(RV == 0 ==> (dst->ch_cap == src->ch_cap && dst->ch_len == src->ch_len && CH_OFF(dst) == CH_OFF(src)))
__CPROVER_ensures((RV == 0 && g_k < dst->ch_len) ==> CH_BYTE_AT(dst, g_k))
;

static int nni_chunk_append(nni_chunk *ch, const void *data, size_t len)
__CPROVER_requires(__CPROVER_is_fresh(ch, sizeof(*ch)))
APPEND_CONTRACT(ch, data, len)
;

static size_t nni_chunk_room(nni_chunk *ch)
__CPROVER_requires(__CPROVER_is_fresh(ch, sizeof(*ch)) && ch->ch_len <= ch->ch_cap)
__CPROVER_assigns()
__CPROVER_ensures(RV == ch->ch_cap - ch->ch_len)
;

static int nni_chunk_insert(nni_chunk *ch, const void *data, size_t len)
__CPROVER_requires(__CPROVER_is_fresh(ch, sizeof(*ch)))
INSERT_CONTRACT(ch, data, len)
;

static uint32_t nni_chunk_trim_u32(nni_chunk *ch)
__CPROVER_requires(__CPROVER_is_fresh(ch, sizeof(*ch)))
TRIM_U32_CONTRACT(ch)
;

/* ============================================================ message layer */

int nni_msg_append(nni_msg *m, const void *data, size_t len)
MSG_HDR_PRE(m)
APPEND_CONTRACT(&m->m_body, data, len)
MSG_BODYOP_FRAME(m)
;

int nni_msg_insert(nni_msg *m, const void *data, size_t len)
MSG_HDR_PRE(m)
INSERT_CONTRACT(&m->m_body, data, len)
MSG_BODYOP_FRAME(m)
;

int nni_msg_trim(nni_msg *m, size_t len)
MSG_HDR_PRE(m)
TRIM_CONTRACT(&m->m_body, len)
MSG_BODYOP_FRAME(m)
;

int nni_msg_chop(nni_msg *m, size_t len)
MSG_HDR_PRE(m)
CHOP_CONTRACT(&m->m_body, len)
MSG_BODYOP_FRAME(m)
;

uint32_t nni_msg_trim_u32(nni_msg *m)
MSG_HDR_PRE(m)
TRIM_U32_CONTRACT(&m->m_body)
MSG_BODYOP_FRAME(m)
;

void nni_msg_clear(nni_msg *m)
MSG_HDR_PRE(m)
__CPROVER_requires(CH_FULL_PRE(&m->m_body))
__CPROVER_assigns(m->m_body.ch_len)
__CPROVER_ensures(m->m_body.ch_len == 0 && CH_FULL_SCALAR(&m->m_body))
;

int nni_msg_reserve(nni_msg *m, size_t capacity)
MSG_HDR_PRE(m)
__CPROVER_requires(CH_FULL_PRE(&m->m_body))
GROW_CONTRACT(&m->m_body, capacity, 0)
MSG_BODYOP_FRAME(m)
;

/* realloc: set the body length to sz; bytes below min(old,new) keep their value */
int nni_msg_realloc(nni_msg *m, size_t sz)
MSG_HDR_PRE(m)
__CPROVER_requires(CH_FULL_PRE(&m->m_body))
__CPROVER_requires(CH_GHOST_PRE(&m->m_body))
__CPROVER_assigns(m->m_body, VP_HEAP_GHOSTS, __CPROVER_object_whole(m->m_body.ch_buf))
__CPROVER_frees(m->m_body.ch_buf)
__CPROVER_ensures(RV == 0 || RV == NNG_ENOMEM)
__CPROVER_ensures(RV != 0 ==> (!__CPROVER_was_freed(OLD(m->m_body.ch_buf)) && CH_UNCHANGED(&m->m_body)))
__CPROVER_ensures(RV == 0 ==> CH_FULL_POST(&m->m_body))
__CPROVER_ensures(RV == 0 ==> m->m_body.ch_len == sz)
__CPROVER_ensures(RV != 0 ==> VP_HEAP_DELTA(0, 0))
/* shrinking (or growing within the room behind the data) never fails and never moves */
__CPROVER_ensures((sz <= OLD(m->m_body.ch_cap) - OLD(CH_OFF(&m->m_body))) ==> (RV == 0 && m->m_body.ch_ptr == OLD(m->m_body.ch_ptr) && VP_HEAP_DELTA(0, 0)))
__CPROVER_ensures((g_k < OLD(m->m_body.ch_len) && g_k < m->m_body.ch_len) ==> CH_BYTE_AT(&m->m_body, g_k))
MSG_BODYOP_FRAME(m)
;

size_t nni_msg_capacity(nni_msg *m)
MSG_HDR_PRE(m)
__CPROVER_requires(CH_FULL_PRE(&m->m_body))
__CPROVER_assigns()
/* capacity never falls below length */
__CPROVER_ensures(RV == m->m_body.ch_cap - CH_OFF(&m->m_body) && RV >= m->m_body.ch_len)
;

void *nni_msg_header(nni_msg *m)
__CPROVER_requires(__CPROVER_is_fresh(m, sizeof(struct nng_msg)))
__CPROVER_assigns()
__CPROVER_ensures(RV == (void *) m->m_header_buf)
;

size_t nni_msg_header_len(const nni_msg *m)
__CPROVER_requires(__CPROVER_is_fresh(m, sizeof(struct nng_msg)))
__CPROVER_assigns()
__CPROVER_ensures(RV == m->m_header_len)
;

void *nni_msg_body(nni_msg *m)
__CPROVER_requires(__CPROVER_is_fresh(m, sizeof(struct nng_msg)))
__CPROVER_assigns()
__CPROVER_ensures(RV == (void *) m->m_body.ch_ptr)
;

size_t nni_msg_len(const nni_msg *m)
__CPROVER_requires(__CPROVER_is_fresh(m, sizeof(struct nng_msg)))
__CPROVER_assigns()
__CPROVER_ensures(RV == m->m_body.ch_len)
;

/* ---- header string: fixed capacity 64, EINVAL and no change beyond it ---- */

int nni_msg_header_append(nni_msg *m, const void *data, size_t len)
MSG_HDR_PRE(m)
__CPROVER_requires(__CPROVER_is_fresh(data, len > 0 ? len : 1))
__CPROVER_requires(HDR_GHOST_PRE(m))
__CPROVER_assigns(m->m_header_len, __CPROVER_object_from(m->m_header_buf))
__CPROVER_ensures(RV == 0 || RV == NNG_EINVAL)
__CPROVER_ensures((RV == NNG_EINVAL) == (OLD(m->m_header_len) + len > MSG_HDRCAP))
__CPROVER_ensures(RV != 0 ==> m->m_header_len == OLD(m->m_header_len))
__CPROVER_ensures(RV == 0 ==> m->m_header_len == OLD(m->m_header_len) + len)
__CPROVER_ensures(m->m_header_len <= MSG_HDRCAP)
__CPROVER_ensures(g_hk < OLD(m->m_header_len) ==> HDR(m)[g_hk] == g_hb)
__CPROVER_ensures((RV == 0 && g_j < len) ==> HDR(m)[OLD(m->m_header_len) + g_j] == ((const uint8_t *) data)[g_j])
;

int nni_msg_header_insert(nni_msg *m, const void *data, size_t len)
MSG_HDR_PRE(m)
__CPROVER_requires(__CPROVER_is_fresh(data, len > 0 ? len : 1))
__CPROVER_requires(HDR_GHOST_PRE(m))
__CPROVER_assigns(m->m_header_len, __CPROVER_object_from(m->m_header_buf))
__CPROVER_ensures(RV == 0 || RV == NNG_EINVAL)
__CPROVER_ensures((RV == NNG_EINVAL) == (OLD(m->m_header_len) + len > MSG_HDRCAP))
__CPROVER_ensures(RV != 0 ==> m->m_header_len == OLD(m->m_header_len))
__CPROVER_ensures(RV == 0 ==> m->m_header_len == OLD(m->m_header_len) + len)
__CPROVER_ensures(m->m_header_len <= MSG_HDRCAP)
__CPROVER_ensures((RV == 0 && g_hk < OLD(m->m_header_len)) ==> HDR(m)[g_hk + len] == g_hb)
__CPROVER_ensures((RV != 0 && g_hk < m->m_header_len) ==> HDR(m)[g_hk] == g_hb)
__CPROVER_ensures((RV == 0 && g_j < len) ==> HDR(m)[g_j] == ((const uint8_t *) data)[g_j])
;

int nni_msg_header_trim(nni_msg *m, size_t len)
MSG_HDR_PRE(m)
__CPROVER_requires(HDR_GHOST_PRE(m))
__CPROVER_assigns(m->m_header_len, __CPROVER_object_from(m->m_header_buf))
__CPROVER_ensures(RV == 0 || RV == NNG_EINVAL)
__CPROVER_ensures((RV == NNG_EINVAL) == (len > OLD(m->m_header_len)))
__CPROVER_ensures(RV != 0 ==> m->m_header_len == OLD(m->m_header_len))
__CPROVER_ensures(RV == 0 ==> m->m_header_len == OLD(m->m_header_len) - len)
__CPROVER_ensures((RV == 0 && g_hk >= len && g_hk < OLD(m->m_header_len)) ==> HDR(m)[g_hk - len] == g_hb)
__CPROVER_ensures((RV != 0 && g_hk < m->m_header_len) ==> HDR(m)[g_hk] == g_hb)
;

int nni_msg_header_chop(nni_msg *m, size_t len)
MSG_HDR_PRE(m)
__CPROVER_assigns(m->m_header_len)
__CPROVER_ensures(RV == 0 || RV == NNG_EINVAL)
__CPROVER_ensures((RV == NNG_EINVAL) == (len > OLD(m->m_header_len)))
__CPROVER_ensures(RV != 0 ==> m->m_header_len == OLD(m->m_header_len))
__CPROVER_ensures(RV == 0 ==> m->m_header_len == OLD(m->m_header_len) - len)
;

uint32_t nni_msg_header_trim_u32(nni_msg *m)
MSG_HDR_PRE(m)
__CPROVER_requires(m->m_header_len >= 4) /* NNI_ASSERT in the code */
__CPROVER_requires(HDR_GHOST_PRE(m))
__CPROVER_assigns(m->m_header_len, __CPROVER_object_from(m->m_header_buf))
__CPROVER_ensures(m->m_header_len == OLD(m->m_header_len) - 4)
__CPROVER_ensures(RV == OLD_BE32(HDR(m)))
__CPROVER_ensures((g_hk >= 4 && g_hk < OLD(m->m_header_len)) ==> HDR(m)[g_hk - 4] == g_hb)
;

/* the code panics when header_len + 4 >= 64 (note: >=, so the 16th word is
 * refused although it would fit); callers must stay below */
void nni_msg_header_append_u32(nni_msg *m, uint32_t val)
MSG_HDR_PRE(m)
__CPROVER_requires(m->m_header_len + 4 < MSG_HDRCAP)
__CPROVER_requires(HDR_GHOST_PRE(m))
__CPROVER_assigns(m->m_header_len, __CPROVER_object_from(m->m_header_buf))
__CPROVER_ensures(m->m_header_len == OLD(m->m_header_len) + 4)
__CPROVER_ensures(m->m_header_len <= MSG_HDRCAP)
__CPROVER_ensures(BE32(HDR(m) + OLD(m->m_header_len)) == val)
__CPROVER_ensures(g_hk < OLD(m->m_header_len) ==> HDR(m)[g_hk] == g_hb)
;

uint32_t nni_msg_header_peek_u32(nni_msg *m)
__CPROVER_requires(__CPROVER_is_fresh(m, sizeof(struct nng_msg)))
__CPROVER_assigns()
__CPROVER_ensures(RV == BE32(HDR(m)))
;

void nni_msg_header_poke_u32(nni_msg *m, uint32_t val)
__CPROVER_requires(__CPROVER_is_fresh(m, sizeof(struct nng_msg)) && m->m_header_len <= MSG_HDRCAP)
__CPROVER_requires(HDR_GHOST_PRE(m))
__CPROVER_assigns(__CPROVER_object_from(m->m_header_buf))
__CPROVER_ensures(BE32(HDR(m)) == val)
__CPROVER_ensures((g_hk >= 4 && g_hk < MSG_HDRCAP && g_hk < m->m_header_len) ==> HDR(m)[g_hk] == g_hb)
;

void nni_msg_header_clear(nni_msg *m)
__CPROVER_requires(__CPROVER_is_fresh(m, sizeof(struct nng_msg)))
__CPROVER_assigns(m->m_header_len)
__CPROVER_ensures(m->m_header_len == 0)
;

void nni_msg_set_pipe(nni_msg *m, uint32_t pid)
__CPROVER_requires(__CPROVER_is_fresh(m, sizeof(struct nng_msg)))
__CPROVER_assigns(m->m_pipe)
__CPROVER_ensures(m->m_pipe == pid)
;

uint32_t nni_msg_get_pipe(const nni_msg *m)
__CPROVER_requires(__CPROVER_is_fresh(m, sizeof(struct nng_msg)))
__CPROVER_assigns()
__CPROVER_ensures(RV == m->m_pipe)
;

/* ---- reference counting / ownership ---- */

void nni_msg_clone(nni_msg *m)
__CPROVER_requires(__CPROVER_is_fresh(m, sizeof(struct nng_msg)) && m->m_refcnt.v >= 1 && m->m_refcnt.v < INT32_MAX)
__CPROVER_assigns(m->m_refcnt)
__CPROVER_ensures(m->m_refcnt.v == OLD(m->m_refcnt.v) + 1)
;

bool nni_msg_shared(nni_msg *m)
__CPROVER_requires(__CPROVER_is_fresh(m, sizeof(struct nng_msg)))
__CPROVER_assigns()
__CPROVER_ensures(RV == (m->m_refcnt.v > 1))
;

/* free: drops one reference; the last one releases the body buffer and the
 * structure, each exactly once and with its allocation size (sized-free
 * assertions in the nni_free stub) */
void nni_msg_free(nni_msg *m)
__CPROVER_requires(m == NULL || (__CPROVER_is_fresh(m, sizeof(struct nng_msg)) && m->m_header_len <= MSG_HDRCAP && m->m_refcnt.v >= 1 && CH_FULL_PRE(&m->m_body)))
__CPROVER_assigns(m != NULL && m->m_refcnt.v == 1: *m; m != NULL: m->m_refcnt; VP_HEAP_GHOSTS)
__CPROVER_frees(m != NULL: m, m->m_body.ch_buf)
__CPROVER_ensures((m != NULL && OLD(m->m_refcnt.v) == 1) ==> (VP_HEAP_DELTA(0, 2) && __CPROVER_was_freed(OLD(m->m_body.ch_buf)) && __CPROVER_was_freed(m)))
__CPROVER_ensures((m != NULL && OLD(m->m_refcnt.v) > 1) ==> (VP_HEAP_DELTA(0, 0) && !__CPROVER_was_freed(m) && !__CPROVER_was_freed(OLD(m->m_body.ch_buf)) && m->m_refcnt.v == OLD(m->m_refcnt.v) - 1))
__CPROVER_ensures(m == NULL ==> VP_HEAP_DELTA(0, 0))
;

int nni_msg_alloc(nni_msg **mp, size_t sz)
__CPROVER_requires(__CPROVER_is_fresh(mp, sizeof(*mp)))
__CPROVER_assigns(*mp, VP_HEAP_GHOSTS)
__CPROVER_ensures(RV == 0 || RV == NNG_ENOMEM)
__CPROVER_ensures(RV != 0 ==> *mp == OLD(*mp))
/* failure leaks nothing: every block obtained was given back; success owns exactly struct + buffer */
__CPROVER_ensures(RV != 0 ==> (g_alloc_ok - OLD(g_alloc_ok) == g_free_calls - OLD(g_free_calls)))
__CPROVER_ensures(RV == 0 ==> VP_HEAP_DELTA(2, 0))
__CPROVER_ensures(RV == 0 ==> (__CPROVER_is_fresh(*mp, sizeof(struct nng_msg)) && (*mp)->m_header_len == 0 && (*mp)->m_refcnt.v == 1))
__CPROVER_ensures(RV == 0 ==> ((*mp)->m_body.ch_cap > 0 && __CPROVER_is_fresh((*mp)->m_body.ch_buf, (*mp)->m_body.ch_cap) && __CPROVER_pointer_in_range_dfcc((*mp)->m_body.ch_buf, (*mp)->m_body.ch_ptr, (*mp)->m_body.ch_buf + (*mp)->m_body.ch_cap) && CH_FULL_SCALAR(&(*mp)->m_body)))
__CPROVER_ensures(RV == 0 ==> (*mp)->m_body.ch_len == sz)
/* headroom rule: 32 bytes in front and behind unless a power of two >= 1024 */
__CPROVER_ensures((RV == 0 && (sz < 1024 || (sz & (sz - 1)) != 0)) ==> (CH_OFF(&(*mp)->m_body) == 32 && (*mp)->m_body.ch_cap == sz + 64))
__CPROVER_ensures((RV == 0 && !(sz < 1024 || (sz & (sz - 1)) != 0)) ==> (CH_OFF(&(*mp)->m_body) == 0 && (*mp)->m_body.ch_cap == sz))
;

int nni_msg_dup(nni_msg **dup, const nni_msg *src)
__CPROVER_requires(__CPROVER_is_fresh(dup, sizeof(*dup)) && __CPROVER_is_fresh(src, sizeof(struct nng_msg)) && src->m_header_len <= MSG_HDRCAP && CH_FULL_PRE(&src->m_body))
__CPROVER_requires(CH_GHOST_PRE(&src->m_body) && HDR_GHOST_PRE(src))
__CPROVER_assigns(*dup, VP_HEAP_GHOSTS)
__CPROVER_ensures(RV == 0 || RV == NNG_ENOMEM)
__CPROVER_ensures(RV != 0 ==> *dup == OLD(*dup))
__CPROVER_ensures(RV != 0 ==> (g_alloc_ok - OLD(g_alloc_ok) == g_free_calls - OLD(g_free_calls)))
__CPROVER_ensures(RV == 0 ==> VP_HEAP_DELTA(2, 0))
/* equal ... */
__CPROVER_ensures(RV == 0 ==> (__CPROVER_is_fresh(*dup, sizeof(struct nng_msg)) && (*dup)->m_header_len == src->m_header_len && (*dup)->m_refcnt.v == 1 && (*dup)->m_pipe == src->m_pipe))
__CPROVER_ensures(RV == 0 ==> (__CPROVER_is_fresh((*dup)->m_body.ch_buf, (*dup)->m_body.ch_cap) && __CPROVER_pointer_in_range_dfcc((*dup)->m_body.ch_buf, (*dup)->m_body.ch_ptr, (*dup)->m_body.ch_buf + (*dup)->m_body.ch_cap) && CH_FULL_SCALAR(&(*dup)->m_body)))
__CPROVER_ensures(RV == 0 ==> ((*dup)->m_body.ch_len == src->m_body.ch_len && (*dup)->m_body.ch_cap == src->m_body.ch_cap && CH_OFF(&(*dup)->m_body) == CH_OFF(&src->m_body)))
__CPROVER_ensures((RV == 0 && g_k < src->m_body.ch_len) ==> (*dup)->m_body.ch_ptr[g_k] == g_b)
__CPROVER_ensures((RV == 0 && g_hk < src->m_header_len) ==> HDR(*dup)[g_hk] == g_hb)
/* ... and independent (is_fresh above: distinct objects; the source is not in the assigns clause) */
;

/* unique: returns an unshared message; exactly one reference on the original
 * is dropped in every outcome other than "already unique" */
nni_msg *nni_msg_unique(nni_msg *m)
__CPROVER_requires(__CPROVER_is_fresh(m, sizeof(struct nng_msg)) && m->m_header_len <= MSG_HDRCAP && m->m_refcnt.v >= 1 && CH_FULL_PRE(&m->m_body))
__CPROVER_requires(CH_GHOST_PRE(&m->m_body) && HDR_GHOST_PRE(m))
__CPROVER_assigns(*m, VP_HEAP_GHOSTS)
__CPROVER_frees(m, m->m_body.ch_buf)
__CPROVER_ensures(OLD(m->m_refcnt.v) == 1 ==> (RV == m && m->m_refcnt.v == 1 && VP_HEAP_DELTA(0, 0)))
__CPROVER_ensures(OLD(m->m_refcnt.v) > 1 ==> (RV != m && m->m_refcnt.v == OLD(m->m_refcnt.v) - 1 && (g_alloc_ok - OLD(g_alloc_ok) == g_free_calls - OLD(g_free_calls) + (RV != NULL ? 2 : 0))))
__CPROVER_ensures((OLD(m->m_refcnt.v) > 1 && RV != NULL) ==> (__CPROVER_is_fresh(RV, sizeof(struct nng_msg)) && RV->m_refcnt.v == 1 && RV->m_header_len == m->m_header_len && RV->m_body.ch_len == m->m_body.ch_len))
__CPROVER_ensures((OLD(m->m_refcnt.v) > 1 && RV != NULL) ==> (__CPROVER_is_fresh(RV->m_body.ch_buf, RV->m_body.ch_cap) && __CPROVER_pointer_in_range_dfcc(RV->m_body.ch_buf, RV->m_body.ch_ptr, RV->m_body.ch_buf + RV->m_body.ch_cap) && CH_FULL_SCALAR(&RV->m_body)))
__CPROVER_ensures((OLD(m->m_refcnt.v) > 1 && RV != NULL && g_k < RV->m_body.ch_len) ==> RV->m_body.ch_ptr[g_k] == g_b)
__CPROVER_ensures((OLD(m->m_refcnt.v) > 1 && RV != NULL && g_hk < RV->m_header_len) ==> HDR(RV)[g_hk] == g_hb)
;

/* pull_up (ownership part; C03/C01): the result is unshared with an empty header and
 * length = header length + body length; on failure (NULL) the ORIGINAL IS STILL THE
 * CALLER'S (not released: message.h says the caller frees it); on success by copy
 * exactly one reference on the original is dropped.  (Byte content is not
 * claimed: two memcpy into one new buffer exceed the tool, see DESIGN section 9.) */
nni_msg *nni_msg_pull_up(nni_msg *m)
__CPROVER_requires(__CPROVER_is_fresh(m, sizeof(struct nng_msg)) && m->m_header_len <= MSG_HDRCAP && m->m_refcnt.v >= 1 && CH_FULL_PRE(&m->m_body))
__CPROVER_requires(CH_GHOST_PRE(&m->m_body) && HDR_GHOST_PRE(m))
__CPROVER_assigns(*m, VP_HEAP_GHOSTS, __CPROVER_object_whole(m->m_body.ch_buf))
__CPROVER_frees(m, m->m_body.ch_buf)
/* failure: nothing released, nothing changed on the original */
__CPROVER_ensures(RV == NULL ==> (!__CPROVER_was_freed(m) && !__CPROVER_was_freed(OLD(m->m_body.ch_buf)) && m->m_refcnt.v == OLD(m->m_refcnt.v) && m->m_header_len == OLD(m->m_header_len) && m->m_body.ch_len == OLD(m->m_body.ch_len) && (g_alloc_ok - OLD(g_alloc_ok) == g_free_calls - OLD(g_free_calls))))
/* in place (unshared, enough room) */
__CPROVER_ensures(RV == m ==> (OLD(m->m_refcnt.v) == 1 && m->m_refcnt.v == 1 && m->m_header_len == 0 && m->m_body.ch_len == OLD(m->m_body.ch_len) + OLD(m->m_header_len) && CH_FULL_SCALAR(&m->m_body)))
/* by copy: a new unshared message; one reference on the original dropped (released if it was the last) */
__CPROVER_ensures((RV != NULL && RV != m) ==> (RV->m_header_len == 0 && RV->m_refcnt.v == 1 && RV->m_body.ch_len == OLD(m->m_body.ch_len) + OLD(m->m_header_len)))
__CPROVER_ensures((RV != NULL && RV != m && OLD(m->m_refcnt.v) > 1) ==> (!__CPROVER_was_freed(m) && m->m_refcnt.v == OLD(m->m_refcnt.v) - 1))
__CPROVER_ensures((RV != NULL && RV != m && OLD(m->m_refcnt.v) == 1) ==> __CPROVER_was_freed(m))
;

/* clang-format on */
#endif
