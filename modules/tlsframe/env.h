/* Environment of tls.c framing (ASSUMED models, ghost state in ghost.h).
 *
 *  - stream layer: nng_stream_send/recv/close only record the request; the
 *    completion (result, byte count) is the symbolic pre-state of the next
 *    callback invocation;
 *  - user aio wait queues (recvq/sendq): ghost count + the first two members;
 *    when the head leaves, the second becomes head and the new second is an
 *    unknown non-NULL aio (never looked into by the functions under contract);
 *  - endpoint lists of pipes: ghost count + membership/position of the pipe
 *    under test;
 *  - completions, pipe statistics, pipe close/release: recorded;
 *  - messages: heap objects (struct nng_msg of ghost.h), allocation may fail. */
#ifndef VP_TLSFRAME_ENV_H
#define VP_TLSFRAME_ENV_H

/* ---- messages ---------------------------------------------------------- */
int
nni_msg_alloc(nni_msg **mp, size_t sz)
{
	nni_msg *m;
	g_msg_alloc_calls++;
	g_msg_alloc_sz = sz;
	if ((m = malloc(sizeof(*m))) == NULL) {
		return (NNG_ENOMEM);
	}
	if ((m->vm_body = malloc(sz ? sz : 1)) == NULL) {
		free(m);
		return (NNG_ENOMEM);
	}
	m->vm_hlen = 0;
	m->vm_blen = sz;
	g_alloc_ok++;
	*mp = m;
	return (0);
}
void
nni_msg_free(nni_msg *m)
{
	if (m != NULL) {
		if (g_msg_freed == g_j) {
			g_msg_freed_at_j = m;
		}
		g_msg_freed++;
		g_msg_freed_last = m;
		free(m->vm_body);
		free(m);
	}
}
size_t nni_msg_len(const nni_msg *m) { return (m->vm_blen); }
size_t nni_msg_header_len(const nni_msg *m) { return (m->vm_hlen); }
void  *nni_msg_body(nni_msg *m) { return (m->vm_body); }
void  *nni_msg_header(nni_msg *m) { return (&m->vm_hdr[0]); }

/* ---- lists ------------------------------------------------------------- */
static void
vp_aioq_pop(vp_aioq *q)
{
	/* the head leaves: the one behind it becomes head; who is behind that one
	 * is unknown (some aio, not NULL) */
	q->n--;
	q->head = q->next;
	if (q->n >= 2) {
		nni_aio *x = nondet_ptr();
		/* ASSUMED list invariants: no aio twice in a queue, and an aio
		 * waits in at most one queue (one list node per aio) */
		vp_aioq *o = (q == &g_recvq) ? &g_sendq : &g_recvq;
		__CPROVER_assume(x != NULL && x != q->head);
		__CPROVER_assume(o->n == 0 || x != o->head);
		q->next = x;
	} else {
		q->next = NULL;
	}
}
static tlstran_pipe *
vp_other_pipe(void)
{
	tlstran_pipe *o = malloc(sizeof(*o));
	__CPROVER_assume(o != NULL);
	return (o);
}
tlstran_pipe *g_other_pipe; /* the pipe in front of ours on waitpipes, once looked at */

void *
nni_list_first(const nni_list *l)
{
	if (l == g_recvq_addr) {
		return (g_recvq.n ? g_recvq.head : NULL);
	}
	if (l == g_sendq_addr) {
		return (g_sendq.n ? g_sendq.head : NULL);
	}
	__CPROVER_assert(l == g_waitq_addr, "list_first: a list of this model");
	if (g_waitq.n == 0) {
		return (NULL);
	}
	if (g_waitq.has_p && g_waitq.p_first) {
		return (g_the_pipe);
	}
	if (g_other_pipe == NULL) {
		g_other_pipe = vp_other_pipe();
	}
	return (g_other_pipe);
}
int
nni_list_empty(nni_list *l)
{
	__CPROVER_assert(l == g_recvq_addr || l == g_sendq_addr, "list_empty: an aio queue of this model");
	return (l == g_recvq_addr ? g_recvq.n == 0 : g_sendq.n == 0);
}
void
nni_list_remove(nni_list *l, void *item)
{
	if (l == g_recvq_addr || l == g_sendq_addr) {
		vp_aioq *q = (l == g_recvq_addr) ? &g_recvq : &g_sendq;
		__CPROVER_assert(q->n > 0 && item == q->head, "list remove: item is the head of that queue");
		vp_aioq_pop(q);
		return;
	}
	__CPROVER_assert(l == g_negoq_addr || l == g_waitq_addr, "list_remove: a list of this model");
	vp_pipeq *pq = (l == g_negoq_addr) ? &g_negoq : &g_waitq;
	if (item == g_the_pipe) {
		__CPROVER_assert(pq->has_p && pq->n > 0, "list remove: the pipe is on that list");
		pq->has_p   = false;
		pq->p_first = false;
		pq->n--;
	} else {
		__CPROVER_assert(pq->n > (pq->has_p ? 1 : 0) && item == g_other_pipe && !pq->p_first, "list remove: the other pipe is the first of that list");
		pq->n--;
		g_other_pipe = NULL;
		pq->p_first  = pq->has_p && (pq->n == 1 || nondet_bool());
	}
}
void
nni_list_append(nni_list *l, void *item)
{
	__CPROVER_assert((l == g_negoq_addr || l == g_waitq_addr) && item == g_the_pipe, "list_append: the pipe under test onto an endpoint list");
	vp_pipeq *pq = (l == g_negoq_addr) ? &g_negoq : &g_waitq;
	__CPROVER_assert(!g_negoq.has_p && !g_waitq.has_p, "list_append: the pipe is not on another list (shared list node)");
	pq->has_p   = true;
	pq->p_first = (pq->n == 0);
	pq->n++;
}
void
nni_aio_list_remove(nni_aio *aio)
{
	__CPROVER_assert(aio != NULL, "aio_list_remove: aio is not NULL");
	if (g_recvq.n > 0 && aio == g_recvq.head) {
		vp_aioq_pop(&g_recvq);
	} else {
		__CPROVER_assert(g_sendq.n > 0 && aio == g_sendq.head, "aio_list_remove: aio is the head of a wait queue");
		vp_aioq_pop(&g_sendq);
	}
}

/* ---- completions ------------------------------------------------------- */
static void
vp_fin(nni_aio *aio, nng_err rv, size_t count, bool sync)
{
	__CPROVER_assert(aio != NULL, "completion of a NULL aio");
	if (g_fin_calls == g_fin_mark) {
		g_fin_mark_rv = (int) rv;
	}
	g_fin_calls++;
	g_fin_last       = aio;
	g_fin_last_rv    = (int) rv;
	g_fin_last_count = count;
	g_fin_last_sync  = sync;
}
void nni_aio_finish(nni_aio *aio, nng_err rv, size_t count) { vp_fin(aio, rv, count, false); }
void nni_aio_finish_sync(nni_aio *aio, nng_err rv, size_t count) { vp_fin(aio, rv, count, true); }
void nni_aio_finish_error(nni_aio *aio, nng_err rv) { vp_fin(aio, rv, 0, false); }

/* ---- stream layer ------------------------------------------------------ */
void nng_stream_send(nng_stream *s, nng_aio *aio) { g_send_calls++; g_io_conn = s; g_io_aio = aio; }
void nng_stream_recv(nng_stream *s, nng_aio *aio) { g_recv_calls++; g_io_conn = s; g_io_aio = aio; }
void nng_stream_close(nng_stream *s) { g_sclose_calls++; g_io_conn = s; }
const nng_sockaddr *nng_stream_peer_addr(nng_stream *s) { (void) s; return ((const nng_sockaddr *) nondet_ptr()); }
const char *nng_str_sockaddr(const nng_sockaddr *sa, char *buf, size_t bufsz) { (void) sa; (void) bufsz; return (buf); }
void nng_log_warn(const char *msgid, const char *msg, ...) { (void) msgid; (void) msg; }

/* ---- pipe layer -------------------------------------------------------- */
void nni_pipe_bump_rx(nni_pipe *p, size_t n) { (void) p; g_bump_rx_calls++; g_bump_last = n; }
void nni_pipe_bump_tx(nni_pipe *p, size_t n) { (void) p; g_bump_tx_calls++; g_bump_last = n; }
void nni_pipe_bump_error(nni_pipe *p, int rv) { (void) p; (void) rv; g_bump_err_calls++; }
void nni_pipe_close(nni_pipe *p) { (void) p; g_pipe_close_calls++; }
void nni_pipe_rele(nni_pipe *p) { (void) p; g_pipe_rele_calls++; }
uint32_t nni_pipe_sock_id(nni_pipe *p) { (void) p; return (nondet_u32()); }
uint32_t nni_pipe_id(nni_pipe *p) { (void) p; return (nondet_u32()); }
#endif
