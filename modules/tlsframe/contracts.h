/* Contracts for the framing steps of src/sp/transport/tls/tls.c.
 * Every top-level postcondition is taken from C01/C11 and the SP-over-TCP
 * mapping (see spec.h), not from the code.  "Nothing else changes" is carried
 * by the assigns clauses: no field of the pipe outside them may be written. */
#ifndef VP_TLSFRAME_CONTRACTS_H
#define VP_TLSFRAME_CONTRACTS_H
/* clang-format off */
#define RV __CPROVER_return_value
#define OLD(e) __CPROVER_old(e)
#define P ((tlstran_pipe *) arg)
#define TF_FIN_GHOSTS g_fin_calls, g_fin_last, g_fin_last_rv, g_fin_last_count, g_fin_last_sync, g_fin_mark_rv
/* every completion made by this call carried result `code` (g_fin_mark: free ghost sequence number) */
#define TF_FIN_ALL(code) ((g_fin_mark >= OLD(g_fin_calls) && g_fin_mark < g_fin_calls) ==> g_fin_mark_rv == (int) (code))
#define TF_IO_GHOSTS g_send_calls, g_recv_calls, g_io_conn, g_io_aio
#define TF_MSG_GHOSTS g_msg_alloc_calls, g_msg_alloc_sz, g_alloc_ok, g_msg_freed, g_msg_freed_at_j, g_msg_freed_last
#define TF_BUMP_GHOSTS g_bump_rx_calls, g_bump_tx_calls, g_bump_err_calls, g_bump_last
#define TF_LISTS_PRE(p) (g_recvq_addr == &(p)->recvq && g_sendq_addr == &(p)->sendq && g_the_pipe == (void *) (p))
#define TF_ENV_PRE(p) (TF_LISTS_PRE(p) && VP_NO_LOCK_HELD)
#define TF_IOV_OF(a) (a).a_nio, __CPROVER_object_upto(&(a).a_iov[0], sizeof((a).a_iov))
#define TF_FIN_IS(aio, rv, cnt) (g_fin_calls == OLD(g_fin_calls) + 1 && g_fin_last == (aio) && g_fin_last_rv == (int) (rv) && g_fin_last_count == (cnt))
#define TF_NO_IO (g_send_calls == OLD(g_send_calls) && g_recv_calls == OLD(g_recv_calls))
#define TF_RECV_ARMED(p) (g_recv_calls == OLD(g_recv_calls) + 1 && g_send_calls == OLD(g_send_calls) && g_io_aio == &(p)->rxaio && g_io_conn == (p)->tls)
#define TF_SEND_ARMED(p) (g_send_calls == OLD(g_send_calls) + 1 && g_recv_calls == OLD(g_recv_calls) && g_io_aio == &(p)->txaio && g_io_conn == (p)->tls)
#define TF_HDR_READ(p) ((p)->rxaio.a_nio == 1 && (p)->rxaio.a_iov[0].iov_buf == (void *) &(p)->rxlen[0] && (p)->rxaio.a_iov[0].iov_len == 8)

/* ---- receive: arm the next header read --------------------------------- */
/* tls.c difference to tcp.c (deliberate): the pipe keeps no `closed` state of its own; after
 * tlstran_pipe_close the closed rxaio/txaio make every later stream operation complete with an
 * error, which reaches the queued aio through the callback.  recv_start therefore arms
 * unconditionally; its callers call it only with a receiver queued. */
static void tlstran_pipe_recv_start(tlstran_pipe *p)
__CPROVER_requires(__CPROVER_is_fresh(p, sizeof(*p)) && TF_LISTS_PRE(p) && TF_Q_OK(g_recvq) && p->rxmsg == NULL)
__CPROVER_assigns(TF_IOV_OF(p->rxaio), TF_IO_GHOSTS)
/* a read of exactly the 8 size bytes is armed */
__CPROVER_ensures(TF_HDR_READ(p) && TF_RECV_ARMED(p))
;

/* ---- receive completion ------------------------------------------------ */
#define RX0 (P->rxaio.a_iov[0])
#define O_RV   OLD(P->rxaio.a_result)
#define O_N    OLD(P->rxaio.a_count)
#define O_R    OLD(P->rxaio.a_iov[0].iov_len)
#define O_BUF  ((uint8_t *) OLD(P->rxaio.a_iov[0].iov_buf))
#define O_HEAD OLD(g_recvq.head)
#define O_QN   OLD(g_recvq.n)
#define O_MSG  OLD(P->rxmsg)
#define RX_ERR  (O_RV != 0)
#define RX_PART (!RX_ERR && O_N < O_R)
#define RX_DONE (!RX_ERR && O_N == O_R)
#define RX_LEN  TF_BE64(P->rxlen)
/* refused: nothing further will be read from this connection (the stream may stand in the middle of a frame), so EVERY
 * queued receiver is completed with the error, once each -- none stays queued with nothing in flight for it (C02) */
#define RX_REFUSED(code) (g_recvq.n == 0 && g_fin_calls == OLD(g_fin_calls) + O_QN && g_fin_last_rv == (int) (code) && g_fin_last_count == 0 && TF_FIN_ALL(code) && P->rxmsg == NULL && TF_NO_IO && O_HEAD->a_msg == OLD(g_recvq.head->a_msg) && g_bump_err_calls == OLD(g_bump_err_calls) + 1)
#define RX_NEXT_ARMED ((g_recvq.n > 0) ? (TF_HDR_READ(P) && TF_RECV_ARMED(P)) : TF_NO_IO)

static void tlstran_pipe_recv_cb(void *arg)
__CPROVER_requires(__CPROVER_is_fresh(arg, sizeof(tlstran_pipe)) && TF_ENV_PRE(P))
/* a read is in flight only while a receiver is queued (established by recv_start / kept by this function) */
__CPROVER_requires(g_recvq.n >= 1 && __CPROVER_is_fresh(g_recvq.head, sizeof(nni_aio)) && TF_Q_OK(g_recvq))
__CPROVER_requires(P->rxaio.a_nio == 1 && RX0.iov_len >= 1)
#ifdef TF_RX_BODY
/* body phase: the vector is the not yet filled tail of the body of rxmsg */
__CPROVER_requires(TF_MSG_PRE(P->rxmsg) && P->rxmsg->vm_blen >= 1)
__CPROVER_requires(__CPROVER_pointer_in_range_dfcc(P->rxmsg->vm_body, RX0.iov_buf, P->rxmsg->vm_body + (P->rxmsg->vm_blen - 1)))
__CPROVER_requires(RX0.iov_len == P->rxmsg->vm_blen - (size_t) ((uint8_t *) RX0.iov_buf - P->rxmsg->vm_body))
#else
/* header phase: the vector is the not yet filled tail of the 8 size bytes */
__CPROVER_requires(P->rxmsg == NULL)
__CPROVER_requires(__CPROVER_pointer_in_range_dfcc(&P->rxlen[0], RX0.iov_buf, &P->rxlen[7]))
__CPROVER_requires(RX0.iov_len == 8 - (size_t) ((uint8_t *) RX0.iov_buf - &P->rxlen[0]))
#endif
/* ASSUMED about the stream layer: a successful completion reports at most what was asked for */
__CPROVER_requires(P->rxaio.a_result != 0 || P->rxaio.a_count <= RX0.iov_len)
__CPROVER_assigns(P->rxmsg, TF_IOV_OF(P->rxaio), g_recvq, g_recvq.head->a_msg, TF_FIN_GHOSTS, TF_IO_GHOSTS, TF_MSG_GHOSTS, TF_BUMP_GHOSTS, VP_SYNC_GHOSTS)
#ifdef TF_RX_BODY
__CPROVER_frees(P->rxmsg, P->rxmsg->vm_body)
#endif
__CPROVER_ensures(VP_NO_LOCK_HELD)
/* C02 (nothing stays queued forever): whenever a receiver is still queued when the callback returns, a read is in
 * flight for it -- a queued aio with no transfer behind it could be completed by nobody: its cancel function only
 * aborts the (idle) rxaio */
__CPROVER_ensures(g_recvq.n > 0 ==> TF_RECV_ARMED(P))
/* failed or closed: the first receiver gets the error, nothing is delivered, a partial message is released once */
__CPROVER_ensures(RX_ERR ==> (RX_REFUSED((int) O_RV) && g_msg_alloc_calls == OLD(g_msg_alloc_calls)))
#ifdef TF_RX_BODY
__CPROVER_ensures(RX_ERR ==> (g_msg_freed == OLD(g_msg_freed) + 1 && g_msg_freed_last == O_MSG))
#else
__CPROVER_ensures(RX_ERR ==> g_msg_freed == OLD(g_msg_freed))
#endif
/* partial: re-submitted with exactly the advanced vector; nothing else changes */
__CPROVER_ensures(RX_PART ==> (P->rxaio.a_nio == 1 && (uint8_t *) RX0.iov_buf == O_BUF + O_N && RX0.iov_len == O_R - O_N && TF_RECV_ARMED(P)))
__CPROVER_ensures(RX_PART ==> (g_recvq.n == O_QN && g_recvq.head == O_HEAD && g_fin_calls == OLD(g_fin_calls) && P->rxmsg == O_MSG && g_msg_alloc_calls == OLD(g_msg_alloc_calls) && g_msg_freed == OLD(g_msg_freed) && O_HEAD->a_msg == OLD(g_recvq.head->a_msg)))
#ifdef TF_RX_BODY
/* body complete: exactly that message goes to the FIRST queued receiver, rxmsg cleared, next size read armed */
__CPROVER_ensures(RX_DONE ==> (O_HEAD->a_msg == O_MSG && TF_FIN_IS(O_HEAD, 0, O_MSG->vm_blen) && g_fin_last_sync && P->rxmsg == NULL && g_recvq.n == O_QN - 1 && g_msg_freed == OLD(g_msg_freed) && g_msg_alloc_calls == OLD(g_msg_alloc_calls)))
__CPROVER_ensures(RX_DONE ==> RX_NEXT_ARMED)
#else
/* size complete: refused with NNG_EMSGSIZE iff invalid or over the limit -- never allocated, never delivered */
__CPROVER_ensures((RX_DONE && !TF_LEN_OK(RX_LEN, P->rcvmax)) ==> (RX_REFUSED(NNG_EMSGSIZE) && g_msg_alloc_calls == OLD(g_msg_alloc_calls) && g_msg_freed == OLD(g_msg_freed)))
/* otherwise a message of exactly that size is requested ... */
__CPROVER_ensures((RX_DONE && TF_LEN_OK(RX_LEN, P->rcvmax)) ==> (g_msg_alloc_calls == OLD(g_msg_alloc_calls) + 1 && g_msg_alloc_sz == RX_LEN && g_msg_freed == OLD(g_msg_freed)))
/* ... out of memory: the receiver is told, nothing delivered */
__CPROVER_ensures((RX_DONE && TF_LEN_OK(RX_LEN, P->rcvmax) && g_alloc_ok == OLD(g_alloc_ok)) ==> RX_REFUSED(NNG_ENOMEM))
/* ... allocated, non-empty: a read of exactly len bytes into its body is armed, nobody completed */
__CPROVER_ensures((RX_DONE && TF_LEN_OK(RX_LEN, P->rcvmax) && g_alloc_ok != OLD(g_alloc_ok) && RX_LEN > 0) ==> (P->rxmsg != NULL && P->rxmsg->vm_blen == RX_LEN && __CPROVER_OBJECT_SIZE(P->rxmsg->vm_body) == RX_LEN && P->rxaio.a_nio == 1 && RX0.iov_buf == (void *) P->rxmsg->vm_body && RX0.iov_len == RX_LEN && TF_RECV_ARMED(P) && g_recvq.n == O_QN && g_recvq.head == O_HEAD && g_fin_calls == OLD(g_fin_calls) && O_HEAD->a_msg == OLD(g_recvq.head->a_msg)))
/* ... allocated, empty message: delivered at once to the first receiver, next size read armed */
__CPROVER_ensures((RX_DONE && TF_LEN_OK(RX_LEN, P->rcvmax) && g_alloc_ok != OLD(g_alloc_ok) && RX_LEN == 0) ==> (O_HEAD->a_msg != NULL && O_HEAD->a_msg->vm_blen == 0 && TF_FIN_IS(O_HEAD, 0, 0) && g_fin_last_sync && P->rxmsg == NULL && g_recvq.n == O_QN - 1 && RX_NEXT_ARMED))
#endif
;

/* ---- send: frame the message at the head of the send queue ------------- */
#define SQ_MSG (g_sendq.head->a_msg)
static void tlstran_pipe_send_start(tlstran_pipe *p)
__CPROVER_requires(__CPROVER_is_fresh(p, sizeof(*p)) && TF_LISTS_PRE(p))
__CPROVER_requires(g_sendq.n == 0 || (__CPROVER_is_fresh(g_sendq.head, sizeof(nni_aio)) && TF_MSG_PRE(g_sendq.head->a_msg)))
__CPROVER_requires(TF_Q_OK(g_sendq))
__CPROVER_assigns(g_sendq.n > 0: __CPROVER_object_upto(&p->txlen[0], sizeof(p->txlen)), TF_IOV_OF(p->txaio), TF_IO_GHOSTS)
/* prefix = big-endian 64 of header length + body length */
__CPROVER_ensures((g_sendq.n > 0) ==> (TF_BE64(p->txlen) == (uint64_t) SQ_MSG->vm_hlen + (uint64_t) SQ_MSG->vm_blen))
/* vector = [prefix, header?, body?] in that order with exact lengths */
__CPROVER_ensures((g_sendq.n > 0) ==> (p->txaio.a_nio == 1u + (SQ_MSG->vm_hlen > 0 ? 1u : 0u) + (SQ_MSG->vm_blen > 0 ? 1u : 0u) && p->txaio.a_iov[0].iov_buf == (void *) &p->txlen[0] && p->txaio.a_iov[0].iov_len == 8))
__CPROVER_ensures((g_sendq.n > 0 && SQ_MSG->vm_hlen > 0) ==> (p->txaio.a_iov[1].iov_buf == (void *) &SQ_MSG->vm_hdr[0] && p->txaio.a_iov[1].iov_len == SQ_MSG->vm_hlen))
__CPROVER_ensures((g_sendq.n > 0 && SQ_MSG->vm_blen > 0) ==> (p->txaio.a_iov[p->txaio.a_nio - 1].iov_buf == (void *) SQ_MSG->vm_body && p->txaio.a_iov[p->txaio.a_nio - 1].iov_len == SQ_MSG->vm_blen))
__CPROVER_ensures((g_sendq.n > 0) ==> TF_SEND_ARMED(p))
/* the queue itself is not touched: the sender stays at the head until its transfer completes */
__CPROVER_ensures(g_sendq.n == OLD(g_sendq.n) && g_sendq.head == OLD(g_sendq.head))
;

/* ---- send completion ---------------------------------------------------- */
#define TXA (&P->txaio)
#define TX_ENT_PRE(i) ((i) >= P->txaio.a_nio || P->txaio.a_iov[i].iov_len == 0 || __CPROVER_is_fresh(P->txaio.a_iov[i].iov_buf, P->txaio.a_iov[i].iov_len))
#define T_RV   OLD(P->txaio.a_result)
#define T_N    OLD(P->txaio.a_count)
/* the vector in flight has at most 3 entries: prefix sums / total / dropped-entry count of the aioiov spec, specialised to 3 slots */
#define T_NIO  OLD(P->txaio.a_nio)
#define T_L(i) ((i) < T_NIO ? OLD(P->txaio.a_iov[i].iov_len) : (size_t) 0)
#define T_P1   (T_L(0))
#define T_P2   (T_P1 + T_L(1))
#define T_TOT  (T_P2 + T_L(2))
#define T_PJ(j) ((j) == 0 ? (size_t) 0 : (j) == 1 ? T_P1 : (j) == 2 ? T_P2 : T_TOT)
#define T_DROP ((T_N == 0 || T_N < T_P1) ? 0u : (T_N == T_P1 || T_N < T_P2) ? VP_MIN(1u, T_NIO) : (T_N == T_P2 || T_N < T_TOT) ? VP_MIN(2u, T_NIO) : T_NIO)
#define T_CL(i) ((i) < P->txaio.a_nio ? P->txaio.a_iov[i].iov_len : (size_t) 0)
#define T_CTOT ((T_CL(0) + T_CL(1)) + T_CL(2))
#define T_HEAD OLD(g_sendq.head)
#define T_MSG  OLD(g_sendq.head->a_msg)
static void tlstran_pipe_send_cb(void *arg)
__CPROVER_requires(__CPROVER_is_fresh(arg, sizeof(tlstran_pipe)) && TF_ENV_PRE(P))
/* a write is in flight only while its sender is at the head of the queue, carrying its message */
__CPROVER_requires(g_sendq.n >= 1 && __CPROVER_is_fresh(g_sendq.head, sizeof(nni_aio)) && TF_MSG_PRE(g_sendq.head->a_msg))
/* ... and whoever is queued behind it carries a message too */
__CPROVER_requires(g_sendq.n < 2 || (__CPROVER_is_fresh(g_sendq.next, sizeof(nni_aio)) && TF_MSG_PRE(g_sendq.next->a_msg)))
/* an aio waits in at most one queue */
__CPROVER_requires(TF_Q_OK(g_sendq) && (g_recvq.n == 0 || (g_recvq.head != g_sendq.head && (g_sendq.n < 2 || g_recvq.head != g_sendq.next))))
/* the vector in flight: up to three existing buffers (prefix, header, body or what is left of them) */
__CPROVER_requires(P->txaio.a_nio <= 3 && TX_ENT_PRE(0) && TX_ENT_PRE(1) && TX_ENT_PRE(2))
/* ASSUMED about the stream layer: a successful completion reports at most what was asked for */
__CPROVER_requires(P->txaio.a_result != 0 || P->txaio.a_count <= T_CTOT)
__CPROVER_requires(T_CL(0) <= VIOV_LENMAX && T_CL(1) <= VIOV_LENMAX && T_CL(2) <= VIOV_LENMAX)
__CPROVER_assigns(__CPROVER_object_upto(&P->txlen[0], sizeof(P->txlen)), TF_IOV_OF(P->txaio), g_sendq, g_sendq.head->a_msg, TF_FIN_GHOSTS, TF_IO_GHOSTS, TF_MSG_GHOSTS, TF_BUMP_GHOSTS, VP_SYNC_GHOSTS)
__CPROVER_frees(g_sendq.head->a_msg, g_sendq.head->a_msg->vm_body)
__CPROVER_ensures(VP_NO_LOCK_HELD)
/* C02 (nothing stays queued forever): whenever a sender is still queued when the callback returns, a write is in flight for it */
__CPROVER_ensures(g_sendq.n > 0 ==> TF_SEND_ARMED(P))
/* error: every queued sender is told, once each (nothing more will be written: C02); the message of the one in flight is still attached and not freed */
__CPROVER_ensures(T_RV != 0 ==> (g_sendq.n == 0 && g_fin_calls == OLD(g_fin_calls) + OLD(g_sendq.n) && g_fin_last_rv == (int) T_RV && g_fin_last_count == 0 && TF_FIN_ALL(T_RV) && g_bump_err_calls == OLD(g_bump_err_calls) + 1 && T_HEAD->a_msg == T_MSG && g_msg_freed == OLD(g_msg_freed) && TF_NO_IO))
/* partial: continue with the advanced vector (entries used up are dropped in order, the first survivor
 * loses its consumed front, exactly n bytes fewer remain), nothing completed or freed */
__CPROVER_ensures((T_RV == 0 && T_N < T_TOT) ==> (TF_SEND_ARMED(P) && g_sendq.n == OLD(g_sendq.n) && g_sendq.head == T_HEAD && T_HEAD->a_msg == T_MSG && g_fin_calls == OLD(g_fin_calls) && g_msg_freed == OLD(g_msg_freed)))
__CPROVER_ensures((T_RV == 0 && T_N < T_TOT) ==> (P->txaio.a_nio == T_NIO - T_DROP && P->txaio.a_nio >= 1))
__CPROVER_ensures((T_RV == 0 && T_N < T_TOT && g_n == T_DROP && g_n < 3) ==> (P->txaio.a_iov[0].iov_len == OLD(P->txaio.a_iov[g_n & 3u].iov_len) - (T_N - T_PJ(g_n)) && (T_N == T_PJ(g_n) ? P->txaio.a_iov[0].iov_buf == OLD(P->txaio.a_iov[g_n & 3u].iov_buf) : (char *) P->txaio.a_iov[0].iov_buf == (char *) OLD(P->txaio.a_iov[g_n & 3u].iov_buf) + (T_N - T_PJ(g_n)))))
__CPROVER_ensures((T_RV == 0 && T_N < T_TOT && g_j >= 1 && g_j < P->txaio.a_nio && g_n == g_j + T_DROP && g_n < 3) ==> (P->txaio.a_iov[g_j & 3u].iov_len == OLD(P->txaio.a_iov[g_n & 3u].iov_len) && P->txaio.a_iov[g_j & 3u].iov_buf == OLD(P->txaio.a_iov[g_n & 3u].iov_buf)))
#ifdef TF_TX_TOTAL
__CPROVER_ensures((T_RV == 0 && T_N < T_TOT) ==> T_CTOT == T_TOT - T_N)
#endif
/* complete: message freed exactly once and detached from the aio, sender completed with the body length */
__CPROVER_ensures((T_RV == 0 && T_N == T_TOT) ==> (T_HEAD->a_msg == NULL && g_msg_freed == OLD(g_msg_freed) + 1 && g_msg_freed_last == T_MSG && g_fin_last == T_HEAD && g_fin_last_rv == 0 && g_fin_last_count == OLD(g_sendq.head->a_msg->vm_blen) && g_fin_last_sync))
__CPROVER_ensures((T_RV == 0 && T_N == T_TOT) ==> (g_sendq.n == OLD(g_sendq.n) - 1 && g_fin_calls == OLD(g_fin_calls) + 1))
/* ... and the next queued message (if any) is started */
__CPROVER_ensures((T_RV == 0 && T_N == T_TOT) ==> ((g_sendq.n > 0) ? TF_SEND_ARMED(P) : TF_NO_IO))
;

/* ---- connection header negotiation ------------------------------------- */
#define EP (P->ep)
#define NG0 (P->negoaio.a_iov[0])
#define N_RV OLD(P->negoaio.a_result)
#define N_N  OLD(P->negoaio.a_count)
#define N_GT OLD(P->gottxhead)
#define N_GR OLD(P->gotrxhead)
#define N_ERR (EP->closed || N_RV != 0)
#define N_REJECTED(code) (g_negoq.n == OLD(g_negoq.n) - 1 && !g_negoq.has_p && !g_waitq.has_p && g_waitq.n == OLD(g_waitq.n) && g_sclose_calls == OLD(g_sclose_calls) + 1 && g_io_conn == P->tls && g_pipe_close_calls == OLD(g_pipe_close_calls) + 1 && g_pipe_rele_calls == OLD(g_pipe_rele_calls) + 1 && EP->useraio == NULL && (OLD(EP->useraio) != NULL ? TF_FIN_IS(OLD(EP->useraio), code, 0) : g_fin_calls == OLD(g_fin_calls)) && g_send_calls == OLD(g_send_calls) && g_recv_calls == OLD(g_recv_calls))
static void tlstran_pipe_nego_cb(void *arg)
__CPROVER_requires(__CPROVER_is_fresh(arg, sizeof(tlstran_pipe)) && __CPROVER_is_fresh(P->ep, sizeof(tlstran_ep)))
__CPROVER_requires(EP->useraio == NULL || __CPROVER_is_fresh(EP->useraio, sizeof(nni_aio)))
__CPROVER_requires(g_the_pipe == arg && g_negoq_addr == &EP->negopipes && g_waitq_addr == &EP->waitpipes && g_recvq_addr == &P->recvq && g_sendq_addr == &P->sendq && VP_NO_LOCK_HELD)
/* the pipe is negotiating: on negopipes, not on waitpipes */
__CPROVER_requires(g_negoq.has_p && g_negoq.n >= 1 && !g_waitq.has_p && !g_waitq.p_first && g_other_pipe == NULL)
/* 8 header bytes each way (tlstran_pipe_start), transmit first */
__CPROVER_requires(P->wanttxhead == 8 && P->wantrxhead == 8 && P->gottxhead <= 8 && P->gotrxhead <= 8 && (P->gottxhead == 8 || P->gotrxhead == 0) && P->gotrxhead < 8)
/* ASSUMED about the stream layer: a successful completion reports at most what was asked for */
__CPROVER_requires(P->negoaio.a_result != 0 || P->negoaio.a_count <= (P->gottxhead < 8 ? 8 - P->gottxhead : 8 - P->gotrxhead))
__CPROVER_assigns(P->gottxhead, P->gotrxhead, P->peer, P->rcvmax, TF_IOV_OF(P->negoaio), EP->useraio, g_negoq, g_waitq, g_other_pipe, g_sclose_calls, g_pipe_close_calls, g_pipe_rele_calls, TF_FIN_GHOSTS, TF_IO_GHOSTS, VP_SYNC_GHOSTS)
__CPROVER_assigns(EP->useraio != NULL: EP->useraio->a_outputs[0])
__CPROVER_ensures(VP_NO_LOCK_HELD)
/* closed endpoint or failed transfer: the connection is dropped, the waiting accept/connect gets the error */
__CPROVER_ensures(N_ERR ==> N_REJECTED(EP->closed ? (int) NNG_ECONNSHUT : (N_RV == NNG_ECLOSED ? (int) NNG_ECONNSHUT : (int) N_RV)))
/* our header not fully sent: send exactly the rest of it */
__CPROVER_ensures((!N_ERR && N_GT + N_N < 8) ==> (P->gottxhead == N_GT + N_N && P->gotrxhead == N_GR && P->negoaio.a_nio == 1 && NG0.iov_buf == (void *) &P->txlen[P->gottxhead] && NG0.iov_len == 8 - P->gottxhead && g_send_calls == OLD(g_send_calls) + 1 && g_recv_calls == OLD(g_recv_calls) && g_io_aio == &P->negoaio && g_io_conn == P->tls && g_negoq.has_p && g_negoq.n == OLD(g_negoq.n) && g_fin_calls == OLD(g_fin_calls)))
/* peer header not fully received: read exactly the rest of it */
#define N_GR2 (N_GT < 8 ? N_GR : N_GR + N_N)
__CPROVER_ensures((!N_ERR && N_GT + (N_GT < 8 ? N_N : 0) == 8 && N_GR2 < 8) ==> (P->gotrxhead == N_GR2 && P->negoaio.a_nio == 1 && NG0.iov_buf == (void *) &P->rxlen[P->gotrxhead] && NG0.iov_len == 8 - P->gotrxhead && g_recv_calls == OLD(g_recv_calls) + 1 && g_send_calls == OLD(g_send_calls) && g_io_aio == &P->negoaio && g_io_conn == P->tls && g_negoq.has_p && g_negoq.n == OLD(g_negoq.n) && g_fin_calls == OLD(g_fin_calls)))
/* both complete: accepted iff the peer sent 00 'S' 'P' 00 pp pp 00 00 */
#define N_BOTH (!N_ERR && N_GT == 8 && N_GR + N_N == 8)
__CPROVER_ensures((N_BOTH && !TF_HELLO_OK(P->rxlen)) ==> N_REJECTED(NNG_EPROTO))
/* accepted: peer protocol recorded exactly as announced (the protocol layer compares it), pipe moves to the wait list */
__CPROVER_ensures((N_BOTH && TF_HELLO_OK(P->rxlen)) ==> (P->peer == TF_BE16(&P->rxlen[4]) && !g_negoq.has_p && g_negoq.n == OLD(g_negoq.n) - 1 && g_sclose_calls == OLD(g_sclose_calls) && g_pipe_close_calls == OLD(g_pipe_close_calls) && TF_NO_IO))
/* ... and handed to a waiting accept/connect in arrival order */
__CPROVER_ensures((N_BOTH && TF_HELLO_OK(P->rxlen) && OLD(EP->useraio) == NULL) ==> (g_waitq.has_p && g_waitq.n == OLD(g_waitq.n) + 1 && g_fin_calls == OLD(g_fin_calls)))
__CPROVER_ensures((N_BOTH && TF_HELLO_OK(P->rxlen) && OLD(EP->useraio) != NULL) ==> (g_waitq.n == OLD(g_waitq.n) && EP->useraio == NULL && TF_FIN_IS(OLD(EP->useraio), 0, 0)))
__CPROVER_ensures((N_BOTH && TF_HELLO_OK(P->rxlen) && OLD(EP->useraio) != NULL && OLD(g_waitq.n) == 0) ==> (!g_waitq.has_p && OLD(EP->useraio)->a_outputs[0] == (void *) P->npipe && P->rcvmax == EP->rcvmax))
;

static uint16_t tlstran_pipe_peer(void *arg)
__CPROVER_requires(__CPROVER_is_fresh(arg, sizeof(tlstran_pipe)))
__CPROVER_assigns()
__CPROVER_ensures(RV == P->peer)
;
#endif
