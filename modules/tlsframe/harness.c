#define VP_SZ(v) do { v = nondet_size_t(); __CPROVER_assume(v < ((size_t) 1 << 40)); } while (0)
#define VP_HAVOC_GHOSTS()                                                     \
	do {                                                                      \
		g_k = nondet_size_t(); g_j = nondet_size_t(); g_n = nondet_size_t();  \
		VP_SZ(g_msg_freed); g_msg_freed_at_j = nondet_ptr(); g_msg_freed_last = nondet_ptr(); \
		VP_SZ(g_free_calls); VP_SZ(g_alloc_ok); VP_SZ(g_msg_alloc_calls); g_msg_alloc_sz = nondet_size_t(); \
		VP_SZ(g_recvq.n); g_recvq.head = nondet_ptr(); g_recvq.next = nondet_ptr(); VP_SZ(g_sendq.n); g_sendq.head = nondet_ptr(); g_sendq.next = nondet_ptr(); \
		g_recvq_addr = nondet_ptr(); g_sendq_addr = nondet_ptr(); g_negoq_addr = nondet_ptr(); g_waitq_addr = nondet_ptr(); \
		VP_SZ(g_negoq.n); g_negoq.has_p = nondet_bool(); g_negoq.p_first = nondet_bool(); \
		VP_SZ(g_waitq.n); g_waitq.has_p = nondet_bool(); g_waitq.p_first = nondet_bool(); \
		g_the_pipe = nondet_ptr(); g_other_pipe = NULL;                       \
		VP_SZ(g_send_calls); VP_SZ(g_recv_calls); VP_SZ(g_sclose_calls); g_io_conn = nondet_ptr(); g_io_aio = nondet_ptr(); \
		VP_SZ(g_fin_calls); g_fin_last = nondet_ptr(); g_fin_last_rv = nondet_int(); g_fin_last_count = nondet_size_t(); g_fin_last_sync = nondet_bool(); g_fin_mark = nondet_size_t(); g_fin_mark_rv = nondet_int(); \
		VP_SZ(g_bump_rx_calls); VP_SZ(g_bump_tx_calls); VP_SZ(g_bump_err_calls); g_bump_last = nondet_size_t(); \
		VP_SZ(g_pipe_close_calls); VP_SZ(g_pipe_rele_calls);                  \
		VP_HAVOC_SYNC();                                                      \
	} while (0)

void h_recv_start(void) { tlstran_pipe *p; VP_HAVOC_GHOSTS(); tlstran_pipe_recv_start(p); VP_CANARY(); }
void h_recv_cb(void)    { void *p; VP_HAVOC_GHOSTS(); tlstran_pipe_recv_cb(p); VP_CANARY(); }
void h_send_start(void) { tlstran_pipe *p; VP_HAVOC_GHOSTS(); tlstran_pipe_send_start(p); VP_CANARY(); }
void h_send_cb(void)    { void *p; VP_HAVOC_GHOSTS(); tlstran_pipe_send_cb(p); VP_CANARY(); }
void h_nego_cb(void)    { void *p; VP_HAVOC_GHOSTS(); tlstran_pipe_nego_cb(p); VP_CANARY(); }
void h_pipe_peer(void)  { void *p; VP_HAVOC_GHOSTS(); tlstran_pipe_peer(p); VP_CANARY(); }
