/* Ghost state and model types of the tlsframe environment; declared before the
 * real tls.c so that woven loop invariants can name them.
 *
 * Also pulls in the REAL src/core/aio.c, so that the scatter/gather helpers
 * and plain struct accessors that tls.c calls on its embedded aios
 * (nni_aio_set_iov, nni_aio_iov_advance, nni_aio_iov_count, nni_aio_count,
 * nni_aio_result, nni_aio_get_msg, nni_aio_set_msg, nni_aio_set_output) are
 * the real code, not models.  The functions of aio.c that need the aio
 * run-time (task dispatch, expire queue, intrusive lists) are renamed away
 * while aio.c is compiled and are provided as ghost stubs by env.h. */
#ifndef VP_TLSFRAME_GHOST_H
#define VP_TLSFRAME_GHOST_H
#include "core/nng_impl.h"

#define nni_aio_finish        vp_rt_nni_aio_finish
#define nni_aio_finish_error  vp_rt_nni_aio_finish_error
#define nni_aio_finish_sync   vp_rt_nni_aio_finish_sync
#define nni_aio_finish_msg    vp_rt_nni_aio_finish_msg
#define nni_aio_list_init     vp_rt_nni_aio_list_init
#define nni_aio_list_append   vp_rt_nni_aio_list_append
#define nni_aio_list_remove   vp_rt_nni_aio_list_remove
#define nni_aio_list_active   vp_rt_nni_aio_list_active
#include "core/aio.c"
#undef nni_aio_finish
#undef nni_aio_finish_error
#undef nni_aio_finish_sync
#undef nni_aio_finish_msg
#undef nni_aio_list_init
#undef nni_aio_list_append
#undef nni_aio_list_remove
#undef nni_aio_list_active

/* ASSUMED model of a message (message.c is under contract in module
 * "message"): header string of at most 64 bytes inside the struct, body a
 * separate heap buffer of exactly vm_blen bytes (1 byte when empty, never
 * accessed), both real CBMC objects so that every access by the transport is
 * bounds-checked and nni_msg_free really releases them. */
struct nng_msg {
	size_t   vm_hlen;
	uint8_t  vm_hdr[64];
	size_t   vm_blen;
	uint8_t *vm_body;
};

/* wait queues of user aios (recvq, sendq): count + the first two members
 * (real aio objects where the code under contract looks inside them); the
 * identities of the others are unknown. */
typedef struct {
	size_t   n;
	nni_aio *head;
	nni_aio *next; /* the one behind the head (n >= 2) */
} vp_aioq;
vp_aioq   g_recvq, g_sendq;
nni_list *g_recvq_addr, *g_sendq_addr;

/* endpoint lists of pipes (negopipes, waitpipes): count + "this pipe is on it" */
typedef struct {
	size_t n;
	bool   has_p; /* the pipe under test is a member */
	bool   p_first; /* ... and is the first one */
} vp_pipeq;
vp_pipeq  g_negoq, g_waitq;
nni_list *g_negoq_addr, *g_waitq_addr;
void     *g_the_pipe; /* the transport pipe under test */

/* stream layer */
size_t      g_send_calls, g_recv_calls, g_sclose_calls;
nng_stream *g_io_conn; /* connection of the last send/recv/close */
nni_aio    *g_io_aio;  /* aio of the last send/recv */

/* completions of user aios */
size_t   g_fin_calls;
nni_aio *g_fin_last;
int      g_fin_last_rv;
size_t   g_fin_last_count;
bool     g_fin_last_sync;

/* "every completion of this call carries that result": g_fin_mark is a free
 * ghost (never assigned) naming one completion by its sequence number;
 * g_fin_mark_rv is the result that completion carried */
size_t   g_fin_mark;
int      g_fin_mark_rv;

/* messages */
size_t   g_msg_alloc_calls; /* attempts */
size_t   g_msg_alloc_sz;    /* size of the last attempt */
nni_msg *g_msg_freed_last;

/* pipe layer */
size_t g_bump_rx_calls, g_bump_tx_calls, g_bump_err_calls, g_bump_last;
size_t g_pipe_close_calls, g_pipe_rele_calls;
#endif
