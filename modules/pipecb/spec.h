/* Spec macros for the pipecb module (C14). */
#ifndef VP_PIPECB_SPEC_H
#define VP_PIPECB_SPEC_H
/* stated bound: reconnect back-off times up to INT32_MAX/2 ms (about 12.4
 * days); beyond it `d_currtime *= 2` overflows a signed 32-bit duration */
#ifndef DIALER_RTIME_MAX
#define DIALER_RTIME_MAX (INT32_MAX / 2)
#endif
#define PIPE_EV_OK(e) ((e) == NNG_PIPE_EV_ADD_PRE || (e) == NNG_PIPE_EV_ADD_POST || (e) == NNG_PIPE_EV_REM_POST)
#define PIPE_LAST_OK(e) ((e) == NNG_PIPE_EV_NONE || PIPE_EV_OK(e))
/* the monotone filter: ev is delivered iff it is later than everything
 * delivered so far and the pipe's first delivered event is ADD_PRE */
#define PIPE_EV_DELIVERED(want, last, ev) ((want) && (last) < (ev) && ((last) != NNG_PIPE_EV_NONE || (ev) == NNG_PIPE_EV_ADD_PRE))
#endif
