/* Environment of the two C14 pieces of socket.c (ASSUMED models).
 * Everything else socket.c calls is left without a body: none of it is
 * reachable from the functions under contract. */
static void
vp_pipe_cb(nng_pipe pid, nng_pipe_ev ev, void *arg)
{
	/* callbacks are serialised: exactly one lock (the global serialising
	 * mutex) is held, and it is not the callback-table mutex (so the
	 * callback may call nng_pipe_notify) */
	__CPROVER_assert(g_held_a != g_held_b, "pipe callback runs under exactly one lock (the serialising mutex)");
	__CPROVER_assert(!((g_held_a && g_mtx_a == g_cbs_mtx) || (g_held_b && g_mtx_b == g_cbs_mtx)), "pipe callback runs with the callback-table mutex released");
	g_cb_calls++;
	g_cb_pid = pid.id;
	g_cb_ev  = (int) ev;
	g_cb_arg = arg;
}
/* make vp_pipe_cb a candidate target of the indirect call cb(pid, ev, arg) */
nng_pipe_cb vp_pipe_cb_ref = vp_pipe_cb;

uint32_t nni_random(void) { return (g_random); }
void
nni_sleep_aio(nng_duration ms, nng_aio *aio)
{
	g_sleep_calls++;
	g_sleep_ms  = ms;
	g_sleep_aio = aio;
}
