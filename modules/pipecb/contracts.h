/* Contracts for the pipe event filter and the dialer back-off arithmetic in
 * src/core/socket.c (C14).  Sequential: interleavings are not explored. */
#ifndef VP_PIPECB_CONTRACTS_H
#define VP_PIPECB_CONTRACTS_H
/* clang-format off */
#define RV __CPROVER_return_value
#define OLD(e) __CPROVER_old(e)
#define CB_SLOT_OK(s, e) ((s)->s_pipe_cbs[e].cb_fn == NULL || (s)->s_pipe_cbs[e].cb_fn == vp_pipe_cb)

void nni_pipe_run_cb(nni_pipe *p, nng_pipe_ev ev)
__CPROVER_requires(__CPROVER_is_fresh(p, sizeof(*p)) && __CPROVER_is_fresh(p->p_sock, sizeof(struct nni_socket)))
__CPROVER_requires(PIPE_EV_OK(ev) && PIPE_LAST_OK(p->p_last_event))
__CPROVER_requires(CB_SLOT_OK(p->p_sock, NNG_PIPE_EV_ADD_PRE) && CB_SLOT_OK(p->p_sock, NNG_PIPE_EV_ADD_POST) && CB_SLOT_OK(p->p_sock, NNG_PIPE_EV_REM_POST))
__CPROVER_requires(VP_NO_LOCK_HELD && g_cbs_mtx == &p->p_sock->s_pipe_cbs_mtx)
__CPROVER_assigns(p->p_last_event, g_cb_calls, g_cb_pid, g_cb_ev, g_cb_arg, VP_SYNC_GHOSTS)
__CPROVER_ensures(VP_NO_LOCK_HELD)
/* delivered: only if later than the last event delivered and ADD_PRE came first; the recorded last event becomes ev; the callback (if one is registered for ev) runs exactly once with this pipe's id, the event and its argument */
__CPROVER_ensures(PIPE_EV_DELIVERED(p->p_sock->s_want_evs, OLD(p->p_last_event), ev) ==> (p->p_last_event == ev &&
        (p->p_sock->s_pipe_cbs[ev].cb_fn != NULL
            ? (g_cb_calls == OLD(g_cb_calls) + 1 && g_cb_pid == p->p_id && g_cb_ev == (int) ev && g_cb_arg == p->p_sock->s_pipe_cbs[ev].cb_arg)
            : g_cb_calls == OLD(g_cb_calls))))
/* filtered: nothing happens, the record is unchanged */
__CPROVER_ensures(!PIPE_EV_DELIVERED(p->p_sock->s_want_evs, OLD(p->p_last_event), ev) ==> (p->p_last_event == OLD(p->p_last_event) && g_cb_calls == OLD(g_cb_calls)))
/* monotone: the record never goes backwards and stays a valid event */
__CPROVER_ensures(p->p_last_event >= OLD(p->p_last_event) && PIPE_LAST_OK(p->p_last_event))
;

void nni_sock_set_pipe_cb(nni_sock *s, int ev, nng_pipe_cb cb, void *arg)
__CPROVER_requires(__CPROVER_is_fresh(s, sizeof(struct nni_socket)) && VP_NO_LOCK_HELD)
__CPROVER_assigns(__CPROVER_object_upto(s->s_pipe_cbs, sizeof(s->s_pipe_cbs)), s->s_want_evs, VP_SYNC_GHOSTS)
__CPROVER_ensures(VP_NO_LOCK_HELD)
__CPROVER_ensures((ev > NNG_PIPE_EV_NONE && ev < NNG_PIPE_EV_NUM) ==> (s->s_pipe_cbs[ev].cb_fn == cb && s->s_pipe_cbs[ev].cb_arg == arg))
/* events are wanted iff some callback is registered */
__CPROVER_ensures((ev > NNG_PIPE_EV_NONE && ev < NNG_PIPE_EV_NUM) ==> ((s->s_want_evs != 0) == (s->s_pipe_cbs[0].cb_fn != NULL || s->s_pipe_cbs[1].cb_fn != NULL || s->s_pipe_cbs[2].cb_fn != NULL || s->s_pipe_cbs[3].cb_fn != NULL)))
__CPROVER_ensures(!(ev > NNG_PIPE_EV_NONE && ev < NNG_PIPE_EV_NUM) ==> s->s_want_evs == OLD(s->s_want_evs))
;

/* back-off: sleep a random time strictly below the current back-off (0 when it
 * is 0), then double the back-off up to the configured maximum */
static void dialer_timer_start_locked(nni_dialer *d)
__CPROVER_requires(__CPROVER_is_fresh(d, sizeof(*d)))
/* stated bound (see spec.h): 0 <= current back-off <= INT32_MAX/2 */
__CPROVER_requires(d->d_currtime >= 0 && d->d_currtime <= DIALER_RTIME_MAX)
__CPROVER_assigns(d->d_currtime, g_sleep_calls, g_sleep_ms, g_sleep_aio)
__CPROVER_ensures(g_sleep_calls == OLD(g_sleep_calls) + 1 && g_sleep_aio == &d->d_tmo_aio)
__CPROVER_ensures(OLD(d->d_currtime) == 0 ? g_sleep_ms == 0 : (g_sleep_ms >= 0 && g_sleep_ms < OLD(d->d_currtime)))
__CPROVER_ensures(d->d_maxrtime > 0 ? d->d_currtime == VP_MIN(2 * OLD(d->d_currtime), d->d_maxrtime) : d->d_currtime == OLD(d->d_currtime))
/* hence: never above the larger of the previous back-off and the configured maximum, never negative */
__CPROVER_ensures(d->d_currtime >= 0 && (d->d_currtime <= OLD(d->d_currtime) || d->d_currtime <= d->d_maxrtime))
;

void nni_dialer_timer_start(nni_dialer *d)
__CPROVER_requires(__CPROVER_is_fresh(d, sizeof(*d)) && __CPROVER_is_fresh(d->d_sock, sizeof(struct nni_socket)) && VP_NO_LOCK_HELD)
__CPROVER_requires(d->d_currtime >= 0 && d->d_currtime <= DIALER_RTIME_MAX)
__CPROVER_assigns(d->d_currtime, g_sleep_calls, g_sleep_ms, g_sleep_aio, VP_SYNC_GHOSTS)
__CPROVER_ensures(VP_NO_LOCK_HELD && g_sleep_calls == OLD(g_sleep_calls) + 1 && g_sleep_aio == &d->d_tmo_aio)
__CPROVER_ensures(OLD(d->d_currtime) == 0 ? g_sleep_ms == 0 : (g_sleep_ms >= 0 && g_sleep_ms < OLD(d->d_currtime)))
__CPROVER_ensures(d->d_currtime >= 0 && (d->d_currtime <= OLD(d->d_currtime) || d->d_currtime <= d->d_maxrtime))
;
/* clang-format on */
#endif
