/* Ghost state for the pipecb module (pipe event filter + dialer back-off in
 * src/core/socket.c). */
#ifndef VP_PIPECB_GHOST_H
#define VP_PIPECB_GHOST_H
#include "core/nng_impl.h"
/* the application's pipe notification callback (vp_pipe_cb) */
size_t   g_cb_calls;
uint32_t g_cb_pid;
int      g_cb_ev;
void    *g_cb_arg;
nni_mtx *g_cbs_mtx;       /* &sock->s_pipe_cbs_mtx: must NOT be held while the callback runs */
/* the back-off timer */
size_t   g_sleep_calls;   /* calls of nni_sleep_aio */
int32_t  g_sleep_ms;      /* duration handed to the last nni_sleep_aio */
nni_aio *g_sleep_aio;     /* aio handed to the last nni_sleep_aio */
uint32_t g_random;        /* answer of nni_random */
#endif
