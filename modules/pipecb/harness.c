#define VP_CNT(x) do { x = nondet_size_t(); __CPROVER_assume(x < ((size_t) 1 << 40)); } while (0)
#define VP_HAVOC_GHOSTS()                                                  \
	do {                                                                   \
		VP_CNT(g_cb_calls); g_cb_pid = nondet_u32(); g_cb_ev = nondet_int(); \
		g_cb_arg = nondet_ptr(); g_cbs_mtx = nondet_ptr();                 \
		VP_CNT(g_sleep_calls); g_sleep_ms = nondet_int();                  \
		g_sleep_aio = nondet_ptr(); g_random = nondet_u32();               \
		VP_HAVOC_SYNC();                                                   \
	} while (0)
void h_pipe_run_cb(void) { nni_pipe *p; nng_pipe_ev ev; VP_HAVOC_GHOSTS(); nni_pipe_run_cb(p, ev); VP_CANARY(); }
void h_sock_set_pipe_cb(void) { nni_sock *s; int ev; nng_pipe_cb cb; void *arg; VP_HAVOC_GHOSTS(); nni_sock_set_pipe_cb(s, ev, cb, arg); VP_CANARY(); }
void h_dialer_timer_start_locked(void) { nni_dialer *d; VP_HAVOC_GHOSTS(); dialer_timer_start_locked(d); VP_CANARY(); }
void h_dialer_timer_start(void) { nni_dialer *d; VP_HAVOC_GHOSTS(); nni_dialer_timer_start(d); VP_CANARY(); }
