/* One entry per function under contract: arguments unconstrained, ghosts
 * havocked; the precondition (assumed by the DFCC wrapper) is the only
 * restriction. */
#define VP_CNT(x) do { x = nondet_size_t(); __CPROVER_assume(x < ((size_t) 1 << 40)); } while (0)
#define VP_HAVOC_GHOSTS()                                                  \
	do {                                                                   \
		g_k = nondet_size_t(); g_j = nondet_size_t(); g_b = nondet_u8();   \
		g_hk = nondet_size_t(); g_hb = nondet_u8(); g_u32 = nondet_u32();  \
		g_u64 = nondet_u64(); g_p = nondet_ptr(); g_n = nondet_size_t();   \
		g_task_addr = nondet_ptr(); VP_CNT(g_prep); VP_CNT(g_dispatched);  \
		VP_CNT(g_exec); VP_CNT(g_busy); g_busy++; g_prepped = nondet_bool(); \
		VP_CNT(g_task_wait); VP_CNT(g_task_fini); VP_CNT(g_task_init);     \
		VP_CNT(g_cancel_at_wait);                                          \
		g_now = nondet_u64(); VP_CNT(g_clock_calls);                       \
		g_eq_list = nondet_ptr(); g_exp_node = nondet_ptr();               \
		g_prov_node = nondet_ptr(); g_eq_mtx = nondet_ptr();               \
		g_eq_cv = nondet_ptr(); g_exp_on = nondet_bool();                  \
		g_prov_on = nondet_bool(); VP_CNT(g_exp_add); VP_CNT(g_cv_wake);   \
		VP_CNT(g_cv_waits); VP_CNT(g_cancel_calls);                        \
		g_cancel_aio = nondet_ptr(); g_cancel_arg = nondet_ptr();          \
		g_cancel_rv = nondet_int(); g_cancel_finishes = nondet_bool();     \
		g_self = nondet_ptr(); g_msg_len = nondet_size_t();                \
		VP_CNT(g_reaped); g_reap_item = nondet_ptr(); g_random = nondet_u32(); \
		VP_CNT(g_free_calls); VP_CNT(g_alloc_ok); VP_HAVOC_SYNC();         \
		g_sock = nondet_ptr(); g_ctx = nondet_ptr(); VP_CNT(g_id_calls);   \
		g_id_key = nondet_u64(); g_id_map = nondet_int(); VP_CNT(g_close_wakes); \
		g_r = nondet_int(); g_op_sync = nondet_bool(); g_rmsg = nondet_ptr(); \
		VP_CNT(g_op_calls); g_op_kind = nondet_int(); g_op_data = nondet_ptr(); \
		g_op_aio = nondet_ptr(); g_op_timeout = nondet_int();              \
		g_op_use_expire = nondet_bool(); g_op_msg = nondet_ptr();          \
		g_op_msg_len = nondet_size_t(); g_op_msg_byte = nondet_u8();       \
		g_op_ref = nondet_unsigned(); g_op_unlocked = nondet_bool();       \
		g_pending = nondet_bool(); VP_CNT(g_fin_calls); g_fin_rv = nondet_int(); \
		VP_CNT(g_msg_taken); VP_CNT(g_blocked_waits);                      \
	} while (0)

void h_nng_sendmsg(void) { nng_socket s; nng_msg *m; int flags; VP_HAVOC_GHOSTS(); nng_sendmsg(s, m, flags); VP_CANARY(); }
void h_nng_recvmsg(void) { nng_socket s; nng_msg **mp; int flags; VP_HAVOC_GHOSTS(); nng_recvmsg(s, mp, flags); VP_CANARY(); }
void h_sock_send(void) { nni_sock *s; nni_aio *a; VP_HAVOC_GHOSTS(); nni_sock_send(s, a); VP_CANARY(); }
void h_sock_recv(void) { nni_sock *s; nni_aio *a; VP_HAVOC_GHOSTS(); nni_sock_recv(s, a); VP_CANARY(); }
void h_ctx_send(void) { nni_ctx *c; nni_aio *a; VP_HAVOC_GHOSTS(); nni_ctx_send(c, a); VP_CANARY(); }
void h_ctx_recv(void) { nni_ctx *c; nni_aio *a; VP_HAVOC_GHOSTS(); nni_ctx_recv(c, a); VP_CANARY(); }
void h_sock_find(void) { nni_sock **sp; uint32_t id; VP_HAVOC_GHOSTS(); nni_sock_find(sp, id); VP_CANARY(); }
void h_sock_rele(void) { nni_sock *s; VP_HAVOC_GHOSTS(); nni_sock_rele(s); VP_CANARY(); }
void h_ctx_find(void) { nni_ctx **cp; uint32_t id; VP_HAVOC_GHOSTS(); nni_ctx_find(cp, id); VP_CANARY(); }
void h_ctx_rele(void) { nni_ctx *c; VP_HAVOC_GHOSTS(); nni_ctx_rele(c); VP_CANARY(); }
void h_nng_socket_send(void) { nng_socket s; nng_aio *a; VP_HAVOC_GHOSTS(); nng_socket_send(s, a); VP_CANARY(); }
void h_nng_socket_recv(void) { nng_socket s; nng_aio *a; VP_HAVOC_GHOSTS(); nng_socket_recv(s, a); VP_CANARY(); }
void h_nng_ctx_send(void) { nng_ctx c; nng_aio *a; VP_HAVOC_GHOSTS(); nng_ctx_send(c, a); VP_CANARY(); }
void h_nng_ctx_recv(void) { nng_ctx c; nng_aio *a; VP_HAVOC_GHOSTS(); nng_ctx_recv(c, a); VP_CANARY(); }
void h_nng_aio_set_timeout(void) { nng_aio *a; nni_duration d; VP_HAVOC_GHOSTS(); nng_aio_set_timeout(a, d); VP_CANARY(); }
void h_nng_aio_set_expire(void) { nng_aio *a; nng_time t; VP_HAVOC_GHOSTS(); nng_aio_set_expire(a, t); VP_CANARY(); }
void h_nng_aio_start(void) { nng_aio *a; nng_aio_cancelfn fn; void *arg; VP_HAVOC_GHOSTS(); nng_aio_start(a, fn, arg); VP_CANARY(); }
void h_nng_aio_abort(void) { nng_aio *a; nng_err rv; VP_HAVOC_GHOSTS(); nng_aio_abort(a, rv); VP_CANARY(); }
void h_nng_aio_cancel(void) { nng_aio *a; VP_HAVOC_GHOSTS(); nng_aio_cancel(a); VP_CANARY(); }
void h_nng_aio_finish(void) { nng_aio *a; nng_err rv; VP_HAVOC_GHOSTS(); nng_aio_finish(a, rv); VP_CANARY(); }
void h_nng_aio_stop(void) { nng_aio *a; VP_HAVOC_GHOSTS(); nng_aio_stop(a); VP_CANARY(); }
void h_nng_sleep_aio(void) { nng_aio *a; nng_duration ms; VP_HAVOC_GHOSTS(); nng_sleep_aio(ms, a); VP_CANARY(); }
void h_nng_aio_reset(void) { nng_aio *a; VP_HAVOC_GHOSTS(); nng_aio_reset(a); VP_CANARY(); }
void h_nng_aio_busy(void) { nng_aio *a; VP_HAVOC_GHOSTS(); nng_aio_busy(a); VP_CANARY(); }
void h_nng_aio_wait(void) { nng_aio *a; VP_HAVOC_GHOSTS(); nng_aio_wait(a); VP_CANARY(); }
void h_nng_aio_result(void) { nng_aio *a; VP_HAVOC_GHOSTS(); nng_aio_result(a); VP_CANARY(); }
void h_nng_aio_count(void) { nng_aio *a; VP_HAVOC_GHOSTS(); nng_aio_count(a); VP_CANARY(); }
void h_nng_aio_set_msg(void) { nng_aio *a; nng_msg *m; VP_HAVOC_GHOSTS(); nng_aio_set_msg(a, m); VP_CANARY(); }
void h_nng_aio_get_msg(void) { nng_aio *a; VP_HAVOC_GHOSTS(); nng_aio_get_msg(a); VP_CANARY(); }
void h_nng_ctx_sendmsg(void) { nng_ctx c; nng_msg *m; int flags; VP_HAVOC_GHOSTS(); nng_ctx_sendmsg(c, m, flags); VP_CANARY(); }
void h_nng_ctx_recvmsg(void) { nng_ctx c; nng_msg **mp; int flags; VP_HAVOC_GHOSTS(); nng_ctx_recvmsg(c, mp, flags); VP_CANARY(); }
void h_nng_send(void) { nng_socket s; const void *b; size_t n; int flags; VP_HAVOC_GHOSTS(); nng_send(s, b, n, flags); VP_CANARY(); }
void h_nng_recv(void) { nng_socket s; void *b; size_t *np; int flags; VP_HAVOC_GHOSTS(); nng_recv(s, b, np, flags); VP_CANARY(); }
void h_aio_init(void) { nni_aio *a; nni_cb cb; void *arg; VP_HAVOC_GHOSTS(); nni_aio_init(a, cb, arg); VP_CANARY(); }
void h_aio_fini_done(void) { nni_aio *a; VP_HAVOC_GHOSTS(); nni_aio_fini(a); VP_CANARY(); }
