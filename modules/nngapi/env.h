/* Environment of the nngapi TU (ASSUMED models, ghost state only).
 *
 * TU = real message.c + real aio.c + real socket.c + real nng.c.  What is NOT
 * real: mutexes (include/env_sync.h), the task queue, the clock, condition
 * variables, intrusive lists (only "is THE aio on the expire list"), the id
 * maps (nni_id_get answers with the ghost socket / context) and -- the point
 * of this module -- the PROTOCOL's send / receive operations and the wait for
 * the completion (nni_task_wait).
 *
 * The aio part is a variant of modules/aiocore/env.h (same ghost names, see
 * modules/aiocore/ghost.h): differences are (1) nni_task_init binds the
 * "aio under study" identity ghosts to the aio being initialised, because the
 * synchronous wrappers of nng.c use an aio on their own stack; (2) the expire
 * queue objects are found through g_self->a_expire_q; (3) nni_task_wait
 * delivers a pending completion; (4) nni_msg_len is the real one. */

static bool vp_held(nni_mtx *m) { return ((m == g_mtx_a && g_held_a) || (m == g_mtx_b && g_held_b)); }
#define VP_EQ_LOCKED (vp_held(g_eq_mtx))
#define VP_SOCK_LK_HELD (vp_held(&sock_lk))

/* ---- completion task -------------------------------------------------- */
void nni_task_init(nni_task *t, nni_taskq *tq, nni_cb cb, void *arg)
{
	(void) tq;
	t->task_cb  = cb;
	t->task_arg = arg;
	g_task_init++;
	g_busy    = 0;
	g_prepped = false;
	/* the aio being initialised becomes the aio under study (the other
	 * identity ghosts are bound when it reaches the protocol operation) */
	g_task_addr = t;
	g_self      = NULL;
	g_exp_on    = false;
	g_prov_on   = false;
}
void nni_task_fini(nni_task *t)
{
	__CPROVER_assert(t == g_task_addr, "task: the aio's own completion task");
	__CPROVER_assert(VP_NO_LOCK_HELD, "task fini (waits for the callback) with no lock held");
	__CPROVER_assert(!g_pending, "aio finalised while its operation is still pending");
	g_cancel_at_wait = g_cancel_calls;
	g_task_fini++;
}
void nni_task_prep(nni_task *t)
{
	__CPROVER_assert(t == g_task_addr, "task: the aio's own completion task");
	__CPROVER_assert(VP_NO_LOCK_HELD, "task prep outside the expire lock (no lock nesting)");
	g_prep++;
	g_busy++;
	g_prepped = true;
}
static void vp_task_claim(void)
{
	if (g_prepped) {
		g_prepped = false;
	} else {
		g_busy++;
	}
}
void nni_task_dispatch(nni_task *t)
{
	__CPROVER_assert(t == g_task_addr, "task: the aio's own completion task");
	vp_task_claim();
	g_dispatched++;
}
void nni_task_exec(nni_task *t)
{
	__CPROVER_assert(t == g_task_addr, "task: the aio's own completion task");
	__CPROVER_assert(VP_NO_LOCK_HELD, "synchronous callback execution with no lock held");
	vp_task_claim();
	g_exec++;
	g_busy--;
}
void nni_task_wait(nni_task *t)
{
	__CPROVER_assert(t == g_task_addr, "task: the aio's own completion task");
	__CPROVER_assert(VP_NO_LOCK_HELD, "task wait with no lock held");
	g_cancel_at_wait = g_cancel_calls;
	g_task_wait++;
	/* Sequential stand-in for "another thread completes the operation while
	 * the caller waits": a pending operation is complete when the wait
	 * returns, and the wait counts as a blocking one.  (The fields the
	 * completion writes were already written by the model operation, see
	 * vp_op; reading them before this wait is caught by the assertion in
	 * nni_task_fini and by the !g_pending postcondition.) */
	if (g_pending) {
		g_blocked_waits++;
		g_pending = false;
	}
}
bool nni_task_busy(nni_task *t)
{
	__CPROVER_assert(t == g_task_addr, "task: the aio's own completion task");
	return (g_busy != 0);
}

/* ---- clock, random, reaper -------------------------------------------- */
nni_time nni_clock(void)
{
	nni_time t = nondet_u64();
	/* ASSUMED: monotone millisecond clock far from wrap-around */
	__CPROVER_assume(t >= g_now && t < ((nni_time) 1 << 62));
	g_now = t;
	g_clock_calls++;
	return (t);
}
uint32_t nni_random(void) { return (g_random); }
void nni_reap(nni_reap_list *rl, void *item)
{
	(void) rl;
	g_reaped++;
	g_reap_item = item;
}

/* ---- condition variables, threads ------------------------------------- */
void nni_cv_init(nni_cv *cv, nni_mtx *m) { (void) cv; (void) m; }
void nni_cv_fini(nni_cv *cv) { (void) cv; }
void nni_cv_wake(nni_cv *cv)
{
	if (VP_SOCK_LK_HELD) {
		/* a socket's close cv: protected by the global socket lock */
		g_close_wakes++;
	} else {
		__CPROVER_assert(cv == g_eq_cv, "cv: the expire queue's condition variable");
		__CPROVER_assert(VP_EQ_LOCKED, "cv wake under the expire lock");
		g_cv_wake++;
	}
}
void nni_cv_wake1(nni_cv *cv) { nni_cv_wake(cv); }
void nni_cv_wait(nni_cv *cv)
{
	__CPROVER_assert(cv == g_eq_cv, "cv: the expire queue's condition variable");
	__CPROVER_assert(VP_EQ_LOCKED, "cv wait under the expire lock");
	g_cv_waits++;
	if (g_self != NULL) {
		g_self->a_expiring = false;
	}
}
int nni_cv_until(nni_cv *cv, nni_time when) { (void) when; nni_cv_wait(cv); return (0); }
int nni_thr_init(nni_thr *thr, nni_thr_func fn, void *arg) { (void) thr; (void) fn; (void) arg; return (nondet_int()); }
void nni_thr_fini(nni_thr *thr) { (void) thr; }
void nni_thr_run(nni_thr *thr) { (void) thr; }
void nni_thr_set_name(nni_thr *thr, const char *n) { (void) thr; (void) n; }

/* ---- lists ------------------------------------------------------------ */
void nni_list_init_offset(nni_list *l, size_t off) { (void) l; (void) off; }
void nni_list_node_remove(nni_list_node *n)
{
	__CPROVER_assert(n == g_exp_node || n == g_prov_node, "list node of the aio under study");
	if (n == g_exp_node) {
		__CPROVER_assert(VP_EQ_LOCKED, "expire list changed only under the expire lock");
		g_exp_on = false;
	} else {
		g_prov_on = false;
	}
}
int nni_list_node_active(nni_list_node *n)
{
	__CPROVER_assert(n == g_exp_node || n == g_prov_node, "list node of the aio under study");
	return (n == g_exp_node ? g_exp_on : g_prov_on);
}
void nni_list_append(nni_list *l, void *item)
{
	if (l == g_eq_list) {
		__CPROVER_assert(VP_EQ_LOCKED, "expire list changed only under the expire lock");
		__CPROVER_assert(item == (void *) g_self, "expire list: the aio under study");
		__CPROVER_assert(!g_exp_on, "expire list: aio inserted while already a member");
		g_exp_on = true;
		g_exp_add++;
	} else {
		__CPROVER_assert(!g_prov_on, "provider list: aio appended while already a member");
		g_prov_on = true;
	}
}
/* only reached from code that is not under contract here */
void *nni_list_first(const nni_list *l) { (void) l; return (nondet_ptr()); }
void *nni_list_next(const nni_list *l, void *i) { (void) l; (void) i; return (nondet_ptr()); }
void  nni_list_remove(nni_list *l, void *i) { (void) l; (void) i; }
int   nni_list_empty(nni_list *l) { (void) l; return (nondet_int()); }

/* ---- the provider's cancel function (as in aiocore) -------------------- */
static void
vp_cancel(nni_aio *aio, void *arg, nng_err rv)
{
	__CPROVER_assert(VP_NO_LOCK_HELD, "cancel function invoked with the expire lock released");
	__CPROVER_assert(aio->a_cancel_fn == NULL, "single-winner token: cancel slot already cleared when the cancel function runs");
	__CPROVER_assert(!g_exp_on, "aio off the expire list when the cancel function runs");
	g_cancel_calls++;
	g_cancel_aio = aio;
	g_cancel_arg = arg;
	g_cancel_rv  = (int) rv;
	(void) aio;
}
nni_aio_cancel_fn vp_cancel_ref = vp_cancel;

/* ---- id maps ----------------------------------------------------------- */
void *
nni_id_get(nni_id_map *m, uint64_t id)
{
	__CPROVER_assert(VP_SOCK_LK_HELD, "id map consulted under the global socket lock");
	g_id_calls++;
	g_id_key = id;
	if (m == &sock_ids) {
		g_id_map = 1;
		return (g_sock);
	}
	if (m == &ctx_ids) {
		g_id_map = 2;
		return (g_ctx);
	}
	g_id_map = 0;
	return (NULL);
}

/* ---- the protocol's send / receive operations -------------------------- *
 * ASSUMED behaviour of a protocol operation: it is handed (data, aio); it
 * either completes the aio inside the call (g_op_sync) or submits it with
 * nni_aio_start and, if accepted, completes it later (sequentially: while the
 * caller waits in nni_task_wait); the result g_r is ARBITRARY.  Send, result
 * 0: the protocol detaches the message (it owns it from then on); any other
 * result: the message stays attached.  Receive, result 0: an arbitrary fresh
 * message g_rmsg is attached.
 *
 * What nni_aio_start / nni_aio_finish* do to the aio WHEN THE PROTOCOL CALLS
 * THEM is modelled by vp_start / vp_finish below: exactly the clauses of the
 * contracts enforced in module aiocore (units aio_start, aio_finish,
 * aio_finish_msg, aio_finish_error) that concern the result, the message,
 * the skip flag, the cancel slot and the dispatch count.  (Running the real
 * functions here, or replacing them by the aiocore contracts, did not finish
 * within 420 s -- see not_decided in spec.json.)  The wrappers' OWN calls into
 * aio.c (init, skip_callback, set_timeout, normalize_timeout, wait, result,
 * get/set_msg, reset, finish_error, fini) are the real functions. */
static void
vp_finish(nni_aio *aio, int rv, nni_msg *m)
{
	/* AIO_FINISH_CONTRACT: result stored, slot cleared, message attached if
	 * given, and exactly one of { skip flag set, completion dispatched } */
	aio->a_result     = (nng_err) rv;
	aio->a_cancel_fn  = NULL;
	aio->a_cancel_arg = NULL;
	if (m != NULL) {
		aio->a_msg = m;
	}
	if (aio->a_skipped_callback != NULL) {
		*aio->a_skipped_callback = true;
		aio->a_skipped_callback  = NULL;
	} else {
		g_dispatched++;
	}
}
static bool
vp_start(nni_aio *aio, void *data)
{
	/* contract aio_start: the skip flag is disarmed; refused with exactly one
	 * dispatched completion when stopped (NNG_ESTOPPED), aborted before
	 * submission (the latched code), or out of time (NNG_ETIMEDOUT: relative
	 * timeout NNG_DURATION_ZERO, or an absolute deadline that has passed --
	 * the latter decided by the clock, here arbitrary); otherwise accepted
	 * with the cancel function installed and a clean result */
	aio->a_skipped_callback = NULL;
	g_prep++;
	if (aio->a_stop || aio->a_expire_q->eq_stop) {
		aio->a_stop   = true;
		aio->a_result = NNG_ESTOPPED;
		g_dispatched++;
		return (false);
	}
	if (aio->a_abort) {
		aio->a_abort  = false;
		aio->a_result = aio->a_abort_result;
		g_dispatched++;
		return (false);
	}
	if ((!aio->a_use_expire && aio->a_timeout == NNG_DURATION_ZERO) || (aio->a_use_expire && nondet_bool())) {
		aio->a_result = NNG_ETIMEDOUT;
		g_dispatched++;
		return (false);
	}
	aio->a_result     = NNG_OK;
	aio->a_cancel_fn  = vp_cancel;
	aio->a_cancel_arg = data;
	return (true);
}

static void
vp_complete(nni_aio *aio)
{
	g_fin_calls++;
	g_fin_rv = g_r;
	if (VP_OP_IS_SEND(VP_KIND)) {
		if (g_r == 0) {
			aio->a_msg = NULL; /* nni_aio_set_msg(aio, NULL): the protocol owns the message */
			g_msg_taken++;
		}
		vp_finish(aio, g_r, NULL);
	} else {
		vp_finish(aio, g_r, g_r == 0 ? g_rmsg : NULL);
	}
}

static void
vp_op(int kind, void *data, nni_aio *aio)
{
	/* identity ghosts of the aio under study */
	g_self      = aio;
	g_exp_node  = &aio->a_expire_node;
	g_prov_node = &aio->a_prov_node;
	g_eq_list   = &aio->a_expire_q->eq_list;
	g_eq_mtx    = &aio->a_expire_q->eq_mtx;
	g_eq_cv     = &aio->a_expire_q->eq_cv;
	g_op_calls++;
	g_op_kind       = kind;
	g_op_data       = data;
	g_op_aio        = aio;
	g_op_timeout    = aio->a_timeout;
	g_op_use_expire = aio->a_use_expire;
	g_op_msg        = aio->a_msg;
	g_op_unlocked   = VP_NO_LOCK_HELD;
	if (kind == VP_OP_SOCK_SEND || kind == VP_OP_SOCK_RECV) {
		g_op_ref = (g_sock != NULL) ? g_sock->s_ref : 0;
	} else {
		g_op_ref = (g_ctx != NULL) ? g_ctx->c_ref : 0;
	}
#ifdef VP_RECORD_BODY
	if (VP_OP_IS_SEND(kind) && aio->a_msg != NULL) {
		g_op_msg_len = nni_msg_len(aio->a_msg);
		if (g_k < g_op_msg_len) {
			g_op_msg_byte = ((uint8_t *) nni_msg_body(aio->a_msg))[g_k];
		}
	}
#endif
	__CPROVER_assert(!g_pending, "one operation at a time on the aio");
	if (g_op_sync) {
		vp_complete(aio);
		return;
	}
	if (!vp_start(aio, data)) {
		/* refused: completed by nni_aio_start; the message (send) stays attached */
		g_fin_calls++;
		g_fin_rv = (int) aio->a_result;
		return;
	}
	/* accepted: the operation is pending until the caller's wait returns
	 * (nni_task_wait); the completion another thread will deliver by then is
	 * written now */
	vp_complete(aio);
	g_pending = true;
}
/* Each unit studies ONE kind of operation (VP_KIND, a unit define): the slot
 * of that kind holds the full model, the other slots hold an operation whose
 * invocation is an error ("wrong protocol operation").  (With four full
 * models every indirect call site would be explored four times.) */
static void
vp_wrong_op(int kind)
{
	g_op_calls++;
	g_op_kind = kind;
	__CPROVER_assert(0, "wrong protocol operation invoked (send/recv or socket/context slot mixed up)");
}
#define VP_DISPATCH(k, d, a) do { if ((k) == VP_KIND) { vp_op((k), (d), (a)); } else { vp_wrong_op(k); } } while (0)
static void vp_sock_send(void *d, nni_aio *a) { VP_DISPATCH(VP_OP_SOCK_SEND, d, a); }
static void vp_sock_recv(void *d, nni_aio *a) { VP_DISPATCH(VP_OP_SOCK_RECV, d, a); }
static void vp_ctx_send(void *d, nni_aio *a) { VP_DISPATCH(VP_OP_CTX_SEND, d, a); }
static void vp_ctx_recv(void *d, nni_aio *a) { VP_DISPATCH(VP_OP_CTX_RECV, d, a); }
/* candidates for the indirect calls through the ops tables */
void (*vp_sock_send_ref)(void *, nni_aio *) = vp_sock_send;
void (*vp_sock_recv_ref)(void *, nni_aio *) = vp_sock_recv;
void (*vp_ctx_send_ref)(void *, nni_aio *)  = vp_ctx_send;
void (*vp_ctx_recv_ref)(void *, nni_aio *)  = vp_ctx_recv;
