/* Ghost state of the nngapi environment (declared before the real sources).
 *
 * All mutable environment ghosts are fields of ONE object g_api, so that a
 * contract names a single assigns target (DFCC checks every write against
 * every target; with ~60 separate ghosts symbolic execution does not finish).
 * The first group has the same names and meaning as modules/aiocore/ghost.h
 * (the aio.c environment: ONE aio under study per unit), so that
 * modules/aiocore/spec.h and contracts.h can be used unchanged. */
#ifndef VP_NNGAPI_GHOST_H
#define VP_NNGAPI_GHOST_H
#define VP_AIOCORE_GHOST_H /* this header replaces modules/aiocore/ghost.h */
#include "core/nng_impl.h"

/* protocol operation kinds */
#define VP_OP_SOCK_SEND 1
#define VP_OP_SOCK_RECV 2
#define VP_OP_CTX_SEND 3
#define VP_OP_CTX_RECV 4
#ifndef VP_KIND
#define VP_KIND 0 /* units that study no protocol operation */
#endif
#define VP_OP_IS_SEND(k) ((k) == VP_OP_SOCK_SEND || (k) == VP_OP_CTX_SEND)

struct vp_api_env {
	/* ---- aio.c environment (as modules/aiocore/ghost.h) ---- */
	nni_task * task_addr; /* &aio->a_task */
	size_t prep; /* calls of nni_task_prep */
	size_t dispatched; /* calls of nni_task_dispatch (asynchronous callback run) */
	size_t exec; /* calls of nni_task_exec (synchronous callback run) */
	size_t busy; /* model of task_busy: callbacks promised or pending */
	bool prepped; /* model of task_prep */
	size_t task_wait; /* calls of nni_task_wait */
	size_t task_fini; /* calls of nni_task_fini */
	size_t task_init; /* calls of nni_task_init */
	size_t cancel_at_wait; /* value of g_cancel_calls when nni_task_wait/fini was entered */
	nni_time now; /* last value handed out by nni_clock (monotone) */
	size_t clock_calls; 
	nni_list      * eq_list; /* &eq->eq_list */
	nni_list_node * exp_node; /* &aio->a_expire_node */
	nni_list_node * prov_node; /* &aio->a_prov_node */
	nni_mtx       * eq_mtx; /* &eq->eq_mtx */
	nni_cv        * eq_cv; /* &eq->eq_cv */
	bool exp_on; /* the aio is on the expire list */
	bool prov_on; /* the aio is on a provider list */
	size_t exp_add; /* insertions into the expire list */
	size_t cv_wake; /* wake-ups of the expire thread */
	size_t cv_waits; /* waits on the expire queue's cv */
	size_t cancel_calls; 
	nni_aio  * cancel_aio; 
	void     * cancel_arg; 
	int cancel_rv; 
	bool cancel_finishes; /* the provider still owns the aio and completes it from its cancel function */
	nni_aio  * self; /* the aio under study (for the cv-wait model) */
	size_t msg_len; /* answer of nni_msg_len */
	size_t reaped; /* calls of nni_reap */
	void     * reap_item; 
	uint32_t random; /* answer of nni_random */
	/* ---- id maps, protocol operation (this module) ---- */
	size_t id_calls; /* lookups */
	uint64_t id_key; /* key of the last lookup */
	int id_map; /* which map the last lookup used: 1 = sock_ids, 2 = ctx_ids, 0 = other */
	size_t close_wakes; /* wake-ups of a socket's close cv */
	size_t op_calls; 
	int op_kind; 
	void        * op_data; /* first argument (protocol private data) */
	nni_aio     * op_aio; 
	nng_duration op_timeout; /* aio->a_timeout when the operation was invoked */
	bool op_use_expire; /* aio->a_use_expire when the operation was invoked */
	nni_msg     * op_msg; /* aio->a_msg when the operation was invoked */
	size_t op_msg_len; /* send: body length of that message */
	uint8_t op_msg_byte; /* send: body byte g_k of that message (if g_k < length) */
	unsigned op_ref; /* hold count (s_ref / c_ref) while the operation ran */
	bool op_unlocked; /* no lock was held when the operation was invoked */
	bool pending; /* accepted by nni_aio_start, not yet completed */
	size_t fin_calls; /* completions of the operation (by the protocol, or refused by nni_aio_start) */
	int fin_rv; /* result of the last completion */
	size_t msg_taken; /* successful sends: the protocol detached the message and owns it */
	size_t blocked_waits; /* nni_aio_wait calls that found the operation still pending (= the caller blocks) */
} g_api;
#define g_task_addr (g_api.task_addr)
#define g_prep (g_api.prep)
#define g_dispatched (g_api.dispatched)
#define g_exec (g_api.exec)
#define g_busy (g_api.busy)
#define g_prepped (g_api.prepped)
#define g_task_wait (g_api.task_wait)
#define g_task_fini (g_api.task_fini)
#define g_task_init (g_api.task_init)
#define g_cancel_at_wait (g_api.cancel_at_wait)
#define g_now (g_api.now)
#define g_clock_calls (g_api.clock_calls)
#define g_eq_list (g_api.eq_list)
#define g_exp_node (g_api.exp_node)
#define g_prov_node (g_api.prov_node)
#define g_eq_mtx (g_api.eq_mtx)
#define g_eq_cv (g_api.eq_cv)
#define g_exp_on (g_api.exp_on)
#define g_prov_on (g_api.prov_on)
#define g_exp_add (g_api.exp_add)
#define g_cv_wake (g_api.cv_wake)
#define g_cv_waits (g_api.cv_waits)
#define g_cancel_calls (g_api.cancel_calls)
#define g_cancel_aio (g_api.cancel_aio)
#define g_cancel_arg (g_api.cancel_arg)
#define g_cancel_rv (g_api.cancel_rv)
#define g_cancel_finishes (g_api.cancel_finishes)
#define g_self (g_api.self)
#define g_msg_len (g_api.msg_len)
#define g_reaped (g_api.reaped)
#define g_reap_item (g_api.reap_item)
#define g_random (g_api.random)
#define g_id_calls (g_api.id_calls)
#define g_id_key (g_api.id_key)
#define g_id_map (g_api.id_map)
#define g_close_wakes (g_api.close_wakes)
#define g_op_calls (g_api.op_calls)
#define g_op_kind (g_api.op_kind)
#define g_op_data (g_api.op_data)
#define g_op_aio (g_api.op_aio)
#define g_op_timeout (g_api.op_timeout)
#define g_op_use_expire (g_api.op_use_expire)
#define g_op_msg (g_api.op_msg)
#define g_op_msg_len (g_api.op_msg_len)
#define g_op_msg_byte (g_api.op_msg_byte)
#define g_op_ref (g_api.op_ref)
#define g_op_unlocked (g_api.op_unlocked)
#define g_pending (g_api.pending)
#define g_fin_calls (g_api.fin_calls)
#define g_fin_rv (g_api.fin_rv)
#define g_msg_taken (g_api.msg_taken)
#define g_blocked_waits (g_api.blocked_waits)

/* INPUTS of the models (left arbitrary by the harness, written by no stub and
 * named in no assigns clause, hence constant over a call) */
nni_sock * g_sock; /* answer of nni_id_get(&sock_ids, ..): NULL or the socket */
nni_ctx  * g_ctx; /* answer of nni_id_get(&ctx_ids, ..): NULL or the context */
int g_r; /* the result the operation completes with */
bool g_op_sync; /* true: completes inside the call; false: goes through nni_aio_start and (if accepted) completes later */
nni_msg * g_rmsg; /* receive, g_r == 0: the fresh message attached at completion */
#endif
