/* Contracts for the public send / receive entry points of src/nng.c and the
 * socket.c functions behind them.
 *
 * C15: with NNG_FLAG_NONBLOCK the aio handed to the protocol operation carries
 *      timeout NNG_DURATION_ZERO (exactly), without it the socket's / context's
 *      configured timeout (NNG_DURATION_DEFAULT substituted by socket.c, any
 *      explicit value kept); NNG_ETIMEDOUT -> NNG_EAGAIN iff NONBLOCK; a
 *      NONBLOCK call never waits for a pending operation.
 * C03: message ownership (library after a successful send, caller otherwise),
 *      temporary messages freed exactly once, the hold taken by nni_sock_find /
 *      nni_ctx_find released exactly once on every path.
 * C20: allocation failure => clean NNG_ENOMEM, hold released, nothing leaked.
 *
 * The protocol operation and the wait are the environment (modules/nngapi/env.h). */
#ifndef VP_NNGAPI_CONTRACTS_H
#define VP_NNGAPI_CONTRACTS_H
/* clang-format off */
#define RV __CPROVER_return_value
#define OLD(e) __CPROVER_old(e)

/* ======================================================================
 * the synchronous forms: the aio lives on the wrapper's stack
 * ==================================================================== */

/* common part of the four synchronous socket/context forms.
 *  FOUND  the lookup grants a hold          REF   the hold counter
 *  KIND   expected operation                DATA  expected first argument
 *  TMO    the configured timeout that applies without NONBLOCK */
#define API_SYNC_COMMON(FOUND, REF, KIND, DATA, TMO)                                                       \
/* lock discipline, heap, hold: on EVERY path the hold counter is what it was */                          \
__CPROVER_ensures(VP_NO_LOCK_HELD && !g_pending && g_random == OLD(g_random))                                \
/* no hold granted: the protocol is never called, no aio is set up */                                      \
__CPROVER_ensures(!(FOUND) ==> (g_op_calls == OLD(g_op_calls) && g_task_init == OLD(g_task_init) && g_fin_calls == OLD(g_fin_calls) && g_msg_taken == OLD(g_msg_taken))) \
/* hold granted: exactly one operation, the right one, on the right object, outside every lock, while the hold is in place */ \
__CPROVER_ensures((FOUND) ==> (g_op_calls == OLD(g_op_calls) + 1 && g_op_kind == (KIND) && g_op_data == (DATA) && g_op_unlocked && g_op_ref == (REF) + 1)) \
/* C15: the timeout the operation sees */                                                                  \
__CPROVER_ensures(((FOUND) && API_NB(flags)) ==> (g_op_timeout == NNG_DURATION_ZERO && !g_op_use_expire))  \
__CPROVER_ensures(((FOUND) && !API_NB(flags)) ==> (g_op_timeout == (TMO) && !g_op_use_expire))             \
/* the operation completed exactly once before the wrapper returned, and its result is what the caller gets (ETIMEDOUT -> EAGAIN iff NONBLOCK) */ \
__CPROVER_ensures((FOUND) ==> (g_fin_calls == OLD(g_fin_calls) + 1 && RV == API_MAP_RV(flags)))           \
/* C15: a NONBLOCK call never waits for a pending operation; if the protocol could not finish in the call it fails at once */ \
__CPROVER_ensures(((FOUND) && API_NB(flags)) ==> g_blocked_waits == OLD(g_blocked_waits))                  \
__CPROVER_ensures(((FOUND) && API_NB(flags) && !g_op_sync && !API_EQ->eq_stop) ==> RV == NNG_EAGAIN) \
/* the completion is awaited exactly when it was not delivered inside the call; the aio is finalised exactly once */ \
__CPROVER_ensures((FOUND) ==> (g_task_init == OLD(g_task_init) + 1 && g_task_fini == OLD(g_task_fini) + 1 && g_task_wait == OLD(g_task_wait) + (g_op_sync ? 0 : 1)))

#define API_SOCK_LOOKUP_POST(DONE)                                                                         \
/* the id is looked up once, in the socket map, under the global lock (asserted in the stub) */           \
__CPROVER_ensures((DONE) ==> (g_id_calls == OLD(g_id_calls) + 1 && g_id_key == (uint64_t) s.id && g_id_map == 1)) \
__CPROVER_ensures(((DONE) && g_sock == NULL) ==> RV == NNG_ECLOSED)                                        \
__CPROVER_ensures(((DONE) && g_sock != NULL && g_sock->s_closed) ==> RV == NNG_ECLOSED)                    \
__CPROVER_ensures(((DONE) && g_sock != NULL && !g_sock->s_closed && g_sock->s_device) ==> RV == NNG_EBUSY) \
/* hold released exactly once on every path */                                                             \
__CPROVER_ensures(g_sock != NULL ==> g_sock->s_ref == g_u32)

#define API_CTX_LOOKUP_POST(DONE)                                                                          \
__CPROVER_ensures((DONE) ==> (g_id_calls == OLD(g_id_calls) + 1 && g_id_key == (uint64_t) cid.id && g_id_map == 2)) \
__CPROVER_ensures(((DONE) && !API_CTX_FOUND) ==> RV == NNG_ECLOSED)                                        \
__CPROVER_ensures(g_ctx != NULL ==> g_ctx->c_ref == g_u32)

#define API_SYNC_ASSIGNS                                                                                   \
__CPROVER_assigns(API_GHOSTS, g_free_calls, g_alloc_ok)                                 \
__CPROVER_assigns(API_EQ->eq_next)

/* ---- nng_sendmsg ---------------------------------------------------------- */
int nng_sendmsg(nng_socket s, nng_msg *msg, int flags)
__CPROVER_requires(API_AIO_SYS_PRE && API_ENV_PRE && API_SOCK_PRE)
__CPROVER_requires(msg == NULL || API_MSG_PRE(msg))
API_SYNC_ASSIGNS
__CPROVER_assigns(g_sock != NULL: g_sock->s_ref)
/* NOTE the frame: the message object is in no assigns / frees clause -- the wrapper neither writes nor frees it on any path (C03) */
__CPROVER_ensures(msg == NULL ==> (RV == NNG_EINVAL && g_id_calls == OLD(g_id_calls)))
API_SOCK_LOOKUP_POST(msg != NULL)
API_SYNC_COMMON(msg != NULL && API_SOCK_FOUND, g_sock->s_ref, VP_OP_SOCK_SEND, g_sock->s_data, g_sock->s_sndtimeo)
/* the operation is handed the caller's message */
__CPROVER_ensures((msg != NULL && API_SOCK_FOUND) ==> __CPROVER_pointer_in_range_dfcc(msg, g_op_msg, msg))
/* C03: rv == 0 <=> the protocol took the message (library owns it); otherwise it is still the caller's */
__CPROVER_ensures(RV == 0 ? g_msg_taken == OLD(g_msg_taken) + 1 : g_msg_taken == OLD(g_msg_taken))
__CPROVER_ensures(VP_HEAP_DELTA(0, 0))
;

/* ---- nng_recvmsg ---------------------------------------------------------- */
int nng_recvmsg(nng_socket s, nng_msg **msgp, int flags)
__CPROVER_requires(API_AIO_SYS_PRE && API_ENV_PRE && API_SOCK_PRE)
__CPROVER_requires(__CPROVER_is_fresh(msgp, sizeof(*msgp)) && API_MSG_PRE(g_rmsg))
API_SYNC_ASSIGNS
__CPROVER_assigns(g_sock != NULL: g_sock->s_ref)
__CPROVER_assigns(*msgp)
API_SOCK_LOOKUP_POST(1)
API_SYNC_COMMON(API_SOCK_FOUND, g_sock->s_ref, VP_OP_SOCK_RECV, g_sock->s_data, g_sock->s_rcvtimeo)
/* success: the caller gets the message the completion carried; failure: *msgp untouched */
__CPROVER_ensures(RV == 0 ==> (API_SOCK_FOUND && g_fin_rv == 0 && __CPROVER_pointer_in_range_dfcc(g_rmsg, *msgp, g_rmsg)))
__CPROVER_ensures(RV != 0 ==> *msgp == OLD(*msgp))
__CPROVER_ensures(VP_HEAP_DELTA(0, 0) && g_msg_taken == OLD(g_msg_taken))
;

/* ---- nng_send: the copying form --------------------------------------------------
 * (this version of the library has no NNG_FLAG_ALLOC: nng_send always copies) */
int nng_send(nng_socket s, const void *buf, size_t len, int flags)
__CPROVER_requires(API_AIO_SYS_PRE && API_ENV_PRE && API_SOCK_PRE)
__CPROVER_requires(__CPROVER_is_fresh(buf, len > 0 ? len : 1))
/* ghost equation: g_b is the caller's byte number g_k */
__CPROVER_requires(g_k < len ==> g_b == ((const uint8_t *) buf)[g_k])
API_SYNC_ASSIGNS
__CPROVER_assigns(g_sock != NULL: g_sock->s_ref)
__CPROVER_ensures(VP_NO_LOCK_HELD && !g_pending && (g_sock != NULL ==> g_sock->s_ref == g_u32))
/* C20 / C03: the temporary message is freed exactly once on every failure path (struct + buffer: whatever was obtained is given back), never on success */
__CPROVER_ensures(RV != 0 ==> (g_alloc_ok - OLD(g_alloc_ok) == g_free_calls - OLD(g_free_calls) && g_msg_taken == OLD(g_msg_taken)))
__CPROVER_ensures(RV == 0 ==> (VP_HEAP_DELTA(2, 0) && g_msg_taken == OLD(g_msg_taken) + 1))
/* allocation failure is reported before anything else happens */
__CPROVER_ensures(g_id_calls == OLD(g_id_calls) ==> RV == NNG_ENOMEM)
/* success: the library owns a message that carries exactly the caller's bytes */
__CPROVER_ensures(RV == 0 ==> (API_MLEN(g_op_msg) == len && g_op_msg->m_header_len == 0 && (g_k < len ==> API_MBODY(g_op_msg)[g_k] == g_b)))
/* C15 and the result mapping are those of nng_sendmsg */
__CPROVER_ensures((g_id_calls != OLD(g_id_calls) && API_SOCK_FOUND) ==> (g_op_calls == OLD(g_op_calls) + 1 && g_op_kind == VP_OP_SOCK_SEND && RV == API_MAP_RV(flags) && g_op_timeout == (API_NB(flags) ? NNG_DURATION_ZERO : g_sock->s_sndtimeo)))
__CPROVER_ensures((g_id_calls != OLD(g_id_calls) && !API_SOCK_FOUND) ==> (RV == ((g_sock == NULL || g_sock->s_closed) ? NNG_ECLOSED : NNG_EBUSY) && g_op_calls == OLD(g_op_calls)))
;

/* ---- nng_recv: the copying form --------------------------------------------------- */
int nng_recv(nng_socket s, void *buf, size_t *szp, int flags)
__CPROVER_requires(API_AIO_SYS_PRE && API_ENV_PRE && API_SOCK_PRE)
__CPROVER_requires(__CPROVER_is_fresh(szp, sizeof(*szp)) && __CPROVER_is_fresh(buf, *szp > 0 ? *szp : 1) && API_MSG_PRE(g_rmsg))
/* ghost equations: g_b is message byte g_k, g_hb is the caller's buffer byte g_j */
__CPROVER_requires((g_k < API_MLEN(g_rmsg) ==> g_b == API_MBODY(g_rmsg)[g_k]) && (g_j < *szp ==> g_hb == ((uint8_t *) buf)[g_j]))
API_SYNC_ASSIGNS
__CPROVER_assigns(g_sock != NULL: g_sock->s_ref)
__CPROVER_assigns(*szp, __CPROVER_object_whole(buf), *g_rmsg)
__CPROVER_frees(g_rmsg, g_rmsg->m_body.ch_buf)
__CPROVER_ensures(VP_NO_LOCK_HELD && !g_pending && (g_sock != NULL ==> g_sock->s_ref == g_u32))
__CPROVER_ensures(RV == 0 ==> (API_SOCK_FOUND && g_fin_rv == 0))
__CPROVER_ensures(API_SOCK_FOUND ==> (g_op_calls == OLD(g_op_calls) + 1 && g_op_kind == VP_OP_SOCK_RECV && RV == API_MAP_RV(flags) && g_op_timeout == (API_NB(flags) ? NNG_DURATION_ZERO : g_sock->s_rcvtimeo)))
/* success: the real size is reported, min(size, capacity) bytes are copied, the rest of the buffer is untouched */
__CPROVER_ensures(RV == 0 ==> *szp == OLD(API_MLEN(g_rmsg)))
__CPROVER_ensures((RV == 0 && g_k < OLD(API_MLEN(g_rmsg)) && g_k < OLD(*szp)) ==> ((uint8_t *) buf)[g_k] == g_b)
__CPROVER_ensures((RV == 0 && g_j >= OLD(API_MLEN(g_rmsg)) && g_j < OLD(*szp)) ==> ((uint8_t *) buf)[g_j] == g_hb)
/* ... and the message is released exactly once (the last reference frees struct + buffer, a shared one is only dropped) */
__CPROVER_ensures((RV == 0 && OLD(g_rmsg->m_refcnt.v) == 1) ==> VP_HEAP_DELTA(0, 2))
__CPROVER_ensures((RV == 0 && OLD(g_rmsg->m_refcnt.v) > 1) ==> (VP_HEAP_DELTA(0, 0) && g_rmsg->m_refcnt.v == OLD(g_rmsg->m_refcnt.v) - 1))
/* failure: size and buffer untouched, nothing freed */
__CPROVER_ensures(RV != 0 ==> (*szp == OLD(*szp) && VP_HEAP_DELTA(0, 0) && (g_j < *szp ==> ((uint8_t *) buf)[g_j] == g_hb)))
;

/* ---- nng_ctx_sendmsg / nng_ctx_recvmsg ----------------------------------------- */
int nng_ctx_sendmsg(nng_ctx cid, nng_msg *msg, int flags)
__CPROVER_requires(API_AIO_SYS_PRE && API_ENV_PRE && API_CTX_PRE)
__CPROVER_requires(msg == NULL || API_MSG_PRE(msg))
API_SYNC_ASSIGNS
__CPROVER_assigns(g_ctx != NULL: g_ctx->c_ref)
__CPROVER_ensures(msg == NULL ==> (RV == NNG_EINVAL && g_id_calls == OLD(g_id_calls)))
API_CTX_LOOKUP_POST(msg != NULL)
API_SYNC_COMMON(msg != NULL && API_CTX_FOUND, g_ctx->c_ref, VP_OP_CTX_SEND, g_ctx->c_data, g_ctx->c_sndtimeo)
__CPROVER_ensures((msg != NULL && API_CTX_FOUND) ==> __CPROVER_pointer_in_range_dfcc(msg, g_op_msg, msg))
__CPROVER_ensures(RV == 0 ? g_msg_taken == OLD(g_msg_taken) + 1 : g_msg_taken == OLD(g_msg_taken))
__CPROVER_ensures(VP_HEAP_DELTA(0, 0))
;
int nng_ctx_recvmsg(nng_ctx cid, nng_msg **msgp, int flags)
__CPROVER_requires(API_AIO_SYS_PRE && API_ENV_PRE && API_CTX_PRE)
__CPROVER_requires(__CPROVER_is_fresh(msgp, sizeof(*msgp)) && API_MSG_PRE(g_rmsg))
API_SYNC_ASSIGNS
__CPROVER_assigns(g_ctx != NULL: g_ctx->c_ref)
__CPROVER_assigns(*msgp)
API_CTX_LOOKUP_POST(1)
API_SYNC_COMMON(API_CTX_FOUND, g_ctx->c_ref, VP_OP_CTX_RECV, g_ctx->c_data, g_ctx->c_rcvtimeo)
__CPROVER_ensures(RV == 0 ==> (API_CTX_FOUND && g_fin_rv == 0 && __CPROVER_pointer_in_range_dfcc(g_rmsg, *msgp, g_rmsg)))
__CPROVER_ensures(RV != 0 ==> *msgp == OLD(*msgp))
__CPROVER_ensures(VP_HEAP_DELTA(0, 0) && g_msg_taken == OLD(g_msg_taken))
;

/* ======================================================================
 * socket.c: the functions the wrappers rest on
 * ==================================================================== */

/* an aio as the wrappers hand it down: nothing in flight */
#define API_AIO_PRE(aio)                                                                                   \
	(__CPROVER_is_fresh((aio), sizeof(nni_aio)) && __CPROVER_is_fresh((aio)->a_expire_q, sizeof(nni_aio_expire_q)) && \
	    ((aio)->a_skipped_callback == NULL || (__CPROVER_is_fresh((aio)->a_skipped_callback, sizeof(bool)) && !*(aio)->a_skipped_callback)) && \
	    (aio)->a_cancel_fn == NULL && !(aio)->a_abort && (aio)->a_timeout >= NNG_DURATION_DEFAULT)

/* what the model operation leaves behind (environment, restated so that callers of the contract can use it) */
#define API_OP_POST(aio, SENDKIND)                                                                         \
__CPROVER_ensures(g_fin_calls == OLD(g_fin_calls) + 1)                                                     \
__CPROVER_ensures(aio->a_result == (nng_err) g_fin_rv)                                                     \
/* completed inside the call <=> the skip flag (if armed) was set; the flag is disarmed either way; nothing left to cancel once completed */ \
__CPROVER_ensures(aio->a_skipped_callback == NULL && aio->a_cancel_fn == NULL)                             \
__CPROVER_ensures(OLD(aio->a_skipped_callback) != NULL ==> *OLD(aio->a_skipped_callback) == g_op_sync)    \
/* an operation that cannot complete in the call goes through nni_aio_start: with timeout zero it is refused at once (NNG_ETIMEDOUT), never left pending */ \
__CPROVER_ensures((!g_op_sync && !OLD(aio->a_stop) && !aio->a_expire_q->eq_stop && !aio->a_use_expire && g_op_timeout == NNG_DURATION_ZERO) ==> (g_fin_rv == (int) NNG_ETIMEDOUT && !g_pending)) \
__CPROVER_ensures(g_pending ==> (!g_op_sync && (aio->a_use_expire || g_op_timeout != NNG_DURATION_ZERO)))  \
__CPROVER_ensures(g_op_sync ==> (!g_pending && g_fin_rv == g_r))                                           \
__CPROVER_ensures((SENDKIND) ==> ((g_fin_rv == 0) ? (aio->a_msg == NULL && g_msg_taken == OLD(g_msg_taken) + 1) : (aio->a_msg == OLD(aio->a_msg) && g_msg_taken == OLD(g_msg_taken)))) \
__CPROVER_ensures(!(SENDKIND) ==> (g_msg_taken == OLD(g_msg_taken) && ((g_fin_rv == 0) ? aio->a_msg == g_rmsg : aio->a_msg == OLD(aio->a_msg))))

#define API_DISPATCH_CONTRACT(OBJPRE, BIND, REF, KIND, DATA, TMO, SENDKIND)                                           \
__CPROVER_requires(API_ENV_PRE && (OBJPRE) && (BIND) && API_AIO_PRE(aio) && ((SENDKIND) || g_rmsg != NULL))                                            \
__CPROVER_assigns(g_api)                                                                              \
__CPROVER_assigns(aio->a_timeout, aio->a_result, aio->a_msg, aio->a_cancel_fn, aio->a_cancel_arg, aio->a_skipped_callback, aio->a_stop, aio->a_abort) \
__CPROVER_assigns(aio->a_skipped_callback != NULL: *aio->a_skipped_callback)                               \
/* exactly one protocol operation: the right slot, the protocol's private data, this aio, no lock held */   \
__CPROVER_ensures(g_op_calls == OLD(g_op_calls) + 1 && g_op_kind == (KIND) && g_op_data == (DATA) && g_op_aio == aio && g_op_unlocked) \
/* C15: NNG_DURATION_DEFAULT is replaced by the configured timeout, any explicit value (zero, infinite, positive) is kept */ \
__CPROVER_ensures(OLD(aio->a_timeout) == NNG_DURATION_DEFAULT ==> g_op_timeout == (TMO))                   \
__CPROVER_ensures(OLD(aio->a_timeout) != NNG_DURATION_DEFAULT ==> g_op_timeout == OLD(aio->a_timeout))     \
__CPROVER_ensures(g_op_use_expire == aio->a_use_expire && g_op_msg == OLD(aio->a_msg) && g_op_ref == (REF))                     \
/* environment bookkeeping: this aio is now "the aio under study" of the aio.c stubs */                     \
__CPROVER_ensures(g_self == aio && g_exp_node == &aio->a_expire_node && g_prov_node == &aio->a_prov_node && g_eq_list == &aio->a_expire_q->eq_list && g_eq_mtx == &aio->a_expire_q->eq_mtx && g_eq_cv == &aio->a_expire_q->eq_cv) \
__CPROVER_ensures(g_task_addr == OLD(g_task_addr) && g_task_init == OLD(g_task_init) && g_task_fini == OLD(g_task_fini) && g_task_wait == OLD(g_task_wait) && g_blocked_waits == OLD(g_blocked_waits) && g_exp_on == OLD(g_exp_on) && g_random == OLD(g_random) && g_id_calls == OLD(g_id_calls) && g_id_key == OLD(g_id_key) && g_id_map == OLD(g_id_map) && g_close_wakes == OLD(g_close_wakes) && g_free_calls == OLD(g_free_calls) && g_alloc_ok == OLD(g_alloc_ok))                     \
API_OP_POST(aio, SENDKIND)

void nni_sock_send(nni_sock *sock, nni_aio *aio)
API_DISPATCH_CONTRACT(API_SOCK_OK(sock), __CPROVER_pointer_in_range_dfcc(sock, g_sock, sock), sock->s_ref, VP_OP_SOCK_SEND, sock->s_data, sock->s_sndtimeo, 1);
void nni_sock_recv(nni_sock *sock, nni_aio *aio)
API_DISPATCH_CONTRACT(API_SOCK_OK(sock), __CPROVER_pointer_in_range_dfcc(sock, g_sock, sock), sock->s_ref, VP_OP_SOCK_RECV, sock->s_data, sock->s_rcvtimeo, 0);
void nni_ctx_send(nni_ctx *ctx, nni_aio *aio)
API_DISPATCH_CONTRACT(API_CTX_OK(ctx), __CPROVER_pointer_in_range_dfcc(ctx, g_ctx, ctx), ctx->c_ref, VP_OP_CTX_SEND, ctx->c_data, ctx->c_sndtimeo, 1);
void nni_ctx_recv(nni_ctx *ctx, nni_aio *aio)
API_DISPATCH_CONTRACT(API_CTX_OK(ctx), __CPROVER_pointer_in_range_dfcc(ctx, g_ctx, ctx), ctx->c_ref, VP_OP_CTX_RECV, ctx->c_data, ctx->c_rcvtimeo, 0);

/* ---- holds ------------------------------------------------------------------ */
int nni_sock_find(nni_sock **sockp, uint32_t id)
__CPROVER_requires(VP_NO_LOCK_HELD && (g_mtx_a == NULL || g_mtx_a == &sock_lk) && API_SOCK_PRE && __CPROVER_is_fresh(sockp, sizeof(*sockp)))
__CPROVER_ensures(g_mtx_a == &sock_lk && g_mtx_b == OLD(g_mtx_b))
__CPROVER_assigns(g_id_calls, g_id_key, g_id_map, VP_SYNC_GHOSTS)
__CPROVER_assigns(API_SOCK_FOUND: *sockp)
__CPROVER_assigns(g_sock != NULL: g_sock->s_ref)
__CPROVER_ensures(VP_NO_LOCK_HELD && g_id_calls == OLD(g_id_calls) + 1 && g_id_key == (uint64_t) id && g_id_map == 1)
__CPROVER_ensures(RV == (g_sock == NULL ? NNG_ECLOSED : (g_sock->s_closed ? NNG_ECLOSED : (g_sock->s_device ? NNG_EBUSY : 0))))
/* a hold is taken exactly when the socket is handed out */
__CPROVER_ensures(RV == 0 ==> (g_sock->s_ref == g_u32 + 1 && __CPROVER_pointer_in_range_dfcc(g_sock, *sockp, g_sock)))
__CPROVER_ensures(RV != 0 ==> (g_sock != NULL ==> g_sock->s_ref == g_u32))
;
void nni_sock_rele(nni_sock *s)
__CPROVER_requires(VP_NO_LOCK_HELD && (g_mtx_a == NULL || g_mtx_a == &sock_lk) && API_SOCK_OK(s))
__CPROVER_ensures(g_mtx_a == &sock_lk && g_mtx_b == OLD(g_mtx_b))
__CPROVER_assigns(g_close_wakes, VP_SYNC_GHOSTS, s->s_ref)
__CPROVER_ensures(VP_NO_LOCK_HELD && s->s_ref == OLD(s->s_ref) - 1)
/* the closer is woken exactly when it is waiting for this hold (woken under the global lock: asserted in the stub) */
__CPROVER_ensures(g_close_wakes == OLD(g_close_wakes) + ((s->s_closed && s->s_ref < 2) ? 1 : 0))
;
int nni_ctx_find(nni_ctx **cp, uint32_t id)
__CPROVER_requires(VP_NO_LOCK_HELD && (g_mtx_a == NULL || g_mtx_a == &sock_lk) && API_CTX_PRE && __CPROVER_is_fresh(cp, sizeof(*cp)))
__CPROVER_ensures(g_mtx_a == &sock_lk && g_mtx_b == OLD(g_mtx_b))
__CPROVER_assigns(g_id_calls, g_id_key, g_id_map, VP_SYNC_GHOSTS)
__CPROVER_assigns(API_CTX_FOUND: *cp)
__CPROVER_assigns(g_ctx != NULL: g_ctx->c_ref)
__CPROVER_ensures(VP_NO_LOCK_HELD && g_id_calls == OLD(g_id_calls) + 1 && g_id_key == (uint64_t) id && g_id_map == 2)
__CPROVER_ensures(RV == (API_CTX_FOUND ? 0 : NNG_ECLOSED))
__CPROVER_ensures(RV == 0 ==> (g_ctx->c_ref == g_u32 + 1 && __CPROVER_pointer_in_range_dfcc(g_ctx, *cp, g_ctx)))
__CPROVER_ensures(RV != 0 ==> (g_ctx != NULL ==> g_ctx->c_ref == g_u32))
;
/* nni_ctx_rele, context not closed (the only case the send/receive wrappers can be in: nni_ctx_find refuses a closed context) */
void nni_ctx_rele(nni_ctx *ctx)
__CPROVER_requires(VP_NO_LOCK_HELD && (g_mtx_a == NULL || g_mtx_a == &sock_lk) && API_CTX_OK(ctx) && !ctx->c_closed)
__CPROVER_ensures(g_mtx_a == &sock_lk && g_mtx_b == OLD(g_mtx_b))
__CPROVER_assigns(g_close_wakes, VP_SYNC_GHOSTS, ctx->c_ref)
__CPROVER_ensures(VP_NO_LOCK_HELD && ctx->c_ref == OLD(ctx->c_ref) - 1 && g_close_wakes == OLD(g_close_wakes))
;

/* ======================================================================
 * the asynchronous forms: the caller's aio (nothing in flight on it)
 * ==================================================================== */
#define API_XAIO_PRE(aio) (AIO_PRE0(aio) && AIO_IDLE(aio) && (aio)->a_timeout >= NNG_DURATION_DEFAULT && !g_pending)
#define API_XAIO_ASSIGNS(aio)                                                                              \
__CPROVER_assigns(API_GHOSTS)                                                                              \
__CPROVER_assigns(aio->a_result, aio->a_count, aio->a_abort, aio->a_expire_ok, aio->a_sleep, aio->a_skipped_callback, aio->a_timeout, aio->a_msg, aio->a_cancel_fn, aio->a_cancel_arg, aio->a_stop, aio->a_expire, aio->a_use_expire, __CPROVER_object_upto(aio->a_outputs, sizeof(aio->a_outputs)))

/* FOUND: hold granted; LOOKED: the id was looked up; HOLDOK: hold balance; KIND/DATA/TMO as above; SENDKIND: 1 for send */
#define API_XAIO_POST(LOOKED, FOUND, REFNOW, KIND, DATA, TMO, SENDKIND)                                   \
__CPROVER_ensures(VP_NO_LOCK_HELD)                                                                         \
/* no hold: exactly one completion with the lookup's verdict, the protocol is not called, the message (send) is still attached */ \
__CPROVER_ensures(((LOOKED) && !(FOUND)) ==> (g_dispatched == OLD(g_dispatched) + 1 && g_op_calls == OLD(g_op_calls) && aio->a_msg == OLD(aio->a_msg) && g_msg_taken == OLD(g_msg_taken) && !g_pending)) \
/* hold: exactly one protocol operation, on this aio, while the hold is in place, outside every lock */     \
__CPROVER_ensures((FOUND) ==> (g_op_calls == OLD(g_op_calls) + 1 && g_op_kind == (KIND) && g_op_data == (DATA) && g_op_aio == aio && g_op_unlocked && g_op_ref == (REFNOW) + 1 && g_op_msg == OLD(aio->a_msg))) \
/* C15: the aio's own timeout decides; only NNG_DURATION_DEFAULT is replaced by the configured one */      \
__CPROVER_ensures(((FOUND) && OLD(aio->a_timeout) == NNG_DURATION_DEFAULT) ==> g_op_timeout == (TMO))      \
__CPROVER_ensures(((FOUND) && OLD(aio->a_timeout) != NNG_DURATION_DEFAULT) ==> g_op_timeout == OLD(aio->a_timeout)) \
/* exactly one completion (delivered, or owed by the pending operation) */                                 \
__CPROVER_ensures((FOUND) ==> (g_fin_calls == OLD(g_fin_calls) + 1 && g_dispatched == OLD(g_dispatched) + 1 && aio->a_result == (nng_err) g_fin_rv)) \
/* C03: the message */                                                                                     \
__CPROVER_ensures(((FOUND) && (SENDKIND)) ==> ((g_fin_rv == 0) ? (aio->a_msg == NULL && g_msg_taken == OLD(g_msg_taken) + 1) : (aio->a_msg == OLD(aio->a_msg) && g_msg_taken == OLD(g_msg_taken)))) \
__CPROVER_ensures(((FOUND) && !(SENDKIND)) ==> ((g_fin_rv == 0) ? aio->a_msg == g_rmsg : aio->a_msg == OLD(aio->a_msg)))

void nng_socket_send(nng_socket s, nng_aio *aio)
__CPROVER_requires(API_XAIO_PRE(aio) && API_SOCK_PRE)
API_XAIO_ASSIGNS(aio)
__CPROVER_assigns(g_sock != NULL: g_sock->s_ref)
/* no message: NNG_EINVAL, exactly one completion, nothing looked up */
__CPROVER_ensures(OLD(aio->a_msg) == NULL ==> (aio->a_result == NNG_EINVAL && g_dispatched == OLD(g_dispatched) + 1 && g_id_calls == OLD(g_id_calls) && g_op_calls == OLD(g_op_calls) && aio->a_msg == NULL))
__CPROVER_ensures(OLD(aio->a_msg) != NULL ==> (g_id_calls == OLD(g_id_calls) + 1 && g_id_key == (uint64_t) s.id && g_id_map == 1))
__CPROVER_ensures((OLD(aio->a_msg) != NULL && !API_SOCK_FOUND) ==> aio->a_result == ((g_sock == NULL || g_sock->s_closed) ? NNG_ECLOSED : NNG_EBUSY))
__CPROVER_ensures(g_sock != NULL ==> g_sock->s_ref == g_u32)
API_XAIO_POST(OLD(aio->a_msg) != NULL, OLD(aio->a_msg) != NULL && API_SOCK_FOUND, g_sock->s_ref, VP_OP_SOCK_SEND, g_sock->s_data, g_sock->s_sndtimeo, 1)
;
void nng_socket_recv(nng_socket s, nng_aio *aio)
__CPROVER_requires(API_XAIO_PRE(aio) && API_SOCK_PRE && g_rmsg != NULL)
API_XAIO_ASSIGNS(aio)
__CPROVER_assigns(g_sock != NULL: g_sock->s_ref)
__CPROVER_ensures(g_id_calls == OLD(g_id_calls) + 1 && g_id_key == (uint64_t) s.id && g_id_map == 1)
__CPROVER_ensures(!API_SOCK_FOUND ==> aio->a_result == ((g_sock == NULL || g_sock->s_closed) ? NNG_ECLOSED : NNG_EBUSY))
__CPROVER_ensures(g_sock != NULL ==> g_sock->s_ref == g_u32)
API_XAIO_POST(1, API_SOCK_FOUND, g_sock->s_ref, VP_OP_SOCK_RECV, g_sock->s_data, g_sock->s_rcvtimeo, 0)
;
void nng_ctx_send(nng_ctx cid, nng_aio *aio)
__CPROVER_requires(API_XAIO_PRE(aio) && API_CTX_PRE)
API_XAIO_ASSIGNS(aio)
__CPROVER_assigns(g_ctx != NULL: g_ctx->c_ref)
__CPROVER_ensures(OLD(aio->a_msg) == NULL ==> (aio->a_result == NNG_EINVAL && g_dispatched == OLD(g_dispatched) + 1 && g_id_calls == OLD(g_id_calls) && g_op_calls == OLD(g_op_calls) && aio->a_msg == NULL))
__CPROVER_ensures(OLD(aio->a_msg) != NULL ==> (g_id_calls == OLD(g_id_calls) + 1 && g_id_key == (uint64_t) cid.id && g_id_map == 2))
__CPROVER_ensures((OLD(aio->a_msg) != NULL && !API_CTX_FOUND) ==> aio->a_result == NNG_ECLOSED)
__CPROVER_ensures(g_ctx != NULL ==> g_ctx->c_ref == g_u32)
API_XAIO_POST(OLD(aio->a_msg) != NULL, OLD(aio->a_msg) != NULL && API_CTX_FOUND, g_ctx->c_ref, VP_OP_CTX_SEND, g_ctx->c_data, g_ctx->c_sndtimeo, 1)
;
void nng_ctx_recv(nng_ctx cid, nng_aio *aio)
__CPROVER_requires(API_XAIO_PRE(aio) && API_CTX_PRE && g_rmsg != NULL)
API_XAIO_ASSIGNS(aio)
__CPROVER_assigns(g_ctx != NULL: g_ctx->c_ref)
__CPROVER_ensures(g_id_calls == OLD(g_id_calls) + 1 && g_id_key == (uint64_t) cid.id && g_id_map == 2)
__CPROVER_ensures(!API_CTX_FOUND ==> aio->a_result == NNG_ECLOSED)
__CPROVER_ensures(g_ctx != NULL ==> g_ctx->c_ref == g_u32)
API_XAIO_POST(1, API_CTX_FOUND, g_ctx->c_ref, VP_OP_CTX_RECV, g_ctx->c_data, g_ctx->c_rcvtimeo, 0)
;

/* ---- thin aio wrappers --------------------------------------------------------- */
void nng_aio_set_timeout(nng_aio *aio, nni_duration when)
__CPROVER_requires(__CPROVER_is_fresh(aio, sizeof(*aio)))
__CPROVER_assigns(aio->a_timeout, aio->a_use_expire)
/* a relative timeout replaces an absolute deadline given earlier */
__CPROVER_ensures(aio->a_timeout == when && !aio->a_use_expire)
;
void nng_aio_set_expire(nng_aio *aio, nng_time when)
__CPROVER_requires(__CPROVER_is_fresh(aio, sizeof(*aio)))
__CPROVER_assigns(aio->a_expire, aio->a_use_expire)
__CPROVER_ensures(aio->a_expire == when && aio->a_use_expire)
;
/* nng_aio_abort / nng_aio_cancel (C02): the cancel slot is a single-winner token.  The provider's cancel
 * function (vp_cancel of this module: records its arguments, leaves the aio alone -- a provider that no longer
 * owns the operation) runs at most once, only if the slot was occupied, with the lock released, its own argument
 * and exactly the code the user gave (NNG_ECANCELED for nng_aio_cancel); nothing is completed by the call itself
 * and the result a finished operation reported is left alone.  With an empty slot the code is latched for the
 * next start.  A sleeping aio is completed once by the real nni_sleep_cancel iff its sleep token is still there. */
#define NGA_ABORT_CONTRACT(CODE)                                                                           \
__CPROVER_requires(AIO_PRE(aio) && VP_NO_LOCK_HELD)                                                        \
__CPROVER_assigns(AIO_FINISH_FIELDS(aio), aio->a_abort, AIO_ABORT_CODE(aio))                               \
__CPROVER_assigns(aio->a_skipped_callback != NULL: *aio->a_skipped_callback)                               \
__CPROVER_assigns(AIO_TASK_GHOSTS, AIO_CANCEL_GHOSTS, g_exp_on, VP_SYNC_GHOSTS)                            \
__CPROVER_ensures(VP_NO_LOCK_HELD && aio->a_cancel_fn == NULL && aio->a_cancel_arg == NULL && !g_exp_on)   \
__CPROVER_ensures(__CPROVER_old(aio->a_cancel_fn) == vp_cancel ==> (g_cancel_calls == __CPROVER_old(g_cancel_calls) + 1 && g_cancel_aio == aio && g_cancel_arg == __CPROVER_old(aio->a_cancel_arg) && g_cancel_rv == (int) (CODE))) \
__CPROVER_ensures(__CPROVER_old(aio->a_cancel_fn) != vp_cancel ==> g_cancel_calls == __CPROVER_old(g_cancel_calls)) \
__CPROVER_ensures((__CPROVER_old(aio->a_cancel_fn) == nni_sleep_cancel && __CPROVER_old(aio->a_sleep)) ==> (aio->a_result == (CODE) && !aio->a_sleep && AIO_ONE_ASYNC_COMPLETION(aio, __CPROVER_old(aio->a_skipped_callback), __CPROVER_old(g_dispatched), __CPROVER_old(g_exec)))) \
__CPROVER_ensures(!(__CPROVER_old(aio->a_cancel_fn) == nni_sleep_cancel && __CPROVER_old(aio->a_sleep)) ==> (AIO_NO_COMPLETION(__CPROVER_old(g_dispatched), __CPROVER_old(g_exec)) && aio->a_result == __CPROVER_old(aio->a_result) && aio->a_count == __CPROVER_old(aio->a_count))) \
__CPROVER_ensures(__CPROVER_old(aio->a_cancel_fn) == NULL ==> (aio->a_abort && AIO_ABORT_CODE(aio) == (CODE))) \
__CPROVER_ensures(__CPROVER_old(aio->a_cancel_fn) != NULL ==> aio->a_abort == __CPROVER_old(aio->a_abort)) \
__CPROVER_ensures(g_prep == __CPROVER_old(g_prep) && AIO_INV_POST(aio))

void nng_aio_abort(nng_aio *aio, nng_err err_code)
NGA_ABORT_CONTRACT(err_code);
void nng_aio_cancel(nng_aio *aio)
NGA_ABORT_CONTRACT(NNG_ECANCELED);

/* nng_aio_finish (provider API, C02): exactly one completion (skip flag set, or one dispatch) with the code given;
 * the count the provider accumulated (nng_aio_set_count... / iov progress) is preserved, the message is left alone,
 * the cancel slot is emptied and the aio leaves the expire list under the lock */
void nng_aio_finish(nng_aio *aio, nng_err rv)
__CPROVER_requires(AIO_PRE0(aio))
__CPROVER_assigns(AIO_FINISH_FIELDS(aio), AIO_TASK_GHOSTS, g_exp_on, VP_SYNC_GHOSTS)
__CPROVER_assigns(aio->a_skipped_callback != NULL: *aio->a_skipped_callback)
__CPROVER_ensures(VP_NO_LOCK_HELD && aio->a_cancel_fn == NULL && aio->a_cancel_arg == NULL && !g_exp_on && !aio->a_sleep && aio->a_skipped_callback == NULL)
__CPROVER_ensures(aio->a_result == rv && aio->a_count == __CPROVER_old(aio->a_count) && aio->a_msg == __CPROVER_old(aio->a_msg) && AIO_INV_POST(aio))
__CPROVER_ensures(__CPROVER_old(aio->a_skipped_callback) != NULL ==> (*__CPROVER_old(aio->a_skipped_callback) && AIO_NO_COMPLETION(__CPROVER_old(g_dispatched), __CPROVER_old(g_exec))))
__CPROVER_ensures(__CPROVER_old(aio->a_skipped_callback) == NULL ==> (g_dispatched == __CPROVER_old(g_dispatched) + 1 && g_exec == __CPROVER_old(g_exec)))
__CPROVER_ensures(g_prep == __CPROVER_old(g_prep))
;

/* nng_aio_stop (C02): stop latch set (every later start is refused), the provider's cancel function runs at most
 * once with NNG_ESTOPPED if the slot was occupied, the expire thread's hold is waited out, and the call waits for
 * the callback exactly once AFTER the cancel hand-off with no lock held: when it returns nothing is pending. */
void nng_aio_stop(nng_aio *aio)
__CPROVER_requires(AIO_PRE(aio) && VP_NO_LOCK_HELD)
__CPROVER_assigns(AIO_FINISH_FIELDS(aio), aio->a_abort, AIO_ABORT_CODE(aio), aio->a_stop, aio->a_expiring)
__CPROVER_assigns(aio->a_skipped_callback != NULL: *aio->a_skipped_callback)
__CPROVER_assigns(AIO_TASK_GHOSTS, AIO_CANCEL_GHOSTS, g_exp_on, g_cv_waits, g_task_wait, g_cancel_at_wait, g_pending, g_blocked_waits, VP_SYNC_GHOSTS)
__CPROVER_ensures(VP_NO_LOCK_HELD && aio->a_cancel_fn == NULL && aio->a_cancel_arg == NULL && !g_exp_on)
__CPROVER_ensures(aio->a_stop && !aio->a_expiring && !g_pending && aio->a_abort == __CPROVER_old(aio->a_abort))
__CPROVER_ensures(g_task_wait == __CPROVER_old(g_task_wait) + 1 && g_cancel_at_wait == g_cancel_calls)
__CPROVER_ensures(__CPROVER_old(aio->a_cancel_fn) == vp_cancel ==> (g_cancel_calls == __CPROVER_old(g_cancel_calls) + 1 && g_cancel_aio == aio && g_cancel_arg == __CPROVER_old(aio->a_cancel_arg) && g_cancel_rv == (int) NNG_ESTOPPED))
__CPROVER_ensures(__CPROVER_old(aio->a_cancel_fn) != vp_cancel ==> g_cancel_calls == __CPROVER_old(g_cancel_calls))
__CPROVER_ensures((__CPROVER_old(aio->a_cancel_fn) == nni_sleep_cancel && __CPROVER_old(aio->a_sleep)) ==> (aio->a_result == NNG_ESTOPPED && !aio->a_sleep && AIO_ONE_ASYNC_COMPLETION(aio, __CPROVER_old(aio->a_skipped_callback), __CPROVER_old(g_dispatched), __CPROVER_old(g_exec))))
/* a stop code is reported only if the operation had not already completed */
__CPROVER_ensures(!(__CPROVER_old(aio->a_cancel_fn) == nni_sleep_cancel && __CPROVER_old(aio->a_sleep)) ==> (AIO_NO_COMPLETION(__CPROVER_old(g_dispatched), __CPROVER_old(g_exec)) && aio->a_result == __CPROVER_old(aio->a_result) && aio->a_count == __CPROVER_old(aio->a_count)))
__CPROVER_ensures(g_prep == __CPROVER_old(g_prep) && AIO_INV_POST(aio))
;

/* nng_sleep_aio (C02, "a timeout never fires before the configured duration"): clauses of aiocore/sleep_aio */
void nng_sleep_aio(nng_duration ms, nng_aio *aio)
__CPROVER_requires(AIO_PRE(aio) && AIO_IDLE(aio))
__CPROVER_requires(aio->a_timeout >= NNG_DURATION_DEFAULT && ms >= NNG_DURATION_INFINITE && !aio->a_use_expire)
__CPROVER_assigns(aio->a_expire, aio->a_expire_ok, aio->a_skipped_callback, aio->a_stop, aio->a_sleep, aio->a_count, aio->a_result, aio->a_stopped, aio->a_abort, aio->a_cancel_fn, aio->a_cancel_arg, aio->a_expire_q->eq_next, __CPROVER_object_upto(aio->a_outputs, sizeof(aio->a_outputs)))
__CPROVER_assigns(AIO_TASK_GHOSTS, g_now, g_clock_calls, g_exp_on, g_exp_add, g_cv_wake, VP_SYNC_GHOSTS)
__CPROVER_ensures(VP_NO_LOCK_HELD && g_prep == __CPROVER_old(g_prep) + 1 && g_exec == __CPROVER_old(g_exec) && AIO_INV_POST(aio))
__CPROVER_ensures(aio->a_sleep ? (aio->a_cancel_fn == nni_sleep_cancel && g_dispatched == __CPROVER_old(g_dispatched) && aio->a_result == NNG_OK && !__CPROVER_old(aio->a_stop) && !__CPROVER_old(aio->a_expire_q->eq_stop))
                               : (aio->a_cancel_fn == NULL && g_dispatched == __CPROVER_old(g_dispatched) + 1 && !g_exp_on && aio->a_result == NNG_ESTOPPED && (__CPROVER_old(aio->a_stop) || __CPROVER_old(aio->a_expire_q->eq_stop))))
__CPROVER_ensures((aio->a_sleep && aio->a_timeout < 0) ==> (aio->a_expire_ok && aio->a_expire == (ms == NNG_DURATION_INFINITE ? NNI_TIME_NEVER : g_now + (nni_time) ms)))
__CPROVER_ensures((aio->a_sleep && aio->a_timeout >= 0 && ms != NNG_DURATION_INFINITE && ms <= aio->a_timeout) ==> (aio->a_expire_ok && aio->a_expire == g_now + (nni_time) ms))
__CPROVER_ensures((aio->a_sleep && aio->a_timeout >= 0 && (ms == NNG_DURATION_INFINITE || ms > aio->a_timeout)) ==> (!aio->a_expire_ok && aio->a_expire == g_now + (nni_time) aio->a_timeout))
__CPROVER_ensures(aio->a_sleep ==> (g_exp_on == (aio->a_expire != NNI_TIME_NEVER) && g_now >= __CPROVER_old(g_now)))
;

/* nng_aio_reset / nng_aio_busy / nng_aio_wait: pass-throughs with the aiocore clauses */
void nng_aio_reset(nng_aio *aio)
__CPROVER_requires(__CPROVER_is_fresh(aio, sizeof(*aio)))
__CPROVER_assigns(aio->a_result, aio->a_count, aio->a_abort, aio->a_expire_ok, aio->a_sleep, aio->a_skipped_callback, __CPROVER_object_upto(aio->a_outputs, sizeof(aio->a_outputs)))
__CPROVER_ensures(aio->a_result == NNG_OK && aio->a_count == 0 && !aio->a_abort && !aio->a_expire_ok && !aio->a_sleep && aio->a_skipped_callback == NULL)
__CPROVER_ensures(aio->a_outputs[0] == NULL && aio->a_outputs[1] == NULL && aio->a_outputs[2] == NULL && aio->a_outputs[3] == NULL)
;
bool nng_aio_busy(nng_aio *aio)
__CPROVER_requires(AIO_PRE0(aio))
__CPROVER_assigns()
__CPROVER_ensures(__CPROVER_return_value == (g_busy != 0))
;
void nng_aio_wait(nng_aio *aio)
__CPROVER_requires(AIO_PRE0(aio) && VP_NO_LOCK_HELD)
__CPROVER_assigns(g_task_wait, g_cancel_at_wait, g_pending, g_blocked_waits)
/* waits on the aio's own task exactly once (no lock held: asserted in the stub); nothing is pending when it returns */
__CPROVER_ensures(g_task_wait == __CPROVER_old(g_task_wait) + 1 && !g_pending)
;

/* observers (C02 "one final result"): what the user reads is what the single completion stored; reading changes nothing */
nng_err nng_aio_result(nng_aio *aio)
__CPROVER_requires(__CPROVER_is_fresh(aio, sizeof(*aio)))
__CPROVER_assigns()
__CPROVER_ensures(__CPROVER_return_value == aio->a_result)
;
size_t nng_aio_count(nng_aio *aio)
__CPROVER_requires(__CPROVER_is_fresh(aio, sizeof(*aio)))
__CPROVER_assigns()
__CPROVER_ensures(__CPROVER_return_value == aio->a_count)
;
/* message slot (C03): the pointer is stored / handed back as is -- nothing is freed, duplicated or dropped here, so
 * ownership moves with the pointer exactly as the send / receive contracts above say */
void nng_aio_set_msg(nng_aio *aio, nng_msg *msg)
__CPROVER_requires(__CPROVER_is_fresh(aio, sizeof(*aio)))
__CPROVER_assigns(aio->a_msg)
__CPROVER_ensures(aio->a_msg == msg && g_free_calls == __CPROVER_old(g_free_calls))
;
nng_msg *nng_aio_get_msg(nng_aio *aio)
__CPROVER_requires(__CPROVER_is_fresh(aio, sizeof(*aio)))
__CPROVER_assigns()
__CPROVER_ensures(__CPROVER_return_value == aio->a_msg && g_free_calls == __CPROVER_old(g_free_calls))
;

/* nng_aio_start (provider API, C02): every operation offered through the public wrapper starts CLEAN.
 * A cancel that lost the race with the completion of the PREVIOUS operation left its code latched
 * (a_abort); the wrapper discards it (nni_aio_reset) before nni_aio_start looks at the latch, so
 * "a cancel code is reported only if the operation had not already completed": the decision to accept
 * does not depend on the stale latch, and a refusal never carries the stale code.  Stop and the
 * zero / elapsed timeout still refuse, with exactly one completion dispatched. */
bool nng_aio_start(nng_aio *aio, nng_aio_cancelfn fn, void *arg)
__CPROVER_requires(AIO_PRE0(aio) && AIO_IDLE(aio))
__CPROVER_requires(aio->a_timeout >= NNG_DURATION_DEFAULT)
__CPROVER_assigns(aio->a_expire, aio->a_expire_ok, aio->a_skipped_callback, aio->a_stop, aio->a_sleep, aio->a_count, aio->a_result, aio->a_stopped, aio->a_abort, aio->a_cancel_fn, aio->a_cancel_arg, aio->a_expire_q->eq_next, __CPROVER_object_upto(aio->a_outputs, sizeof(aio->a_outputs)))
__CPROVER_assigns(AIO_TASK_GHOSTS, g_now, g_clock_calls, g_exp_on, g_exp_add, g_cv_wake, VP_SYNC_GHOSTS)
__CPROVER_ensures(VP_NO_LOCK_HELD && g_prep == __CPROVER_old(g_prep) + 1 && g_exec == __CPROVER_old(g_exec) && aio->a_skipped_callback == NULL)
/* accepted or refused WITHOUT regard to a stale abort latch or a stale sleep token */
__CPROVER_ensures(__CPROVER_return_value == !(__CPROVER_old(aio->a_stop) || __CPROVER_old(aio->a_expire_q->eq_stop) ||
        (!__CPROVER_old(aio->a_use_expire) && aio->a_timeout == NNG_DURATION_ZERO) ||
        (__CPROVER_old(aio->a_use_expire) && __CPROVER_old(aio->a_expire) <= g_now)))
__CPROVER_ensures(!aio->a_abort && !aio->a_sleep && !aio->a_expire_ok)
/* refused: exactly one completion, the provider's cancel function never installed, and the code is the stop
 * code or the timeout code -- never the stale cancel code */
__CPROVER_ensures(!__CPROVER_return_value ==> (g_dispatched == __CPROVER_old(g_dispatched) + 1 && !g_prepped && aio->a_cancel_fn == NULL && !g_exp_on && aio->a_count == 0))
__CPROVER_ensures(!__CPROVER_return_value ==> aio->a_result == ((__CPROVER_old(aio->a_stop) || __CPROVER_old(aio->a_expire_q->eq_stop)) ? NNG_ESTOPPED : NNG_ETIMEDOUT))
/* accepted: nothing dispatched, the cancel function is installed, clean result / count / outputs */
__CPROVER_ensures(__CPROVER_return_value ==> (g_dispatched == __CPROVER_old(g_dispatched) && g_prepped && aio->a_cancel_fn == fn && aio->a_cancel_arg == arg))
__CPROVER_ensures(__CPROVER_return_value ==> (aio->a_result == NNG_OK && aio->a_count == 0 && !aio->a_stop))
__CPROVER_ensures(__CPROVER_return_value ==> (aio->a_outputs[0] == NULL && aio->a_outputs[1] == NULL && aio->a_outputs[2] == NULL && aio->a_outputs[3] == NULL))
/* the deadline: never before (clock read in this call) + configured duration */
__CPROVER_ensures((__CPROVER_return_value && !__CPROVER_old(aio->a_use_expire) && aio->a_timeout > 0) ==> aio->a_expire == g_now + (nni_time) aio->a_timeout)
__CPROVER_ensures((__CPROVER_return_value && !__CPROVER_old(aio->a_use_expire) && aio->a_timeout < 0) ==> aio->a_expire == NNI_TIME_NEVER)
__CPROVER_ensures((__CPROVER_return_value && __CPROVER_old(aio->a_use_expire)) ==> aio->a_expire == __CPROVER_old(aio->a_expire))
__CPROVER_ensures(__CPROVER_return_value ==> (g_exp_on == (aio->a_expire != NNI_TIME_NEVER && fn != NULL)))
;

/* ======================================================================
 * aio.c: set-up and tear-down of the wrappers' stack aio.  Enforced here
 * against the real functions (units aio_init, aio_fini_done) so that the
 * synchronous wrappers can use them by replacement (with the real bodies
 * inline those units did not finish, see not_decided).
 * ==================================================================== */
void nni_aio_init(nni_aio *aio, nni_cb cb, void *arg)
__CPROVER_requires(__CPROVER_is_fresh(aio, sizeof(*aio)) && API_AIO_SYS_PRE)
__CPROVER_assigns(__CPROVER_object_whole(aio), g_task_init, g_busy, g_prepped, g_task_addr, g_self, g_exp_on, g_prov_on)
/* a new aio: nothing in flight, no latches, no message, no deadline, default-infinite timeout, bound to the expire queue picked by nni_random */
__CPROVER_ensures(aio->a_init && aio->a_cancel_fn == NULL && aio->a_cancel_arg == NULL && !aio->a_stop && !aio->a_abort && !aio->a_sleep && !aio->a_expiring && !aio->a_use_expire && aio->a_skipped_callback == NULL && aio->a_msg == NULL)
__CPROVER_ensures(aio->a_expire == NNI_TIME_NEVER && aio->a_timeout == NNG_DURATION_INFINITE && aio->a_result == NNG_OK && aio->a_count == 0)
__CPROVER_ensures(g_task_init == OLD(g_task_init) + 1 && g_task_addr == &aio->a_task && !g_exp_on && !g_prepped)
__CPROVER_ensures(__CPROVER_pointer_in_range_dfcc(API_EQ, aio->a_expire_q, API_EQ))
;
/* nni_aio_fini of an aio whose operation has completed (the only state the wrappers may finalise it in) */
void nni_aio_fini(nni_aio *aio)
__CPROVER_requires(__CPROVER_is_fresh(aio, sizeof(*aio)) && __CPROVER_is_fresh(aio->a_expire_q, sizeof(nni_aio_expire_q)))
__CPROVER_requires(aio->a_init && aio->a_cancel_fn == NULL && !aio->a_expiring)
/* the completion was awaited: finalising an aio whose operation is still pending is an error of the caller */
__CPROVER_requires(!g_pending && VP_NO_LOCK_HELD && (g_mtx_a == NULL || g_mtx_b == NULL || g_mtx_a == &aio->a_expire_q->eq_mtx || g_mtx_b == &aio->a_expire_q->eq_mtx))
__CPROVER_requires(g_task_addr == &aio->a_task && g_exp_node == &aio->a_expire_node && g_eq_mtx == &aio->a_expire_q->eq_mtx)
__CPROVER_assigns(aio->a_stop, aio->a_cancel_fn, aio->a_cancel_arg, g_exp_on, g_task_fini, g_cancel_at_wait, VP_SYNC_GHOSTS)
__CPROVER_ensures(VP_NO_LOCK_HELD && aio->a_stop && aio->a_cancel_fn == NULL && g_task_fini == OLD(g_task_fini) + 1 && !g_exp_on)
;
/* clang-format on */
#endif
