/* Contracts for the public send / receive entry points of src/nng.c and the
 * socket.c functions behind them.
 *
 * C15: with NNG_FLAG_NONBLOCK the aio handed to the protocol operation carries
 *      timeout NNG_DURATION_ZERO (exactly), without it the socket's / context's
 *      configured timeout (NNG_DURATION_DEFAULT substituted by socket.c, any
 *      explicit value kept); NNG_ETIMEDOUT -> NNG_EAGAIN iff NONBLOCK; a
 *      NONBLOCK call never waits for a pending operation.
 * C03: message ownership (library after a successful send, caller otherwise),
 *      temporary messages freed exactly once, the hold taken by nni_sock_find /
 *      nni_ctx_find released exactly once on every path.
 * C20: allocation failure => clean NNG_ENOMEM, hold released, nothing leaked.
 *
 * The protocol operation and the wait are the environment (modules/nngapi/env.h). */
#ifndef VP_NNGAPI_CONTRACTS_H
#define VP_NNGAPI_CONTRACTS_H
/* clang-format off */
#define RV __CPROVER_return_value
#define OLD(e) __CPROVER_old(e)

/* ======================================================================
 * the synchronous forms: the aio lives on the wrapper's stack
 * ==================================================================== */

/* common part of the four synchronous socket/context forms.
 *  FOUND  the lookup grants a hold          REF   the hold counter
 *  KIND   expected operation                DATA  expected first argument
 *  TMO    the configured timeout that applies without NONBLOCK */
#define API_SYNC_COMMON(FOUND, REF, KIND, DATA, TMO)                                                       \
/* lock discipline, heap, hold: on EVERY path the hold counter is what it was */                          \
__CPROVER_ensures(VP_NO_LOCK_HELD && !g_pending)                                                           \
/* no hold granted: the protocol is never called, no aio is set up */                                      \
__CPROVER_ensures(!(FOUND) ==> (g_op_calls == OLD(g_op_calls) && g_task_init == OLD(g_task_init) && g_fin_calls == OLD(g_fin_calls) && g_msg_taken == OLD(g_msg_taken))) \
/* hold granted: exactly one operation, the right one, on the right object, outside every lock, while the hold is in place */ \
__CPROVER_ensures((FOUND) ==> (g_op_calls == OLD(g_op_calls) + 1 && g_op_kind == (KIND) && g_op_data == (DATA) && g_op_unlocked && g_op_ref == (REF) + 1)) \
/* C15: the timeout the operation sees */                                                                  \
__CPROVER_ensures(((FOUND) && API_NB(flags)) ==> (g_op_timeout == NNG_DURATION_ZERO && !g_op_use_expire))  \
__CPROVER_ensures(((FOUND) && !API_NB(flags)) ==> (g_op_timeout == (TMO) && !g_op_use_expire))             \
/* the operation completed exactly once before the wrapper returned, and its result is what the caller gets (ETIMEDOUT -> EAGAIN iff NONBLOCK) */ \
__CPROVER_ensures((FOUND) ==> (g_fin_calls == OLD(g_fin_calls) + 1 && RV == API_MAP_RV(flags)))           \
/* C15: a NONBLOCK call never waits for a pending operation; if the protocol could not finish in the call it fails at once */ \
__CPROVER_ensures(((FOUND) && API_NB(flags)) ==> g_blocked_waits == OLD(g_blocked_waits))                  \
__CPROVER_ensures(((FOUND) && API_NB(flags) && !g_op_sync && !API_EQ->eq_stop) ==> RV == NNG_EAGAIN) \
/* the completion is awaited exactly when it was not delivered inside the call; the aio is finalised exactly once */ \
__CPROVER_ensures((FOUND) ==> (g_task_init == OLD(g_task_init) + 1 && g_task_fini == OLD(g_task_fini) + 1 && g_task_wait == OLD(g_task_wait) + (g_op_sync ? 0 : 1)))

#define API_SOCK_LOOKUP_POST(DONE)                                                                         \
/* the id is looked up once, in the socket map, under the global lock (asserted in the stub) */           \
__CPROVER_ensures((DONE) ==> (g_id_calls == OLD(g_id_calls) + 1 && g_id_key == (uint64_t) s.id && g_id_map == 1)) \
__CPROVER_ensures(((DONE) && g_sock == NULL) ==> RV == NNG_ECLOSED)                                        \
__CPROVER_ensures(((DONE) && g_sock != NULL && g_sock->s_closed) ==> RV == NNG_ECLOSED)                    \
__CPROVER_ensures(((DONE) && g_sock != NULL && !g_sock->s_closed && g_sock->s_device) ==> RV == NNG_EBUSY) \
/* hold released exactly once on every path */                                                             \
__CPROVER_ensures(g_sock != NULL ==> g_sock->s_ref == g_u32)

#define API_CTX_LOOKUP_POST(DONE)                                                                          \
__CPROVER_ensures((DONE) ==> (g_id_calls == OLD(g_id_calls) + 1 && g_id_key == (uint64_t) cid.id && g_id_map == 2)) \
__CPROVER_ensures(((DONE) && !API_CTX_FOUND) ==> RV == NNG_ECLOSED)                                        \
__CPROVER_ensures(g_ctx != NULL ==> g_ctx->c_ref == g_u32)

#define API_SYNC_ASSIGNS                                                                                   \
__CPROVER_assigns(API_GHOSTS, g_free_calls, g_alloc_ok)                                 \
__CPROVER_assigns(API_EQ->eq_next)

/* ---- nng_sendmsg ---------------------------------------------------------- */
int nng_sendmsg(nng_socket s, nng_msg *msg, int flags)
__CPROVER_requires(API_AIO_SYS_PRE && API_ENV_PRE && API_SOCK_PRE)
__CPROVER_requires(msg == NULL || API_MSG_PRE(msg))
API_SYNC_ASSIGNS
__CPROVER_assigns(g_sock != NULL: g_sock->s_ref)
/* NOTE the frame: the message object is in no assigns / frees clause -- the wrapper neither writes nor frees it on any path (C03) */
__CPROVER_ensures(msg == NULL ==> (RV == NNG_EINVAL && g_id_calls == OLD(g_id_calls)))
API_SOCK_LOOKUP_POST(msg != NULL)
API_SYNC_COMMON(msg != NULL && API_SOCK_FOUND, g_sock->s_ref, VP_OP_SOCK_SEND, g_sock->s_data, g_sock->s_sndtimeo)
/* the operation is handed the caller's message */
__CPROVER_ensures((msg != NULL && API_SOCK_FOUND) ==> g_op_msg == msg)
/* C03: rv == 0 <=> the protocol took the message (library owns it); otherwise it is still the caller's */
__CPROVER_ensures(RV == 0 ? g_msg_taken == OLD(g_msg_taken) + 1 : g_msg_taken == OLD(g_msg_taken))
__CPROVER_ensures(VP_HEAP_DELTA(0, 0))
;

/* ---- nng_recvmsg ---------------------------------------------------------- */
int nng_recvmsg(nng_socket s, nng_msg **msgp, int flags)
__CPROVER_requires(API_AIO_SYS_PRE && API_ENV_PRE && API_SOCK_PRE)
__CPROVER_requires(__CPROVER_is_fresh(msgp, sizeof(*msgp)) && API_MSG_PRE(g_rmsg))
API_SYNC_ASSIGNS
__CPROVER_assigns(g_sock != NULL: g_sock->s_ref)
__CPROVER_assigns(*msgp)
API_SOCK_LOOKUP_POST(1)
API_SYNC_COMMON(API_SOCK_FOUND, g_sock->s_ref, VP_OP_SOCK_RECV, g_sock->s_data, g_sock->s_rcvtimeo)
/* success: the caller gets the message the completion carried; failure: *msgp untouched */
__CPROVER_ensures(RV == 0 ==> (*msgp == g_rmsg && API_SOCK_FOUND && g_fin_rv == 0))
__CPROVER_ensures(RV != 0 ==> *msgp == OLD(*msgp))
__CPROVER_ensures(VP_HEAP_DELTA(0, 0) && g_msg_taken == OLD(g_msg_taken))
;
/* clang-format on */
#endif
