/* Spec macros for the public send / receive wrappers of src/nng.c and the
 * socket.c functions they rest on (C15, C03, C20).  Macros only. */
#ifndef VP_NNGAPI_SPEC_H
#define VP_NNGAPI_SPEC_H

/* ---- the aio subsystem is initialised: 1..32767 expire queues (int16_t count
 * in nni_aio_sys_init); the queue that nni_aio_init will pick (index
 * nni_random() % count, nni_random() == g_random) is a live object */
#ifndef API_EQ_MAX
#define API_EQ_MAX 32767
#endif
#define API_EQ_IDX ((uint32_t) g_random % (uint32_t) nni_aio_expire_q_cnt)
#define API_EQ (nni_aio_expire_q_list[API_EQ_IDX])
#define API_AIO_SYS_PRE                                                     \
	(nni_aio_expire_q_cnt >= 1 && nni_aio_expire_q_cnt <= API_EQ_MAX &&         \
	    __CPROVER_is_fresh(nni_aio_expire_q_list,                          \
	        (size_t) nni_aio_expire_q_cnt * sizeof(nni_aio_expire_q *)) && \
	    __CPROVER_is_fresh(API_EQ, sizeof(nni_aio_expire_q)))

/* ---- quiescent environment at entry: no lock held, no operation pending */
#define API_ENV_PRE (VP_NO_LOCK_HELD && !g_pending && g_now < AIO_CLOCK_MAX)

/* ---- what nni_id_get(&sock_ids, id) answers: nothing, or a socket whose
 * protocol operations are the model operations and whose configured
 * timeouts are values nni_copyin_ms accepts (>= -1) */
#define API_SOCK_OK(s)                                                      \
	(__CPROVER_is_fresh((s), sizeof(struct nni_socket)) &&                  \
	    (s)->s_sock_ops.sock_send == vp_sock_send &&                        \
	    (s)->s_sock_ops.sock_recv == vp_sock_recv &&                        \
	    (s)->s_sndtimeo >= NNG_DURATION_INFINITE &&                         \
	    (s)->s_rcvtimeo >= NNG_DURATION_INFINITE)
/* g_u32 is tied to the hold counter of the pre-state (ghost equation) */
#define API_SOCK_PRE (g_sock == NULL || (API_SOCK_OK(g_sock) && g_u32 == g_sock->s_ref))
/* nni_sock_find grants a hold */
#define API_SOCK_FOUND (g_sock != NULL && !g_sock->s_closed && !g_sock->s_device)

/* ---- what nni_id_get(&ctx_ids, id) answers */
#define API_CTX_OK(c)                                                       \
	(__CPROVER_is_fresh((c), sizeof(struct nni_ctx)) &&                     \
	    __CPROVER_is_fresh((c)->c_sock, sizeof(struct nni_socket)) &&       \
	    (c)->c_ops.ctx_send == vp_ctx_send &&                               \
	    (c)->c_ops.ctx_recv == vp_ctx_recv &&                               \
	    (c)->c_sndtimeo >= NNG_DURATION_INFINITE &&                         \
	    (c)->c_rcvtimeo >= NNG_DURATION_INFINITE)
#define API_CTX_PRE (g_ctx == NULL || (API_CTX_OK(g_ctx) && g_u32 == g_ctx->c_ref))
#define API_CTX_FOUND (g_ctx != NULL && !g_ctx->c_closed && !g_ctx->c_sock->s_closed)

/* ---- a message (struct + body buffer), as in modules/nngmsg */
#define API_MSG_PRE(m)                                                      \
	(__CPROVER_is_fresh((m), sizeof(struct nng_msg)) &&                     \
	    (m)->m_header_len <= MSG_HDRCAP && (m)->m_refcnt.v >= 1 &&          \
	    CH_FULL_PRE(&(m)->m_body))
#define API_MLEN(m) ((m)->m_body.ch_len)
#define API_MBODY(m) ((m)->m_body.ch_ptr)

/* ---- result mapping of the synchronous forms: NNG_ETIMEDOUT becomes
 * NNG_EAGAIN iff NNG_FLAG_NONBLOCK was given; everything else unchanged */
#define API_NB(flags) (((flags) & NNG_FLAG_NONBLOCK) != 0)
#define API_MAP_RV(flags)                                                   \
	((g_fin_rv == (int) NNG_ETIMEDOUT && API_NB(flags)) ? (int) NNG_EAGAIN : g_fin_rv)

/* ---- assigns-clause fragments */
#define API_GHOSTS g_api, VP_SYNC_GHOSTS
#endif
