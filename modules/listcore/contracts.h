/* Contracts for src/core/list.c.
 *
 * Every function has
 *   (1) a LOCAL contract attached to the function itself (grade P, loop-free code,
 *       arbitrary item size and member offset, only the neighbourhood of the
 *       operated node is constrained) with an exact frame: the assigns clause
 *       names precisely the pointer fields that may change;
 *   (2) a BOUNDED contract lb_<fn> (contract-only symbol, the real function is
 *       checked against it with --enforce-contract nni_list_<fn>/lb_<fn>) over the
 *       ring of g_n <= 3 members built by the harness, stating the effect on the
 *       SEQUENCE of members.
 *
 * Property clauses encoded:
 *  C18 / C01 "never reorder": append puts the item at the END, prepend at the
 *      FRONT, insert_before/after exactly next to the reference member; every
 *      other member keeps its relative position; first/next (last/prev)
 *      enumerate in (reverse) insertion order; remove keeps the order of the rest.
 *  C02 "a cancel ... code is reported only if the operation had not already
 *      completed": completion takes the aio off its wait list with
 *      nni_list_remove / nni_list_node_remove; afterwards the node is inactive
 *      (both links NULL), so nni_list_active / nni_list_node_active answer 0 and
 *      the cancel function's "still on my list?" test fails.  A member answers 1.
 *  C03 memory safety: every access stays inside the node / sentinel objects,
 *      nothing but the named link fields is written.
 */
#ifndef VP_LISTCORE_CONTRACTS_H
#define VP_LISTCORE_CONTRACTS_H
/* clang-format off */

#define LC_LIST_PRE(l) (__CPROVER_is_fresh((l), sizeof(nni_list)) && (l)->ll_offset <= LC_OFFMAX)
#define LC_LOCAL_SZ(l) LC_LOCAL_ITEMSZ
#define LC_ITEM_PRE(l, it) __CPROVER_is_fresh((it), LC_LOCAL_SZ(l))
/* pointer field p designates the sentinel of l, or some other node (own object) */
#define LC_NB_PRE(l, p) (LC_IS((p), LC_HEAD(l)) || __CPROVER_is_fresh((p), LC_NODESZ))
/* pointer field p designates the sentinel of l, or a node embedded in an item (ghost g) at the list's offset */
#define LC_NB_ITEM_PRE(l, p, g) (LC_IS((p), LC_HEAD(l)) || (__CPROVER_is_fresh((g), LC_LOCAL_SZ(l)) && LC_IS((p), LC_NODE(l, g))))

/* first / last never dereference the neighbour's item: arbitrary offset (<= 2^40) and item size */
#define LC_OFFMAX_SYM ((size_t) 1 << 40)
#define LC_LIST_PRE_SYM(l) (__CPROVER_is_fresh((l), sizeof(nni_list)) && (l)->ll_offset <= LC_OFFMAX_SYM)
#define LC_NB_ITEM_PRE_SYM(l, p, g) (LC_IS((p), LC_HEAD(l)) || (__CPROVER_is_fresh((g), (l)->ll_offset + LC_NODESZ) && LC_IS((p), LC_NODE(l, g))))

/* ===================== init ===================== */
void nni_list_init_offset(nni_list *list, size_t offset)
__CPROVER_requires(__CPROVER_is_fresh(list, sizeof(nni_list)))
__CPROVER_assigns(*list)
/* empty ring: the sentinel is its own neighbour */
__CPROVER_ensures(list->ll_offset == offset && list->ll_head.ln_next == LC_HEAD(list) && list->ll_head.ln_prev == LC_HEAD(list))
;

/* ===================== observers (LOCAL) ===================== */
void *nni_list_first(const nni_list *list)
__CPROVER_requires(LC_LIST_PRE_SYM(list))
__CPROVER_requires(LC_NB_ITEM_PRE_SYM(list, list->ll_head.ln_next, g_ia))
__CPROVER_assigns()
__CPROVER_ensures(RV == (list->ll_head.ln_next == LC_HEAD(list) ? NULL : g_ia))
;

void *nni_list_last(const nni_list *list)
__CPROVER_requires(LC_LIST_PRE_SYM(list))
__CPROVER_requires(LC_NB_ITEM_PRE_SYM(list, list->ll_head.ln_prev, g_ia))
__CPROVER_assigns()
__CPROVER_ensures(RV == (list->ll_head.ln_prev == LC_HEAD(list) ? NULL : g_ia))
;

/* next: NULL at the end of the list AND for an item that is on no list */
void *nni_list_next(const nni_list *list, void *item)
__CPROVER_requires(LC_LIST_PRE(list) && LC_ITEM_PRE(list, item))
__CPROVER_requires(LC_NODE(list, item)->ln_next == NULL || LC_NB_ITEM_PRE(list, LC_NODE(list, item)->ln_next, g_ia))
__CPROVER_assigns()
__CPROVER_ensures(RV == ((LC_NODE(list, item)->ln_next == LC_HEAD(list) || LC_NODE(list, item)->ln_next == NULL) ? NULL : g_ia))
;

void *nni_list_prev(const nni_list *list, void *item)
__CPROVER_requires(LC_LIST_PRE(list) && LC_ITEM_PRE(list, item))
__CPROVER_requires(LC_NODE(list, item)->ln_prev == NULL || LC_NB_ITEM_PRE(list, LC_NODE(list, item)->ln_prev, g_ia))
__CPROVER_assigns()
__CPROVER_ensures(RV == ((LC_NODE(list, item)->ln_prev == LC_HEAD(list) || LC_NODE(list, item)->ln_prev == NULL) ? NULL : g_ia))
;

/* active == "ln_next is set"; with the representation invariant (both links NULL
 * or both set) this is "the node is on a list" */
int nni_list_active(nni_list *list, void *item)
__CPROVER_requires(LC_LIST_PRE(list) && LC_ITEM_PRE(list, item))
__CPROVER_assigns()
__CPROVER_ensures(RV == (LC_NODE(list, item)->ln_next != NULL ? 1 : 0))
__CPROVER_ensures(LC_INACTIVE(list, item) ==> RV == 0)
;

int nni_list_node_active(nni_list_node *node)
__CPROVER_requires(__CPROVER_is_fresh(node, LC_NODESZ))
__CPROVER_assigns()
__CPROVER_ensures(RV == (node->ln_next != NULL ? 1 : 0))
__CPROVER_ensures((node->ln_next == NULL && node->ln_prev == NULL) ==> RV == 0)
;

/* empty: an initialised empty ring, and also a zeroed (never initialised) list */
int nni_list_empty(nni_list *list)
__CPROVER_requires(__CPROVER_is_fresh(list, sizeof(nni_list)))
__CPROVER_assigns()
__CPROVER_ensures((RV != 0) == (list->ll_head.ln_next == NULL || list->ll_head.ln_next == LC_HEAD(list)))
__CPROVER_ensures(RV == 0 || RV == 1)
;

/* ===================== insertion (LOCAL) ===================== */
#define LC_N_ LC_NODE(list, item)
/* append: between the old last node L (= sentinel when empty) and the sentinel */
void nni_list_append(nni_list *list, void *item)
__CPROVER_requires(LC_LIST_PRE(list) && LC_ITEM_PRE(list, item))
__CPROVER_requires(LC_INACTIVE(list, item))
__CPROVER_requires(LC_NB_PRE(list, list->ll_head.ln_prev))
__CPROVER_requires(LC_IS(list->ll_head.ln_prev->ln_next, LC_HEAD(list)))
__CPROVER_assigns(LC_N_->ln_next, LC_N_->ln_prev, list->ll_head.ln_prev, list->ll_head.ln_prev->ln_next)
__CPROVER_ensures(list->ll_head.ln_prev == LC_N_)                    /* item is the last one      */
__CPROVER_ensures(OLD(list->ll_head.ln_prev)->ln_next == LC_N_)      /* after the old last        */
__CPROVER_ensures(LC_N_->ln_prev == OLD(list->ll_head.ln_prev))
__CPROVER_ensures(LC_N_->ln_next == LC_HEAD(list))
/* the front is untouched unless the list was empty */
__CPROVER_ensures(OLD(list->ll_head.ln_prev) != LC_HEAD(list) ==> list->ll_head.ln_next == OLD(list->ll_head.ln_next))
;

/* prepend: between the sentinel and the old first node */
void nni_list_prepend(nni_list *list, void *item)
__CPROVER_requires(LC_LIST_PRE(list) && LC_ITEM_PRE(list, item))
__CPROVER_requires(LC_INACTIVE(list, item))
__CPROVER_requires(LC_NB_PRE(list, list->ll_head.ln_next))
__CPROVER_requires(LC_IS(list->ll_head.ln_next->ln_prev, LC_HEAD(list)))
__CPROVER_assigns(LC_N_->ln_next, LC_N_->ln_prev, list->ll_head.ln_next, list->ll_head.ln_next->ln_prev)
__CPROVER_ensures(list->ll_head.ln_next == LC_N_)                    /* item is the first one     */
__CPROVER_ensures(OLD(list->ll_head.ln_next)->ln_prev == LC_N_)
__CPROVER_ensures(LC_N_->ln_next == OLD(list->ll_head.ln_next))
__CPROVER_ensures(LC_N_->ln_prev == LC_HEAD(list))
__CPROVER_ensures(OLD(list->ll_head.ln_next) != LC_HEAD(list) ==> list->ll_head.ln_prev == OLD(list->ll_head.ln_prev))
;

/* insert_before: between W's predecessor P (sentinel or node) and W */
#define LC_W_(x) LC_NODE(list, x)
void nni_list_insert_before(nni_list *list, void *item, void *before)
__CPROVER_requires(LC_LIST_PRE(list) && LC_ITEM_PRE(list, item) && LC_ITEM_PRE(list, before))
__CPROVER_requires(LC_INACTIVE(list, item))
__CPROVER_requires(LC_NB_PRE(list, LC_W_(before)->ln_prev))
__CPROVER_requires(LC_IS(LC_W_(before)->ln_prev->ln_next, LC_W_(before)))
__CPROVER_assigns(LC_N_->ln_next, LC_N_->ln_prev, LC_W_(before)->ln_prev, LC_W_(before)->ln_prev->ln_next)
__CPROVER_ensures(LC_N_->ln_next == LC_W_(before) && LC_W_(before)->ln_prev == LC_N_)
__CPROVER_ensures(LC_N_->ln_prev == OLD(LC_W_(before)->ln_prev) && OLD(LC_W_(before)->ln_prev)->ln_next == LC_N_)
;

void nni_list_insert_after(nni_list *list, void *item, void *after)
__CPROVER_requires(LC_LIST_PRE(list) && LC_ITEM_PRE(list, item) && LC_ITEM_PRE(list, after))
__CPROVER_requires(LC_INACTIVE(list, item))
__CPROVER_requires(LC_NB_PRE(list, LC_W_(after)->ln_next))
__CPROVER_requires(LC_IS(LC_W_(after)->ln_next->ln_prev, LC_W_(after)))
__CPROVER_assigns(LC_N_->ln_next, LC_N_->ln_prev, LC_W_(after)->ln_next, LC_W_(after)->ln_next->ln_prev)
__CPROVER_ensures(LC_N_->ln_prev == LC_W_(after) && LC_W_(after)->ln_next == LC_N_)
__CPROVER_ensures(LC_N_->ln_next == OLD(LC_W_(after)->ln_next) && OLD(LC_W_(after)->ln_next)->ln_prev == LC_N_)
;

/* ===================== removal (LOCAL) =====================
 * P = predecessor, S = successor of the node: each the sentinel or another node;
 * P and S are the same object exactly when the node is the only member (then both
 * are the sentinel) -- or, for the sake of generality, any one node. */
#define LC_RM_NB_PRE(l, nd)                                                                     \
	((LC_IS((nd)->ln_prev, LC_HEAD(l)) || __CPROVER_is_fresh((nd)->ln_prev, LC_NODESZ)) &&     \
	    (LC_IS((nd)->ln_next, (nd)->ln_prev) || LC_IS((nd)->ln_next, LC_HEAD(l)) ||            \
	        __CPROVER_is_fresh((nd)->ln_next, LC_NODESZ)) &&                                   \
	    LC_IS((nd)->ln_prev->ln_next, (nd)) && LC_IS((nd)->ln_next->ln_prev, (nd)))
void nni_list_remove(nni_list *list, void *item)
__CPROVER_requires(LC_LIST_PRE(list) && LC_ITEM_PRE(list, item))
__CPROVER_requires(LC_RM_NB_PRE(list, LC_N_))
__CPROVER_assigns(LC_N_->ln_next, LC_N_->ln_prev, LC_N_->ln_prev->ln_next, LC_N_->ln_next->ln_prev)
/* the two neighbours are linked to each other ... */
__CPROVER_ensures(OLD(LC_N_->ln_prev)->ln_next == OLD(LC_N_->ln_next))
__CPROVER_ensures(OLD(LC_N_->ln_next)->ln_prev == OLD(LC_N_->ln_prev))
/* ... and the node is inactive again */
__CPROVER_ensures(LC_N_->ln_next == NULL && LC_N_->ln_prev == NULL)
;

/* node_remove: the same on a member; NOTHING on an inactive node (idempotent: a
 * completion racing with a cancel may call it a second time) */
void nni_list_node_remove(nni_list_node *node)
__CPROVER_requires(__CPROVER_is_fresh(node, LC_NODESZ))
__CPROVER_requires((node->ln_next == NULL && node->ln_prev == NULL) ||
    ((__CPROVER_is_fresh(node->ln_prev, LC_NODESZ)) &&
     (LC_IS(node->ln_next, node->ln_prev) || __CPROVER_is_fresh(node->ln_next, LC_NODESZ)) &&
     LC_IS(node->ln_prev->ln_next, node) && LC_IS(node->ln_next->ln_prev, node)))
__CPROVER_assigns(node->ln_next != NULL: node->ln_next, node->ln_prev, node->ln_prev->ln_next, node->ln_next->ln_prev)
__CPROVER_ensures(OLD(node->ln_next) != NULL ==> (OLD(node->ln_prev)->ln_next == OLD(node->ln_next) && OLD(node->ln_next)->ln_prev == OLD(node->ln_prev)))
__CPROVER_ensures(node->ln_next == NULL && node->ln_prev == NULL)
;

/* ================================================================
 * BOUNDED contracts (sequence view on the harness-built ring)
 * ================================================================ */
#define LB_PRE LC_B_PRE(list)
#define LB_MEMBER(it) (g_pos < g_n && (it) == g_it[g_pos])
#define LB_OUTSIDER(it) ((it) == g_x && LC_INACTIVE(list, g_x))

void lb_init(nni_list *list, size_t offset)
__CPROVER_requires(list == g_l && offset <= LC_MAXOFF)
__CPROVER_assigns(*list)
__CPROVER_ensures(list->ll_offset == offset && LC_SEQ_SAME(list, 0))
;
void *lb_first(const nni_list *list)
__CPROVER_requires(LB_PRE)
__CPROVER_assigns()
__CPROVER_ensures(RV == (g_n > 0 ? g_it[0] : NULL))
;
void *lb_last(const nni_list *list)
__CPROVER_requires(LB_PRE)
__CPROVER_assigns()
__CPROVER_ensures(RV == (g_n > 0 ? g_it[g_n - 1] : NULL))
;
/* enumeration order = sequence order; an item that is on no list has no successor */
void *lb_next(const nni_list *list, void *item)
__CPROVER_requires(LB_PRE && (LB_MEMBER(item) || LB_OUTSIDER(item)))
__CPROVER_assigns()
__CPROVER_ensures(RV == ((item != g_x && g_pos + 1 < g_n) ? g_it[g_pos + 1] : NULL))
;
void *lb_prev(const nni_list *list, void *item)
__CPROVER_requires(LB_PRE && (LB_MEMBER(item) || LB_OUTSIDER(item)))
__CPROVER_assigns()
__CPROVER_ensures(RV == ((item != g_x && g_pos > 0) ? g_it[g_pos - 1] : NULL))
;
int lb_active(nni_list *list, void *item)
__CPROVER_requires(LB_PRE && (LB_MEMBER(item) || LB_OUTSIDER(item)))
__CPROVER_assigns()
__CPROVER_ensures(RV == (item != g_x ? 1 : 0))
;
int lb_node_active(nni_list_node *node)
__CPROVER_requires(LC_B_PRE(g_l) && ((g_pos < g_n && node == LC_NODE(g_l, g_it[g_pos])) || (node == LC_NODE(g_l, g_x) && LC_INACTIVE(g_l, g_x))))
__CPROVER_assigns()
__CPROVER_ensures(RV == (node != LC_NODE(g_l, g_x) ? 1 : 0))
;
int lb_empty(nni_list *list)
__CPROVER_requires(LB_PRE)
__CPROVER_assigns()
__CPROVER_ensures(RV == (g_n == 0 ? 1 : 0))
;
/* FIFO: the new item is the LAST one, everybody else keeps position */
void lb_append(nni_list *list, void *item)
__CPROVER_requires(LB_PRE && LB_OUTSIDER(item))
__CPROVER_assigns(LC_N_->ln_next, LC_N_->ln_prev, list->ll_head.ln_prev, list->ll_head.ln_prev->ln_next)
__CPROVER_ensures(LC_SEQ_INS(list, g_n, g_n, item) && LC_REST_INACTIVE(list, g_n))
;
void lb_prepend(nni_list *list, void *item)
__CPROVER_requires(LB_PRE && LB_OUTSIDER(item))
__CPROVER_assigns(LC_N_->ln_next, LC_N_->ln_prev, list->ll_head.ln_next, list->ll_head.ln_next->ln_prev)
__CPROVER_ensures(LC_SEQ_INS(list, g_n, 0, item) && LC_REST_INACTIVE(list, g_n))
;
void lb_insert_before(nni_list *list, void *item, void *before)
__CPROVER_requires(LB_PRE && LB_OUTSIDER(item) && LB_MEMBER(before))
__CPROVER_assigns(LC_N_->ln_next, LC_N_->ln_prev, LC_W_(before)->ln_prev, LC_W_(before)->ln_prev->ln_next)
__CPROVER_ensures(LC_SEQ_INS(list, g_n, g_pos, item) && LC_REST_INACTIVE(list, g_n))
;
void lb_insert_after(nni_list *list, void *item, void *after)
__CPROVER_requires(LB_PRE && LB_OUTSIDER(item) && LB_MEMBER(after))
__CPROVER_assigns(LC_N_->ln_next, LC_N_->ln_prev, LC_W_(after)->ln_next, LC_W_(after)->ln_next->ln_prev)
__CPROVER_ensures(LC_SEQ_INS(list, g_n, g_pos + 1, item) && LC_REST_INACTIVE(list, g_n))
;
/* remove: the others keep their relative order; the removed item is inactive, so
 * that nni_list_active says 0 for it from now on (C02) */
void lb_remove(nni_list *list, void *item)
__CPROVER_requires(LB_PRE && LB_MEMBER(item) && LC_INACTIVE(list, g_x))
__CPROVER_assigns(LC_N_->ln_next, LC_N_->ln_prev, LC_N_->ln_prev->ln_next, LC_N_->ln_next->ln_prev)
__CPROVER_ensures(LC_SEQ_DEL(list, g_n, g_pos))
__CPROVER_ensures(LC_INACTIVE(list, item) && LC_INACTIVE(list, g_x))
;
void lb_node_remove(nni_list_node *node)
__CPROVER_requires(LC_B_PRE(g_l) && ((g_pos < g_n && node == LC_NODE(g_l, g_it[g_pos])) || (node == LC_NODE(g_l, g_x) && LC_INACTIVE(g_l, g_x))))
__CPROVER_assigns(node->ln_next != NULL: node->ln_next, node->ln_prev, node->ln_prev->ln_next, node->ln_next->ln_prev)
__CPROVER_ensures(node != LC_NODE(g_l, g_x) ==> LC_SEQ_DEL(g_l, g_n, g_pos))
__CPROVER_ensures(node == LC_NODE(g_l, g_x) ==> LC_SEQ_SAME(g_l, g_n))
__CPROVER_ensures(node->ln_next == NULL && node->ln_prev == NULL)
;
/* clang-format on */
#endif
