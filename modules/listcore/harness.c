/* Harnesses for list.c.
 *
 * LOCAL units (h_lc_*): arguments unconstrained, the contract's precondition is
 * the only restriction.
 *
 * BOUNDED units (h_lb_*): lc_build() makes REAL objects -- one nni_list, four
 * items g_it[0..3] and one outsider g_x, each LC_ITEMSZ bytes with arbitrary
 * content -- picks a symbolic member offset 0..LC_MAXOFF and a symbolic number
 * of members n <= 3 (or the constant LC_N when the unit defines it) and links
 * g_it[0..n) into the ring by plain pointer stores (NOT by the functions under
 * contract: the shape must not depend on what is being checked).  The harness then
 * ASSERTS the bounded precondition (so it is checked, not merely assumed) and
 * calls the function.  Unit listcore_build_by_api shows that the real
 * init_offset + append produce exactly this shape.
 */
#define VP_NEWBYTES(n) (__CPROVER_allocate((n), 0))
static void
lc_build(void)
{
	size_t off = nondet_size_t();
	size_t n   = nondet_size_t();
	if (off > LC_MAXOFF) {
		off = LC_MAXOFF; /* every offset 0..LC_MAXOFF stays possible */
	}
#ifdef LC_N
	n = LC_N;
#else
	if (n > LC_MAXN) {
		n = LC_MAXN;
	}
#endif
	g_l            = (nni_list *) VP_NEWBYTES(sizeof(nni_list));
	g_l->ll_offset = off;
	g_it[0]        = VP_NEWBYTES(LC_ITEMSZ);
	g_it[1]        = VP_NEWBYTES(LC_ITEMSZ);
	g_it[2]        = VP_NEWBYTES(LC_ITEMSZ);
	g_it[3]        = VP_NEWBYTES(LC_ITEMSZ);
	g_x            = VP_NEWBYTES(LC_ITEMSZ);
	nni_list_node *prev = &g_l->ll_head;
	for (size_t i = 0; i < 4; i++) {
		nni_list_node *nd = LC_NODE(g_l, g_it[i]);
		if (i < n) {
			prev->ln_next = nd;
			nd->ln_prev   = prev;
			prev          = nd;
		} else {
			nd->ln_next = NULL;
			nd->ln_prev = NULL;
		}
	}
	prev->ln_next         = &g_l->ll_head;
	g_l->ll_head.ln_prev  = prev;
	LC_NODE(g_l, g_x)->ln_next = NULL;
	LC_NODE(g_l, g_x)->ln_prev = NULL;
	g_n   = n;
	g_pos = nondet_size_t();
	g_ia  = NULL;
	g_ib  = NULL;
	__CPROVER_assert(LC_B_PRE(g_l), "harness-built ring satisfies the bounded precondition");
}
/* symbolic choice: the member at g_pos, or the outsider */
static void *
lc_pick(void)
{
	return ((nondet_bool() && g_pos < g_n) ? g_it[g_pos] : g_x);
}

/* ---- LOCAL ---- */
void h_lc_init(void)   { nni_list *l; size_t off; nni_list_init_offset(l, off); VP_CANARY(); }
void h_lc_first(void)  { nni_list *l; g_ia = nondet_ptr(); nni_list_first(l); VP_CANARY(); }
void h_lc_last(void)   { nni_list *l; g_ia = nondet_ptr(); nni_list_last(l); VP_CANARY(); }
void h_lc_next(void)   { nni_list *l; void *it; g_ia = nondet_ptr(); nni_list_next(l, it); VP_CANARY(); }
void h_lc_prev(void)   { nni_list *l; void *it; g_ia = nondet_ptr(); nni_list_prev(l, it); VP_CANARY(); }
void h_lc_active(void) { nni_list *l; void *it; nni_list_active(l, it); VP_CANARY(); }
void h_lc_node_active(void) { nni_list_node *nd; nni_list_node_active(nd); VP_CANARY(); }
void h_lc_empty(void)  { nni_list *l; nni_list_empty(l); VP_CANARY(); }
void h_lc_append(void) { nni_list *l; void *it; nni_list_append(l, it); VP_CANARY(); }
void h_lc_prepend(void) { nni_list *l; void *it; nni_list_prepend(l, it); VP_CANARY(); }
void h_lc_insert_before(void) { nni_list *l; void *it, *w; nni_list_insert_before(l, it, w); VP_CANARY(); }
void h_lc_insert_after(void)  { nni_list *l; void *it, *w; nni_list_insert_after(l, it, w); VP_CANARY(); }
void h_lc_remove(void) { nni_list *l; void *it; nni_list_remove(l, it); VP_CANARY(); }
void h_lc_node_remove(void) { nni_list_node *nd; nni_list_node_remove(nd); VP_CANARY(); }

/* ---- BOUNDED ---- */
void h_lb_init(void)   { size_t off; lc_build(); nni_list_init_offset(g_l, off); VP_CANARY(); }
void h_lb_first(void)  { lc_build(); nni_list_first(g_l); VP_CANARY(); }
void h_lb_last(void)   { lc_build(); nni_list_last(g_l); VP_CANARY(); }
void h_lb_next(void)   { lc_build(); nni_list_next(g_l, lc_pick()); VP_CANARY(); }
void h_lb_prev(void)   { lc_build(); nni_list_prev(g_l, lc_pick()); VP_CANARY(); }
void h_lb_active(void) { lc_build(); nni_list_active(g_l, lc_pick()); VP_CANARY(); }
void h_lb_node_active(void) { lc_build(); nni_list_node_active(LC_NODE(g_l, lc_pick())); VP_CANARY(); }
void h_lb_empty(void)  { lc_build(); nni_list_empty(g_l); VP_CANARY(); }
void h_lb_append(void) { lc_build(); nni_list_append(g_l, g_x); VP_CANARY(); }
void h_lb_prepend(void) { lc_build(); nni_list_prepend(g_l, g_x); VP_CANARY(); }
void h_lb_insert_before(void) { lc_build(); nni_list_insert_before(g_l, g_x, g_it[g_pos < g_n ? g_pos : 0]); VP_CANARY(); }
void h_lb_insert_after(void)  { lc_build(); nni_list_insert_after(g_l, g_x, g_it[g_pos < g_n ? g_pos : 0]); VP_CANARY(); }
void h_lb_remove(void) { lc_build(); nni_list_remove(g_l, g_it[g_pos < g_n ? g_pos : 0]); VP_CANARY(); }
void h_lb_node_remove(void) { lc_build(); nni_list_node_remove(LC_NODE(g_l, lc_pick())); VP_CANARY(); }

/* keeps the contract-only symbols in the symbol table (never called) */
void
vp_lb_refs(void)
{
	lb_init(NULL, 0); lb_first(NULL); lb_last(NULL); lb_next(NULL, NULL); lb_prev(NULL, NULL);
	lb_active(NULL, NULL); lb_node_active(NULL); lb_empty(NULL); lb_append(NULL, NULL);
	lb_prepend(NULL, NULL); lb_insert_before(NULL, NULL, NULL); lb_insert_after(NULL, NULL, NULL);
	lb_remove(NULL, NULL); lb_node_remove(NULL);
}

/* ---- whole-API scenarios on the REAL functions (no contract enforced) ------------
 * lc_objs(): the objects only (list + 4 items + outsider, nodes inactive as after
 * NNI_LIST_NODE_INIT); everything else is done by the real code. */
struct lc_item {
	uint64_t      w0, w1;
	nni_list_node node;
	uint64_t      w2, w3;
};
static size_t
lc_objs(void)
{
	size_t off = nondet_size_t();
	if (off > LC_MAXOFF) {
		off = LC_MAXOFF;
	}
#ifdef LC_FIXOFF
	off = offsetof(struct lc_item, node); /* == LC_FIXOFF; scenario with a constant member offset (the symbolic offset is the subject of the b_* units) */
#endif
	g_l     = (nni_list *) VP_NEWBYTES(sizeof(nni_list));
#ifdef LC_FIXOFF
	/* typed items (payload words around the node) so that link loads are field reads */
	g_it[0] = VP_NEWBYTES(sizeof(struct lc_item));
	g_it[1] = VP_NEWBYTES(sizeof(struct lc_item));
	g_it[2] = VP_NEWBYTES(sizeof(struct lc_item));
	g_it[3] = VP_NEWBYTES(sizeof(struct lc_item));
	g_x     = VP_NEWBYTES(sizeof(struct lc_item));
#else
	g_it[0] = VP_NEWBYTES(LC_ITEMSZ);
	g_it[1] = VP_NEWBYTES(LC_ITEMSZ);
	g_it[2] = VP_NEWBYTES(LC_ITEMSZ);
	g_it[3] = VP_NEWBYTES(LC_ITEMSZ);
	g_x     = VP_NEWBYTES(LC_ITEMSZ);
#endif
	g_l->ll_offset = off; /* only so that LC_NODE below is defined; init_offset sets it again */
	for (size_t i = 0; i < 4; i++) {
		NNI_LIST_NODE_INIT(LC_NODE(g_l, g_it[i]));
	}
	NNI_LIST_NODE_INIT(LC_NODE(g_l, g_x));
	return (off);
}
/* the list enumerates exactly ref[0..len): forwards with first/next, backwards
 * with last/prev, and empty/active agree */
static void
lc_check_enum(void *const *ref, size_t len)
{
	void *f = nni_list_first(g_l);
	void *b = nni_list_last(g_l);
	for (size_t k = 0; k < 4; k++) {
		if (k < len) {
			__CPROVER_assert(f == ref[k], "first/next enumerate the members in sequence order");
			__CPROVER_assert(b == ref[len - 1 - k], "last/prev enumerate the members in reverse order");
			f = nni_list_next(g_l, f);
			b = nni_list_prev(g_l, b);
		}
	}
	__CPROVER_assert(f == NULL && b == NULL, "enumeration ends after exactly len members");
	__CPROVER_assert((nni_list_empty(g_l) != 0) == (len == 0), "empty iff no members");
}
/* (1) the real init_offset + append build exactly the ring the bounded harnesses
 * use (so those shapes are reachable by the API), FIFO: first() is the oldest */
void
h_build_by_api(void)
{
	size_t off = lc_objs();
	size_t n   = nondet_size_t();
	if (n > LC_MAXN) {
		n = LC_MAXN;
	}
	nni_list_init_offset(g_l, off);
	for (size_t i = 0; i < LC_MAXN; i++) {
		if (i < n) {
			nni_list_append(g_l, g_it[i]);
		}
	}
	g_n = n;
	__CPROVER_assert(LC_B_PRE(g_l), "init_offset + n appends give the ring g_it[0..n) in insertion order");
	lc_check_enum(g_it, n);
	if (n > 0) {
		/* FIFO service: take the oldest, the next oldest becomes first; the taken one is inactive */
		void *old = nni_list_first(g_l);
		nni_list_remove(g_l, old);
		__CPROVER_assert(old == g_it[0], "first() is the oldest member");
		__CPROVER_assert(nni_list_active(g_l, old) == 0 && nni_list_node_active(LC_NODE(g_l, old)) == 0, "a removed member is inactive");
		__CPROVER_assert(nni_list_first(g_l) == (n > 1 ? g_it[1] : NULL), "then the second oldest is first");
		/* a cancel that comes after completion: node_remove on the inactive node changes nothing */
		nni_list_node_remove(LC_NODE(g_l, old));
		lc_check_enum(&g_it[1], n - 1);
	}
	VP_CANARY();
}
/* (2) LC_STEPS symbolic operations from the empty list, checked after every step
 * against a reference array */
#ifndef LC_STEPS
#define LC_STEPS 4
#endif
void
h_model_seq(void)
{
	size_t off = lc_objs();
	void  *ref[4] = { NULL, NULL, NULL, NULL };
	size_t len    = 0;
	nni_list_init_offset(g_l, off);
	for (unsigned step = 0; step < LC_STEPS; step++) {
		unsigned op = nondet_unsigned();
		size_t   i  = nondet_size_t();
		size_t   w  = nondet_size_t();
		if (i > 3) {
			i = 3;
		}
		void  *it  = g_it[i];
		size_t at  = LC_NONE; /* position of it in ref, LC_NONE when not a member */
		for (size_t k = 0; k < 4; k++) {
			if (k < len && ref[k] == it) {
				at = k;
			}
		}
		__CPROVER_assert((nni_list_active(g_l, it) != 0) == (at != LC_NONE), "active iff member");
		if (at != LC_NONE) {
			/* a member can only be removed */
			if (op % 2 == 0) {
				nni_list_remove(g_l, it);
			} else {
				nni_list_node_remove(LC_NODE(g_l, it));
			}
			for (size_t k = 0; k < 3; k++) {
				if (k >= at) {
					ref[k] = ref[k + 1];
				}
			}
			len--;
		} else {
			size_t p; /* position the item must end up at */
			if (len == 0 || w >= len) {
				w = 0;
			}
			switch (op % 4) {
			case 0:
				nni_list_append(g_l, it);
				p = len;
				break;
			case 1:
				nni_list_prepend(g_l, it);
				p = 0;
				break;
			case 2:
				if (len == 0) {
					nni_list_append(g_l, it);
					p = 0;
				} else {
					nni_list_insert_before(g_l, it, ref[w]);
					p = w;
				}
				break;
			default:
				if (len == 0) {
					nni_list_prepend(g_l, it);
					p = 0;
				} else {
					nni_list_insert_after(g_l, it, ref[w]);
					p = w + 1;
				}
				break;
			}
			for (size_t k = 3; k > 0; k--) {
				if (k > p) {
					ref[k] = ref[k - 1];
				}
			}
			ref[p] = it;
			len++;
		}
		lc_check_enum(ref, len);
	}
	VP_CANARY();
}
