/* Environment of list.c: the only outside function is nni_panic (the library
 * aborts the process when a node that is already on a list is inserted
 * again).  Reaching it is an obligation: every insertion contract requires the
 * node to be inactive, so the panic must be unreachable. */
void
nni_panic(const char *fmt, ...)
{
	(void) fmt;
	__CPROVER_assert(0, "nni_panic reached (library aborts the process)");
}
