/* Specification vocabulary for src/core/list.c (included AFTER the real
 * source: it needs nni_list / nni_list_node).  No code of nng.
 *
 * A list is a circular doubly linked ring through a sentinel (ll_head) that
 * lives inside the nni_list object; members are nni_list_node objects embedded
 * at byte offset ll_offset in their item.  A node is INACTIVE (on no list) iff
 * ln_next == ln_prev == NULL.
 *
 * Two views are used:
 *  LOCAL   (grade P)  only the neighbourhood of the operated node: the node,
 *                     its predecessor and successor (each the sentinel or an
 *                     arbitrary other node), arbitrary item size / offset.
 *  BOUNDED (grade B)  the harness builds a whole ring of g_n <= LC_MAXN members
 *                     g_it[0..g_n) (real objects of LC_ITEMSZ bytes, symbolic
 *                     ll_offset) and the SEQUENCE of members is compared before
 *                     and after (forwards via ln_next and backwards via ln_prev).
 */
#ifndef VP_LISTCORE_SPEC_H
#define VP_LISTCORE_SPEC_H

#define RV __CPROVER_return_value
#define OLD(e) __CPROVER_old(e)

/* same expressions as the NODE / ITEM macros of list.c */
#define LC_NODE(l, it) ((nni_list_node *) (void *) (((char *) (it)) + (l)->ll_offset))
#define LC_ITEM(l, nd) ((void *) (((char *) (nd)) - (l)->ll_offset))
#define LC_HEAD(l) (&(l)->ll_head)
/* pointer p is exactly q (points-to aware form for preconditions) */
#define LC_IS(p, q) __CPROVER_pointer_in_range_dfcc((q), (p), (q))
#define LC_NODESZ (sizeof(nni_list_node))
/* LOCAL view: the item is an object of LC_LOCAL_ITEMSZ bytes and the member
 * offset is any value that keeps the node inside it.  (A symbolic item size --
 * is_fresh(item, ll_offset + sizeof node) with ll_offset up to 2^40 -- was tried
 * first: reading a pointer at a symbolic offset of a symbolic-size object does
 * not finish, see spec.json not_decided; constant sizes above ~1 KB do not
 * either.  The node-level functions need no item and are unbounded.) */
#ifndef LC_LOCAL_ITEMSZ
#define LC_LOCAL_ITEMSZ 64
#endif
#define LC_OFFMAX (LC_LOCAL_ITEMSZ - LC_NODESZ)

/* ---- BOUNDED view ------------------------------------------------------ */
#define LC_MAXN 3
#define LC_ITEMSZ 48
#define LC_MAXOFF (LC_ITEMSZ - LC_NODESZ)

nni_list *g_l;      /* the list under test                                        */
void     *g_it[4];  /* its members in list order are g_it[0..g_n); the others are
                     * real items with inactive nodes                             */
void     *g_x;      /* one more item, never on the list (inactive node)           */
size_t    g_n;      /* number of members, <= LC_MAXN                              */
size_t    g_pos;    /* ghost position (operated member / insertion reference)     */
void     *g_ia;     /* LOCAL view: item that embeds a neighbour node              */
void     *g_ib;     /* LOCAL view: item that embeds the other neighbour node      */

/* expected sequences, all derived from the harness' g_it[0..n):
 *   lc_exp(k, ins, x, del): the k-th element of g_it[0..n) after deleting
 *   position del (del == LC_NONE: nothing deleted) and then inserting x so that
 *   it sits at position ins (ins == LC_NONE: nothing inserted). */
static void *
lc_exp(size_t k, size_t ins, void *x, size_t del)
{
	size_t j = k;
	if (k == ins) {
		return (x);
	}
	if (k > ins) {
		j = j - 1;
	}
	if (j >= del) {
		j = j + 1;
	}
	return (j < 4 ? g_it[j] : NULL);
}
/* The ring holds exactly the expected sequence e(0) .. e(len-1):
 *   sentinel.next == node(e(0)), node(e(k)).next == node(e(k+1)), node(e(len-1)).next == sentinel
 * and every ln_prev is the mirror image.  Following ln_next from the sentinel
 * therefore enumerates e(0), e(1), ... and comes back to the sentinel after len
 * steps; following ln_prev enumerates the reverse.  (Stated on the links of the
 * KNOWN objects instead of by chasing loaded pointers, which keeps symbolic
 * execution small.) */
static bool
lc_seq(const nni_list *l, size_t len, size_t ins, void *x, size_t del)
{
	bool                 ok   = (len <= LC_MAXN + 1);
	const nni_list_node *prev = &l->ll_head;
	for (size_t k = 0; k <= LC_MAXN; k++) {
		if (k < len) {
			void                *e  = lc_exp(k, ins, x, del);
			const nni_list_node *nd = LC_NODE(l, e);
			ok                      = ok && e != NULL && prev->ln_next == nd && nd->ln_prev == prev;
			prev                    = nd;
		}
	}
	return (ok && prev->ln_next == &l->ll_head && l->ll_head.ln_prev == prev);
}
#define LC_NONE ((size_t) 99)
/* the members are g_it[0..n) in this order */
#define LC_SEQ_SAME(l, n) lc_seq((l), (n), LC_NONE, NULL, LC_NONE)
/* ... with x inserted at position p (old members keep their relative order) */
#define LC_SEQ_INS(l, n, p, x) lc_seq((l), (n) + 1, (p), (x), LC_NONE)
/* ... with the member at position p taken out (the others keep their relative order) */
#define LC_SEQ_DEL(l, n, p) lc_seq((l), (n) - 1, LC_NONE, NULL, (p))

#define LC_INACTIVE(l, it) (LC_NODE(l, it)->ln_next == NULL && LC_NODE(l, it)->ln_prev == NULL)
/* every item that is not a member has an inactive node */
#define LC_REST_INACTIVE(l, n)                                                  \
	(((n) > 0 || LC_INACTIVE(l, g_it[0])) && ((n) > 1 || LC_INACTIVE(l, g_it[1])) && \
	    ((n) > 2 || LC_INACTIVE(l, g_it[2])) && LC_INACTIVE(l, g_it[3]))

/* BOUNDED precondition: the shape the harness built */
#define LC_B_PRE(l) ((l) == g_l && g_n <= LC_MAXN && (l)->ll_offset <= LC_MAXOFF && LC_SEQ_SAME(l, g_n) && LC_REST_INACTIVE(l, g_n))

#endif
