// hostile raw socketpair peer against an nng pull0 listener on socket://
#include <nng/nng.h>
#include <stdio.h>
#include <string.h>
#include <unistd.h>
#include <poll.h>
#include <signal.h>
#include <sys/socket.h>
static int closed_by_nng(int fd) {
	struct pollfd p = {fd, POLLIN, 0};
	if (poll(&p, 1, 2000) <= 0) return 0;
	char c; return read(fd, &c, 1) <= 0; // EOF or ECONNRESET
}
static void try_case(nng_socket s, nng_listener l, const char *what, const unsigned char *hello, const unsigned char *frame, size_t len, int expect_msg) {
	int fds[2]; unsigned char in[8];
	socketpair(AF_UNIX, SOCK_STREAM, 0, fds);
	if (nng_listener_set_int(l, NNG_OPT_SOCKET_FD, fds[0]) != 0) { printf("set fd failed\n"); return; }
	int fd = fds[1];
	write(fd, hello, 8);
	size_t got = 0; struct pollfd p = {fd, POLLIN, 0};
	while (got < 8 && poll(&p, 1, 1000) > 0) { ssize_t n = read(fd, in + got, 8 - got); if (n <= 0) break; got += n; }
	if (len) write(fd, frame, len);
	nng_msg *m = NULL;
	int rv = nng_recvmsg(s, &m, 0);
	int cl = closed_by_nng(fd);
	printf("%-30s recv rv=%d (%s) len=%zu peer-sees-close=%d => %s\n", what, rv, nng_strerror(rv), m ? nng_msg_len(m) : 0, cl,
	    (expect_msg ? (rv == 0) : (rv != 0 && cl)) ? "OK" : "UNEXPECTED");
	if (m) nng_msg_free(m);
	close(fd);
}
int main(void) {
	nng_socket s; nng_listener l;
	signal(SIGPIPE, SIG_IGN);
	nng_init(NULL);
	nng_pull0_open(&s);
	nng_socket_set_size(s, NNG_OPT_RECVMAXSZ, 16);
	nng_socket_set_ms(s, NNG_OPT_RECVTIMEO, 500);
	if (nng_listener_create(&l, s, "socket://") != 0 || nng_listener_start(l, 0) != 0) { printf("listen failed\n"); return 1; }
	unsigned char hello[8]  = {0, 'S', 'P', 0, 0, 0x50, 0, 0};
	unsigned char badh[8]   = {0, 'S', 'P', 1, 0, 0x50, 0, 0};
	unsigned char badh2[8]  = {0, 'S', 'P', 0, 0, 0x50, 0, 1};
	unsigned char ok[8 + 3]   = {0,0,0,0,0,0,0,3, 'a','b','c'};
	unsigned char big[8 + 17] = {0,0,0,0,0,0,0,17};
	unsigned char inval[8]    = {0x10,0,0,0,0,0,0,0};
	unsigned char edge[8 + 16] = {0,0,0,0,0,0,0,16};
	try_case(s, l, "good hello, 3 bytes", hello, ok, sizeof ok, 1);
	try_case(s, l, "hello byte 3 != 0", badh, ok, sizeof ok, 0);
	try_case(s, l, "hello byte 7 != 0", badh2, ok, sizeof ok, 0);
	try_case(s, l, "len 17 > rcvmax 16", hello, big, sizeof big, 0);
	try_case(s, l, "len 2^60 (invalid)", hello, inval, sizeof inval, 0);
	try_case(s, l, "len 16 == rcvmax", hello, edge, sizeof edge, 1);
	try_case(s, l, "good again (listener ok)", hello, ok, sizeof ok, 1);
	nng_socket_close(s);
	return 0;
}
