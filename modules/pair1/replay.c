/* Native replay driver for pair1_pipe_recv_cb (src/sp/protocol/pair1/pair.c): the REAL
 * protocol file with the REAL message.c and lmq.c; pipes, aios, locks, pollables and
 * statistics are recording stubs (the same events the CBMC environment model
 * include/env_proto.h records).  Pre-state from the entry snapshot of the counterexample:
 * result of the receive, length of the received message, the hop word the peer sent
 * (first four body bytes, big endian), the socket's TTL, number of waiting receivers,
 * fill level / capacity of the receive queue, pipe id.  The callback is run under
 * ASan/UBSan and the postconditions of modules/pair1/contracts.h are evaluated in C:
 *   receive failed            -> pipe closed, nothing else
 *   no / malformed hop header -> message released, pipe closed, never delivered
 *   too many hops             -> message released, NOT closed, receive re-armed
 *   accepted                  -> header = [hop], body = the rest, pipe id recorded, delivered to
 *                                exactly one place (waiting receiver / queue / kept for back-pressure) */
#include "vp_native.h"
#include "core/nng_impl.h"
#include "modules/lmq/spec.h"

/* ---- allocator with bookkeeping */
#define VP_NBLK 256
static struct {
	void  *p;
	size_t sz;
	int    live;
} vp_blk[VP_NBLK];
static int vp_nblk;
static void *
vp_alloc(size_t sz, int zero)
{
	void *p;
	if (sz == 0 || sz > ((size_t) 1 << 30))
		return (NULL);
	p = zero ? calloc(1, sz) : malloc(sz);
	if (p != NULL && vp_nblk < VP_NBLK) {
		vp_blk[vp_nblk].p    = p;
		vp_blk[vp_nblk].sz   = sz;
		vp_blk[vp_nblk].live = 1;
		vp_nblk++;
	}
	return (p);
}
static int
vp_live(const void *p)
{
	for (int i = vp_nblk - 1; i >= 0; i--)
		if (vp_blk[i].p == p)
			return (vp_blk[i].live);
	return (0);
}
void *nni_alloc(size_t sz) { return (vp_alloc(sz, 0)); }
void *nni_zalloc(size_t sz) { return (vp_alloc(sz, 1)); }
void
nni_free(void *p, size_t sz)
{
	if (p == NULL)
		return;
	for (int i = vp_nblk - 1; i >= 0; i--) {
		if (vp_blk[i].p == p && vp_blk[i].live) {
			if (vp_blk[i].sz != sz) {
				printf("nni_free(%p, %zu): block was allocated with %zu bytes\n", p, sz, vp_blk[i].sz);
				VP_EXPECT(!"nni_free size == allocation size");
			}
			vp_blk[i].live = 0;
			free(p);
			return;
		}
	}
	VP_EXPECT(!"nni_free of a live block");
	free(p);
}

/* ---- environment: recording stubs */
#define VP_UNREACH(name)                                                          \
	do {                                                                          \
		printf("REPLAY-FAIL: %s reached (outside the replayed callback)\n", name); \
		exit(1);                                                                  \
	} while (0)
static size_t   pipe_close_calls, pipe_recv_calls, fin_calls, fin_count, raise_calls, lock_depth, bump_rx_calls, stat_inc_calls;
static nni_pipe *pipe_close_last, *pipe_recv_pipe;
static nni_aio  *pipe_recv_aio, *fin_aio;
static nng_err   fin_rv;
static nni_msg  *fin_msg;
static size_t    waiting;     /* receivers waiting in s->raq */
static nni_aio   waiter;      /* the first of them */
static uint32_t  the_pipe_id;
static int       unlock_before_finish = 1;

void nng_log_warn(const char *id, const char *msg, ...) { (void) id; (void) msg; }
void nni_panic(const char *fmt, ...) { printf("REPLAY-FAIL: nni_panic(\"%s\") reached: process would abort\n", fmt); printf("REPLAY-RESULT: reproduced (panic)\n"); exit(1); }
void nni_atomic_init(nni_atomic_int *v) { v->v = 0; }
void nni_atomic_set(nni_atomic_int *v, int i) { v->v = i; }
int  nni_atomic_get(nni_atomic_int *v) { return (v->v); }
void nni_atomic_inc(nni_atomic_int *v) { v->v++; }
int  nni_atomic_dec_nv(nni_atomic_int *v) { v->v--; return (v->v); }
void nni_aio_close(nni_aio *a) { (void) a; VP_UNREACH("nni_aio_close"); }
void nni_aio_fini(nni_aio *a) { (void) a; VP_UNREACH("nni_aio_fini"); }
void nni_aio_stop(nni_aio *a) { (void) a; VP_UNREACH("nni_aio_stop"); }
void nni_aio_init(nni_aio *a, nni_cb cb, void *arg) { (void) a; (void) cb; (void) arg; VP_UNREACH("nni_aio_init"); }
void nni_aio_finish(nni_aio *a, nng_err r, size_t c) { (void) a; (void) r; (void) c; VP_UNREACH("nni_aio_finish"); }
void nni_aio_finish_error(nni_aio *a, nng_err r) { (void) a; (void) r; VP_UNREACH("nni_aio_finish_error"); }
void
nni_aio_finish_sync(nni_aio *a, nng_err r, size_t c)
{
	fin_calls++;
	fin_aio = a, fin_rv = r, fin_count = c, fin_msg = a->a_msg;
	if (lock_depth != 0)
		unlock_before_finish = 0; /* completion callback run with the socket lock held */
}
nni_msg *nni_aio_get_msg(nni_aio *a) { return (a->a_msg); }
void     nni_aio_set_msg(nni_aio *a, nni_msg *m) { a->a_msg = m; }
nng_err  nni_aio_result(nni_aio *a) { return (a->a_result); }
int      nni_aio_list_active(nni_aio *a) { (void) a; VP_UNREACH("nni_aio_list_active"); }
void     nni_aio_list_append(nni_list *l, nni_aio *a) { (void) l; (void) a; VP_UNREACH("nni_aio_list_append"); }
void     nni_aio_list_init(nni_list *l) { (void) l; VP_UNREACH("nni_aio_list_init"); }
void
nni_aio_list_remove(nni_aio *a)
{
	VP_EXPECT(a == &waiter && waiting > 0);
	if (waiting > 0)
		waiting--;
}
bool    nni_aio_start(nni_aio *a, nni_aio_cancel_fn f, void *arg) { (void) a; (void) f; (void) arg; VP_UNREACH("nni_aio_start"); }
nng_err nni_copyin_int(int *d, const void *s, size_t n, int lo, int hi, nni_type t) { (void) d; (void) s; (void) n; (void) lo; (void) hi; (void) t; VP_UNREACH("nni_copyin_int"); }
nng_err nni_copyout_int(int v, void *d, size_t *n, nni_type t) { (void) v; (void) d; (void) n; (void) t; VP_UNREACH("nni_copyout_int"); }
void   *nni_list_first(const nni_list *l) { (void) l; return (waiting > 0 ? &waiter : NULL); }
void    nni_mtx_init(nni_mtx *m) { (void) m; }
void    nni_mtx_fini(nni_mtx *m) { (void) m; }
void    nni_mtx_lock(nni_mtx *m) { (void) m; VP_EXPECT(lock_depth == 0); lock_depth++; }
void    nni_mtx_unlock(nni_mtx *m) { (void) m; VP_EXPECT(lock_depth == 1); lock_depth--; }
void    nni_pipe_close(nni_pipe *p) { pipe_close_calls++; pipe_close_last = p; }
uint32_t nni_pipe_id(nni_pipe *p) { (void) p; return (the_pipe_id); }
uint16_t nni_pipe_peer(nni_pipe *p) { (void) p; VP_UNREACH("nni_pipe_peer"); }
void    nni_pipe_recv(nni_pipe *p, nni_aio *a) { pipe_recv_calls++; pipe_recv_pipe = p, pipe_recv_aio = a; }
void    nni_pipe_send(nni_pipe *p, nni_aio *a) { (void) p; (void) a; VP_UNREACH("nni_pipe_send"); }
void    nni_pollable_clear(nni_pollable *p) { (void) p; VP_UNREACH("nni_pollable_clear"); }
void    nni_pollable_fini(nni_pollable *p) { (void) p; }
nng_err nni_pollable_getfd(nni_pollable *p, int *fd) { (void) p; (void) fd; VP_UNREACH("nni_pollable_getfd"); }
void    nni_pollable_init(nni_pollable *p) { (void) p; }
void    nni_pollable_raise(nni_pollable *p) { (void) p; raise_calls++; }
int     nni_proto_open(nng_socket *s, const nni_proto *p) { (void) s; (void) p; VP_UNREACH("nni_proto_open"); }
void    nni_sock_add_stat(nni_sock *s, nni_stat_item *i) { (void) s; (void) i; }
void    nni_sock_bump_rx(nni_sock *s, uint64_t sz) { (void) s; (void) sz; bump_rx_calls++; }
void    nni_sock_bump_tx(nni_sock *s, uint64_t sz) { (void) s; (void) sz; }
void    nni_stat_inc(nni_stat_item *i, uint64_t n) { (void) i; (void) n; stat_inc_calls++; }
void    nni_stat_init(nni_stat_item *i, const nni_stat_info *n) { (void) i; (void) n; }
void    nni_stat_set_bool(nni_stat_item *i, bool b) { (void) i; (void) b; }

#include "core/message.c"          /* the real files, via -I/repo/src */
#include "core/lmq.c"
#include "sp/protocol/pair1/pair.c"

#define BYTE(i) ((uint8_t) (0x41 + ((i) % 53)))
#define QMSG(i) ((nng_msg *) (uintptr_t) (0x1000 + 16 * (i)))
#define NBE32(p) (((uint32_t) (p)[0] << 24) | ((uint32_t) (p)[1] << 16) | ((uint32_t) (p)[2] << 8) | (uint32_t) (p)[3])

int
main(int argc, char **argv)
{
	if (argc < 2) {
		fprintf(stderr, "usage: replay <inputs> [function]\n");
		return 2;
	}
	vp_load(argv[1]);
	if (argc > 2 && strcmp(argv[2], "pair1_pipe_recv_cb") != 0) {
		printf("REPLAY-RESULT: skipped (no native driver for %s)\n", argv[2]);
		return 3;
	}
	if (!vp_has("vp_in_result")) {
		printf("REPLAY-RESULT: skipped (trace has no entry snapshot)\n");
		return 3;
	}
	int      result = (int) vp_u64("vp_in_result", 0);
	size_t   len = vp_u64("vp_in_len", 0), rlen = vp_u64("vp_in_rlen", 0), rcap = vp_u64("vp_in_rcap", 0), rget = vp_u64("vp_in_rget", 0);
	uint32_t u32 = (uint32_t) vp_u64("vp_in_u32", 0);
	int      ttl = (int) vp_u64("vp_in_ttl", 8);
	waiting      = vp_u64("vp_in_waiting", 0);
	the_pipe_id  = (uint32_t) vp_u64("vp_in_pipeid", 0x77);
	if (len > ((size_t) 1 << 20) || rcap > 4096 || rlen > rcap || !(ttl >= 1 && ttl <= NNI_MAX_MAX_TTL)) {
		printf("REPLAY-RESULT: skipped (pre-state outside the precondition or too large to build natively)\n");
		return 3;
	}
	static pair1_sock s;
	static pair1_pipe p;
	static int        the_pipe, the_sock;
	memset(&s, 0, sizeof(s));
	memset(&p, 0, sizeof(p));
	p.pair  = &s;
	p.pipe  = (nni_pipe *) &the_pipe;
	s.sock  = (nni_sock *) &the_sock;
	s.ttl.v = ttl;
	nni_lmq_init(&s.rmq, rcap);
	if (s.rmq.lmq_cap != rcap) {
		printf("REPLAY-RESULT: skipped (out of memory)\n");
		return 3;
	}
	for (size_t i = 0; i < (rget & s.rmq.lmq_mask); i++) { /* same ring offset as the counterexample */
		nng_msg *d;
		size_t   c      = s.rmq.lmq_cap;
		s.rmq.lmq_cap   = c ? c : 1;
		nni_lmq_put(&s.rmq, QMSG(999));
		nni_lmq_get(&s.rmq, &d);
		s.rmq.lmq_cap = c;
	}
	for (size_t i = 0; i < rlen; i++)
		nni_lmq_put(&s.rmq, QMSG(i));
	nni_msg *m = NULL;
	uint8_t *body0 = NULL;
	p.aio_recv.a_result = (nng_err) result;
	if (result == 0) {
		if (nni_msg_alloc(&m, len) != 0) {
			printf("REPLAY-RESULT: skipped (out of memory)\n");
			return 3;
		}
		body0 = malloc(len ? len : 1);
		for (size_t i = 0; i < len; i++)
			body0[i] = BYTE(i);
		if (len >= 4) { /* the hop word the peer sent */
			body0[0] = (uint8_t) (u32 >> 24), body0[1] = (uint8_t) (u32 >> 16), body0[2] = (uint8_t) (u32 >> 8), body0[3] = (uint8_t) u32;
		}
		memcpy(m->m_body.ch_ptr, body0, len);
		p.aio_recv.a_msg = m;
	}
	size_t waiting0 = waiting;
	void  *buf0     = m ? m->m_body.ch_buf : NULL;

	pair1_pipe_recv_cb(&p);

	printf("pair1_pipe_recv_cb(receive result %d, message of %zu bytes", result, len);
	if (result == 0 && len >= 4)
		printf(", hop word 0x%08x", u32);
	printf("; ttl=%d, %zu waiting receivers, receive queue %zu/%zu): pipe closed %zu x, receive re-armed %zu x, completions %zu, queue now %zu, message %s\n",
	    ttl, waiting0, rlen, rcap, pipe_close_calls, pipe_recv_calls, fin_calls, s.rmq.lmq_len, m == NULL ? "-" : vp_live(m) ? "alive" : "released");
	VP_EXPECT(lock_depth == 0);
	VP_EXPECT(LMQ_WF_SCALAR(&s.rmq));
	VP_EXPECT(pipe_close_calls <= 1 && fin_calls <= 1);
	if (result != 0) {
		VP_EXPECT(pipe_close_calls == 1 && pipe_close_last == p.pipe && fin_calls == 0 && pipe_recv_calls == 0 && s.rmq.lmq_len == rlen && waiting == waiting0);
	} else if (len < 4 || u32 > 0xff) {
		/* malformed hop header: disconnect, never delivered */
		VP_EXPECT(!vp_live(m) && !vp_live(buf0));
		VP_EXPECT(pipe_close_calls == 1 && pipe_close_last == p.pipe && fin_calls == 0 && pipe_recv_calls == 0 && s.rmq.lmq_len == rlen && waiting == waiting0);
	} else if ((int) u32 > ttl) {
		/* too many hops: dropped, NOT disconnected, receive re-armed */
		VP_EXPECT(!vp_live(m) && !vp_live(buf0));
		VP_EXPECT(pipe_close_calls == 0 && fin_calls == 0 && pipe_recv_calls == 1 && pipe_recv_pipe == p.pipe && pipe_recv_aio == &p.aio_recv);
		VP_EXPECT(p.aio_recv.a_msg == NULL && s.rmq.lmq_len == rlen && waiting == waiting0);
	} else {
		/* accepted: header = [hop], body = rest, origin pipe id recorded */
		VP_EXPECT(vp_live(m) && pipe_close_calls == 0);
		if (vp_live(m)) {
			VP_EXPECT(m->m_header_len == 4 && NBE32((uint8_t *) m->m_header_buf) == u32);
			VP_EXPECT(m->m_body.ch_len == len - 4 && m->m_pipe == the_pipe_id);
			for (size_t k = 4; k < len && m->m_body.ch_len == len - 4; k++)
				VP_EXPECT(m->m_body.ch_ptr[k - 4] == body0[k]);
		}
		if (waiting0 > 0) { /* a receiver is waiting: it gets exactly this message, once; next receive armed */
			VP_EXPECT(fin_calls == 1 && fin_aio == &waiter && fin_rv == 0 && fin_msg == m && fin_count == len);
			VP_EXPECT(unlock_before_finish);
			VP_EXPECT(waiting == waiting0 - 1 && pipe_recv_calls == 1 && s.rmq.lmq_len == rlen);
		} else if (rlen < rcap) { /* buffered */
			VP_EXPECT(fin_calls == 0 && s.rmq.lmq_len == rlen + 1 && p.aio_recv.a_msg == NULL && pipe_recv_calls == 1 && raise_calls >= 1);
			if (s.rmq.lmq_len == rlen + 1 && LMQ_WF_SCALAR(&s.rmq))
				VP_EXPECT(LMQ_VIEW(&s.rmq, s.rmq.lmq_len - 1) == m);
		} else { /* buffer full: the message stays with the pipe (back-pressure) */
			VP_EXPECT(fin_calls == 0 && s.rmq.lmq_len == rlen && p.aio_recv.a_msg == m && s.rd_ready && pipe_recv_calls == 0 && raise_calls >= 1);
		}
		for (size_t i = 0; i < rlen && LMQ_WF_SCALAR(&s.rmq) && i < s.rmq.lmq_len; i++)
			VP_EXPECT(LMQ_VIEW(&s.rmq, i) == QMSG(i));
	}
	/* clean up: nothing may be left behind but the delivered message */
	if (m != NULL && vp_live(m))
		nni_msg_free(m);
	s.rmq.lmq_len = 0;
	nni_lmq_fini(&s.rmq);
	for (int i = 0; i < vp_nblk; i++)
		VP_EXPECT(!vp_blk[i].live);
	free(body0);
	VP_DONE();
}
