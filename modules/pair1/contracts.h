/* Contracts for src/sp/protocol/pair1/pair.c */
#ifndef VP_PAIR1_CONTRACTS_H
#define VP_PAIR1_CONTRACTS_H
/* clang-format off */
#define RV __CPROVER_return_value
#define OLD(e) __CPROVER_old(e)
#define P1_P ((pair1_pipe *) arg)
#define P1_S (((pair1_pipe *) arg)->pair)
#define P1_M (((pair1_pipe *) arg)->aio_recv.a_msg)

/* Receive callback.  For EVERY 32-bit hop word a peer can send and every ttl
 * setting 1..15:
 *   - a failed receive, a message shorter than the hop word, or a hop word
 *     above 0xff disconnects the peer and is never delivered (C08, C11);
 *   - a hop count above the ttl is discarded WITHOUT disconnecting and the
 *     receive is re-armed (C08, C13: forwarding loops die out);
 *   - otherwise the hop word moves from the body to the header unchanged and
 *     the rest of the body is delivered unchanged to exactly one place. */
#ifdef P1_RECV_FAILED
/* case A (own unit): the receive failed => the peer is disconnected, nothing else happens */
static void pair1_pipe_recv_cb(void *arg)
__CPROVER_requires(__CPROVER_is_fresh(arg, sizeof(struct pair1_pipe)))
__CPROVER_requires(P1_SOCK_PRE_R(P1_S) && VP_NO_LOCK_HELD)
__CPROVER_requires(P1_P->aio_recv.a_result != 0)
__CPROVER_assigns(VP_PROTO_GHOST_LIST)
__CPROVER_ensures(VP_NO_LOCK_HELD)
__CPROVER_ensures(g_pipe_close_calls == OLD(g_pipe_close_calls) + 1 && g_pipe_close_last == P1_P->pipe && g_fin_calls == OLD(g_fin_calls) && g_pipe_recv_calls == OLD(g_pipe_recv_calls) && P1_S->rmq.lmq_len == OLD(P1_S->rmq.lmq_len) && g_qa.n == OLD(g_qa.n))
;
#else
static void pair1_pipe_recv_cb(void *arg)
__CPROVER_requires(__CPROVER_is_fresh(arg, sizeof(struct pair1_pipe)))
__CPROVER_requires(P1_SOCK_PRE_R(P1_S) && VP_NO_LOCK_HELD)
__CPROVER_requires(P1_P->aio_recv.a_result == 0 && P1_WIRE_MSG(P1_M) && CH_GHOST_PRE(&P1_M->m_body))
/* ghost equation: g_u32 is the hop word the peer sent (first four body bytes, big endian) */
__CPROVER_requires(P1_M->m_body.ch_len >= 4 ==> g_u32 == P1_HOP(P1_M))
__CPROVER_requires(VP_AIO_NOT_QUEUED(&P1_P->aio_recv))
__CPROVER_assigns(P1_P->aio_recv.a_msg, P1_S->rd_ready, P1_S->rmq.lmq_put, P1_S->rmq.lmq_len, __CPROVER_object_whole(P1_S->rmq.lmq_msgs), VP_PROTO_GHOST_LIST, VP_SYNC_GHOSTS, g_free_calls)
__CPROVER_assigns(*P1_M; g_qa.n > 0: g_qa.head->a_msg)
__CPROVER_frees(P1_M, P1_M->m_body.ch_buf)
__CPROVER_ensures(VP_NO_LOCK_HELD && VP_AIOQS_OK)
__CPROVER_ensures(g_pipe_close_calls <= OLD(g_pipe_close_calls) + 1 && g_fin_calls <= OLD(g_fin_calls) + 1)
#ifndef P1_MIN
/* B: malformed hop header: disconnect, never delivered */
__CPROVER_ensures(((OLD(P1_M->m_body.ch_len) < 4 || g_u32 > 0xff)) ==> (__CPROVER_was_freed(OLD(P1_M)) && g_pipe_close_calls == OLD(g_pipe_close_calls) + 1 && g_pipe_close_last == P1_P->pipe && g_fin_calls == OLD(g_fin_calls) && g_pipe_recv_calls == OLD(g_pipe_recv_calls) && P1_S->rmq.lmq_len == OLD(P1_S->rmq.lmq_len) && g_qa.n == OLD(g_qa.n)))
/* C: too many hops: dropped, NOT disconnected, receive re-armed */
__CPROVER_ensures((OLD(P1_M->m_body.ch_len) >= 4 && g_u32 <= 0xff && (int) g_u32 > P1_S->ttl.v) ==> (__CPROVER_was_freed(OLD(P1_M)) && g_pipe_close_calls == OLD(g_pipe_close_calls) && g_fin_calls == OLD(g_fin_calls) && g_pipe_recv_calls == OLD(g_pipe_recv_calls) + 1 && g_pipe_recv_pipe == P1_P->pipe && g_pipe_recv_aio == &P1_P->aio_recv && P1_P->aio_recv.a_msg == NULL && P1_S->rmq.lmq_len == OLD(P1_S->rmq.lmq_len) && g_qa.n == OLD(g_qa.n)))
/* D: accepted: header = [hop], body = rest, origin pipe id recorded, not disconnected, not freed */
__CPROVER_ensures((OLD(P1_M->m_body.ch_len) >= 4 && (int) g_u32 <= P1_S->ttl.v && g_u32 <= 0xff) ==> (!__CPROVER_was_freed(OLD(P1_M)) && g_pipe_close_calls == OLD(g_pipe_close_calls) && OLD(P1_M)->m_header_len == 4 && BE32(HDR(OLD(P1_M))) == g_u32 && OLD(P1_M)->m_body.ch_len == OLD(P1_M->m_body.ch_len) - 4 && OLD(P1_M)->m_pipe == g_pipe_id))
__CPROVER_ensures((OLD(P1_M->m_body.ch_len) >= 4 && (int) g_u32 <= P1_S->ttl.v && g_u32 <= 0xff && g_k >= 4 && g_k < OLD(P1_M->m_body.ch_len)) ==> OLD(P1_M)->m_body.ch_ptr[g_k - 4] == g_b)
/* D1: a receiver is waiting: it gets exactly this message, once; the next receive is armed */
__CPROVER_ensures((OLD(P1_M->m_body.ch_len) >= 4 && (int) g_u32 <= P1_S->ttl.v && g_u32 <= 0xff && OLD(g_qa.n) > 0) ==> (g_fin_calls == OLD(g_fin_calls) + 1 && g_fin_last == OLD(g_qa.head) && g_fin_last_rv == 0 && g_fin_last_msg == OLD(P1_M) && g_fin_last_count == OLD(P1_M->m_body.ch_len) && g_qa.n == OLD(g_qa.n) - 1 && g_pipe_recv_calls == OLD(g_pipe_recv_calls) + 1 && P1_S->rmq.lmq_len == OLD(P1_S->rmq.lmq_len)))
/* D2: buffered: appended to the receive queue, next receive armed, socket readable */
__CPROVER_ensures((OLD(P1_M->m_body.ch_len) >= 4 && (int) g_u32 <= P1_S->ttl.v && g_u32 <= 0xff && OLD(g_qa.n) == 0 && OLD(P1_S->rmq.lmq_len) < P1_S->rmq.lmq_cap) ==> (g_fin_calls == OLD(g_fin_calls) && P1_S->rmq.lmq_len == OLD(P1_S->rmq.lmq_len) + 1 && LMQ_VIEW(&P1_S->rmq, P1_S->rmq.lmq_len - 1) == OLD(P1_M) && P1_P->aio_recv.a_msg == NULL && g_pipe_recv_calls == OLD(g_pipe_recv_calls) + 1 && g_pollr))
/* D3: buffer full: the message stays with the pipe (back-pressure, nothing dropped), socket readable */
__CPROVER_ensures((OLD(P1_M->m_body.ch_len) >= 4 && (int) g_u32 <= P1_S->ttl.v && g_u32 <= 0xff && OLD(g_qa.n) == 0 && OLD(P1_S->rmq.lmq_len) >= P1_S->rmq.lmq_cap) ==> (g_fin_calls == OLD(g_fin_calls) && P1_S->rmq.lmq_len == OLD(P1_S->rmq.lmq_len) && P1_P->aio_recv.a_msg == OLD(P1_M) && P1_S->rd_ready && g_pipe_recv_calls == OLD(g_pipe_recv_calls) && g_pollr))
#endif
__CPROVER_ensures(LMQ_WF_SCALAR(&P1_S->rmq))
;
#endif

/* ---- the hop count goes up by one on every traversal (C08/C13) ---- */
static void pair1_pipe_send(pair1_pipe *p, nni_msg *m)
__CPROVER_requires(__CPROVER_is_fresh(p, sizeof(struct pair1_pipe)) && __CPROVER_is_fresh(p->pair, sizeof(struct pair1_sock)))
__CPROVER_requires(__CPROVER_is_fresh(m, sizeof(struct nng_msg)) && m->m_header_len == 4 && m->m_refcnt.v == 1)
__CPROVER_requires(BE32(HDR(m)) < 0xffffffffu)
__CPROVER_assigns(p->aio_send.a_msg, p->pair->wr_ready, __CPROVER_object_from(m->m_header_buf), g_pipe_send_calls, g_pipe_send_pipe, g_pipe_send_aio, g_pipe_send_msg)
__CPROVER_ensures(BE32(HDR(m)) == OLD_BE32(HDR(m)) + 1 && m->m_header_len == 4)
__CPROVER_ensures(p->aio_send.a_msg == m && !p->pair->wr_ready)
__CPROVER_ensures(g_pipe_send_calls == OLD(g_pipe_send_calls) + 1 && g_pipe_send_pipe == p->pipe && g_pipe_send_aio == &p->aio_send && g_pipe_send_msg == m)
;

/* ---- one peer at a time (C08): a second connection is refused while the first is attached ---- */
static int pair1_pipe_start(void *arg)
__CPROVER_requires(__CPROVER_is_fresh(arg, sizeof(struct pair1_pipe)))
__CPROVER_requires(__CPROVER_is_fresh(P1_S, sizeof(struct pair1_sock)) && VP_NO_LOCK_HELD)
__CPROVER_assigns(P1_S->p, P1_S->rd_ready, VP_PROTO_GHOST_LIST, VP_SYNC_GHOSTS, g_p1_sched_calls)
__CPROVER_ensures(VP_NO_LOCK_HELD)
__CPROVER_ensures(g_pipe_peer != PAIR1_PEER ==> (RV == NNG_EPROTO && P1_S->p == OLD(P1_S->p) && g_pipe_recv_calls == OLD(g_pipe_recv_calls)))
__CPROVER_ensures((g_pipe_peer == PAIR1_PEER && OLD(P1_S->p) != NULL) ==> (RV == NNG_EBUSY && P1_S->p == OLD(P1_S->p) && g_pipe_recv_calls == OLD(g_pipe_recv_calls) && g_p1_sched_calls == OLD(g_p1_sched_calls)))
__CPROVER_ensures((g_pipe_peer == PAIR1_PEER && OLD(P1_S->p) == NULL) ==> (RV == 0 && P1_S->p == P1_P && !P1_S->rd_ready && g_pipe_recv_calls == OLD(g_pipe_recv_calls) + 1 && g_pipe_recv_pipe == P1_P->pipe && g_pipe_recv_aio == &P1_P->aio_recv && g_p1_sched_calls == OLD(g_p1_sched_calls) + 1))
/* a refused peer (wrong protocol, or NNG_EBUSY while the first is alive) must not disturb the live pair: NOTHING of the socket changes -
 * readiness flags, the attached peer, both descriptors, waiting operations; nothing is sent, completed or closed (wr_ready, the rings and the
 * attached pipe's own state are not assignable at all: frame) */
__CPROVER_ensures(RV != 0 ==> (P1_S->p == OLD(P1_S->p) && P1_S->rd_ready == OLD(P1_S->rd_ready) && g_pollr == OLD(g_pollr) && g_pollw == OLD(g_pollw) && g_qa.n == OLD(g_qa.n) && g_qb.n == OLD(g_qb.n) && g_fin_calls == OLD(g_fin_calls) && g_pipe_send_calls == OLD(g_pipe_send_calls) && g_pipe_recv_calls == OLD(g_pipe_recv_calls) && g_pipe_close_calls == OLD(g_pipe_close_calls) && g_p1_sched_calls == OLD(g_p1_sched_calls)))
__CPROVER_ensures(RV == 0 || RV == NNG_EPROTO || RV == NNG_EBUSY)
;

#ifdef P1_SCHED_LIGHT
/* light contract used ONLY where pair1_send_sched is replaced inside pair1_pipe_start
 * (counts the call); the full contract below is enforced in its own unit */
static void pair1_send_sched(pair1_sock *s)
__CPROVER_assigns(g_p1_sched_calls)
__CPROVER_ensures(g_p1_sched_calls == OLD(g_p1_sched_calls) + 1)
;
#else
/* ---- send scheduling: called when the pipe can take another message (C08 order / nothing lost) ---- */
#define P1_Q0 LMQ_VIEW(&s->wmq, 0)
static void pair1_send_sched(pair1_sock *s)
__CPROVER_requires(P1_SOCK_PRE(s) && VP_NO_LOCK_HELD)
__CPROVER_requires(s->p == NULL || (__CPROVER_is_fresh(s->p, sizeof(struct pair1_pipe)) && __CPROVER_pointer_in_range_dfcc(s, s->p->pair, s)))
/* queued / waiting messages are real cooked-or-raw messages with their one-word hop header */
__CPROVER_requires(s->wmq.lmq_len > 0 ==> (__CPROVER_is_fresh(P1_Q0, sizeof(struct nng_msg)) && P1_Q0->m_header_len == 4 && P1_Q0->m_refcnt.v == 1 && BE32(HDR(P1_Q0)) < 0xff))
__CPROVER_requires(g_qb.n > 0 ==> (__CPROVER_is_fresh(g_qb.head->a_msg, sizeof(struct nng_msg)) && g_qb.head->a_msg->m_header_len == 4 && g_qb.head->a_msg->m_refcnt.v == 1 && BE32(HDR(g_qb.head->a_msg)) < 0xff))
/* stable state: senders wait only when the buffer is full */
__CPROVER_requires(g_qb.n == 0 || s->wmq.lmq_len >= s->wmq.lmq_cap)
__CPROVER_requires(s->wmq.lmq_len > 0 ==> g_p == (void *) P1_Q0)
__CPROVER_requires(g_qb.n > 0 ==> g_p2 == (void *) g_qb.head->a_msg)
__CPROVER_requires((g_k >= 1 && g_k < s->wmq.lmq_len) ==> g_p3 == (void *) LMQ_VIEW(&s->wmq, g_k))
__CPROVER_assigns(s->wr_ready, s->wmq.lmq_get, s->wmq.lmq_put, s->wmq.lmq_len, __CPROVER_object_whole(s->wmq.lmq_msgs), VP_PROTO_GHOST_LIST, VP_SYNC_GHOSTS)
__CPROVER_assigns(s->p != NULL: s->p->aio_send.a_msg; s->wmq.lmq_len > 0: __CPROVER_object_from(P1_Q0->m_header_buf); g_qb.n > 0: g_qb.head->a_msg, __CPROVER_object_from(g_qb.head->a_msg->m_header_buf))
__CPROVER_ensures(VP_NO_LOCK_HELD && VP_AIOQS_OK && LMQ_WF_SCALAR(&s->wmq))
/* no pipe: nothing happens */
__CPROVER_ensures(s->p == NULL ==> (g_pipe_send_calls == OLD(g_pipe_send_calls) && g_fin_calls == OLD(g_fin_calls) && s->wmq.lmq_len == OLD(s->wmq.lmq_len) && g_qb.n == OLD(g_qb.n)))
/* buffered messages go first, oldest first, hop count +1 */
__CPROVER_ensures((s->p != NULL && OLD(s->wmq.lmq_len) > 0) ==> (g_pipe_send_calls == OLD(g_pipe_send_calls) + 1 && (void *) g_pipe_send_msg == g_p && !s->wr_ready))
__CPROVER_ensures((s->p != NULL && OLD(s->wmq.lmq_len) > 0 && g_k >= 1 && g_k < OLD(s->wmq.lmq_len)) ==> (void *) LMQ_VIEW(&s->wmq, g_k - 1) == g_p3)
/* ... and a waiting sender's message takes the freed slot at the tail; that sender completes with success */
__CPROVER_ensures((s->p != NULL && OLD(s->wmq.lmq_len) > 0 && OLD(g_qb.n) > 0) ==> (s->wmq.lmq_len == OLD(s->wmq.lmq_len) && (void *) LMQ_VIEW(&s->wmq, s->wmq.lmq_len - 1) == g_p2 && g_qb.n == OLD(g_qb.n) - 1 && g_fin_calls == OLD(g_fin_calls) + 1 && g_fin_last == OLD(g_qb.head) && g_fin_last_rv == 0 && g_fin_last_msg == NULL))
__CPROVER_ensures((s->p != NULL && OLD(s->wmq.lmq_len) > 0 && OLD(g_qb.n) == 0) ==> (s->wmq.lmq_len == OLD(s->wmq.lmq_len) - 1 && g_fin_calls == OLD(g_fin_calls)))
/* unbuffered: a waiting sender's message goes straight to the pipe */
__CPROVER_ensures((s->p != NULL && OLD(s->wmq.lmq_len) == 0 && OLD(g_qb.n) > 0) ==> (g_pipe_send_calls == OLD(g_pipe_send_calls) + 1 && (void *) g_pipe_send_msg == g_p2 && !s->wr_ready && g_qb.n == OLD(g_qb.n) - 1 && g_fin_calls == OLD(g_fin_calls) + 1 && g_fin_last == OLD(g_qb.head) && g_fin_last_rv == 0 && g_fin_last_msg == NULL))
/* nothing to send: the pipe is remembered as ready */
__CPROVER_ensures((s->p != NULL && OLD(s->wmq.lmq_len) == 0 && OLD(g_qb.n) == 0) ==> (s->wr_ready && g_pipe_send_calls == OLD(g_pipe_send_calls) && g_fin_calls == OLD(g_fin_calls)))
/* C15: room in the buffer or a ready pipe => the send descriptor is raised */
__CPROVER_ensures((s->p != NULL && (s->wmq.lmq_len < s->wmq.lmq_cap || s->wr_ready)) ==> g_pollw)
;

#endif

/* ---- socket send (C08 back-pressure, C15 non-blocking rule, C03 ownership) ---- */
#define P1_SM (aio->a_msg)
#define P1_SS ((pair1_sock *) arg)
static void pair1_sock_send(void *arg, nni_aio *aio)
__CPROVER_requires(P1_SOCK_PRE(P1_SS) && VP_NO_LOCK_HELD)
__CPROVER_requires(__CPROVER_is_fresh(aio, sizeof(nni_aio)) && VP_AIO_NOT_QUEUED(aio))
__CPROVER_requires(__CPROVER_is_fresh(P1_SM, sizeof(struct nng_msg)) && P1_SM->m_header_len <= MSG_HDRCAP && P1_SM->m_refcnt.v == 1)
__CPROVER_requires(P1_SS->wr_ready ==> (__CPROVER_is_fresh(P1_SS->p, sizeof(struct pair1_pipe)) && __CPROVER_pointer_in_range_dfcc(P1_SS, P1_SS->p->pair, P1_SS)))
__CPROVER_requires(g_qb.n < 8)
/* stable state: senders wait only when the pipe is busy and the buffer is full */
__CPROVER_requires(g_qb.n == 0 || (!P1_SS->wr_ready && P1_SS->wmq.lmq_len >= P1_SS->wmq.lmq_cap))
__CPROVER_assigns(aio->a_msg, aio->a_result, aio->a_count, P1_SS->wr_ready, P1_SS->wmq.lmq_put, P1_SS->wmq.lmq_len, __CPROVER_object_whole(P1_SS->wmq.lmq_msgs), __CPROVER_object_from(P1_SM->m_header_buf), P1_SM->m_header_len, VP_PROTO_GHOST_LIST, VP_SYNC_GHOSTS)
__CPROVER_assigns(P1_SS->wr_ready: P1_SS->p->aio_send.a_msg)
__CPROVER_ensures(VP_NO_LOCK_HELD && VP_AIOQS_OK && LMQ_WF_SCALAR(&P1_SS->wmq))
/* raw mode: a header that is not exactly one hop word below 0xff is refused, message stays with the caller */
__CPROVER_ensures((P1_SS->raw && (OLD(P1_SM->m_header_len) != 4 || OLD_BE32(HDR(P1_SM)) >= 0xff)) ==> (g_fin_calls == OLD(g_fin_calls) + 1 && g_fin_last == aio && g_fin_last_rv == NNG_EPROTO && aio->a_msg == OLD(P1_SM) && g_pipe_send_calls == OLD(g_pipe_send_calls) && P1_SS->wmq.lmq_len == OLD(P1_SS->wmq.lmq_len) && g_start_calls == OLD(g_start_calls)))
/* pipe ready: goes on the wire now with hop count +1 (cooked: 0 + 1); completed with success; timeout not consulted */
__CPROVER_ensures((!(P1_SS->raw && (OLD(P1_SM->m_header_len) != 4 || OLD_BE32(HDR(P1_SM)) >= 0xff)) && OLD(P1_SS->wr_ready)) ==> (g_pipe_send_calls == OLD(g_pipe_send_calls) + 1 && g_pipe_send_msg == OLD(P1_SM) && OLD(P1_SM)->m_header_len == 4 && BE32(HDR(OLD(P1_SM))) == (P1_SS->raw ? OLD_BE32(HDR(P1_SM)) + 1 : 1) && g_fin_calls == OLD(g_fin_calls) + 1 && g_fin_last == aio && g_fin_last_rv == 0 && aio->a_msg == NULL && g_start_calls == OLD(g_start_calls) && P1_SS->wmq.lmq_len == OLD(P1_SS->wmq.lmq_len)))
/* pipe busy, room in the buffer: queued at the tail; completed with success; timeout not consulted */
__CPROVER_ensures((!(P1_SS->raw && (OLD(P1_SM->m_header_len) != 4 || OLD_BE32(HDR(P1_SM)) >= 0xff)) && !OLD(P1_SS->wr_ready) && OLD(P1_SS->wmq.lmq_len) < P1_SS->wmq.lmq_cap) ==> (g_pipe_send_calls == OLD(g_pipe_send_calls) && P1_SS->wmq.lmq_len == OLD(P1_SS->wmq.lmq_len) + 1 && LMQ_VIEW(&P1_SS->wmq, P1_SS->wmq.lmq_len - 1) == OLD(P1_SM) && g_fin_calls == OLD(g_fin_calls) + 1 && g_fin_last == aio && g_fin_last_rv == 0 && aio->a_msg == NULL && g_start_calls == OLD(g_start_calls)))
/* must wait (back-pressure, nothing discarded): started once; refused => still the caller's message, not queued */
__CPROVER_ensures((!(P1_SS->raw && (OLD(P1_SM->m_header_len) != 4 || OLD_BE32(HDR(P1_SM)) >= 0xff)) && !OLD(P1_SS->wr_ready) && OLD(P1_SS->wmq.lmq_len) >= P1_SS->wmq.lmq_cap) ==> (g_start_calls == OLD(g_start_calls) + 1 && g_start_last == aio && g_fin_calls == OLD(g_fin_calls) && g_pipe_send_calls == OLD(g_pipe_send_calls) && P1_SS->wmq.lmq_len == OLD(P1_SS->wmq.lmq_len) && aio->a_msg == OLD(P1_SM) && g_qb.n == OLD(g_qb.n) + (g_aio_start_ok ? 1 : 0)))
/* C15: the send descriptor is cleared exactly when nothing more can be accepted */
__CPROVER_ensures((g_fin_calls > OLD(g_fin_calls) && g_fin_last_rv == 0 && P1_SS->wmq.lmq_len >= P1_SS->wmq.lmq_cap && !P1_SS->wr_ready) ==> !g_pollw)
;

/* ---- socket receive (C08 ordered/lossless hand-off, C15 non-blocking rule) ---- */
#define P1_RS ((pair1_sock *) arg)
#define P1_HELD (P1_RS->p->aio_recv.a_msg)
static void pair1_sock_recv(void *arg, nni_aio *aio)
__CPROVER_requires(P1_SOCK_PRE_R(P1_RS) && VP_NO_LOCK_HELD)
__CPROVER_requires(__CPROVER_is_fresh(aio, sizeof(nni_aio)) && VP_AIO_NOT_QUEUED(aio) && g_qa.n < 8)
/* a message held back by a full buffer belongs to the attached pipe */
__CPROVER_requires(P1_RS->rd_ready ==> (__CPROVER_is_fresh(P1_RS->p, sizeof(struct pair1_pipe)) && __CPROVER_is_fresh(P1_HELD, sizeof(struct nng_msg))))
__CPROVER_requires(P1_RS->rd_ready ==> g_p2 == (void *) P1_HELD)
__CPROVER_requires(P1_RS->rmq.lmq_len > 0 ==> __CPROVER_is_fresh(LMQ_VIEW(&P1_RS->rmq, 0), sizeof(struct nng_msg)))
/* stable state: receivers wait only when nothing is buffered or held */
__CPROVER_requires(g_qa.n == 0 || (P1_RS->rmq.lmq_len == 0 && !P1_RS->rd_ready))
/* (no "a message is held only when the buffer is full" precondition: growing NNG_OPT_RECVBUF leaves a parked message parked,
 * see modules/pairx *_set_recv_buf_len; the postconditions below hold for a parked message with room in the buffer as well) */
__CPROVER_requires((P1_RS->rmq.lmq_len > 0 || P1_RS->rd_ready) ==> g_pollr)
__CPROVER_requires(g_k < P1_RS->rmq.lmq_len ==> g_p == (void *) LMQ_VIEW(&P1_RS->rmq, g_k))
__CPROVER_assigns(aio->a_msg, aio->a_result, aio->a_count, P1_RS->rd_ready, P1_RS->rmq.lmq_get, P1_RS->rmq.lmq_put, P1_RS->rmq.lmq_len, __CPROVER_object_whole(P1_RS->rmq.lmq_msgs), VP_PROTO_GHOST_LIST, VP_SYNC_GHOSTS)
__CPROVER_assigns(P1_RS->rd_ready: P1_RS->p->aio_recv.a_msg)
__CPROVER_ensures(VP_NO_LOCK_HELD && VP_AIOQS_OK && LMQ_WF_SCALAR(&P1_RS->rmq))
/* buffered: the caller gets the OLDEST queued message now, success, timeout not consulted */
__CPROVER_ensures((OLD(P1_RS->rmq.lmq_len) > 0 && g_k == 0) ==> (g_fin_calls == OLD(g_fin_calls) + 1 && g_fin_last == aio && g_fin_last_rv == 0 && (void *) aio->a_msg == g_p && g_start_calls == OLD(g_start_calls)))
/* ... the rest keeps its order, and a held-back message is appended behind it and the pipe read re-armed */
__CPROVER_ensures((OLD(P1_RS->rmq.lmq_len) > 0 && g_k >= 1 && g_k < OLD(P1_RS->rmq.lmq_len)) ==> (void *) LMQ_VIEW(&P1_RS->rmq, g_k - 1) == g_p)
__CPROVER_ensures((OLD(P1_RS->rmq.lmq_len) > 0 && !OLD(P1_RS->rd_ready)) ==> (P1_RS->rmq.lmq_len == OLD(P1_RS->rmq.lmq_len) - 1 && g_pipe_recv_calls == OLD(g_pipe_recv_calls)))
__CPROVER_ensures((OLD(P1_RS->rmq.lmq_len) > 0 && OLD(P1_RS->rd_ready)) ==> (P1_RS->rmq.lmq_len == OLD(P1_RS->rmq.lmq_len) && LMQ_VIEW(&P1_RS->rmq, P1_RS->rmq.lmq_len - 1) == (nni_msg *) g_p2 && P1_HELD == NULL && !P1_RS->rd_ready && g_pipe_recv_calls == OLD(g_pipe_recv_calls) + 1 && g_pipe_recv_aio == &P1_RS->p->aio_recv))
/* unbuffered hand-off: the held message goes straight to the caller */
__CPROVER_ensures((OLD(P1_RS->rmq.lmq_len) == 0 && OLD(P1_RS->rd_ready)) ==> (g_fin_calls == OLD(g_fin_calls) + 1 && g_fin_last == aio && g_fin_last_rv == 0 && aio->a_msg == (nni_msg *) g_p2 && P1_HELD == NULL && !P1_RS->rd_ready && g_pipe_recv_calls == OLD(g_pipe_recv_calls) + 1 && g_start_calls == OLD(g_start_calls) && !g_pollr))
/* nothing available: started once; refused => not queued */
__CPROVER_ensures((OLD(P1_RS->rmq.lmq_len) == 0 && !OLD(P1_RS->rd_ready)) ==> (g_start_calls == OLD(g_start_calls) + 1 && g_start_last == aio && g_fin_calls == OLD(g_fin_calls) && g_qa.n == OLD(g_qa.n) + (g_aio_start_ok ? 1 : 0) && g_pipe_recv_calls == OLD(g_pipe_recv_calls)))
/* C15 (both directions): the receive descriptor mirrors "a non-blocking receive would
 * succeed" = something is buffered or held back.  It is an invariant: assumed on
 * entry, re-established on exit (no missed wake-up, no busy loop). */
__CPROVER_ensures((g_fin_calls > OLD(g_fin_calls) && P1_RS->rmq.lmq_len == 0) ==> !g_pollr)
__CPROVER_ensures((P1_RS->rmq.lmq_len > 0 || P1_RS->rd_ready) ==> g_pollr)
;
/* clang-format on */
#endif
