/* Spec macros for src/sp/protocol/pair1/pair.c (C08, C11, C13, C15). */
#ifndef VP_PAIR1_SPEC_H
#define VP_PAIR1_SPEC_H

/* a message as a transport delivers it: unshared, empty header, wire bytes in the body */
#define P1_WIRE_MSG(m)                                                     \
	(__CPROVER_is_fresh((m), sizeof(struct nng_msg)) &&                    \
	    (m)->m_header_len == 0 && (m)->m_refcnt.v == 1 &&                  \
	    CH_FULL_PRE(&(m)->m_body))

/* socket state + environment ghosts tied to it */
#define P1_SOCK_PRE(s) (P1_SOCK_PRE_R(s) && LMQ_INNER_PRE(&(s)->wmq))
/* variant for callbacks that only touch the receive side */
#define P1_SOCK_PRE_R(s)                                                   \
	(__CPROVER_is_fresh((s), sizeof(struct pair1_sock)) &&                 \
	    (s)->ttl.v >= 1 && (s)->ttl.v <= NNI_MAX_MAX_TTL &&                \
	    LMQ_INNER_PRE(&(s)->rmq) &&                                        \
	    g_qa_addr == &(s)->raq && g_qb_addr == &(s)->waq && VP_AIOQS_PRE && \
	    g_pollr_addr == &(s)->readable && g_pollw_addr == &(s)->writable)

#define P1_HOP(m) BE32((m)->m_body.ch_ptr)
#endif
