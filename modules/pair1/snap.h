/* Entry snapshot for the native replay of pair1_pipe_recv_cb (macros only; read by
 * vp/replay.py).  The unit is decided with --slice-formula, which drops every assignment
 * no proof obligation depends on; the sum vp_keep carries (always true) signed-overflow
 * checks that mention the snapshot values and so keeps them in the trace.  It has no
 * other purpose. */
#ifndef VP_PAIR1_SNAP_H
#define VP_PAIR1_SNAP_H
#define VP_P1SNAP_BEGIN                                                            \
	_Pragma("CPROVER check push") _Pragma("CPROVER check disable \"pointer\"")   \
	_Pragma("CPROVER check disable \"bounds\"")                                  \
	_Pragma("CPROVER check disable \"pointer-primitive\"")                       \
	_Pragma("CPROVER check disable \"pointer-overflow\"")
#define VP_P1SNAP_END _Pragma("CPROVER check pop")
#define VP_K1(x) ((int) ((x) & 1))
#define VP_SNAP_P1RECV()                                                           \
	VP_P1SNAP_BEGIN                                                                \
	pair1_pipe *vp_p       = (pair1_pipe *) arg;                                   \
	size_t      vp_in_result = (size_t) vp_p->aio_recv.a_result;                   \
	size_t      vp_in_len  = (vp_in_result == 0) ? vp_p->aio_recv.a_msg->m_body.ch_len : 0; \
	size_t      vp_in_cap  = (vp_in_result == 0) ? vp_p->aio_recv.a_msg->m_body.ch_cap : 0; \
	size_t      vp_in_off  = (vp_in_result == 0 && vp_in_cap != 0) ? (size_t) __CPROVER_POINTER_OFFSET(vp_p->aio_recv.a_msg->m_body.ch_ptr) : 0; \
	size_t      vp_in_u32  = g_u32, vp_in_ttl = (size_t) vp_p->pair->ttl.v, vp_in_waiting = g_qa.n, vp_in_pipeid = g_pipe_id; \
	size_t      vp_in_rlen = vp_p->pair->rmq.lmq_len, vp_in_rcap = vp_p->pair->rmq.lmq_cap, vp_in_rget = vp_p->pair->rmq.lmq_get, \
	            vp_in_ralloc = vp_p->pair->rmq.lmq_alloc;                          \
	VP_P1SNAP_END                                                                  \
	int vp_keep = VP_K1(vp_in_result) + VP_K1(vp_in_len) + VP_K1(vp_in_cap) + VP_K1(vp_in_off) + VP_K1(vp_in_u32) + VP_K1(vp_in_ttl) + \
	    VP_K1(vp_in_waiting) + VP_K1(vp_in_pipeid) + VP_K1(vp_in_rlen) + VP_K1(vp_in_rcap) + VP_K1(vp_in_rget) + VP_K1(vp_in_ralloc);
#endif
