/* included BEFORE the real sources of the pair1 TU */
#define VP_PROTO_GHOSTS 1
#include "include/env_proto.h"
#include "modules/message/spec.h"
#include "modules/lmq/spec.h"
#include "modules/pair1/spec.h"
size_t g_p1_sched_calls; /* ghost: calls of pair1_send_sched (assumed contract) */
