/* included BEFORE the real sources of the pair1 TU */
#define VP_PROTO_GHOSTS 1
#include "include/env_proto.h"
#include "modules/message/spec.h"
#include "modules/lmq/spec.h"
#include "modules/pair1/spec.h"
