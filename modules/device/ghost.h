/* ghost state of the device.c environment model (declared before the source) */
#ifndef VP_DEVICE_GHOST_H
#define VP_DEVICE_GHOST_H
#include "core/nng_impl.h"
size_t    g_msgfree_calls;   nni_msg *g_msgfree_last;
size_t    g_abort_calls;     nni_aio *g_abort_last; int g_abort_rv;
size_t    g_srecv_calls;     nni_sock *g_srecv_sock; nni_aio *g_srecv_aio;
size_t    g_ssend_calls;     nni_sock *g_ssend_sock; nni_aio *g_ssend_aio; nni_msg *g_ssend_msg;
size_t    g_userfin_calls;   nni_aio *g_userfin_aio; int g_userfin_rv;
size_t    g_reap_calls;      void *g_reap_item;
size_t    g_closedev_calls;
size_t    g_reset_calls;
#endif
