/* Environment of device.c (ASSUMED, ghost records only). */
nng_err  nni_aio_result(nni_aio *aio) { return (aio->a_result); }
nni_msg *nni_aio_get_msg(nni_aio *aio) { return (aio->a_msg); }
void     nni_aio_set_msg(nni_aio *aio, nni_msg *m) { aio->a_msg = m; }
void     nni_aio_reset(nni_aio *aio) { aio->a_result = NNG_OK; aio->a_count = 0; g_reset_calls++; }
void     nni_msg_free(nni_msg *m) { g_msgfree_calls++; g_msgfree_last = m; }
void     nni_aio_abort(nni_aio *aio, nng_err rv) { g_abort_calls++; g_abort_last = aio; g_abort_rv = (int) rv; }
void     nni_sock_recv(nni_sock *s, nni_aio *aio) { g_srecv_calls++; g_srecv_sock = s; g_srecv_aio = aio; }
void     nni_sock_send(nni_sock *s, nni_aio *aio) { g_ssend_calls++; g_ssend_sock = s; g_ssend_aio = aio; g_ssend_msg = aio->a_msg; }
void     nni_aio_finish_error(nni_aio *aio, nng_err rv) { g_userfin_calls++; g_userfin_aio = aio; g_userfin_rv = (int) rv; }
void     nni_reap(nni_reap_list *l, void *item) { (void) l; g_reap_calls++; g_reap_item = item; }
void     nni_sock_close_device(nni_sock *s) { (void) s; g_closedev_calls++; }
