void
h_device_cb(void)
{
	device_data  d;      /* built by the harness: every field arbitrary */
	int          i = nondet_int();
	VP_HAVOC_SYNC();
	g_msgfree_calls = nondet_size_t(); g_abort_calls = nondet_size_t(); g_srecv_calls = nondet_size_t();
	g_ssend_calls = nondet_size_t(); g_userfin_calls = nondet_size_t(); g_reap_calls = nondet_size_t();
	g_closedev_calls = nondet_size_t(); g_reset_calls = nondet_size_t();
	__CPROVER_assume(g_msgfree_calls < ((size_t) 1 << 40) && g_abort_calls < ((size_t) 1 << 40) && g_srecv_calls < ((size_t) 1 << 40) &&
	    g_ssend_calls < ((size_t) 1 << 40) && g_userfin_calls < ((size_t) 1 << 40) && g_reap_calls < ((size_t) 1 << 40) &&
	    g_closedev_calls < ((size_t) 1 << 40) && g_reset_calls < ((size_t) 1 << 40));
	__CPROVER_assume(i == 0 || i == 1);
	d.paths[0].d = &d;
	d.paths[1].d = &d;
	device_cb(&d.paths[i]);
	VP_CANARY();
}
