/* Contract for device_cb in src/core/device.c (C13: a device forwards each
 * message it accepts unchanged; C03: the message is released exactly once
 * when forwarding fails; C02: the user's aio is completed exactly once, when
 * the last path stops). */
#ifndef VP_DEVICE_CONTRACTS_H
#define VP_DEVICE_CONTRACTS_H
/* clang-format off */
#define OLD(e) __CPROVER_old(e)
#define DP ((device_path *) arg)
#define DD (((device_path *) arg)->d)
#define DEV_GHOSTS g_msgfree_calls, g_msgfree_last, g_abort_calls, g_abort_last, g_abort_rv, g_srecv_calls, g_srecv_sock, g_srecv_aio, g_ssend_calls, g_ssend_sock, g_ssend_aio, g_ssend_msg, g_userfin_calls, g_userfin_aio, g_userfin_rv, g_reap_calls, g_reap_item, g_closedev_calls, g_reset_calls
/* failing completion: either the aio failed or the device is already shutting down */
#define DEV_FAIL_OLD (OLD(DP->aio.a_result) != 0 || OLD(DD->rv) != 0)

static void device_cb(void *arg)
/* the harness builds a device (1 or 2 paths), picks a live path and passes it */
__CPROVER_requires(DD->num_paths >= 1 && DD->num_paths <= 2 && (DP == &DD->paths[0] || (DD->num_paths == 2 && DP == &DD->paths[1])))
__CPROVER_requires((DP->state == NNI_DEVICE_STATE_RECV || DP->state == NNI_DEVICE_STATE_SEND) && DD->running >= 1 && DD->running <= DD->num_paths && VP_NO_LOCK_HELD)
__CPROVER_assigns(DP->state, DP->aio.a_msg, DP->aio.a_result, DP->aio.a_count, DD->running, DD->rv, DD->user, DD->owned, DEV_GHOSTS, VP_SYNC_GHOSTS)
__CPROVER_ensures(VP_NO_LOCK_HELD)
/* receive completed, device healthy: the SAME message is handed to the destination socket, untouched */
__CPROVER_ensures((!DEV_FAIL_OLD && OLD(DP->state) == NNI_DEVICE_STATE_RECV) ==> (DP->state == NNI_DEVICE_STATE_SEND && g_ssend_calls == OLD(g_ssend_calls) + 1 && g_ssend_sock == DP->dst && g_ssend_aio == &DP->aio && g_ssend_msg == OLD(DP->aio.a_msg) && DP->aio.a_msg == OLD(DP->aio.a_msg) && g_msgfree_calls == OLD(g_msgfree_calls) && g_srecv_calls == OLD(g_srecv_calls)))
/* send completed, device healthy: the next receive is posted on the source socket */
__CPROVER_ensures((!DEV_FAIL_OLD && OLD(DP->state) == NNI_DEVICE_STATE_SEND) ==> (DP->state == NNI_DEVICE_STATE_RECV && g_srecv_calls == OLD(g_srecv_calls) + 1 && g_srecv_sock == DP->src && g_srecv_aio == &DP->aio && g_msgfree_calls == OLD(g_msgfree_calls) && g_ssend_calls == OLD(g_ssend_calls)))
__CPROVER_ensures(!DEV_FAIL_OLD ==> (DD->running == OLD(DD->running) && g_userfin_calls == OLD(g_userfin_calls) && g_abort_calls == OLD(g_abort_calls) && g_reap_calls == OLD(g_reap_calls)))
/* failure: the path stops; a message it still owns is released exactly once and detached:
 *   - failed send: the message is still attached (send ownership rule)
 *   - successful receive while the device is shutting down: the received message
 *   - failed receive: there is no message */
__CPROVER_ensures(DEV_FAIL_OLD ==> (DP->state == NNI_DEVICE_STATE_FINI && DD->running == OLD(DD->running) - 1 && DD->rv != 0 && g_ssend_calls == OLD(g_ssend_calls) && g_srecv_calls == OLD(g_srecv_calls)))
__CPROVER_ensures((DEV_FAIL_OLD && (OLD(DP->state) == NNI_DEVICE_STATE_SEND || OLD(DP->aio.a_result) == 0)) ==> (g_msgfree_calls == OLD(g_msgfree_calls) + 1 && g_msgfree_last == OLD(DP->aio.a_msg) && DP->aio.a_msg == NULL))
__CPROVER_ensures((DEV_FAIL_OLD && OLD(DP->state) == NNI_DEVICE_STATE_RECV && OLD(DP->aio.a_result) != 0) ==> g_msgfree_calls == OLD(g_msgfree_calls))
/* C02 (nothing stays pending when the underlying objects go away) / C13: when one direction fails, the other
 * direction -- if it has not stopped already -- is aborted, exactly once, with the failing result (the device's
 * recorded error when this completion itself was successful); a path that already stopped, and this path, are not */
#define DEV_ABORT_RV_OK ((OLD(DP->aio.a_result) != 0 ==> g_abort_rv == (int) OLD(DP->aio.a_result)) && (OLD(DP->aio.a_result) == 0 ==> g_abort_rv == (int) OLD(DD->rv)))
__CPROVER_ensures((DEV_FAIL_OLD && DD->num_paths == 2 && DP == &DD->paths[0] && DD->paths[1].state != NNI_DEVICE_STATE_FINI) ==> (g_abort_calls == OLD(g_abort_calls) + 1 && g_abort_last == &DD->paths[1].aio && DEV_ABORT_RV_OK))
__CPROVER_ensures((DEV_FAIL_OLD && DD->num_paths == 2 && DP == &DD->paths[1] && DD->paths[0].state != NNI_DEVICE_STATE_FINI) ==> (g_abort_calls == OLD(g_abort_calls) + 1 && g_abort_last == &DD->paths[0].aio && DEV_ABORT_RV_OK))
__CPROVER_ensures((DEV_FAIL_OLD && (DD->num_paths == 1 || (DP == &DD->paths[0] && DD->paths[1].state == NNI_DEVICE_STATE_FINI) || (DP == &DD->paths[1] && DD->paths[0].state == NNI_DEVICE_STATE_FINI))) ==> g_abort_calls == OLD(g_abort_calls))
/* the first error is the one reported */
__CPROVER_ensures((DEV_FAIL_OLD && OLD(DD->rv) != 0) ==> DD->rv == OLD(DD->rv))
__CPROVER_ensures((DEV_FAIL_OLD && OLD(DD->rv) == 0) ==> DD->rv == (int) OLD(DP->aio.a_result))
/* the user's aio completes exactly once: when the last path has stopped */
__CPROVER_ensures((DEV_FAIL_OLD && OLD(DD->running) == 1) ==> (DD->user == NULL && g_reap_calls == OLD(g_reap_calls) + 1 && g_reap_item == DD && g_userfin_calls == OLD(g_userfin_calls) + (OLD(DD->user) != NULL ? 1 : 0) && (OLD(DD->user) != NULL ==> (g_userfin_aio == OLD(DD->user) && g_userfin_rv == DD->rv))))
__CPROVER_ensures((DEV_FAIL_OLD && OLD(DD->running) > 1) ==> (g_userfin_calls == OLD(g_userfin_calls) && g_reap_calls == OLD(g_reap_calls) && DD->user == OLD(DD->user)))
;
/* clang-format on */
#endif
