# ---- req0_ctx_cancel_recv / req0_ctx_cancel_send ----
X_B = "one context; the pipe that carried its request carries no other context; send queue and retry schedule hold at most this context"
STN = {0: "idle", 1: "sendpending", 2: "out", 3: "answered"}
def xdefs(cm, st, rt=0, rm=1, sq=0, ra=0, sa=2):
    return ["REQ_CM %d" % cm, "X_ST %d" % st, "X_RT %d" % rt, "X_RM %d" % rm, "X_SQ %d" % sq, "X_RA %d" % ra, "X_SA %d" % sa]
for (cm, st, rt, rm, sq, ra, nm, note) in [
        (0, 2, 0, 1, 0, 1, "out_own", "request outstanding, retained copy owned (resend on); the aio is the pending receive"),
        (1, 2, 0, 1, 0, 1, "out_own_m", "same on the socket's own context"),
        (0, 2, 0, 1, 1, 1, "out_own_queued", "request outstanding and waiting on the send queue for a resend; the aio is the pending receive"),
        (0, 2, 0, 2, 0, 1, "out_noretry", "request outstanding, resend off (req_msg dangles); the aio is the pending receive"),
        (0, 1, 1, 1, 0, 1, "sendpending_rt", "request still waits for a pipe (resend on); the aio is the pending receive: the send is cancelled too, message back"),
        (0, 1, 0, 1, 0, 1, "sendpending_nort", "request still waits for a pipe (resend off); the aio is the pending receive"),
        (0, 2, 0, 1, 0, 2, "stale_out", "stale cancellation (another receive is pending): nothing changes"),
        (0, 2, 0, 2, 0, 0, "stale_out_norecv", "stale cancellation (no receive pending): nothing changes"),
        (0, 3, 1, 1, 0, 0, "stale_answered", "stale cancellation after the reply was stored: nothing changes (the reply stays)"),
        (1, 0, 0, 1, 0, 0, "stale_idle", "stale cancellation on an idle context: nothing changes"),
        (0, 1, 1, 1, 0, 0, "stale_sendpending", "stale cancellation while a request waits for a pipe: AS THE CODE STANDS the waiting send is cancelled (NNG_ECANCELED, message back)"),
        ]:
    U("req0_ctx_cancel_recv_" + nm, "req0_ctx_cancel_recv", xdefs(cm, st, rt, rm, sq, ra), note, ["C04", "C02", "C03"], bound=X_B)
for (cm, st, rt, rm, sq, ra, sa, nm, note) in [
        (0, 1, 1, 1, 0, 0, 1, "rt", "the aio is the pending send (resend on)"),
        (1, 1, 0, 1, 0, 0, 1, "nort_m", "the aio is the pending send (resend off), socket's own context"),
        (0, 1, 1, 1, 0, 2, 1, "recvpending", "the aio is the pending send and a receive is pending too (started before the send completed)"),
        (0, 1, 1, 1, 0, 0, 2, "stale_other", "stale cancellation (another send is pending): nothing changes"),
        (0, 2, 0, 1, 0, 2, 2, "stale_out", "stale cancellation (request already sent): nothing changes"),
        (0, 0, 0, 1, 0, 0, 2, "stale_idle", "stale cancellation on an idle context: nothing changes"),
        ]:
    U("req0_ctx_cancel_send_" + nm, "req0_ctx_cancel_send", xdefs(cm, st, rt, rm, sq, ra, sa), note, ["C03", "C02", "C04"], bound=X_B)

# ---- req0_retry_cb ----
RT_B = ("retry schedule <= 2 contexts, at most one ready pipe, one busy pipe carrying the first context; loops unwound; in the shapes with a ready "
        "pipe the deadlines are fixed relative to the clock (due: deadline == now, not due: deadline == now + 1), the clock itself is symbolic")
for (n, rp, q1, d1, d2, nm, note) in [
        (0, 0, 0, -1, -1, "n0", "nobody on the retry schedule: the timer stops, retry_active cleared"),
        (1, 0, 0, -1, -1, "n1", "one context, deadline/request symbolic, no ready pipe"),
        (1, 0, 1, -1, -1, "n1_queued", "one context that already waits on the send queue: not queued twice"),
        (2, 0, 0, -1, -1, "n2", "two contexts, deadlines/requests symbolic, no ready pipe"),
        (1, 1, 0, 1, -1, "n1_rp1_due", "one due context, a ready pipe: resent at once, moves to that pipe's context list"),
        (1, 1, 0, 0, -1, "n1_rp1_notdue", "one context not yet due, a ready pipe: nothing is sent"),
        (2, 1, 0, 1, 1, "n2_rp1_due_due", "two due contexts, one ready pipe: first resent, second waits"),
        (2, 1, 0, 0, 1, "n2_rp1_notdue_due", "first not due, second due, one ready pipe: only the second is resent"),
        (2, 1, 0, 1, 0, "n2_rp1_due_notdue", "first due, second not due"),
        ]:
    U("req0_retry_cb_" + nm, "req0_retry_cb", ["RT_N %d" % n, "RT_RP %d" % rp, "RT_Q1 %d" % q1, "RT_DUE1 (%d)" % d1, "RT_DUE2 (%d)" % d2], note, ["C12", "C03"], bound=RT_B)
