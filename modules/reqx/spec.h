/* Spec macros for src/sp/protocol/reqrep0/req.c (C04, C12, C03/D9, C11).  No code.
 *
 * HARNESS-BUILT STATE.  req.c keeps pipes and contexts on six real intrusive lists.  Pinning list links
 * with __CPROVER_pointer_in_range_dfcc gives every link a symbolic offset and cbmc runs out of memory
 * (see modules/rep/spec.h), so the harness of each unit allocates socket, pipes and contexts with
 * nondeterministic contents and links the lists with plain C in the shape named by the unit; the
 * contract states the SAME shape as plain conditions (LIST_IS_*, OBJ_OK, DISTINCT).  Messages and aios
 * stay __CPROVER_is_fresh.  Lists are bounded (0..2 members): grade B.
 */
#ifndef VP_REQ_SPEC_H
#define VP_REQ_SPEC_H
#define L_HEAD(l) (&(l)->ll_head)
#define NODE_IDLE(n) ((n)->ln_next == NULL && (n)->ln_prev == NULL)
#define LIST_IS_EMPTY(l) ((l)->ll_head.ln_next == L_HEAD(l) && (l)->ll_head.ln_prev == L_HEAD(l))
#define LIST_IS_ONE(l, n1)                                                 \
	((l)->ll_head.ln_next == (n1) && (l)->ll_head.ln_prev == (n1) &&       \
	    (n1)->ln_next == L_HEAD(l) && (n1)->ln_prev == L_HEAD(l))
#define LIST_IS_TWO(l, n1, n2)                                             \
	((l)->ll_head.ln_next == (n1) && (n1)->ln_next == (n2) && (n2)->ln_next == L_HEAD(l) && \
	    (l)->ll_head.ln_prev == (n2) && (n2)->ln_prev == (n1) && (n1)->ln_prev == L_HEAD(l))
#define OBJ_OK(p, T) ((p) != NULL && __CPROVER_rw_ok((T *) (p), sizeof(T)) && __CPROVER_POINTER_OFFSET(p) == 0)
#define DISTINCT(a, b) (!__CPROVER_same_object((a), (b)))

#define SOCK ((req0_sock *) g_sock)
#define C1 ((req0_ctx *) g_c1)
#define C2 ((req0_ctx *) g_c2)
#define P1 ((req0_pipe *) g_p1)
#define P2 ((req0_pipe *) g_p2)

/* list offsets as req0_sock_init / req0_pipe_init set them */
#define REQ_SOCK_LISTS_OK(s)                                               \
	((s)->ready_pipes.ll_offset == offsetof(req0_pipe, node) &&            \
	    (s)->busy_pipes.ll_offset == offsetof(req0_pipe, node) &&          \
	    (s)->stop_pipes.ll_offset == offsetof(req0_pipe, node) &&          \
	    (s)->send_queue.ll_offset == offsetof(req0_ctx, send_node) &&      \
	    (s)->retry_queue.ll_offset == offsetof(req0_ctx, retry_node) &&    \
	    (s)->contexts.ll_offset == offsetof(req0_ctx, sock_node))

/* ---- ownership of the retained request (C03, DESIGN D9) ----
 * Once a request has been handed to a pipe, ctx->req_msg is a reference OF THE CONTEXT exactly when a
 * clone was taken for retries; otherwise the only reference went to the pipe and ctx->req_msg dangles.
 * The ghost g_own1 says which.  The code must keep enough state to know: REQ_OWN_FIELD names the field
 * it decides by.  On the tree as found that was ctx->retry, the live option value, which
 * NNG_OPT_REQ_RESENDTIME can change between request and reply (use after free / leak, reproduced
 * natively); since the fix it is ctx->req_retry, sampled when the request is submitted. */
#ifndef REQ_OWN_FIELD
#define REQ_OWN_FIELD req_retry
#endif
/* invariant: while a request is out (sent, not yet answered) ownership is what the field says */
#define REQ_OWN_INV(c, own) ((own) == ((c)->REQ_OWN_FIELD > 0))
/* the retained request as the ownership ghost describes it: a live message iff owned */
#define REQ_MSG_PRE(c, own)                                                \
	((c)->req_msg == NULL || !(own) ||                                     \
	    (__CPROVER_is_fresh((c)->req_msg, sizeof(struct nng_msg)) && (c)->req_msg->m_header_len <= MSG_HDRCAP && \
	        (c)->req_msg->m_refcnt.v >= 1 && CH_FULL_PRE(&(c)->req_msg->m_body)))
#endif
