#!/usr/bin/env python3
"""Generates modules/reqx/spec.json (the unit list is a product of shape defines).  Run: python3 modules/reqx/mkspec.py"""
import json, os
HERE = os.path.dirname(os.path.abspath(__file__))
A = ["harness-built state: socket, pipes, contexts (and aios that a parameter may alias) are static harness objects with "
     "nondeterministic contents; the harness links the intrusive lists in the shape named by the unit and the contract "
     "states the same shape as plain conditions (modules/reqx/spec.h, contracts.h)"]
units = []


def U(name, fn, defs, note, props, grade="B", bound=None, entry=None, **kw):
    u = {"name": name, "entry": entry or ("h_" + fn), "enforce": fn, "grade": grade, "props": props,
         "defines": defs, "unwind": 20, "no_loop_contracts": True, "solver": "cadical",
         "cbmc_flags": ["--slice-formula"], "note": note, "timeout": 600, "assumes": A}
    if grade != "P":
        u["bound"] = bound
    u.update(kw)
    units.append(u)


KN = {0: "N0", 1: "N2", 2: "R0", 3: "R1", 4: "R1Q"}
KTXT = {0: "resend off + answered", 1: "resend off + outstanding", 2: "resend on + answered",
        3: "resend on + outstanding", 4: "resend on + outstanding + already on the send queue"}
PNTXT = {0: "never started (on no list)", 1: "ready", 2: "busy"}

# ---- req0_run_send_queue ----
RSQ_B = ("send queue <= 2 contexts, ready list <= 2 pipes, busy list <= 1 other pipe, the pipes' context lists hold at "
         "most the first context, retry schedule holds exactly the named contexts; loop unwound (min(contexts, pipes) <= 2 iterations)")
for (sq, rp, rt, pn, nm) in [(0, 0, 0, 0, "sq0_rp0"), (1, 0, 0, 0, "sq1_rp0"), (1, 0, 1, 1, "sq1_rp0_resend"), (1, 1, 0, 0, "sq1_rp1"),
                             (1, 1, 1, 1, "sq1_rp1_resend"), (1, 1, 1, 2, "sq1_rp1_resend_same"), (1, 2, 1, 1, "sq1_rp2_resend"),
                             (2, 1, 0, 0, "sq2_rp1"), (2, 1, 2, 1, "sq2_rp1_resend"), (2, 2, 0, 0, "sq2_rp2"), (2, 2, 2, 1, "sq2_rp2_resend")]:
    U("req0_run_send_queue_" + nm, "req0_run_send_queue", ["RS_SQ %d" % sq, "RS_RP %d" % rp, "RS_RT %d" % rt, "RS_PN %d" % pn],
      "%d context(s) on the send queue, %d ready pipe(s); %s" % (sq, rp, ["first transmission", "resend: first context is on the retry schedule and on the context list of another (busy) pipe", "resend on the pipe whose context list already holds the context"][pn]),
      ["C12", "C03", "C04"], bound=RSQ_B)

# ---- req0_pipe_close ----
PC_B = ("closing pipe carries <= 2 contexts, at most one other pipe (ready), stop list empty before, send queue / retry schedule "
        "hold exactly the named contexts; loops unwound")
for (pn, rp) in [(0, 0), (1, 0), (1, 1), (2, 0), (2, 1)]:
    U("req0_pipe_close_n0_pn%d_rp%d" % (pn, rp), "req0_pipe_close", ["PC_PN %d" % pn, "PC_RP %d" % rp, "PC_N 0"],
      "closing pipe is %s, carries no context; %d other ready pipe(s)" % (PNTXT[pn], rp), ["C12", "C15"], bound=PC_B)
for (pn, rp, k1) in [(2, 0, 0), (2, 0, 1), (2, 0, 2), (2, 0, 3), (2, 0, 4), (2, 1, 1), (2, 1, 3), (1, 0, 1), (1, 0, 3), (1, 1, 3), (1, 0, 0)]:
    U("req0_pipe_close_%s_pn%d_rp%d" % (KN[k1], pn, rp), "req0_pipe_close", ["PC_PN %d" % pn, "PC_RP %d" % rp, "PC_N 1", "PC_K1 %d" % k1],
      "closing pipe is %s, carries one context (%s); %d other ready pipe(s)" % (PNTXT[pn], KTXT[k1], rp), ["C12", "C04", "C03", "C15", "C02"], bound=PC_B)
for (pn, rp, k1, k2) in [(2, 0, 1, 3), (2, 0, 3, 3), (2, 1, 3, 3), (2, 1, 3, 1), (2, 0, 3, 4), (2, 0, 2, 1)]:
    U("req0_pipe_close_%s_%s_pn%d_rp%d" % (KN[k1], KN[k2], pn, rp), "req0_pipe_close",
      ["PC_PN %d" % pn, "PC_RP %d" % rp, "PC_N 2", "PC_K1 %d" % k1, "PC_K2 %d" % k2],
      "closing pipe is %s, carries two contexts (%s; %s); %d other ready pipe(s)" % (PNTXT[pn], KTXT[k1], KTXT[k2], rp),
      ["C12", "C04", "C03", "C15", "C02"], bound=PC_B)
for u in units:
    if u["name"] in ("req0_pipe_close_R1_R1_pn2_rp1", "req0_pipe_close_R1_N2_pn2_rp1"):
        u["defines"] += ["PC_RV1 60000", "PC_RV2 %d" % (60000 if "R1_R1" in u["name"] else -1)]
        u["bound"] += "; resend times fixed to 60000 ms (enabled) / -1 = NNG_DURATION_INFINITE (disabled) in this shape (symbolic in the one-context shapes)"

exec(open(os.path.join(HERE, "mkspec_more.py")).read()) if os.path.exists(os.path.join(HERE, "mkspec_more.py")) else None

spec = json.load(open(os.path.join(HERE, "spec.json")))
spec["units"] = units
json.dump(spec, open(os.path.join(HERE, "spec.json"), "w"), indent=1)
print(len(units), "units")
