/* ====================================================================== */
/* Units of module reqx: the resend machinery and the request state machine of req.c (C12, C04, C03, C15, C02).
 *
 * HARNESS-BUILT STATE, CONSTANT ADDRESSES.  Socket, contexts, pipes (and, where a parameter may alias a
 * stored pointer, the aios) are STATIC objects of the harness with nondeterministic contents; the harness
 * links the intrusive lists in the shape named by the unit's defines and the contract states the same shape
 * as plain conditions.  Static objects have constant addresses, so every link the real list code follows is a
 * constant for cbmc's symbolic execution (with malloc'ed objects the same units did not finish in 600 s).
 */
#define CX(c) ((req0_ctx *) (c))
#define PX(p) ((req0_pipe *) (p))
#define P3 ((req0_pipe *) g_pp3)
#define CTX_OK(c) (OBJ_OK((c), struct req0_ctx) && DISTINCT((c), g_sock) && CX(c)->sock == SOCK)
#define PIPE_OK(p) (OBJ_OK((p), struct req0_pipe) && DISTINCT((p), g_sock) && PX(p)->req == SOCK && \
    PX(p)->contexts.ll_offset == offsetof(req0_ctx, pipe_node))
#define AIO_OPT(a) ((a) == NULL || __CPROVER_is_fresh((a), sizeof(nni_aio)))
#define MSG_OPT(m) ((m) == NULL || MSG_PRE(m))
/* a retained request as a harness object: only its reference count is ever touched by the functions that
 * use this form (the body is left nondeterministic; any access to it would fail the pointer checks) */
#define MSGOBJ_PRE(m) (OBJ_OK((m), struct nng_msg) && (m)->m_refcnt.v >= 1 && (m)->m_refcnt.v < 1000)
#define SOCK_PRE (OBJ_OK(g_sock, struct req0_sock) && REQ_SOCK_LISTS_OK(SOCK) && g_pollr_addr == &SOCK->readable && g_pollw_addr == &SOCK->writable && g_idm_addr == &SOCK->requests)
#define LIST_IS_THREE(l, n1, n2, n3)                                       \
	((l)->ll_head.ln_next == (n1) && (n1)->ln_next == (n2) && (n2)->ln_next == (n3) && (n3)->ln_next == L_HEAD(l) && \
	    (l)->ll_head.ln_prev == (n3) && (n3)->ln_prev == (n2) && (n2)->ln_prev == (n1) && (n1)->ln_prev == L_HEAD(l))
/* the id map entry of request id `id` (the tracked key stands for every key) */
#define IDM_TRACKS(id) ((id) != 0 && g_idm_key == (uint64_t) (id))
/* a context whose request is over / was never made: recv-before-send yields NNG_ESTATE (see req0_ctx_recv) */
#define CTX_IS_RESET(c) ((c)->request_id == 0 && (c)->req_msg == NULL && (c)->rep_msg == NULL && !(c)->conn_reset && \
    NODE_IDLE(&(c)->send_node) && NODE_IDLE(&(c)->pipe_node) && NODE_IDLE(&(c)->retry_node))

/* ====================================================================== */
/* req0_run_send_queue (C12 safety: clone and retry schedule iff retry is on; at most once on the wire otherwise;
 * C04/C12: after a (re)send the context is on the context list of exactly the pipe that now carries the request)
 * -DRS_SQ=n contexts C1,C2 wait on the send queue, -DRS_RP=m pipes P1,P2 are ready,
 * -DRS_RT=1: C1 is already on the retry schedule (a resend), 2: C1 and C2 are, 0: nobody is.
 * -DRS_PN=0: C1 is on no pipe's context list (first transmission), 1: C1 is on the list of a third pipe P3 that
 *  is busy (resend after the resend time elapsed), 2: C1 is on the list of the ready pipe P1 itself. */
#define RSQ_CTX_PRE(c) (CTX_OK(c) && \
    (CX(c)->send_aio == NULL || __CPROVER_is_fresh(CX(c)->send_aio, sizeof(nni_aio))) && \
    MSG_PRE(CX(c)->req_msg) && CX(c)->req_msg->m_refcnt.v < 1000)
#define RSQ_PIPE_PRE(p) (PIPE_OK(p))
/* what happens to context c sent on pipe p (the k-th pair), in the words of C12 */
#define RSQ_SENT(c, p)                                                                             \
	(NODE_IDLE(&(c)->send_node) && LIST_IS_ONE(&(p)->contexts, &(c)->pipe_node) && (c)->send_aio == NULL && \
	    (p)->aio_send.a_msg == (c)->req_msg && (c)->req_msg == OLD((c)->req_msg) &&                  \
	    /* retry on: one more reference stays with the context (clone); retry off: none is kept */ \
	    (c)->req_msg->m_refcnt.v == OLD((c)->req_msg->m_refcnt.v) + ((c)->req_retry > 0 ? 1 : 0))
#ifndef RS_PN
#define RS_PN 0
#endif
#ifndef RS_RT
#define RS_RT 0
#endif
static void req0_run_send_queue(req0_sock *s, nni_aio_completions *sent_list)
__CPROVER_requires(SOCK_PRE && s == SOCK)
__CPROVER_requires(sent_list == NULL || __CPROVER_is_fresh(sent_list, sizeof(*sent_list)))
#if RS_SQ == 0
__CPROVER_requires(LIST_IS_EMPTY(&SOCK->send_queue))
#elif RS_SQ == 1
__CPROVER_requires(RSQ_CTX_PRE(g_c1) && LIST_IS_ONE(&SOCK->send_queue, &C1->send_node))
#else
__CPROVER_requires(RSQ_CTX_PRE(g_c1) && RSQ_CTX_PRE(g_c2) && DISTINCT(g_c1, g_c2) && LIST_IS_TWO(&SOCK->send_queue, &C1->send_node, &C2->send_node) && NODE_IDLE(&C2->pipe_node))
#endif
#if RS_RP == 0
__CPROVER_requires(LIST_IS_EMPTY(&SOCK->ready_pipes))
#elif RS_RP == 1
__CPROVER_requires(RSQ_PIPE_PRE(g_p1) && LIST_IS_ONE(&SOCK->ready_pipes, &P1->node))
#else
__CPROVER_requires(RSQ_PIPE_PRE(g_p1) && RSQ_PIPE_PRE(g_p2) && DISTINCT(g_p1, g_p2) && LIST_IS_TWO(&SOCK->ready_pipes, &P1->node, &P2->node) && LIST_IS_EMPTY(&P2->contexts))
#endif
#if RS_SQ >= 1
#if RS_RT == 1
__CPROVER_requires(LIST_IS_ONE(&SOCK->retry_queue, &C1->retry_node) && C1->req_retry > 0)
#elif RS_RT == 2
__CPROVER_requires(LIST_IS_TWO(&SOCK->retry_queue, &C1->retry_node, &C2->retry_node) && C1->req_retry > 0 && C2->req_retry > 0)
#else
__CPROVER_requires(LIST_IS_EMPTY(&SOCK->retry_queue) && NODE_IDLE(&C1->retry_node))
#if RS_SQ == 2
__CPROVER_requires(NODE_IDLE(&C2->retry_node))
#endif
#endif
#else
__CPROVER_requires(LIST_IS_EMPTY(&SOCK->retry_queue))
#endif
/* where C1's pipe node is */
#if RS_SQ >= 1
#if RS_PN == 0
__CPROVER_requires(NODE_IDLE(&C1->pipe_node) && LIST_IS_EMPTY(&SOCK->busy_pipes))
#if RS_RP >= 1
__CPROVER_requires(LIST_IS_EMPTY(&P1->contexts))
#endif
#elif RS_PN == 1
__CPROVER_requires(PIPE_OK(g_pp3) && LIST_IS_ONE(&P3->contexts, &C1->pipe_node) && LIST_IS_ONE(&SOCK->busy_pipes, &P3->node))
#if RS_RP >= 1
__CPROVER_requires(DISTINCT(g_pp3, g_p1) && LIST_IS_EMPTY(&P1->contexts))
#endif
#if RS_RP == 2
__CPROVER_requires(DISTINCT(g_pp3, g_p2))
#endif
#else
__CPROVER_requires(LIST_IS_ONE(&P1->contexts, &C1->pipe_node) && LIST_IS_EMPTY(&SOCK->busy_pipes))
#endif
#else
__CPROVER_requires(LIST_IS_EMPTY(&SOCK->busy_pipes))
#if RS_RP >= 1
__CPROVER_requires(LIST_IS_EMPTY(&P1->contexts))
#endif
#endif
__CPROVER_assigns(SOCK->send_queue.ll_head, SOCK->ready_pipes.ll_head, SOCK->busy_pipes.ll_head, SOCK->retry_queue.ll_head, VP_PROTO_GHOST_LIST, VP_RR_GHOST_LIST, VPX_FIN_GHOSTS)
#if RS_SQ >= 1
__CPROVER_assigns(C1->send_node, C1->retry_node, C1->pipe_node, C1->send_aio, C1->req_msg->m_refcnt; C1->send_aio != NULL: C1->send_aio->a_count)
#if RS_PN == 1
__CPROVER_assigns(P3->contexts.ll_head, P3->node)
#endif
#endif
#if RS_SQ == 2
__CPROVER_assigns(C2->send_node, C2->retry_node, C2->pipe_node, C2->send_aio, C2->req_msg->m_refcnt; C2->send_aio != NULL: C2->send_aio->a_count)
#endif
#if RS_RP >= 1
__CPROVER_assigns(P1->node, P1->contexts.ll_head, P1->aio_send.a_msg)
#endif
#if RS_RP == 2
__CPROVER_assigns(P2->node, P2->contexts.ll_head, P2->aio_send.a_msg)
#endif
#if RS_SQ == 0 || RS_RP == 0
/* nothing to send or nowhere to send it: nothing happens (the request waits for a pipe) */
__CPROVER_ensures(g_pipe_send_calls == OLD(g_pipe_send_calls) && g_fin_calls == OLD(g_fin_calls) && g_rr.comp_added == OLD(g_rr.comp_added) && g_pollw == OLD(g_pollw))
#if RS_SQ == 1
__CPROVER_ensures(LIST_IS_ONE(&SOCK->send_queue, &C1->send_node) && C1->send_aio == OLD(C1->send_aio) && C1->req_msg->m_refcnt.v == OLD(C1->req_msg->m_refcnt.v))
#if RS_PN == 1
__CPROVER_ensures(LIST_IS_ONE(&P3->contexts, &C1->pipe_node) && LIST_IS_ONE(&SOCK->busy_pipes, &P3->node))
#endif
#endif
#if RS_SQ == 0 && RS_RP == 1
__CPROVER_ensures(LIST_IS_ONE(&SOCK->ready_pipes, &P1->node) && LIST_IS_EMPTY(&SOCK->send_queue) && LIST_IS_EMPTY(&SOCK->busy_pipes))
#endif
#else
/* first waiting context goes to the first ready pipe; it is on that pipe's context list and on no other's */
__CPROVER_ensures(RSQ_SENT(C1, P1))
#if RS_PN == 1
__CPROVER_ensures(LIST_IS_EMPTY(&P3->contexts))
#endif
/* retry on => on the retry schedule (exactly once); retry off => not on it */
#if RS_RT == 0
#if !(RS_SQ == 2 && RS_RP == 2)
__CPROVER_ensures(C1->req_retry > 0 ? LIST_IS_ONE(&SOCK->retry_queue, &C1->retry_node) : (LIST_IS_EMPTY(&SOCK->retry_queue) && NODE_IDLE(&C1->retry_node)))
#endif
#elif RS_RT == 1
__CPROVER_ensures(LIST_IS_ONE(&SOCK->retry_queue, &C1->retry_node))
#endif
/* the user's send completes (now or via the deferred list) exactly when this was the first transmission */
__CPROVER_ensures(OLD(C1->send_aio) != NULL ==> (OLD(C1->send_aio)->a_count == OLD(C1->send_aio->a_count) + C1->req_len))
#if RS_SQ == 1 || RS_RP == 1
__CPROVER_ensures(g_pipe_send_calls == OLD(g_pipe_send_calls) + 1 && g_pipe_send_pipe == P1->pipe && g_pipe_send_aio == &P1->aio_send && g_pipe_send_msg == C1->req_msg)
__CPROVER_ensures((OLD(C1->send_aio) != NULL && sent_list == NULL) ==> (g_fin_calls == OLD(g_fin_calls) + 1 && g_fin_last == OLD(C1->send_aio) && g_fin_last_rv == 0 && g_rr.comp_added == OLD(g_rr.comp_added)))
__CPROVER_ensures((OLD(C1->send_aio) != NULL && sent_list != NULL) ==> (g_fin_calls == OLD(g_fin_calls) && g_rr.comp_added == OLD(g_rr.comp_added) + 1 && g_rr.comp_last == OLD(C1->send_aio) && g_rr.comp_last_rv == 0))
__CPROVER_ensures(OLD(C1->send_aio) == NULL ==> (g_fin_calls == OLD(g_fin_calls) && g_rr.comp_added == OLD(g_rr.comp_added)))
#endif
/* the pipes: P1 is busy now (behind P3 if that was busy) */
#if RS_PN == 1
#define RSQ_BUSY1 LIST_IS_TWO(&SOCK->busy_pipes, &P3->node, &P1->node)
#define RSQ_BUSY2 LIST_IS_THREE(&SOCK->busy_pipes, &P3->node, &P1->node, &P2->node)
#else
#define RSQ_BUSY1 LIST_IS_ONE(&SOCK->busy_pipes, &P1->node)
#define RSQ_BUSY2 LIST_IS_TWO(&SOCK->busy_pipes, &P1->node, &P2->node)
#endif
#if RS_SQ == 1 && RS_RP == 1
__CPROVER_ensures(LIST_IS_EMPTY(&SOCK->send_queue) && LIST_IS_EMPTY(&SOCK->ready_pipes) && RSQ_BUSY1 && !g_pollw)
#elif RS_SQ == 1 && RS_RP == 2
__CPROVER_ensures(LIST_IS_EMPTY(&SOCK->send_queue) && LIST_IS_ONE(&SOCK->ready_pipes, &P2->node) && RSQ_BUSY1 && g_pollw == OLD(g_pollw) && LIST_IS_EMPTY(&P2->contexts))
#elif RS_SQ == 2 && RS_RP == 1
/* the second context keeps waiting, untouched */
__CPROVER_ensures(LIST_IS_ONE(&SOCK->send_queue, &C2->send_node) && LIST_IS_EMPTY(&SOCK->ready_pipes) && RSQ_BUSY1 && !g_pollw
    && C2->send_aio == OLD(C2->send_aio) && C2->req_msg->m_refcnt.v == OLD(C2->req_msg->m_refcnt.v) && NODE_IDLE(&C2->pipe_node))
#if RS_RT == 2
__CPROVER_ensures(LIST_IS_TWO(&SOCK->retry_queue, &C2->retry_node, &C1->retry_node))
#else
__CPROVER_ensures(NODE_IDLE(&C2->retry_node))
#endif
#else
/* second context to the second pipe, in order */
__CPROVER_ensures(RSQ_SENT(C2, P2) && LIST_IS_EMPTY(&SOCK->send_queue) && LIST_IS_EMPTY(&SOCK->ready_pipes) && RSQ_BUSY2 && !g_pollw
    && g_pipe_send_calls == OLD(g_pipe_send_calls) + 2 && g_pipe_send_pipe == P2->pipe && g_pipe_send_msg == C2->req_msg)
#if RS_RT == 0
__CPROVER_ensures((C1->req_retry > 0 && C2->req_retry > 0) ==> LIST_IS_TWO(&SOCK->retry_queue, &C1->retry_node, &C2->retry_node))
__CPROVER_ensures((C1->req_retry > 0 && C2->req_retry <= 0) ==> LIST_IS_ONE(&SOCK->retry_queue, &C1->retry_node))
__CPROVER_ensures((C1->req_retry <= 0 && C2->req_retry > 0) ==> LIST_IS_ONE(&SOCK->retry_queue, &C2->retry_node))
__CPROVER_ensures((C1->req_retry <= 0 && C2->req_retry <= 0) ==> LIST_IS_EMPTY(&SOCK->retry_queue))
__CPROVER_ensures(C2->req_retry <= 0 ==> NODE_IDLE(&C2->retry_node))
__CPROVER_ensures(C1->req_retry <= 0 ==> NODE_IDLE(&C1->retry_node))
#elif RS_RT == 2
__CPROVER_ensures(LIST_IS_TWO(&SOCK->retry_queue, &C1->retry_node, &C2->retry_node))
#endif
#endif
#endif
;

/* ====================================================================== */
/* req0_pipe_close (C12: re-queue on pipe close, NNG_ECONNRESET when resending is disabled; C04; C03; C15)
 * The closing pipe P (= arg).  -DPC_PN: where P sits: 0 on no list (never started), 1 on the ready list, 2 on the busy list.
 * -DPC_RP=1: another pipe P2 is ready.  -DPC_N=n contexts C1..Cn are on P's context list (requests last
 * written to P); -DPC_K1/-DPC_K2 say what kind of context each is:
 *   0 N0  resending disabled (req_retry <= 0, INCLUDING NNG_DURATION_INFINITE = -1), request already answered
 *   1 N2  resending disabled, request outstanding (ctx->req_msg dangles: the only reference went to the pipe)
 *   2 R0  resending enabled (req_retry > 0), request already answered
 *   3 R1  resending enabled, request outstanding (retained clone), not waiting on the send queue
 *   4 R1Q resending enabled, request outstanding, already waiting on the send queue (resend time elapsed before) */
#define PCP ((req0_pipe *) arg)
#define K_N0 0
#define K_N2 1
#define K_R0 2
#define K_R1 3
#define K_R1Q 4
#define K_IS_R(k) ((k) >= 2)
#define PC_KPRE_0(c) (CTX_OK(c) && (c)->req_retry <= 0 && (c)->req_msg == NULL && (c)->request_id == 0 && (c)->send_aio == NULL && (c)->recv_aio == NULL && MSG_OPT((c)->rep_msg) && NODE_IDLE(&(c)->send_node) && NODE_IDLE(&(c)->retry_node))
#define PC_KPRE_1(c) (CTX_OK(c) && (c)->req_retry <= 0 && (c)->req_msg != NULL && (c)->request_id >= 0x80000000u && (c)->send_aio == NULL && AIO_OPT((c)->recv_aio) && (c)->rep_msg == NULL && NODE_IDLE(&(c)->send_node) && NODE_IDLE(&(c)->retry_node))
#define PC_KPRE_2(c) (CTX_OK(c) && (c)->req_retry > 0 && (c)->req_msg == NULL && (c)->request_id == 0 && (c)->send_aio == NULL && (c)->recv_aio == NULL && MSG_OPT((c)->rep_msg) && NODE_IDLE(&(c)->send_node))
#define PC_KPRE_3(c) (CTX_OK(c) && (c)->req_retry > 0 && (c)->request_id >= 0x80000000u && (c)->send_aio == NULL && AIO_OPT((c)->recv_aio) && (c)->rep_msg == NULL && MSGOBJ_PRE((c)->req_msg) && NODE_IDLE(&(c)->send_node))
#define PC_KPRE_4(c) (CTX_OK(c) && (c)->req_retry > 0 && (c)->request_id >= 0x80000000u && (c)->send_aio == NULL && AIO_OPT((c)->recv_aio) && (c)->rep_msg == NULL && MSGOBJ_PRE((c)->req_msg))
#define PC_KPRE_(k, c) PC_KPRE_##k(c)
#define PC_KPRE(k, c) PC_KPRE_(k, c)
/* --- what the property says happens to a context of each kind --- */
/* answered (either mode): only taken off the pipe's list; the stored reply, the state machine and the map are untouched */
#define PC_KPOST_ANSWERED(c) \
	__CPROVER_ensures(NODE_IDLE(&(c)->pipe_node) && NODE_IDLE(&(c)->send_node) && (c)->req_msg == NULL && (c)->request_id == 0 && (c)->recv_aio == NULL && (c)->send_aio == NULL) \
	__CPROVER_ensures((c)->rep_msg == OLD((c)->rep_msg) && (c)->conn_reset == OLD((c)->conn_reset) && (c)->retry_time == OLD((c)->retry_time))
#define PC_KPOST_0(c) PC_KPOST_ANSWERED(c) __CPROVER_ensures(NODE_IDLE(&(c)->retry_node))
#define PC_KPOST_2(c) PC_KPOST_ANSWERED(c)
/* resending disabled, outstanding: the request is over.  A pending receive fails with NNG_ECONNRESET, once;
 * otherwise the reset is latched for the next receive.  The id leaves the map (a late reply cannot match),
 * nothing is freed (the context kept no reference), the context is on no list. */
#define PC_KPOST_1(c) \
	__CPROVER_ensures(NODE_IDLE(&(c)->pipe_node) && NODE_IDLE(&(c)->send_node) && NODE_IDLE(&(c)->retry_node) && (c)->request_id == 0 && (c)->req_msg == NULL && (c)->rep_msg == NULL && (c)->recv_aio == NULL && (c)->send_aio == NULL) \
	__CPROVER_ensures(IDM_TRACKS(OLD((c)->request_id)) ==> !g_rr.idm_has) \
	__CPROVER_ensures(OLD((c)->recv_aio) != NULL ==> (g_fin_calls == OLD(g_fin_calls) + 1 && g_fin_last == OLD((c)->recv_aio) && g_fin_last_rv == NNG_ECONNRESET && !(c)->conn_reset)) \
	__CPROVER_ensures(OLD((c)->recv_aio) == NULL ==> (g_fin_calls == OLD(g_fin_calls) && (c)->conn_reset))
/* resending enabled, outstanding: the request lives on: same id (still in the map), same retained copy,
 * a pending receive keeps waiting; the resend deadline restarts */
#define PC_KPOST_LIVES(c) \
	__CPROVER_ensures((c)->request_id == OLD((c)->request_id) && (c)->req_msg == OLD((c)->req_msg) && (c)->recv_aio == OLD((c)->recv_aio) && (c)->rep_msg == NULL && (c)->conn_reset == OLD((c)->conn_reset)) \
	__CPROVER_ensures((c)->retry_time == g_now + (nni_time) (c)->req_retry) \
	__CPROVER_ensures(IDM_TRACKS((c)->request_id) ==> (g_rr.idm_has == OLD(g_rr.idm_has) && g_rr.idm_val == OLD(g_rr.idm_val)))
#define PC_KPOST_3(c) PC_KPOST_LIVES(c)
#define PC_KPOST_4(c) PC_KPOST_LIVES(c)
#define PC_KPOST_(k, c) PC_KPOST_##k(c)
#define PC_KPOST(k, c) PC_KPOST_(k, c)
/* assigns: what the code may touch of a context of each kind (the postconditions say what it must NOT change) */
#define PC_KASG_BASE(c) __CPROVER_assigns((c)->pipe_node, (c)->send_node, (c)->retry_node, (c)->request_id, (c)->req_msg, (c)->rep_msg, (c)->recv_aio, (c)->send_aio, (c)->conn_reset, (c)->retry_time)
#define PC_KASG_REP(c) __CPROVER_assigns((c)->rep_msg != NULL: *((c)->rep_msg)) __CPROVER_frees((c)->rep_msg != NULL: (c)->rep_msg, (c)->rep_msg->m_body.ch_buf)
#define PC_KASG_0(c) PC_KASG_BASE(c) PC_KASG_REP(c)
#define PC_KASG_1(c) PC_KASG_BASE(c)
#define PC_KASG_2(c) PC_KASG_BASE(c)
#define PC_KASG_3(c) PC_KASG_BASE(c) __CPROVER_assigns((c)->req_msg->m_refcnt)
#define PC_KASG_4(c) PC_KASG_BASE(c) __CPROVER_assigns((c)->req_msg->m_refcnt)
#define PC_KASG_(k, c) PC_KASG_##k(c)
#define PC_KASG(k, c) PC_KASG_(k, c)
#ifndef PC_N
#define PC_N 0
#endif
#ifndef PC_PN
#define PC_PN 0
#endif
#ifndef PC_RP
#define PC_RP 0
#endif
#ifndef PC_K1
#define PC_K1 0
#endif
#ifndef PC_K2
#define PC_K2 0
#endif
#define PC_R1 (PC_N >= 1 && K_IS_R(PC_K1))
#define PC_R2 (PC_N >= 2 && K_IS_R(PC_K2))
#define PC_Q1 (PC_N >= 1 && PC_K1 == K_R1Q)
#define PC_Q2 (PC_N >= 2 && PC_K2 == K_R1Q)
/* re-queued by this call (outstanding, resend on, not queued before) */
#define PC_RQ1 (PC_N >= 1 && PC_K1 == K_R1)
#define PC_RQ2 (PC_N >= 2 && PC_K2 == K_R1)
#define LIST_BY(l, in1, n1, in2, n2) (((in1) && (in2)) ? LIST_IS_TWO(l, n1, n2) : (in1) ? LIST_IS_ONE(l, n1) : (in2) ? LIST_IS_ONE(l, n2) : LIST_IS_EMPTY(l))
static void req0_pipe_close(void *arg)
__CPROVER_requires(SOCK_PRE && PIPE_OK(arg) && VP_NO_LOCK_HELD)
__CPROVER_requires(LIST_IS_EMPTY(&SOCK->stop_pipes))
#if PC_RP == 1
__CPROVER_requires(PIPE_OK(g_p2) && DISTINCT(g_p2, arg) && LIST_IS_EMPTY(&P2->contexts))
#endif
#if PC_PN == 0
__CPROVER_requires(NODE_IDLE(&PCP->node) && LIST_IS_EMPTY(&SOCK->busy_pipes))
#if PC_RP == 1
__CPROVER_requires(LIST_IS_ONE(&SOCK->ready_pipes, &P2->node))
#else
__CPROVER_requires(LIST_IS_EMPTY(&SOCK->ready_pipes))
#endif
#elif PC_PN == 1
__CPROVER_requires(LIST_IS_EMPTY(&SOCK->busy_pipes))
#if PC_RP == 1
__CPROVER_requires(LIST_IS_TWO(&SOCK->ready_pipes, &PCP->node, &P2->node))
#else
__CPROVER_requires(LIST_IS_ONE(&SOCK->ready_pipes, &PCP->node))
#endif
#else
__CPROVER_requires(LIST_IS_ONE(&SOCK->busy_pipes, &PCP->node))
#if PC_RP == 1
__CPROVER_requires(LIST_IS_ONE(&SOCK->ready_pipes, &P2->node))
#else
__CPROVER_requires(LIST_IS_EMPTY(&SOCK->ready_pipes))
#endif
#endif
#if PC_N == 0
__CPROVER_requires(LIST_IS_EMPTY(&PCP->contexts))
#elif PC_N == 1
__CPROVER_requires(PC_KPRE(PC_K1, C1) && LIST_IS_ONE(&PCP->contexts, &C1->pipe_node))
#else
__CPROVER_requires(PC_KPRE(PC_K1, C1))
__CPROVER_requires(PC_KPRE(PC_K2, C2))
__CPROVER_requires(DISTINCT(g_c1, g_c2) && LIST_IS_TWO(&PCP->contexts, &C1->pipe_node, &C2->pipe_node) && C1->request_id != C2->request_id)
#endif
/* the retry schedule holds exactly the contexts with resending enabled, the send queue those already waiting */
__CPROVER_requires(LIST_BY(&SOCK->retry_queue, PC_R1, &C1->retry_node, PC_R2, &C2->retry_node))
__CPROVER_requires(LIST_BY(&SOCK->send_queue, PC_Q1, &C1->send_node, PC_Q2, &C2->send_node))
__CPROVER_assigns(PCP->closed, PCP->node, PCP->contexts.ll_head, SOCK->stop_pipes.ll_head, SOCK->ready_pipes.ll_head, SOCK->busy_pipes.ll_head, SOCK->send_queue.ll_head, SOCK->retry_queue.ll_head, VP_PROTO_GHOST_LIST, VP_RR_GHOST_LIST, VP_SYNC_GHOSTS, g_free_calls, VPX_FIN_GHOSTS)
#if PC_RP == 1
__CPROVER_assigns(P2->node, P2->contexts.ll_head, P2->aio_send.a_msg)
#endif
#if PC_N >= 1
PC_KASG(PC_K1, C1)
#endif
#if PC_N >= 2
PC_KASG(PC_K2, C2)
#endif
/* the pipe: marked closed, parked on the stop list, no longer ready or busy; both its aios are closed */
__CPROVER_ensures(VP_NO_LOCK_HELD && PCP->closed && LIST_IS_ONE(&SOCK->stop_pipes, &PCP->node) && LIST_IS_EMPTY(&PCP->contexts))
__CPROVER_ensures(g_aio_close_calls == OLD(g_aio_close_calls) + 2 && g_pipe_close_calls == OLD(g_pipe_close_calls) && g_start_calls == OLD(g_start_calls) && g_rr.sleep_calls == OLD(g_rr.sleep_calls) && g_rr.comp_added == OLD(g_rr.comp_added))
/* nothing is released by a pipe going away: retained requests live on, stored replies stay stored */
__CPROVER_ensures(g_free_calls == OLD(g_free_calls))
/* C15: not writable once no pipe is ready */
__CPROVER_ensures(LIST_IS_EMPTY(&SOCK->ready_pipes) ? !g_pollw : g_pollw == OLD(g_pollw))
#if PC_N >= 1
PC_KPOST(PC_K1, C1)
#endif
#if PC_N >= 2
PC_KPOST(PC_K2, C2)
#endif
#if PC_N <= 1 || !(PC_K1 == K_N2 && PC_K2 == K_N2)
#if !(PC_N >= 1 && PC_K1 == K_N2) && !(PC_N >= 2 && PC_K2 == K_N2)
__CPROVER_ensures(g_fin_calls == OLD(g_fin_calls))
#endif
#endif
/* ---- where the re-queued requests are afterwards ---- */
#if PC_RP == 0
/* no pipe is ready: every outstanding request with resending enabled waits on the send queue, once, in order;
 * nothing goes on the wire; the retry schedule is as before */
__CPROVER_ensures(g_pipe_send_calls == OLD(g_pipe_send_calls) && LIST_IS_EMPTY(&SOCK->ready_pipes) && LIST_IS_EMPTY(&SOCK->busy_pipes))
#if PC_Q2 && PC_RQ1
/* (the one that was waiting already stays ahead of the one re-queued now) */
__CPROVER_ensures(LIST_IS_TWO(&SOCK->send_queue, &C2->send_node, &C1->send_node))
#else
__CPROVER_ensures(LIST_BY(&SOCK->send_queue, (PC_Q1 || PC_RQ1), &C1->send_node, (PC_Q2 || PC_RQ2), &C2->send_node))
#endif
__CPROVER_ensures(LIST_BY(&SOCK->retry_queue, PC_R1, &C1->retry_node, PC_R2, &C2->retry_node))
#if PC_N >= 1 && PC_K1 >= K_R1
__CPROVER_ensures(NODE_IDLE(&C1->pipe_node) && C1->req_msg->m_refcnt.v == OLD(C1->req_msg->m_refcnt.v))
#endif
#if PC_N >= 2 && PC_K2 >= K_R1
__CPROVER_ensures(NODE_IDLE(&C2->pipe_node) && C2->req_msg->m_refcnt.v == OLD(C2->req_msg->m_refcnt.v))
#endif
#else
/* another pipe P2 is ready (so nobody was waiting on the send queue): the first re-queued request goes out on
 * P2 at once (it is now on P2's context list and on no other), a second one waits on the send queue */
#if PC_RQ1 || PC_RQ2
#if PC_RQ1
#define PC_FIRST C1
#else
#define PC_FIRST C2
#endif
__CPROVER_ensures(g_pipe_send_calls == OLD(g_pipe_send_calls) + 1 && g_pipe_send_pipe == P2->pipe && g_pipe_send_aio == &P2->aio_send && g_pipe_send_msg == PC_FIRST->req_msg)
__CPROVER_ensures(LIST_IS_ONE(&P2->contexts, &PC_FIRST->pipe_node) && NODE_IDLE(&PC_FIRST->send_node) && P2->aio_send.a_msg == PC_FIRST->req_msg && PC_FIRST->req_msg->m_refcnt.v == OLD(PC_FIRST->req_msg->m_refcnt.v) + 1)
__CPROVER_ensures(LIST_IS_EMPTY(&SOCK->ready_pipes) && LIST_IS_ONE(&SOCK->busy_pipes, &P2->node))
#if PC_RQ1 && PC_RQ2
__CPROVER_ensures(LIST_IS_ONE(&SOCK->send_queue, &C2->send_node) && NODE_IDLE(&C2->pipe_node) && C2->req_msg->m_refcnt.v == OLD(C2->req_msg->m_refcnt.v))
__CPROVER_ensures(LIST_IS_TWO(&SOCK->retry_queue, &C2->retry_node, &C1->retry_node))
#else
__CPROVER_ensures(LIST_IS_EMPTY(&SOCK->send_queue))
#endif
#else
__CPROVER_ensures(g_pipe_send_calls == OLD(g_pipe_send_calls) && LIST_IS_ONE(&SOCK->ready_pipes, &P2->node) && LIST_IS_EMPTY(&SOCK->busy_pipes) && LIST_IS_EMPTY(&P2->contexts))
__CPROVER_ensures(LIST_BY(&SOCK->send_queue, PC_Q1, &C1->send_node, PC_Q2, &C2->send_node))
__CPROVER_ensures(LIST_BY(&SOCK->retry_queue, PC_R1, &C1->retry_node, PC_R2, &C2->retry_node))
#endif
#endif
;

/* ====================================================================== */
/* The state of ONE context C1 as the request state machine leaves it, built by the harness (vp_ctx_state):
 * -DX_ST=0 idle: no request (never made / cancelled / answered and received); on no list
 *        1 send pending: the request waits for a pipe: send_aio set, req_msg held for the caller, on the send
 *          queue; on the retry schedule iff resending is enabled (-DX_RT=1 <=> req_retry > 0)
 *        2 outstanding: the request went out on pipe P3 (C1 is on P3's context list); send_aio == NULL;
 *          -DX_RM=1: retained copy owned by the context (resending enabled: on the retry schedule),
 *          -DX_RM=2: not retained (resending disabled: ctx->req_msg dangles, not on the retry schedule);
 *          -DX_SQ=1: additionally waiting on the send queue for a resend (only with X_RM=1)
 *        3 answered, reply stored (rep_msg set, req_msg == NULL, id released); still on P3's list and, with
 *          -DX_RT=1, on the retry schedule (req0_recv_cb leaves both)
 * -DX_RA: the pending receive: 0 none, 1 the aio passed to the function under test, 2 another aio
 * -DX_SA: (X_ST=1) the pending send: 1 the aio passed to the function under test, 2 another aio
 * -DREQ_CM=1: C1 is the socket's own context. */
#ifndef X_ST
#define X_ST 0
#endif
#ifndef X_RT
#define X_RT 0
#endif
#ifndef X_RM
#define X_RM 1
#endif
#ifndef X_SQ
#define X_SQ 0
#endif
#ifndef X_RA
#define X_RA 0
#endif
#ifndef X_SA
#define X_SA 2
#endif
#define X_ON_RETRY ((X_ST == 1 && X_RT == 1) || (X_ST == 2 && X_RM == 1) || (X_ST == 3 && X_RT == 1))
#define X_ON_SENDQ (X_ST == 1 || (X_ST == 2 && X_SQ == 1))
#define X_ON_PIPE (X_ST == 2 || X_ST == 3)
#define AIO_A ((nni_aio *) g_aio1)
#define AIO_B ((nni_aio *) g_aio2)
#define AIO_C ((nni_aio *) g_aio3)
#define X_AIOS_PRE (OBJ_OK(g_aio1, nni_aio) && OBJ_OK(g_aio2, nni_aio) && OBJ_OK(g_aio3, nni_aio) && DISTINCT(g_aio1, g_aio2) && DISTINCT(g_aio1, g_aio3) && DISTINCT(g_aio2, g_aio3))
#define X_RECV_AIO_PRE (C1->recv_aio == (X_RA == 0 ? NULL : X_RA == 1 ? AIO_A : AIO_C))
#define X_SEND_AIO_PRE (C1->send_aio == (X_ST != 1 ? NULL : X_SA == 1 ? AIO_A : AIO_B))
#define X_LISTS_PRE                                                                                 \
	((X_ON_RETRY ? LIST_IS_ONE(&SOCK->retry_queue, &C1->retry_node) : (LIST_IS_EMPTY(&SOCK->retry_queue) && NODE_IDLE(&C1->retry_node))) && \
	    (X_ON_SENDQ ? LIST_IS_ONE(&SOCK->send_queue, &C1->send_node) : (LIST_IS_EMPTY(&SOCK->send_queue) && NODE_IDLE(&C1->send_node))) && \
	    (X_ON_PIPE ? (PIPE_OK(g_pp3) && LIST_IS_ONE(&P3->contexts, &C1->pipe_node)) : NODE_IDLE(&C1->pipe_node)))
/* scalar part of each state */
#if X_ST == 0
#define X_STATE_PRE (C1->req_msg == NULL && C1->request_id == 0)
#define X_MSGS_PRE (MSG_OPT(C1->rep_msg))
#elif X_ST == 1
#define X_STATE_PRE (C1->rep_msg == NULL && C1->request_id >= 0x80000000u && (X_RT ? C1->req_retry > 0 : C1->req_retry <= 0) && MSGOBJ_PRE(C1->req_msg) && C1->req_msg->m_header_len <= MSG_HDRCAP)
#define X_MSGS_PRE (1)
#elif X_ST == 2 && X_RM == 1
#define X_STATE_PRE (C1->rep_msg == NULL && C1->request_id >= 0x80000000u && C1->req_retry > 0)
#define X_MSGS_PRE (MSG_PRE(C1->req_msg) && C1->req_msg->m_refcnt.v < 1000)
#elif X_ST == 2
#define X_STATE_PRE (C1->rep_msg == NULL && C1->request_id >= 0x80000000u && C1->req_retry <= 0 && C1->req_msg != NULL)
#define X_MSGS_PRE (1)
#else
#define X_STATE_PRE (C1->req_msg == NULL && C1->request_id == 0 && (X_RT ? C1->req_retry > 0 : C1->req_retry <= 0))
#define X_MSGS_PRE (MSG_PRE(C1->rep_msg))
#endif
#define X_CTX_PRE (SOCK_PRE && Q_C1_PRE && X_AIOS_PRE && X_RECV_AIO_PRE && X_SEND_AIO_PRE && X_LISTS_PRE && X_STATE_PRE)
#define X_CTX_ASSIGNS C1->send_node, C1->pipe_node, C1->retry_node, C1->request_id, C1->req_msg, C1->rep_msg, C1->recv_aio, C1->send_aio, C1->conn_reset, \
    SOCK->send_queue.ll_head, SOCK->retry_queue.ll_head, VP_PROTO_GHOST_LIST, VP_RR_GHOST_LIST, VP_SYNC_GHOSTS, VPX_FIN_GHOSTS, g_free_calls
/* what req0_ctx_reset may release: the retained copy (owned only) and a stored reply */
#if X_ST == 2 && X_RM == 1
#define X_RESET_FREES __CPROVER_assigns(*(C1->req_msg)) __CPROVER_frees(C1->req_msg, C1->req_msg->m_body.ch_buf)
#elif X_ST == 3
#define X_RESET_FREES __CPROVER_assigns(*(C1->rep_msg)) __CPROVER_frees(C1->rep_msg, C1->rep_msg->m_body.ch_buf)
#elif X_ST == 0
#define X_RESET_FREES __CPROVER_assigns(C1->rep_msg != NULL: *(C1->rep_msg)) __CPROVER_frees(C1->rep_msg != NULL: C1->rep_msg, C1->rep_msg->m_body.ch_buf)
#else
#define X_RESET_FREES
#endif
#if X_ON_PIPE
#define X_PIPE_ASSIGNS __CPROVER_assigns(P3->contexts.ll_head)
#define X_OFF_PIPE (LIST_IS_EMPTY(&P3->contexts))
#define X_STILL_ON_PIPE (LIST_IS_ONE(&P3->contexts, &C1->pipe_node))
#else
#define X_PIPE_ASSIGNS
#define X_OFF_PIPE (1)
#define X_STILL_ON_PIPE (NODE_IDLE(&C1->pipe_node))
#endif
/* the request is gone (C04 state reset): id released (a late reply cannot match any more), no retained copy,
 * no stored reply, on no list, nothing latched: a receive now yields NNG_ESTATE */
#define X_DISCARDED (CTX_IS_RESET(C1) && C1->send_aio == NULL && LIST_IS_EMPTY(&SOCK->send_queue) && LIST_IS_EMPTY(&SOCK->retry_queue) && X_OFF_PIPE)
#define X_ID_RELEASED (IDM_TRACKS(OLD(C1->request_id)) ==> !g_rr.idm_has)
/* ownership of what the discarded request held (C03): the retained copy is released exactly once iff owned */
#if X_ST == 2 && X_RM == 1
#define X_DISCARD_HEAP \
	__CPROVER_ensures(OLD(C1->req_msg->m_refcnt.v) > 1 ==> (OLD(C1->req_msg)->m_refcnt.v == OLD(C1->req_msg->m_refcnt.v) - 1 && g_free_calls == OLD(g_free_calls))) \
	__CPROVER_ensures(OLD(C1->req_msg->m_refcnt.v) == 1 ==> (__CPROVER_was_freed(OLD(C1->req_msg)) && g_free_calls == OLD(g_free_calls) + 2))
#elif X_ST == 3
#define X_DISCARD_HEAP \
	__CPROVER_ensures(OLD(C1->rep_msg->m_refcnt.v) > 1 ==> (OLD(C1->rep_msg)->m_refcnt.v == OLD(C1->rep_msg->m_refcnt.v) - 1 && g_free_calls == OLD(g_free_calls))) \
	__CPROVER_ensures(OLD(C1->rep_msg->m_refcnt.v) == 1 ==> (__CPROVER_was_freed(OLD(C1->rep_msg)) && g_free_calls == OLD(g_free_calls) + 2))
#elif X_ST == 0
#define X_DISCARD_HEAP \
	__CPROVER_ensures(OLD(C1->rep_msg) == NULL ==> g_free_calls == OLD(g_free_calls))
#else
#define X_DISCARD_HEAP __CPROVER_ensures(g_free_calls == OLD(g_free_calls))
#endif
/* nothing at all changes (a stale cancellation) */
#define X_UNCHANGED \
	(C1->request_id == OLD(C1->request_id) && C1->req_msg == OLD(C1->req_msg) && C1->rep_msg == OLD(C1->rep_msg) && C1->recv_aio == OLD(C1->recv_aio) && C1->send_aio == OLD(C1->send_aio) && \
	    C1->conn_reset == OLD(C1->conn_reset) && X_LISTS_PRE && g_fin_calls == OLD(g_fin_calls) && g_free_calls == OLD(g_free_calls) && \
	    g_rr.idm_has == OLD(g_rr.idm_has) && g_rr.idm_remove_calls == OLD(g_rr.idm_remove_calls) && g_rr.idm_other_ops == OLD(g_rr.idm_other_ops) && g_pollr == OLD(g_pollr) && g_pollw == OLD(g_pollw))

/* ====================================================================== */
/* req0_ctx_cancel_recv (C04: cancelling a pending receive discards the outstanding request; C02: exactly that
 * aio completes, once, with the given error; C03) */
static void req0_ctx_cancel_recv(nni_aio *aio, void *arg, nng_err rv)
__CPROVER_requires(X_CTX_PRE && arg == g_c1 && aio == AIO_A && VP_NO_LOCK_HELD)
__CPROVER_requires(X_MSGS_PRE)
__CPROVER_assigns(X_CTX_ASSIGNS)
X_RESET_FREES
X_PIPE_ASSIGNS
#if X_ST == 1
__CPROVER_assigns(C1->send_aio->a_msg, C1->req_msg->m_header_len)
#endif
__CPROVER_ensures(VP_NO_LOCK_HELD && g_start_calls == OLD(g_start_calls) && g_pipe_send_calls == OLD(g_pipe_send_calls) && g_pipe_close_calls == OLD(g_pipe_close_calls))
#if X_RA == 1
/* the aio IS the pending receive: it completes now, once, with rv; the request is discarded */
__CPROVER_ensures(g_fin_last == aio && g_fin_last_rv == (int) rv && C1->recv_aio == NULL)
__CPROVER_ensures(X_DISCARDED)
__CPROVER_ensures(X_ID_RELEASED)
#if X_ST == 1
/* the request had not left yet: the pending send fails with NNG_ECANCELED and gets its message back (bare) */
__CPROVER_ensures(g_fin_calls == OLD(g_fin_calls) + 2 && g_fin_prev == OLD(C1->send_aio) && g_fin_prev_rv == NNG_ECANCELED && g_fin_prev_msg == OLD(C1->req_msg))
__CPROVER_ensures(OLD(C1->send_aio)->a_msg == OLD(C1->req_msg) && OLD(C1->req_msg)->m_header_len == 0 && OLD(C1->req_msg)->m_refcnt.v == OLD(C1->req_msg->m_refcnt.v))
#else
__CPROVER_ensures(g_fin_calls == OLD(g_fin_calls) + 1)
#endif
X_DISCARD_HEAP
#elif !defined(X_STALE_SPEC)
/* the aio is NOT the pending receive (it completed or was superseded in the meantime).  As the code stands: a
 * request still waiting for a pipe is cancelled all the same (see not_decided / observations in spec.json) */
#if X_ST == 1
__CPROVER_ensures(g_fin_calls == OLD(g_fin_calls) + 1 && g_fin_last == OLD(C1->send_aio) && g_fin_last_rv == NNG_ECANCELED && g_fin_last_msg == OLD(C1->req_msg) && C1->send_aio == NULL && C1->req_msg == NULL)
__CPROVER_ensures(OLD(C1->send_aio)->a_msg == OLD(C1->req_msg) && OLD(C1->req_msg)->m_header_len == 0 && OLD(C1->req_msg)->m_refcnt.v == OLD(C1->req_msg->m_refcnt.v) && g_free_calls == OLD(g_free_calls))
__CPROVER_ensures(C1->recv_aio == OLD(C1->recv_aio) && LIST_IS_EMPTY(&SOCK->send_queue) && NODE_IDLE(&C1->send_node))
#else
__CPROVER_ensures(X_UNCHANGED)
#endif
#else
/* the aio is NOT the pending receive: a stale cancellation changes nothing */
__CPROVER_ensures(X_UNCHANGED)
#endif
;

/* ====================================================================== */
/* req0_ctx_cancel_send (C03: the message goes back to the caller with the aio; C02: exactly that aio completes
 * once with the given error; C04: the request is discarded, and no receive is left waiting for its reply) */
static void req0_ctx_cancel_send(nni_aio *aio, void *arg, nng_err rv)
__CPROVER_requires(X_CTX_PRE && arg == g_c1 && aio == AIO_A && VP_NO_LOCK_HELD)
__CPROVER_requires(X_MSGS_PRE)
__CPROVER_assigns(X_CTX_ASSIGNS)
X_RESET_FREES
X_PIPE_ASSIGNS
#if X_ST == 1
__CPROVER_assigns(C1->send_aio->a_msg, C1->req_msg->m_header_len)
#endif
__CPROVER_ensures(VP_NO_LOCK_HELD && g_start_calls == OLD(g_start_calls) && g_pipe_send_calls == OLD(g_pipe_send_calls) && g_pipe_close_calls == OLD(g_pipe_close_calls))
#if X_ST == 1 && X_SA == 1
__CPROVER_ensures(g_fin_last == aio && g_fin_last_rv == (int) rv && g_fin_last_msg == OLD(C1->req_msg))
/* the message is the caller's again: attached to the aio, bare (no request id header), not released */
__CPROVER_ensures(aio->a_msg == OLD(C1->req_msg) && aio->a_msg->m_header_len == 0 && aio->a_msg->m_refcnt.v == OLD(C1->req_msg->m_refcnt.v) && g_free_calls == OLD(g_free_calls))
__CPROVER_ensures(X_DISCARDED)
__CPROVER_ensures(X_ID_RELEASED)
#if X_RA == 0
__CPROVER_ensures(g_fin_calls == OLD(g_fin_calls) + 1 && C1->recv_aio == NULL)
#else
/* a receive started before the send completed waits for the reply of the request that is now gone: it must
 * not be left pending; it fails with NNG_ECANCELED (as when a new request supersedes it), once */
__CPROVER_ensures(g_fin_calls == OLD(g_fin_calls) + 2 && C1->recv_aio == NULL && g_fin_prev == OLD(C1->recv_aio) && g_fin_prev_rv == NNG_ECANCELED)
#endif
#else
__CPROVER_ensures(X_UNCHANGED)
#endif
;

/* ====================================================================== */
/* req0_retry_cb (C12: tick timer scanning the retry schedule).  Every context whose resend deadline has passed and
 * that still has a request is put on the send queue (once) and the queue is run; the tick timer is re-armed iff
 * somebody is still on the retry schedule, and `retry_active` says exactly whether it is armed (so that the next
 * request re-arms it).  -DRT_N=n contexts C1..Cn on the retry schedule (0..2); -DRT_RP=1: a pipe P1 is ready;
 * -DRT_Q1=1: C1 already waits on the send queue; -DRT_DUE1/-DRT_DUE2: -1 deadline and request symbolic (only
 * with RT_RP=0), 1 due (request outstanding, deadline == now), 0 not due (deadline == now + 1).  Outstanding
 * contexts are on the context list of a busy pipe P3. */
#ifndef RT_N
#define RT_N 0
#endif
#ifndef RT_RP
#define RT_RP 0
#endif
#ifndef RT_Q1
#define RT_Q1 0
#endif
#ifndef RT_DUE1
#define RT_DUE1 (-1)
#endif
#ifndef RT_DUE2
#define RT_DUE2 (-1)
#endif
#define RT_S ((req0_sock *) arg)
#define RT_RUNS (!OLD(RT_S->closed) && RT_S->retry_aio.a_result == 0)
#define RT_DUE(c) ((c)->retry_time <= g_now && (c)->req_msg != NULL)
#define RT_CTX_PRE(c) (CTX_OK(c) && (c)->req_retry > 0 && (c)->send_aio == NULL && ((c)->req_msg == NULL || MSGOBJ_PRE((c)->req_msg)))
static void req0_retry_cb(void *arg)
__CPROVER_requires(SOCK_PRE && arg == g_sock && VP_NO_LOCK_HELD)
/* the callback runs because the timer was armed, and whoever arms it sets the flag (req0_ctx_send) */
__CPROVER_requires(SOCK->retry_active)
#if RT_N == 0
__CPROVER_requires(LIST_IS_EMPTY(&SOCK->retry_queue) && LIST_IS_EMPTY(&SOCK->send_queue))
#elif RT_N == 1
__CPROVER_requires(RT_CTX_PRE(C1) && LIST_IS_ONE(&SOCK->retry_queue, &C1->retry_node))
#else
__CPROVER_requires(RT_CTX_PRE(C1) && RT_CTX_PRE(C2) && DISTINCT(g_c1, g_c2) && LIST_IS_TWO(&SOCK->retry_queue, &C1->retry_node, &C2->retry_node) && NODE_IDLE(&C2->send_node) && NODE_IDLE(&C2->pipe_node))
#endif
#if RT_N >= 1
#if RT_Q1 == 1
__CPROVER_requires(LIST_IS_ONE(&SOCK->send_queue, &C1->send_node))
#else
__CPROVER_requires(LIST_IS_EMPTY(&SOCK->send_queue) && NODE_IDLE(&C1->send_node))
#endif
__CPROVER_requires(PIPE_OK(g_pp3) && LIST_IS_ONE(&SOCK->busy_pipes, &P3->node) && LIST_IS_ONE(&P3->contexts, &C1->pipe_node))
#if RT_DUE1 == 1
__CPROVER_requires(C1->req_msg != NULL && C1->retry_time == g_now)
#elif RT_DUE1 == 0
__CPROVER_requires(C1->retry_time == g_now + 1 && g_now < 0xffffffffffffULL)
#endif
#if RT_N == 2 && RT_DUE2 == 1
__CPROVER_requires(C2->req_msg != NULL && C2->retry_time == g_now)
#elif RT_N == 2 && RT_DUE2 == 0
__CPROVER_requires(C2->retry_time == g_now + 1 && g_now < 0xffffffffffffULL)
#endif
#else
__CPROVER_requires(LIST_IS_EMPTY(&SOCK->busy_pipes))
#endif
#if RT_RP == 1
__CPROVER_requires(PIPE_OK(g_p1) && LIST_IS_ONE(&SOCK->ready_pipes, &P1->node) && LIST_IS_EMPTY(&P1->contexts))
#else
__CPROVER_requires(LIST_IS_EMPTY(&SOCK->ready_pipes))
#endif
__CPROVER_assigns(SOCK->retry_active, SOCK->send_queue.ll_head, SOCK->retry_queue.ll_head, SOCK->ready_pipes.ll_head, SOCK->busy_pipes.ll_head, VP_PROTO_GHOST_LIST, VP_RR_GHOST_LIST, VP_SYNC_GHOSTS, VPX_FIN_GHOSTS)
#if RT_N >= 1
__CPROVER_assigns(C1->send_node, C1->retry_node, C1->pipe_node, C1->send_aio, P3->contexts.ll_head, P3->node; C1->req_msg != NULL: C1->req_msg->m_refcnt)
#endif
#if RT_N == 2
__CPROVER_assigns(C2->send_node, C2->retry_node, C2->pipe_node, C2->send_aio; C2->req_msg != NULL: C2->req_msg->m_refcnt)
#endif
#if RT_RP == 1
__CPROVER_assigns(P1->node, P1->contexts.ll_head, P1->aio_send.a_msg)
#endif
__CPROVER_ensures(VP_NO_LOCK_HELD && g_fin_calls == OLD(g_fin_calls) && g_rr.comp_added == OLD(g_rr.comp_added) && g_start_calls == OLD(g_start_calls))
/* socket closed or timer aborted: nothing happens (and nothing is re-armed) */
__CPROVER_ensures(!RT_RUNS ==> (g_rr.sleep_calls == OLD(g_rr.sleep_calls) && RT_S->retry_active == OLD(RT_S->retry_active) && g_pipe_send_calls == OLD(g_pipe_send_calls)))
#if RT_N >= 1
__CPROVER_ensures(!RT_RUNS ==> ((RT_Q1 ? LIST_IS_ONE(&SOCK->send_queue, &C1->send_node) : (LIST_IS_EMPTY(&SOCK->send_queue) && NODE_IDLE(&C1->send_node))) && LIST_IS_ONE(&P3->contexts, &C1->pipe_node)))
#endif
#if RT_N == 0
/* nobody is scheduled: the timer stops and the flag says so */
__CPROVER_ensures(RT_RUNS ==> (g_rr.sleep_calls == OLD(g_rr.sleep_calls) && !RT_S->retry_active && LIST_IS_EMPTY(&SOCK->send_queue) && g_pipe_send_calls == OLD(g_pipe_send_calls)))
#else
/* somebody is still scheduled: the tick timer is re-armed, once, and the flag stays set */
__CPROVER_ensures(RT_RUNS ==> (g_rr.sleep_calls == OLD(g_rr.sleep_calls) + 1 && g_rr.sleep_aio == &RT_S->retry_aio && g_rr.sleep_ms == RT_S->retry_tick && RT_S->retry_active))
#if RT_RP == 0
/* no pipe is ready: the due requests wait on the send queue, each once, in schedule order; nothing is sent,
 * the retry schedule and the pipes' context lists are not changed by the scan */
__CPROVER_ensures(g_pipe_send_calls == OLD(g_pipe_send_calls) && LIST_IS_ONE(&P3->contexts, &C1->pipe_node) && LIST_IS_ONE(&SOCK->busy_pipes, &P3->node))
#if RT_N == 1
__CPROVER_ensures(RT_RUNS ==> ((RT_DUE(C1) || RT_Q1) ? LIST_IS_ONE(&SOCK->send_queue, &C1->send_node) : (LIST_IS_EMPTY(&SOCK->send_queue) && NODE_IDLE(&C1->send_node))))
__CPROVER_ensures(LIST_IS_ONE(&SOCK->retry_queue, &C1->retry_node))
#else
__CPROVER_ensures((RT_RUNS && (RT_DUE(C1) || RT_Q1) && RT_DUE(C2)) ==> LIST_IS_TWO(&SOCK->send_queue, &C1->send_node, &C2->send_node))
__CPROVER_ensures((RT_RUNS && (RT_DUE(C1) || RT_Q1) && !RT_DUE(C2)) ==> (LIST_IS_ONE(&SOCK->send_queue, &C1->send_node) && NODE_IDLE(&C2->send_node)))
__CPROVER_ensures((RT_RUNS && !(RT_DUE(C1) || RT_Q1) && RT_DUE(C2)) ==> (LIST_IS_ONE(&SOCK->send_queue, &C2->send_node) && NODE_IDLE(&C1->send_node)))
__CPROVER_ensures((RT_RUNS && !(RT_DUE(C1) || RT_Q1) && !RT_DUE(C2)) ==> (LIST_IS_EMPTY(&SOCK->send_queue) && NODE_IDLE(&C1->send_node) && NODE_IDLE(&C2->send_node)))
__CPROVER_ensures(LIST_IS_TWO(&SOCK->retry_queue, &C1->retry_node, &C2->retry_node))
#endif
#else
/* a pipe P1 is ready (deadlines concrete in these shapes): the first due request goes out on it at once: it is
 * on P1's context list and no longer on P3's, a further clone is retained, it stays on the retry schedule */
#if RT_DUE1 == 1
#define RT_FIRST C1
#elif RT_N == 2 && RT_DUE2 == 1
#define RT_FIRST C2
#endif
#ifdef RT_FIRST
__CPROVER_ensures(RT_RUNS ==> (g_pipe_send_calls == OLD(g_pipe_send_calls) + 1 && g_pipe_send_pipe == P1->pipe && g_pipe_send_aio == &P1->aio_send && g_pipe_send_msg == RT_FIRST->req_msg))
__CPROVER_ensures(RT_RUNS ==> (LIST_IS_ONE(&P1->contexts, &RT_FIRST->pipe_node) && NODE_IDLE(&RT_FIRST->send_node) && P1->aio_send.a_msg == RT_FIRST->req_msg && RT_FIRST->req_msg == OLD(RT_FIRST->req_msg) && RT_FIRST->req_msg->m_refcnt.v == OLD(RT_FIRST->req_msg->m_refcnt.v) + 1))
__CPROVER_ensures(RT_RUNS ==> (LIST_IS_EMPTY(&SOCK->ready_pipes) && LIST_IS_TWO(&SOCK->busy_pipes, &P3->node, &P1->node) && !g_pollw))
#if RT_DUE1 == 1
__CPROVER_ensures(RT_RUNS ==> LIST_IS_EMPTY(&P3->contexts))
#if RT_N == 1
__CPROVER_ensures(RT_RUNS ==> (LIST_IS_EMPTY(&SOCK->send_queue) && LIST_IS_ONE(&SOCK->retry_queue, &C1->retry_node)))
#elif RT_DUE2 == 1
/* the second due request waits for the next pipe */
__CPROVER_ensures(RT_RUNS ==> (LIST_IS_ONE(&SOCK->send_queue, &C2->send_node) && NODE_IDLE(&C2->pipe_node) && C2->req_msg->m_refcnt.v == OLD(C2->req_msg->m_refcnt.v) && LIST_IS_TWO(&SOCK->retry_queue, &C2->retry_node, &C1->retry_node)))
#else
__CPROVER_ensures(RT_RUNS ==> (LIST_IS_EMPTY(&SOCK->send_queue) && NODE_IDLE(&C2->send_node) && NODE_IDLE(&C2->pipe_node) && LIST_IS_TWO(&SOCK->retry_queue, &C2->retry_node, &C1->retry_node)))
#endif
#else
__CPROVER_ensures(RT_RUNS ==> (LIST_IS_ONE(&P3->contexts, &C1->pipe_node) && NODE_IDLE(&C1->send_node) && LIST_IS_EMPTY(&SOCK->send_queue) && LIST_IS_TWO(&SOCK->retry_queue, &C1->retry_node, &C2->retry_node)))
#endif
#else
/* nobody is due: nothing is sent, nothing moves */
__CPROVER_ensures(g_pipe_send_calls == OLD(g_pipe_send_calls) && LIST_IS_ONE(&SOCK->ready_pipes, &P1->node) && LIST_IS_ONE(&SOCK->busy_pipes, &P3->node) && LIST_IS_EMPTY(&SOCK->send_queue) && LIST_IS_ONE(&P3->contexts, &C1->pipe_node) && g_pollw == OLD(g_pollw))
#endif
#endif
#endif
;
