/* included AFTER the real sources.  The real src/core/list.c is part of this TU (pipes and contexts sit on
 * real intrusive lists); the two aio-wait-list stubs of env_proto.h that share names with it are renamed
 * away (req.c has no aio wait lists). */
#include "include/env_alloc.h"
#include "include/env_sync.h"
#undef nni_aio_finish
#undef nni_aio_finish_sync
#undef nni_aio_finish_error
#define nni_list_first vp_unused_aioq_first
#define nni_list_empty vp_unused_aioq_empty
#define VP_PROTO_STUBS 1
#include "include/env_proto.h"
#undef nni_list_first
#undef nni_list_empty
#define VP_RR_STUBS 1
#include "modules/xrep/env.h"
/* option copy-in: the value is the environment's */
nng_err nni_copyin_ms(nni_duration *dp, const void *v, size_t sz, nni_type t)
{
	(void) v; (void) sz; (void) t;
	if (!g_copyin_ok) {
		return (NNG_EBADTYPE);
	}
	*dp = g_copyin_val;
	return (NNG_OK);
}
nng_err nni_copyout_ms(nng_duration d, void *v, size_t *szp, nni_type t) { (void) d; (void) v; (void) szp; (void) t; return (NNG_OK); }
/* completion log of depth two (see pre.h) */
static void vpx_shift(void) { g_fin_prev = g_fin_last; g_fin_prev_rv = g_fin_last_rv; g_fin_prev_msg = g_fin_last_msg; }
void vpx_aio_finish(nni_aio *aio, nng_err rv, size_t count) { vpx_shift(); nni_aio_finish(aio, rv, count); }
void vpx_aio_finish_sync(nni_aio *aio, nng_err rv, size_t count) { vpx_shift(); nni_aio_finish_sync(aio, rv, count); }
void vpx_aio_finish_error(nni_aio *aio, nng_err rv) { vpx_shift(); nni_aio_finish_error(aio, rv); }
