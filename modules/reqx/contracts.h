/* Contracts for src/sp/protocol/reqrep0/req.c (cooked REQ; C04, C12, C03/D9, C11) */
#ifndef VP_REQ_CONTRACTS_H
#define VP_REQ_CONTRACTS_H
/* clang-format off */
#ifndef RV
#define RV __CPROVER_return_value
#endif
#ifndef OLD
#define OLD(e) __CPROVER_old(e)
#endif
#define QP ((req0_pipe *) arg)
#define QM (((req0_pipe *) arg)->aio_recv.a_msg)
#define Q_PIPE_PRE (OBJ_OK(arg, struct req0_pipe) && OBJ_OK(g_sock, struct req0_sock) && DISTINCT(arg, g_sock) && QP->req == SOCK)
/* context C1: the socket's own (-DREQ_CM=1) or a separately allocated one (-DREQ_CM=0) */
#if REQ_CM == 1
#define Q_C1_PRE (g_c1 == (void *) &SOCK->master && C1->sock == SOCK)
#else
#define Q_C1_PRE (OBJ_OK(g_c1, struct req0_ctx) && DISTINCT(g_c1, g_sock) && C1->sock == SOCK)
#endif

/* ====================================================================== */
/* req0_recv_cb (C04 matching, C11 malformed, C03 ownership of the retained request) */
#if defined(RQ_RECV_FAILED)
static void req0_recv_cb(void *arg)
__CPROVER_requires(Q_PIPE_PRE && VP_NO_LOCK_HELD)
__CPROVER_requires(QP->aio_recv.a_result != 0)
__CPROVER_assigns(VP_PROTO_GHOST_LIST)
__CPROVER_ensures(VP_NO_LOCK_HELD)
__CPROVER_ensures(g_pipe_close_calls == OLD(g_pipe_close_calls) + 1 && g_pipe_close_last == QP->pipe && g_pipe_recv_calls == OLD(g_pipe_recv_calls) && g_fin_calls == OLD(g_fin_calls))
;
#elif REQ_HAS == 0
/* no context is registered under the id (unknown, stale, cancelled, answered before, or no request bit):
 * the reply is discarded; nothing but the message and the receive re-arm is touched */
static void req0_recv_cb(void *arg)
__CPROVER_requires(Q_PIPE_PRE && VP_NO_LOCK_HELD)
__CPROVER_requires(QP->aio_recv.a_result == 0 && RR_WIRE_MSG(QM) && CH_GHOST_PRE(&QM->m_body))
/* ghost equation: the tracked key of the id map is the id the peer sent (first four body bytes) */
__CPROVER_requires(g_idm_addr == &SOCK->requests && (QM->m_body.ch_len >= 4 ==> g_idm_key == (uint64_t) BE32(QM->m_body.ch_ptr)))
__CPROVER_requires(!g_rr.idm_has)
__CPROVER_assigns(QP->aio_recv.a_msg, VP_PROTO_GHOST_LIST, VP_RR_GHOST_LIST, VP_SYNC_GHOSTS, g_free_calls)
__CPROVER_assigns(*QM)
__CPROVER_frees(QM, QM->m_body.ch_buf)
__CPROVER_ensures(VP_NO_LOCK_HELD && QP->aio_recv.a_msg == NULL)
__CPROVER_ensures(__CPROVER_was_freed(OLD(QM)) && g_fin_calls == OLD(g_fin_calls) && !g_rr.idm_has && g_rr.idm_remove_calls == OLD(g_rr.idm_remove_calls) && g_rr.idm_set_calls == OLD(g_rr.idm_set_calls))
/* shorter than a request id: the peer is disconnected (C11); otherwise the next receive is armed */
__CPROVER_ensures(OLD(QM->m_body.ch_len) < 4 ==> (g_pipe_close_calls == OLD(g_pipe_close_calls) + 1 && g_pipe_close_last == QP->pipe && g_pipe_recv_calls == OLD(g_pipe_recv_calls)))
__CPROVER_ensures(OLD(QM->m_body.ch_len) >= 4 ==> (g_pipe_close_calls == OLD(g_pipe_close_calls) && g_pipe_recv_calls == OLD(g_pipe_recv_calls) + 1 && g_pipe_recv_pipe == QP->pipe && g_pipe_recv_aio == &QP->aio_recv))
;
#else
/* a context C1 is registered under the id.  -DREQ_SQ=1: C1 sits on the send queue (waiting to be resent) */
#define Q_WAITS (OLD(C1->send_aio) == NULL && OLD(C1->rep_msg) == NULL)
#define Q_LONG (OLD(QM->m_body.ch_len) >= 4)
#define Q_MATCH (Q_LONG && Q_WAITS)
#define Q_DISCARD (Q_LONG && !Q_WAITS)
static void req0_recv_cb(void *arg)
__CPROVER_requires(Q_PIPE_PRE && VP_NO_LOCK_HELD)
__CPROVER_requires(QP->aio_recv.a_result == 0 && RR_WIRE_MSG(QM) && CH_GHOST_PRE(&QM->m_body))
__CPROVER_requires(g_idm_addr == &SOCK->requests && (QM->m_body.ch_len >= 4 ==> g_idm_key == (uint64_t) BE32(QM->m_body.ch_ptr)))
__CPROVER_requires(g_rr.idm_has && g_rr.idm_val == g_c1 && Q_C1_PRE && DISTINCT(g_c1, arg))
__CPROVER_requires(REQ_SOCK_LISTS_OK(SOCK))
#if REQ_SQ == 0
__CPROVER_requires(LIST_IS_EMPTY(&SOCK->send_queue) && NODE_IDLE(&C1->send_node))
#else
__CPROVER_requires(LIST_IS_ONE(&SOCK->send_queue, &C1->send_node))
#endif
/* a waiting receive, if any, is a live aio; the retained request is live iff the context owns it */
__CPROVER_requires(C1->recv_aio == NULL || __CPROVER_is_fresh(C1->recv_aio, sizeof(nni_aio)))
/* -DREQ_RM=0: no retained request (already answered / never sent); 1: retained and owned (cloned for
 * retries): a live message; 2: sent without a clone: ctx->req_msg dangles (the pipe consumed the only reference) */
#if REQ_RM == 0
__CPROVER_requires(C1->req_msg == NULL)
#elif REQ_RM == 1
__CPROVER_requires(g_own1 && MSG_PRE(C1->req_msg))
#else
__CPROVER_requires(!g_own1 && C1->req_msg != NULL)
#endif
#ifndef REQ_NO_OWN_INV
__CPROVER_requires(REQ_OWN_INV(C1, g_own1))
#endif
__CPROVER_requires(g_pollr_addr == &SOCK->readable && g_pollw_addr == &SOCK->writable)
__CPROVER_assigns(QP->aio_recv.a_msg, SOCK->send_queue.ll_head, C1->send_node, C1->request_id, C1->req_msg, C1->rep_msg, C1->recv_aio, VP_PROTO_GHOST_LIST, VP_RR_GHOST_LIST, VP_SYNC_GHOSTS, g_free_calls)
__CPROVER_assigns(*QM)
__CPROVER_assigns(C1->recv_aio != NULL: C1->recv_aio->a_msg)
#if REQ_RM == 1
__CPROVER_assigns(*(C1->req_msg))
#endif
__CPROVER_frees(QM, QM->m_body.ch_buf)
#if REQ_RM == 1
__CPROVER_frees(C1->req_msg, C1->req_msg->m_body.ch_buf)
#endif
__CPROVER_ensures(VP_NO_LOCK_HELD && QP->aio_recv.a_msg == NULL)
/* shorter than a request id: disconnected, freed, no context touched (C11) */
__CPROVER_ensures(!Q_LONG ==> (__CPROVER_was_freed(OLD(QM)) && g_pipe_close_calls == OLD(g_pipe_close_calls) + 1 && g_pipe_close_last == QP->pipe && g_pipe_recv_calls == OLD(g_pipe_recv_calls)))
__CPROVER_ensures(Q_LONG ==> (g_pipe_close_calls == OLD(g_pipe_close_calls) && g_pipe_recv_calls == OLD(g_pipe_recv_calls) + 1 && g_pipe_recv_pipe == QP->pipe && g_pipe_recv_aio == &QP->aio_recv))
/* not delivered (too short, request not yet on the wire, or a reply is already stored): freed; the context,
 * the map and the send queue are exactly as before (C04: duplicates and early replies disturb nobody) */
__CPROVER_ensures(!Q_MATCH ==> (__CPROVER_was_freed(OLD(QM)) && g_fin_calls == OLD(g_fin_calls) && g_rr.idm_has && g_rr.idm_val == g_c1 && g_rr.idm_remove_calls == OLD(g_rr.idm_remove_calls)
    && C1->request_id == OLD(C1->request_id) && C1->req_msg == OLD(C1->req_msg) && C1->rep_msg == OLD(C1->rep_msg) && C1->recv_aio == OLD(C1->recv_aio) && C1->send_aio == OLD(C1->send_aio)

#if REQ_RM == 1
    && C1->req_msg->m_refcnt.v == OLD(C1->req_msg->m_refcnt.v)
#endif
    ))
#if REQ_SQ == 0
__CPROVER_ensures(LIST_IS_EMPTY(&SOCK->send_queue) && NODE_IDLE(&C1->send_node))
#else
__CPROVER_ensures(!Q_MATCH ==> LIST_IS_ONE(&SOCK->send_queue, &C1->send_node))
__CPROVER_ensures(Q_MATCH ==> (LIST_IS_EMPTY(&SOCK->send_queue) && NODE_IDLE(&C1->send_node)))
#endif
/* delivered: to exactly the registered context; the id leaves the map (so a duplicate cannot match again);
 * the request is over: no id, no retained copy, no resend */
__CPROVER_ensures(Q_MATCH ==> (!__CPROVER_was_freed(OLD(QM)) && !g_rr.idm_has && g_rr.idm_remove_calls == OLD(g_rr.idm_remove_calls) + 1 && C1->request_id == 0 && C1->req_msg == NULL && C1->send_aio == NULL
    && OLD(QM)->m_body.ch_len == OLD(QM->m_body.ch_len) - 4 && OLD(QM)->m_header_len == 0 && OLD(QM)->m_pipe == g_pipe_id))
__CPROVER_ensures((Q_MATCH && g_k >= 4 && g_k < OLD(QM->m_body.ch_len)) ==> OLD(QM)->m_body.ch_ptr[g_k - 4] == g_b)
/* ... a receive is waiting: it completes now with this reply, once */
__CPROVER_ensures((Q_MATCH && OLD(C1->recv_aio) != NULL) ==> (g_fin_calls == OLD(g_fin_calls) + 1 && g_fin_last == OLD(C1->recv_aio) && g_fin_last_rv == 0 && g_fin_last_msg == OLD(QM) && g_fin_last_count == OLD(QM->m_body.ch_len) - 4 && C1->recv_aio == NULL && C1->rep_msg == NULL))
/* ... nobody is receiving yet: stored for the next receive; the socket's own context makes the socket readable */
__CPROVER_ensures((Q_MATCH && OLD(C1->recv_aio) == NULL) ==> (g_fin_calls == OLD(g_fin_calls) && C1->rep_msg == OLD(QM) && C1->recv_aio == NULL))
#if REQ_CM == 1
__CPROVER_ensures((Q_MATCH && OLD(C1->recv_aio) == NULL) ==> g_pollr)
#endif
/* ownership (C03/D9): the context's own reference to the retained request is dropped exactly once; a
 * request that was not retained (no retry) is not touched: its only reference went to the pipe */
#if REQ_RM == 1
__CPROVER_ensures((Q_MATCH && OLD(C1->req_msg->m_refcnt.v) > 1) ==> (OLD(C1->req_msg)->m_refcnt.v == OLD(C1->req_msg->m_refcnt.v) - 1 && g_free_calls == OLD(g_free_calls)))
/* (the last reference: structure and body buffer are released, each once) */
__CPROVER_ensures((Q_MATCH && OLD(C1->req_msg->m_refcnt.v) == 1) ==> g_free_calls == OLD(g_free_calls) + 2)
#else
__CPROVER_ensures(Q_MATCH ==> g_free_calls == OLD(g_free_calls))
#endif
;
#endif

/* ====================================================================== */
/* req0_ctx_recv (C04 state machine, C12 latched reset, C15 non-blocking rule) */
#define CR ((req0_ctx *) arg)
#define CR_REFUSED (OLD(CR->recv_aio) != NULL || (OLD(CR->req_msg) == NULL && OLD(CR->rep_msg) == NULL))
static void req0_ctx_recv(void *arg, nni_aio *aio)
__CPROVER_requires(OBJ_OK(g_sock, struct req0_sock) && g_c1 == arg && Q_C1_PRE && VP_NO_LOCK_HELD)
__CPROVER_requires(__CPROVER_is_fresh(aio, sizeof(nni_aio)))
__CPROVER_requires(CR->rep_msg == NULL || MSG_PRE(CR->rep_msg))
__CPROVER_requires(g_pollr_addr == &SOCK->readable && g_pollw_addr == &SOCK->writable)
__CPROVER_assigns(aio->a_msg, CR->recv_aio, CR->rep_msg, CR->conn_reset, VP_PROTO_GHOST_LIST, VP_SYNC_GHOSTS)
__CPROVER_ensures(VP_NO_LOCK_HELD)
/* out of order: no request outstanding, or a receive is already pending => refused (NNG_ESTATE, or the
 * latched NNG_ECONNRESET of a request that lost its pipe with retries off), nothing else changes */
__CPROVER_ensures(CR_REFUSED ==> (g_fin_calls == OLD(g_fin_calls) + 1 && g_fin_last == aio && g_fin_last_rv == (OLD(CR->conn_reset) ? NNG_ECONNRESET : NNG_ESTATE) && !CR->conn_reset
    && g_start_calls == OLD(g_start_calls) && CR->recv_aio == OLD(CR->recv_aio) && CR->rep_msg == OLD(CR->rep_msg) && CR->req_msg == OLD(CR->req_msg)))
/* reply not yet there: must wait, the aio layer is consulted once; refused there => nothing recorded */
__CPROVER_ensures((!CR_REFUSED && OLD(CR->rep_msg) == NULL) ==> (g_start_calls == OLD(g_start_calls) + 1 && g_start_last == aio && g_fin_calls == OLD(g_fin_calls) && CR->recv_aio == (g_aio_start_ok ? aio : NULL) && CR->rep_msg == NULL))
/* reply stored: completes in the call with exactly that reply, once; the aio layer is not consulted */
__CPROVER_ensures((!CR_REFUSED && OLD(CR->rep_msg) != NULL) ==> (g_start_calls == OLD(g_start_calls) && g_fin_calls == OLD(g_fin_calls) + 1 && g_fin_last == aio && g_fin_last_rv == 0 && g_fin_last_msg == OLD(CR->rep_msg)
    && aio->a_msg == OLD(CR->rep_msg) && g_fin_last_count == aio->a_msg->m_body.ch_len && CR->rep_msg == NULL && CR->recv_aio == NULL))
#if REQ_CM == 1
__CPROVER_ensures((!CR_REFUSED && OLD(CR->rep_msg) != NULL) ==> !g_pollr)
#endif
;

/* ====================================================================== */
/* NNG_OPT_REQ_RESENDTIME on a context: must not break the ownership invariant of a request in flight (D9) */
static nng_err req0_ctx_set_resend_time(void *arg, const void *buf, size_t sz, nni_opt_type t)
__CPROVER_requires(OBJ_OK(g_sock, struct req0_sock) && g_c1 == arg && Q_C1_PRE)
__CPROVER_requires(REQ_OWN_INV(C1, g_own1))
__CPROVER_assigns(C1->retry)
__CPROVER_ensures(RV == 0 ==> C1->retry == g_copyin_val)
__CPROVER_ensures(RV != 0 ==> C1->retry == OLD(C1->retry))
__CPROVER_ensures(REQ_OWN_INV(C1, g_own1))
;

#include "modules/reqx/contracts_x.h"
/* clang-format on */
#endif
