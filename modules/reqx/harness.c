#define VP_HAVOC_GHOSTS()                         \
	do {                                      \
		g_k = nondet_size_t(); g_j = nondet_size_t(); g_b = nondet_u8(); g_n = nondet_size_t(); \
		g_hk = nondet_size_t(); g_u32 = nondet_u32(); g_hb = nondet_u8(); g_p = nondet_ptr(); \
		g_sock = nondet_ptr(); g_c1 = nondet_ptr(); g_c2 = nondet_ptr(); g_p1 = nondet_ptr(); g_p2 = nondet_ptr(); g_pp3 = nondet_ptr(); g_aio1 = nondet_ptr(); g_aio2 = nondet_ptr(); g_aio3 = nondet_ptr(); g_fin_prev = nondet_ptr(); g_fin_prev_rv = nondet_int(); g_fin_prev_msg = nondet_ptr(); \
		g_own1 = nondet_bool(); g_own2 = nondet_bool(); g_copyin_ok = nondet_bool(); g_copyin_val = nondet_int(); \
		g_free_calls = nondet_size_t(); g_alloc_ok = nondet_size_t(); \
		__CPROVER_assume(g_free_calls < ((size_t) 1 << 40) && g_alloc_ok < ((size_t) 1 << 40)); \
		VP_HAVOC_PROTO(); VP_HAVOC_RR(); VP_HAVOC_SYNC();    \
	} while (0)
/* ---- harness-built state: objects with nondeterministic contents, lists linked with plain C ---- */
static void vp_list_init(nni_list *l, size_t off) { l->ll_offset = off; l->ll_head.ln_next = &l->ll_head; l->ll_head.ln_prev = &l->ll_head; }
static void vp_list_add(nni_list *l, nni_list_node *n)
{
	n->ln_prev = l->ll_head.ln_prev; n->ln_next = &l->ll_head;
	n->ln_prev->ln_next = n; l->ll_head.ln_prev = n;
}
static void vp_node_idle(nni_list_node *n) { n->ln_next = NULL; n->ln_prev = NULL; }
/* objects are statics (nondeterministic contents under DFCC, havocked again here): their addresses are
 * constants for the symbolic execution, so every list link the code follows is a constant */
static req0_sock vp_sock_obj;
static req0_ctx  vp_ctx_a, vp_ctx_b;            /* separate objects (OBJ_OK / DISTINCT speak about objects) */
static req0_pipe vp_pipe_a, vp_pipe_b, vp_pipe_c;
static struct nng_msg vp_msg_a, vp_msg_b;         /* retained requests of the two contexts (where harness-built) */
static unsigned  vp_nctx, vp_npipe;
/* the constant part of a context state of kind k (see PC_KPRE_k in contracts.h): the contract states the same */
static void vp_ctx_kind(req0_ctx *c, int k, struct nng_msg *m)
{
	c->send_aio = NULL;
	if (k == 0 || k == 2) { c->req_msg = NULL; c->recv_aio = NULL; }
	if (k == 1 || k >= 3) { c->rep_msg = NULL; }
	if (k >= 3) { c->req_msg = m; }
}
static req0_sock *vp_mk_sock(void)
{
	req0_sock *s = &vp_sock_obj;
	__CPROVER_havoc_object(s); __CPROVER_havoc_object(&vp_msg_a); __CPROVER_havoc_object(&vp_msg_b); __CPROVER_havoc_object(&vp_ctx_a); __CPROVER_havoc_object(&vp_ctx_b);
	__CPROVER_havoc_object(&vp_pipe_a); __CPROVER_havoc_object(&vp_pipe_b); __CPROVER_havoc_object(&vp_pipe_c);
	vp_nctx = 0; vp_npipe = 0;
	s->master.sock = s; g_sock = s;
	vp_list_init(&s->ready_pipes, offsetof(req0_pipe, node));
	vp_list_init(&s->busy_pipes, offsetof(req0_pipe, node));
	vp_list_init(&s->stop_pipes, offsetof(req0_pipe, node));
	vp_list_init(&s->send_queue, offsetof(req0_ctx, send_node));
	vp_list_init(&s->retry_queue, offsetof(req0_ctx, retry_node));
	vp_list_init(&s->contexts, offsetof(req0_ctx, sock_node));
	return (s);
}
static req0_ctx *vp_mk_ctx(req0_sock *s, int master)
{
	req0_ctx *c;
	if (master) {
		c = &s->master;
	} else {
		c = (vp_nctx++ == 0) ? &vp_ctx_a : &vp_ctx_b;
		c->sock = s;
	}
	vp_node_idle(&c->send_node); vp_node_idle(&c->pipe_node); vp_node_idle(&c->retry_node);
	return (c);
}
static req0_pipe *vp_mk_pipe(req0_sock *s)
{
	req0_pipe *p = (vp_npipe == 0) ? &vp_pipe_a : (vp_npipe == 1) ? &vp_pipe_b : &vp_pipe_c;
	vp_npipe++;
	p->req = s;
	vp_node_idle(&p->node);
	vp_list_init(&p->contexts, offsetof(req0_ctx, pipe_node));
	return (p);
}
#ifndef REQ_CM
#define REQ_CM 0
#endif
#ifndef REQ_HAS
#define REQ_HAS 0
#endif
#ifndef REQ_SQ
#define REQ_SQ 0
#endif
void h_req0_recv_cb(void)
{
	VP_HAVOC_GHOSTS();
	req0_sock *s = vp_mk_sock();
	req0_pipe *p = vp_mk_pipe(s);
#if REQ_HAS == 1
	req0_ctx *c = vp_mk_ctx(s, REQ_CM);
	g_c1 = c; g_rr.idm_has = true; g_rr.idm_val = c;
#if REQ_SQ == 1
	vp_list_add(&s->send_queue, &c->send_node);
#endif
#endif
	req0_recv_cb(p);
	VP_CANARY();
}
void h_req0_ctx_recv(void)
{
	nni_aio *aio;
	VP_HAVOC_GHOSTS();
	req0_sock *s = vp_mk_sock();
	req0_ctx *c = vp_mk_ctx(s, REQ_CM);
	g_c1 = c;
	req0_ctx_recv(c, aio);
	VP_CANARY();
}
void h_req0_ctx_set_resend_time(void)
{
	const void *buf; size_t sz; nni_opt_type t;
	VP_HAVOC_GHOSTS();
	req0_sock *s = vp_mk_sock();
	req0_ctx *c = vp_mk_ctx(s, REQ_CM);
	g_c1 = c;
	req0_ctx_set_resend_time(c, buf, sz, t);
	VP_CANARY();
}
/* ====================================================================== */
/* units of module reqx */
#ifndef RS_SQ
#define RS_SQ 0
#endif
#ifndef RS_RP
#define RS_RP 0
#endif
#ifndef RS_RT
#define RS_RT 0
#endif
#ifndef RS_PN
#define RS_PN 0
#endif
void h_req0_run_send_queue(void)
{
	nni_aio_completions *sent_list;
	VP_HAVOC_GHOSTS();
	req0_sock *s = vp_mk_sock();
#if RS_SQ >= 1
	req0_ctx *c1 = vp_mk_ctx(s, 0); g_c1 = c1; vp_list_add(&s->send_queue, &c1->send_node);
#if RS_RT >= 1
	vp_list_add(&s->retry_queue, &c1->retry_node);
#endif
#endif
#if RS_SQ == 2
	req0_ctx *c2 = vp_mk_ctx(s, 0); g_c2 = c2; vp_list_add(&s->send_queue, &c2->send_node);
#if RS_RT == 2
	vp_list_add(&s->retry_queue, &c2->retry_node);
#endif
#endif
#if RS_RP >= 1
	req0_pipe *p1 = vp_mk_pipe(s); g_p1 = p1; vp_list_add(&s->ready_pipes, &p1->node);
#endif
#if RS_RP == 2
	req0_pipe *p2 = vp_mk_pipe(s); g_p2 = p2; vp_list_add(&s->ready_pipes, &p2->node);
#endif
#if RS_SQ >= 1 && RS_PN == 1
	req0_pipe *p3 = vp_mk_pipe(s); g_pp3 = p3; vp_list_add(&s->busy_pipes, &p3->node); vp_list_add(&p3->contexts, &c1->pipe_node);
#elif RS_SQ >= 1 && RS_PN == 2
	vp_list_add(&p1->contexts, &c1->pipe_node);
#endif
	req0_run_send_queue(s, sent_list);
	VP_CANARY();
}
#ifndef PC_PN
#define PC_PN 0
#endif
#ifndef PC_RP
#define PC_RP 0
#endif
#ifndef PC_N
#define PC_N 0
#endif
void h_req0_pipe_close(void)
{
	VP_HAVOC_GHOSTS();
	req0_sock *s = vp_mk_sock();
	req0_pipe *p = vp_mk_pipe(s);
#if PC_PN == 1
	vp_list_add(&s->ready_pipes, &p->node);
#elif PC_PN == 2
	vp_list_add(&s->busy_pipes, &p->node);
#endif
#if PC_RP == 1
	req0_pipe *p2 = vp_mk_pipe(s); g_p2 = p2; vp_list_add(&s->ready_pipes, &p2->node);
#endif
#if PC_N >= 1
	req0_ctx *c1 = vp_mk_ctx(s, 0); g_c1 = c1; vp_list_add(&p->contexts, &c1->pipe_node); vp_ctx_kind(c1, PC_K1, &vp_msg_a);
#if PC_K1 >= 2
	vp_list_add(&s->retry_queue, &c1->retry_node);
#endif
#if PC_K1 == 4
	vp_list_add(&s->send_queue, &c1->send_node);
#endif
#endif
#if PC_N >= 2
	req0_ctx *c2 = vp_mk_ctx(s, 0); g_c2 = c2; vp_list_add(&p->contexts, &c2->pipe_node); vp_ctx_kind(c2, PC_K2, &vp_msg_b);
#if PC_K2 >= 2
	vp_list_add(&s->retry_queue, &c2->retry_node);
#endif
#if PC_K2 == 4
	vp_list_add(&s->send_queue, &c2->send_node);
#endif
#endif
	/* -DPC_RV1/-DPC_RV2: the unit fixes the resend time of that context to a representative value (its sign
	 * decides every branch; the units with one context leave it symbolic) */
#ifdef PC_RV1
	c1->req_retry = PC_RV1;
#endif
#ifdef PC_RV2
	c2->req_retry = PC_RV2;
#endif
	req0_pipe_close(p);
	VP_CANARY();
}

/* ---- one context in a state of the request state machine (X_ST etc., see contracts.h) ---- */
static nni_aio vp_aio_a, vp_aio_b, vp_aio_c;
static req0_ctx *vp_ctx_state(req0_sock *s)
{
	req0_ctx *c = vp_mk_ctx(s, REQ_CM);
	g_c1 = c;
	__CPROVER_havoc_object(&vp_aio_a); __CPROVER_havoc_object(&vp_aio_b); __CPROVER_havoc_object(&vp_aio_c);
	g_aio1 = &vp_aio_a; g_aio2 = &vp_aio_b; g_aio3 = &vp_aio_c;
	c->recv_aio = (X_RA == 0) ? NULL : (X_RA == 1) ? &vp_aio_a : &vp_aio_c;
	c->send_aio = (X_ST != 1) ? NULL : (X_SA == 1) ? &vp_aio_a : &vp_aio_b;
#if X_ST == 0 || X_ST == 3
	c->req_msg = NULL; c->request_id = 0;
#endif
#if X_ST == 1
	c->req_msg = &vp_msg_a;
#endif
#if X_ST == 1 || X_ST == 2
	c->rep_msg = NULL;
#endif
#if X_ON_RETRY
	vp_list_add(&s->retry_queue, &c->retry_node);
#endif
#if X_ON_SENDQ
	vp_list_add(&s->send_queue, &c->send_node);
#endif
#if X_ON_PIPE
	req0_pipe *p3 = vp_mk_pipe(s); g_pp3 = p3; vp_list_add(&p3->contexts, &c->pipe_node);
#endif
	return (c);
}
void h_req0_ctx_cancel_recv(void)
{
	nng_err rv;
	VP_HAVOC_GHOSTS();
	req0_sock *s = vp_mk_sock();
	req0_ctx *c = vp_ctx_state(s);
	req0_ctx_cancel_recv(&vp_aio_a, c, rv);
	VP_CANARY();
}
void h_req0_ctx_cancel_send(void)
{
	nng_err rv;
	VP_HAVOC_GHOSTS();
	req0_sock *s = vp_mk_sock();
	req0_ctx *c = vp_ctx_state(s);
	req0_ctx_cancel_send(&vp_aio_a, c, rv);
	VP_CANARY();
}

void h_req0_retry_cb(void)
{
	VP_HAVOC_GHOSTS();
	req0_sock *s = vp_mk_sock();
#if RT_N >= 1
	req0_ctx *c1 = vp_mk_ctx(s, 0); g_c1 = c1; vp_list_add(&s->retry_queue, &c1->retry_node);
	c1->send_aio = NULL;
	req0_pipe *p3 = vp_mk_pipe(s); g_pp3 = p3; vp_list_add(&s->busy_pipes, &p3->node); vp_list_add(&p3->contexts, &c1->pipe_node);
#if RT_Q1 == 1
	vp_list_add(&s->send_queue, &c1->send_node);
#endif
#if RT_DUE1 == 1
	c1->req_msg = &vp_msg_a; c1->retry_time = g_now;
#elif RT_DUE1 == 0
	c1->req_msg = nondet_bool() ? &vp_msg_a : NULL; c1->retry_time = g_now + 1;
#else
	c1->req_msg = nondet_bool() ? &vp_msg_a : NULL;
#endif
#endif
#if RT_N == 2
	req0_ctx *c2 = vp_mk_ctx(s, 0); g_c2 = c2; vp_list_add(&s->retry_queue, &c2->retry_node);
	c2->send_aio = NULL;
#if RT_DUE2 == 1
	c2->req_msg = &vp_msg_b; c2->retry_time = g_now;
#elif RT_DUE2 == 0
	c2->req_msg = nondet_bool() ? &vp_msg_b : NULL; c2->retry_time = g_now + 1;
#else
	c2->req_msg = nondet_bool() ? &vp_msg_b : NULL;
#endif
#endif
#if RT_RP == 1
	req0_pipe *p1 = vp_mk_pipe(s); g_p1 = p1; vp_list_add(&s->ready_pipes, &p1->node);
#endif
	req0_retry_cb(s);
	VP_CANARY();
}
