/* included BEFORE the real sources of the req TU */
#define VP_PROTO_GHOSTS 1
#include "include/env_proto.h"
#define VP_RR_GHOSTS 1
#include "modules/xrep/env.h"
#include "modules/message/spec.h"
#include "modules/lmq/spec.h"
#include "modules/xrep/spec.h"
#include "modules/reqx/spec.h"
/* ghosts naming the members of the harness-built state (see spec.h) */
void *g_sock;           /* the socket */
void *g_c1, *g_c2;      /* contexts */
void *g_p1, *g_p2, *g_pp3;      /* pipes */
void *g_aio2;           /* a second user aio (harness object) */
/* ownership ghost (C03/D9): "context g_c1 (resp. g_c2) holds a reference of its own to its req_msg" */
bool g_own1, g_own2;
/* environment of nni_copyin_ms */
bool         g_copyin_ok;
nni_duration g_copyin_val;
