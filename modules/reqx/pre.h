/* included BEFORE the real sources of the req TU */
/* completion log of depth two: req.c's completion calls go through vpx_* (post.h), which remember the
 * completion BEFORE the last one, so that a function that completes two aios can be specified exactly */
#define nni_aio_finish vpx_aio_finish
#define nni_aio_finish_sync vpx_aio_finish_sync
#define nni_aio_finish_error vpx_aio_finish_error
#define VP_PROTO_GHOSTS 1
#include "include/env_proto.h"
#define VP_RR_GHOSTS 1
#include "modules/xrep/env.h"
#include "modules/message/spec.h"
#include "modules/lmq/spec.h"
#include "modules/xrep/spec.h"
#include "modules/reqx/spec.h"
/* ghosts naming the members of the harness-built state (see spec.h) */
void *g_sock;           /* the socket */
void *g_c1, *g_c2;      /* contexts */
void *g_p1, *g_p2, *g_pp3;      /* pipes */
void *g_aio1, *g_aio2, *g_aio3; /* user aios (harness objects): A = the parameter, B = another send aio, C = another receive aio */
/* ownership ghost (C03/D9): "context g_c1 (resp. g_c2) holds a reference of its own to its req_msg" */
bool g_own1, g_own2;
/* environment of nni_copyin_ms */
bool         g_copyin_ok;
nni_duration g_copyin_val;
/* the completion before the last one (see top of this file) */
nni_aio *g_fin_prev;
int      g_fin_prev_rv;
nni_msg *g_fin_prev_msg;
#define VPX_FIN_GHOSTS g_fin_prev, g_fin_prev_rv, g_fin_prev_msg
