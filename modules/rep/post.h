/* included AFTER the real sources.  The real src/core/list.c is part of this
 * TU (contexts and pipes sit on real intrusive lists); the two aio-wait-list
 * stubs of env_proto.h that share names with it are renamed away (rep.c has
 * no aio wait lists). */
#include "include/env_alloc.h"
#include "include/env_sync.h"
#define nni_list_first vp_unused_aioq_first
#define nni_list_empty vp_unused_aioq_empty
#define VP_PROTO_STUBS 1
#include "include/env_proto.h"
#undef nni_list_first
#undef nni_list_empty
#define VP_RR_STUBS 1
#include "modules/xrep/env.h"
