#define VP_HAVOC_GHOSTS()                         \
	do {                                      \
		g_k = nondet_size_t(); g_j = nondet_size_t(); g_b = nondet_u8(); g_n = nondet_size_t(); \
		g_hk = nondet_size_t(); g_u32 = nondet_u32(); g_hb = nondet_u8(); g_p = nondet_ptr(); \
		g_len0 = nondet_size_t(); g_off0 = nondet_size_t(); g_cap0 = nondet_size_t(); \
		g_sock = nondet_ptr(); g_c1 = nondet_ptr(); g_c2 = nondet_ptr(); g_p1 = nondet_ptr(); g_p2 = nondet_ptr(); g_rq_shape = nondet_int(); g_rp_shape = nondet_int(); g_c1_master = nondet_bool(); \
		g_free_calls = nondet_size_t(); g_alloc_ok = nondet_size_t(); \
		__CPROVER_assume(g_free_calls < ((size_t) 1 << 40) && g_alloc_ok < ((size_t) 1 << 40)); \
		VP_HAVOC_PROTO(); VP_HAVOC_RR(); VP_HAVOC_SYNC();    \
	} while (0)
void h_rep0_pipe_recv_cb(void) { void *arg; VP_HAVOC_GHOSTS(); rep0_pipe_recv_cb(arg); VP_CANARY(); }
void h_rep0_ctx_send(void) { void *arg; nni_aio *aio; VP_HAVOC_GHOSTS(); rep0_ctx_send(arg, aio); VP_CANARY(); }
void h_rep0_ctx_recv(void) { void *arg; nni_aio *aio; VP_HAVOC_GHOSTS(); rep0_ctx_recv(arg, aio); VP_CANARY(); }
