#define VP_HAVOC_GHOSTS()                         \
	do {                                      \
		g_k = nondet_size_t(); g_j = nondet_size_t(); g_b = nondet_u8(); g_n = nondet_size_t(); \
		g_hk = nondet_size_t(); g_u32 = nondet_u32(); g_hb = nondet_u8(); g_p = nondet_ptr(); \
		g_len0 = nondet_size_t(); g_off0 = nondet_size_t(); g_cap0 = nondet_size_t(); \
		g_sock = nondet_ptr(); g_c1 = nondet_ptr(); g_c2 = nondet_ptr(); g_p1 = nondet_ptr(); g_p2 = nondet_ptr(); g_rq_shape = nondet_int(); g_rp_shape = nondet_int(); g_c1_master = nondet_bool(); \
		g_free_calls = nondet_size_t(); g_alloc_ok = nondet_size_t(); \
		__CPROVER_assume(g_free_calls < ((size_t) 1 << 40) && g_alloc_ok < ((size_t) 1 << 40)); \
		VP_HAVOC_PROTO(); VP_HAVOC_RR(); VP_HAVOC_SYNC();    \
	} while (0)
/* ---- harness-built state: objects with nondeterministic contents, lists linked with plain C ---- */
static void vp_list_init(nni_list *l, size_t off) { l->ll_offset = off; l->ll_head.ln_next = &l->ll_head; l->ll_head.ln_prev = &l->ll_head; }
static void vp_list_add(nni_list *l, nni_list_node *n)
{
	n->ln_prev = l->ll_head.ln_prev; n->ln_next = &l->ll_head;
	n->ln_prev->ln_next = n; l->ll_head.ln_prev = n;
}
#define VP_NEW(T, v) T *v = malloc(sizeof(T)); __CPROVER_assume(v != NULL)
#ifndef REP_RQ
#define REP_RQ 0
#endif
#ifndef REP_RP
#define REP_RP 0
#endif
void h_rep0_pipe_recv_cb(void)
{
	VP_HAVOC_GHOSTS();
	VP_NEW(rep0_pipe, p); VP_NEW(rep0_sock, s);
	p->rep = s; s->ctx.sock = s; g_sock = s;
	p->rnode.ln_next = NULL; p->rnode.ln_prev = NULL;
	vp_list_init(&s->recvq, offsetof(rep0_ctx, rqnode));
	vp_list_init(&s->recvpipes, offsetof(rep0_pipe, rnode));
	g_rq_shape = REP_RQ; g_rp_shape = REP_RP;
#if REP_RQ >= 1
#if defined(REP_C1M) && REP_C1M == 1
	rep0_ctx *c1 = &s->ctx; g_c1_master = true;
#else
	VP_NEW(rep0_ctx, c1); c1->sock = s; g_c1_master = false;
#endif
	g_c1 = c1; vp_list_add(&s->recvq, &c1->rqnode);
#endif
#if REP_RQ == 2
	VP_NEW(rep0_ctx, c2); c2->sock = s; g_c2 = c2; vp_list_add(&s->recvq, &c2->rqnode);
#endif
#if REP_RP == 1
	VP_NEW(rep0_pipe, p1); p1->rep = s; g_p1 = p1; vp_list_add(&s->recvpipes, &p1->rnode);
#endif
	rep0_pipe_recv_cb(p);
	VP_CANARY();
}
#ifndef REP_SQ
#define REP_SQ 0
#endif
#ifndef REP_HAS
#define REP_HAS 0
#endif
/* socket + the context under contract (the socket's own one or a separate object) */
#if defined(REP_C1M) && REP_C1M == 1
#define VP_MK_CTX() VP_NEW(rep0_sock, s); s->ctx.sock = s; g_sock = s; rep0_ctx *ctx = &s->ctx
#else
#define VP_MK_CTX() VP_NEW(rep0_sock, s); g_sock = s; VP_NEW(rep0_ctx, ctx); ctx->sock = s
#endif
void h_rep0_ctx_send(void)
{
	nni_aio *aio;
	VP_HAVOC_GHOSTS();
	VP_MK_CTX();
#if REP_HAS == 1
	VP_NEW(rep0_pipe, tp); tp->rep = s; g_rr.idm_val = tp; g_rr.idm_has = true;
	vp_list_init(&tp->sendq, offsetof(rep0_ctx, sqnode));
#if REP_SQ == 1
	VP_NEW(rep0_ctx, c2); c2->sock = s; g_c2 = c2; vp_list_add(&tp->sendq, &c2->sqnode);
#endif
#endif
	rep0_ctx_send(ctx, aio);
	VP_CANARY();
}
void h_rep0_ctx_recv(void)
{
	nni_aio *aio;
	VP_HAVOC_GHOSTS();
	VP_MK_CTX();
	vp_list_init(&s->recvq, offsetof(rep0_ctx, rqnode));
	vp_list_init(&s->recvpipes, offsetof(rep0_pipe, rnode));
#if REP_RP == 0
#if REP_RQ == 0
	ctx->rqnode.ln_next = NULL; ctx->rqnode.ln_prev = NULL;
#elif REP_RQ == 1
	ctx->rqnode.ln_next = NULL; ctx->rqnode.ln_prev = NULL;
	VP_NEW(rep0_ctx, c2); c2->sock = s; g_c2 = c2; vp_list_add(&s->recvq, &c2->rqnode);
#else
	vp_list_add(&s->recvq, &ctx->rqnode);
#endif
#else
	ctx->rqnode.ln_next = NULL; ctx->rqnode.ln_prev = NULL;
	VP_NEW(rep0_pipe, p1); p1->rep = s; g_p1 = p1; vp_list_add(&s->recvpipes, &p1->rnode);
#if REP_RP == 2
	VP_NEW(rep0_pipe, p2); p2->rep = s; g_p2 = p2; vp_list_add(&s->recvpipes, &p2->rnode);
#endif
#endif
	rep0_ctx_recv(ctx, aio);
	VP_CANARY();
}
