/* Contracts for src/sp/protocol/reqrep0/rep.c (cooked REP; C04, C13, C11) */
#ifndef VP_REP_CONTRACTS_H
#define VP_REP_CONTRACTS_H
/* clang-format off */
#ifndef RV
#define RV __CPROVER_return_value
#endif
#ifndef OLD
#define OLD(e) __CPROVER_old(e)
#endif
#define RP ((rep0_pipe *) arg)
#define RS (((rep0_pipe *) arg)->rep)
#define RM (((rep0_pipe *) arg)->aio_recv.a_msg)
#define ROLDLEN OLD(RM->m_body.ch_len)
#define BT(c) ((uint8_t *) (c)->btrace)
/* pipe and socket are allocated by the harness (see spec.h, harness-built state) */
#define REP_PIPE_PRE (OBJ_OK(arg, struct rep0_pipe) && OBJ_OK(RS, struct rep0_sock) && DISTINCT(arg, RS))

/* ---- receive callback: backtrace walk, then delivery to the first waiting
 * context or holding (C04, C13, C11).  For ALL body bytes, every ttl 1..15. */
#ifdef RP_RECV_FAILED
static void rep0_pipe_recv_cb(void *arg)
__CPROVER_requires(REP_PIPE_PRE)
__CPROVER_requires(RR_TTL_OK(RS->ttl.v) && VP_NO_LOCK_HELD)
__CPROVER_requires(RP->aio_recv.a_result != 0)
/* (list shapes only keep the unreachable rest of the function cheap to encode) */
__CPROVER_requires(NODE_IDLE(&RP->rnode) && REP_RECVQ_PRE(RS) && REP_RECVPIPES_PRE(RS))
__CPROVER_assigns(VP_PROTO_GHOST_LIST)
__CPROVER_ensures(VP_NO_LOCK_HELD)
__CPROVER_ensures(g_pipe_close_calls == OLD(g_pipe_close_calls) + 1 && g_pipe_close_last == RP->pipe && g_pipe_recv_calls == OLD(g_pipe_recv_calls) && g_fin_calls == OLD(g_fin_calls))
;
#else
#define R_DISCONN (g_pipe_close_calls == OLD(g_pipe_close_calls) + 1)
#define R_REARMED (g_pipe_recv_calls == OLD(g_pipe_recv_calls) + 1)
#define R_FINISHED (g_fin_calls == OLD(g_fin_calls) + 1)
#define R_FREED __CPROVER_was_freed(OLD(RM))
#define R_SAMECLOSE (g_pipe_close_calls == OLD(g_pipe_close_calls))
#define R_SAMERECV (g_pipe_recv_calls == OLD(g_pipe_recv_calls))
#define R_SAMEFIN (g_fin_calls == OLD(g_fin_calls))
/* outcomes (told apart by what the environment saw; whether the message was freed is stated once) */
#define R_O_DISCONN (R_DISCONN && R_SAMERECV && R_SAMEFIN)
#define R_O_DROPPED (R_SAMECLOSE && R_REARMED && R_SAMEFIN)
#define R_O_DISCARD (R_SAMECLOSE && R_SAMERECV && R_SAMEFIN && RP->aio_recv.a_msg == NULL) /* pipe already closed */
#define R_O_HELD (R_SAMECLOSE && R_SAMERECV && R_SAMEFIN && RP->aio_recv.a_msg != NULL)    /* nobody waiting */
#define R_O_DELIVERED (R_SAMECLOSE && R_REARMED && R_FINISHED)
#define R_HL (OLD(RM)->m_header_len)
static void rep0_pipe_recv_cb(void *arg)
__CPROVER_requires(REP_PIPE_PRE)
__CPROVER_requires(RR_TTL_OK(RS->ttl.v) && VP_NO_LOCK_HELD)
__CPROVER_requires(RP->aio_recv.a_result == 0 && RR_WIRE_MSG(RM) && CH_GHOST_PRE(&RM->m_body) && RR_BODY_GHOSTS(RM))
/* the pipe is not yet on the list of pipes holding a request (one receive outstanding per pipe) */
__CPROVER_requires(NODE_IDLE(&RP->rnode) && RP->id == g_pipe_id)
__CPROVER_requires(REP_RECVQ_PRE(RS))
__CPROVER_requires(REP_RECVPIPES_PRE(RS))
__CPROVER_requires(g_pollr_addr == &RS->readable && g_pollw_addr == &RS->writable)
__CPROVER_assigns(RP->aio_recv.a_msg, RP->rnode, RS->recvq.ll_head, RS->recvpipes.ll_head, VP_PROTO_GHOST_LIST, VP_SYNC_GHOSTS, g_free_calls)
__CPROVER_assigns(*RM)
#if REP_RQ >= 1
__CPROVER_assigns(C1->raio, C1->rqnode, C1->btrace_len, C1->btrace, C1->pipe_id, C1->raio->a_msg)
#endif
#if REP_RQ == 2
__CPROVER_assigns(C2->rqnode)
#endif
#if REP_RP == 1
__CPROVER_assigns(P1->rnode)
#endif
__CPROVER_frees(RM, RM->m_body.ch_buf)
__CPROVER_ensures(VP_NO_LOCK_HELD)
/* ---- control flow, lists, scalar facts (every RR_TRACK level) ---- */
/* exactly one outcome; an accepted request on an open pipe goes to the first waiting context iff there is one */
#if REP_RQ == 0
__CPROVER_ensures(R_O_DISCONN || R_O_DROPPED || R_O_DISCARD || R_O_HELD)
__CPROVER_ensures(R_O_HELD ==> !RP->closed)
#else
__CPROVER_ensures(R_O_DISCONN || R_O_DROPPED || R_O_DISCARD || R_O_DELIVERED)
__CPROVER_ensures(R_O_DELIVERED ==> !RP->closed)
#endif
/* freed exactly when it is neither delivered nor held */
__CPROVER_ensures(R_FREED == (R_O_DISCONN || R_O_DROPPED || R_O_DISCARD))
__CPROVER_ensures(R_O_DISCARD ==> RP->closed)
/* disconnected ==> fewer than ttl complete words; never delivered, freed */
__CPROVER_ensures(R_O_DISCONN ==> (g_pipe_close_last == RP->pipe && RP->aio_recv.a_msg == NULL && (ROLDLEN >> 2) < (size_t) RS->ttl.v))
/* dropped ==> at least ttl complete words; NOT disconnected, receive re-armed */
__CPROVER_ensures(R_O_DROPPED ==> (g_pipe_recv_pipe == RP->pipe && g_pipe_recv_aio == &RP->aio_recv && RP->aio_recv.a_msg == NULL && (ROLDLEN >> 2) >= (size_t) RS->ttl.v))
#if REP_RQ == 0
/* held: the message stays with the pipe, header = n+1 <= ttl words (at most 64 bytes), body shorter by that; pipe queued last; socket readable */
__CPROVER_ensures(R_O_HELD ==> (RP->aio_recv.a_msg == OLD(RM) && R_HL >= 4 && (R_HL & 3) == 0 && R_HL <= MSG_HDRCAP && (R_HL >> 2) <= (size_t) RS->ttl.v
    && R_HL <= ROLDLEN && OLD(RM)->m_body.ch_len == ROLDLEN - R_HL && OLD(RM)->m_pipe == RP->id && g_pollr))
#if REP_RP == 0
__CPROVER_ensures(R_O_HELD ==> LIST_IS_ONE(&RS->recvpipes, &RP->rnode))
__CPROVER_ensures(!R_O_HELD ==> (LIST_IS_EMPTY(&RS->recvpipes) && NODE_IDLE(&RP->rnode)))
#else
__CPROVER_ensures(R_O_HELD ==> LIST_IS_TWO(&RS->recvpipes, &P1->rnode, &RP->rnode))
__CPROVER_ensures(!R_O_HELD ==> (LIST_IS_ONE(&RS->recvpipes, &P1->rnode) && NODE_IDLE(&RP->rnode)))
#endif
__CPROVER_ensures(LIST_IS_EMPTY(&RS->recvq))
#else
/* delivered: exactly the FIRST waiting context gets it, once; that context captures n+1 <= ttl words and
 * the origin pipe id; the application sees no header; the next receive is armed */
__CPROVER_ensures(R_O_DELIVERED ==> (RP->aio_recv.a_msg == NULL && g_fin_last == OLD(C1->raio) && g_fin_last_rv == 0 && g_fin_last_msg == OLD(RM) && C1->raio == NULL
    && C1->btrace_len >= 4 && (C1->btrace_len & 3) == 0 && C1->btrace_len <= MSG_HDRCAP && (C1->btrace_len >> 2) <= (size_t) RS->ttl.v
    && C1->pipe_id == RP->id && R_HL == 0 && OLD(RM)->m_pipe == RP->id
    && C1->btrace_len <= ROLDLEN && OLD(RM)->m_body.ch_len == ROLDLEN - C1->btrace_len && g_fin_last_count == OLD(RM)->m_body.ch_len
    && g_pipe_recv_pipe == RP->pipe && g_pipe_recv_aio == &RP->aio_recv && NODE_IDLE(&C1->rqnode)))
/* the socket becomes writable when its own context got the request and the origin pipe is free */
__CPROVER_ensures((R_O_DELIVERED && g_c1_master && !RP->busy) ==> g_pollw)
/* nothing but delivery touches a context or the context queue; delivery removes exactly the first */
#if REP_RQ == 1
__CPROVER_ensures(R_O_DELIVERED ==> LIST_IS_EMPTY(&RS->recvq))
__CPROVER_ensures(!R_O_DELIVERED ==> (LIST_IS_ONE(&RS->recvq, &C1->rqnode) && C1->raio == OLD(C1->raio) && C1->btrace_len == OLD(C1->btrace_len) && C1->pipe_id == OLD(C1->pipe_id)))
#else
__CPROVER_ensures(R_O_DELIVERED ==> LIST_IS_ONE(&RS->recvq, &C2->rqnode))
__CPROVER_ensures(!R_O_DELIVERED ==> (LIST_IS_TWO(&RS->recvq, &C1->rqnode, &C2->rqnode) && C1->raio == OLD(C1->raio) && C1->btrace_len == OLD(C1->btrace_len) && C1->pipe_id == OLD(C1->pipe_id)))
#endif
__CPROVER_ensures(LIST_IS_EMPTY(&RS->recvpipes) && NODE_IDLE(&RP->rnode))
#endif
#if RR_TRACK >= 1
/* ---- class facts and the rest of the body (ghost byte: g_b = old body byte g_k, for EVERY g_k) ---- */
/* disconnected ==> GARBAGE: none of the complete words is a request id */
__CPROVER_ensures(R_O_DISCONN ==> RR_NO_END_BELOW(ROLDLEN >> 2))
/* dropped ==> TOOMANY: none of the first ttl words is a request id */
__CPROVER_ensures(R_O_DROPPED ==> RR_NO_END_BELOW(RS->ttl.v))
#if REP_RQ == 0
/* held ==> ACCEPT: the last moved word is the first with the high bit; the rest of the body is unchanged */
__CPROVER_ensures(R_O_HELD ==> (RR_NO_END_BELOW((R_HL >> 2) - 1) && (g_k == R_HL - 4 ==> RR_HB(g_b))))
__CPROVER_ensures((R_O_HELD && g_k >= R_HL && g_k < ROLDLEN) ==> OLD(RM)->m_body.ch_ptr[g_k - R_HL] == g_b)
#else
/* delivered ==> ACCEPT, the application sees the body behind the request id unchanged */
__CPROVER_ensures(R_O_DELIVERED ==> (RR_NO_END_BELOW((C1->btrace_len >> 2) - 1) && (g_k == C1->btrace_len - 4 ==> RR_HB(g_b))))
__CPROVER_ensures((R_O_DELIVERED && g_k >= C1->btrace_len && g_k < ROLDLEN) ==> OLD(RM)->m_body.ch_ptr[g_k - C1->btrace_len] == g_b)
#endif
#endif
#if RR_TRACK == 2
/* ---- content of the backtrace: the moved words, byte for byte, in order ---- */
#if REP_RQ == 0
__CPROVER_ensures((R_O_HELD && g_k < R_HL) ==> HDR(OLD(RM))[g_k] == g_b)
#else
__CPROVER_ensures((R_O_DELIVERED && g_k < C1->btrace_len) ==> BT(C1)[g_k] == g_b)
#endif
#endif
;
#endif

/* ===================================================================== */
/* Context operations.  The context under contract is `arg`; it is the socket's
 * own context (-DREP_C1M=1) or a separately allocated one (-DREP_C1M=0). */
#define SOCK ((rep0_sock *) g_sock)
#define CTX ((rep0_ctx *) arg)
/* Socket, context, pipes and the lists are allocated and linked by the harness (see spec.h, harness-built
 * state); the contract states the same facts as plain conditions. */
#if REP_C1M == 1
#define REP_CTX_PRE (OBJ_OK(g_sock, struct rep0_sock) && arg == (void *) &SOCK->ctx && CTX->sock == SOCK)
#else
#define REP_CTX_PRE (OBJ_OK(g_sock, struct rep0_sock) && OBJ_OK(arg, struct rep0_ctx) && DISTINCT(arg, g_sock) && CTX->sock == SOCK)
#endif
#define SM (aio->a_msg)
#define SPIPE ((rep0_pipe *) g_rr.idm_val)

/* ---- rep0_ctx_send (C04): the reply goes only to the pipe, and with the backtrace, of the request this
 * context received last; the captured state is consumed, so a second send fails with NNG_ESTATE ----
 * -DREP_SQ=n: number of OTHER contexts already queued on the target pipe (0 or 1). */
#define S_FIN1 (g_fin_calls == OLD(g_fin_calls) + 1 && g_fin_last == aio)
#define S_NOSEND (g_pipe_send_calls == OLD(g_pipe_send_calls))
#define S_OLDLEN OLD(CTX->btrace_len)
#define S_REJECT (OLD(CTX->saio) != NULL)
#define S_ESTATE (!S_REJECT && S_OLDLEN == 0)
/* -DREP_HAS=0: no pipe is registered under the captured pipe id (requester gone); =1: there is one */
#if REP_HAS == 0
#define S_GONE (!S_REJECT && S_OLDLEN > 0)
#else
#define S_NOW (!S_REJECT && S_OLDLEN > 0 && !OLD(SPIPE->busy))
#define S_WAIT (!S_REJECT && S_OLDLEN > 0 && OLD(SPIPE->busy))
#endif
static void rep0_ctx_send(void *arg, nni_aio *aio)
__CPROVER_requires(REP_CTX_PRE && VP_NO_LOCK_HELD)
__CPROVER_requires(__CPROVER_is_fresh(aio, sizeof(nni_aio)) && MSG_PRE(SM) && SM->m_refcnt.v == 1)
__CPROVER_requires(CH_GHOST_PRE(&SM->m_body))
/* state invariant of the context: the backtrace fits the header; queued on a pipe iff a send is pending */
__CPROVER_requires(CTX->btrace_len <= MSG_HDRCAP)
__CPROVER_requires(CTX->saio == NULL ? NODE_IDLE(&CTX->sqnode) : (CTX->sqnode.ln_next != NULL && CTX->sqnode.ln_prev != NULL))
/* ghost equations: g_hb = captured backtrace byte g_hk; the tracked key of the pipe map is the captured pipe id */
__CPROVER_requires((g_hk < CTX->btrace_len) ==> g_hb == BT(CTX)[g_hk])
__CPROVER_requires(g_idm_addr == &SOCK->pipes && g_idm_key == (uint64_t) CTX->pipe_id)
#if REP_HAS == 0
__CPROVER_requires(!g_rr.idm_has)
#else
__CPROVER_requires(g_rr.idm_has && OBJ_OK(g_rr.idm_val, struct rep0_pipe) && DISTINCT(g_rr.idm_val, g_sock) && DISTINCT(g_rr.idm_val, arg) && SPIPE->sendq.ll_offset == OFF_SQ &&
#if REP_SQ == 0
    LIST_IS_EMPTY(&SPIPE->sendq)
#else
    OBJ_OK(g_c2, struct rep0_ctx) && DISTINCT(g_c2, g_sock) && DISTINCT(g_c2, arg) && DISTINCT(g_c2, g_rr.idm_val) && LIST_IS_ONE(&SPIPE->sendq, &C2->sqnode)
#endif
    )
#endif
__CPROVER_requires(g_pollr_addr == &SOCK->readable && g_pollw_addr == &SOCK->writable)
__CPROVER_assigns(aio->a_msg, aio->a_result, aio->a_count, CTX->btrace_len, CTX->pipe_id, CTX->saio, CTX->spipe, CTX->sqnode, VP_PROTO_GHOST_LIST, VP_RR_GHOST_LIST, VP_SYNC_GHOSTS, g_free_calls)
__CPROVER_assigns(*SM)
#if REP_HAS == 1
__CPROVER_assigns(SPIPE->busy, SPIPE->aio_send.a_msg, SPIPE->sendq.ll_head)
#if REP_SQ == 1
__CPROVER_assigns(C2->sqnode)
#endif
#endif
__CPROVER_frees(SM, SM->m_body.ch_buf)
__CPROVER_ensures(VP_NO_LOCK_HELD)
/* out-of-order use: a reply of this context is still queued => rejected with NNG_ESTATE, nothing consumed, nothing sent */
__CPROVER_ensures(S_REJECT ==> (S_FIN1 && g_fin_last_rv == NNG_ESTATE && aio->a_msg == OLD(SM) && !__CPROVER_was_freed(OLD(SM)) && S_NOSEND && g_start_calls == OLD(g_start_calls)
    && CTX->saio == OLD(CTX->saio) && CTX->btrace_len == S_OLDLEN && CTX->pipe_id == OLD(CTX->pipe_id)))
/* otherwise the captured request is consumed whatever happens: the next send without a receive is refused */
__CPROVER_ensures(!S_REJECT ==> (CTX->btrace_len == 0 && CTX->pipe_id == 0))
#if REP_C1M == 1
__CPROVER_ensures(!S_REJECT ==> !g_pollw)
#endif
/* send before receive: NNG_ESTATE, the message stays with the caller, nothing is sent */
__CPROVER_ensures(S_ESTATE ==> (S_FIN1 && g_fin_last_rv == NNG_ESTATE && aio->a_msg == OLD(SM) && !__CPROVER_was_freed(OLD(SM)) && S_NOSEND && g_start_calls == OLD(g_start_calls)))
#if REP_HAS == 0
/* the requester's pipe is gone: discarded, reported as sent */
__CPROVER_ensures(S_GONE ==> (S_FIN1 && g_fin_last_rv == 0 && g_fin_last_count == OLD(SM->m_body.ch_len) && aio->a_msg == NULL && __CPROVER_was_freed(OLD(SM)) && S_NOSEND && g_start_calls == OLD(g_start_calls)))
#else
/* pipe idle: sent now, to exactly the pipe registered under the captured pipe id, header = exactly the captured backtrace, body unchanged */
__CPROVER_ensures(S_NOW ==> (g_pipe_send_calls == OLD(g_pipe_send_calls) + 1 && g_pipe_send_pipe == SPIPE->pipe && g_pipe_send_aio == &SPIPE->aio_send && g_pipe_send_msg == OLD(SM) && SPIPE->busy
    && !__CPROVER_was_freed(OLD(SM)) && OLD(SM)->m_header_len == S_OLDLEN && OLD(SM)->m_body.ch_len == OLD(SM->m_body.ch_len)
    && S_FIN1 && g_fin_last_rv == 0 && g_fin_last_count == OLD(SM->m_body.ch_len) && aio->a_msg == NULL && g_start_calls == OLD(g_start_calls) && CTX->saio == NULL))
__CPROVER_ensures((S_NOW && g_hk < S_OLDLEN) ==> HDR(OLD(SM))[g_hk] == g_hb)
__CPROVER_ensures((S_NOW && g_k < OLD(SM->m_body.ch_len)) ==> OLD(SM)->m_body.ch_ptr[g_k] == g_b)
/* pipe busy: waits behind the replies already queued on that pipe (or is refused by the aio layer: nothing queued);
 * the message stays attached with the backtrace as header */
__CPROVER_ensures(S_WAIT ==> (S_NOSEND && g_fin_calls == OLD(g_fin_calls) && g_start_calls == OLD(g_start_calls) + 1 && g_start_last == aio && aio->a_msg == OLD(SM) && !__CPROVER_was_freed(OLD(SM))
    && OLD(SM)->m_header_len == S_OLDLEN))
__CPROVER_ensures((S_WAIT && g_hk < S_OLDLEN) ==> HDR(OLD(SM))[g_hk] == g_hb)
__CPROVER_ensures((S_WAIT && g_aio_start_ok) ==> (CTX->saio == aio && CTX->spipe == SPIPE &&
#if REP_SQ == 0
    LIST_IS_ONE(&SPIPE->sendq, &CTX->sqnode)
#else
    LIST_IS_TWO(&SPIPE->sendq, &C2->sqnode, &CTX->sqnode)
#endif
    ))
__CPROVER_ensures((S_WAIT && !g_aio_start_ok) ==> (CTX->saio == NULL && NODE_IDLE(&CTX->sqnode) &&
#if REP_SQ == 0
    LIST_IS_EMPTY(&SPIPE->sendq)
#else
    LIST_IS_ONE(&SPIPE->sendq, &C2->sqnode)
#endif
    ))
#endif
;

/* ---- rep0_ctx_recv (C04): captures the backtrace and the origin pipe of the request it delivers;
 * a second concurrent receive is refused with NNG_ESTATE ----
 * -DREP_RP=0: no pipe holds a request (-DREP_RQ=0: nobody waits, 1: another context waits, 2: THIS context already waits)
 * -DREP_RP=1|2: that many pipes hold a request (then, by the state invariant of rep.c, nobody waits) */
#define RCV_P1M (P1->aio_recv.a_msg)
#if REP_RP == 0
#if REP_RQ == 0
#define RCV_OFFS (SOCK->recvq.ll_offset == OFF_RQ && SOCK->recvpipes.ll_offset == OFF_RP)
#define RCV_LISTS (RCV_OFFS && CTX->raio == NULL && NODE_IDLE(&CTX->rqnode) && LIST_IS_EMPTY(&SOCK->recvq) && LIST_IS_EMPTY(&SOCK->recvpipes))
#elif REP_RQ == 1
#define RCV_OFFS (SOCK->recvq.ll_offset == OFF_RQ && SOCK->recvpipes.ll_offset == OFF_RP)
#define RCV_LISTS (RCV_OFFS && CTX->raio == NULL && NODE_IDLE(&CTX->rqnode) && OBJ_OK(g_c2, struct rep0_ctx) && DISTINCT(g_c2, g_sock) && DISTINCT(g_c2, arg) && LIST_IS_ONE(&SOCK->recvq, &C2->rqnode) && LIST_IS_EMPTY(&SOCK->recvpipes))
#else
#define RCV_OFFS (SOCK->recvq.ll_offset == OFF_RQ && SOCK->recvpipes.ll_offset == OFF_RP)
#define RCV_LISTS (RCV_OFFS && __CPROVER_is_fresh(CTX->raio, sizeof(nni_aio)) && LIST_IS_ONE(&SOCK->recvq, &CTX->rqnode) && LIST_IS_EMPTY(&SOCK->recvpipes))
#endif
static void rep0_ctx_recv(void *arg, nni_aio *aio)
__CPROVER_requires(REP_CTX_PRE && VP_NO_LOCK_HELD)
__CPROVER_requires(__CPROVER_is_fresh(aio, sizeof(nni_aio)))
__CPROVER_requires(RCV_LISTS)
__CPROVER_requires(g_pollr_addr == &SOCK->readable && g_pollw_addr == &SOCK->writable)
__CPROVER_assigns(CTX->raio, CTX->rqnode, SOCK->recvq.ll_head, VP_PROTO_GHOST_LIST, VP_SYNC_GHOSTS)
#if REP_RQ == 1
__CPROVER_assigns(C2->rqnode)
#endif
__CPROVER_ensures(VP_NO_LOCK_HELD)
/* nothing to deliver: the operation must wait, so the aio layer is consulted exactly once (C15) */
__CPROVER_ensures(g_start_calls == OLD(g_start_calls) + 1 && g_start_last == aio && g_pipe_recv_calls == OLD(g_pipe_recv_calls))
/* the captured reply state is not touched by a receive that delivers nothing */
__CPROVER_ensures(CTX->btrace_len == OLD(CTX->btrace_len) && CTX->pipe_id == OLD(CTX->pipe_id))
#if REP_RQ == 2
/* second concurrent receive: NNG_ESTATE; the first one is not disturbed */
__CPROVER_ensures(g_aio_start_ok ==> (g_fin_calls == OLD(g_fin_calls) + 1 && g_fin_last == aio && g_fin_last_rv == NNG_ESTATE))
__CPROVER_ensures(!g_aio_start_ok ==> g_fin_calls == OLD(g_fin_calls))
__CPROVER_ensures(CTX->raio == OLD(CTX->raio) && LIST_IS_ONE(&SOCK->recvq, &CTX->rqnode))
#else
__CPROVER_ensures(g_fin_calls == OLD(g_fin_calls))
__CPROVER_ensures(g_aio_start_ok ==> (CTX->raio == aio &&
#if REP_RQ == 0
    LIST_IS_ONE(&SOCK->recvq, &CTX->rqnode)
#else
    LIST_IS_TWO(&SOCK->recvq, &C2->rqnode, &CTX->rqnode)
#endif
    ))
__CPROVER_ensures(!g_aio_start_ok ==> (CTX->raio == NULL && NODE_IDLE(&CTX->rqnode) &&
#if REP_RQ == 0
    LIST_IS_EMPTY(&SOCK->recvq)
#else
    LIST_IS_ONE(&SOCK->recvq, &C2->rqnode)
#endif
    ))
#endif
;
#else /* REP_RP >= 1 */
#if REP_RP == 1
#define RCV_PIPES (SOCK->recvpipes.ll_offset == OFF_RP && OBJ_OK(g_p1, struct rep0_pipe) && DISTINCT(g_p1, g_sock) && DISTINCT(g_p1, arg) && LIST_IS_ONE(&SOCK->recvpipes, &P1->rnode))
#else
#define RCV_PIPES (SOCK->recvpipes.ll_offset == OFF_RP && OBJ_OK(g_p1, struct rep0_pipe) && DISTINCT(g_p1, g_sock) && DISTINCT(g_p1, arg) && OBJ_OK(g_p2, struct rep0_pipe) && DISTINCT(g_p2, g_sock) && DISTINCT(g_p2, arg) && DISTINCT(g_p2, g_p1) && LIST_IS_TWO(&SOCK->recvpipes, &P1->rnode, &((rep0_pipe *) g_p2)->rnode))
#endif
static void rep0_ctx_recv(void *arg, nni_aio *aio)
__CPROVER_requires(REP_CTX_PRE && VP_NO_LOCK_HELD)
__CPROVER_requires(__CPROVER_is_fresh(aio, sizeof(nni_aio)))
__CPROVER_requires(CTX->raio == NULL && NODE_IDLE(&CTX->rqnode) && SOCK->recvq.ll_offset == OFF_RQ && LIST_IS_EMPTY(&SOCK->recvq))
__CPROVER_requires(RCV_PIPES)
/* the first pipe holds an accepted request: header = backtrace (at most 64 bytes), see rep0_pipe_recv_cb */
__CPROVER_requires(MSG_PRE(RCV_P1M) && RCV_P1M->m_refcnt.v == 1 && CH_GHOST_PRE(&RCV_P1M->m_body) && HDR_GHOST_PRE(RCV_P1M))
__CPROVER_requires(g_pollr_addr == &SOCK->readable && g_pollw_addr == &SOCK->writable)
__CPROVER_assigns(aio->a_msg, CTX->btrace_len, CTX->btrace, CTX->pipe_id, SOCK->recvpipes.ll_head, P1->rnode, P1->aio_recv.a_msg, RCV_P1M->m_header_len, VP_PROTO_GHOST_LIST, VP_SYNC_GHOSTS)
#if REP_RP == 2
__CPROVER_assigns(((rep0_pipe *) g_p2)->rnode)
#endif
__CPROVER_ensures(VP_NO_LOCK_HELD)
/* can proceed: completed in the call with the request of the FIRST holding pipe; the aio layer is not consulted (C15) */
__CPROVER_ensures(g_start_calls == OLD(g_start_calls) && g_fin_calls == OLD(g_fin_calls) + 1 && g_fin_last == aio && g_fin_last_rv == 0 && g_fin_last_msg == OLD(RCV_P1M) && aio->a_msg == OLD(RCV_P1M)
    && g_fin_last_count == OLD(RCV_P1M->m_body.ch_len) && CTX->raio == NULL)
/* the context captures exactly the backtrace of THAT request and the id of the pipe it came from */
__CPROVER_ensures(CTX->btrace_len == OLD(RCV_P1M->m_header_len) && CTX->pipe_id == g_pipe_id)
__CPROVER_ensures((g_hk < OLD(RCV_P1M->m_header_len)) ==> BT(CTX)[g_hk] == g_hb)
/* the application gets the body unchanged and no header */
__CPROVER_ensures(aio->a_msg->m_header_len == 0 && aio->a_msg->m_body.ch_len == OLD(RCV_P1M->m_body.ch_len))
__CPROVER_ensures((g_k < OLD(RCV_P1M->m_body.ch_len)) ==> aio->a_msg->m_body.ch_ptr[g_k] == g_b)
/* that pipe is armed for its next request and leaves the holding list; readable iff another pipe still holds one */
__CPROVER_ensures(P1->aio_recv.a_msg == NULL && g_pipe_recv_calls == OLD(g_pipe_recv_calls) + 1 && g_pipe_recv_pipe == P1->pipe && g_pipe_recv_aio == &P1->aio_recv && NODE_IDLE(&P1->rnode))
#if REP_RP == 1
__CPROVER_ensures(LIST_IS_EMPTY(&SOCK->recvpipes) && !g_pollr)
#else
__CPROVER_ensures(LIST_IS_ONE(&SOCK->recvpipes, &((rep0_pipe *) g_p2)->rnode) && g_pollr == OLD(g_pollr))
#endif
#if REP_C1M == 1
__CPROVER_ensures(!P1->busy ==> g_pollw)
#endif
;
#endif
/* clang-format on */
#endif
