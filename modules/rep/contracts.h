/* Contracts for src/sp/protocol/reqrep0/rep.c (cooked REP; C04, C13, C11) */
#ifndef VP_REP_CONTRACTS_H
#define VP_REP_CONTRACTS_H
/* clang-format off */
#ifndef RV
#define RV __CPROVER_return_value
#endif
#ifndef OLD
#define OLD(e) __CPROVER_old(e)
#endif
#define RP ((rep0_pipe *) arg)
#define RS (((rep0_pipe *) arg)->rep)
#define RM (((rep0_pipe *) arg)->aio_recv.a_msg)
#define ROLDLEN OLD(RM->m_body.ch_len)
#define BT(c) ((uint8_t *) (c)->btrace)

/* ---- receive callback: backtrace walk, then delivery to the first waiting
 * context or holding (C04, C13, C11).  For ALL body bytes, every ttl 1..15. */
#ifdef RP_RECV_FAILED
static void rep0_pipe_recv_cb(void *arg)
__CPROVER_requires(__CPROVER_is_fresh(arg, sizeof(struct rep0_pipe)))
__CPROVER_requires(__CPROVER_is_fresh(RS, sizeof(struct rep0_sock)) && RR_TTL_OK(RS->ttl.v) && VP_NO_LOCK_HELD)
__CPROVER_requires(RP->aio_recv.a_result != 0)
/* (list shapes only keep the unreachable rest of the function cheap to encode) */
__CPROVER_requires(NODE_IDLE(&RP->rnode) && REP_RECVQ_PRE(RS) && REP_RECVPIPES_PRE(RS))
__CPROVER_assigns(VP_PROTO_GHOST_LIST)
__CPROVER_ensures(VP_NO_LOCK_HELD)
__CPROVER_ensures(g_pipe_close_calls == OLD(g_pipe_close_calls) + 1 && g_pipe_close_last == RP->pipe && g_pipe_recv_calls == OLD(g_pipe_recv_calls) && g_fin_calls == OLD(g_fin_calls))
;
#else
#define R_DISCONN (g_pipe_close_calls == OLD(g_pipe_close_calls) + 1)
#define R_REARMED (g_pipe_recv_calls == OLD(g_pipe_recv_calls) + 1)
#define R_FINISHED (g_fin_calls == OLD(g_fin_calls) + 1)
#define R_FREED __CPROVER_was_freed(OLD(RM))
#define R_SAMECLOSE (g_pipe_close_calls == OLD(g_pipe_close_calls))
#define R_SAMERECV (g_pipe_recv_calls == OLD(g_pipe_recv_calls))
#define R_SAMEFIN (g_fin_calls == OLD(g_fin_calls))
/* outcomes (told apart by what the environment saw; whether the message was freed is stated once) */
#define R_O_DISCONN (R_DISCONN && R_SAMERECV && R_SAMEFIN)
#define R_O_DROPPED (R_SAMECLOSE && R_REARMED && R_SAMEFIN)
#define R_O_DISCARD (R_SAMECLOSE && R_SAMERECV && R_SAMEFIN && RP->aio_recv.a_msg == NULL) /* pipe already closed */
#define R_O_HELD (R_SAMECLOSE && R_SAMERECV && R_SAMEFIN && RP->aio_recv.a_msg != NULL)    /* nobody waiting */
#define R_O_DELIVERED (R_SAMECLOSE && R_REARMED && R_FINISHED)
#define R_HL (OLD(RM)->m_header_len)
static void rep0_pipe_recv_cb(void *arg)
__CPROVER_requires(__CPROVER_is_fresh(arg, sizeof(struct rep0_pipe)))
__CPROVER_requires(__CPROVER_is_fresh(RS, sizeof(struct rep0_sock)) && RR_TTL_OK(RS->ttl.v) && VP_NO_LOCK_HELD)
__CPROVER_requires(RP->aio_recv.a_result == 0 && RR_WIRE_MSG(RM) && CH_GHOST_PRE(&RM->m_body) && RR_BODY_GHOSTS(RM))
/* the pipe is not yet on the list of pipes holding a request (one receive outstanding per pipe) */
__CPROVER_requires(NODE_IDLE(&RP->rnode) && RP->id == g_pipe_id)
__CPROVER_requires(REP_RECVQ_PRE(RS))
__CPROVER_requires(REP_RECVPIPES_PRE(RS))
__CPROVER_requires(g_pollr_addr == &RS->readable && g_pollw_addr == &RS->writable)
__CPROVER_assigns(RP->aio_recv.a_msg, RP->rnode, RS->recvq.ll_head, RS->recvpipes.ll_head, VP_PROTO_GHOST_LIST, VP_SYNC_GHOSTS, g_free_calls)
__CPROVER_assigns(*RM)
#if REP_RQ >= 1
__CPROVER_assigns(C1->raio, C1->rqnode, C1->btrace_len, C1->btrace, C1->pipe_id, C1->raio->a_msg)
#endif
#if REP_RQ == 2
__CPROVER_assigns(C2->rqnode)
#endif
#if REP_RP == 1
__CPROVER_assigns(P1->rnode)
#endif
__CPROVER_frees(RM, RM->m_body.ch_buf)
__CPROVER_ensures(VP_NO_LOCK_HELD)
/* ---- control flow, lists, scalar facts (every RR_TRACK level) ---- */
/* exactly one outcome; an accepted request on an open pipe goes to the first waiting context iff there is one */
#if REP_RQ == 0
__CPROVER_ensures(R_O_DISCONN || R_O_DROPPED || R_O_DISCARD || R_O_HELD)
__CPROVER_ensures(R_O_HELD ==> !RP->closed)
#else
__CPROVER_ensures(R_O_DISCONN || R_O_DROPPED || R_O_DISCARD || R_O_DELIVERED)
__CPROVER_ensures(R_O_DELIVERED ==> !RP->closed)
#endif
/* freed exactly when it is neither delivered nor held */
__CPROVER_ensures(R_FREED == (R_O_DISCONN || R_O_DROPPED || R_O_DISCARD))
__CPROVER_ensures(R_O_DISCARD ==> RP->closed)
/* disconnected ==> fewer than ttl complete words; never delivered, freed */
__CPROVER_ensures(R_O_DISCONN ==> (g_pipe_close_last == RP->pipe && RP->aio_recv.a_msg == NULL && (ROLDLEN >> 2) < (size_t) RS->ttl.v))
/* dropped ==> at least ttl complete words; NOT disconnected, receive re-armed */
__CPROVER_ensures(R_O_DROPPED ==> (g_pipe_recv_pipe == RP->pipe && g_pipe_recv_aio == &RP->aio_recv && RP->aio_recv.a_msg == NULL && (ROLDLEN >> 2) >= (size_t) RS->ttl.v))
#if REP_RQ == 0
/* held: the message stays with the pipe, header = n+1 <= ttl words (at most 64 bytes), body shorter by that; pipe queued last; socket readable */
__CPROVER_ensures(R_O_HELD ==> (RP->aio_recv.a_msg == OLD(RM) && R_HL >= 4 && (R_HL & 3) == 0 && R_HL <= MSG_HDRCAP && (R_HL >> 2) <= (size_t) RS->ttl.v
    && R_HL <= ROLDLEN && OLD(RM)->m_body.ch_len == ROLDLEN - R_HL && OLD(RM)->m_pipe == RP->id && g_pollr))
#if REP_RP == 0
__CPROVER_ensures(R_O_HELD ==> LIST_IS_ONE(&RS->recvpipes, &RP->rnode))
__CPROVER_ensures(!R_O_HELD ==> (LIST_IS_EMPTY(&RS->recvpipes) && NODE_IDLE(&RP->rnode)))
#else
__CPROVER_ensures(R_O_HELD ==> LIST_IS_TWO(&RS->recvpipes, &P1->rnode, &RP->rnode))
__CPROVER_ensures(!R_O_HELD ==> (LIST_IS_ONE(&RS->recvpipes, &P1->rnode) && NODE_IDLE(&RP->rnode)))
#endif
__CPROVER_ensures(LIST_IS_EMPTY(&RS->recvq))
#else
/* delivered: exactly the FIRST waiting context gets it, once; that context captures n+1 <= ttl words and
 * the origin pipe id; the application sees no header; the next receive is armed */
__CPROVER_ensures(R_O_DELIVERED ==> (RP->aio_recv.a_msg == NULL && g_fin_last == OLD(C1->raio) && g_fin_last_rv == 0 && g_fin_last_msg == OLD(RM) && C1->raio == NULL
    && C1->btrace_len >= 4 && (C1->btrace_len & 3) == 0 && C1->btrace_len <= MSG_HDRCAP && (C1->btrace_len >> 2) <= (size_t) RS->ttl.v
    && C1->pipe_id == RP->id && R_HL == 0 && OLD(RM)->m_pipe == RP->id
    && C1->btrace_len <= ROLDLEN && OLD(RM)->m_body.ch_len == ROLDLEN - C1->btrace_len && g_fin_last_count == OLD(RM)->m_body.ch_len
    && g_pipe_recv_pipe == RP->pipe && g_pipe_recv_aio == &RP->aio_recv && NODE_IDLE(&C1->rqnode)))
/* the socket becomes writable when its own context got the request and the origin pipe is free */
__CPROVER_ensures((R_O_DELIVERED && g_c1_master && !RP->busy) ==> g_pollw)
/* nothing but delivery touches a context or the context queue; delivery removes exactly the first */
#if REP_RQ == 1
__CPROVER_ensures(R_O_DELIVERED ==> LIST_IS_EMPTY(&RS->recvq))
__CPROVER_ensures(!R_O_DELIVERED ==> (LIST_IS_ONE(&RS->recvq, &C1->rqnode) && C1->raio == OLD(C1->raio) && C1->btrace_len == OLD(C1->btrace_len) && C1->pipe_id == OLD(C1->pipe_id)))
#else
__CPROVER_ensures(R_O_DELIVERED ==> LIST_IS_ONE(&RS->recvq, &C2->rqnode))
__CPROVER_ensures(!R_O_DELIVERED ==> (LIST_IS_TWO(&RS->recvq, &C1->rqnode, &C2->rqnode) && C1->raio == OLD(C1->raio) && C1->btrace_len == OLD(C1->btrace_len) && C1->pipe_id == OLD(C1->pipe_id)))
#endif
__CPROVER_ensures(LIST_IS_EMPTY(&RS->recvpipes) && NODE_IDLE(&RP->rnode))
#endif
#if RR_TRACK >= 1
/* ---- class facts and the rest of the body (ghost byte: g_b = old body byte g_k, for EVERY g_k) ---- */
/* disconnected ==> GARBAGE: none of the complete words is a request id */
__CPROVER_ensures(R_O_DISCONN ==> RR_NO_END_BELOW(ROLDLEN >> 2))
/* dropped ==> TOOMANY: none of the first ttl words is a request id */
__CPROVER_ensures(R_O_DROPPED ==> RR_NO_END_BELOW(RS->ttl.v))
#if REP_RQ == 0
/* held ==> ACCEPT: the last moved word is the first with the high bit; the rest of the body is unchanged */
__CPROVER_ensures(R_O_HELD ==> (RR_NO_END_BELOW((R_HL >> 2) - 1) && (g_k == R_HL - 4 ==> RR_HB(g_b))))
__CPROVER_ensures((R_O_HELD && g_k >= R_HL && g_k < ROLDLEN) ==> OLD(RM)->m_body.ch_ptr[g_k - R_HL] == g_b)
#else
/* delivered ==> ACCEPT, the application sees the body behind the request id unchanged */
__CPROVER_ensures(R_O_DELIVERED ==> (RR_NO_END_BELOW((C1->btrace_len >> 2) - 1) && (g_k == C1->btrace_len - 4 ==> RR_HB(g_b))))
__CPROVER_ensures((R_O_DELIVERED && g_k >= C1->btrace_len && g_k < ROLDLEN) ==> OLD(RM)->m_body.ch_ptr[g_k - C1->btrace_len] == g_b)
#endif
#endif
#if RR_TRACK == 2
/* ---- content of the backtrace: the moved words, byte for byte, in order ---- */
#if REP_RQ == 0
__CPROVER_ensures((R_O_HELD && g_k < R_HL) ==> HDR(OLD(RM))[g_k] == g_b)
#else
__CPROVER_ensures((R_O_DELIVERED && g_k < C1->btrace_len) ==> BT(C1)[g_k] == g_b)
#endif
#endif
;
#endif
/* clang-format on */
#endif
