/* mem64.h -- exact, loop-free model of memcpy for copies of at most 64 bytes
 * (the message header / backtrace capacity, (NNI_MAX_MAX_TTL+1)*4, a constant
 * of the code).  CBMC's built-in memcpy with a symbolic length into a field of
 * a large struct (rep0_ctx inside rep0_sock) ran out of memory; the byte-loop
 * model of include/env_mem.h cannot be used under a woven loop contract.
 * A longer copy is an assertion failure, never silently truncated. */
#ifndef VP_MEM64_H
#define VP_MEM64_H
/* binary decomposition of the length: at most 7 block moves (64 | 32+16+8+4+2+1),
 * each block at the offset given by the higher length bits -- byte for byte the
 * same result as a forward byte copy of non-overlapping regions */
struct vp_b64 { uint8_t b[64]; };
struct vp_b32 { uint8_t b[32]; };
struct vp_b16 { uint8_t b[16]; };
struct vp_b8 { uint8_t b[8]; };
struct vp_b4 { uint8_t b[4]; };
struct vp_b2 { uint8_t b[2]; };
#define VP_BLK(T, off) (*(struct T *) (d + (off)) = *(const struct T *) (s + (off)))
static inline void *
vp_memcpy64(void *dst, const void *src, size_t n)
{
	const uint8_t *s = (const uint8_t *) src;
	uint8_t       *d = (uint8_t *) dst;
	__CPROVER_assert(n <= 64, "memcpy length within the 64-byte header constant (model limit)");
	__CPROVER_assert(__CPROVER_r_ok(src, n), "memcpy source region readable");
	__CPROVER_assert(__CPROVER_w_ok(dst, n), "memcpy destination region writeable");
	__CPROVER_assert(n == 0 || !__CPROVER_same_object(d, s) ||
	        (size_t) __CPROVER_POINTER_OFFSET(d) >= (size_t) __CPROVER_POINTER_OFFSET(s) + n ||
	        (size_t) __CPROVER_POINTER_OFFSET(s) >= (size_t) __CPROVER_POINTER_OFFSET(d) + n,
	    "memcpy regions do not overlap");
	/* the two region assertions above cover every byte access below */
#pragma CPROVER check push
#pragma CPROVER check disable "pointer"
#pragma CPROVER check disable "bounds"
#pragma CPROVER check disable "pointer-overflow"
#pragma CPROVER check disable "pointer-primitive"
	if (n <= 64) {
		if (n == 64) {
			VP_BLK(vp_b64, 0);
		} else {
			if (n & 32) { VP_BLK(vp_b32, 0); }
			if (n & 16) { VP_BLK(vp_b16, n & 32); }
			if (n & 8) { VP_BLK(vp_b8, n & 48); }
			if (n & 4) { VP_BLK(vp_b4, n & 56); }
			if (n & 2) { VP_BLK(vp_b2, n & 60); }
			if (n & 1) { d[n & 62] = s[n & 62]; }
		}
	}
#pragma CPROVER check pop
	return (dst);
}
#define memcpy vp_memcpy64
#endif
