/* Spec macros for src/sp/protocol/reqrep0/rep.c (C04, C13, C11).  No code.
 * Intrusive lists are the REAL ones (src/core/list.c); preconditions describe
 * bounded shapes (0, 1 or 2 members) with pointer_in_range_dfcc pinning every
 * link.  The functions under contract only touch the first member and its
 * neighbours, so longer lists behave the same, but that is an argument, not a
 * check: units that depend on a list shape are graded B (K <= 2). */
#ifndef VP_REP_SPEC_H
#define VP_REP_SPEC_H
#define PTR_IS(p, target) __CPROVER_pointer_in_range_dfcc((target), (p), (target))
#define L_HEAD(l) (&(l)->ll_head)
#define LIST_EMPTY_PRE(l, off)                                             \
	((l)->ll_offset == (off) && PTR_IS((l)->ll_head.ln_next, L_HEAD(l)) && \
	    PTR_IS((l)->ll_head.ln_prev, L_HEAD(l)))
#define LIST_ONE_PRE(l, off, n1)                                           \
	((l)->ll_offset == (off) && PTR_IS((l)->ll_head.ln_next, (n1)) &&      \
	    PTR_IS((l)->ll_head.ln_prev, (n1)) && PTR_IS((n1)->ln_next, L_HEAD(l)) && \
	    PTR_IS((n1)->ln_prev, L_HEAD(l)))
#define LIST_TWO_PRE(l, off, n1, n2)                                       \
	((l)->ll_offset == (off) && PTR_IS((l)->ll_head.ln_next, (n1)) &&      \
	    PTR_IS((n1)->ln_next, (n2)) && PTR_IS((n2)->ln_next, L_HEAD(l)) && \
	    PTR_IS((l)->ll_head.ln_prev, (n2)) && PTR_IS((n2)->ln_prev, (n1)) && \
	    PTR_IS((n1)->ln_prev, L_HEAD(l)))
#define NODE_IDLE(n) ((n)->ln_next == NULL && (n)->ln_prev == NULL)
/* post-state shapes (plain comparisons, checked) */
#define LIST_IS_EMPTY(l) ((l)->ll_head.ln_next == L_HEAD(l) && (l)->ll_head.ln_prev == L_HEAD(l))
#define LIST_IS_ONE(l, n1)                                                 \
	((l)->ll_head.ln_next == (n1) && (l)->ll_head.ln_prev == (n1) &&       \
	    (n1)->ln_next == L_HEAD(l) && (n1)->ln_prev == L_HEAD(l))
#define LIST_IS_TWO(l, n1, n2)                                             \
	((l)->ll_head.ln_next == (n1) && (n1)->ln_next == (n2) && (n2)->ln_next == L_HEAD(l) && \
	    (l)->ll_head.ln_prev == (n2) && (n2)->ln_prev == (n1) && (n1)->ln_prev == L_HEAD(l))

#define C1 ((rep0_ctx *) g_c1)
#define C2 ((rep0_ctx *) g_c2)
#define P1 ((rep0_pipe *) g_p1)
#define OFF_RQ offsetof(rep0_ctx, rqnode)
#define OFF_SQ offsetof(rep0_ctx, sqnode)
#define OFF_RP offsetof(rep0_pipe, rnode)

/* the first context: the socket's own or a separately allocated one */
#if defined(REP_C1M) && REP_C1M == 1
#define REP_C1_PRE(s) (g_c1_master && PTR_IS(g_c1, (void *) &(s)->ctx))
#elif defined(REP_C1M)
#define REP_C1_PRE(s) (!g_c1_master && __CPROVER_is_fresh(g_c1, sizeof(struct rep0_ctx)))
#else
#define REP_C1_PRE(s)                                                      \
	(g_c1_master ? PTR_IS(g_c1, (void *) &(s)->ctx)                        \
	             : __CPROVER_is_fresh(g_c1, sizeof(struct rep0_ctx)))
#endif
/* s->recvq: contexts waiting for a request (each with its waiting aio).
 * The shape is fixed per unit by -DREP_RQ=0|1|2 (case split over the bound). */
#if REP_RQ == 0
#define REP_RECVQ_PRE(s) (g_rq_shape == 0 && LIST_EMPTY_PRE(&(s)->recvq, OFF_RQ))
#elif REP_RQ == 1
#define REP_RECVQ_PRE(s)                                                   \
	(g_rq_shape == 1 && REP_C1_PRE(s) && __CPROVER_is_fresh(C1->raio, sizeof(nni_aio)) && \
	    LIST_ONE_PRE(&(s)->recvq, OFF_RQ, &C1->rqnode))
#else
#define REP_RECVQ_PRE(s)                                                   \
	(g_rq_shape == 2 && REP_C1_PRE(s) && __CPROVER_is_fresh(C1->raio, sizeof(nni_aio)) && \
	    __CPROVER_is_fresh(g_c2, sizeof(struct rep0_ctx)) &&               \
	    LIST_TWO_PRE(&(s)->recvq, OFF_RQ, &C1->rqnode, &C2->rqnode))
#endif
/* s->recvpipes: other pipes holding a request nobody has asked for yet
 * (-DREP_RP=0|1).  State invariant of rep.c: a pipe is parked there only
 * while no context waits, so REP_RQ > 0 goes with REP_RP == 0. */
#if REP_RP == 0
#define REP_RECVPIPES_PRE(s) (g_rp_shape == 0 && LIST_EMPTY_PRE(&(s)->recvpipes, OFF_RP))
#else
#define REP_RECVPIPES_PRE(s)                                               \
	(g_rp_shape == 1 && __CPROVER_is_fresh(g_p1, sizeof(struct rep0_pipe)) && \
	    LIST_ONE_PRE(&(s)->recvpipes, OFF_RP, &P1->rnode))
#endif
#endif
