/* Environment of aio.c (ASSUMED models, ghost state only).
 *
 * Sequential model: no thread interleaving is explored.  The expire-queue
 * mutex is the ghost lock of include/env_sync.h; task dispatch / execution /
 * preparation are ghost counters; the expire list and the provider list are
 * reduced to "is THE aio on it"; the clock is an arbitrary monotone value. */

#define VP_EQ_LOCKED (g_held_a && g_mtx_a == g_eq_mtx)

/* ---- completion task -------------------------------------------------- */
void nni_task_init(nni_task *t, nni_taskq *tq, nni_cb cb, void *arg)
{
	(void) tq;
	t->task_cb  = cb;
	t->task_arg = arg;
	g_task_init++;
	g_busy    = 0;
	g_prepped = false;
}
void nni_task_fini(nni_task *t)
{
	__CPROVER_assert(t == g_task_addr, "task: the aio's own completion task");
	__CPROVER_assert(VP_NO_LOCK_HELD, "task fini (waits for the callback) with no lock held");
	g_cancel_at_wait = g_cancel_calls;
	g_task_fini++;
}
void nni_task_prep(nni_task *t)
{
	__CPROVER_assert(t == g_task_addr, "task: the aio's own completion task");
	__CPROVER_assert(VP_NO_LOCK_HELD, "task prep outside the expire lock (no lock nesting)");
	g_prep++;
	g_busy++;
	g_prepped = true;
}
static void vp_task_claim(void)
{
	/* core/taskq.c: a prepared task is already counted busy */
	if (g_prepped) {
		g_prepped = false;
	} else {
		g_busy++;
	}
}
void nni_task_dispatch(nni_task *t)
{
	__CPROVER_assert(t == g_task_addr, "task: the aio's own completion task");
	vp_task_claim();
	g_dispatched++;
}
void nni_task_exec(nni_task *t)
{
	__CPROVER_assert(t == g_task_addr, "task: the aio's own completion task");
	__CPROVER_assert(VP_NO_LOCK_HELD, "synchronous callback execution with no lock held");
	vp_task_claim();
	g_exec++;
	g_busy--; /* the callback has run when exec returns */
}
void nni_task_wait(nni_task *t)
{
	__CPROVER_assert(t == g_task_addr, "task: the aio's own completion task");
	__CPROVER_assert(VP_NO_LOCK_HELD, "task wait with no lock held");
	g_cancel_at_wait = g_cancel_calls;
	g_task_wait++;
}
bool nni_task_busy(nni_task *t)
{
	__CPROVER_assert(t == g_task_addr, "task: the aio's own completion task");
	return (g_busy != 0);
}

/* ---- clock, random, reaper, messages ---------------------------------- */
nni_time nni_clock(void)
{
	nni_time t = nondet_u64();
	/* ASSUMED: monotone millisecond clock far from wrap-around */
	__CPROVER_assume(t >= g_now && t < ((nni_time) 1 << 62));
	g_now = t;
	g_clock_calls++;
	return (t);
}
uint32_t nni_random(void) { return (g_random); }
void nni_reap(nni_reap_list *rl, void *item)
{
	(void) rl;
	g_reaped++;
	g_reap_item = item;
}
size_t nni_msg_len(const nni_msg *m) { (void) m; return (g_msg_len); }

/* ---- condition variable, threads -------------------------------------- */
void nni_cv_init(nni_cv *cv, nni_mtx *m) { (void) cv; (void) m; }
void nni_cv_fini(nni_cv *cv) { (void) cv; }
void nni_cv_wake(nni_cv *cv)
{
	__CPROVER_assert(cv == g_eq_cv, "cv: the expire queue's condition variable");
	__CPROVER_assert(VP_EQ_LOCKED, "cv wake under the expire lock");
	g_cv_wake++;
}
void nni_cv_wake1(nni_cv *cv) { nni_cv_wake(cv); }
void nni_cv_wait(nni_cv *cv)
{
	__CPROVER_assert(cv == g_eq_cv, "cv: the expire queue's condition variable");
	__CPROVER_assert(VP_EQ_LOCKED, "cv wait under the expire lock");
	g_cv_waits++;
	/* Sequential stand-in for the one cross-thread effect this wait is for:
	 * the expire thread drops its temporary hold on the aio. */
	if (g_self != NULL) {
		g_self->a_expiring = false;
	}
}
int nni_cv_until(nni_cv *cv, nni_time when) { (void) when; nni_cv_wait(cv); return (0); }
int nni_thr_init(nni_thr *thr, nni_thr_func fn, void *arg) { (void) thr; (void) fn; (void) arg; return (nondet_int()); }
void nni_thr_fini(nni_thr *thr) { (void) thr; }
void nni_thr_run(nni_thr *thr) { (void) thr; }
void nni_thr_set_name(nni_thr *thr, const char *n) { (void) thr; (void) n; }

/* ---- lists ------------------------------------------------------------ */
void nni_list_init_offset(nni_list *l, size_t off) { (void) l; (void) off; }
void nni_list_node_remove(nni_list_node *n)
{
	__CPROVER_assert(n == g_exp_node || n == g_prov_node, "list node of the aio under study");
	if (n == g_exp_node) {
		__CPROVER_assert(VP_EQ_LOCKED, "expire list changed only under the expire lock");
		g_exp_on = false;
	} else {
		g_prov_on = false;
	}
}
int nni_list_node_active(nni_list_node *n)
{
	__CPROVER_assert(n == g_exp_node || n == g_prov_node, "list node of the aio under study");
	return (n == g_exp_node ? g_exp_on : g_prov_on);
}
void nni_list_append(nni_list *l, void *item)
{
	if (l == g_eq_list) {
		__CPROVER_assert(VP_EQ_LOCKED, "expire list changed only under the expire lock");
		__CPROVER_assert(item == (void *) g_self, "expire list: the aio under study");
		__CPROVER_assert(!g_exp_on, "expire list: aio inserted while already a member");
		g_exp_on = true;
		g_exp_add++;
	} else {
		__CPROVER_assert(!g_prov_on, "provider list: aio appended while already a member");
		g_prov_on = true;
	}
}
/* only used by the expire thread / drain code, which is not under contract */
void *nni_list_first(const nni_list *l) { (void) l; return (nondet_ptr()); }
void *nni_list_next(const nni_list *l, void *i) { (void) l; (void) i; return (nondet_ptr()); }
void  nni_list_remove(nni_list *l, void *i) { (void) l; (void) i; }
int   nni_list_empty(nni_list *l) { (void) l; return (nondet_int()); }

/* ---- the provider's cancel function ------------------------------------ */
static void
vp_cancel(nni_aio *aio, void *arg, nng_err rv)
{
	__CPROVER_assert(VP_NO_LOCK_HELD, "cancel function invoked with the expire lock released");
	__CPROVER_assert(aio->a_cancel_fn == NULL, "single-winner token: cancel slot already cleared when the cancel function runs");
	__CPROVER_assert(!g_exp_on, "aio off the expire list when the cancel function runs");
	g_cancel_calls++;
	g_cancel_aio = aio;
	g_cancel_arg = arg;
	g_cancel_rv  = (int) rv;
	if (g_cancel_finishes) {
		/* the usual provider: "still on my list => I complete it with rv" */
		nni_aio_finish_error(aio, rv);
	}
}
/* make vp_cancel a candidate target of the indirect calls fn(aio, arg, rv) */
nni_aio_cancel_fn vp_cancel_ref = vp_cancel;
