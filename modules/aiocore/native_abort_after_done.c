/* C02: "a cancel ... code is reported only if the operation had not already completed"
 * docs/ref/api/aio.md: "If no operation is in progress (perhaps because it has already
 * completed), then these operations have no effect." */
#include <nng/nng.h>
#include <stdio.h>
int main(void)
{
	nng_aio *aio;
	nng_init(NULL);
	nng_aio_alloc(&aio, NULL, NULL);
	nng_sleep_aio(1, aio);
	nng_aio_wait(aio); /* the operation has completed */
	int before = nng_aio_result(aio);
	nng_aio_abort(aio, NNG_ECANCELED); /* documented: no effect */
	int after = nng_aio_result(aio);
	printf("result of the completed sleep: %d; after nng_aio_abort on the completed aio: %d\n", before, after);
	nng_aio_free(aio);
	return (before == after ? 0 : 1);
}
