/* Contracts for the completion hand-off functions of src/core/aio.c (C02:
 * every asynchronous operation completes exactly once).
 *
 * Sequential contracts: each states the hand-off protocol that the races
 * finish / abort / expire / stop rely on -- who may complete, that the cancel
 * slot is a single-winner token taken under the expire lock, and that every
 * path issues exactly the promised number of completions.  Interleavings are
 * NOT explored. */
#ifndef VP_AIOCORE_CONTRACTS_H
#define VP_AIOCORE_CONTRACTS_H
/* clang-format off */
#define RV __CPROVER_return_value
#define OLD(e) __CPROVER_old(e)

/* ---- nni_aio_start ------------------------------------------------------ */
bool nni_aio_start(nni_aio *aio, nni_aio_cancel_fn cancel, void *data)
__CPROVER_requires(AIO_PRE0(aio) && AIO_IDLE(aio))
/* documented durations: >= 0 or the two special values */
__CPROVER_requires(aio->a_timeout >= NNG_DURATION_DEFAULT)
__CPROVER_assigns(aio->a_expire, aio->a_expire_ok, aio->a_skipped_callback, aio->a_stop, aio->a_sleep, aio->a_count, aio->a_result, aio->a_stopped, aio->a_abort, aio->a_cancel_fn, aio->a_cancel_arg, aio->a_expire_q->eq_next)
__CPROVER_assigns(AIO_TASK_GHOSTS, g_now, g_clock_calls, g_exp_on, g_exp_add, g_cv_wake, VP_SYNC_GHOSTS)
/* lock released on every path; the task was prepared exactly once; the skip flag is disarmed */
__CPROVER_ensures(VP_NO_LOCK_HELD && g_prep == OLD(g_prep) + 1 && g_exec == OLD(g_exec) && aio->a_skipped_callback == NULL)
__CPROVER_ensures(g_now >= OLD(g_now))
/* the clock is consulted only when a relative timeout has to be converted or an absolute one compared */
__CPROVER_ensures(((OLD(aio->a_sleep) || aio->a_timeout <= 0) && !OLD(aio->a_use_expire)) ==> (g_now == OLD(g_now) && g_clock_calls == OLD(g_clock_calls)))
/* refused: exactly one completion is dispatched and the provider's cancel function was never installed */
__CPROVER_ensures(!RV ==> (g_dispatched == OLD(g_dispatched) + 1 && !g_prepped && g_busy == OLD(g_busy) + 1))
__CPROVER_ensures(!RV ==> (aio->a_cancel_fn == NULL && aio->a_cancel_arg == OLD(aio->a_cancel_arg) && !g_exp_on && g_exp_add == OLD(g_exp_add) && !aio->a_sleep && aio->a_count == 0))
/* ... and the result says why: stop latch, then latched abort code, then zero / elapsed timeout */
__CPROVER_ensures(RV == !(OLD(aio->a_stop) || OLD(aio->a_expire_q->eq_stop) || OLD(aio->a_abort) ||
        (!OLD(aio->a_sleep) && !OLD(aio->a_use_expire) && aio->a_timeout == NNG_DURATION_ZERO) ||
        (OLD(aio->a_use_expire) && OLD(aio->a_expire) <= g_now)))
__CPROVER_ensures((!RV && (OLD(aio->a_stop) || OLD(aio->a_expire_q->eq_stop))) ==> (aio->a_result == NNG_ESTOPPED && aio->a_stop))
__CPROVER_ensures((!RV && !OLD(aio->a_stop) && !OLD(aio->a_expire_q->eq_stop) && OLD(aio->a_abort)) ==> (aio->a_result == OLD(AIO_ABORT_CODE(aio)) && !aio->a_abort && !aio->a_stop))
__CPROVER_ensures((!RV && !OLD(aio->a_stop) && !OLD(aio->a_expire_q->eq_stop) && !OLD(aio->a_abort)) ==>
        (aio->a_result == ((OLD(aio->a_sleep) && OLD(aio->a_expire_ok)) ? NNG_OK : NNG_ETIMEDOUT) && !aio->a_stop))
/* accepted: nothing dispatched yet, the cancel function is installed, clean result */
__CPROVER_ensures(RV ==> (g_dispatched == OLD(g_dispatched) && g_prepped && g_busy == OLD(g_busy) + 1))
__CPROVER_ensures(RV ==> (aio->a_cancel_fn == cancel && aio->a_cancel_arg == data && aio->a_result == NNG_OK && !aio->a_stop && !aio->a_abort))
__CPROVER_ensures(RV ==> (aio->a_sleep == OLD(aio->a_sleep) && aio->a_count == OLD(aio->a_count) && aio->a_stopped == OLD(aio->a_stopped) && (OLD(aio->a_sleep) ? aio->a_expire_ok == OLD(aio->a_expire_ok) : !aio->a_expire_ok)))
__CPROVER_ensures(!RV ==> !aio->a_expire_ok)
/* a timeout never fires before the configured duration: the deadline is exactly (clock read in this call) + timeout */
__CPROVER_ensures((RV && !OLD(aio->a_sleep) && !OLD(aio->a_use_expire) && aio->a_timeout > 0) ==> (aio->a_expire == g_now + (nni_time) aio->a_timeout && g_clock_calls == OLD(g_clock_calls) + 1))
__CPROVER_ensures((RV && !OLD(aio->a_sleep) && !OLD(aio->a_use_expire) && aio->a_timeout < 0) ==> aio->a_expire == NNI_TIME_NEVER)
/* an absolute deadline given by the caller (nng_aio_set_expire, sleep) is used as is */
__CPROVER_ensures((RV && (OLD(aio->a_sleep) || OLD(aio->a_use_expire))) ==> aio->a_expire == OLD(aio->a_expire))
/* on the expire list iff it has a deadline and can be cancelled; the expire thread's next wake-up is not later than the deadline */
__CPROVER_ensures(RV ==> (g_exp_on == (aio->a_expire != NNI_TIME_NEVER && cancel != NULL)))
__CPROVER_ensures((RV && g_exp_on) ==> (aio->a_expire_q->eq_next <= aio->a_expire && (aio->a_expire_q->eq_next == OLD(aio->a_expire_q->eq_next) || g_cv_wake == OLD(g_cv_wake) + 1)))
__CPROVER_ensures(aio->a_sleep ==> (RV && OLD(aio->a_sleep)))
/* the state invariant is re-established (given that the provider installs the model cancel function, and the sleep its own) */
__CPROVER_ensures(((cancel == NULL || cancel == vp_cancel || cancel == nni_sleep_cancel) && (!OLD(aio->a_sleep) || cancel == nni_sleep_cancel)) ==> AIO_INV_POST(aio))
;

/* ---- nni_aio_finish_impl and its four entry points ---------------------- */
static void nni_aio_finish_impl(nni_aio *aio, nng_err rv, size_t count, nni_msg *msg, bool sync)
__CPROVER_requires(AIO_PRE0(aio))
__CPROVER_assigns(AIO_FINISH_FIELDS(aio), AIO_TASK_GHOSTS, g_exp_on, VP_SYNC_GHOSTS)
__CPROVER_assigns(aio->a_skipped_callback != NULL: *aio->a_skipped_callback)
__CPROVER_ensures(VP_NO_LOCK_HELD)
/* the completion token is taken: slot cleared, off the expire list (both under the lock, asserted by the stubs), sleep token cleared */
__CPROVER_ensures(aio->a_cancel_fn == NULL && aio->a_cancel_arg == NULL && !g_exp_on && !aio->a_sleep && aio->a_skipped_callback == NULL)
__CPROVER_ensures(aio->a_expire == NNI_TIME_NEVER && !aio->a_use_expire && AIO_INV_POST(aio))
/* result / count / message stored as given */
__CPROVER_ensures(aio->a_result == rv && aio->a_count == count)
__CPROVER_ensures(msg != NULL ? aio->a_msg == msg : aio->a_msg == OLD(aio->a_msg))
/* exactly one of { skip flag set, synchronous execution, dispatch } */
__CPROVER_ensures(OLD(aio->a_skipped_callback) != NULL ==> (*OLD(aio->a_skipped_callback) && AIO_NO_COMPLETION(OLD(g_dispatched), OLD(g_exec))))
__CPROVER_ensures((OLD(aio->a_skipped_callback) == NULL && sync) ==> (g_exec == OLD(g_exec) + 1 && g_dispatched == OLD(g_dispatched)))
__CPROVER_ensures((OLD(aio->a_skipped_callback) == NULL && !sync) ==> (g_dispatched == OLD(g_dispatched) + 1 && g_exec == OLD(g_exec)))
/* busy counting: a prepared task is not counted twice */
__CPROVER_ensures(g_prep == OLD(g_prep))
__CPROVER_ensures(OLD(aio->a_skipped_callback) != NULL ==> (g_busy == OLD(g_busy) && g_prepped == OLD(g_prepped)))
__CPROVER_ensures((OLD(aio->a_skipped_callback) == NULL && !sync) ==> (!g_prepped && g_busy == OLD(g_busy) + (OLD(g_prepped) ? 0 : 1)))
__CPROVER_ensures((OLD(aio->a_skipped_callback) == NULL && sync) ==> (!g_prepped && g_busy + (OLD(g_prepped) ? 1 : 0) == OLD(g_busy)))
;

#define AIO_FINISH_CONTRACT(RVAL, COUNT, MSG, SYNC)                                                        \
__CPROVER_requires(AIO_PRE0(aio))                                                                          \
__CPROVER_assigns(AIO_FINISH_FIELDS(aio), AIO_TASK_GHOSTS, g_exp_on, VP_SYNC_GHOSTS)                       \
__CPROVER_assigns(aio->a_skipped_callback != NULL: *aio->a_skipped_callback)                               \
__CPROVER_ensures(VP_NO_LOCK_HELD && aio->a_cancel_fn == NULL && aio->a_cancel_arg == NULL && !g_exp_on && !aio->a_sleep && aio->a_skipped_callback == NULL) \
__CPROVER_ensures(aio->a_result == (RVAL) && aio->a_count == (COUNT) && AIO_INV_POST(aio))                 \
__CPROVER_ensures((MSG) != NULL ? aio->a_msg == (MSG) : aio->a_msg == OLD(aio->a_msg))                     \
__CPROVER_ensures(OLD(aio->a_skipped_callback) != NULL ==> (*OLD(aio->a_skipped_callback) && AIO_NO_COMPLETION(OLD(g_dispatched), OLD(g_exec)))) \
__CPROVER_ensures((OLD(aio->a_skipped_callback) == NULL && (SYNC)) ==> (g_exec == OLD(g_exec) + 1 && g_dispatched == OLD(g_dispatched)))        \
__CPROVER_ensures((OLD(aio->a_skipped_callback) == NULL && !(SYNC)) ==> (g_dispatched == OLD(g_dispatched) + 1 && g_exec == OLD(g_exec)))

void nni_aio_finish(nni_aio *aio, nng_err result, size_t count)
AIO_FINISH_CONTRACT(result, count, (nni_msg *) NULL, false);
void nni_aio_finish_sync(nni_aio *aio, nng_err result, size_t count)
AIO_FINISH_CONTRACT(result, count, (nni_msg *) NULL, true);
void nni_aio_finish_error(nni_aio *aio, nng_err result)
AIO_FINISH_CONTRACT(result, 0, (nni_msg *) NULL, false);
void nni_aio_finish_msg(nni_aio *aio, nni_msg *msg)
__CPROVER_requires(msg != NULL)
AIO_FINISH_CONTRACT(NNG_OK, g_msg_len, msg, false);

/* ---- abort / stop / close / fini: the cancel slot is a single-winner token */
#define AIO_TAKE_ASSIGNS(aio)                                                                              \
__CPROVER_assigns(aio != NULL: AIO_FINISH_FIELDS(aio), aio->a_abort, AIO_ABORT_CODE(aio), aio->a_stop, aio->a_expiring)         \
__CPROVER_assigns(aio != NULL && aio->a_skipped_callback != NULL: *aio->a_skipped_callback)                \
__CPROVER_assigns(AIO_TASK_GHOSTS, AIO_CANCEL_GHOSTS, g_exp_on, g_cv_waits, g_task_wait, g_task_fini, g_cancel_at_wait, VP_SYNC_GHOSTS)

/* what happened to the token (OFN = slot before the call, CODE = code handed to the provider) */
#define AIO_TOKEN_POST(aio, CODE)                                                                          \
/* lock released; slot empty afterwards; off the expire list */                                            \
__CPROVER_ensures(VP_NO_LOCK_HELD)                                                                         \
__CPROVER_ensures(aio != NULL && aio->a_init ==> (aio->a_cancel_fn == NULL && aio->a_cancel_arg == NULL && !g_exp_on)) \
/* the provider's function runs at most once, only if the slot was occupied, with its own argument and the code (lock released and slot already empty: asserted inside vp_cancel) */ \
__CPROVER_ensures((aio != NULL && aio->a_init && OLD(aio->a_cancel_fn) == vp_cancel) ==> (g_cancel_calls == OLD(g_cancel_calls) + 1 && g_cancel_aio == aio && g_cancel_arg == OLD(aio->a_cancel_arg) && g_cancel_rv == (int) (CODE))) \
__CPROVER_ensures(!(aio != NULL && aio->a_init && OLD(aio->a_cancel_fn) == vp_cancel) ==> g_cancel_calls == OLD(g_cancel_calls)) \
/* a provider that still owns the operation completes it exactly once with that code; one that does not, leaves it alone */ \
__CPROVER_ensures((aio != NULL && aio->a_init && OLD(aio->a_cancel_fn) == vp_cancel && g_cancel_finishes) ==> (aio->a_result == (CODE) && AIO_ONE_ASYNC_COMPLETION(aio, OLD(aio->a_skipped_callback), OLD(g_dispatched), OLD(g_exec)))) \
__CPROVER_ensures((aio != NULL && aio->a_init && OLD(aio->a_cancel_fn) == vp_cancel && !g_cancel_finishes) ==> AIO_NO_COMPLETION(OLD(g_dispatched), OLD(g_exec))) \
/* a sleeping aio is completed by the sleep cancel iff the sleep token is still there */                   \
__CPROVER_ensures((aio != NULL && aio->a_init && OLD(aio->a_cancel_fn) == nni_sleep_cancel && OLD(aio->a_sleep)) ==> (aio->a_result == (CODE) && !aio->a_sleep && AIO_ONE_ASYNC_COMPLETION(aio, OLD(aio->a_skipped_callback), OLD(g_dispatched), OLD(g_exec)))) \
__CPROVER_ensures((aio != NULL && aio->a_init && OLD(aio->a_cancel_fn) == nni_sleep_cancel && !OLD(aio->a_sleep)) ==> AIO_NO_COMPLETION(OLD(g_dispatched), OLD(g_exec))) \
/* empty slot: nothing is completed here, and -- "a cancel, stop or timeout code is reported only if the operation had not already completed" -- the result that nng_aio_result reports is left alone; likewise when the provider / the sleep no longer owns the operation */ \
__CPROVER_ensures((aio != NULL && aio->a_init && (OLD(aio->a_cancel_fn) == NULL || (OLD(aio->a_cancel_fn) == vp_cancel && !g_cancel_finishes) || (OLD(aio->a_cancel_fn) == nni_sleep_cancel && !OLD(aio->a_sleep)))) ==> (aio->a_result == OLD(aio->a_result) && aio->a_count == OLD(aio->a_count))) \
__CPROVER_ensures((aio == NULL || !aio->a_init || OLD(aio->a_cancel_fn) == NULL) ==> AIO_NO_COMPLETION(OLD(g_dispatched), OLD(g_exec))) \
__CPROVER_ensures(g_prep == OLD(g_prep))                                                                   \
__CPROVER_ensures(aio != NULL ==> AIO_INV_POST(aio))

void nni_aio_abort(nni_aio *aio, nng_err rv)
__CPROVER_requires(aio == NULL || AIO_PRE(aio))
__CPROVER_requires(VP_NO_LOCK_HELD)
AIO_TAKE_ASSIGNS(aio)
AIO_TOKEN_POST(aio, rv)
/* nothing to cancel yet: the code is latched for the next nni_aio_start */
__CPROVER_ensures((aio != NULL && aio->a_init && OLD(aio->a_cancel_fn) == NULL) ==> (aio->a_abort && AIO_ABORT_CODE(aio) == rv))
__CPROVER_ensures((aio != NULL && aio->a_init && OLD(aio->a_cancel_fn) != NULL) ==> aio->a_abort == OLD(aio->a_abort))
__CPROVER_ensures(aio != NULL ==> (aio->a_stop == OLD(aio->a_stop) && aio->a_expiring == OLD(aio->a_expiring)))
__CPROVER_ensures(g_task_wait == OLD(g_task_wait) && g_cv_waits == OLD(g_cv_waits))
;

void nni_aio_close(nni_aio *aio)
__CPROVER_requires(aio == NULL || AIO_PRE(aio))
__CPROVER_requires(VP_NO_LOCK_HELD)
AIO_TAKE_ASSIGNS(aio)
AIO_TOKEN_POST(aio, NNG_ESTOPPED)
/* stop latch set: every later nni_aio_start is refused; does not wait */
__CPROVER_ensures((aio != NULL && aio->a_init) ==> aio->a_stop)
__CPROVER_ensures(aio != NULL ==> (aio->a_abort == OLD(aio->a_abort) && aio->a_expiring == OLD(aio->a_expiring)))
__CPROVER_ensures(g_task_wait == OLD(g_task_wait) && g_cv_waits == OLD(g_cv_waits))
;

void nni_aio_stop(nni_aio *aio)
__CPROVER_requires(aio == NULL || AIO_PRE(aio))
__CPROVER_requires(VP_NO_LOCK_HELD)
AIO_TAKE_ASSIGNS(aio)
AIO_TOKEN_POST(aio, NNG_ESTOPPED)
__CPROVER_ensures((aio != NULL && aio->a_init) ==> (aio->a_stop && !aio->a_expiring))
/* waits for the callback exactly once, after the cancel hand-off, with no lock held (asserted in the stub) */
__CPROVER_ensures((aio != NULL && aio->a_init) ==> (g_task_wait == OLD(g_task_wait) + 1 && g_cancel_at_wait == g_cancel_calls))
__CPROVER_ensures((aio == NULL || !aio->a_init) ==> g_task_wait == OLD(g_task_wait))
__CPROVER_ensures(aio != NULL ==> aio->a_abort == OLD(aio->a_abort))
;

void nni_aio_fini(nni_aio *aio)
__CPROVER_requires(aio == NULL || AIO_PRE(aio))
__CPROVER_requires(VP_NO_LOCK_HELD)
AIO_TAKE_ASSIGNS(aio)
AIO_TOKEN_POST(aio, NNG_ESTOPPED)
__CPROVER_ensures((aio != NULL && aio->a_init) ==> (aio->a_stop && !aio->a_expiring))
/* the task is finalised (which waits for a running callback) after the cancel hand-off */
__CPROVER_ensures((aio != NULL && aio->a_init) ==> (g_task_fini == OLD(g_task_fini) + 1 && g_cancel_at_wait == g_cancel_calls))
__CPROVER_ensures((aio == NULL || !aio->a_init) ==> g_task_fini == OLD(g_task_fini))
;

/* ---- reset / sleep ------------------------------------------------------ */
void nni_aio_reset(nni_aio *aio)
__CPROVER_requires(__CPROVER_is_fresh(aio, sizeof(*aio)))
__CPROVER_assigns(aio->a_result, aio->a_count, aio->a_abort, aio->a_expire_ok, aio->a_sleep, aio->a_skipped_callback, __CPROVER_object_upto(aio->a_outputs, sizeof(aio->a_outputs)))
/* a fresh submission carries no stale result, abort latch, sleep token or skip flag */
__CPROVER_ensures(aio->a_result == NNG_OK && aio->a_count == 0 && !aio->a_abort && !aio->a_expire_ok && !aio->a_sleep && aio->a_skipped_callback == NULL)
__CPROVER_ensures(aio->a_outputs[0] == NULL && aio->a_outputs[1] == NULL && aio->a_outputs[2] == NULL && aio->a_outputs[3] == NULL)
;

static void nni_sleep_cancel(nng_aio *aio, void *arg, nng_err rv)
__CPROVER_requires(AIO_PRE(aio))
__CPROVER_assigns(AIO_FINISH_FIELDS(aio), AIO_TASK_GHOSTS, g_exp_on, VP_SYNC_GHOSTS)
__CPROVER_assigns(aio->a_skipped_callback != NULL: *aio->a_skipped_callback)
__CPROVER_ensures(VP_NO_LOCK_HELD && !aio->a_sleep && AIO_INV_POST(aio))
/* the sleep token decides: still sleeping => completed once with the code; otherwise the sleep already completed and nothing is reported */
__CPROVER_ensures(OLD(aio->a_sleep) ==> (aio->a_result == rv && aio->a_cancel_fn == NULL && !g_exp_on && AIO_ONE_ASYNC_COMPLETION(aio, OLD(aio->a_skipped_callback), OLD(g_dispatched), OLD(g_exec))))
__CPROVER_ensures(!OLD(aio->a_sleep) ==> (AIO_NO_COMPLETION(OLD(g_dispatched), OLD(g_exec)) && aio->a_result == OLD(aio->a_result) && g_exp_on == OLD(g_exp_on)))
;

void nni_sleep_aio(nng_duration ms, nng_aio *aio)
__CPROVER_requires(AIO_PRE(aio) && AIO_IDLE(aio))
__CPROVER_requires(aio->a_timeout >= NNG_DURATION_DEFAULT && ms >= NNG_DURATION_INFINITE && !aio->a_use_expire)
__CPROVER_assigns(aio->a_expire, aio->a_expire_ok, aio->a_skipped_callback, aio->a_stop, aio->a_sleep, aio->a_count, aio->a_result, aio->a_stopped, aio->a_abort, aio->a_cancel_fn, aio->a_cancel_arg, aio->a_expire_q->eq_next, __CPROVER_object_upto(aio->a_outputs, sizeof(aio->a_outputs)))
__CPROVER_assigns(AIO_TASK_GHOSTS, g_now, g_clock_calls, g_exp_on, g_exp_add, g_cv_wake, VP_SYNC_GHOSTS)
__CPROVER_ensures(VP_NO_LOCK_HELD && g_prep == OLD(g_prep) + 1 && g_exec == OLD(g_exec) && AIO_INV_POST(aio))
/* either the sleep is armed (sleep token + sleep cancel installed, nothing dispatched) or it was refused with exactly one dispatch */
__CPROVER_ensures(aio->a_sleep ? (aio->a_cancel_fn == nni_sleep_cancel && g_dispatched == OLD(g_dispatched) && aio->a_result == NNG_OK && !OLD(aio->a_stop) && !OLD(aio->a_expire_q->eq_stop))
                               : (aio->a_cancel_fn == NULL && g_dispatched == OLD(g_dispatched) + 1 && !g_exp_on && aio->a_result == NNG_ESTOPPED && (OLD(aio->a_stop) || OLD(aio->a_expire_q->eq_stop))))
/* never early: the wake-up time is (clock read in this call) + the shorter of ms and the aio's own timeout; waking at the full ms is a success, waking early at the aio timeout is NNG_ETIMEDOUT */
__CPROVER_ensures((aio->a_sleep && aio->a_timeout < 0) ==> (aio->a_expire_ok && aio->a_expire == (ms == NNG_DURATION_INFINITE ? NNI_TIME_NEVER : g_now + (nni_time) ms)))
__CPROVER_ensures((aio->a_sleep && aio->a_timeout >= 0 && ms != NNG_DURATION_INFINITE && ms <= aio->a_timeout) ==> (aio->a_expire_ok && aio->a_expire == g_now + (nni_time) ms))
__CPROVER_ensures((aio->a_sleep && aio->a_timeout >= 0 && (ms == NNG_DURATION_INFINITE || ms > aio->a_timeout)) ==> (!aio->a_expire_ok && aio->a_expire == g_now + (nni_time) aio->a_timeout))
__CPROVER_ensures(aio->a_sleep ==> (g_exp_on == (aio->a_expire != NNI_TIME_NEVER) && g_now >= OLD(g_now)))
__CPROVER_ensures((aio->a_sleep && g_exp_on) ==> aio->a_expire_q->eq_next <= aio->a_expire)
;

/* ---- small accessors that the protocol above leans on -------------------- */
void nni_aio_free(nni_aio *aio)
__CPROVER_requires(aio == NULL || AIO_PRE(aio))
__CPROVER_requires(VP_NO_LOCK_HELD)
AIO_TAKE_ASSIGNS(aio)
__CPROVER_assigns(g_free_calls)
__CPROVER_frees(aio)
/* finalised (cancel hand-off + wait for the callback, see nni_aio_fini) before the memory goes, released once with its size (asserted in nni_free) */
__CPROVER_ensures(VP_NO_LOCK_HELD && g_free_calls == OLD(g_free_calls) + (aio != NULL ? 1 : 0))
__CPROVER_ensures((aio != NULL && OLD(aio->a_init)) ==> (g_task_fini == OLD(g_task_fini) + 1 && g_cancel_at_wait == g_cancel_calls))
__CPROVER_ensures((aio != NULL && OLD(aio->a_init) && OLD(aio->a_cancel_fn) == vp_cancel) ==> g_cancel_calls == OLD(g_cancel_calls) + 1)
;

void nni_aio_wait(nni_aio *aio)
__CPROVER_requires(aio == NULL || AIO_PRE0(aio))
__CPROVER_assigns(g_task_wait, g_cancel_at_wait)
__CPROVER_ensures(g_task_wait == OLD(g_task_wait) + (aio != NULL ? 1 : 0))
;

bool nni_aio_busy(nni_aio *aio)
__CPROVER_requires(AIO_PRE0(aio))
__CPROVER_assigns()
__CPROVER_ensures(RV == (g_busy != 0))
;

void nni_aio_set_timeout(nni_aio *aio, nni_duration when)
__CPROVER_requires(__CPROVER_is_fresh(aio, sizeof(*aio)))
__CPROVER_assigns(aio->a_timeout, aio->a_use_expire)
__CPROVER_ensures(aio->a_timeout == when && !aio->a_use_expire)
;

void nni_aio_set_expire(nni_aio *aio, nni_time expire)
__CPROVER_requires(__CPROVER_is_fresh(aio, sizeof(*aio)))
__CPROVER_assigns(aio->a_expire, aio->a_use_expire)
__CPROVER_ensures(aio->a_expire == expire && aio->a_use_expire)
;

void nni_aio_skip_callback(nni_aio *aio, bool *skipped_callback)
__CPROVER_requires(__CPROVER_is_fresh(aio, sizeof(*aio)) && __CPROVER_is_fresh(skipped_callback, sizeof(bool)))
__CPROVER_assigns(aio->a_skipped_callback, *skipped_callback)
/* armed with the flag still false (AIO_INV0) */
__CPROVER_ensures(aio->a_skipped_callback == skipped_callback && !*skipped_callback)
;

void nni_aio_init(nni_aio *aio, nni_cb cb, void *arg)
__CPROVER_requires(__CPROVER_is_fresh(aio, sizeof(*aio)))
/* the aio subsystem is initialised with 1..AIO_MAX_EQ expire queues (bound of the unit) */
__CPROVER_requires(nni_aio_expire_q_cnt >= 1 && nni_aio_expire_q_cnt <= AIO_MAX_EQ && __CPROVER_is_fresh(nni_aio_expire_q_list, (size_t) nni_aio_expire_q_cnt * sizeof(nni_aio_expire_q *)))
__CPROVER_assigns(__CPROVER_object_whole(aio), g_task_init, g_busy, g_prepped)
/* a new aio: initialised, nothing in flight, no latches, no deadline, bound to an expire queue */
__CPROVER_ensures(aio->a_init && aio->a_cancel_fn == NULL && aio->a_cancel_arg == NULL && !aio->a_stop && !aio->a_abort && !aio->a_sleep && !aio->a_expiring && !aio->a_use_expire && aio->a_skipped_callback == NULL)
__CPROVER_ensures(aio->a_expire == NNI_TIME_NEVER && aio->a_timeout == NNG_DURATION_INFINITE && aio->a_result == NNG_OK && aio->a_count == 0)
__CPROVER_ensures(aio->a_expire_q == nni_aio_expire_q_list[g_random % (uint32_t) nni_aio_expire_q_cnt] && aio->a_task.task_cb == cb && aio->a_task.task_arg == arg && g_busy == 0 && !g_prepped)
__CPROVER_ensures(aio->a_expire_node.ln_next == NULL && aio->a_prov_node.ln_next == NULL)
;
/* clang-format on */
#endif
