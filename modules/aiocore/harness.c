/* One entry per function under contract: arguments unconstrained, ghosts
 * havocked; the precondition (assumed by the DFCC wrapper) is the only
 * restriction. */
#define VP_CNT(x) do { x = nondet_size_t(); __CPROVER_assume(x < ((size_t) 1 << 40)); } while (0)
#define VP_HAVOC_GHOSTS()                                                  \
	do {                                                                   \
		g_task_addr = nondet_ptr(); VP_CNT(g_prep); VP_CNT(g_dispatched);  \
		VP_CNT(g_exec); VP_CNT(g_busy); g_busy++; g_prepped = nondet_bool(); \
		VP_CNT(g_task_wait); VP_CNT(g_task_fini); VP_CNT(g_task_init);     \
		VP_CNT(g_cancel_at_wait);                                          \
		g_now = nondet_u64(); VP_CNT(g_clock_calls);                       \
		g_eq_list = nondet_ptr(); g_exp_node = nondet_ptr();               \
		g_prov_node = nondet_ptr(); g_eq_mtx = nondet_ptr();               \
		g_eq_cv = nondet_ptr(); g_exp_on = nondet_bool();                  \
		g_prov_on = nondet_bool(); VP_CNT(g_exp_add); VP_CNT(g_cv_wake);   \
		VP_CNT(g_cv_waits); VP_CNT(g_cancel_calls);                        \
		g_cancel_aio = nondet_ptr(); g_cancel_arg = nondet_ptr();          \
		g_cancel_rv = nondet_int(); g_cancel_finishes = nondet_bool();     \
		g_self = nondet_ptr(); g_msg_len = nondet_size_t();                \
		VP_CNT(g_reaped); g_reap_item = nondet_ptr(); g_random = nondet_u32(); \
		VP_CNT(g_free_calls); VP_CNT(g_alloc_ok); VP_HAVOC_SYNC();            \
	} while (0)

void h_aio_start(void) { nni_aio *a; nni_aio_cancel_fn fn; void *arg; VP_HAVOC_GHOSTS(); nni_aio_start(a, fn, arg); VP_CANARY(); }
void h_aio_finish_impl(void) { nni_aio *a; nng_err rv; size_t n; nni_msg *m; bool sync; VP_HAVOC_GHOSTS(); nni_aio_finish_impl(a, rv, n, m, sync); VP_CANARY(); }
void h_aio_finish(void) { nni_aio *a; nng_err rv; size_t n; VP_HAVOC_GHOSTS(); nni_aio_finish(a, rv, n); VP_CANARY(); }
void h_aio_finish_sync(void) { nni_aio *a; nng_err rv; size_t n; VP_HAVOC_GHOSTS(); nni_aio_finish_sync(a, rv, n); VP_CANARY(); }
void h_aio_finish_error(void) { nni_aio *a; nng_err rv; VP_HAVOC_GHOSTS(); nni_aio_finish_error(a, rv); VP_CANARY(); }
void h_aio_finish_msg(void) { nni_aio *a; nni_msg *m; VP_HAVOC_GHOSTS(); nni_aio_finish_msg(a, m); VP_CANARY(); }
void h_aio_abort(void) { nni_aio *a; nng_err rv; VP_HAVOC_GHOSTS(); nni_aio_abort(a, rv); VP_CANARY(); }
void h_aio_close(void) { nni_aio *a; VP_HAVOC_GHOSTS(); nni_aio_close(a); VP_CANARY(); }
void h_aio_stop(void) { nni_aio *a; VP_HAVOC_GHOSTS(); nni_aio_stop(a); VP_CANARY(); }
void h_aio_fini(void) { nni_aio *a; VP_HAVOC_GHOSTS(); nni_aio_fini(a); VP_CANARY(); }
void h_aio_reset(void) { nni_aio *a; VP_HAVOC_GHOSTS(); nni_aio_reset(a); VP_CANARY(); }
void h_sleep_cancel(void) { nni_aio *a; void *arg; nng_err rv; VP_HAVOC_GHOSTS(); nni_sleep_cancel(a, arg, rv); VP_CANARY(); }
void h_sleep_aio(void) { nni_aio *a; nng_duration ms; VP_HAVOC_GHOSTS(); nni_sleep_aio(ms, a); VP_CANARY(); }
void h_aio_free(void) { nni_aio *a; VP_HAVOC_GHOSTS(); nni_aio_free(a); VP_CANARY(); }
void h_aio_wait(void) { nni_aio *a; VP_HAVOC_GHOSTS(); nni_aio_wait(a); VP_CANARY(); }
void h_aio_busy(void) { nni_aio *a; VP_HAVOC_GHOSTS(); nni_aio_busy(a); VP_CANARY(); }
void h_aio_set_timeout(void) { nni_aio *a; nni_duration d; VP_HAVOC_GHOSTS(); nni_aio_set_timeout(a, d); VP_CANARY(); }
void h_aio_set_expire(void) { nni_aio *a; nni_time t; VP_HAVOC_GHOSTS(); nni_aio_set_expire(a, t); VP_CANARY(); }
void h_aio_skip_callback(void) { nni_aio *a; bool *b; VP_HAVOC_GHOSTS(); nni_aio_skip_callback(a, b); VP_CANARY(); }
void h_aio_init(void) { nni_aio *a; nni_cb cb; void *arg; VP_HAVOC_GHOSTS(); nni_aio_init(a, cb, arg); VP_CANARY(); }
