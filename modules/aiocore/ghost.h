/* Ghost state of the aio.c environment model (declared before the real
 * source so that the spec macros and any woven text can name it).
 *
 * ONE aio is under study per unit.  Its completion task, its expire-list
 * node, its provider-list node and its expire queue are identified by ghost
 * addresses (established by the precondition AIO_ENV_PRE); the stubs assert
 * that they are only ever handed those objects. */
#ifndef VP_AIOCORE_GHOST_H
#define VP_AIOCORE_GHOST_H
#include "core/nng_impl.h"

/* --- completion task (core/taskq.c, stubbed) --- */
nni_task *g_task_addr;   /* &aio->a_task */
size_t    g_prep;        /* calls of nni_task_prep */
size_t    g_dispatched;  /* calls of nni_task_dispatch (asynchronous callback run) */
size_t    g_exec;        /* calls of nni_task_exec (synchronous callback run) */
size_t    g_busy;        /* model of task_busy: callbacks promised or pending */
bool      g_prepped;     /* model of task_prep */
size_t    g_task_wait;   /* calls of nni_task_wait */
size_t    g_task_fini;   /* calls of nni_task_fini */
size_t    g_task_init;   /* calls of nni_task_init */
size_t    g_cancel_at_wait; /* value of g_cancel_calls when nni_task_wait/fini was entered */

/* --- clock --- */
nni_time  g_now;         /* last value handed out by nni_clock (monotone) */
size_t    g_clock_calls;

/* --- expire list (eq_list) and provider list membership of THE aio --- */
nni_list      *g_eq_list;   /* &eq->eq_list */
nni_list_node *g_exp_node;  /* &aio->a_expire_node */
nni_list_node *g_prov_node; /* &aio->a_prov_node */
nni_mtx       *g_eq_mtx;    /* &eq->eq_mtx */
nni_cv        *g_eq_cv;     /* &eq->eq_cv */
bool           g_exp_on;    /* the aio is on the expire list */
bool           g_prov_on;   /* the aio is on a provider list */
size_t         g_exp_add;   /* insertions into the expire list */
size_t         g_cv_wake;   /* wake-ups of the expire thread */
size_t         g_cv_waits;  /* waits on the expire queue's cv */

/* --- the provider's cancel function (vp_cancel) --- */
size_t    g_cancel_calls;
nni_aio  *g_cancel_aio;
void     *g_cancel_arg;
int       g_cancel_rv;
bool      g_cancel_finishes; /* the provider still owns the aio and completes it from its cancel function */

/* --- misc --- */
nni_aio  *g_self;        /* the aio under study (for the cv-wait model) */
size_t    g_msg_len;     /* answer of nni_msg_len */
size_t    g_reaped;      /* calls of nni_reap */
void     *g_reap_item;
uint32_t  g_random;      /* answer of nni_random */
#endif
