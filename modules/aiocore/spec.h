/* Spec macros for src/core/aio.c -- completion hand-off protocol (C02).
 * Macros only; ghost state is in ghost.h, stubs in env.h. */
#ifndef VP_AIOCORE_SPEC_H
#define VP_AIOCORE_SPEC_H

/* stated clock bound: the monotone ms clock is below 2^62 (146 million years),
 * so now + (positive 32-bit duration) neither wraps nor hits NNI_TIME_NEVER */
#define AIO_CLOCK_MAX ((nni_time) 1 << 62)

/* bound for aio_init: number of expire queues (NNG_MAX_EXPIRE_THREADS of this build) */
#ifndef AIO_MAX_EQ
#define AIO_MAX_EQ NNG_MAX_EXPIRE_THREADS
#endif

/* heap shape of one aio bound to its expire queue */
#define AIO_SHAPE(aio)                                                     \
	(__CPROVER_is_fresh((aio), sizeof(nni_aio)) &&                         \
	    __CPROVER_is_fresh((aio)->a_expire_q, sizeof(nni_aio_expire_q)) && \
	    ((aio)->a_skipped_callback == NULL ||                              \
	        __CPROVER_is_fresh((aio)->a_skipped_callback, sizeof(bool))))

/* ghost addresses: which task / nodes / lock / cv belong to this aio */
#define AIO_ENV(aio)                                                       \
	(g_task_addr == &(aio)->a_task && g_exp_node == &(aio)->a_expire_node && \
	    g_prov_node == &(aio)->a_prov_node &&                              \
	    g_eq_list == &(aio)->a_expire_q->eq_list &&                        \
	    g_eq_mtx == &(aio)->a_expire_q->eq_mtx &&                          \
	    g_eq_cv == &(aio)->a_expire_q->eq_cv &&                            \
	    __CPROVER_pointer_in_range_dfcc((aio), g_self, (aio)) &&           \
	    VP_NO_LOCK_HELD && g_now < AIO_CLOCK_MAX)

/* state invariant of an initialised aio between calls (sequential view):
 * the cancel slot holds nothing, the provider's function, or the sleep
 * cancel; it sits on the expire list only while it is cancellable; a pending
 * skip flag is still false; the sleep flag is the sleep's own token */
#define AIO_CANCEL_SLOT_OK(aio)                                            \
	((aio)->a_cancel_fn == NULL || (aio)->a_cancel_fn == vp_cancel ||      \
	    (aio)->a_cancel_fn == nni_sleep_cancel)
#define AIO_INV0(aio)                                                      \
	((aio)->a_init && AIO_CANCEL_SLOT_OK(aio) &&                           \
	    (!g_exp_on || (aio)->a_cancel_fn != NULL) &&                       \
	    ((aio)->a_skipped_callback == NULL || !*(aio)->a_skipped_callback))
/* ... plus: the sleep token exists only while the sleep cancel is installed
 * (not yet true inside nni_sleep_aio -> nni_aio_start, hence separate) */
#define AIO_INV(aio)                                                       \
	(AIO_INV0(aio) && (!(aio)->a_sleep || (aio)->a_cancel_fn == nni_sleep_cancel))

/* the same invariant as a postcondition (no shape predicates) */
#define AIO_INV_POST(aio)                                                  \
	(AIO_CANCEL_SLOT_OK(aio) && (!g_exp_on || (aio)->a_cancel_fn != NULL) && \
	    (!(aio)->a_sleep || (aio)->a_cancel_fn == nni_sleep_cancel) &&     \
	    ((aio)->a_skipped_callback == NULL || !*(aio)->a_skipped_callback))

#define AIO_PRE0(aio) (AIO_SHAPE(aio) && AIO_ENV(aio) && AIO_INV0(aio))
#define AIO_PRE(aio) (AIO_SHAPE(aio) && AIO_ENV(aio) && AIO_INV(aio))

/* nothing in flight: what a provider may assume when it calls nni_aio_start */
#define AIO_IDLE(aio) ((aio)->a_cancel_fn == NULL && !g_exp_on && !g_prepped)

/* where the implementation keeps the code latched by an abort that found
 * nothing to cancel (consumed by the next nni_aio_start) */
#ifndef AIO_ABORT_CODE
#define AIO_ABORT_CODE(aio) ((aio)->a_abort_result)
#endif

/* assigns-clause fragments */
#define AIO_TASK_GHOSTS g_prep, g_busy, g_prepped, g_dispatched, g_exec
#define AIO_CANCEL_GHOSTS g_cancel_calls, g_cancel_aio, g_cancel_arg, g_cancel_rv
#define AIO_FINISH_FIELDS(aio)                                             \
	(aio)->a_result, (aio)->a_count, (aio)->a_cancel_fn, (aio)->a_cancel_arg, \
	    (aio)->a_msg, (aio)->a_expire, (aio)->a_sleep, (aio)->a_use_expire, \
	    (aio)->a_skipped_callback

/* "the completion was delivered exactly once, by the asynchronous route or
 * through the skip flag" (o_* are the pre-state counters) */
#define AIO_ONE_ASYNC_COMPLETION(aio, oskip, odisp, oexec)                 \
	(((oskip) != NULL)                                                     \
	        ? (*(oskip) && g_dispatched == (odisp) && g_exec == (oexec))   \
	        : (g_dispatched == (odisp) + 1 && g_exec == (oexec)))
#define AIO_NO_COMPLETION(odisp, oexec) (g_dispatched == (odisp) && g_exec == (oexec))
#endif
