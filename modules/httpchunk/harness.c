/* Harnesses for http_chunk.c.  Contract units: arguments unconstrained, the
 * precondition (assumed by the DFCC wrapper) is the only restriction.  The
 * ghost-model configuration (which nni_list is list 0, allocator not in
 * schedule mode) is set here; it is not a restriction of the inputs. */
#define VP_HAVOC_GHOSTS()                                        \
	do {                                                         \
		g_k            = nondet_size_t();                        \
		g_j            = nondet_size_t();                        \
		g_b            = nondet_u8();                            \
		g_chl[0].n     = nondet_size_t();                        \
		g_chl[0].last  = nondet_ptr();                           \
		g_chl[0].addr  = NULL;                                   \
		g_chl[1].addr  = NULL;                                   \
		g_alloc_sched  = false;                                  \
		g_free_calls   = nondet_size_t();                        \
		g_alloc_ok     = nondet_size_t();                        \
		__CPROVER_assume(g_alloc_ok < ((size_t) 1 << 40));       \
		__CPROVER_assume(g_free_calls < ((size_t) 1 << 40));     \
		__CPROVER_assume(g_chl[0].n < ((size_t) 1 << 40));       \
	} while (0)

char nondet_char(void);

void h_ingest_len(void) { nni_http_chunks *cl; char c = nondet_char(); VP_HAVOC_GHOSTS(); chunk_ingest_len(cl, c); VP_CANARY(); }
void h_ingest_ext(void) { nni_http_chunks *cl; char c = nondet_char(); VP_HAVOC_GHOSTS(); chunk_ingest_ext(cl, c); VP_CANARY(); }
void h_ingest_newline(void) { nni_http_chunks *cl; char c = nondet_char(); VP_HAVOC_GHOSTS(); chunk_ingest_newline(cl, c); VP_CANARY(); }
void h_ingest_trailer(void) { nni_http_chunks *cl; char c = nondet_char(); VP_HAVOC_GHOSTS(); chunk_ingest_trailer(cl, c); VP_CANARY(); }
void h_ingest_trailercr(void) { nni_http_chunks *cl; char c = nondet_char(); VP_HAVOC_GHOSTS(); chunk_ingest_trailercr(cl, c); VP_CANARY(); }
void h_ingest_char(void) { nni_http_chunks *cl; char c = nondet_char(); VP_HAVOC_GHOSTS(); chunk_ingest_char(cl, c); VP_CANARY(); }
void h_ingest_data(void) { nni_http_chunks *cl; char *buf; size_t n; size_t *lenp; VP_HAVOC_GHOSTS(); chunk_ingest_data(cl, buf, n, lenp); VP_CANARY(); }
void h_parse(void) { nni_http_chunks *cl; void *buf; size_t n; size_t *lenp; VP_HAVOC_GHOSTS(); nni_http_chunks_parse(cl, buf, n, lenp); VP_CANARY(); }
void h_init(void) { nni_http_chunks **clp; size_t m; VP_HAVOC_GHOSTS(); nni_http_chunks_init(clp, m); VP_CANARY(); }
void h_chunks_size(void) { nni_http_chunks *cl; VP_HAVOC_GHOSTS(); nni_http_chunks_size(cl); VP_CANARY(); }
void h_chunk_size(void) { nni_http_chunk *ch; VP_HAVOC_GHOSTS(); nni_http_chunk_size(ch); VP_CANARY(); }
void h_chunk_data(void) { nni_http_chunk *ch; VP_HAVOC_GHOSTS(); nni_http_chunk_data(ch); VP_CANARY(); }

/* ------------------------------------------------------------------------
 * SEGMENTATION LEMMA, in two machine-checked halves.
 *
 * The direct 2-safety harness (real nni_http_chunks_parse three times: once
 * over buf[0..n), then over buf[0..k) and buf[k..n)) did not finish: 1.4 M
 * variables and > 5 min already for n <= 2 (measured), because CBMC merges
 * the whole chunk store at every branch of three inlined decoders.  It is
 * replaced by a REFERENCE DECODER vp_ref_parse, an executable transcription
 * of RFC 7230 section 4.1 over an abstract state (no pointers, one byte at a
 * time, no bulk copies), and two units:
 *
 *  (1) chunks_parse_refines_ref: for every decoder state S, every buffer of
 *      n <= SEG_N bytes and every allocation-failure schedule, ONE call of the
 *      real nni_http_chunks_parse gives the same verdict, the same number of
 *      bytes consumed and the same final decoder state (state, size, line,
 *      total, number of chunks, geometry / fill level / bytes of every chunk)
 *      as vp_ref_parse.
 *  (2) ref_seg_lemma: vp_ref_parse over buf[0..n) equals vp_ref_parse over
 *      buf[0..k) followed, if that says NNG_EAGAIN, by vp_ref_parse over
 *      buf[k..n), for every k <= n <= REF_N; and NNG_EAGAIN always consumes
 *      the whole piece.
 *
 * (1) holds from EVERY state, hence also for the second call of a split run;
 * so real(0..n) = ref(0..n) = ref(k..n) o ref(0..k) = real(k..n) o real(0..k).
 * Because S is arbitrary the statement extends by induction to any number of
 * cuts of streams of any length made of pieces <= SEG_N bytes.
 */
#ifndef SEG_N
#define SEG_N 4
#endif
#ifndef REF_N
#define REF_N 8
#endif
#define REF_NCH 4           /* chunks the reference state can describe */
#define REF_DATA VP_LEM_OBJ /* bytes (data + CRLF) stored per chunk */

typedef struct {
	unsigned st; /* enum chunk_state */
	size_t   size, line, total, maxsz;
	size_t   nch;                      /* number of chunks */
	size_t   csize[REF_NCH];           /* data size of chunk i */
	size_t   cfill[REF_NCH];           /* bytes (data + CRLF) stored so far */
	uint8_t  cbyte[REF_NCH][REF_DATA]; /* the stored bytes */
	size_t   aseq;                     /* allocation requests issued so far */
} vp_ref;

static bool
vp_ref_refused(vp_ref *r)
{
	size_t i = r->aseq;
	r->aseq++;
	return (i >= 8 * sizeof(size_t) ? true : ((g_fail_mask >> i) & 1) != 0);
}

/* one octet, RFC 7230 4.1; returns 0 or the error; *took = 1 iff the octet
 * was consumed */
static int
vp_ref_step(vp_ref *r, uint8_t c, size_t *took)
{
	*took = 0;
	switch (r->st) {
	case CS_INIT: /* chunk-size = 1*HEXDIG */
	case CS_LEN:
		if (CH_IS_HEX(c)) {
			if (CH_SIZE_OVERFLOWS(r->size)) {
				return (NNG_EMSGSIZE);
			}
			r->size = r->size * 16 + CH_HEXVAL(c);
			r->st   = CS_LEN;
		} else if (r->st == CS_LEN && c == ';') {
			r->st = CS_EXT;
		} else if (r->st == CS_LEN && c == '\r') {
			r->st = CS_CR;
		} else {
			return (NNG_EPROTO);
		}
		break;
	case CS_EXT: /* chunk-ext, ignored; HTAB / obs-text refused like the code does */
		if (c == '\r') {
			r->st = CS_CR;
		} else if (!CH_IS_VCHAR_SP(c)) {
			return (NNG_EPROTO);
		}
		break;
	case CS_CR: /* the LF of the size line */
		if (c != '\n') {
			return (NNG_EPROTO);
		}
		if (r->size == 0) { /* last-chunk */
			r->line = 0;
			r->st   = CS_TRLR;
			break;
		}
		if (CH_TOO_BIG(r->size, r->total, r->maxsz)) {
			return (NNG_EMSGSIZE);
		}
		if (vp_ref_refused(r)) { /* chunk record */
			return (NNG_ENOMEM);
		}
		{
			bool refused = vp_ref_refused(r); /* data + CRLF */
			if (refused || r->size + 2 > REF_DATA) {
				return (NNG_ENOMEM);
			}
		}
		__CPROVER_assert(r->nch < REF_NCH, "reference decoder: chunk table large enough for the bound");
		r->csize[r->nch] = r->size;
		r->cfill[r->nch] = 0;
		r->nch++;
		r->total += r->size;
		r->st = CS_DATA;
		break;
	case CS_DATA: { /* chunk-data CRLF: size octets, then CR LF, judged when complete */
		size_t i = r->nch - 1;
		r->cbyte[i][r->cfill[i]] = c;
		r->cfill[i]++;
		*took = 1;
		if (r->cfill[i] == r->csize[i] + 2) {
			if (r->cbyte[i][r->csize[i]] != '\r' || r->cbyte[i][r->csize[i] + 1] != '\n') {
				r->cfill[i]--; /* the code leaves the fill level of a refused chunk alone; never compared */
				return (NNG_EPROTO);
			}
			r->st   = CS_INIT;
			r->size = 0;
			r->line = 0;
		}
		return (0);
	}
	case CS_TRLR: /* trailer-part: header lines */
		if (c == '\r') {
			r->st = CS_TRLRCR;
		} else if (!CH_IS_VCHAR_SP(c)) {
			return (NNG_EPROTO);
		} else {
			r->line++;
		}
		break;
	case CS_TRLRCR:
		if (c != '\n') {
			return (NNG_EPROTO);
		}
		if (r->line == 0) {
			r->st = CS_DONE; /* the empty line that ends the body */
		} else {
			r->line = 0;
			r->st   = CS_TRLR;
		}
		break;
	default:
		return (NNG_EPROTO);
	}
	*took = 1;
	return (0);
}

static int
vp_ref_parse(vp_ref *r, const uint8_t *buf, size_t n, size_t *lenp)
{
	size_t i = 0;
	while (r->st != CS_DONE && i < n) {
		size_t took;
		int    rv = vp_ref_step(r, buf[i], &took);
		i += took;
		if (rv != 0) {
			*lenp = i;
			return (rv);
		}
	}
	*lenp = i;
	return (r->st == CS_DONE ? 0 : NNG_EAGAIN);
}

/* arbitrary reference state within the representation invariant */
static void
vp_ref_any(vp_ref *r)
{
	vp_ref x; /* uninitialised: arbitrary */
	*r = x;
	__CPROVER_assume(r->st <= CS_DONE);
	__CPROVER_assume(r->nch <= 1);
	__CPROVER_assume(r->nch == 0 || (r->csize[0] >= 1 && r->csize[0] <= REF_DATA - 2 && r->cfill[0] <= r->csize[0] + 2));
	__CPROVER_assume(r->st != CS_DATA || (r->nch == 1 && r->cfill[0] < r->csize[0] + 2));
	r->aseq = 0;
}

nni_http_chunk g_seg_ch;
char           g_seg_d[REF_DATA];

void
h_refines_ref(void)
{
	struct nng_http_chunks cl;
	vp_ref   r;
	uint8_t  buf[SEG_N], bufr[SEG_N];
	size_t   n = nondet_size_t();
	size_t   len = 0, lenr = 0;
	int      rv, rvr;

	__CPROVER_assume(n <= SEG_N);
	g_k           = nondet_size_t();
	g_fail_mask   = nondet_size_t();
	g_alloc_sched = true;
	g_alloc_seq   = 0;
	g_pool_nch    = 0;
	g_pool_nd     = 0;
	vp_ref_any(&r);

	/* the concrete decoder in the state the reference state describes */
	cl.cl_state   = (enum chunk_state) r.st;
	cl.cl_size    = r.size;
	cl.cl_line    = r.line;
	cl.cl_total   = r.total;
	cl.cl_maxsz   = r.maxsz;
	g_chl[0].addr = &cl.cl_chunks;
	g_chl[0].n    = r.nch;
	g_chl[0].last = NULL;
	g_chl[1].addr = NULL;
	if (r.nch == 1) {
		g_seg_ch.c_size  = r.csize[0];
		g_seg_ch.c_alloc = r.csize[0] + 2;
		g_seg_ch.c_resid = r.csize[0] + 2 - r.cfill[0];
		g_seg_ch.c_data  = g_seg_d;
		for (size_t i = 0; i < REF_DATA; i++) {
			g_seg_d[i] = (char) r.cbyte[0][i];
		}
		g_chl[0].last    = &g_seg_ch;
		g_chl[0].item[0] = &g_seg_ch;
	}
	for (size_t i = 0; i < SEG_N; i++) {
		bufr[i] = buf[i];
	}

	rvr = vp_ref_parse(&r, bufr, n, &lenr);
	rv  = (int) nni_http_chunks_parse(&cl, buf, n, &len);

	__CPROVER_assert(rv == rvr, "refines: same verdict as the RFC 7230 reference decoder");
	__CPROVER_assert(len == lenr, "refines: same number of bytes consumed");
	__CPROVER_assert(rv != NNG_EAGAIN || len == n, "refines: NNG_EAGAIN consumed everything");
	if (rv == 0 || rv == NNG_EAGAIN) {
		__CPROVER_assert((unsigned) cl.cl_state == r.st, "refines: same state");
		__CPROVER_assert(cl.cl_size == r.size, "refines: same accumulated size");
		__CPROVER_assert(cl.cl_line == r.line, "refines: same line count");
		__CPROVER_assert(cl.cl_total == r.total, "refines: same total");
		__CPROVER_assert(g_chl[0].n == r.nch, "refines: same number of chunks");
		for (size_t i = 0; i < REF_NCH; i++) {
			if (i < r.nch) {
				nni_http_chunk *c = g_chl[0].item[i];
				__CPROVER_assert((i + 1 == r.nch) ? (g_chl[0].last == c) : 1, "refines: last member");
				__CPROVER_assert(c->c_size == r.csize[i] && c->c_alloc == r.csize[i] + 2, "refines: same chunk geometry");
				__CPROVER_assert(c->c_alloc - c->c_resid == r.cfill[i], "refines: same fill level");
				if (g_k < r.cfill[i]) {
					__CPROVER_assert((uint8_t) c->c_data[g_k] == r.cbyte[i][g_k], "refines: same chunk bytes");
				}
			}
		}
	}
	VP_CANARY();
}

static bool
vp_ref_same(const vp_ref *a, const vp_ref *b)
{
	if (a->st != b->st || a->size != b->size || a->line != b->line || a->total != b->total || a->nch != b->nch || a->aseq != b->aseq) {
		return (false);
	}
	for (size_t i = 0; i < REF_NCH; i++) {
		if (i < a->nch) {
			if (a->csize[i] != b->csize[i] || a->cfill[i] != b->cfill[i]) {
				return (false);
			}
			if (g_k < a->cfill[i] && a->cbyte[i][g_k] != b->cbyte[i][g_k]) {
				return (false);
			}
		}
	}
	return (true);
}

void
h_ref_seg_lemma(void)
{
	vp_ref  a, b;
	uint8_t buf[REF_N];
	size_t  n = nondet_size_t(), k = nondet_size_t();
	size_t  lena = 0, len1 = 0, len2 = 0, lenb;
	int     rva, rvb;

	__CPROVER_assume(n <= REF_N && k <= n);
	g_k         = nondet_size_t();
	g_fail_mask = nondet_size_t();
	vp_ref_any(&a);
	b = a;

	rva  = vp_ref_parse(&a, buf, n, &lena);
	rvb  = vp_ref_parse(&b, buf, k, &len1);
	lenb = len1;
	if (rvb == NNG_EAGAIN) {
		__CPROVER_assert(len1 == k, "seg: NNG_EAGAIN consumed the whole first piece");
		rvb  = vp_ref_parse(&b, buf + k, n - k, &len2);
		lenb = k + len2;
	}
	__CPROVER_assert(rva == rvb, "seg: same verdict however the stream is cut");
	__CPROVER_assert(lena == lenb, "seg: same number of bytes consumed");
	__CPROVER_assert(rva != NNG_EAGAIN || lena == n, "seg: NNG_EAGAIN consumed everything");
	__CPROVER_assert((rva != 0 && rva != NNG_EAGAIN) || vp_ref_same(&a, &b), "seg: same decoder state");
	VP_CANARY();
}
