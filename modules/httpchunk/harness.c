/* Harnesses for http_chunk.c.  Contract units: arguments unconstrained, the
 * precondition (assumed by the DFCC wrapper) is the only restriction.  The
 * ghost-model configuration (which nni_list is list 0, allocator not in
 * schedule mode) is set here; it is not a restriction of the inputs. */
#define VP_HAVOC_GHOSTS()                                        \
	do {                                                         \
		g_k            = nondet_size_t();                        \
		g_j            = nondet_size_t();                        \
		g_b            = nondet_u8();                            \
		g_chl[0].n     = nondet_size_t();                        \
		g_chl[0].last  = nondet_ptr();                           \
		g_chl[0].addr  = NULL;                                   \
		g_chl[1].addr  = NULL;                                   \
		g_alloc_sched  = false;                                  \
		g_free_calls   = nondet_size_t();                        \
		g_alloc_ok     = nondet_size_t();                        \
		__CPROVER_assume(g_alloc_ok < ((size_t) 1 << 40));       \
		__CPROVER_assume(g_free_calls < ((size_t) 1 << 40));     \
		__CPROVER_assume(g_chl[0].n < ((size_t) 1 << 40));       \
	} while (0)

char nondet_char(void);

void h_ingest_len(void) { nni_http_chunks *cl; char c = nondet_char(); VP_HAVOC_GHOSTS(); chunk_ingest_len(cl, c); VP_CANARY(); }
void h_ingest_ext(void) { nni_http_chunks *cl; char c = nondet_char(); VP_HAVOC_GHOSTS(); chunk_ingest_ext(cl, c); VP_CANARY(); }
void h_ingest_newline(void) { nni_http_chunks *cl; char c = nondet_char(); VP_HAVOC_GHOSTS(); chunk_ingest_newline(cl, c); VP_CANARY(); }
void h_ingest_trailer(void) { nni_http_chunks *cl; char c = nondet_char(); VP_HAVOC_GHOSTS(); chunk_ingest_trailer(cl, c); VP_CANARY(); }
void h_ingest_trailercr(void) { nni_http_chunks *cl; char c = nondet_char(); VP_HAVOC_GHOSTS(); chunk_ingest_trailercr(cl, c); VP_CANARY(); }
void h_ingest_char(void) { nni_http_chunks *cl; char c = nondet_char(); VP_HAVOC_GHOSTS(); chunk_ingest_char(cl, c); VP_CANARY(); }
void h_ingest_data(void) { nni_http_chunks *cl; char *buf; size_t n; size_t *lenp; VP_HAVOC_GHOSTS(); chunk_ingest_data(cl, buf, n, lenp); VP_CANARY(); }
void h_parse(void) { nni_http_chunks *cl; void *buf; size_t n; size_t *lenp; VP_HAVOC_GHOSTS(); nni_http_chunks_parse(cl, buf, n, lenp); VP_CANARY(); }
void h_init(void) { nni_http_chunks **clp; size_t m; VP_HAVOC_GHOSTS(); nni_http_chunks_init(clp, m); VP_CANARY(); }
void h_chunks_size(void) { nni_http_chunks *cl; VP_HAVOC_GHOSTS(); nni_http_chunks_size(cl); VP_CANARY(); }
void h_chunk_size(void) { nni_http_chunk *ch; VP_HAVOC_GHOSTS(); nni_http_chunk_size(ch); VP_CANARY(); }
void h_chunk_data(void) { nni_http_chunk *ch; VP_HAVOC_GHOSTS(); nni_http_chunk_data(ch); VP_CANARY(); }

/* ------------------------------------------------------------------------
 * SEGMENTATION LEMMA (2-safety, real functions, no contracts involved).
 *
 * For every decoder state S (any state of the machine, any accumulated size /
 * line / total / maximum, and in CS_DATA any partially filled last chunk),
 * every buffer buf[0..n) with n <= SEG_N, every cut k <= n and every
 * allocation-failure schedule:
 *     run A:  parse(S, buf[0..n))
 *     run B:  parse(S, buf[0..k)); if that says NNG_EAGAIN: parse(., buf[k..n))
 * A and B give the same verdict and the same total number of bytes consumed;
 * if the verdict is 0 or NNG_EAGAIN they leave the same decoder state: state,
 * size, line, total, number of chunks, and for every chunk the same geometry,
 * fill level and bytes.  Also: NNG_EAGAIN always consumes the whole piece.
 *
 * Because S is arbitrary, the statement for one cut extends by induction to
 * any number of cuts of streams of any length made of pieces <= SEG_N.
 * Bound (grade Pb): n <= SEG_N bytes per compared stretch; initial chunk of
 * at most SEG_CS data bytes.
 */
#ifndef SEG_N
#define SEG_N 6
#endif
#ifndef SEG_CS
#define SEG_CS 4
#endif

nni_http_chunk g_seg_ch[2];
char           g_seg_d[2][SEG_CS + 2];

static void
vp_seg_mk(struct nng_http_chunks *cl, int which, enum chunk_state st, size_t size, size_t line,
    size_t total, size_t maxsz, size_t csize, size_t cresid, const uint8_t *fill)
{
	cl->cl_state = st;
	cl->cl_size  = size;
	cl->cl_line  = line;
	cl->cl_total = total;
	cl->cl_maxsz = maxsz;
	g_chl[which].addr = &cl->cl_chunks;
	g_chl[which].n    = 0;
	g_chl[which].last = NULL;
	if (st == CS_DATA) {
		nni_http_chunk *ch = &g_seg_ch[which];
		ch->c_size  = csize;
		ch->c_alloc = csize + 2;
		ch->c_resid = cresid;
		ch->c_data  = &g_seg_d[which][0];
		for (size_t i = 0; i < SEG_CS + 2; i++) {
			if (i < csize + 2) {
				ch->c_data[i] = (char) fill[i];
			}
		}
		g_chl[which].n       = 1;
		g_chl[which].last    = ch;
		g_chl[which].item[0] = ch;
	}
}

void
h_seg_lemma(void)
{
	struct nng_http_chunks a, b;
	uint8_t  bufa[SEG_N], bufb[SEG_N], fill[SEG_CS + 2];
	size_t   n = nondet_size_t(), k = nondet_size_t();
	enum chunk_state st;
	size_t   size = nondet_size_t(), line = nondet_size_t(), total = nondet_size_t(), maxsz = nondet_size_t();
	size_t   csize = nondet_size_t(), cresid = nondet_size_t();
	size_t   lena = 0, len1 = 0, len2 = 0, lenb;
	nng_err  rva, rvb;

	/* the quantified variables of the lemma (bounds stated in spec.json) */
	__CPROVER_assume(n <= SEG_N && k <= n);
	__CPROVER_assume(st <= CS_DONE);
	/* representation invariant of a chunk being filled (established by
	 * chunk_ingest_newline, kept by chunk_ingest_data: see their contracts) */
	__CPROVER_assume(csize >= 1 && csize <= SEG_CS && cresid >= 1 && cresid <= csize + 2);
	for (size_t i = 0; i < SEG_N; i++) {
		bufb[i] = bufa[i];
	}
	g_alloc_sched = true;
	g_fail_mask   = nondet_size_t();
	g_k           = nondet_size_t();

	vp_seg_mk(&a, 0, st, size, line, total, maxsz, csize, cresid, fill);
	vp_seg_mk(&b, 1, st, size, line, total, maxsz, csize, cresid, fill);

	g_alloc_seq = 0;
	rva         = nni_http_chunks_parse(&a, bufa, n, &lena);

	g_alloc_seq = 0;
	rvb         = nni_http_chunks_parse(&b, bufb, k, &len1);
	lenb        = len1;
	if (rvb == NNG_EAGAIN) {
		__CPROVER_assert(len1 == k, "seg: NNG_EAGAIN consumed the whole first piece");
		rvb  = nni_http_chunks_parse(&b, bufb + k, n - k, &len2);
		lenb = k + len2;
	}

	__CPROVER_assert(rva == rvb, "seg: same verdict however the stream is cut");
	__CPROVER_assert(lena == lenb, "seg: same number of bytes consumed");
	__CPROVER_assert(rva != NNG_EAGAIN || lena == n, "seg: NNG_EAGAIN consumed everything");
	if (rva == 0 || rva == NNG_EAGAIN) {
		__CPROVER_assert(a.cl_state == b.cl_state, "seg: same state");
		__CPROVER_assert(a.cl_size == b.cl_size, "seg: same accumulated size");
		__CPROVER_assert(a.cl_line == b.cl_line, "seg: same line count");
		__CPROVER_assert(a.cl_total == b.cl_total, "seg: same total");
		__CPROVER_assert(g_chl[0].n == g_chl[1].n, "seg: same number of chunks");
		__CPROVER_assert(g_chl[0].n <= VP_MAXCH, "seg: chunk list within the model");
		__CPROVER_assert((g_chl[0].last == NULL) == (g_chl[1].last == NULL), "seg: last chunk");
		for (size_t i = 0; i < VP_MAXCH; i++) {
			if (i < g_chl[0].n) {
				nni_http_chunk *ca = g_chl[0].item[i], *cb = g_chl[1].item[i];
				__CPROVER_assert((i + 1 == g_chl[0].n) ? (g_chl[0].last == ca && g_chl[1].last == cb) : 1, "seg: last member");
				__CPROVER_assert(ca->c_size == cb->c_size && ca->c_alloc == cb->c_alloc, "seg: same chunk geometry");
				__CPROVER_assert(ca->c_resid == cb->c_resid, "seg: same fill level");
				__CPROVER_assert(ca->c_resid <= ca->c_alloc && ca->c_alloc == ca->c_size + 2, "seg: chunk well-formed");
				if (g_k < ca->c_alloc - ca->c_resid) {
					__CPROVER_assert(ca->c_data[g_k] == cb->c_data[g_k], "seg: same chunk bytes");
				}
			}
		}
	}
	VP_CANARY();
}
