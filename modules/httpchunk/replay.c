/* Native replay driver for src/supplemental/http/http_chunk.c: rebuilds the decoder state
 * a CBMC counterexample describes (entry snapshots vp_in_state/size/line/total/maxsz/nch,
 * the chunk being filled vp_in_csize/calloc/cresid, the arguments vp_arg_c / vp_arg_n and
 * the first 16 input bytes vp_in_b0..15), runs the REAL function (with the real
 * src/core/list.c) under ASan/UBSan and evaluates the postconditions of
 * modules/httpchunk/contracts.h in plain C (the same spec macros from spec.h).
 *
 * Bytes the snapshot does not carry (chunk_ingest_data: the buffer and the stored part of
 * the chunk) are chosen by the driver: the call is made for each of the three cases the
 * contract distinguishes (CRLF behind the data / CR wrong / LF wrong).  Allocating
 * functions are run again with the 1st and 2nd allocation failing. */
#include "vp_native.h"
#include "core/nng_impl.h"
#include "modules/httpchunk/spec.h"
#include "modules/httpchunk/snap.h" /* VP_SNAP_NPB */

/* ---- allocator: sized free, live-block accounting, failure injection */
#define VP_NBLK 256
static struct {
	void  *p;
	size_t sz;
	int    live;
} vp_blk[VP_NBLK];
static int vp_nblk, vp_alloc_calls, vp_alloc_fail_at, vp_alloc_ok, vp_free_calls;
static void
vp_reg(void *p, size_t sz)
{
	if (p != NULL && vp_nblk < VP_NBLK) {
		vp_blk[vp_nblk].p    = p;
		vp_blk[vp_nblk].sz   = sz;
		vp_blk[vp_nblk].live = 1;
		vp_nblk++;
	}
}
static void *
vp_alloc(size_t sz, int zero)
{
	void *p;
	if (sz == 0)
		return (NULL);
	vp_alloc_calls++;
	if ((vp_alloc_fail_at != 0 && vp_alloc_calls == vp_alloc_fail_at) || sz > ((size_t) 1 << 30))
		return (NULL);
	p = zero ? calloc(1, sz) : malloc(sz);
	if (p != NULL)
		vp_alloc_ok++;
	vp_reg(p, sz);
	return (p);
}
void *nni_alloc(size_t sz) { return (vp_alloc(sz, 0)); }
void *nni_zalloc(size_t sz) { return (vp_alloc(sz, 1)); }
void
nni_free(void *p, size_t sz)
{
	if (p == NULL)
		return;
	vp_free_calls++;
	for (int i = vp_nblk - 1; i >= 0; i--) {
		if (vp_blk[i].p == p && vp_blk[i].live) {
			if (vp_blk[i].sz != sz) {
				printf("nni_free(%p, %zu): block was allocated with %zu bytes\n", p, sz, vp_blk[i].sz);
				VP_EXPECT(!"nni_free size == allocation size");
			}
			vp_blk[i].live = 0;
			free(p);
			return;
		}
	}
	VP_EXPECT(!"nni_free of a live block");
	free(p);
}
static void
vp_release_all(void)
{
	for (int i = 0; i < vp_nblk; i++)
		if (vp_blk[i].live)
			free(vp_blk[i].p);
	vp_nblk = 0;
}
void nni_panic(const char *fmt, ...) { printf("REPLAY-FAIL: nni_panic(\"%s\") reached: process would abort\n", fmt); printf("REPLAY-RESULT: reproduced (panic)\n"); exit(1); }

#include "core/list.c"                       /* the real list */
#include "supplemental/http/http_chunk.c"   /* the real file, via -I/repo/src */

#define IS(name) (strcmp(fn, name) == 0)
#define SKIP(...)                                  \
	do {                                           \
		printf("REPLAY-RESULT: skipped (");        \
		printf(__VA_ARGS__);                       \
		printf(")\n");                             \
		return (3);                                \
	} while (0)
#define NMAX ((size_t) 1 << 20)

static const char *stname[] = { "CS_INIT", "CS_LEN", "CS_EXT", "CS_CR", "CS_DATA", "CS_TRLR", "CS_TRLRCR", "CS_DONE" };
static const char *
sn(size_t s)
{
	return (s <= CS_DONE ? stname[s] : "CS_?");
}
static void
showc(uint8_t c)
{
	if (c >= 0x20 && c < 0x7f)
		printf("'%c'", c);
	else
		printf("0x%02x", c);
}

static size_t st0, size0, line0, total0, maxsz0, nch0;

static size_t
list_count(nni_http_chunks *cl)
{
	size_t          k = 0;
	nni_http_chunk *ch;
	NNI_LIST_FOREACH (&cl->cl_chunks, ch)
		k++;
	return (k);
}

/* decoder in the snapshot state; `nch` chunks queued (at most 3 are built: completed 1-byte
 * chunks; the driver reports list growth relative to this) */
static nni_http_chunks *
build_cl(size_t nch)
{
	nni_http_chunks *cl = NULL;
	vp_alloc_fail_at    = 0;
	if (nni_http_chunks_init(&cl, maxsz0) != 0)
		return (NULL);
	cl->cl_state = (enum chunk_state) st0;
	cl->cl_size  = size0;
	cl->cl_line  = line0;
	cl->cl_total = total0;
	for (size_t i = 0; i < nch && i < 3; i++) {
		nni_http_chunk *ch = nni_zalloc(sizeof(*ch));
		ch->c_size         = 1;
		ch->c_alloc        = 3;
		ch->c_resid        = 0;
		ch->c_data         = nni_alloc(3);
		memcpy(ch->c_data, "x\r\n", 3);
		nni_list_append(&cl->cl_chunks, ch);
	}
	return (cl);
}

/* ---- reference decoder: RFC 7230 section 4.1, one octet at a time (abstract state) */
typedef struct {
	size_t st, size, line, total, maxsz, nch;
	size_t csize, cfill; /* chunk being filled */
	int    cr_ok, lf_ok;
} ref_t;
static int
ref_step(ref_t *r, uint8_t c, size_t *took)
{
	*took = 0;
	switch (r->st) {
	case CS_INIT:
	case CS_LEN:
		if (CH_IS_HEX(c)) {
			if (CH_SIZE_OVERFLOWS(r->size))
				return (NNG_EMSGSIZE);
			r->size = r->size * 16 + CH_HEXVAL(c);
			r->st   = CS_LEN;
		} else if (r->st == CS_LEN && c == ';') {
			r->st = CS_EXT;
		} else if (r->st == CS_LEN && c == '\r') {
			r->st = CS_CR;
		} else {
			return (NNG_EPROTO);
		}
		break;
	case CS_EXT:
		if (c == '\r')
			r->st = CS_CR;
		else if (!CH_IS_VCHAR_SP(c))
			return (NNG_EPROTO);
		break;
	case CS_CR:
		if (c != '\n')
			return (NNG_EPROTO);
		if (r->size == 0) {
			r->line = 0;
			r->st   = CS_TRLR;
			break;
		}
		if (CH_TOO_BIG(r->size, r->total, r->maxsz))
			return (NNG_EMSGSIZE);
		r->csize = r->size;
		r->cfill = 0;
		r->cr_ok = r->lf_ok = 0;
		r->nch++;
		r->total += r->size;
		r->st = CS_DATA;
		break;
	case CS_DATA:
		if (r->cfill == r->csize)
			r->cr_ok = (c == '\r');
		if (r->cfill == r->csize + 1)
			r->lf_ok = (c == '\n');
		r->cfill++;
		*took = 1;
		if (r->cfill == r->csize + 2) {
			if (!r->cr_ok || !r->lf_ok)
				return (NNG_EPROTO);
			r->st   = CS_INIT;
			r->size = 0;
			r->line = 0;
		}
		return (0);
	case CS_TRLR:
		if (c == '\r')
			r->st = CS_TRLRCR;
		else if (!CH_IS_VCHAR_SP(c))
			return (NNG_EPROTO);
		else
			r->line++;
		break;
	case CS_TRLRCR:
		if (c != '\n')
			return (NNG_EPROTO);
		if (r->line == 0) {
			r->st = CS_DONE;
		} else {
			r->line = 0;
			r->st   = CS_TRLR;
		}
		break;
	default:
		return (NNG_EPROTO);
	}
	*took = 1;
	return (0);
}

/* ---- the per-character handlers: the contract macros with RV / OLD bound to C values */
static int       RVv;
static size_t    o_size, o_line, o_total, o_state, o_n;
static size_t    n_now;
#define RV RVv
/* the macros of contracts.h name (cl)->cl_X and OLD((cl)->cl_X); natively: */
#define N_SAME_SIZE(cl) ((cl)->cl_size == o_size)
#define N_SAME_LINE(cl) ((cl)->cl_line == o_line)
#define N_SAME_TOTAL(cl) ((cl)->cl_total == o_total)
#define N_SAME_STATE(cl) ((size_t) (cl)->cl_state == o_state)
#define N_LEN_POST(cl, c, st_digit)                                                         \
	(CH_IS_HEX(c) ? (CH_SIZE_OVERFLOWS(o_size) ? (RV == NNG_EMSGSIZE && N_SAME_SIZE(cl))    \
	                                           : (RV == 0 && (cl)->cl_size == o_size * 16 + CH_HEXVAL(c) && (size_t) (cl)->cl_state == (size_t) (st_digit))) \
	              : ((c) == ';' ? (RV == 0 && (cl)->cl_state == CS_EXT && N_SAME_SIZE(cl))  \
	                            : ((c) == '\r' ? (RV == 0 && (cl)->cl_state == CS_CR && N_SAME_SIZE(cl)) : (RV == NNG_EPROTO && N_SAME_SIZE(cl)))))
#define N_EXT_POST(cl, c)                                                                   \
	(N_SAME_SIZE(cl) &&                                                                     \
	    ((c) == '\r' ? (RV == 0 && (cl)->cl_state == CS_CR)                                 \
	                 : (CH_IS_VCHAR_SP(c) ? (RV == 0 && (cl)->cl_state == CS_EXT)           \
	                                      : (CH_IS_FORBIDDEN(c) ? (RV == NNG_EPROTO) : ((RV == 0 && (cl)->cl_state == CS_EXT) || RV == NNG_EPROTO)))))
#define N_TRAILER_POST(cl, c)                                                               \
	((c) == '\r' ? (RV == 0 && (cl)->cl_state == CS_TRLRCR && N_SAME_LINE(cl))              \
	             : (CH_IS_VCHAR_SP(c) ? (RV == 0 && (cl)->cl_state == CS_TRLR && (cl)->cl_line == o_line + 1) \
	                                  : (CH_IS_FORBIDDEN(c) ? (RV == NNG_EPROTO && N_SAME_LINE(cl)) \
	                                                        : ((RV == 0 && (cl)->cl_state == CS_TRLR && (cl)->cl_line == o_line + 1) || (RV == NNG_EPROTO && N_SAME_LINE(cl))))))
#define N_TRAILERCR_POST(cl, c)                                                             \
	((c) != '\n' ? (RV == NNG_EPROTO && N_SAME_LINE(cl))                                    \
	             : (o_line == 0 ? (RV == 0 && (cl)->cl_state == CS_DONE && N_SAME_LINE(cl)) : (RV == 0 && (cl)->cl_state == CS_TRLR && (cl)->cl_line == 0)))

static void
check_newline(nni_http_chunks *cl, uint8_t c, int alloc_before, int free_before)
{
	int da = vp_alloc_ok - alloc_before, df = vp_free_calls - free_before;
	if (c != '\n')
		VP_EXPECT(RV == NNG_EPROTO);
	if (c == '\n' && o_size == 0)
		VP_EXPECT(RV == 0 && cl->cl_state == CS_TRLR && cl->cl_line == 0 && N_SAME_SIZE(cl) && N_SAME_TOTAL(cl) && n_now == o_n && da == 0 && df == 0);
	if (c == '\n' && o_size != 0 && CH_TOO_BIG(o_size, o_total, cl->cl_maxsz))
		VP_EXPECT(RV == NNG_EMSGSIZE && da == 0 && df == 0);
	if (c == '\n' && o_size != 0 && !CH_TOO_BIG(o_size, o_total, cl->cl_maxsz))
		VP_EXPECT(RV == 0 || RV == NNG_ENOMEM);
	if (RV == NNG_ENOMEM)
		VP_EXPECT(da == df && da <= 1);
	if (c == '\n' && o_size != 0 && RV == 0) {
		VP_EXPECT(cl->cl_state == CS_DATA && N_SAME_SIZE(cl) && N_SAME_LINE(cl) && cl->cl_total == o_total + o_size && n_now == o_n + 1 && da == 2 && df == 0);
		nni_http_chunk *ch = nni_list_last(&cl->cl_chunks);
		VP_EXPECT(ch != NULL);
		if (ch != NULL) {
			VP_EXPECT(ch->c_size == cl->cl_size && ch->c_alloc == cl->cl_size + 2 && ch->c_resid == cl->cl_size + 2 && ch->c_data != NULL);
			if (ch->c_data != NULL && ch->c_alloc == cl->cl_size + 2 && ch->c_alloc <= NMAX)
				memset(ch->c_data, 0x11, ch->c_alloc); /* writable in full (ASan) */
		}
	}
	if (RV == 0 && cl->cl_maxsz > 0 && o_total <= cl->cl_maxsz)
		VP_EXPECT(cl->cl_total <= cl->cl_maxsz);
	if (RV != 0)
		VP_EXPECT(N_SAME_SIZE(cl) && N_SAME_LINE(cl) && N_SAME_TOTAL(cl) && n_now == o_n);
}

static int
replay_char(const char *fn, int fail_at)
{
	uint8_t          c  = (uint8_t) vp_u64("vp_arg_c", 'x');
	nni_http_chunks *cl = build_cl(nch0);
	int              a0, f0;
	if (cl == NULL)
		SKIP("out of memory");
	o_size = size0, o_line = line0, o_total = total0, o_state = st0;
	o_n    = list_count(cl);
	a0 = vp_alloc_ok, f0 = vp_free_calls;
	vp_alloc_calls   = 0;
	vp_alloc_fail_at = fail_at;
	if (fail_at)
		printf("-- again, allocation #%d fails --\n", fail_at);
	if (IS("chunk_ingest_len"))
		RV = chunk_ingest_len(cl, (char) c);
	else if (IS("chunk_ingest_ext"))
		RV = chunk_ingest_ext(cl, (char) c);
	else if (IS("chunk_ingest_newline"))
		RV = chunk_ingest_newline(cl, (char) c);
	else if (IS("chunk_ingest_trailer"))
		RV = chunk_ingest_trailer(cl, (char) c);
	else if (IS("chunk_ingest_trailercr"))
		RV = chunk_ingest_trailercr(cl, (char) c);
	else
		RV = chunk_ingest_char(cl, (char) c);
	vp_alloc_fail_at = 0;
	n_now            = list_count(cl);
	printf("%s(state=%s size=%zu line=%zu total=%zu maxsz=%zu chunks=%zu, c=", fn, sn(st0), size0, line0, total0, maxsz0, o_n);
	showc(c);
	printf(") -> %d; now state=%s size=%zu line=%zu total=%zu chunks=%zu\n", RV, sn(cl->cl_state), cl->cl_size, cl->cl_line, cl->cl_total, n_now);
	if (IS("chunk_ingest_len")) {
		VP_EXPECT(N_LEN_POST(cl, c, o_state));
	} else if (IS("chunk_ingest_ext")) {
		VP_EXPECT(N_EXT_POST(cl, c));
	} else if (IS("chunk_ingest_newline")) {
		check_newline(cl, c, a0, f0);
	} else if (IS("chunk_ingest_trailer")) {
		VP_EXPECT(N_TRAILER_POST(cl, c));
	} else if (IS("chunk_ingest_trailercr")) {
		VP_EXPECT(N_TRAILERCR_POST(cl, c));
	} else { /* chunk_ingest_char: the state machine */
		if (o_state == CS_INIT)
			VP_EXPECT(CH_IS_HEX(c) ? N_LEN_POST(cl, c, CS_LEN) : (RV == NNG_EPROTO));
		if (o_state == CS_LEN)
			VP_EXPECT(N_LEN_POST(cl, c, CS_LEN));
		if (o_state == CS_EXT)
			VP_EXPECT(N_EXT_POST(cl, c));
		if (o_state == CS_CR)
			check_newline(cl, c, a0, f0);
		if (o_state == CS_TRLR)
			VP_EXPECT(N_TRAILER_POST(cl, c));
		if (o_state == CS_TRLRCR)
			VP_EXPECT(N_TRAILERCR_POST(cl, c));
		if (o_state == CS_DATA || o_state >= CS_DONE)
			VP_EXPECT(RV == NNG_EPROTO);
		if (o_state != CS_INIT && o_state != CS_LEN)
			VP_EXPECT(N_SAME_SIZE(cl));
		if (o_state != CS_CR && o_state != CS_TRLR && o_state != CS_TRLRCR)
			VP_EXPECT(N_SAME_LINE(cl));
		if (o_state != CS_CR)
			VP_EXPECT(N_SAME_TOTAL(cl) && n_now == o_n && vp_alloc_ok == a0 && vp_free_calls == f0);
		if (RV != 0)
			VP_EXPECT(N_SAME_SIZE(cl) && N_SAME_LINE(cl) && N_SAME_TOTAL(cl) && n_now == o_n);
		if (RV != 0)
			VP_EXPECT(N_SAME_STATE(cl) || (o_state == CS_INIT && cl->cl_state == CS_LEN));
		VP_EXPECT(RV == 0 || RV == NNG_EPROTO || RV == NNG_EMSGSIZE || RV == NNG_ENOMEM);
		if (RV == 0)
			VP_EXPECT(cl->cl_state != CS_INIT && cl->cl_state <= CS_DONE);
	}
	if (RV != 0 && !IS("chunk_ingest_char"))
		VP_EXPECT(N_SAME_STATE(cl));
	nni_http_chunks_free(cl);
	return (0);
}

/* chunk that is being filled: `filled` bytes of size+2 are there */
static nni_http_chunk *
add_open_chunk(nni_http_chunks *cl, size_t csize, size_t resid, int stored_crlf_ok)
{
	nni_http_chunk *ch = nni_zalloc(sizeof(*ch));
	ch->c_size         = csize;
	ch->c_alloc        = csize + 2;
	ch->c_resid        = resid;
	ch->c_data         = nni_alloc(csize + 2);
	size_t filled      = ch->c_alloc - resid;
	for (size_t i = 0; i < ch->c_alloc; i++)
		ch->c_data[i] = i < filled ? (char) ('a' + i % 26) : (char) 0x7e;
	if (filled > csize)
		ch->c_data[csize] = stored_crlf_ok ? '\r' : 'X'; /* CR already stored */
	nni_list_append(&cl->cl_chunks, ch);
	return (ch);
}

/* one call of chunk_ingest_data: variant 0 = CRLF behind the data, 1 = CR wrong, 2 = LF wrong */
static void
data_once(size_t csize, size_t resid, size_t n, int variant)
{
	nni_http_chunks *cl = build_cl(nch0 > 0 ? nch0 - 1 : 0);
	if (cl == NULL)
		return;
	cl->cl_state         = CS_DATA;
	nni_http_chunk *ch   = add_open_chunk(cl, csize, resid, variant != 1);
	size_t          fill = ch->c_alloc - resid;
	size_t          take = VP_MIN(n, resid);
	char           *buf  = malloc(n);
	char           *pre  = malloc(ch->c_alloc);
	memcpy(pre, ch->c_data, ch->c_alloc);
	for (size_t i = 0; i < n; i++) {
		size_t pos = fill + i; /* where the byte lands in the chunk */
		buf[i]     = (char) ('A' + i % 26);
		if (pos == csize)
			buf[i] = variant == 1 ? 'X' : '\r';
		if (pos == csize + 1)
			buf[i] = variant == 2 ? 'Y' : '\n';
	}
	size_t len = (size_t) 0xdeadbeef;
	o_n        = list_count(cl);
	RV         = chunk_ingest_data(cl, buf, n, &len);
	printf("chunk_ingest_data(chunk size=%zu resid=%zu, n=%zu, %s) -> %d, consumed %zu; now state=%s resid=%zu\n", csize, resid, n,
	    variant == 0 ? "CRLF behind the data" : variant == 1 ? "no CR behind the data" : "no LF behind the CR", RV, len, sn(cl->cl_state), ch->c_resid);
	VP_EXPECT(len >= 1 && len <= n);
	VP_EXPECT(RV == 0 || RV == NNG_EPROTO);
	if (RV == 0)
		VP_EXPECT(cl->cl_state == CS_DATA || cl->cl_state == CS_INIT);
	if (RV == 0 && cl->cl_state == CS_DATA)
		VP_EXPECT(len == n && cl->cl_size == size0 && cl->cl_line == line0);
	if (RV == 0 && cl->cl_state == CS_INIT)
		VP_EXPECT(cl->cl_size == 0 && cl->cl_line == 0);
	if (RV != 0)
		VP_EXPECT(cl->cl_state == CS_DATA && cl->cl_size == size0 && cl->cl_line == line0);
	VP_EXPECT(cl->cl_total == total0 && list_count(cl) == o_n);
	VP_EXPECT(len == take);
	for (size_t k = 0; k < take && k < len; k++)
		VP_EXPECT(ch->c_data[fill + k] == buf[k]);
	VP_EXPECT(memcmp(ch->c_data, pre, fill) == 0);
	VP_EXPECT(ch->c_size == csize && ch->c_alloc == csize + 2);
	if (n < resid)
		VP_EXPECT(RV == 0 && cl->cl_state == CS_DATA && ch->c_resid == resid - n);
	if (n >= resid) {
		VP_EXPECT((RV == 0) == (ch->c_data[csize] == '\r' && ch->c_data[csize + 1] == '\n'));
		if (RV == 0)
			VP_EXPECT(cl->cl_state == CS_INIT && ch->c_resid == 0);
	}
	free(buf);
	free(pre);
	nni_http_chunks_free(cl);
}

static int
replay_data(void)
{
	size_t csize = vp_u64("vp_in_csize", 4), resid = vp_u64("vp_in_cresid", 6), n = vp_u64("vp_arg_n", 1);
	if (!(csize >= 1 && csize <= SIZE_MAX - 2 && vp_u64("vp_in_calloc", csize + 2) == csize + 2 && resid >= 1 && resid <= csize + 2))
		SKIP("counterexample pre-state is not a well-formed chunk");
	if (n < 1)
		SKIP("precondition: n >= 1");
	if (csize > NMAX) {
		/* a chunk that cannot be allocated here: the same situation at a small scale (64-byte
		 * chunk; same bytes missing if few are missing, else same bytes stored up to 32; n on the
		 * same side of "what the chunk still misses", same distance up to 8) */
		size_t filled = csize + 2 - resid, c2 = 64, r2, n2;
		r2 = resid <= 34 ? resid : c2 + 2 - VP_MIN(filled, (size_t) 32);
		n2 = n >= resid ? r2 + VP_MIN(n - resid, (size_t) 8) : VP_MIN(n, r2 - 1);
		printf("note: chunk of %zu bytes (resid %zu, n %zu) cannot be built natively; replayed at scale: size %zu resid %zu n %zu\n", csize,
		    resid, n, c2, r2, n2);
		csize = c2, resid = r2, n = n2 ? n2 : 1;
	}
	if (n > NMAX) /* only min(n, resid) bytes may be read: offer that much and a little more */
		n = resid + 8;
	for (int v = 0; v < 3; v++)
		data_once(csize, resid, n, v);
	return (0);
}

static int
replay_parse(int fail_at)
{
	size_t n = vp_u64("vp_arg_n", 0);
	if (n > NMAX)
		SKIP("buffer of %zu bytes too large to build natively", n);
	if (st0 > CS_DONE)
		SKIP("precondition: decoder state in range");
	size_t csize = vp_u64("vp_in_csize", 4), resid = vp_u64("vp_in_cresid", 6);
	if (!(csize >= 1 && csize <= NMAX && vp_u64("vp_in_calloc", csize + 2) == csize + 2 && resid >= 1 && resid <= csize + 2))
		csize = 4, resid = 6; /* abstract view: the chunk is not described; take a fresh 4-byte chunk */
	nni_http_chunks *cl = build_cl(st0 == CS_DATA ? (nch0 > 0 ? nch0 - 1 : 0) : nch0);
	if (cl == NULL)
		SKIP("out of memory");
	ref_t r = { st0, size0, line0, total0, maxsz0, 0, 0, 0, 0, 0 };
	if (st0 == CS_DATA) {
		add_open_chunk(cl, csize, resid, 1);
		r.csize = csize;
		r.cfill = csize + 2 - resid;
		r.cr_ok = 1;
	}
	uint8_t *buf = malloc(n ? n : 1);
	for (size_t i = 0; i < n; i++) {
		char k[24];
		snprintf(k, sizeof(k), "vp_in_b%zu", i);
		buf[i] = (uint8_t) vp_u64(k, 'x');
	}
	if (n > VP_SNAP_NPB && fail_at == 0)
		printf("note: only the first %d bytes come from the counterexample, the other %zu are 'x'\n", VP_SNAP_NPB, n - VP_SNAP_NPB);
	/* reference run */
	size_t want_len = 0;
	int    want     = 0;
	while (r.st != CS_DONE && want_len < n) {
		size_t took;
		want = ref_step(&r, buf[want_len], &took);
		want_len += took;
		if (want != 0)
			break;
	}
	if (want == 0)
		want = (r.st == CS_DONE) ? 0 : NNG_EAGAIN;
	o_n = list_count(cl);
	vp_alloc_calls   = 0;
	vp_alloc_fail_at = fail_at;
	if (fail_at)
		printf("-- again, allocation #%d fails --\n", fail_at);
	size_t len = (size_t) 0xdeadbeef;
	RV         = nni_http_chunks_parse(cl, buf, n, &len);
	vp_alloc_fail_at = 0;
	printf("nni_http_chunks_parse(state=%s size=%zu line=%zu total=%zu maxsz=%zu, n=%zu \"", sn(st0), size0, line0, total0, maxsz0, n);
	for (size_t i = 0; i < n && i < 32; i++) {
		if (buf[i] == '\r')
			printf("\\r");
		else if (buf[i] == '\n')
			printf("\\n");
		else if (buf[i] >= 0x20 && buf[i] < 0x7f && buf[i] != '"' && buf[i] != '\\')
			printf("%c", buf[i]);
		else
			printf("\\x%02X", buf[i]);
	}
	printf("\") -> %d, consumed %zu; now state=%s size=%zu line=%zu total=%zu (RFC 7230 reference: %d, consumed %zu, state=%s)\n", RV, len,
	    sn(cl->cl_state), cl->cl_size, cl->cl_line, cl->cl_total, want, want_len, sn(r.st));
	VP_EXPECT(len <= n);
	VP_EXPECT(RV == 0 || RV == NNG_EAGAIN || RV == NNG_EPROTO || RV == NNG_EMSGSIZE || RV == NNG_ENOMEM);
	VP_EXPECT((RV == 0) == (cl->cl_state == CS_DONE));
	if (RV == NNG_EAGAIN)
		VP_EXPECT(len == n);
	if (st0 == CS_DONE)
		VP_EXPECT(RV == 0 && len == 0 && cl->cl_size == size0 && cl->cl_line == line0 && cl->cl_total == total0 && list_count(cl) == o_n);
	VP_EXPECT(cl->cl_total >= total0);
	if (cl->cl_maxsz > 0 && total0 <= cl->cl_maxsz)
		VP_EXPECT(cl->cl_total <= cl->cl_maxsz);
	VP_EXPECT(cl->cl_state <= CS_DONE);
	if (RV != NNG_ENOMEM) {
		/* same verdict, same consumption, same abstract state as the reference */
		VP_EXPECT(RV == want);
		VP_EXPECT(len == want_len);
		if (RV == 0 || RV == NNG_EAGAIN)
			VP_EXPECT((size_t) cl->cl_state == r.st && cl->cl_size == r.size && cl->cl_line == r.line && cl->cl_total == r.total);
	}
	free(buf);
	nni_http_chunks_free(cl);
	return (0);
}

int
main(int argc, char **argv)
{
	int rc, live_end;
	if (argc < 3) {
		fprintf(stderr, "usage: replay <inputs> <function>\n");
		return 2;
	}
	vp_load(argv[1]);
	const char *fn = argv[2];
	st0 = vp_u64("vp_in_state", 0), size0 = vp_u64("vp_in_size", 0), line0 = vp_u64("vp_in_line", 0);
	total0 = vp_u64("vp_in_total", 0), maxsz0 = vp_u64("vp_in_maxsz", 0), nch0 = vp_u64("vp_in_nch", 0);
	if (IS("nni_http_chunks_init")) {
		for (int k = 0; k <= 1; k++) {
			nni_http_chunks *cl = (nni_http_chunks *) (uintptr_t) 0x5a5a;
			size_t           mx = vp_u64("vp_arg_maxsz", 0);
			vp_alloc_calls = 0, vp_alloc_fail_at = k;
			int a0 = vp_alloc_ok;
			RV     = nni_http_chunks_init(&cl, mx);
			printf("nni_http_chunks_init(maxsz=%zu)%s -> %d\n", mx, k ? " with the allocation failing" : "", RV);
			VP_EXPECT(RV == 0 || RV == NNG_ENOMEM);
			VP_EXPECT(vp_alloc_ok - a0 == (RV == 0 ? 1 : 0));
			if (RV == 0) {
				VP_EXPECT(cl->cl_state == CS_INIT && cl->cl_size == 0 && cl->cl_line == 0 && cl->cl_total == 0 && cl->cl_maxsz == mx && list_count(cl) == 0);
				nni_http_chunks_free(cl);
			}
		}
		vp_release_all();
		VP_DONE();
	}
	if (!vp_has("vp_in_state")) {
		printf("REPLAY-RESULT: skipped (trace has no entry snapshot)\n");
		return 3;
	}
	if (IS("chunk_ingest_data")) {
		rc = replay_data();
	} else if (IS("nni_http_chunks_parse")) {
		if (st0 > CS_DONE) {
			/* CBMC gives the enum chunk_state a signed type, so "cl_state <= CS_DONE" admits negative
			 * states no decoder can be in (and which are > CS_DONE for the compiled code).  The same
			 * buffer is replayed from every state the decoder can be in, each run judged by the contract. */
			printf("note: decoder state %lld in the counterexample is not a value of enum chunk_state; replaying the same %zu bytes from every state\n",
			    (long long) (int64_t) st0, (size_t) vp_u64("vp_arg_n", 0));
			rc = 0;
			for (st0 = CS_INIT; st0 <= CS_DONE && rc == 0; st0++)
				rc = replay_parse(0);
			st0 = CS_INIT;
		} else {
			rc = replay_parse(0);
		}
		for (int k = 1; rc == 0 && k <= 2; k++)
			replay_parse(k);
	} else if (IS("chunk_ingest_len") || IS("chunk_ingest_ext") || IS("chunk_ingest_newline") || IS("chunk_ingest_trailer") ||
	    IS("chunk_ingest_trailercr") || IS("chunk_ingest_char")) {
		static const struct { const char *f; size_t st; } pre[] = { { "chunk_ingest_ext", CS_EXT }, { "chunk_ingest_newline", CS_CR },
			{ "chunk_ingest_trailer", CS_TRLR }, { "chunk_ingest_trailercr", CS_TRLRCR } };
		for (size_t i = 0; i < sizeof(pre) / sizeof(pre[0]); i++)
			if (IS(pre[i].f) && st0 != pre[i].st) {
				printf("REPLAY-RESULT: skipped (precondition: state %s)\n", sn(pre[i].st));
				return 3;
			}
		rc = replay_char(fn, 0);
		if (rc == 0 && (IS("chunk_ingest_newline") || (IS("chunk_ingest_char") && st0 == CS_CR))) {
			replay_char(fn, 1);
			replay_char(fn, 2);
		}
	} else {
		printf("REPLAY-RESULT: skipped (no native driver for %s)\n", fn);
		return 3;
	}
	/* everything the decoder owned has been given back by nni_http_chunks_free */
	live_end = 0;
	for (int i = 0; i < vp_nblk; i++)
		live_end += vp_blk[i].live;
	if (rc == 0)
		VP_EXPECT(live_end == 0);
	vp_release_all();
	if (rc != 0)
		return (rc);
	VP_DONE();
}
