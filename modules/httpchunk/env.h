/* Environment of http_chunk.c (ASSUMED models, ghost state only).
 *
 * Allocator: same model as include/env_alloc.h (nni_alloc = sz > 0 ? malloc :
 * NULL, may fail, sized-free assertion).  The 2-safety lemma units need the
 * SAME allocation outcomes in both runs they compare; they switch the
 * allocator to a schedule (g_alloc_sched): request number i of a run is
 * refused iff bit i of the arbitrary mask g_fail_mask is set, and every
 * request above VP_LEM_OBJ bytes is refused (a legitimate allocator may refuse
 * any request); granted blocks all have VP_LEM_OBJ bytes, because heap
 * objects of symbolic size made CBMC's array post-processing explode (18 M
 * variables for a 3-byte input).  Memory safety is therefore NOT what the
 * lemma units establish (the contract units do, with exact sizes); the sized
 * free assertion is skipped in schedule mode.  Those units run cbmc with
 * --no-malloc-may-fail so that malloc itself adds no second source of
 * failure.
 *
 * Chunk list: the code only ever appends a chunk and looks at the last one.
 * The intrusive nni_list is modelled by a ghost record (count, last member,
 * first VP_MAXCH members in order); src/core/list.c itself is not under
 * contract here. */
#ifndef VP_HTTPCHUNK_ENV_H
#define VP_HTTPCHUNK_ENV_H

#define VP_LEM_OBJ ((size_t) 64)
static bool
vp_alloc_refused(size_t sz)
{
	if (g_alloc_sched) {
		size_t i = g_alloc_seq;
		g_alloc_seq++;
		if (sz > VP_LEM_OBJ) {
			return (true);
		}
		return (i >= 8 * sizeof(size_t) ? true : ((g_fail_mask >> i) & 1) != 0);
	}
	return (false);
}

void *
nni_alloc(size_t sz)
{
	void *p = (sz > 0 && !vp_alloc_refused(sz)) ? (g_alloc_sched ? malloc(VP_LEM_OBJ) : malloc(sz)) : NULL;
	if (p != NULL) {
		g_alloc_ok++;
	}
	return (p);
}

void *
nni_zalloc(size_t sz)
{
	void *p = (sz > 0 && !vp_alloc_refused(sz)) ? (g_alloc_sched ? calloc(1, VP_LEM_OBJ) : calloc(1, sz)) : NULL;
	if (p != NULL) {
		g_alloc_ok++;
	}
	return (p);
}

void
nni_free(void *ptr, size_t size)
{
	if (ptr != NULL && g_alloc_sched) {
		g_free_calls++;
	} else if (ptr != NULL) {
		g_free_calls++;
		__CPROVER_assert(__CPROVER_OBJECT_SIZE(ptr) == size,
		    "sized free: nni_free size equals allocation size");
		__CPROVER_assert(__CPROVER_POINTER_OFFSET(ptr) == 0,
		    "sized free: nni_free of block start");
	}
	free(ptr);
}

static vp_chlist *
vp_chl_of(const nni_list *l)
{
	return ((g_chl[1].addr != NULL && (const void *) l == g_chl[1].addr) ? &g_chl[1] : &g_chl[0]);
}

void
nni_list_init_offset(nni_list *l, size_t off)
{
	vp_chlist *q = vp_chl_of(l);
	(void) off;
	q->n    = 0;
	q->last = NULL;
}

void
nni_list_append(nni_list *l, void *item)
{
	vp_chlist *q = vp_chl_of(l);
	if (q->n < VP_MAXCH) {
		q->item[q->n] = item;
	}
	q->n++;
	q->last = item;
}

void *
nni_list_last(const nni_list *l)
{
	vp_chlist *q = vp_chl_of(l);
	return (q->n != 0 ? q->last : NULL);
}

#endif
