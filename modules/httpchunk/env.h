/* Environment of http_chunk.c (ASSUMED models, ghost state only).
 *
 * Allocator: same model as include/env_alloc.h (nni_alloc = sz > 0 ? malloc :
 * NULL, may fail, sized-free assertion).  The 2-safety lemma units need the
 * SAME allocation outcomes in both runs they compare; they switch the
 * allocator to a schedule (g_alloc_sched): request number i of a run is
 * refused iff bit i of the arbitrary mask g_fail_mask is set, and every data
 * request above VP_LEM_OBJ bytes is refused (a legitimate allocator may refuse
 * any request).  Granted blocks come from two static pools (bump allocation,
 * no reuse): heap objects of symbolic size, and even a dozen fixed-size
 * malloc objects, made CBMC's formula explode (3 M variables for a 2-byte
 * input).  Memory safety is therefore NOT what the lemma units establish (the
 * contract units do, with exact sizes).  Those units run cbmc with
 * --no-malloc-may-fail.
 *
 * Chunk list: the code only ever appends a chunk and looks at the last one.
 * The intrusive nni_list is modelled by a ghost record (count, last member,
 * first VP_MAXCH members in order); src/core/list.c itself is not under
 * contract here. */
#ifndef VP_HTTPCHUNK_ENV_H
#define VP_HTTPCHUNK_ENV_H

#define VP_LEM_OBJ ((size_t) 8)
#define VP_POOL 6
nni_http_chunk g_pool_ch[VP_POOL];
char           g_pool_d[VP_POOL][8];
size_t         g_pool_nch, g_pool_nd;

static bool
vp_sched_refused(void)
{
	size_t i = g_alloc_seq;
	g_alloc_seq++;
	return (i >= 8 * sizeof(size_t) ? true : ((g_fail_mask >> i) & 1) != 0);
}

void *
nni_alloc(size_t sz)
{
	void *p;
	if (g_alloc_sched) {
		bool refused = vp_sched_refused();
		if (sz == 0 || sz > VP_LEM_OBJ || refused) {
			return (NULL);
		}
		__CPROVER_assert(g_pool_nd < VP_POOL, "lemma allocator: data pool large enough for the bound");
		p = &g_pool_d[g_pool_nd][0];
		g_pool_nd++;
		g_alloc_ok++;
		return (p);
	}
	p = (sz > 0 ? malloc(sz) : NULL);
	if (p != NULL) {
		g_alloc_ok++;
	}
	return (p);
}

void *
nni_zalloc(size_t sz)
{
	void *p;
	if (g_alloc_sched) {
		bool refused = vp_sched_refused();
		__CPROVER_assert(sz == sizeof(nni_http_chunk), "lemma allocator: only chunk records are zalloc'ed");
		if (refused) {
			return (NULL);
		}
		__CPROVER_assert(g_pool_nch < VP_POOL, "lemma allocator: chunk pool large enough for the bound");
		g_pool_ch[g_pool_nch] = (nni_http_chunk){ 0 };
		p                     = &g_pool_ch[g_pool_nch];
		g_pool_nch++;
		g_alloc_ok++;
		return (p);
	}
	p = (sz > 0 ? calloc(1, sz) : NULL);
	if (p != NULL) {
		g_alloc_ok++;
	}
	return (p);
}

void
nni_free(void *ptr, size_t size)
{
	if (g_alloc_sched) {
		if (ptr != NULL) {
			g_free_calls++; /* pool blocks are not reused */
		}
		return;
	}
	if (ptr != NULL) {
		g_free_calls++;
		__CPROVER_assert(__CPROVER_OBJECT_SIZE(ptr) == size,
		    "sized free: nni_free size equals allocation size");
		__CPROVER_assert(__CPROVER_POINTER_OFFSET(ptr) == 0,
		    "sized free: nni_free of block start");
	}
	free(ptr);
}

static vp_chlist *
vp_chl_of(const nni_list *l)
{
	return ((g_chl[1].addr != NULL && (const void *) l == g_chl[1].addr) ? &g_chl[1] : &g_chl[0]);
}

void
nni_list_init_offset(nni_list *l, size_t off)
{
	vp_chlist *q = vp_chl_of(l);
	(void) off;
	q->n    = 0;
	q->last = NULL;
}

void
nni_list_append(nni_list *l, void *item)
{
	vp_chlist *q = vp_chl_of(l);
	if (q->n < VP_MAXCH) {
		q->item[q->n] = item;
	}
	q->n++;
	q->last = item;
}

void *
nni_list_last(const nni_list *l)
{
	vp_chlist *q = vp_chl_of(l);
	return (q->n != 0 ? q->last : NULL);
}

#endif
