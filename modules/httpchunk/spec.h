/* Spec macros for src/supplemental/http/http_chunk.c (no nng code).
 *
 * Source of the specification: RFC 7230 section 4.1
 *
 *   chunked-body = *chunk last-chunk trailer-part CRLF
 *   chunk        = chunk-size [ chunk-ext ] CRLF chunk-data CRLF
 *   chunk-size   = 1*HEXDIG
 *   last-chunk   = 1*("0") [ chunk-ext ] CRLF
 *   chunk-ext    = *( ";" chunk-ext-name [ "=" chunk-ext-val ] )
 *   chunk-data   = 1*OCTET ; a sequence of chunk-size octets
 *   trailer-part = *( header-field CRLF )
 *
 * and property C16: chunk sizes that do not fit (numeric overflow, or more
 * than the configured maximum in total) are refused with NNG_EMSGSIZE, any
 * other violation of the grammar with NNG_EPROTO, never by delivering data;
 * the decoder state is a function of the bytes consumed so far only (it does
 * not depend on how the stream was cut into reads).
 *
 * The decoder is a character-driven machine; the abstract state is
 *   (state, size, line, total, list of chunks, fill level of the last chunk).
 */
#ifndef VP_HTTPCHUNK_SPEC_H
#define VP_HTTPCHUNK_SPEC_H

/* ctype: glibc implements isdigit()/isalnum()/isprint() as macros indexing a
 * locale table obtained from __ctype_b_loc(), which has no body under CBMC.
 * Dropping the macros makes the calls go to CBMC's C-locale models of the
 * FUNCTIONS.  ASSUMED: "C" locale (nng never calls setlocale). */
#include <ctype.h>
#ifdef VP_CBMC
#undef isdigit
#undef isalnum
#undef isprint
#undef isalpha
#undef isxdigit
#endif

#define CH_U8(c) ((uint8_t) (c))

/* HEXDIG (RFC 5234 B.1, case-insensitive per RFC 7230) and its value */
#define CH_IS_HEX(c)                                                  \
	((CH_U8(c) >= 0x30 && CH_U8(c) <= 0x39) ||                        \
	    (CH_U8(c) >= 0x41 && CH_U8(c) <= 0x46) ||                     \
	    (CH_U8(c) >= 0x61 && CH_U8(c) <= 0x66))
#define CH_HEXVAL(c)                                                  \
	((size_t) (CH_U8(c) <= 0x39 ? CH_U8(c) - 0x30                     \
	                            : (CH_U8(c) <= 0x46 ? CH_U8(c) - 0x41 + 10 \
	                                                : CH_U8(c) - 0x61 + 10)))
/* "the value would overflow": 16*s + d > SIZE_MAX for a digit d <= 15.
 * SIZE_MAX = 16*(SIZE_MAX>>4) + 15, so this is independent of d. */
#define CH_SIZE_OVERFLOWS(s) ((s) > (SIZE_MAX >> 4))

/* bytes every grammar production for extensions / trailers admits (VCHAR, SP) */
#define CH_IS_VCHAR_SP(c) (CH_U8(c) >= 0x20 && CH_U8(c) <= 0x7e)
/* bytes no production admits inside a line: CTL (RFC 5234) other than HTAB;
 * CR is a control too but is the line terminator and handled separately.
 * HTAB and obs-text (0x80-0xff) are allowed by RFC 7230 inside quoted strings
 * and field values; the contracts below leave their treatment open (accept or
 * NNG_EPROTO, nothing else), the code refuses them. */
#define CH_IS_FORBIDDEN(c)                                            \
	((CH_U8(c) < 0x20 && CH_U8(c) != 0x09 && CH_U8(c) != 0x0d) || CH_U8(c) == 0x7f)

/* "chunk does not fit": the size itself plus the CRLF behind the data must be
 * addressable, the running total must be representable and, when a maximum is
 * configured, the running total must not exceed it.  Stated in 128-bit
 * arithmetic so that the specification itself cannot wrap. */
typedef unsigned __int128 vp_u128;
#define CH_TOO_BIG(size, total, maxsz)                                \
	(((vp_u128) (size) + 2 > (vp_u128) SIZE_MAX) ||                   \
	    ((vp_u128) (total) + (vp_u128) (size) > (vp_u128) SIZE_MAX) || \
	    ((maxsz) > 0 && (vp_u128) (total) + (vp_u128) (size) > (vp_u128) (maxsz)))

/* ---- ghost model of the chunk list (see env.h) ------------------------- */
#define VP_MAXCH 4
typedef struct {
	const void *addr;           /* identity of the nni_list this record models */
	size_t      n;              /* number of members */
	void       *last;           /* last member (NULL when empty) */
	void       *item[VP_MAXCH]; /* first VP_MAXCH members in order (lemma units) */
} vp_chlist;
vp_chlist g_chl[2]; /* [0]: the list of the decoder under contract; [1]: second decoder of 2-safety lemmas */
size_t    g_fail_mask;  /* lemma units: allocation number i is refused iff bit i is set */
size_t    g_alloc_seq;  /* lemma units: allocation requests so far in this run */
bool      g_alloc_sched; /* lemma units: allocator follows g_fail_mask instead of failing nondeterministically */

#define CHL (g_chl[0])
#define CH_LAST ((nni_http_chunk *) CHL.last)

/* shape of a chunk that is being filled: `resid` bytes of the size+2
 * (data + CRLF) are still missing */
#define CH_CHUNK_SCALAR(ch)                                           \
	((ch)->c_size >= 1 && (ch)->c_size <= SIZE_MAX - 2 &&             \
	    (ch)->c_alloc == (ch)->c_size + 2 && (ch)->c_resid >= 1 &&    \
	    (ch)->c_resid <= (ch)->c_alloc)
#define CH_CHUNK_PRE(ch)                                              \
	(__CPROVER_is_fresh((ch), sizeof(nni_http_chunk)) &&              \
	    CH_CHUNK_SCALAR(ch) &&                                        \
	    __CPROVER_is_fresh((ch)->c_data, (ch)->c_alloc))
#define CH_FILLED(ch) ((ch)->c_alloc - (ch)->c_resid)

/* representation invariant of the decoder, scalar part */
#define CHUNKS_WF_SCALAR(cl) ((cl)->cl_state <= CS_DONE)

#endif
