/* Entry snapshots for the native replay of http_chunk.c units (macros only; read by
 * vp/replay.py from the CBMC trace, never by the code).  Snapshot reads carry no proof
 * obligation (checks switched off between BEGIN and END). */
#ifndef VP_HTTPCHUNK_SNAP_H
#define VP_HTTPCHUNK_SNAP_H

#define VP_CSNAP_BEGIN                                                             \
	_Pragma("CPROVER check push") _Pragma("CPROVER check disable \"pointer\"")   \
	_Pragma("CPROVER check disable \"bounds\"")                                  \
	_Pragma("CPROVER check disable \"pointer-primitive\"")                       \
	_Pragma("CPROVER check disable \"pointer-overflow\"")
#define VP_CSNAP_END _Pragma("CPROVER check pop")

/* decoder scalars + number of chunks queued (ghost list model) */
#define VP_SNAP_CL(cl)                                                             \
	VP_CSNAP_BEGIN                                                                 \
	size_t vp_in_state = (size_t) (cl)->cl_state, vp_in_size = (cl)->cl_size,      \
	       vp_in_line = (cl)->cl_line, vp_in_total = (cl)->cl_total,               \
	       vp_in_maxsz = (cl)->cl_maxsz, vp_in_nch = g_chl[0].n;                   \
	VP_CSNAP_END
#define VP_SNAP_CLC(cl, c) VP_SNAP_CL(cl) size_t vp_arg_c = (size_t) (uint8_t) (c);

/* the chunk being filled (the last one) */
#define VP_SNAP_LASTCH()                                                           \
	VP_CSNAP_BEGIN                                                                 \
	size_t vp_in_csize  = (g_chl[0].n != 0 && g_chl[0].last != NULL) ? ((nni_http_chunk *) g_chl[0].last)->c_size : 0,  \
	       vp_in_calloc = (g_chl[0].n != 0 && g_chl[0].last != NULL) ? ((nni_http_chunk *) g_chl[0].last)->c_alloc : 0, \
	       vp_in_cresid = (g_chl[0].n != 0 && g_chl[0].last != NULL) ? ((nni_http_chunk *) g_chl[0].last)->c_resid : 0; \
	VP_CSNAP_END

#define VP_SNAP_PB(i) uint8_t vp_in_b##i = ((size_t) (i) < n) ? ((const uint8_t *) buf)[i] : (uint8_t) 0
#define VP_SNAP_PARSE(cl)                                                          \
	VP_SNAP_CL(cl)                                                                 \
	size_t vp_arg_n = n;                                                           \
	VP_CSNAP_BEGIN                                                                 \
	VP_SNAP_PB(0); VP_SNAP_PB(1); VP_SNAP_PB(2); VP_SNAP_PB(3); VP_SNAP_PB(4); VP_SNAP_PB(5); VP_SNAP_PB(6); VP_SNAP_PB(7); \
	VP_SNAP_PB(8); VP_SNAP_PB(9); VP_SNAP_PB(10); VP_SNAP_PB(11); VP_SNAP_PB(12); VP_SNAP_PB(13); VP_SNAP_PB(14); VP_SNAP_PB(15); \
	VP_CSNAP_END
#define VP_SNAP_NPB 16
#endif
