/* Contracts for src/supplemental/http/http_chunk.c (redeclarations after the
 * definitions).  Every postcondition is taken from RFC 7230 section 4.1 and
 * property C16 (see spec.h), not from the code.
 *
 * Two views of chunk_ingest_char / chunk_ingest_data exist:
 *  - the CONCRETE view (default) describes the chunk objects (pointer shape,
 *    fill level, bytes copied); it is what the enforce units of these
 *    functions prove and what the bounded unit of nni_http_chunks_parse uses;
 *  - the ABSTRACT view (-DVP_PARSE_ABSTRACT) keeps only the scalar clauses.
 *    DFCC rejects pointer predicates in loop invariants ("Loop invariant is
 *    not side-effect free"), so the unbounded loop-contract unit of
 *    nni_http_chunks_parse can only use this view.  The abstract clauses are
 *    literally a subset of the concrete ones (same macros), so they are proved
 *    by the concrete enforce units; what the abstract view does NOT check is
 *    that the chunk-shape precondition of chunk_ingest_data holds at the call
 *    (covered by the bounded unit chunks_parse_b3 and by the WF clauses of
 *    chunk_ingest_newline / chunk_ingest_data; listed under "assumes").
 */
#ifndef VP_HTTPCHUNK_CONTRACTS_H
#define VP_HTTPCHUNK_CONTRACTS_H
/* clang-format off */
#define RV __CPROVER_return_value
#define OLD(e) __CPROVER_old(e)
#define CL_FRESH(cl) __CPROVER_is_fresh((cl), sizeof(struct nng_http_chunks))
#define VP_HEAP_GHOSTS g_alloc_ok, g_free_calls, g_alloc_seq

#define SAME_SIZE(cl)  ((cl)->cl_size == OLD((cl)->cl_size))
#define SAME_LINE(cl)  ((cl)->cl_line == OLD((cl)->cl_line))
#define SAME_TOTAL(cl) ((cl)->cl_total == OLD((cl)->cl_total))
#define SAME_STATE(cl) ((cl)->cl_state == OLD((cl)->cl_state))
#define SAME_LISTN     (CHL.n == OLD(CHL.n))

/* ---- chunk-size = 1*HEXDIG, then ";" (extension) or CR ----------------- */
#define LEN_POST(cl, c, st_digit)                                                        \
	(CH_IS_HEX(c)                                                                        \
	    ? (CH_SIZE_OVERFLOWS(OLD((cl)->cl_size))                                         \
	          ? (RV == NNG_EMSGSIZE && SAME_SIZE(cl))                                    \
	          : (RV == 0 && (cl)->cl_size == OLD((cl)->cl_size) * 16 + CH_HEXVAL(c) && (cl)->cl_state == (st_digit))) \
	    : ((c) == ';' ? (RV == 0 && (cl)->cl_state == CS_EXT && SAME_SIZE(cl))          \
	                  : ((c) == '\r' ? (RV == 0 && (cl)->cl_state == CS_CR && SAME_SIZE(cl)) \
	                                 : (RV == NNG_EPROTO && SAME_SIZE(cl)))))

/* ---- chunk-ext: anything printable up to the CR ------------------------ */
#define EXT_POST(cl, c)                                                                  \
	(SAME_SIZE(cl) &&                                                                    \
	    ((c) == '\r' ? (RV == 0 && (cl)->cl_state == CS_CR)                              \
	                 : (CH_IS_VCHAR_SP(c) ? (RV == 0 && (cl)->cl_state == CS_EXT)        \
	                                      : (CH_IS_FORBIDDEN(c) ? (RV == NNG_EPROTO)     \
	                                                            : ((RV == 0 && (cl)->cl_state == CS_EXT) || RV == NNG_EPROTO)))))

/* ---- trailer-part: header lines of printable bytes; an empty line ends it */
#define TRAILER_POST(cl, c)                                                              \
	((c) == '\r' ? (RV == 0 && (cl)->cl_state == CS_TRLRCR && SAME_LINE(cl))             \
	             : (CH_IS_VCHAR_SP(c) ? (RV == 0 && (cl)->cl_state == CS_TRLR && (cl)->cl_line == OLD((cl)->cl_line) + 1) \
	                                  : (CH_IS_FORBIDDEN(c) ? (RV == NNG_EPROTO && SAME_LINE(cl)) \
	                                                        : ((RV == 0 && (cl)->cl_state == CS_TRLR && (cl)->cl_line == OLD((cl)->cl_line) + 1) || (RV == NNG_EPROTO && SAME_LINE(cl))))))

#define TRAILERCR_POST(cl, c)                                                            \
	((c) != '\n' ? (RV == NNG_EPROTO && SAME_LINE(cl))                                   \
	             : (OLD((cl)->cl_line) == 0 ? (RV == 0 && (cl)->cl_state == CS_DONE && SAME_LINE(cl)) \
	                                        : (RV == 0 && (cl)->cl_state == CS_TRLR && (cl)->cl_line == 0)))

/* ---- the LF that ends the size line: last-chunk or a new data chunk ---- */
/* scalar clauses (both views); G is the guard under which the LF handler runs */
#define NEWLINE_SCALAR_CLAUSES(cl, c, G)                                                 \
__CPROVER_ensures(((G) && (c) != '\n') ==> (RV == NNG_EPROTO))                           \
__CPROVER_ensures(((G) && (c) == '\n' && OLD((cl)->cl_size) == 0) ==> (RV == 0 && (cl)->cl_state == CS_TRLR && (cl)->cl_line == 0 && SAME_SIZE(cl) && SAME_TOTAL(cl) && SAME_LISTN && VP_HEAP_DELTA(0, 0))) \
/* a chunk that does not fit is refused, nothing is allocated or queued */              \
__CPROVER_ensures(((G) && (c) == '\n' && OLD((cl)->cl_size) != 0 && CH_TOO_BIG(OLD((cl)->cl_size), OLD((cl)->cl_total), (cl)->cl_maxsz)) ==> (RV == NNG_EMSGSIZE && VP_HEAP_DELTA(0, 0))) \
__CPROVER_ensures(((G) && (c) == '\n' && OLD((cl)->cl_size) != 0 && !CH_TOO_BIG(OLD((cl)->cl_size), OLD((cl)->cl_total), (cl)->cl_maxsz)) ==> (RV == 0 || RV == NNG_ENOMEM)) \
/* out of memory: nothing leaks */                                                       \
__CPROVER_ensures(((G) && RV == NNG_ENOMEM) ==> (g_alloc_ok - OLD(g_alloc_ok) == g_free_calls - OLD(g_free_calls) && g_alloc_ok - OLD(g_alloc_ok) <= 1)) \
/* a chunk that fits: accounted for, queued at the end, to be filled */                  \
__CPROVER_ensures(((G) && (c) == '\n' && OLD((cl)->cl_size) != 0 && RV == 0) ==> ((cl)->cl_state == CS_DATA && SAME_SIZE(cl) && SAME_LINE(cl) && (cl)->cl_total == OLD((cl)->cl_total) + OLD((cl)->cl_size) && CHL.n == OLD(CHL.n) + 1 && VP_HEAP_DELTA(2, 0))) \
/* the configured maximum is never exceeded by what has been accepted */                 \
__CPROVER_ensures(((G) && RV == 0 && (cl)->cl_maxsz > 0 && OLD((cl)->cl_total) <= (cl)->cl_maxsz) ==> (cl)->cl_total <= (cl)->cl_maxsz)

/* pointer clauses (concrete view only) */
#define NEWLINE_POINTER_CLAUSES(cl, c, G)                                                \
__CPROVER_ensures(((G) && (c) == '\n' && OLD((cl)->cl_size) != 0 && RV == 0) ==> (__CPROVER_is_fresh(CHL.last, sizeof(nni_http_chunk)) && CH_LAST->c_size == (cl)->cl_size && CH_LAST->c_alloc == (cl)->cl_size + 2 && CH_LAST->c_resid == (cl)->cl_size + 2 && __CPROVER_is_fresh(CH_LAST->c_data, (cl)->cl_size + 2))) \
__CPROVER_ensures(((G) && !((c) == '\n' && OLD((cl)->cl_size) != 0 && RV == 0)) ==> VP_SAME_PTR(CHL.last))

/* the last member of the chunk list is an allocated chunk (or there is none) */
#define LAST_VALID_OR_NULL (CHL.last == NULL || __CPROVER_is_fresh(CHL.last, sizeof(nni_http_chunk)))

/* an error changes nothing the decoder has accumulated */
#define ERROR_FRAME(cl)                                                                  \
__CPROVER_ensures(RV != 0 ==> (SAME_SIZE(cl) && SAME_LINE(cl) && SAME_TOTAL(cl) && SAME_LISTN))

/* ======================================================= per-state handlers */

static nng_err chunk_ingest_len(nni_http_chunks *cl, char c)
__CPROVER_requires(CL_FRESH(cl))
__CPROVER_assigns(cl->cl_state, cl->cl_size)
__CPROVER_ensures(LEN_POST(cl, c, OLD(cl->cl_state)))
__CPROVER_ensures(RV != 0 ==> SAME_STATE(cl))
;

static nng_err chunk_ingest_ext(nni_http_chunks *cl, char c)
__CPROVER_requires(CL_FRESH(cl) && cl->cl_state == CS_EXT)
__CPROVER_assigns(cl->cl_state)
__CPROVER_ensures(EXT_POST(cl, c))
__CPROVER_ensures(RV != 0 ==> SAME_STATE(cl))
;

static nng_err chunk_ingest_newline(nni_http_chunks *cl, char c)
__CPROVER_requires(CL_FRESH(cl) && cl->cl_state == CS_CR)
__CPROVER_requires(LAST_VALID_OR_NULL)
__CPROVER_assigns(cl->cl_state, cl->cl_line, cl->cl_total, CHL, VP_HEAP_GHOSTS)
NEWLINE_SCALAR_CLAUSES(cl, c, 1)
NEWLINE_POINTER_CLAUSES(cl, c, 1)
ERROR_FRAME(cl)
__CPROVER_ensures(RV != 0 ==> SAME_STATE(cl))
;

static nng_err chunk_ingest_trailer(nni_http_chunks *cl, char c)
__CPROVER_requires(CL_FRESH(cl) && cl->cl_state == CS_TRLR)
__CPROVER_assigns(cl->cl_state, cl->cl_line)
__CPROVER_ensures(TRAILER_POST(cl, c))
__CPROVER_ensures(RV != 0 ==> SAME_STATE(cl))
;

static nng_err chunk_ingest_trailercr(nni_http_chunks *cl, char c)
__CPROVER_requires(CL_FRESH(cl) && cl->cl_state == CS_TRLRCR)
__CPROVER_assigns(cl->cl_state, cl->cl_line)
__CPROVER_ensures(TRAILERCR_POST(cl, c))
__CPROVER_ensures(RV != 0 ==> SAME_STATE(cl))
;

/* ======================================================= the state machine */
#define CHAR_SCALAR_CLAUSES(cl, c)                                                       \
/* chunk-size needs at least one HEXDIG */                                               \
__CPROVER_ensures(OLD((cl)->cl_state) == CS_INIT ==> (CH_IS_HEX(c) ? LEN_POST(cl, c, CS_LEN) : (RV == NNG_EPROTO))) \
__CPROVER_ensures(OLD((cl)->cl_state) == CS_LEN ==> LEN_POST(cl, c, CS_LEN))             \
__CPROVER_ensures(OLD((cl)->cl_state) == CS_EXT ==> EXT_POST(cl, c))                     \
NEWLINE_SCALAR_CLAUSES(cl, c, OLD((cl)->cl_state) == CS_CR)                              \
__CPROVER_ensures(OLD((cl)->cl_state) == CS_TRLR ==> TRAILER_POST(cl, c))                \
__CPROVER_ensures(OLD((cl)->cl_state) == CS_TRLRCR ==> TRAILERCR_POST(cl, c))            \
/* chunk data is not handled per character; a finished body takes no more input */      \
__CPROVER_ensures((OLD((cl)->cl_state) == CS_DATA || OLD((cl)->cl_state) >= CS_DONE) ==> RV == NNG_EPROTO) \
/* frame: who may change what */                                                         \
__CPROVER_ensures((OLD((cl)->cl_state) != CS_INIT && OLD((cl)->cl_state) != CS_LEN) ==> SAME_SIZE(cl)) \
__CPROVER_ensures((OLD((cl)->cl_state) != CS_CR && OLD((cl)->cl_state) != CS_TRLR && OLD((cl)->cl_state) != CS_TRLRCR) ==> SAME_LINE(cl)) \
__CPROVER_ensures(OLD((cl)->cl_state) != CS_CR ==> (SAME_TOTAL(cl) && SAME_LISTN && VP_HEAP_DELTA(0, 0))) \
ERROR_FRAME(cl)                                                                          \
__CPROVER_ensures(RV != 0 ==> (SAME_STATE(cl) || (OLD((cl)->cl_state) == CS_INIT && (cl)->cl_state == CS_LEN))) \
__CPROVER_ensures(RV == 0 || RV == NNG_EPROTO || RV == NNG_EMSGSIZE || RV == NNG_ENOMEM) \
__CPROVER_ensures(RV == 0 ==> ((cl)->cl_state != CS_INIT && (cl)->cl_state <= CS_DONE))

static nng_err chunk_ingest_char(nni_http_chunks *cl, char c)
__CPROVER_requires(CL_FRESH(cl))
#ifndef VP_PARSE_ABSTRACT
__CPROVER_requires(LAST_VALID_OR_NULL)
#endif
__CPROVER_assigns(cl->cl_state, cl->cl_size, cl->cl_line, cl->cl_total, CHL, VP_HEAP_GHOSTS)
CHAR_SCALAR_CLAUSES(cl, c)
#ifndef VP_PARSE_ABSTRACT
NEWLINE_POINTER_CLAUSES(cl, c, OLD(cl->cl_state) == CS_CR)
__CPROVER_ensures(OLD(cl->cl_state) != CS_CR ==> VP_SAME_PTR(CHL.last))
#endif
;

/* ======================================================= chunk-data CRLF */
/* take = number of bytes this call consumes: what is there, up to what the
 * chunk (data + CRLF) still misses */
#define DATA_SCALAR_CLAUSES(cl, n, lenp)                                                 \
__CPROVER_ensures(*(lenp) >= 1 && *(lenp) <= (n))                                        \
__CPROVER_ensures(RV == 0 || RV == NNG_EPROTO)                                           \
__CPROVER_ensures(RV == 0 ==> ((cl)->cl_state == CS_DATA || (cl)->cl_state == CS_INIT)) \
__CPROVER_ensures((RV == 0 && (cl)->cl_state == CS_DATA) ==> (*(lenp) == (n) && SAME_SIZE(cl) && SAME_LINE(cl))) \
__CPROVER_ensures((RV == 0 && (cl)->cl_state == CS_INIT) ==> ((cl)->cl_size == 0 && (cl)->cl_line == 0)) \
__CPROVER_ensures(RV != 0 ==> (SAME_STATE(cl) && SAME_SIZE(cl) && SAME_LINE(cl)))       \
__CPROVER_ensures(SAME_TOTAL(cl) && SAME_LISTN)

#ifndef VP_PARSE_ABSTRACT
static nng_err chunk_ingest_data(nni_http_chunks *cl, char *buf, size_t n, size_t *lenp)
__CPROVER_requires(CL_FRESH(cl) && cl->cl_state == CS_DATA)
__CPROVER_requires(CHL.n >= 1 && CH_CHUNK_PRE(CH_LAST))
__CPROVER_requires(n >= 1 && __CPROVER_is_fresh(buf, n))
__CPROVER_requires(__CPROVER_is_fresh(lenp, sizeof(*lenp)))
/* ghost equations (not restrictions): g_b is the stored byte at g_j */
__CPROVER_requires((g_j < CH_LAST->c_alloc) ==> (g_b == (uint8_t) CH_LAST->c_data[g_j]))
__CPROVER_assigns(cl->cl_state, cl->cl_size, cl->cl_line, *lenp, CH_LAST->c_resid, __CPROVER_object_whole(CH_LAST->c_data))
DATA_SCALAR_CLAUSES(cl, n, lenp)
/* consumes what is there, up to the end of this chunk's CRLF */
__CPROVER_ensures(*lenp == VP_MIN(n, OLD(CH_LAST->c_resid)))
/* the bytes go to the chunk in order, behind what it already holds ... */
__CPROVER_ensures(g_k < *lenp ==> CH_LAST->c_data[(OLD(CH_LAST->c_alloc) - OLD(CH_LAST->c_resid)) + g_k] == buf[g_k])
/* ... and what it already holds stays */
__CPROVER_ensures(g_j < (OLD(CH_LAST->c_alloc) - OLD(CH_LAST->c_resid)) ==> (uint8_t) CH_LAST->c_data[g_j] == g_b)
__CPROVER_ensures(CH_LAST->c_size == OLD(CH_LAST->c_size) && CH_LAST->c_alloc == OLD(CH_LAST->c_alloc))
/* not finished yet: more is needed, nothing is decided */
__CPROVER_ensures(n < OLD(CH_LAST->c_resid) ==> (RV == 0 && cl->cl_state == CS_DATA && CH_LAST->c_resid == OLD(CH_LAST->c_resid) - n))
/* finished: chunk-data must be followed by CRLF, else the stream is refused */
__CPROVER_ensures(n >= OLD(CH_LAST->c_resid) ==> ((RV == 0) == (CH_LAST->c_data[CH_LAST->c_size] == '\r' && CH_LAST->c_data[CH_LAST->c_size + 1] == '\n')))
__CPROVER_ensures((n >= OLD(CH_LAST->c_resid) && RV == 0) ==> (cl->cl_state == CS_INIT && CH_LAST->c_resid == 0))
;
#else
static nng_err chunk_ingest_data(nni_http_chunks *cl, char *buf, size_t n, size_t *lenp)
__CPROVER_requires(CL_FRESH(cl) && cl->cl_state == CS_DATA)
__CPROVER_requires(n >= 1 && __CPROVER_is_fresh(buf, n))
__CPROVER_requires(__CPROVER_is_fresh(lenp, sizeof(*lenp)))
__CPROVER_assigns(cl->cl_state, cl->cl_size, cl->cl_line, *lenp)
DATA_SCALAR_CLAUSES(cl, n, lenp)
;
#endif

/* ======================================================= the decoder entry */
#ifndef CHUNK_NCAP
#define CHUNK_N_OK(n) (1)
#else
#define CHUNK_N_OK(n) ((n) <= (size_t) CHUNK_NCAP)
#endif

#define PARSE_SCALAR_CLAUSES(cl, n, lenp)                                                \
/* never claims more than it was given */                                                \
__CPROVER_ensures(*(lenp) <= (n))                                                        \
__CPROVER_ensures(RV == 0 || RV == NNG_EAGAIN || RV == NNG_EPROTO || RV == NNG_EMSGSIZE || RV == NNG_ENOMEM) \
/* success means exactly: the terminating empty line has been seen */                   \
__CPROVER_ensures((RV == 0) == ((cl)->cl_state == CS_DONE))                             \
/* "need more": every byte offered has been taken (resumable at any cut) */              \
__CPROVER_ensures(RV == NNG_EAGAIN ==> *(lenp) == (n))                                   \
/* a finished body consumes nothing more */                                              \
__CPROVER_ensures(OLD((cl)->cl_state) == CS_DONE ==> (RV == 0 && *(lenp) == 0 && SAME_SIZE(cl) && SAME_LINE(cl) && SAME_TOTAL(cl) && SAME_LISTN)) \
/* accumulated body size only grows and never passes the configured maximum */           \
__CPROVER_ensures((cl)->cl_total >= OLD((cl)->cl_total))                                \
__CPROVER_ensures(((cl)->cl_maxsz > 0 && OLD((cl)->cl_total) <= (cl)->cl_maxsz) ==> (cl)->cl_total <= (cl)->cl_maxsz) \
__CPROVER_ensures((cl)->cl_state <= CS_DONE)

nng_err nni_http_chunks_parse(nni_http_chunks *cl, void *buf, size_t n, size_t *lenp)
__CPROVER_requires(CL_FRESH(cl) && CHUNKS_WF_SCALAR(cl) && CHUNK_N_OK(n))
__CPROVER_requires(n == 0 || __CPROVER_is_fresh(buf, n))
__CPROVER_requires(__CPROVER_is_fresh(lenp, sizeof(*lenp)))
#ifndef VP_PARSE_ABSTRACT
__CPROVER_requires(cl->cl_state != CS_DATA ? LAST_VALID_OR_NULL : (CHL.n >= 1 && CH_CHUNK_PRE(CH_LAST)))
__CPROVER_assigns(cl->cl_state, cl->cl_size, cl->cl_line, cl->cl_total, CHL, VP_HEAP_GHOSTS, *lenp)
__CPROVER_assigns(cl->cl_state == CS_DATA: CH_LAST->c_resid, __CPROVER_object_whole(CH_LAST->c_data))
/* a chunk being filled is well-formed again when the call returns */
__CPROVER_ensures((RV == NNG_EAGAIN && cl->cl_state == CS_DATA) ==> (CHL.n >= 1 && CH_CHUNK_SCALAR(CH_LAST)))
#else
__CPROVER_assigns(cl->cl_state, cl->cl_size, cl->cl_line, cl->cl_total, CHL, VP_HEAP_GHOSTS, *lenp)
#endif
PARSE_SCALAR_CLAUSES(cl, n, lenp)
;

/* ======================================================= constructor, accessors */
nng_err nni_http_chunks_init(nni_http_chunks **clp, size_t maxsz)
__CPROVER_requires(__CPROVER_is_fresh(clp, sizeof(*clp)))
__CPROVER_assigns(*clp, CHL, VP_HEAP_GHOSTS)
__CPROVER_ensures(RV == 0 || RV == NNG_ENOMEM)
__CPROVER_ensures(RV == 0 ==> (__CPROVER_is_fresh(*clp, sizeof(struct nng_http_chunks)) && (*clp)->cl_state == CS_INIT && (*clp)->cl_size == 0 && (*clp)->cl_line == 0 && (*clp)->cl_total == 0 && (*clp)->cl_maxsz == maxsz && CHL.n == 0))
__CPROVER_ensures(RV == 0 ? VP_HEAP_DELTA(1, 0) : VP_HEAP_DELTA(0, 0))
;

size_t nni_http_chunks_size(nni_http_chunks *cl)
__CPROVER_requires(CL_FRESH(cl))
__CPROVER_assigns()
__CPROVER_ensures(RV == cl->cl_total)
;

size_t nni_http_chunk_size(nni_http_chunk *ch)
__CPROVER_requires(__CPROVER_is_fresh(ch, sizeof(*ch)))
__CPROVER_assigns()
__CPROVER_ensures(RV == ch->c_size)
;

void *nni_http_chunk_data(nni_http_chunk *ch)
__CPROVER_requires(__CPROVER_is_fresh(ch, sizeof(*ch)))
__CPROVER_assigns()
__CPROVER_ensures(RV == ch->c_data)
;

/* clang-format on */
#endif
