/* modules/pull/env.h -- ghost names of the harness-built skeleton, per-pipe ids (ASSUMED environment). */
#ifndef VP_PULL_ENV_H
#define VP_PULL_ENV_H
pull0_sock *g_s;                   /* the socket */
size_t      g_np;                  /* PRE-state number of pipes on s->pl (pipes holding a message): 0..3 */
pull0_pipe *g_pp0, *g_pp1, *g_pp2; /* those pipes, in list order (objects exist even when not listed) */
pull0_pipe *g_px;                  /* a pipe of the socket that is NOT on the list (its transport receive is outstanding) */
size_t      g_ci;                  /* pull0_pipe_close: which pipe closes (0..2 = g_pp<i>, 3 = g_px) */
int         g_which;               /* pull0_cancel: 0 = aio is the first waiter, 1 = the last appended one, 2 = not queued */
bool        g_rpoll0, g_stable0;   /* ghost equations: PRE-state values of PULL_RPOLL_INV / PULL_STABLE */
nni_aio    *g_ca;                  /* pull0_cancel: the aio being cancelled (harness-built) */
/* a transport pipe handle (opaque to the protocol) is modelled by a cell holding the pipe's id */
uint32_t nni_pipe_id(nni_pipe *p) { return (*(uint32_t *) p); }
void nni_aio_fini(nni_aio *aio) { (void) aio; }
#endif
