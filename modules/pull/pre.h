/* included BEFORE the real sources of the pull TU */
#define VP_PROTO_GHOSTS 1
#include "include/env_proto.h"
#include "modules/message/spec.h"
#include "modules/lmq/spec.h"
#include "modules/sub/lists_pre.h" /* real src/core/list.c under the names real_list_* */
#include "modules/pull/spec.h"
