/* included AFTER the real sources */
#include "include/env_alloc.h"
#include "include/env_sync.h"
/* env_proto.h's two list functions become the ghost-queue halves of the dispatchers
 * (modules/sub/lists_post.h): the aio wait list s->rq goes to the ghost queue, the list of
 * pipes holding a message s->pl runs the real src/core/list.c on real nodes; pipe ids are per pipe */
#define nni_list_first vp_aioq_first
#define nni_list_empty vp_aioq_empty
#define nni_pipe_id vp_proto_pipe_id
#define VP_PROTO_STUBS 1
#include "include/env_proto.h"
#undef nni_list_first
#undef nni_list_empty
#undef nni_pipe_id
#include "modules/sub/lists_post.h"
#include "modules/pull/env.h"
