/* Contracts for src/sp/protocol/pipeline0/pull.c (PULL v0; C06, C15, C03).
 * The object skeleton is BUILT by the harness and named by ghosts (env.h): g_s, g_np (PRE-state length of s->pl),
 * g_pp0..g_pp2 (the pipes holding a message, in order), g_px (a pipe whose transport receive is outstanding).
 * Blocked receivers s->rq = ghost queue g_qa (env_proto.h). */
#ifndef VP_PULL_CONTRACTS_H
#define VP_PULL_CONTRACTS_H
/* clang-format off */
#define RV __CPROVER_return_value
#define OLD(e) __CPROVER_old(e)
/* reachability probes (only with -DPULL_COVER, never in a registered unit): each must FAIL */
#ifdef PULL_COVER
#define COVER(c) __CPROVER_ensures(!(c))
#else
#define COVER(c)
#endif
#define PULL_PID(pp) (*(uint32_t *) (pp)->p)
/* skeleton facts (established by the harness, restated so that every contract is self-contained) */
#define PULL_SOCK_PRE (VP_NO_LOCK_HELD && g_np <= 3 && PULL_PL_IS(g_np, g_pp0, g_pp1, g_pp2) && g_qb.n == 0 && PULL_NODE_IDLE(g_px))
/* ghost equations (free ghosts): pre-state values of the C15 relation and the stable-state relation */
#define PULL_GHOST_EQ (g_rpoll0 == PULL_RPOLL_INV && g_stable0 == PULL_STABLE)
#define PULL_PL_ASSIGNS __CPROVER_assigns(g_s->pl.ll_head, g_pp0->node, g_pp1->node, g_pp2->node, g_px->node)
#define PL_SAME (PULL_PL_IS(g_np, g_pp0, g_pp1, g_pp2) && PULL_NODE_IDLE(g_px))
#define HELD_SAME (g_pp0->m == OLD(g_pp0->m) && g_pp1->m == OLD(g_pp1->m) && g_pp2->m == OLD(g_pp2->m))
#define PULL_KEEPS_INV ((g_rpoll0 ==> PULL_RPOLL_INV) && (g_stable0 ==> PULL_STABLE))

/* =====================================================================
 * pull0_recv_cb: a message arrived on pipe g_px (C06: goes to the FIRST waiting receiver, else is held on the pipe -
 * one per pipe, the transport receive is NOT re-armed until it is handed up; C15; C03)
 * ===================================================================== */
#define RC_P ((pull0_pipe *) arg)
#define RC_M (RC_P->aio.a_msg)
#ifdef PULL_RECV_FAILED
static void pull0_recv_cb(void *arg)
__CPROVER_requires(arg == g_px && g_px->s == g_s && RC_P->aio.a_result != 0)
__CPROVER_requires(VP_AIOQS_PRE)
__CPROVER_requires(PULL_SOCK_PRE)
__CPROVER_assigns(VP_PROTO_GHOST_LIST)
/* the peer is disconnected; nothing is delivered, nothing re-armed */
__CPROVER_ensures(VP_NO_LOCK_HELD && g_pipe_close_calls == OLD(g_pipe_close_calls) + 1 && g_pipe_close_last == RC_P->p && g_fin_calls == OLD(g_fin_calls) && g_pipe_recv_calls == OLD(g_pipe_recv_calls) && g_qa.n == OLD(g_qa.n) && g_pollr == OLD(g_pollr))
;
#else
#define RC_LEN0 OLD(RC_M->m_body.ch_len)
static void pull0_recv_cb(void *arg)
__CPROVER_requires(arg == g_px && g_px->s == g_s && RC_P->aio.a_result == 0 && g_np <= 2)
__CPROVER_requires(__CPROVER_is_fresh(RC_M, sizeof(struct nng_msg)) && RC_M->m_refcnt.v == 1 && CH_FULL_PRE(&RC_M->m_body) && CH_GHOST_PRE(&RC_M->m_body))
__CPROVER_requires(VP_AIOQS_PRE && VP_AIO_NOT_QUEUED(&RC_P->aio))
__CPROVER_requires(PULL_SOCK_PRE)
__CPROVER_requires(PULL_GHOST_EQ)
/* one outstanding transport receive per pipe: a pipe whose receive completes holds no message */
__CPROVER_requires(RC_P->closed || RC_P->m == NULL)
__CPROVER_assigns(RC_P->aio.a_msg, RC_P->m, *RC_M, VP_PROTO_GHOST_LIST, VP_SYNC_GHOSTS, g_free_calls)
__CPROVER_assigns(g_qa.n > 0: g_qa.head->a_msg)
PULL_PL_ASSIGNS
__CPROVER_frees(RC_M, RC_M->m_body.ch_buf)
__CPROVER_ensures(VP_NO_LOCK_HELD && VP_AIOQS_OK && RC_P->aio.a_msg == NULL)
__CPROVER_ensures(g_pipe_close_calls == OLD(g_pipe_close_calls) && g_start_calls == OLD(g_start_calls) && g_fin_calls <= OLD(g_fin_calls) + 1 && HELD_SAME)
/* the pipe was closed meanwhile (connection gone): released exactly once, nothing else happens */
__CPROVER_ensures(RC_P->closed ==> (__CPROVER_was_freed(OLD(RC_M)) && g_free_calls == OLD(g_free_calls) + 2 && g_fin_calls == OLD(g_fin_calls) && g_pipe_recv_calls == OLD(g_pipe_recv_calls) && g_qa.n == OLD(g_qa.n) && PL_SAME && RC_P->m == OLD(RC_P->m) && g_pollr == OLD(g_pollr)))
/* delivered or held: the message is untouched apart from its origin (pipe id) */
__CPROVER_ensures(!RC_P->closed ==> (!__CPROVER_was_freed(OLD(RC_M)) && g_free_calls == OLD(g_free_calls) && OLD(RC_M)->m_pipe == PULL_PID(RC_P) && OLD(RC_M)->m_body.ch_len == RC_LEN0 && OLD(RC_M)->m_header_len == OLD(RC_M->m_header_len) && OLD(RC_M)->m_refcnt.v == 1))
__CPROVER_ensures((!RC_P->closed && g_k < RC_LEN0) ==> OLD(RC_M)->m_body.ch_ptr[g_k] == g_b)
/* a receiver is waiting: the FIRST one gets exactly this message, once, with success; only then the next
 * transport receive of this pipe is armed (once, on the pipe's own aio); the pipe holds nothing */
__CPROVER_ensures((!RC_P->closed && OLD(g_qa.n) > 0) ==> (g_fin_calls == OLD(g_fin_calls) + 1 && g_fin_last == OLD(g_qa.head) && g_fin_last_rv == 0 && g_fin_last_msg == OLD(RC_M) && OLD(g_qa.head)->a_msg == OLD(RC_M) && g_fin_last_count == RC_LEN0 && g_qa.n == OLD(g_qa.n) - 1))
__CPROVER_ensures((!RC_P->closed && OLD(g_qa.n) > 0) ==> (g_pipe_recv_calls == OLD(g_pipe_recv_calls) + 1 && g_pipe_recv_pipe == RC_P->p && g_pipe_recv_aio == &RC_P->aio && RC_P->m == NULL && PL_SAME && g_pollr == OLD(g_pollr)))
/* nobody waits: the message is HELD on the pipe (one per pipe), the pipe joins the list at the TAIL (arrival order),
 * and the transport receive is NOT re-armed (back-pressure; per-connection order) */
__CPROVER_ensures((!RC_P->closed && OLD(g_qa.n) == 0) ==> (RC_P->m == OLD(RC_M) && g_fin_calls == OLD(g_fin_calls) && g_pipe_recv_calls == OLD(g_pipe_recv_calls) && g_qa.n == 0 && ((g_np == 0 || g_rpoll0) ==> g_pollr)))
__CPROVER_ensures((!RC_P->closed && OLD(g_qa.n) == 0) ==> (g_np == 0 ? PULL_PL_IS(1, g_px, g_px, g_px) : (g_np == 1 ? PULL_PL_IS(2, g_pp0, g_px, g_px) : PULL_PL_IS(3, g_pp0, g_pp1, g_px))))
__CPROVER_ensures(PULL_KEEPS_INV)
COVER(RC_P->closed && g_np == 2) COVER(!RC_P->closed && OLD(g_qa.n) == 3 && g_rpoll0 && g_stable0) COVER(!RC_P->closed && OLD(g_qa.n) == 0 && g_np == 0 && g_rpoll0 && g_stable0) COVER(!RC_P->closed && OLD(g_qa.n) == 0 && g_np == 2 && g_rpoll0 && g_stable0)
;
#endif

/* =====================================================================
 * pull0_sock_recv (C06 hand-up of the oldest held message; C15 non-blocking rule; C03)
 * ===================================================================== */
static void pull0_sock_recv(void *arg, nni_aio *aio)
__CPROVER_requires(arg == g_s)
__CPROVER_requires(__CPROVER_is_fresh(aio, sizeof(nni_aio)) && VP_AIOQS_PRE && VP_AIO_NOT_QUEUED(aio) && g_qa.n < 8)
__CPROVER_requires(PULL_SOCK_PRE)
__CPROVER_requires(PULL_GHOST_EQ)
__CPROVER_assigns(aio->a_msg, aio->a_result, aio->a_count, g_pp0->m, VP_PROTO_GHOST_LIST, VP_SYNC_GHOSTS)
PULL_PL_ASSIGNS
__CPROVER_ensures(VP_NO_LOCK_HELD && VP_AIOQS_OK && g_pipe_close_calls == OLD(g_pipe_close_calls) && g_pp1->m == OLD(g_pp1->m) && g_pp2->m == OLD(g_pp2->m))
/* a message is held: the caller gets the one of the FIRST pipe of the list (oldest arrival), now, with success, the
 * timeout is not consulted; that pipe holds nothing any more, leaves the list, and ITS transport receive is re-armed
 * exactly once; the other pipes keep their messages and their order */
__CPROVER_ensures(g_np > 0 ==> (g_fin_calls == OLD(g_fin_calls) + 1 && g_fin_last == aio && g_fin_last_rv == 0 && g_fin_last_msg == OLD(g_pp0->m) && aio->a_msg == OLD(g_pp0->m) && g_start_calls == OLD(g_start_calls) && g_qa.n == OLD(g_qa.n)))
__CPROVER_ensures(g_np > 0 ==> (g_pp0->m == NULL && PULL_NODE_IDLE(g_pp0) && PULL_PL_IS(g_np - 1, g_pp1, g_pp2, g_pp2) && PULL_NODE_IDLE(g_px) && g_pipe_recv_calls == OLD(g_pipe_recv_calls) + 1 && g_pipe_recv_pipe == g_pp0->p && g_pipe_recv_aio == &g_pp0->aio))
/* nothing held: must wait - started exactly once; refused (non-blocking / stopped) => not queued; nothing is re-armed */
__CPROVER_ensures(g_np == 0 ==> (g_start_calls == OLD(g_start_calls) + 1 && g_start_last == aio && g_fin_calls == OLD(g_fin_calls) && g_pipe_recv_calls == OLD(g_pipe_recv_calls) && aio->a_msg == OLD(aio->a_msg) && g_pp0->m == OLD(g_pp0->m) && PL_SAME))
__CPROVER_ensures(g_np == 0 ==> (g_qa.n == OLD(g_qa.n) + (g_aio_start_ok ? 1 : 0) && (g_aio_start_ok ==> (g_last_app == aio && (g_qa.n == 1 ? g_qa.head == aio : g_qa.tail == aio)))))
__CPROVER_ensures(PULL_KEEPS_INV)
COVER(g_np == 3 && g_rpoll0 && g_stable0) COVER(g_np == 1 && g_rpoll0 && g_stable0) COVER(g_np == 0 && g_aio_start_ok && OLD(g_qa.n) == 4 && g_rpoll0 && g_stable0) COVER(g_np == 0 && !g_aio_start_ok && g_rpoll0 && g_stable0)
;

/* =====================================================================
 * pull0_pipe_close: the pipe is marked closed and leaves the list; a message it holds stays its own (released by
 * pull0_pipe_fini: the connection went away); the others keep their order; C15 relation kept
 * ===================================================================== */
#define PC_SEL (g_ci == 0 ? g_pp0 : (g_ci == 1 ? g_pp1 : (g_ci == 2 ? g_pp2 : g_px)))
static void pull0_pipe_close(void *arg)
__CPROVER_requires(g_ci <= 3 && arg == PC_SEL && g_pp0->s == g_s && g_pp1->s == g_s && g_pp2->s == g_s && g_px->s == g_s)
__CPROVER_requires(VP_AIOQS_PRE)
__CPROVER_requires(PULL_SOCK_PRE)
__CPROVER_requires(PULL_GHOST_EQ)
__CPROVER_assigns(g_pp0->closed, g_pp1->closed, g_pp2->closed, g_px->closed, VP_PROTO_GHOST_LIST, VP_SYNC_GHOSTS)
PULL_PL_ASSIGNS
__CPROVER_ensures(VP_NO_LOCK_HELD && VP_AIOQS_OK && g_aio_close_calls == OLD(g_aio_close_calls) + 1 && ((pull0_pipe *) arg)->closed)
__CPROVER_ensures(g_ci != 0 ==> g_pp0->closed == OLD(g_pp0->closed))
__CPROVER_ensures(g_ci != 1 ==> g_pp1->closed == OLD(g_pp1->closed))
__CPROVER_ensures(g_ci != 2 ==> g_pp2->closed == OLD(g_pp2->closed))
__CPROVER_ensures(g_ci != 3 ==> g_px->closed == OLD(g_px->closed))
__CPROVER_ensures((g_ci >= g_np) ==> PL_SAME)
__CPROVER_ensures((g_ci == 0 && g_np > 0) ==> (PULL_PL_IS(g_np - 1, g_pp1, g_pp2, g_pp2) && PULL_NODE_IDLE(g_pp0)))
__CPROVER_ensures((g_ci == 1 && g_np > 1) ==> (PULL_PL_IS(g_np - 1, g_pp0, g_pp2, g_pp2) && PULL_NODE_IDLE(g_pp1)))
__CPROVER_ensures((g_ci == 2 && g_np > 2) ==> (PULL_PL_IS(g_np - 1, g_pp0, g_pp1, g_pp1) && PULL_NODE_IDLE(g_pp2)))
/* nothing is delivered, completed or re-armed; held messages untouched */
__CPROVER_ensures(HELD_SAME && g_px->m == OLD(g_px->m) && g_qa.n == OLD(g_qa.n) && g_fin_calls == OLD(g_fin_calls) && g_pipe_recv_calls == OLD(g_pipe_recv_calls) && g_pipe_close_calls == OLD(g_pipe_close_calls))
__CPROVER_ensures(PULL_KEEPS_INV)
;

/* =====================================================================
 * pull0_pipe_fini: a message still held by the pipe is released exactly once (C03)
 * ===================================================================== */
#define PF_P ((pull0_pipe *) arg)
static void pull0_pipe_fini(void *arg)
__CPROVER_requires(arg == g_px)
__CPROVER_requires(PF_P->m == NULL || (__CPROVER_is_fresh(PF_P->m, sizeof(struct nng_msg)) && PF_P->m->m_refcnt.v == 1 && CH_FULL_PRE(&PF_P->m->m_body)))
__CPROVER_assigns(g_free_calls)
__CPROVER_assigns(PF_P->m != NULL: *PF_P->m)
__CPROVER_frees(PF_P->m != NULL: PF_P->m, PF_P->m->m_body.ch_buf)
__CPROVER_ensures(OLD(PF_P->m) != NULL ==> (__CPROVER_was_freed(OLD(PF_P->m)) && g_free_calls == OLD(g_free_calls) + 2))
__CPROVER_ensures(OLD(PF_P->m) == NULL ==> g_free_calls == OLD(g_free_calls))
;

/* =====================================================================
 * pull0_pipe_start: a wrong peer protocol is refused; else exactly ONE transport receive is armed
 * ===================================================================== */
static int pull0_pipe_start(void *arg)
__CPROVER_requires(arg == g_px)
__CPROVER_assigns(VP_PROTO_GHOST_LIST)
__CPROVER_ensures(g_pipe_peer != NNI_PROTO_PUSH_V0 ==> (RV == NNG_EPROTO && g_pipe_recv_calls == OLD(g_pipe_recv_calls)))
__CPROVER_ensures(g_pipe_peer == NNI_PROTO_PUSH_V0 ==> (RV == 0 && g_pipe_recv_calls == OLD(g_pipe_recv_calls) + 1 && g_pipe_recv_pipe == g_px->p && g_pipe_recv_aio == &g_px->aio))
__CPROVER_ensures(g_pipe_close_calls == OLD(g_pipe_close_calls) && g_fin_calls == OLD(g_fin_calls))
;

/* =====================================================================
 * pull0_cancel (timeout / abort / stop of a blocked receive): completes once with the given error, nothing else moves
 * ===================================================================== */
static void pull0_cancel(nni_aio *aio, void *arg, nng_err rv)
__CPROVER_requires(arg == g_s && aio == g_ca && g_qa.n <= 8 && VP_AIOQS_OK)
/* ghost-queue model: the aio is the first waiter, the last appended waiter, or not queued at all */
__CPROVER_requires(g_which == 0 ? (g_qa.n >= 1 && g_qa.head == aio) : (g_which == 1 ? (g_qa.n >= 2 && g_qa.tail == aio && g_qa.head != aio) : (g_which == 2 && !g_aio_active && !(g_qa.n > 0 && (g_qa.head == aio || g_qa.tail == aio)))))
__CPROVER_requires(PULL_SOCK_PRE)
__CPROVER_requires(PULL_GHOST_EQ)
__CPROVER_assigns(VP_PROTO_GHOST_LIST, VP_SYNC_GHOSTS)
__CPROVER_ensures(VP_NO_LOCK_HELD && VP_AIOQS_OK)
__CPROVER_ensures(g_which != 2 ==> (g_qa.n == OLD(g_qa.n) - 1 && g_fin_calls == OLD(g_fin_calls) + 1 && g_fin_last == aio && g_fin_last_rv == (int) rv && aio->a_msg == OLD(aio->a_msg)))
/* not waiting any more (a message was handed to it meanwhile): nothing happens - single winner, the message is not lost */
__CPROVER_ensures(g_which == 2 ==> (g_qa.n == OLD(g_qa.n) && g_fin_calls == OLD(g_fin_calls)))
__CPROVER_ensures(PL_SAME && HELD_SAME && g_pipe_recv_calls == OLD(g_pipe_recv_calls) && g_pipe_close_calls == OLD(g_pipe_close_calls) && g_pollr == OLD(g_pollr))
__CPROVER_ensures(PULL_KEEPS_INV)
;

/* =====================================================================
 * pull0_sock_close: every blocked receiver fails with NNG_ECLOSED; held messages stay with their pipes
 * ===================================================================== */
static void pull0_sock_close(void *arg)
__CPROVER_requires(arg == g_s)
__CPROVER_requires(VP_AIOQS_PRE && g_qa.n <= PULL_MAXWAIT)
__CPROVER_requires(PULL_SOCK_PRE)
__CPROVER_assigns(VP_PROTO_GHOST_LIST, VP_SYNC_GHOSTS)
__CPROVER_ensures(VP_NO_LOCK_HELD && VP_AIOQS_OK && g_qa.n == 0)
__CPROVER_ensures(g_fin_calls == OLD(g_fin_calls) + OLD(g_qa.n) && (OLD(g_qa.n) > 0 ==> g_fin_last_rv == NNG_ECLOSED))
__CPROVER_ensures(PL_SAME && HELD_SAME && g_pipe_recv_calls == OLD(g_pipe_recv_calls) && g_pipe_close_calls == OLD(g_pipe_close_calls) && g_pollr == OLD(g_pollr))
;

/* =====================================================================
 * pull0_sock_init: the initial state - no pipe holds a message (descriptor starts lowered: nni_pollable_init)
 * ===================================================================== */
#define SI_S ((pull0_sock *) arg)
static void pull0_sock_init(void *arg, nni_sock *sock)
__CPROVER_requires(__CPROVER_is_fresh(arg, sizeof(pull0_sock)) && VP_NO_LOCK_HELD)
/* model artefact: the list dispatcher (modules/sub/lists_post.h) recognises aio wait lists by their member offset */
__CPROVER_requires(SI_S->pl.ll_offset != VP_AIO_OFF)
__CPROVER_assigns(*SI_S)
__CPROVER_ensures(VP_NO_LOCK_HELD && SI_S->pl.ll_offset == offsetof(pull0_pipe, node) && SI_S->pl.ll_head.ln_next == &SI_S->pl.ll_head && SI_S->pl.ll_head.ln_prev == &SI_S->pl.ll_head)
;

/* =====================================================================
 * pull0_sock_send: PULL cannot send; the message stays with the caller
 * ===================================================================== */
static void pull0_sock_send(void *arg, nni_aio *aio)
__CPROVER_requires(__CPROVER_is_fresh(aio, sizeof(nni_aio)))
__CPROVER_assigns(VP_PROTO_GHOST_LIST)
__CPROVER_ensures(g_fin_calls == OLD(g_fin_calls) + 1 && g_fin_last == aio && g_fin_last_rv == NNG_ENOTSUP && g_fin_last_msg == aio->a_msg && g_start_calls == OLD(g_start_calls))
;
/* clang-format on */
#endif
