#define VP_HAVOC_GHOSTS()                         \
	do {                                      \
		g_k = nondet_size_t(); g_j = nondet_size_t(); g_b = nondet_u8(); g_n = nondet_size_t(); \
		g_hk = nondet_size_t(); g_u32 = nondet_u32(); g_hb = nondet_u8(); g_p = nondet_ptr(); g_p2 = nondet_ptr(); \
		g_free_calls = nondet_size_t(); g_alloc_ok = nondet_size_t(); \
		__CPROVER_assume(g_free_calls < ((size_t) 1 << 40) && g_alloc_ok < ((size_t) 1 << 40)); \
		g_ci = nondet_size_t(); g_which = nondet_int(); g_rpoll0 = nondet_bool(); g_stable0 = nondet_bool(); \
		VP_HAVOC_PROTO(); VP_HAVOC_SYNC();    \
		/* "last seen" pointer records start as NULL (only ever compared); queue heads are made real by \
		 * VP_AIOQS_PRE; an unknown tail is NULL (see VP_AIOQ_OK) */ \
		g_pipe_close_last = NULL; g_pipe_recv_pipe = NULL; g_pipe_recv_aio = NULL; g_pipe_send_pipe = NULL; \
		g_pipe_send_aio = NULL; g_pipe_send_msg = NULL; g_fin_last = NULL; g_fin_last_msg = NULL; g_start_last = NULL; \
		g_qa.head = NULL; g_qa.tail = NULL; g_qb.head = NULL; g_qb.tail = NULL; g_last_app = NULL; \
		g_qa_addr = NULL; g_qb_addr = NULL; g_pollr_addr = NULL; g_pollw_addr = NULL; \
	} while (0)
/* typed allocation of an object that always exists, contents nondeterministic */
#define VP_NEW(T) ((T *) __CPROVER_allocate(sizeof(T), 0))
static pull0_pipe *vp_mk_pipe(bool on)
{
	pull0_pipe *p   = VP_NEW(pull0_pipe);
	p->s            = g_s;
	p->p            = (nni_pipe *) VP_NEW(uint32_t); /* transport pipe handle: a cell holding its id */
	p->node.ln_next = NULL;
	p->node.ln_prev = NULL;
	if (on) {
		real_list_append(&g_s->pl, p);
	}
	return (p);
}
static void vp_mk_pull(size_t np)
{
	__CPROVER_assume(np <= 3);
	g_np = np;
	g_s  = VP_NEW(pull0_sock);
	real_list_init_offset(&g_s->pl, offsetof(pull0_pipe, node));
	g_s->rq.ll_offset = VP_AIO_OFF; /* nni_aio_list_init */
	g_pp0 = vp_mk_pipe(np > 0);
	g_pp1 = vp_mk_pipe(np > 1);
	g_pp2 = vp_mk_pipe(np > 2);
	g_px  = vp_mk_pipe(false);
	g_qa_addr    = &g_s->rq;
	g_pollr_addr = &g_s->readable;
}
void h_pull0_recv_cb(void) { VP_HAVOC_GHOSTS(); vp_mk_pull(nondet_size_t()); pull0_recv_cb(g_px); VP_CANARY(); }
void h_pull0_sock_recv(void) { nni_aio *aio; VP_HAVOC_GHOSTS(); vp_mk_pull(nondet_size_t()); pull0_sock_recv(g_s, aio); VP_CANARY(); }
void h_pull0_pipe_close(void)
{
	VP_HAVOC_GHOSTS(); vp_mk_pull(nondet_size_t());
	pull0_pipe_close(g_ci == 0 ? g_pp0 : (g_ci == 1 ? g_pp1 : (g_ci == 2 ? g_pp2 : g_px)));
	VP_CANARY();
}
void h_pull0_pipe_fini(void) { VP_HAVOC_GHOSTS(); vp_mk_pull(nondet_size_t()); pull0_pipe_fini(g_px); VP_CANARY(); }
void h_pull0_pipe_start(void) { VP_HAVOC_GHOSTS(); vp_mk_pull(nondet_size_t()); (void) pull0_pipe_start(g_px); VP_CANARY(); }
void h_pull0_cancel(void)
{
	nng_err rv;
	VP_HAVOC_GHOSTS(); vp_mk_pull(nondet_size_t());
	/* the wait list: members are real aio objects built here; the cancelled aio is the first waiter,
	 * the last appended one, or not on the list */
	g_ca      = VP_NEW(nni_aio);
	g_qa.head = nondet_bool() ? g_ca : VP_NEW(nni_aio);
	g_qa.tail = nondet_bool() ? NULL : (nondet_bool() ? g_ca : (nondet_bool() ? g_qa.head : VP_NEW(nni_aio)));
	g_last_app = nondet_bool() ? g_qa.tail : NULL;
	if (g_qa.n == 0) { g_qa.head = NULL; g_qa.tail = NULL; }
	pull0_cancel(g_ca, g_s, rv);
	VP_CANARY();
}
void h_pull0_sock_close(void) { VP_HAVOC_GHOSTS(); vp_mk_pull(nondet_size_t()); pull0_sock_close(g_s); VP_CANARY(); }
void h_pull0_sock_send(void) { nni_aio *aio; VP_HAVOC_GHOSTS(); vp_mk_pull(nondet_size_t()); pull0_sock_send(g_s, aio); VP_CANARY(); }
void h_pull0_sock_init(void) { void *arg; nni_sock *sock; VP_HAVOC_GHOSTS(); pull0_sock_init(arg, sock); VP_CANARY(); }
