/* Spec macros for src/sp/protocol/pipeline0/pull.c (C06, C15, C03).  No code.
 * The object skeleton (socket, list of up to three real pipes that hold a message, the pipe
 * under contract) is BUILT by the harness and named by ghosts (env.h). */
#ifndef VP_PULL_SPEC_H
#define VP_PULL_SPEC_H
/* BOUND (grade B): at most 3 pipes on s->pl (real nni_list of real nodes). */
/* the list of pipes holding a message is exactly [a, b, c][0..n) */
#define PULL_PL_IS(n, a, b, c) VP_LIST3_IS(&g_s->pl.ll_head, (n), &(a)->node, &(b)->node, &(c)->node)
#define PULL_PL_EMPTY (g_s->pl.ll_head.ln_next == &g_s->pl.ll_head)
#define PULL_NODE_IDLE(p) ((p)->node.ln_next == NULL && (p)->node.ln_prev == NULL)
/* C15: the receive descriptor is raised exactly when a non-blocking receive would succeed (a message is held) */
#define PULL_RPOLL_INV (g_pollr == !PULL_PL_EMPTY)
/* stable state: a receiver waits only while no pipe holds a message */
#define PULL_STABLE (g_qa.n == 0 || PULL_PL_EMPTY)
/* pull0_sock_close: bound on the number of blocked receivers (loop unwound) */
#define PULL_MAXWAIT 3
#endif
