/* Contracts for src/sp/protocol/pair0/pair.c (PAIRv0: one peer at a time, back-pressure; C08, C15, C03) */
#ifndef VP_PAIR0_CONTRACTS_H
#define VP_PAIR0_CONTRACTS_H
/* clang-format off */
#define RV __CPROVER_return_value
#define OLD(e) __CPROVER_old(e)
#define P0_P ((pair0_pipe *) arg)
#define P0_S (((pair0_pipe *) arg)->pair)
#define P0_M (((pair0_pipe *) arg)->aio_recv.a_msg)

/* ---- one peer at a time (C08): a second connection is refused while the first is attached ---- */
static int pair0_pipe_start(void *arg)
__CPROVER_requires(__CPROVER_is_fresh(arg, sizeof(struct pair0_pipe)))
__CPROVER_requires(__CPROVER_is_fresh(P0_S, sizeof(struct pair0_sock)) && VP_NO_LOCK_HELD)
__CPROVER_assigns(P0_S->p, P0_S->rd_ready, VP_PROTO_GHOST_LIST, VP_SYNC_GHOSTS, g_p0_sched_calls)
__CPROVER_ensures(VP_NO_LOCK_HELD)
/* wrong peer protocol => NNG_EPROTO, not attached */
__CPROVER_ensures(g_pipe_peer != NNI_PROTO_PAIR_V0 ==> (RV == NNG_EPROTO && P0_S->p == OLD(P0_S->p) && g_pipe_recv_calls == OLD(g_pipe_recv_calls) && g_p0_sched_calls == OLD(g_p0_sched_calls)))
/* NNG_EBUSY iff a peer is attached: the attached peer is kept, nothing is started for the newcomer */
__CPROVER_ensures((g_pipe_peer == NNI_PROTO_PAIR_V0 && OLD(P0_S->p) != NULL) ==> (RV == NNG_EBUSY && P0_S->p == OLD(P0_S->p) && g_pipe_recv_calls == OLD(g_pipe_recv_calls) && g_p0_sched_calls == OLD(g_p0_sched_calls)))
/* else attaches: this pipe is THE peer, its receive is armed, the send side is scheduled */
__CPROVER_ensures((g_pipe_peer == NNI_PROTO_PAIR_V0 && OLD(P0_S->p) == NULL) ==> (RV == 0 && P0_S->p == P0_P && !P0_S->rd_ready && g_pipe_recv_calls == OLD(g_pipe_recv_calls) + 1 && g_pipe_recv_pipe == P0_P->pipe && g_pipe_recv_aio == &P0_P->aio_recv && g_p0_sched_calls == OLD(g_p0_sched_calls) + 1))
/* a refused peer (wrong protocol, or NNG_EBUSY while the first is alive) must not disturb the live pair: NOTHING of the socket changes -
 * readiness flags, the attached peer, both descriptors, waiting operations; nothing is sent, completed or closed (wr_ready, the rings and the
 * attached pipe's own state are not assignable at all: frame) */
__CPROVER_ensures(RV != 0 ==> (P0_S->p == OLD(P0_S->p) && P0_S->rd_ready == OLD(P0_S->rd_ready) && g_pollr == OLD(g_pollr) && g_pollw == OLD(g_pollw) && g_qa.n == OLD(g_qa.n) && g_qb.n == OLD(g_qb.n) && g_fin_calls == OLD(g_fin_calls) && g_pipe_send_calls == OLD(g_pipe_send_calls) && g_pipe_recv_calls == OLD(g_pipe_recv_calls) && g_pipe_close_calls == OLD(g_pipe_close_calls) && g_p0_sched_calls == OLD(g_p0_sched_calls)))
__CPROVER_ensures(RV == 0 || RV == NNG_EPROTO || RV == NNG_EBUSY)
;

/* ASSUMED inside pair0_pipe_start only (counts the call); its real body is verified by unit pair0_send_sched */
#ifdef P0_SCHED_LIGHT
static void pair0_send_sched(pair0_sock *s)
__CPROVER_assigns(g_p0_sched_calls)
__CPROVER_ensures(g_p0_sched_calls == OLD(g_p0_sched_calls) + 1)
;
#endif

/* ---- pipe receive callback (C08: lossless, ordered hand-off; back-pressure towards the peer) ---- */
#ifdef P0_RECV_FAILED
static void pair0_pipe_recv_cb(void *arg)
__CPROVER_requires(__CPROVER_is_fresh(arg, sizeof(struct pair0_pipe)))
__CPROVER_requires(P0_SOCK_PRE_R(P0_S) && VP_NO_LOCK_HELD)
__CPROVER_requires(P0_P->aio_recv.a_result != 0)
__CPROVER_assigns(VP_PROTO_GHOST_LIST)
__CPROVER_ensures(VP_NO_LOCK_HELD)
__CPROVER_ensures(g_pipe_close_calls == OLD(g_pipe_close_calls) + 1 && g_pipe_close_last == P0_P->pipe && g_fin_calls == OLD(g_fin_calls) && g_pipe_recv_calls == OLD(g_pipe_recv_calls) && P0_S->rmq.lmq_len == OLD(P0_S->rmq.lmq_len) && g_qa.n == OLD(g_qa.n))
;
#else
static void pair0_pipe_recv_cb(void *arg)
__CPROVER_requires(__CPROVER_is_fresh(arg, sizeof(struct pair0_pipe)))
__CPROVER_requires(P0_SOCK_PRE_R(P0_S) && VP_NO_LOCK_HELD)
__CPROVER_requires(P0_P->aio_recv.a_result == 0 && P0_WIRE_MSG(P0_M) && CH_GHOST_PRE(&P0_M->m_body))
__CPROVER_requires(VP_AIO_NOT_QUEUED(&P0_P->aio_recv))
__CPROVER_assigns(P0_P->aio_recv.a_msg, P0_S->rd_ready, P0_S->rmq.lmq_put, P0_S->rmq.lmq_len, __CPROVER_object_whole(P0_S->rmq.lmq_msgs), VP_PROTO_GHOST_LIST, VP_SYNC_GHOSTS)
__CPROVER_assigns(P0_M->m_pipe; g_qa.n > 0: g_qa.head->a_msg)
__CPROVER_ensures(VP_NO_LOCK_HELD && VP_AIOQS_OK && LMQ_WF_SCALAR(&P0_S->rmq))
/* never dropped, never disconnected; content untouched; origin recorded */
__CPROVER_ensures(g_pipe_close_calls == OLD(g_pipe_close_calls) && g_fin_calls <= OLD(g_fin_calls) + 1)
__CPROVER_ensures(OLD(P0_M)->m_pipe == g_pipe_id && OLD(P0_M)->m_header_len == 0 && OLD(P0_M)->m_body.ch_len == OLD(P0_M->m_body.ch_len))
__CPROVER_ensures(g_k < OLD(P0_M->m_body.ch_len) ==> OLD(P0_M)->m_body.ch_ptr[g_k] == g_b)
/* a receiver is waiting: it gets exactly this message, once; the next receive is armed */
__CPROVER_ensures(OLD(g_qa.n) > 0 ==> (g_fin_calls == OLD(g_fin_calls) + 1 && g_fin_last == OLD(g_qa.head) && g_fin_last_rv == 0 && g_fin_last_msg == OLD(P0_M) && g_fin_last_count == OLD(P0_M->m_body.ch_len) && g_qa.n == OLD(g_qa.n) - 1 && g_pipe_recv_calls == OLD(g_pipe_recv_calls) + 1 && g_pipe_recv_pipe == P0_P->pipe && g_pipe_recv_aio == &P0_P->aio_recv && P0_S->rmq.lmq_len == OLD(P0_S->rmq.lmq_len)))
/* buffered: appended at the tail of the receive queue, next receive armed, socket readable */
__CPROVER_ensures((OLD(g_qa.n) == 0 && OLD(P0_S->rmq.lmq_len) < P0_S->rmq.lmq_cap) ==> (g_fin_calls == OLD(g_fin_calls) && P0_S->rmq.lmq_len == OLD(P0_S->rmq.lmq_len) + 1 && LMQ_VIEW(&P0_S->rmq, P0_S->rmq.lmq_len - 1) == OLD(P0_M) && P0_P->aio_recv.a_msg == NULL && g_pipe_recv_calls == OLD(g_pipe_recv_calls) + 1 && g_pollr))
/* buffer full: the message stays with the pipe and NO new receive is started (back-pressure, nothing dropped), socket readable */
__CPROVER_ensures((OLD(g_qa.n) == 0 && OLD(P0_S->rmq.lmq_len) >= P0_S->rmq.lmq_cap) ==> (g_fin_calls == OLD(g_fin_calls) && P0_S->rmq.lmq_len == OLD(P0_S->rmq.lmq_len) && P0_P->aio_recv.a_msg == OLD(P0_M) && P0_S->rd_ready && g_pipe_recv_calls == OLD(g_pipe_recv_calls) && g_pollr))
;
#endif

/* ---- hand a message to the pipe ---- */
static void pair0_pipe_send(pair0_pipe *p, nni_msg *m)
__CPROVER_requires(__CPROVER_is_fresh(p, sizeof(struct pair0_pipe)) && __CPROVER_is_fresh(p->pair, sizeof(struct pair0_sock)))
__CPROVER_assigns(p->aio_send.a_msg, p->pair->wr_ready, g_pipe_send_calls, g_pipe_send_pipe, g_pipe_send_aio, g_pipe_send_msg)
__CPROVER_ensures(p->aio_send.a_msg == m && !p->pair->wr_ready)
__CPROVER_ensures(g_pipe_send_calls == OLD(g_pipe_send_calls) + 1 && g_pipe_send_pipe == p->pipe && g_pipe_send_aio == &p->aio_send && g_pipe_send_msg == m)
;

/* ---- socket send (C08 back-pressure, C15 non-blocking rule, C03 ownership) ---- */
#define P0_SM (aio->a_msg)
#define P0_SS ((pair0_sock *) arg)
static void pair0_sock_send(void *arg, nni_aio *aio)
__CPROVER_requires(P0_SOCK_PRE_W(P0_SS) && VP_NO_LOCK_HELD)
__CPROVER_requires(__CPROVER_is_fresh(aio, sizeof(nni_aio)) && VP_AIO_NOT_QUEUED(aio))
__CPROVER_requires(__CPROVER_is_fresh(P0_SM, sizeof(struct nng_msg)) && P0_SM->m_header_len <= MSG_HDRCAP && P0_SM->m_refcnt.v == 1)
__CPROVER_requires(P0_SS->wr_ready ==> (__CPROVER_is_fresh(P0_SS->p, sizeof(struct pair0_pipe)) && __CPROVER_pointer_in_range_dfcc(P0_SS, P0_SS->p->pair, P0_SS)))
__CPROVER_requires(g_qb.n < 8)
/* stable state: senders wait only when the pipe is busy and the buffer is full */
__CPROVER_requires(g_qb.n == 0 || (!P0_SS->wr_ready && P0_SS->wmq.lmq_len >= P0_SS->wmq.lmq_cap))
__CPROVER_assigns(aio->a_msg, aio->a_result, aio->a_count, P0_SS->wr_ready, P0_SS->wmq.lmq_put, P0_SS->wmq.lmq_len, __CPROVER_object_whole(P0_SS->wmq.lmq_msgs), VP_PROTO_GHOST_LIST, VP_SYNC_GHOSTS)
__CPROVER_assigns(P0_SS->wr_ready: P0_SS->p->aio_send.a_msg)
__CPROVER_ensures(VP_NO_LOCK_HELD && VP_AIOQS_OK && LMQ_WF_SCALAR(&P0_SS->wmq))
/* never discarded: the message is in exactly one place afterwards (wire / buffer / still the caller's) */
/* pipe ready: goes on the wire now; completed with success; timeout not consulted */
__CPROVER_ensures(OLD(P0_SS->wr_ready) ==> (g_pipe_send_calls == OLD(g_pipe_send_calls) + 1 && g_pipe_send_msg == OLD(P0_SM) && g_pipe_send_pipe == P0_SS->p->pipe && g_fin_calls == OLD(g_fin_calls) + 1 && g_fin_last == aio && g_fin_last_rv == 0 && aio->a_msg == NULL && g_start_calls == OLD(g_start_calls) && P0_SS->wmq.lmq_len == OLD(P0_SS->wmq.lmq_len) && !P0_SS->wr_ready))
/* pipe busy, room in the buffer: queued at the tail; completed with success; timeout not consulted */
__CPROVER_ensures((!OLD(P0_SS->wr_ready) && OLD(P0_SS->wmq.lmq_len) < P0_SS->wmq.lmq_cap) ==> (g_pipe_send_calls == OLD(g_pipe_send_calls) && P0_SS->wmq.lmq_len == OLD(P0_SS->wmq.lmq_len) + 1 && LMQ_VIEW(&P0_SS->wmq, P0_SS->wmq.lmq_len - 1) == OLD(P0_SM) && g_fin_calls == OLD(g_fin_calls) + 1 && g_fin_last == aio && g_fin_last_rv == 0 && aio->a_msg == NULL && g_start_calls == OLD(g_start_calls)))
/* pipe busy and buffer full: must wait (back-pressure) -- started once; refused (non-blocking) => still the caller's message, not queued */
__CPROVER_ensures((!OLD(P0_SS->wr_ready) && OLD(P0_SS->wmq.lmq_len) >= P0_SS->wmq.lmq_cap) ==> (g_start_calls == OLD(g_start_calls) + 1 && g_start_last == aio && g_fin_calls == OLD(g_fin_calls) && g_pipe_send_calls == OLD(g_pipe_send_calls) && P0_SS->wmq.lmq_len == OLD(P0_SS->wmq.lmq_len) && aio->a_msg == OLD(P0_SM) && g_qb.n == OLD(g_qb.n) + (g_aio_start_ok ? 1 : 0) && (g_aio_start_ok ==> g_last_app == aio)))
/* C15: the send descriptor is cleared exactly when nothing more can be accepted */
__CPROVER_ensures((g_fin_calls > OLD(g_fin_calls) && g_fin_last_rv == 0 && P0_SS->wmq.lmq_len >= P0_SS->wmq.lmq_cap && !P0_SS->wr_ready) ==> !g_pollw)
;

/* ---- socket receive (C08 ordered/lossless hand-off, C15 non-blocking rule) ---- */
#define P0_RS ((pair0_sock *) arg)
#define P0_HELD (P0_RS->p->aio_recv.a_msg)
static void pair0_sock_recv(void *arg, nni_aio *aio)
__CPROVER_requires(P0_SOCK_PRE_R(P0_RS) && VP_NO_LOCK_HELD)
__CPROVER_requires(__CPROVER_is_fresh(aio, sizeof(nni_aio)) && VP_AIO_NOT_QUEUED(aio) && g_qa.n < 8)
/* a message held back by a full buffer belongs to the attached pipe */
__CPROVER_requires(P0_RS->rd_ready ==> (__CPROVER_is_fresh(P0_RS->p, sizeof(struct pair0_pipe)) && __CPROVER_is_fresh(P0_HELD, sizeof(struct nng_msg))))
__CPROVER_requires(P0_RS->rd_ready ==> g_p2 == (void *) P0_HELD)
__CPROVER_requires(P0_RS->rmq.lmq_len > 0 ==> __CPROVER_is_fresh(LMQ_VIEW(&P0_RS->rmq, 0), sizeof(struct nng_msg)))
/* stable state: receivers wait only when nothing is buffered or held */
__CPROVER_requires(g_qa.n == 0 || (P0_RS->rmq.lmq_len == 0 && !P0_RS->rd_ready))
/* (no "a message is held only when the buffer is full" precondition: growing NNG_OPT_RECVBUF leaves a parked message parked,
 * see modules/pairx *_set_recv_buf_len; the postconditions below hold for a parked message with room in the buffer as well) */
__CPROVER_requires((P0_RS->rmq.lmq_len > 0 || P0_RS->rd_ready) ==> g_pollr)
__CPROVER_requires(g_k < P0_RS->rmq.lmq_len ==> g_p == (void *) LMQ_VIEW(&P0_RS->rmq, g_k))
__CPROVER_assigns(aio->a_msg, aio->a_result, aio->a_count, P0_RS->rd_ready, P0_RS->rmq.lmq_get, P0_RS->rmq.lmq_put, P0_RS->rmq.lmq_len, __CPROVER_object_whole(P0_RS->rmq.lmq_msgs), VP_PROTO_GHOST_LIST, VP_SYNC_GHOSTS)
__CPROVER_assigns(P0_RS->rd_ready: P0_RS->p->aio_recv.a_msg)
__CPROVER_ensures(VP_NO_LOCK_HELD && VP_AIOQS_OK && LMQ_WF_SCALAR(&P0_RS->rmq))
/* buffered: the caller gets the OLDEST queued message now, success, timeout not consulted */
__CPROVER_ensures((OLD(P0_RS->rmq.lmq_len) > 0 && g_k == 0) ==> (g_fin_calls == OLD(g_fin_calls) + 1 && g_fin_last == aio && g_fin_last_rv == 0 && (void *) aio->a_msg == g_p && g_start_calls == OLD(g_start_calls)))
/* ... the rest keeps its order, and a held-back message is appended behind it and the pipe read re-armed */
__CPROVER_ensures((OLD(P0_RS->rmq.lmq_len) > 0 && g_k >= 1 && g_k < OLD(P0_RS->rmq.lmq_len)) ==> (void *) LMQ_VIEW(&P0_RS->rmq, g_k - 1) == g_p)
__CPROVER_ensures((OLD(P0_RS->rmq.lmq_len) > 0 && !OLD(P0_RS->rd_ready)) ==> (P0_RS->rmq.lmq_len == OLD(P0_RS->rmq.lmq_len) - 1 && g_pipe_recv_calls == OLD(g_pipe_recv_calls)))
__CPROVER_ensures((OLD(P0_RS->rmq.lmq_len) > 0 && OLD(P0_RS->rd_ready)) ==> (P0_RS->rmq.lmq_len == OLD(P0_RS->rmq.lmq_len) && LMQ_VIEW(&P0_RS->rmq, P0_RS->rmq.lmq_len - 1) == (nni_msg *) g_p2 && P0_HELD == NULL && !P0_RS->rd_ready && g_pipe_recv_calls == OLD(g_pipe_recv_calls) + 1 && g_pipe_recv_aio == &P0_RS->p->aio_recv))
/* unbuffered hand-off: the held message goes straight to the caller */
__CPROVER_ensures((OLD(P0_RS->rmq.lmq_len) == 0 && OLD(P0_RS->rd_ready)) ==> (g_fin_calls == OLD(g_fin_calls) + 1 && g_fin_last == aio && g_fin_last_rv == 0 && aio->a_msg == (nni_msg *) g_p2 && P0_HELD == NULL && !P0_RS->rd_ready && g_pipe_recv_calls == OLD(g_pipe_recv_calls) + 1 && g_start_calls == OLD(g_start_calls) && !g_pollr))
/* nothing available: started once; refused => not queued */
__CPROVER_ensures((OLD(P0_RS->rmq.lmq_len) == 0 && !OLD(P0_RS->rd_ready)) ==> (g_start_calls == OLD(g_start_calls) + 1 && g_start_last == aio && g_fin_calls == OLD(g_fin_calls) && g_qa.n == OLD(g_qa.n) + (g_aio_start_ok ? 1 : 0) && g_pipe_recv_calls == OLD(g_pipe_recv_calls)))
/* C15 (both directions): the receive descriptor mirrors "a non-blocking receive would succeed" */
__CPROVER_ensures((g_fin_calls > OLD(g_fin_calls) && P0_RS->rmq.lmq_len == 0) ==> !g_pollr)
__CPROVER_ensures((P0_RS->rmq.lmq_len > 0 || P0_RS->rd_ready) ==> g_pollr)
;
/* clang-format on */
#endif
