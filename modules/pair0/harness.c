#define VP_HAVOC_GHOSTS()                         \
	do {                                      \
		g_k = nondet_size_t(); g_j = nondet_size_t(); g_b = nondet_u8(); \
		g_hk = nondet_size_t(); g_u32 = nondet_u32(); g_p = nondet_ptr(); g_p2 = nondet_ptr(); g_p3 = nondet_ptr(); g_hb = nondet_u8(); g_u64 = nondet_u64(); \
		g_free_calls = nondet_size_t(); g_alloc_ok = nondet_size_t(); \
		__CPROVER_assume(g_free_calls < ((size_t) 1 << 40) && g_alloc_ok < ((size_t) 1 << 40)); \
		g_p0_sched_calls = nondet_size_t(); __CPROVER_assume(g_p0_sched_calls < ((size_t) 1 << 40)); \
		VP_HAVOC_PROTO(); VP_HAVOC_SYNC();    \
	} while (0)
void h_pair0_pipe_recv_cb(void) { void *arg; VP_HAVOC_GHOSTS(); pair0_pipe_recv_cb(arg); VP_CANARY(); }
void h_pair0_pipe_send(void) { pair0_pipe *p; nni_msg *m; VP_HAVOC_GHOSTS(); pair0_pipe_send(p, m); VP_CANARY(); }
void h_pair0_pipe_start(void) { void *arg; VP_HAVOC_GHOSTS(); pair0_pipe_start(arg); VP_CANARY(); }
void h_pair0_sock_send(void) { void *arg; nni_aio *aio; VP_HAVOC_GHOSTS(); pair0_sock_send(arg, aio); VP_CANARY(); }
void h_pair0_sock_recv(void) { void *arg; nni_aio *aio; VP_HAVOC_GHOSTS(); pair0_sock_recv(arg, aio); VP_CANARY(); }
