/* Spec macros for src/sp/protocol/pair0/pair.c (C08, C15). No code. */
#ifndef VP_PAIR0_SPEC_H
#define VP_PAIR0_SPEC_H
#ifndef NNI_PROTO_PAIR_V0
#define NNI_PROTO_PAIR_V0 NNI_PROTO(1, 0)
#endif
/* a message as a transport delivers it: unshared, empty header, wire bytes in the body */
#define P0_WIRE_MSG(m)                                                     \
	(__CPROVER_is_fresh((m), sizeof(struct nng_msg)) &&                    \
	    (m)->m_header_len == 0 && (m)->m_refcnt.v == 1 &&                  \
	    CH_FULL_PRE(&(m)->m_body))
/* socket state + environment ghosts tied to it (receive side only / both sides) */
#define P0_SOCK_PRE_R(s)                                                   \
	(__CPROVER_is_fresh((s), sizeof(struct pair0_sock)) &&                 \
	    LMQ_INNER_PRE(&(s)->rmq) &&                                        \
	    g_qa_addr == &(s)->raq && g_qb_addr == &(s)->waq && VP_AIOQS_PRE && \
	    g_pollr_addr == &(s)->readable && g_pollw_addr == &(s)->writable)
#define P0_SOCK_PRE_W(s)                                                   \
	(__CPROVER_is_fresh((s), sizeof(struct pair0_sock)) &&                 \
	    LMQ_INNER_PRE(&(s)->wmq) &&                                        \
	    g_qa_addr == &(s)->raq && g_qb_addr == &(s)->waq && VP_AIOQS_PRE && \
	    g_pollr_addr == &(s)->readable && g_pollw_addr == &(s)->writable)
#endif
