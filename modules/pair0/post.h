/* included AFTER the real sources */
#include "include/env_alloc.h"
#include "include/env_sync.h"
#define VP_PROTO_STUBS 1
#include "include/env_proto.h"
