/* included BEFORE the real sources of the pair0 TU */
#define VP_PROTO_GHOSTS 1
#include "include/env_proto.h"
#include "modules/message/spec.h"
#include "modules/lmq/spec.h"
#include "modules/pair0/spec.h"
size_t g_p0_sched_calls; /* ghost: calls of pair0_send_sched (assumed contract inside pair0_pipe_start) */
