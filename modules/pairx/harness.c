#define VP_HAVOC_GHOSTS()                         \
	do {                                      \
		g_k = nondet_size_t(); g_j = nondet_size_t(); g_b = nondet_u8(); g_n = nondet_size_t(); g_n2 = nondet_size_t(); \
		g_hk = nondet_size_t(); g_u32 = nondet_u32(); g_hb = nondet_u8(); g_p = nondet_ptr(); g_p2 = nondet_ptr(); g_p3 = nondet_ptr(); g_u64 = nondet_u64(); \
		g_free_calls = nondet_size_t(); g_alloc_ok = nondet_size_t(); \
		__CPROVER_assume(g_free_calls < ((size_t) 1 << 40) && g_alloc_ok < ((size_t) 1 << 40)); \
		g_held0 = nondet_size_t(); \
		g_msg_freed = nondet_size_t(); g_msg_freed_at_j = nondet_ptr(); __CPROVER_assume(g_msg_freed < ((size_t) 1 << 40)); \
		VP_HAVOC_PROTO(); VP_HAVOC_SYNC();    \
		/* "last seen" pointer records start as NULL (only ever compared); queue heads are made real by \
		 * VP_AIOQS_PRE; an unknown tail is NULL (see VP_AIOQ_OK) */ \
		g_pipe_close_last = NULL; g_pipe_recv_pipe = NULL; g_pipe_recv_aio = NULL; g_pipe_send_pipe = NULL; \
		g_pipe_send_aio = NULL; g_pipe_send_msg = NULL; g_fin_last = NULL; g_fin_last_msg = NULL; g_start_last = NULL; \
		g_qa.head = NULL; g_qa.tail = NULL; g_qb.head = NULL; g_qb.tail = NULL; g_last_app = NULL; \
		g_qa_addr = NULL; g_qb_addr = NULL; g_pollr_addr = NULL; g_pollw_addr = NULL; \
		g_aio_init_calls = 0; g_aio_stop_calls = 0; g_aio_fini_calls = 0; g_aio_close_calls = 0; g_getfd_calls = 0; \
		g_hm = NULL; g_ca = NULL; g_which = nondet_int(); \
		g_getfd_rv = nondet_int(); g_getfd_fd = nondet_int(); g_getfd_last = NULL; \
	} while (0)
/* typed allocation of an object that always exists, contents nondeterministic */
#define VP_NEW(T) ((T *) __CPROVER_allocate(sizeof(T), 0))
static nni_msg *vp_mk_msg(bool body)
{
	nni_msg *m = VP_NEW(struct nng_msg);
	/* body: no buffer, or a heap buffer of exactly ch_cap bytes (what nni_chunk_free releases);
	 * body == false: the unit never releases the message, the body buffer is not built */
	m->m_body.ch_buf = NULL;
	if (body && m->m_body.ch_cap != 0) {
		__CPROVER_assume(m->m_body.ch_cap <= ((size_t) 1 << 32));
		m->m_body.ch_buf = __CPROVER_allocate(m->m_body.ch_cap, 0);
	}
	return (m);
}
/* a buffer ring: the inline two-slot ring of nni_lmq_init, or a heap ring of lmq_alloc slots (lmq_alloc symbolic;
 * the contracts require the representation invariant LMQ_WF_SCALAR).  The slot of the oldest message holds a real
 * message object when MSGS is set (pair1 rewrites its hop word; *_sock_close / resize release messages). */
static void vp_mk_lmq(nni_lmq *q, int msgs)
{
	if (nondet_bool()) {
		q->lmq_alloc = 0;
		q->lmq_msgs  = &q->lmq_buf[0];
	} else {
#ifdef PX_RING_SLOTS
		/* bounded units: a heap ring of exactly PX_RING_SLOTS slots (constant object size) */
		q->lmq_alloc = PX_RING_SLOTS;
		q->lmq_msgs  = (nng_msg **) __CPROVER_allocate(PX_RING_SLOTS * sizeof(nng_msg *), 0);
#else
		__CPROVER_assume(q->lmq_alloc >= 2 && q->lmq_alloc <= PX_MAXALLOC);
		q->lmq_msgs = (nng_msg **) __CPROVER_allocate(q->lmq_alloc * sizeof(nng_msg *), 0);
#endif
	}
	if (msgs) {
		size_t n = q->lmq_alloc == 0 ? 2 : q->lmq_alloc;
		if (q->lmq_get < n) {
			g_hm = vp_mk_msg(false);
			q->lmq_msgs[q->lmq_get] = g_hm;
		}
	}
}
#define F_HM 1   /* real message object in the slot of the send buffer's oldest message (header only) */
#define F_PARK 2 /* real message parked on the attached pipe's receive aio */
#define F_FLY 4  /* real messages on the send aios of both pipes */
#define VP_MK_PAIR(V, S, PP, PX, fl)                                  \
	do {                                                                   \
		S  = VP_NEW(struct pair##V##_sock);                                \
		PP = VP_NEW(struct pair##V##_pipe);                                \
		PX = VP_NEW(struct pair##V##_pipe);                                \
		vp_mk_lmq(&S->wmq, (fl) & F_HM);                                      \
		vp_mk_lmq(&S->rmq, 0);                                         \
		PP->pair = S; PX->pair = S;                                        \
		PP->pipe = (nni_pipe *) VP_NEW(uint32_t); /* transport pipe handles: opaque, distinct objects */ \
		PX->pipe = (nni_pipe *) VP_NEW(uint32_t);                          \
		S->p = nondet_bool() ? PP : NULL;                                  \
		if ((fl) & F_PARK) PP->aio_recv.a_msg = vp_mk_msg(true); /* a message parked on the pipe (meaningful when rd_ready) */ \
		if ((fl) & F_FLY) { PP->aio_send.a_msg = vp_mk_msg(true); PX->aio_send.a_msg = vp_mk_msg(true); } /* left on the aio by a failed send */ \
		g_qa_addr = &S->raq; g_qb_addr = &S->waq;                          \
		g_pollr_addr = &S->readable; g_pollw_addr = &S->writable;          \
	} while (0)
#define MK0(fl) VP_MK_PAIR(0, g_s0, g_pp0, g_px0, fl)
#define MK1(fl) VP_MK_PAIR(1, g_s1, g_pp1, g_px1, fl)
void h_pair0_send_sched(void) { VP_HAVOC_GHOSTS(); MK0(0); pair0_send_sched(g_s0); VP_CANARY(); }
void h_pair1_send_sched(void) { VP_HAVOC_GHOSTS(); MK1(F_HM); pair1_send_sched(g_s1); VP_CANARY(); }
#ifdef PX_SENDCB_FAILED
#define F_CB F_FLY
#else
#define F_CB 0
#endif
void h_pair0_pipe_send_cb(void) { VP_HAVOC_GHOSTS(); MK0(F_CB); pair0_pipe_send_cb(nondet_bool() ? g_pp0 : g_px0); VP_CANARY(); }
void h_pair1_pipe_send_cb(void) { VP_HAVOC_GHOSTS(); MK1(F_HM | F_CB); pair1_pipe_send_cb(nondet_bool() ? g_pp1 : g_px1); VP_CANARY(); }
void h_pair0_pipe_stop(void) { VP_HAVOC_GHOSTS(); MK0(F_PARK); pair0_pipe_stop(nondet_bool() ? g_pp0 : g_px0); VP_CANARY(); }
void h_pair1_pipe_stop(void) { VP_HAVOC_GHOSTS(); MK1(F_PARK); pair1_pipe_stop(nondet_bool() ? g_pp1 : g_px1); VP_CANARY(); }
void h_pair0_pipe_close(void) { VP_HAVOC_GHOSTS(); MK0(0); pair0_pipe_close(nondet_bool() ? g_pp0 : g_px0); VP_CANARY(); }
void h_pair1_pipe_close(void) { VP_HAVOC_GHOSTS(); MK1(0); pair1_pipe_close(nondet_bool() ? g_pp1 : g_px1); VP_CANARY(); }
/* the wait lists: members are real aio objects built here; the cancelled aio is the first waiter, the last
 * appended one, or not on a list */
static void vp_mk_waiters(void)
{
	g_ca      = VP_NEW(nni_aio);
	g_qa.head = nondet_bool() ? g_ca : VP_NEW(nni_aio);
	g_qa.tail = nondet_bool() ? NULL : (nondet_bool() ? g_ca : (nondet_bool() ? g_qa.head : VP_NEW(nni_aio)));
	g_qb.head = nondet_bool() ? g_ca : VP_NEW(nni_aio);
	g_qb.tail = nondet_bool() ? NULL : (nondet_bool() ? g_ca : (nondet_bool() ? g_qb.head : VP_NEW(nni_aio)));
	g_last_app = nondet_bool() ? (nondet_bool() ? g_qa.tail : g_qb.tail) : NULL;
	if (g_qa.n == 0) { g_qa.head = NULL; g_qa.tail = NULL; }
	if (g_qb.n == 0) { g_qb.head = NULL; g_qb.tail = NULL; }
}
void h_pair0_cancel(void) { nng_err rv; VP_HAVOC_GHOSTS(); MK0(0); vp_mk_waiters(); pair0_cancel(g_ca, g_s0, rv); VP_CANARY(); }
void h_pair1_cancel(void) { nng_err rv; VP_HAVOC_GHOSTS(); MK1(0); vp_mk_waiters(); pair1_cancel(g_ca, g_s1, rv); VP_CANARY(); }
void h_pair0_set_send_buf_len(void) { const void *buf; size_t sz; nni_type t; VP_HAVOC_GHOSTS(); MK0(0); (void) pair0_set_send_buf_len(g_s0, buf, sz, t); VP_CANARY(); }
void h_pair1_set_send_buf_len(void) { const void *buf; size_t sz; nni_type t; VP_HAVOC_GHOSTS(); MK1(0); (void) pair1_set_send_buf_len(g_s1, buf, sz, t); VP_CANARY(); }
void h_pair0_set_recv_buf_len(void) { const void *buf; size_t sz; nni_type t; VP_HAVOC_GHOSTS(); MK0(0); (void) pair0_set_recv_buf_len(g_s0, buf, sz, t); VP_CANARY(); }
void h_pair1_set_recv_buf_len(void) { const void *buf; size_t sz; nni_type t; VP_HAVOC_GHOSTS(); MK1(0); (void) pair1_set_recv_buf_len(g_s1, buf, sz, t); VP_CANARY(); }
void h_pair0_get_send_buf_len(void) { void *buf; size_t *szp; nni_type t; VP_HAVOC_GHOSTS(); MK0(0); (void) pair0_get_send_buf_len(g_s0, buf, szp, t); VP_CANARY(); }
void h_pair0_get_recv_buf_len(void) { void *buf; size_t *szp; nni_type t; VP_HAVOC_GHOSTS(); MK0(0); (void) pair0_get_recv_buf_len(g_s0, buf, szp, t); VP_CANARY(); }
void h_pair1_get_send_buf_len(void) { void *buf; size_t *szp; nni_type t; VP_HAVOC_GHOSTS(); MK1(0); (void) pair1_get_send_buf_len(g_s1, buf, szp, t); VP_CANARY(); }
void h_pair1_get_recv_buf_len(void) { void *buf; size_t *szp; nni_type t; VP_HAVOC_GHOSTS(); MK1(0); (void) pair1_get_recv_buf_len(g_s1, buf, szp, t); VP_CANARY(); }
void h_lmq_resize(void) { nni_lmq *lmq; size_t cap; VP_HAVOC_GHOSTS(); (void) nni_lmq_resize(lmq, cap); VP_CANARY(); }
/* keeps the body-less second contract's symbol in the binary (never called) */
void vp_px_refs(void) { (void) vp_px_lmq_resize(NULL, 0); }
void vp_px_refs2(void) { vp_px_msg_free(NULL); }
void h_pair0_sock_close(void) { VP_HAVOC_GHOSTS(); MK0(0); pair0_sock_close(g_s0); VP_CANARY(); }
void h_pair1_sock_close(void) { VP_HAVOC_GHOSTS(); MK1(0); pair1_sock_close(g_s1); VP_CANARY(); }
#define MKS(V) do { g_s##V = VP_NEW(struct pair##V##_sock); g_pollr_addr = &g_s##V->readable; g_pollw_addr = &g_s##V->writable; g_qa_addr = &g_s##V->raq; g_qb_addr = &g_s##V->waq; } while (0)
void h_pair0_sock_init(void) { nni_sock *sock; VP_HAVOC_GHOSTS(); MKS(0); pair0_sock_init(g_s0, sock); VP_CANARY(); }
void h_pair1_sock_init(void) { nni_sock *sock; VP_HAVOC_GHOSTS(); MKS(1); pair1_sock_init(g_s1, sock); VP_CANARY(); }
void h_pair1_sock_init_raw(void) { nni_sock *sock; VP_HAVOC_GHOSTS(); MKS(1); pair1_sock_init_raw(g_s1, sock); VP_CANARY(); }
void h_pair0_sock_fini(void) { VP_HAVOC_GHOSTS(); MK0(0); pair0_sock_fini(g_s0); VP_CANARY(); }
void h_pair1_sock_fini(void) { VP_HAVOC_GHOSTS(); MK1(0); pair1_sock_fini(g_s1); VP_CANARY(); }
void h_pair0_pipe_init(void) { void *arg; nni_pipe *pipe; void *pair; VP_HAVOC_GHOSTS(); (void) pair0_pipe_init(arg, pipe, pair); VP_CANARY(); }
void h_pair1_pipe_init(void) { void *arg; nni_pipe *pipe; void *pair; VP_HAVOC_GHOSTS(); (void) pair1_pipe_init(arg, pipe, pair); VP_CANARY(); }
void h_pair0_pipe_fini(void) { void *arg; VP_HAVOC_GHOSTS(); pair0_pipe_fini(arg); VP_CANARY(); }
void h_pair1_pipe_fini(void) { void *arg; VP_HAVOC_GHOSTS(); pair1_pipe_fini(arg); VP_CANARY(); }
void h_pair1_sock_set_max_ttl(void) { void *arg; const void *buf; size_t sz; nni_type t; VP_HAVOC_GHOSTS(); (void) pair1_sock_set_max_ttl(arg, buf, sz, t); VP_CANARY(); }
void h_pair1_sock_get_max_ttl(void) { void *arg; void *buf; size_t *szp; nni_type t; VP_HAVOC_GHOSTS(); (void) pair1_sock_get_max_ttl(arg, buf, szp, t); VP_CANARY(); }
void h_pair0_sock_get_recv_fd(void) { int *fdp; VP_HAVOC_GHOSTS(); MK0(0); (void) pair0_sock_get_recv_fd(g_s0, fdp); VP_CANARY(); }
void h_pair0_sock_get_send_fd(void) { int *fdp; VP_HAVOC_GHOSTS(); MK0(0); (void) pair0_sock_get_send_fd(g_s0, fdp); VP_CANARY(); }
void h_pair1_sock_get_recv_fd(void) { int *fdp; VP_HAVOC_GHOSTS(); MK1(0); (void) pair1_sock_get_recv_fd(g_s1, fdp); VP_CANARY(); }
void h_pair1_sock_get_send_fd(void) { int *fdp; VP_HAVOC_GHOSTS(); MK1(0); (void) pair1_sock_get_send_fd(g_s1, fdp); VP_CANARY(); }

/* ---- 2-step lemma (C08 FIFO through the send buffer), plain bounded model checking of the REAL functions, no contracts:
 * the peer is busy and the buffer holds L older messages (L = 0..2) with room for two more; two sends m1, m2 are accepted
 * in this order; as the peer finishes one send after the other (send callbacks) it is handed first the L older messages,
 * then m1, then m2 - never m2 before m1, nothing is completed twice, dropped or freed. ---- */
#define VP_FIFO_LEMMA(V)                                                   \
	do {                                                                   \
		nni_aio *a1 = VP_NEW(nni_aio), *a2 = VP_NEW(nni_aio);              \
		nni_msg *m1 = vp_mk_msg(false), *m2 = vp_mk_msg(false);            \
		size_t   L, i, sc, fc, fr;                                         \
		a1->a_msg = m1; a2->a_msg = m2;                                    \
		if (V) { m1->m_header_len = 0; m2->m_header_len = 0; }             \
		/* initial state (the lemma's hypothesis) */                       \
		__CPROVER_assume(PX_LMQ_PRE(&g_s##V->wmq) && g_s##V->p == g_pp##V && !g_s##V->wr_ready && g_qa.n == 0 && g_qb.n == 0); \
		__CPROVER_assume(g_s##V->wmq.lmq_len <= 2 && g_s##V->wmq.lmq_len + 2 <= g_s##V->wmq.lmq_cap && m1 != m2); \
		__CPROVER_assume(g_s##V->wmq.lmq_len < 1 || (LMQ_VIEW(&g_s##V->wmq, 0) != m1 && LMQ_VIEW(&g_s##V->wmq, 0) != m2)); \
		__CPROVER_assume(g_s##V->wmq.lmq_len < 2 || (LMQ_VIEW(&g_s##V->wmq, 1) != m1 && LMQ_VIEW(&g_s##V->wmq, 1) != m2)); \
		if (V) __CPROVER_assume(g_s##V->wmq.lmq_len == 0); /* pair1 rewrites the hop word of every message it hands on: no unknown older messages */ \
		g_pp##V->aio_send.a_result = NNG_OK;                               \
		L = g_s##V->wmq.lmq_len; sc = g_pipe_send_calls; fc = g_fin_calls; fr = g_free_calls; \
		pair##V##_sock_send(g_s##V, a1);                                   \
		__CPROVER_assert(g_fin_calls == fc + 1 && g_fin_last == a1 && g_fin_last_rv == 0, "lemma: first send accepted"); \
		pair##V##_sock_send(g_s##V, a2);                                   \
		__CPROVER_assert(g_fin_calls == fc + 2 && g_fin_last == a2 && g_fin_last_rv == 0 && g_pipe_send_calls == sc, "lemma: second send accepted, nothing on the wire yet"); \
		for (i = 0; i < L; i++) {                                          \
			pair##V##_pipe_send_cb(g_pp##V);                               \
			__CPROVER_assert(g_pipe_send_msg != m1 && g_pipe_send_msg != m2, "lemma: older messages go first"); \
		}                                                                  \
		pair##V##_pipe_send_cb(g_pp##V);                                   \
		__CPROVER_assert(g_pipe_send_calls == sc + L + 1 && g_pipe_send_msg == m1, "lemma: m1 reaches the peer before m2"); \
		pair##V##_pipe_send_cb(g_pp##V);                                   \
		__CPROVER_assert(g_pipe_send_calls == sc + L + 2 && g_pipe_send_msg == m2, "lemma: then m2"); \
		pair##V##_pipe_send_cb(g_pp##V);                                   \
		__CPROVER_assert(g_pipe_send_calls == sc + L + 2 && g_s##V->wr_ready && g_s##V->wmq.lmq_len == 0, "lemma: nothing left, nothing sent twice"); \
		__CPROVER_assert(g_fin_calls == fc + 2 && g_free_calls == fr && g_pipe_close_calls < ((size_t) 1 << 41), "lemma: nothing completed twice or freed"); \
	} while (0)
void h_pair0_fifo_lemma(void) { VP_HAVOC_GHOSTS(); MK0(0); VP_FIFO_LEMMA(0); VP_CANARY(); }
void h_pair1_fifo_lemma(void) { VP_HAVOC_GHOSTS(); MK1(0); g_s1->raw = false; VP_FIFO_LEMMA(1); VP_CANARY(); }
