/* Spec macros for the PAIR callbacks of modules/pairx (C08, C15, C03, C18).  No code.
 * pair0/pair.c and pair1/pair.c have the same socket/pipe shape and field names, so every macro takes the
 * socket S (g_s0 / g_s1), the attached-pipe ghost PP (g_pp0 / g_pp1) and the other pipe PX (g_px0 / g_px1). */
#ifndef VP_PAIRX_SPEC_H
#define VP_PAIRX_SPEC_H
#ifndef NNI_PROTO_PAIR_V0
#define NNI_PROTO_PAIR_V0 NNI_PROTO(1, 0)
#endif
/* largest ring array (slots) the harness builds: by default the limit of the lmq contracts, i.e. symbolic */
#ifndef PX_MAXALLOC
#define PX_MAXALLOC LMQ_MAXALLOC
#endif
#define PX_WFULL(S) ((S)->wmq.lmq_len >= (S)->wmq.lmq_cap)
/* C15, ONE invariant: the send descriptor is raised exactly when a non-blocking send would succeed now (the peer
 * is ready to take a message or the send buffer has room), the receive descriptor exactly when a non-blocking
 * receive would succeed now (a message in the receive buffer or one parked on the pipe).  Level-triggered mirror:
 * "==" in both directions = no missed wake-up and no busy loop. */
#define PX_POLL_INV(S)                                                     \
	(g_pollw == ((S)->wr_ready || !PX_WFULL(S)) &&                         \
	    g_pollr == ((S)->rd_ready || (S)->rmq.lmq_len > 0))
/* stable state of the hand-off (C08 back-pressure/order): a sender waits only while the peer is busy and the
 * buffer is full (so nobody can overtake it); the peer is remembered as ready only when nothing is buffered;
 * a receiver waits only when nothing is buffered or parked; readiness flags belong to the attached peer */
#define PX_STABLE(S)                                                       \
	((g_qb.n == 0 || (PX_WFULL(S) && !(S)->wr_ready)) &&                   \
	    (!(S)->wr_ready || ((S)->wmq.lmq_len == 0 && (S)->p != NULL)) &&   \
	    (g_qa.n == 0 || ((S)->rmq.lmq_len == 0 && !(S)->rd_ready)) &&      \
	    (!(S)->rd_ready || (S)->p != NULL))
/* conservation counter (send side): messages the socket is responsible for (buffered + waiting senders) plus
 * messages handed to the transport pipe so far */
#define PX_HELD(S) ((S)->wmq.lmq_len + g_qb.n + g_pipe_send_calls)
/* the harness-built skeleton (restated in every contract so that it is self-contained) */
#define PX_SKEL(S, PP, PX)                                                 \
	(((S)->p == NULL || (S)->p == (PP)) && (PP)->pair == (S) && (PX)->pair == (S) && (PP) != (PX) && \
	    (PP)->pipe != (PX)->pipe &&                                        \
	    g_qa_addr == &(S)->raq && g_qb_addr == &(S)->waq &&                \
	    g_pollr_addr == &(S)->readable && g_pollw_addr == &(S)->writable)
/* ring: inline two-slot buffer or a heap array of lmq_alloc slots (built by the harness) + representation invariant */
#ifdef PX_RING_SLOTS
#define PX_LMQ_PRE(q) (LMQ_WF_SCALAR(q) && ((q)->lmq_alloc == 0 || (q)->lmq_alloc == PX_RING_SLOTS))
#else
#define PX_LMQ_PRE(q) (LMQ_WF_SCALAR(q) && (q)->lmq_alloc <= PX_MAXALLOC)
#endif
/* a message as the socket layer hands it over / as *_sock_send leaves it on a waiting aio (pair1: one hop word) */
#define PX_MSG_OK(m) ((m)->m_refcnt.v == 1 && (m)->m_header_len <= MSG_HDRCAP)
#define PX1_MSG_OK(m) ((m)->m_refcnt.v == 1 && (m)->m_header_len == 4 && BE32(HDR(m)) < 0xff)
/* *_set_send_buf_len: bound on the number of waiting senders (admission loop unwound) */
#ifndef PX_SB_MAXWAIT
#define PX_SB_MAXWAIT 2
#endif
/* *_sock_close: bounds on the number of waiting operations per list and on the number of buffered messages (both loops unwound) */
#define PX_MAXWAIT 2
#define PX_MAXDRAIN 3
#endif
