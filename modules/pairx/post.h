/* included AFTER the real sources */
#include "include/env_alloc.h"
#include "include/env_sync.h"
/* env_proto.h's ghost-queue removal becomes the inner half of modules/pairx/env.h's wrapper (which gives a
 * newly exposed waiting sender its message object) */
#define nni_aio_list_remove vp_proto_aio_list_remove
#define nni_aio_close vp_proto_aio_close
#define VP_PROTO_STUBS 1
#include "include/env_proto.h"
#undef nni_aio_list_remove
#undef nni_aio_close
void nni_aio_list_remove(nni_aio *aio); /* modules/pairx/env.h */
#include "modules/pairx/env.h"
