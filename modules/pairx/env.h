/* modules/pairx/env.h -- additions to the ASSUMED environment of include/env_proto.h (ghost accounting only) */
#ifndef VP_PAIRX_ENV_H
#define VP_PAIRX_ENV_H
/* waiting senders: ASSUMED environment invariant - every aio on the send wait list s->waq (ghost queue g_qb)
 * carries the message it wants to send (nni_sock_send rejects an aio without one).  env_proto.h materialises an
 * unknown next member of a ghost queue as a new aio object with unconstrained content; this wrapper gives such
 * a member a message object (unshared, one hop word in the header: what *_sock_send leaves on a waiting aio). */
void nni_aio_list_remove(nni_aio *aio)
{
	nni_aio *h0 = g_qb.head, *t0 = g_qb.tail;
	vp_proto_aio_list_remove(aio);
	if (g_qb.n > 0 && g_qb.head != h0 && g_qb.head != t0) {
		g_qb.head->a_msg = malloc(sizeof(struct nng_msg));
		__CPROVER_assume(g_qb.head->a_msg != NULL && g_qb.head->a_msg->m_header_len == 4 && g_qb.head->a_msg->m_refcnt.v == 1);
	}
}
/* last member of a modelled wait list: the last appended one when it is known, the only one, or some other
 * member than the head */
void *nni_list_last(const nni_list *l)
{
	vp_aioq *q = vp_which(l);
	if (q->n == 0) {
		return (NULL);
	}
	if (q->n == 1) {
		return (q->head);
	}
	if (q->tail == NULL) {
		vp_aioq *o = (q == &g_qa) ? &g_qb : &g_qa;
		q->tail    = malloc(sizeof(nni_aio));
		__CPROVER_assume(q->tail != NULL && q->tail != q->head && q->tail != g_last_app);
		__CPROVER_assume(o->n == 0 || (q->tail != o->head && q->tail != o->tail));
		q->tail->a_msg = malloc(sizeof(struct nng_msg));
		__CPROVER_assume(q->tail->a_msg != NULL);
	}
	return (q->tail);
}
/* aio life cycle of the two per-pipe aios: ghost records (the aio core has its own module) */
void nni_aio_init(nni_aio *aio, nni_cb cb, void *arg)
{
	if (g_aio_init_calls == 0) { g_aio_init_a = aio; g_aio_init_cb_a = cb; g_aio_init_arg_a = arg; }
	else { g_aio_init_b = aio; g_aio_init_cb_b = cb; g_aio_init_arg_b = arg; }
	g_aio_init_calls++;
}
void nni_aio_stop(nni_aio *aio) { if (g_aio_stop_calls == 0) g_aio_stop_a = aio; else g_aio_stop_b = aio; g_aio_stop_calls++; }
void nni_aio_fini(nni_aio *aio) { if (g_aio_fini_calls == 0) g_aio_fini_a = aio; else g_aio_fini_b = aio; g_aio_fini_calls++; }
void nni_aio_close(nni_aio *aio) { if (g_aio_close_calls == 0) g_aio_close_a = aio; else g_aio_close_b = aio; g_aio_close_calls++; }
/* descriptor of a pollable: may fail (pipe/eventfd creation), never changes the raised state */
nng_err nni_pollable_getfd(nni_pollable *p, int *fdp)
{
	g_getfd_calls++;
	g_getfd_last = p;
	if (g_getfd_rv == 0) {
		*fdp = g_getfd_fd;
	}
	return ((nng_err) g_getfd_rv);
}
/* statistics: no-ops */
void nni_stat_set_bool(nni_stat_item *s, bool b) { (void) s; (void) b; }
void nni_stat_init(nni_stat_item *s, const nni_stat_info *i) { (void) s; (void) i; }
void nni_sock_add_stat(nni_sock *s, nni_stat_item *i) { (void) s; (void) i; }
#endif
