/* Contracts for the callbacks of src/sp/protocol/pair0/pair.c and src/sp/protocol/pair1/pair.c that modules/pair0
 * and modules/pair1 do not cover (send scheduling, send completion, pipe stop/close, cancel, socket close, buffer
 * depth options, life cycle, descriptors).  The two files have the same shape, so each contract is written ONCE as a
 * macro over (S = socket ghost, PP = attached-pipe ghost, PX = a pipe of the socket that is not attached) and
 * instantiated for pair0 (g_s0, g_pp0, g_px0) and pair1 (g_s1, g_pp1, g_px1; + hop count clauses).
 * The object skeleton is BUILT by the harness (harness.c) and named by the ghosts of ghost.h.
 * Wait lists: s->raq = ghost queue g_qa, s->waq = ghost queue g_qb (include/env_proto.h). */
#ifndef VP_PAIRX_CONTRACTS_H
#define VP_PAIRX_CONTRACTS_H
/* clang-format off */
#define RV __CPROVER_return_value
#define OLD(e) __CPROVER_old(e)
/* reachability probes (only with -DPX_COVER, never in a registered unit): each must FAIL */
#ifdef PX_COVER
#define COVER(c) __CPROVER_ensures(!(c))
#else
#define COVER(c)
#endif
#define WQ(S) (&(S)->wmq)
#define RQ(S) (&(S)->rmq)
#define PX_RING_ASSIGNS(q) \
__CPROVER_assigns((q)->lmq_get, (q)->lmq_put, (q)->lmq_len) \
__CPROVER_assigns((q)->lmq_alloc == 0: (q)->lmq_buf[0], (q)->lmq_buf[1]) \
__CPROVER_assigns((q)->lmq_alloc != 0: __CPROVER_object_whole((q)->lmq_msgs))
#define PX_GEOM_SAME(q) ((q)->lmq_cap == OLD((q)->lmq_cap) && (q)->lmq_alloc == OLD((q)->lmq_alloc) && (q)->lmq_mask == OLD((q)->lmq_mask) && (q)->lmq_msgs == OLD((q)->lmq_msgs))
/* buffer untouched: same length, same messages in the same order (g_j: free ghost index) */
#define PX_Q_SAME(q) ((q)->lmq_len == OLD((q)->lmq_len) && (q)->lmq_get == OLD((q)->lmq_get) && (g_j >= (q)->lmq_len || LMQ_VIEW(q, g_j) == OLD(LMQ_VIEW(q, g_j))))
/* oldest message taken out, the rest keeps its order */
#define PX_Q_SHIFTED(q, newlen) ((q)->lmq_len == (newlen) && (g_j + 1 >= OLD((q)->lmq_len) || g_j >= LMQ_MAXALLOC || LMQ_VIEW(q, g_j) == OLD(LMQ_VIEW(q, g_j + 1))))
/* ghost equations naming the first waiting sender's message and its length */
#define PX_WAITER_PRE(MSGOK) (g_qb.n == 0 || (__CPROVER_is_fresh(g_qb.head->a_msg, sizeof(struct nng_msg)) && MSGOK(g_qb.head->a_msg) && g_p2 == (void *) g_qb.head->a_msg && g_n2 == g_qb.head->a_msg->m_body.ch_len))
/* the waiters behind the first one keep their places (nobody is overtaken) */
#define PX_WAITERS_ADVANCE (g_qb.n == OLD(g_qb.n) - 1 && ((OLD(g_qb.n) >= 2 && OLD(g_qb.tail) != NULL) ==> (g_qb.tail == OLD(g_qb.tail) && (OLD(g_qb.n) == 2 ==> g_qb.head == OLD(g_qb.tail)))))
#define PX_WAITER_DONE (g_fin_calls == OLD(g_fin_calls) + 1 && g_fin_last == OLD(g_qb.head) && g_fin_last_rv == 0 && g_fin_last_count == g_n2 && g_fin_last_msg == NULL && OLD(g_qb.head)->a_msg == NULL && PX_WAITERS_ADVANCE)
#define PX_SENT_ON(PP) (g_pipe_send_calls == OLD(g_pipe_send_calls) + 1 && g_pipe_send_pipe == (PP)->pipe && g_pipe_send_aio == &(PP)->aio_send)

/* =====================================================================
 * *_send_sched: the peer can take another message (C08 order / conservation, C15)
 *   - every message leaves by exactly one way: handed to the pipe / stays in the buffer / stays on a waiting aio
 *     (PX_HELD unchanged, nothing freed, nobody disconnected);
 *   - strict FIFO: the buffer's OLDEST message goes to the pipe first; the FIRST waiting sender (no other) is
 *     admitted into the freed slot at the TAIL; the other waiters keep their places;
 *   - C15 invariant kept.
 * ===================================================================== */
#define SS_L0(S) OLD((S)->wmq.lmq_len)
#define SS_A0 OLD(g_qb.n)
#define PX_SCHED_CONTRACT(S, PP, PX, MSGOK) __CPROVER_requires(s == (S)) PX_SCHED_BODY(S, PP, PX, MSGOK)
#define PX_SCHED_BODY(S, PP, PX, MSGOK) \
__CPROVER_requires(PX_SKEL(S, PP, PX) && VP_NO_LOCK_HELD) \
__CPROVER_requires(VP_AIOQS_PRE) \
__CPROVER_requires(PX_WAITER_PRE(MSGOK)) \
__CPROVER_requires(PX_LMQ_PRE(WQ(S))) \
/* call sites: *_pipe_start (no peer was attached) and *_pipe_send_cb (the peer's send just completed): the peer is not marked ready */ \
__CPROVER_requires(!(S)->wr_ready) \
__CPROVER_requires(PX_POLL_INV(S)) \
__CPROVER_requires(g_held0 == PX_HELD(S)) \
__CPROVER_requires(g_k < (S)->wmq.lmq_len ==> g_p == (void *) LMQ_VIEW(WQ(S), g_k)) \
__CPROVER_assigns((S)->wr_ready, (PP)->aio_send.a_msg, VP_PROTO_GHOST_LIST, VP_SYNC_GHOSTS) \
__CPROVER_assigns(g_qb.n > 0: g_qb.head->a_msg) \
PX_RING_ASSIGNS(WQ(S)) \
__CPROVER_ensures(VP_NO_LOCK_HELD && VP_AIOQS_OK && LMQ_WF_SCALAR(WQ(S)) && PX_GEOM_SAME(WQ(S))) \
/* nothing freed, nobody disconnected, no timeout consulted, receive side untouched */ \
__CPROVER_ensures(g_pipe_close_calls == OLD(g_pipe_close_calls) && g_start_calls == OLD(g_start_calls) && g_pipe_recv_calls == OLD(g_pipe_recv_calls) && g_free_calls == OLD(g_free_calls) && g_qa.n == OLD(g_qa.n)) \
/* no peer: nothing at all happens */ \
__CPROVER_ensures((S)->p == NULL ==> (g_pipe_send_calls == OLD(g_pipe_send_calls) && g_fin_calls == OLD(g_fin_calls) && PX_Q_SAME(WQ(S)) && g_qb.n == SS_A0 && !(S)->wr_ready && (PP)->aio_send.a_msg == OLD((PP)->aio_send.a_msg))) \
/* buffered messages go first: the OLDEST one goes to the peer, once, on the pipe's send aio */ \
__CPROVER_ensures(((S)->p != NULL && SS_L0(S) > 0) ==> (PX_SENT_ON(PP) && g_pipe_send_msg == OLD(LMQ_VIEW(WQ(S), 0)) && (PP)->aio_send.a_msg == OLD(LMQ_VIEW(WQ(S), 0)) && !(S)->wr_ready)) \
/* ... the rest keeps its order and the FIRST waiting sender's message takes the freed slot at the TAIL; that sender completes with success and no longer owns the message */ \
__CPROVER_ensures(((S)->p != NULL && SS_L0(S) > 0 && SS_A0 > 0) ==> (PX_Q_SHIFTED(WQ(S), SS_L0(S)) && LMQ_VIEW(WQ(S), (S)->wmq.lmq_len - 1) == (nni_msg *) g_p2 && PX_WAITER_DONE)) \
__CPROVER_ensures(((S)->p != NULL && SS_L0(S) > 0 && SS_A0 == 0) ==> (PX_Q_SHIFTED(WQ(S), SS_L0(S) - 1) && g_fin_calls == OLD(g_fin_calls) && g_qb.n == 0)) \
/* nothing buffered but a sender waits (unbuffered hand-off): the FIRST waiter's message goes straight to the peer */ \
__CPROVER_ensures(((S)->p != NULL && SS_L0(S) == 0 && SS_A0 > 0) ==> (PX_SENT_ON(PP) && g_pipe_send_msg == (nni_msg *) g_p2 && (PP)->aio_send.a_msg == (nni_msg *) g_p2 && !(S)->wr_ready && PX_WAITER_DONE && (S)->wmq.lmq_len == 0)) \
/* nothing to send: the peer is remembered as ready; nothing is sent, nobody completes */ \
__CPROVER_ensures(((S)->p != NULL && SS_L0(S) == 0 && SS_A0 == 0) ==> ((S)->wr_ready && g_pipe_send_calls == OLD(g_pipe_send_calls) && g_fin_calls == OLD(g_fin_calls) && (S)->wmq.lmq_len == 0 && g_qb.n == 0 && (PP)->aio_send.a_msg == OLD((PP)->aio_send.a_msg))) \
/* conservation: buffer + waiting senders + handed to the pipe neither loses nor duplicates a message */ \
__CPROVER_ensures(PX_HELD(S) == g_held0) \
/* C15 */ \
__CPROVER_ensures(PX_POLL_INV(S)) \
/* back-pressure state: afterwards a sender still waits only while the buffer is full and the peer is busy */ \
__CPROVER_ensures((SS_A0 == 0 || SS_L0(S) >= (S)->wmq.lmq_cap) ==> (g_qb.n == 0 || (PX_WFULL(S) && !(S)->wr_ready) || (S)->p == NULL)) \
COVER((S)->p != NULL && SS_L0(S) == 3 && SS_A0 == 2) COVER((S)->p != NULL && SS_L0(S) == 0 && SS_A0 == 1 && (S)->wmq.lmq_cap == 0) COVER((S)->p != NULL && SS_L0(S) == 0 && SS_A0 == 0 && (S)->wmq.lmq_cap == 0) COVER((S)->p == NULL && SS_A0 == 1) COVER((S)->p != NULL && SS_L0(S) == 1 && (S)->wmq.lmq_alloc == 0 && SS_A0 == 0)

static void pair0_send_sched(pair0_sock *s)
PX_SCHED_CONTRACT(g_s0, g_pp0, g_px0, PX_MSG_OK)
;

/* PAIRv1: the hop count goes up by one on the message that goes to the peer (C08 "adds one to a hop count on every
 * traversal"); a message that only moves from a waiting aio into the buffer is not touched (frame) */
static void pair1_send_sched(pair1_sock *s)
PX_SCHED_CONTRACT(g_s1, g_pp1, g_px1, PX1_MSG_OK)
__CPROVER_requires(g_s1->wmq.lmq_len > 0 ==> (LMQ_VIEW(WQ(g_s1), 0) == g_hm && PX1_MSG_OK(g_hm) && g_u32 == BE32(HDR(g_hm))))
__CPROVER_requires((g_s1->wmq.lmq_len == 0 && g_qb.n > 0) ==> g_u32 == BE32(HDR(g_qb.head->a_msg)))
__CPROVER_assigns(g_s1->wmq.lmq_len > 0: g_hm->m_header_buf[0]; g_s1->wmq.lmq_len == 0 && g_qb.n > 0: g_qb.head->a_msg->m_header_buf[0])
__CPROVER_ensures((g_s1->p != NULL && (SS_L0(g_s1) > 0 || SS_A0 > 0)) ==> (g_pipe_send_msg->m_header_len == 4 && BE32(HDR(g_pipe_send_msg)) == g_u32 + 1))
;

/* =====================================================================
 * *_pipe_send_cb: the pipe finished (or failed) sending the message it was handed
 *   success (unit *_pipe_send_cb; the pipe is the attached peer): exactly the scheduling step above;
 *   failure (unit *_pipe_send_cb_failed, any pipe of the socket): the message the pipe still holds is released
 *   exactly once and taken off the aio, the pipe is closed, the socket's state is not touched (C03, C08).
 * ===================================================================== */
#define CB_P(V) ((struct pair##V##_pipe *) arg)
#define CB_M(V) (CB_P(V)->aio_send.a_msg)
#ifdef PX_SENDCB_FAILED
#define PX_SENDCB_CONTRACT(V, S, PP, PX, MSGOK) \
__CPROVER_requires((arg == (PP) || arg == (PX)) && PX_SKEL(S, PP, PX) && VP_NO_LOCK_HELD) \
__CPROVER_requires(CB_P(V)->aio_send.a_result != 0) \
__CPROVER_requires(CB_M(V) != NULL && PX_MSG_OK(CB_M(V))) \
__CPROVER_assigns(CB_P(V)->aio_send.a_msg, *CB_M(V), VP_PROTO_GHOST_LIST, g_free_calls) \
__CPROVER_frees(CB_M(V), CB_M(V)->m_body.ch_buf) \
__CPROVER_ensures(VP_NO_LOCK_HELD) \
__CPROVER_ensures(__CPROVER_was_freed(OLD(CB_M(V))) && CB_M(V) == NULL) \
__CPROVER_ensures(OLD(CB_M(V)->m_body.ch_cap) != 0 ==> (__CPROVER_was_freed(OLD(CB_M(V)->m_body.ch_buf)) && g_free_calls == OLD(g_free_calls) + 2)) \
__CPROVER_ensures(OLD(CB_M(V)->m_body.ch_cap) == 0 ==> g_free_calls == OLD(g_free_calls) + 1) \
__CPROVER_ensures(g_pipe_close_calls == OLD(g_pipe_close_calls) + 1 && g_pipe_close_last == CB_P(V)->pipe) \
__CPROVER_ensures(g_pipe_send_calls == OLD(g_pipe_send_calls) && g_fin_calls == OLD(g_fin_calls) && g_qa.n == OLD(g_qa.n) && g_qb.n == OLD(g_qb.n) && g_pollw == OLD(g_pollw) && g_pollr == OLD(g_pollr) && g_pipe_recv_calls == OLD(g_pipe_recv_calls))
#else
#define PX_SENDCB_CONTRACT(V, S, PP, PX, MSGOK) \
__CPROVER_requires(arg == (PP) && (PP)->aio_send.a_result == 0) \
PX_SCHED_BODY(S, PP, PX, MSGOK)
#endif
static void pair0_pipe_send_cb(void *arg)
PX_SENDCB_CONTRACT(0, g_s0, g_pp0, g_px0, PX_MSG_OK)
;
static void pair1_pipe_send_cb(void *arg)
PX_SENDCB_CONTRACT(1, g_s1, g_pp1, g_px1, PX1_MSG_OK)
#ifndef PX_SENDCB_FAILED
__CPROVER_requires(g_s1->wmq.lmq_len > 0 ==> (LMQ_VIEW(WQ(g_s1), 0) == g_hm && PX1_MSG_OK(g_hm) && g_u32 == BE32(HDR(g_hm))))
__CPROVER_requires((g_s1->wmq.lmq_len == 0 && g_qb.n > 0) ==> g_u32 == BE32(HDR(g_qb.head->a_msg)))
__CPROVER_assigns(g_s1->wmq.lmq_len > 0: g_hm->m_header_buf[0]; g_s1->wmq.lmq_len == 0 && g_qb.n > 0: g_qb.head->a_msg->m_header_buf[0])
__CPROVER_ensures((g_s1->p != NULL && (SS_L0(g_s1) > 0 || SS_A0 > 0)) ==> (g_pipe_send_msg->m_header_len == 4 && BE32(HDR(g_pipe_send_msg)) == g_u32 + 1))
#endif
;

/* =====================================================================
 * *_pipe_stop: the pipe goes away (C08 "one peer at a time": the socket forgets the peer so that a new one can
 * attach; C03: a message parked on the pipe is released exactly once; waiting operations are not lost; C15)
 * ===================================================================== */
#define ST_P(V) ((struct pair##V##_pipe *) arg)
#define ST_HELD(PP) ((PP)->aio_recv.a_msg)
#define PX_STOP_CONTRACT(V, S, PP, PX) \
__CPROVER_requires((arg == (PP) || arg == (PX)) && PX_SKEL(S, PP, PX) && VP_NO_LOCK_HELD) \
__CPROVER_requires(PX_LMQ_PRE(WQ(S)) && PX_LMQ_PRE(RQ(S))) \
/* readiness flags belong to the attached peer; a parked message is a real message */ \
__CPROVER_requires((S)->p != NULL || (!(S)->rd_ready && !(S)->wr_ready)) \
__CPROVER_requires(ST_HELD(PP) != NULL && PX_MSG_OK(ST_HELD(PP))) \
__CPROVER_requires(PX_POLL_INV(S)) \
__CPROVER_assigns((S)->p, (S)->rd_ready, (S)->wr_ready, *ST_HELD(PP), VP_PROTO_GHOST_LIST, VP_SYNC_GHOSTS, g_free_calls) \
__CPROVER_assigns(g_aio_stop_calls, g_aio_stop_a, g_aio_stop_b) \
__CPROVER_frees(ST_HELD(PP), ST_HELD(PP)->m_body.ch_buf) \
__CPROVER_ensures(VP_NO_LOCK_HELD) \
/* a pipe that is NOT the attached peer (refused, or already detached): the socket keeps its peer and its state; nothing is released */ \
__CPROVER_ensures((arg == (PX) || OLD((S)->p) == NULL) ==> ((S)->p == OLD((S)->p) && (S)->rd_ready == OLD((S)->rd_ready) && (S)->wr_ready == OLD((S)->wr_ready) && g_pollr == OLD(g_pollr) && g_pollw == OLD(g_pollw) && g_free_calls == OLD(g_free_calls) && !__CPROVER_was_freed(OLD(ST_HELD(PP))))) \
/* the attached peer: forgotten (a new peer can attach), no readiness left over from it */ \
__CPROVER_ensures((arg == (PP) && OLD((S)->p) == (PP)) ==> ((S)->p == NULL && !(S)->rd_ready && !(S)->wr_ready)) \
/* ... a message parked on it is released exactly once; nothing else is released */ \
__CPROVER_ensures((arg == (PP) && OLD((S)->p) == (PP) && OLD((S)->rd_ready)) ==> __CPROVER_was_freed(OLD(ST_HELD(PP)))) \
__CPROVER_ensures((arg == (PP) && OLD((S)->p) == (PP) && OLD((S)->rd_ready) && OLD(ST_HELD(PP)->m_body.ch_cap) != 0) ==> (__CPROVER_was_freed(OLD(ST_HELD(PP)->m_body.ch_buf)) && g_free_calls == OLD(g_free_calls) + 2)) \
__CPROVER_ensures((arg == (PP) && OLD((S)->p) == (PP) && OLD((S)->rd_ready) && OLD(ST_HELD(PP)->m_body.ch_cap) == 0) ==> g_free_calls == OLD(g_free_calls) + 1) \
__CPROVER_ensures((arg == (PP) && OLD((S)->p) == (PP) && !OLD((S)->rd_ready)) ==> (g_free_calls == OLD(g_free_calls) && !__CPROVER_was_freed(OLD(ST_HELD(PP))))) \
/* waiting operations are not lost, buffered messages stay (frame: the rings are not assignable), nothing is sent or completed */ \
__CPROVER_ensures(g_qa.n == OLD(g_qa.n) && g_qb.n == OLD(g_qb.n) && g_qa.head == OLD(g_qa.head) && g_qb.head == OLD(g_qb.head) && g_fin_calls == OLD(g_fin_calls) && g_pipe_send_calls == OLD(g_pipe_send_calls) && g_pipe_recv_calls == OLD(g_pipe_recv_calls) && g_pipe_close_calls == OLD(g_pipe_close_calls)) \
/* both aios of the pipe are stopped (no callback runs after this returns) */ \
__CPROVER_ensures(g_aio_stop_calls == 2 && g_aio_stop_a == &ST_P(V)->aio_send && g_aio_stop_b == &ST_P(V)->aio_recv) \
/* C15 */ \
__CPROVER_ensures(PX_POLL_INV(S)) \
COVER(arg == (PP) && OLD((S)->p) == (PP) && OLD((S)->rd_ready) && OLD((S)->wr_ready)) COVER(arg == (PP) && OLD((S)->p) == (PP) && OLD((S)->wr_ready) && (S)->wmq.lmq_cap == 2) COVER(arg == (PX) && OLD((S)->rd_ready)) COVER(arg == (PP) && OLD((S)->p) == NULL)
static void pair0_pipe_stop(void *arg)
PX_STOP_CONTRACT(0, g_s0, g_pp0, g_px0)
;
static void pair1_pipe_stop(void *arg)
PX_STOP_CONTRACT(1, g_s1, g_pp1, g_px1)
;

/* =====================================================================
 * *_pipe_close: both aios of the pipe are closed (pending transport operations abort); the socket is not touched
 * ===================================================================== */
#define PX_CLOSE_CONTRACT(V, S, PP, PX) \
__CPROVER_requires((arg == (PP) || arg == (PX)) && PX_SKEL(S, PP, PX)) \
__CPROVER_assigns(VP_PROTO_GHOST_LIST, g_aio_close_a, g_aio_close_b) \
__CPROVER_ensures(g_aio_close_calls == OLD(g_aio_close_calls) + 2 && g_aio_close_a == &ST_P(V)->aio_send && g_aio_close_b == &ST_P(V)->aio_recv) \
__CPROVER_ensures(g_fin_calls == OLD(g_fin_calls) && g_pipe_close_calls == OLD(g_pipe_close_calls) && g_pipe_send_calls == OLD(g_pipe_send_calls) && g_pipe_recv_calls == OLD(g_pipe_recv_calls) && g_qa.n == OLD(g_qa.n) && g_qb.n == OLD(g_qb.n) && g_pollr == OLD(g_pollr) && g_pollw == OLD(g_pollw))
static void pair0_pipe_close(void *arg)
PX_CLOSE_CONTRACT(0, g_s0, g_pp0, g_px0)
;
static void pair1_pipe_close(void *arg)
PX_CLOSE_CONTRACT(1, g_s1, g_pp1, g_px1)
;

/* =====================================================================
 * *_cancel (timeout / abort / stop of a waiting send or receive): the operation fails once with the given error,
 * a waiting sender's message stays with the caller; nothing else moves (C08 "none lost", C15)
 * g_which: 0 = first waiting receiver, 1 = last appended receiver, 2 = first waiting sender, 3 = last appended sender,
 *          4 = not waiting any more
 * ===================================================================== */
#define PX_CANCEL_CONTRACT(S, PP, PX) \
__CPROVER_requires(arg == (S) && aio == g_ca && PX_SKEL(S, PP, PX) && VP_NO_LOCK_HELD && VP_AIOQS_OK) \
__CPROVER_requires(g_which == 0 ? (g_qa.n >= 1 && g_qa.head == aio) : (g_which == 1 ? (g_qa.n >= 2 && g_qa.tail == aio && g_qa.head != aio) : (g_which == 2 ? (g_qb.n >= 1 && g_qb.head == aio) : (g_which == 3 ? (g_qb.n >= 2 && g_qb.tail == aio && g_qb.head != aio) : (g_which == 4 && !g_aio_active && VP_AIO_NOT_QUEUED(aio)))))) \
__CPROVER_requires(PX_POLL_INV(S)) \
__CPROVER_assigns(VP_PROTO_GHOST_LIST, VP_SYNC_GHOSTS) \
__CPROVER_ensures(VP_NO_LOCK_HELD && VP_AIOQS_OK) \
__CPROVER_ensures(g_which != 4 ==> (g_fin_calls == OLD(g_fin_calls) + 1 && g_fin_last == aio && g_fin_last_rv == (int) rv && g_fin_last_msg == OLD(aio->a_msg) && aio->a_msg == OLD(aio->a_msg))) \
__CPROVER_ensures(g_which <= 1 ==> (g_qa.n == OLD(g_qa.n) - 1 && g_qb.n == OLD(g_qb.n) && g_qb.head == OLD(g_qb.head))) \
__CPROVER_ensures((g_which == 2 || g_which == 3) ==> (g_qb.n == OLD(g_qb.n) - 1 && g_qa.n == OLD(g_qa.n) && g_qa.head == OLD(g_qa.head))) \
/* the last one leaves: the one in front keeps its place */ \
__CPROVER_ensures(g_which == 1 ==> g_qa.head == OLD(g_qa.head)) \
__CPROVER_ensures(g_which == 3 ==> g_qb.head == OLD(g_qb.head)) \
/* not waiting any more (already completed or handed on): nothing happens - single winner */ \
__CPROVER_ensures(g_which == 4 ==> (g_qa.n == OLD(g_qa.n) && g_qb.n == OLD(g_qb.n) && g_fin_calls == OLD(g_fin_calls))) \
__CPROVER_ensures(g_pipe_send_calls == OLD(g_pipe_send_calls) && g_pipe_close_calls == OLD(g_pipe_close_calls) && g_pipe_recv_calls == OLD(g_pipe_recv_calls)) \
__CPROVER_ensures(PX_POLL_INV(S))
static void pair0_cancel(nni_aio *aio, void *arg, nng_err rv)
PX_CANCEL_CONTRACT(g_s0, g_pp0, g_px0)
;
static void pair1_cancel(nni_aio *aio, void *arg, nng_err rv)
PX_CANCEL_CONTRACT(g_s1, g_pp1, g_px1)
;

/* =====================================================================
 * Second contract for nni_lmq_resize: the text of modules/lmq/contracts.h (C18; verified there by unit lmq_resize)
 * plus ONE clause needed when the contract replaces the call (a replaced contract with a frees clause may
 * deallocate nondeterministically): on failure the ring array is still allocated.  Verified against the real
 * function by unit lmq_resize_keeps_ring of THIS module (loop invariants = those of modules/lmq).  Same text as
 * vp_push_lmq_resize of modules/push.
 * ===================================================================== */
int vp_px_lmq_resize(nni_lmq *lmq, size_t cap)
__CPROVER_requires(LMQ_SHAPE_PRE(lmq) && LMQ_WF_SCALAR(lmq))
__CPROVER_requires(cap <= LMQ_MAXALLOC)
__CPROVER_assigns(*lmq, g_msg_freed, g_msg_freed_at_j, g_free_calls, g_alloc_ok)
__CPROVER_frees(lmq->lmq_alloc > 0: lmq->lmq_msgs)
/* ADDED here (first, so that it is assumed before the clauses that read the old array): a failed resize keeps the ring array (the frees clause is not exercised) */
__CPROVER_ensures((__CPROVER_return_value != 0 && __CPROVER_old(lmq->lmq_alloc) > 0) ==> !__CPROVER_was_freed(__CPROVER_old(lmq->lmq_msgs)))
__CPROVER_ensures(__CPROVER_return_value == 0 || __CPROVER_return_value == NNG_ENOMEM)
__CPROVER_ensures(LMQ_WF_SCALAR(lmq))
__CPROVER_ensures(__CPROVER_return_value == 0 ==> __CPROVER_is_fresh(lmq->lmq_msgs, lmq->lmq_alloc * sizeof(nng_msg *)))
/* failure: nothing changed, nothing released */
__CPROVER_ensures(__CPROVER_return_value != 0 ==> (LMQ_UNCHANGED_GEOM(lmq) && lmq->lmq_len == __CPROVER_old(lmq->lmq_len) && lmq->lmq_get == __CPROVER_old(lmq->lmq_get) && lmq->lmq_put == __CPROVER_old(lmq->lmq_put) && g_msg_freed == __CPROVER_old(g_msg_freed)))
__CPROVER_ensures((__CPROVER_return_value != 0 && g_k < lmq->lmq_len) ==> LMQ_VIEW(lmq, g_k) == __CPROVER_old(LMQ_VIEW(lmq, g_k)))
/* success: new depth, the oldest min(len,cap) survive in order ... */
__CPROVER_ensures(__CPROVER_return_value == 0 ==> (lmq->lmq_cap == cap && lmq->lmq_alloc >= 2 && lmq->lmq_alloc >= cap))
__CPROVER_ensures(__CPROVER_return_value == 0 ==> lmq->lmq_len == VP_MIN(__CPROVER_old(lmq->lmq_len), cap))
__CPROVER_ensures((__CPROVER_return_value == 0 && g_k < lmq->lmq_len) ==> LMQ_VIEW(lmq, g_k) == __CPROVER_old(LMQ_VIEW(lmq, g_k)))
/* ... and only what no longer fits is discarded, whole, once each, from the tail end */
__CPROVER_ensures(__CPROVER_return_value == 0 ==> g_msg_freed == __CPROVER_old(g_msg_freed) + (__CPROVER_old(lmq->lmq_len) - lmq->lmq_len))
__CPROVER_ensures((__CPROVER_return_value == 0 && g_j >= __CPROVER_old(g_msg_freed) && g_j < g_msg_freed) ==> g_msg_freed_at_j == __CPROVER_old(LMQ_VIEW(lmq, cap + (g_j - g_msg_freed))))
/* failure allocates nothing; success allocates exactly the new array */
__CPROVER_ensures(g_alloc_ok == __CPROVER_old(g_alloc_ok) + (__CPROVER_return_value == 0 ? 1 : 0))
__CPROVER_ensures(__CPROVER_return_value != 0 ==> g_free_calls == __CPROVER_old(g_free_calls))
/* old heap array released exactly when there was one */
__CPROVER_ensures(__CPROVER_return_value == 0 ==> (g_free_calls == __CPROVER_old(g_free_calls) + (__CPROVER_old(lmq->lmq_alloc) > 0 ? 1 : 0)))
;

/* =====================================================================
 * *_set_send_buf_len / *_set_recv_buf_len (NNG_OPT_SENDBUF / NNG_OPT_RECVBUF, 0..8192; the real nni_copyin_int of
 * src/core/options.c runs).  nni_lmq_resize is REPLACED by vp_px_lmq_resize; the messages a shrink discards are
 * counted by that contract's ghost g_msg_freed.
 *   C18: the surviving messages keep their relative order, only whole messages are discarded, from the tail end,
 *        and only as many as no longer fit;
 *   C08: waiting senders are admitted into new room, oldest first, BEHIND what is already buffered, so that a
 *        later send cannot overtake them (stable state kept); a message parked on the pipe stays parked (not lost);
 *   C15: PX_POLL_INV kept - in particular a message parked on the pipe keeps the socket readable when the resize
 *        empties the receive buffer, and a ready peer keeps it writable when the send buffer shrinks to "full".
 * ===================================================================== */
#define SB_VAL (*(const int *) buf)
#define SB_OKARG (t == NNI_TYPE_INT32 && SB_VAL >= 0 && SB_VAL <= 8192)
#define SB_OK (SB_OKARG && RV == 0)
#define SB_L1(q) VP_MIN(OLD((q)->lmq_len), (q)->lmq_cap)      /* buffered messages that survive */
#define SB_K(q) VP_MIN(OLD(g_qb.n), (q)->lmq_cap - SB_L1(q))  /* waiting senders admitted */
#define PX_SETBUF_COMMON(S, PP, PX, Q) \
__CPROVER_requires(arg == (S) && PX_SKEL(S, PP, PX) && VP_NO_LOCK_HELD) \
__CPROVER_requires(t == NNI_TYPE_INT32 ==> __CPROVER_is_fresh(buf, sizeof(int))) \
__CPROVER_requires(PX_LMQ_PRE(WQ(S)) && PX_LMQ_PRE(RQ(S))) \
__CPROVER_requires(PX_POLL_INV(S) && PX_STABLE(S)) \
__CPROVER_requires(g_k < (Q)->lmq_len ==> g_p == (void *) LMQ_VIEW(Q, g_k)) \
__CPROVER_assigns(*(Q), VP_PROTO_GHOST_LIST, VP_SYNC_GHOSTS, g_free_calls, g_alloc_ok, g_msg_freed, g_msg_freed_at_j) \
__CPROVER_assigns((Q)->lmq_alloc != 0: __CPROVER_object_whole((Q)->lmq_msgs)) \
__CPROVER_frees((Q)->lmq_alloc != 0: (Q)->lmq_msgs) \
__CPROVER_ensures(VP_NO_LOCK_HELD && VP_AIOQS_OK && LMQ_WF_SCALAR(Q)) \
__CPROVER_ensures(t != NNI_TYPE_INT32 ==> RV == NNG_EBADTYPE) \
__CPROVER_ensures((t == NNI_TYPE_INT32 && !SB_OKARG) ==> RV == NNG_EINVAL) \
__CPROVER_ensures(SB_OKARG ==> (RV == NNG_OK || RV == NNG_ENOMEM)) \
/* refused value: nothing at all happens */ \
__CPROVER_ensures(!SB_OKARG ==> (VP_HEAP_DELTA(0, 0) && g_msg_freed == OLD(g_msg_freed) && (Q)->lmq_cap == OLD((Q)->lmq_cap) && (Q)->lmq_len == OLD((Q)->lmq_len) && g_qa.n == OLD(g_qa.n) && g_qb.n == OLD(g_qb.n) && g_fin_calls == OLD(g_fin_calls) && g_pollw == OLD(g_pollw) && g_pollr == OLD(g_pollr))) \
/* no memory: depth, content and order unchanged, nothing released */ \
__CPROVER_ensures((SB_OKARG && RV != 0) ==> ((Q)->lmq_cap == OLD((Q)->lmq_cap) && VP_HEAP_DELTA(0, 0) && g_msg_freed == OLD(g_msg_freed))) \
/* accepted: new depth */ \
__CPROVER_ensures(SB_OK ==> (Q)->lmq_cap == (size_t) SB_VAL) \
/* C18: the oldest min(len, depth) buffered messages survive in order ... */ \
__CPROVER_ensures((SB_OKARG && g_k < SB_L1(Q)) ==> LMQ_VIEW(Q, g_k) == (nni_msg *) g_p) \
/* ... only whole messages that no longer fit are discarded, each exactly once (counted by the lmq contract) */ \
__CPROVER_ensures(SB_OKARG ==> g_msg_freed == OLD(g_msg_freed) + (OLD((Q)->lmq_len) - SB_L1(Q))) \
/* nothing is sent or received, nobody disconnected, timeouts not consulted, the peer and its flags stay */ \
__CPROVER_ensures(g_pipe_send_calls == OLD(g_pipe_send_calls) && g_pipe_recv_calls == OLD(g_pipe_recv_calls) && g_pipe_close_calls == OLD(g_pipe_close_calls) && g_start_calls == OLD(g_start_calls)) \
/* C15 + stable state */ \
__CPROVER_ensures(PX_POLL_INV(S) && PX_STABLE(S))

/* constant case split on the number of waiting senders (one unit per case, -DPX_SB_WAITERS=k), else 0..PX_SB_MAXWAIT */
#ifdef PX_SB_WAITERS
#define PX_SB_WAITERS_OK (g_qb.n == PX_SB_WAITERS)
#else
#define PX_SB_WAITERS_OK (g_qb.n <= PX_SB_MAXWAIT)
#endif
#define PX_SET_SENDBUF_CONTRACT(S, PP, PX, MSGOK) \
__CPROVER_requires(VP_AIOQS_PRE && PX_SB_WAITERS_OK) \
__CPROVER_requires(PX_WAITER_PRE(MSGOK)) \
PX_SETBUF_COMMON(S, PP, PX, WQ(S)) \
__CPROVER_assigns(g_qb.n > 0: g_qb.head->a_msg) \
/* waiting senders fill the room behind the survivors, oldest first: each admitted sender completes with success and no longer owns its message */ \
__CPROVER_ensures(SB_OKARG ==> ((S)->wmq.lmq_len == SB_L1(WQ(S)) + SB_K(WQ(S)) && g_qb.n == OLD(g_qb.n) - SB_K(WQ(S)) && g_fin_calls == OLD(g_fin_calls) + SB_K(WQ(S)))) \
__CPROVER_ensures((SB_OKARG && SB_K(WQ(S)) > 0) ==> (LMQ_VIEW(WQ(S), SB_L1(WQ(S))) == (nni_msg *) g_p2 && OLD(g_qb.head)->a_msg == NULL && g_fin_last_rv == 0 && g_fin_last_msg == NULL && (SB_K(WQ(S)) == 1 ==> (g_fin_last == OLD(g_qb.head) && g_fin_last_count == g_n2)))) \
/* receivers untouched */ \
__CPROVER_ensures(g_qa.n == OLD(g_qa.n)) \
COVER(SB_OK && SB_K(WQ(S)) == 2 && SB_L1(WQ(S)) == 1) COVER(SB_OK && OLD((S)->wmq.lmq_len) == 4 && (S)->wmq.lmq_cap == 2) COVER(SB_OKARG && RV != 0 && OLD(g_qb.n) == 2) COVER(SB_OK && (S)->wmq.lmq_cap == 8192 && OLD((S)->wmq.lmq_alloc) == 0) COVER(SB_OK && (S)->wmq.lmq_cap == 0 && OLD((S)->wmq.lmq_len) == 1 && (S)->wr_ready == 0 && (S)->p != NULL)
static nng_err pair0_set_send_buf_len(void *arg, const void *buf, size_t sz, nni_type t)
PX_SET_SENDBUF_CONTRACT(g_s0, g_pp0, g_px0, PX_MSG_OK)
;
static nng_err pair1_set_send_buf_len(void *arg, const void *buf, size_t sz, nni_type t)
PX_SET_SENDBUF_CONTRACT(g_s1, g_pp1, g_px1, PX1_MSG_OK)
;
#define PX_SET_RECVBUF_CONTRACT(S, PP, PX) \
__CPROVER_requires(VP_AIOQS_OK) \
PX_SETBUF_COMMON(S, PP, PX, RQ(S)) \
__CPROVER_ensures(SB_OKARG ==> (S)->rmq.lmq_len == SB_L1(RQ(S))) \
/* waiting operations and a message parked on the pipe are not touched (frame: rd_ready and the pipe's aio are not assignable) */ \
__CPROVER_ensures(g_qa.n == OLD(g_qa.n) && g_qb.n == OLD(g_qb.n) && g_fin_calls == OLD(g_fin_calls)) \
COVER(SB_OK && (S)->rd_ready && OLD((S)->rmq.lmq_len) == 2 && (S)->rmq.lmq_cap == 0) COVER(SB_OK && !(S)->rd_ready && OLD((S)->rmq.lmq_len) == 3 && (S)->rmq.lmq_cap == 0) COVER(SB_OK && (S)->rd_ready && OLD((S)->rmq.lmq_cap) == 0 && (S)->rmq.lmq_cap == 5) COVER(SB_OKARG && RV != 0 && g_qa.n == 2)
static nng_err pair0_set_recv_buf_len(void *arg, const void *buf, size_t sz, nni_type t)
PX_SET_RECVBUF_CONTRACT(g_s0, g_pp0, g_px0)
;
static nng_err pair1_set_recv_buf_len(void *arg, const void *buf, size_t sz, nni_type t)
PX_SET_RECVBUF_CONTRACT(g_s1, g_pp1, g_px1)
;
/* getters: the configured depth, nothing changes */
#define PX_GETBUF_CONTRACT(S, PP, PX, Q) \
__CPROVER_requires(arg == (S) && PX_SKEL(S, PP, PX) && VP_NO_LOCK_HELD) \
__CPROVER_requires(t == NNI_TYPE_INT32 ==> __CPROVER_is_fresh(buf, sizeof(int))) \
__CPROVER_requires((Q)->lmq_cap <= 8192) \
__CPROVER_assigns(VP_SYNC_GHOSTS) \
__CPROVER_assigns(t == NNI_TYPE_INT32: *(int *) buf) \
__CPROVER_ensures(VP_NO_LOCK_HELD) \
__CPROVER_ensures(t != NNI_TYPE_INT32 ==> RV == NNG_EBADTYPE) \
__CPROVER_ensures(t == NNI_TYPE_INT32 ==> (RV == NNG_OK && *(int *) buf == (int) (Q)->lmq_cap))
static nng_err pair0_get_send_buf_len(void *arg, void *buf, size_t *szp, nni_opt_type t)
PX_GETBUF_CONTRACT(g_s0, g_pp0, g_px0, WQ(g_s0))
;
static nng_err pair0_get_recv_buf_len(void *arg, void *buf, size_t *szp, nni_opt_type t)
PX_GETBUF_CONTRACT(g_s0, g_pp0, g_px0, RQ(g_s0))
;
static nng_err pair1_get_send_buf_len(void *arg, void *buf, size_t *szp, nni_opt_type t)
PX_GETBUF_CONTRACT(g_s1, g_pp1, g_px1, WQ(g_s1))
;
static nng_err pair1_get_recv_buf_len(void *arg, void *buf, size_t *szp, nni_opt_type t)
PX_GETBUF_CONTRACT(g_s1, g_pp1, g_px1, RQ(g_s1))
;

/* =====================================================================
 * ASSUMED accounting contract for nni_msg_free where whole buffers are drained (*_sock_close, *_sock_fini): counts
 * the release and records the g_j-th released pointer (the model of modules/lmq/env.h).  The real nni_msg_free is
 * verified against its own contract in modules/message.
 * ===================================================================== */
void vp_px_msg_free(nni_msg *m)
__CPROVER_assigns(g_msg_freed, g_msg_freed_at_j)
__CPROVER_ensures(g_msg_freed == OLD(g_msg_freed) + 1)
__CPROVER_ensures(g_j == OLD(g_msg_freed) ? g_msg_freed_at_j == (void *) m : g_msg_freed_at_j == OLD(g_msg_freed_at_j))
;

/* =====================================================================
 * *_sock_close: every waiting operation fails ONCE with NNG_ECLOSED (a waiting sender keeps its message: the caller's);
 * every buffered message is released exactly once, receive buffer first, each oldest first (C03: no leak, no double
 * release); nothing is sent; the peer is not touched
 * ===================================================================== */
#define SC_NW (OLD(g_qa.n) + OLD(g_qb.n))
#define SC_R0(S) OLD((S)->rmq.lmq_len)
#define SC_W0(S) OLD((S)->wmq.lmq_len)
/* constant case split on the numbers of waiting receivers / senders (-DPX_SC_NA=a -DPX_SC_NB=b), else 0..PX_MAXWAIT each */
#ifdef PX_SC_NA
#define PX_SC_WAITERS_OK (g_qa.n == PX_SC_NA && g_qb.n == PX_SC_NB)
#else
#define PX_SC_WAITERS_OK (g_qa.n <= PX_MAXWAIT && g_qb.n <= PX_MAXWAIT)
#endif
#define PX_SOCK_CLOSE_CONTRACT(S, PP, PX) \
__CPROVER_requires(arg == (S) && PX_SKEL(S, PP, PX) && VP_NO_LOCK_HELD) \
__CPROVER_requires(VP_AIOQS_PRE && PX_SC_WAITERS_OK) \
__CPROVER_requires(g_qb.n == 0 || g_p2 == (void *) g_qb.head->a_msg) \
__CPROVER_requires(PX_LMQ_PRE(WQ(S)) && PX_LMQ_PRE(RQ(S))) \
__CPROVER_requires(g_k < (S)->rmq.lmq_len ==> g_p == (void *) LMQ_VIEW(RQ(S), g_k)) \
__CPROVER_requires(g_hk < (S)->wmq.lmq_len ==> g_p3 == (void *) LMQ_VIEW(WQ(S), g_hk)) \
__CPROVER_assigns(VP_PROTO_GHOST_LIST, VP_SYNC_GHOSTS, g_msg_freed, g_msg_freed_at_j) \
__CPROVER_assigns((S)->rmq.lmq_get, (S)->rmq.lmq_len, (S)->wmq.lmq_get, (S)->wmq.lmq_len) \
__CPROVER_ensures(VP_NO_LOCK_HELD && VP_AIOQS_OK && g_qa.n == 0 && g_qb.n == 0) \
__CPROVER_ensures(g_fin_calls == OLD(g_fin_calls) + SC_NW && (SC_NW > 0 ==> (g_fin_last_rv == NNG_ECLOSED && g_fin_last_count == 0))) \
__CPROVER_ensures(OLD(g_qb.n) > 0 ==> OLD(g_qb.head)->a_msg == (nni_msg *) g_p2) \
__CPROVER_ensures((S)->rmq.lmq_len == 0 && (S)->wmq.lmq_len == 0 && LMQ_WF_SCALAR(RQ(S)) && LMQ_WF_SCALAR(WQ(S))) \
__CPROVER_ensures(g_msg_freed == OLD(g_msg_freed) + SC_R0(S) + SC_W0(S)) \
__CPROVER_ensures((g_j >= OLD(g_msg_freed) && g_j < OLD(g_msg_freed) + SC_R0(S) && g_k == g_j - OLD(g_msg_freed)) ==> g_msg_freed_at_j == g_p) \
__CPROVER_ensures((g_j >= OLD(g_msg_freed) + SC_R0(S) && g_j < g_msg_freed && g_hk == g_j - OLD(g_msg_freed) - SC_R0(S)) ==> g_msg_freed_at_j == g_p3) \
__CPROVER_ensures(g_pipe_send_calls == OLD(g_pipe_send_calls) && g_pipe_close_calls == OLD(g_pipe_close_calls) && g_pipe_recv_calls == OLD(g_pipe_recv_calls) && g_start_calls == OLD(g_start_calls))
static void pair0_sock_close(void *arg)
PX_SOCK_CLOSE_CONTRACT(g_s0, g_pp0, g_px0)
;
static void pair1_sock_close(void *arg)
PX_SOCK_CLOSE_CONTRACT(g_s1, g_pp1, g_px1)
;

/* =====================================================================
 * life cycle.  *_sock_init: the initial state (unbuffered both ways, no peer, nothing ready) is the base case of
 * PX_POLL_INV / PX_STABLE (descriptors start lowered: nni_pollable_init; the structure is zero-filled by
 * nni_sock_create).  *_sock_fini: both rings released (what is still buffered is released exactly once).
 * ===================================================================== */
#define SI_S(V) ((struct pair##V##_sock *) arg)
#define PX_SOCK_INIT_CONTRACT(V) \
__CPROVER_requires(arg == g_s##V && VP_NO_LOCK_HELD) \
__CPROVER_requires(SI_S(V)->p == NULL && !SI_S(V)->rd_ready && !SI_S(V)->wr_ready && !g_pollr && !g_pollw && g_qa.n == 0 && g_qb.n == 0) \
__CPROVER_requires(g_pollr_addr == &SI_S(V)->readable && g_pollw_addr == &SI_S(V)->writable) \
__CPROVER_assigns(*g_s##V) \
__CPROVER_ensures(VP_NO_LOCK_HELD && SI_S(V)->p == NULL) \
__CPROVER_ensures(LMQ_WF_SCALAR(WQ(SI_S(V))) && SI_S(V)->wmq.lmq_cap == 0 && SI_S(V)->wmq.lmq_len == 0 && SI_S(V)->wmq.lmq_alloc == 0 && SI_S(V)->wmq.lmq_msgs == &SI_S(V)->wmq.lmq_buf[0]) \
__CPROVER_ensures(LMQ_WF_SCALAR(RQ(SI_S(V))) && SI_S(V)->rmq.lmq_cap == 0 && SI_S(V)->rmq.lmq_len == 0 && SI_S(V)->rmq.lmq_alloc == 0 && SI_S(V)->rmq.lmq_msgs == &SI_S(V)->rmq.lmq_buf[0]) \
__CPROVER_ensures(PX_POLL_INV(SI_S(V)) && PX_STABLE(SI_S(V)))
static void pair0_sock_init(void *arg, nni_sock *sock)
PX_SOCK_INIT_CONTRACT(0)
;
static void pair1_sock_init(void *arg, nni_sock *sock)
PX_SOCK_INIT_CONTRACT(1)
__CPROVER_ensures(SI_S(1)->sock == sock && !SI_S(1)->raw && SI_S(1)->ttl.v == 8)
;
static void pair1_sock_init_raw(void *arg, nni_sock *sock)
PX_SOCK_INIT_CONTRACT(1)
__CPROVER_ensures(SI_S(1)->sock == sock && SI_S(1)->raw && SI_S(1)->ttl.v == 8)
;
#define PX_SOCK_FINI_CONTRACT(S, PP, PX) \
__CPROVER_requires(arg == (S) && PX_SKEL(S, PP, PX) && VP_NO_LOCK_HELD) \
__CPROVER_requires(PX_LMQ_PRE(WQ(S)) && PX_LMQ_PRE(RQ(S))) \
__CPROVER_assigns((S)->rmq.lmq_get, (S)->rmq.lmq_len, (S)->wmq.lmq_get, (S)->wmq.lmq_len, g_msg_freed, g_msg_freed_at_j, g_free_calls) \
__CPROVER_frees((S)->rmq.lmq_alloc > 0: (S)->rmq.lmq_msgs; (S)->wmq.lmq_alloc > 0: (S)->wmq.lmq_msgs) \
__CPROVER_ensures(g_msg_freed == OLD(g_msg_freed) + OLD((S)->rmq.lmq_len) + OLD((S)->wmq.lmq_len)) \
__CPROVER_ensures(g_free_calls == OLD(g_free_calls) + (OLD((S)->rmq.lmq_alloc) > 0 ? 1 : 0) + (OLD((S)->wmq.lmq_alloc) > 0 ? 1 : 0)) \
__CPROVER_ensures(OLD((S)->rmq.lmq_alloc) > 0 ==> __CPROVER_was_freed(OLD((S)->rmq.lmq_msgs))) \
__CPROVER_ensures(OLD((S)->wmq.lmq_alloc) > 0 ==> __CPROVER_was_freed(OLD((S)->wmq.lmq_msgs)))
static void pair0_sock_fini(void *arg)
PX_SOCK_FINI_CONTRACT(g_s0, g_pp0, g_px0)
;
static void pair1_sock_fini(void *arg)
PX_SOCK_FINI_CONTRACT(g_s1, g_pp1, g_px1)
;
#define PI_P(V) ((struct pair##V##_pipe *) arg)
#define PX_PIPE_INIT_CONTRACT(V) \
__CPROVER_requires(__CPROVER_is_fresh(arg, sizeof(struct pair##V##_pipe))) \
__CPROVER_assigns(PI_P(V)->pipe, PI_P(V)->pair, g_aio_init_calls, g_aio_init_a, g_aio_init_b, g_aio_init_cb_a, g_aio_init_cb_b, g_aio_init_arg_a, g_aio_init_arg_b) \
__CPROVER_ensures(RV == 0 && PI_P(V)->pipe == pipe && (void *) PI_P(V)->pair == pair) \
__CPROVER_ensures(g_aio_init_calls == 2 && g_aio_init_a == &PI_P(V)->aio_send && g_aio_init_cb_a == pair##V##_pipe_send_cb && g_aio_init_arg_a == arg && g_aio_init_b == &PI_P(V)->aio_recv && g_aio_init_cb_b == pair##V##_pipe_recv_cb && g_aio_init_arg_b == arg)
static int pair0_pipe_init(void *arg, nni_pipe *pipe, void *pair)
PX_PIPE_INIT_CONTRACT(0)
;
static int pair1_pipe_init(void *arg, nni_pipe *pipe, void *pair)
PX_PIPE_INIT_CONTRACT(1)
;
#define PX_PIPE_FINI_CONTRACT(V) \
__CPROVER_requires(__CPROVER_is_fresh(arg, sizeof(struct pair##V##_pipe))) \
__CPROVER_assigns(g_aio_fini_calls, g_aio_fini_a, g_aio_fini_b) \
__CPROVER_ensures(g_aio_fini_calls == 2 && g_aio_fini_a == &PI_P(V)->aio_send && g_aio_fini_b == &PI_P(V)->aio_recv)
static void pair0_pipe_fini(void *arg)
PX_PIPE_FINI_CONTRACT(0)
;
static void pair1_pipe_fini(void *arg)
PX_PIPE_FINI_CONTRACT(1)
;

/* =====================================================================
 * NNG_OPT_MAXTTL (PAIRv1, C08 "discards ... messages whose count exceeds NNG_OPT_MAXTTL"): only 1..NNI_MAX_MAX_TTL is
 * accepted; a refused value leaves the limit as it was (so the range the receive callback relies on is an invariant)
 * ===================================================================== */
#define TTL_S ((struct pair1_sock *) arg)
static nng_err pair1_sock_set_max_ttl(void *arg, const void *buf, size_t sz, nni_opt_type t)
__CPROVER_requires(__CPROVER_is_fresh(arg, sizeof(struct pair1_sock)))
__CPROVER_requires(t == NNI_TYPE_INT32 ==> __CPROVER_is_fresh(buf, sizeof(int)))
__CPROVER_requires(TTL_S->ttl.v >= 1 && TTL_S->ttl.v <= NNI_MAX_MAX_TTL)
__CPROVER_assigns(TTL_S->ttl)
__CPROVER_ensures(t != NNI_TYPE_INT32 ==> (RV == NNG_EBADTYPE && TTL_S->ttl.v == OLD(TTL_S->ttl.v)))
__CPROVER_ensures((t == NNI_TYPE_INT32 && (SB_VAL < 1 || SB_VAL > NNI_MAX_MAX_TTL)) ==> (RV == NNG_EINVAL && TTL_S->ttl.v == OLD(TTL_S->ttl.v)))
__CPROVER_ensures((t == NNI_TYPE_INT32 && SB_VAL >= 1 && SB_VAL <= NNI_MAX_MAX_TTL) ==> (RV == NNG_OK && TTL_S->ttl.v == SB_VAL))
__CPROVER_ensures(TTL_S->ttl.v >= 1 && TTL_S->ttl.v <= NNI_MAX_MAX_TTL)
;
static nng_err pair1_sock_get_max_ttl(void *arg, void *buf, size_t *szp, nni_opt_type t)
__CPROVER_requires(__CPROVER_is_fresh(arg, sizeof(struct pair1_sock)))
__CPROVER_requires(t == NNI_TYPE_INT32 ==> __CPROVER_is_fresh(buf, sizeof(int)))
__CPROVER_assigns(t == NNI_TYPE_INT32: *(int *) buf)
__CPROVER_ensures(t != NNI_TYPE_INT32 ==> RV == NNG_EBADTYPE)
__CPROVER_ensures(t == NNI_TYPE_INT32 ==> (RV == NNG_OK && *(int *) buf == TTL_S->ttl.v))
;

/* =====================================================================
 * poll descriptors (C15): the receive descriptor is the one of the "readable" pollable, the send descriptor the one
 * of the "writable" pollable (not swapped); asking for it never changes the raised state; an error is passed on
 * ===================================================================== */
#define PX_GETFD_CONTRACT(S, PP, PX, POLLABLE) \
__CPROVER_requires(arg == (S) && PX_SKEL(S, PP, PX)) \
__CPROVER_requires(__CPROVER_is_fresh(fdp, sizeof(int))) \
__CPROVER_assigns(*fdp, g_getfd_calls, g_getfd_last) \
__CPROVER_ensures(g_getfd_calls == 1 && g_getfd_last == &(S)->POLLABLE && (int) RV == g_getfd_rv) \
__CPROVER_ensures(RV == 0 ==> *fdp == g_getfd_fd)
static nng_err pair0_sock_get_recv_fd(void *arg, int *fdp)
PX_GETFD_CONTRACT(g_s0, g_pp0, g_px0, readable)
;
static nng_err pair0_sock_get_send_fd(void *arg, int *fdp)
PX_GETFD_CONTRACT(g_s0, g_pp0, g_px0, writable)
;
static nng_err pair1_sock_get_recv_fd(void *arg, int *fdp)
PX_GETFD_CONTRACT(g_s1, g_pp1, g_px1, readable)
;
static nng_err pair1_sock_get_send_fd(void *arg, int *fdp)
PX_GETFD_CONTRACT(g_s1, g_pp1, g_px1, writable)
;
/* clang-format on */
#endif
