/* included BEFORE the real sources of the pairx TU (pair0/pair.c + pair1/pair.c, the callbacks not covered by
 * modules/pair0 and modules/pair1) */
#define VP_PROTO_GHOSTS 1
#include "include/env_proto.h"
#include "modules/message/spec.h"
#include "modules/lmq/spec.h"
#include "modules/pairx/spec.h"
#include "modules/pairx/ghost.h"
