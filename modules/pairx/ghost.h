/* Ghost names of the harness-built object skeleton (declared before the real sources; no code).
 * V = 0 (pair0/pair.c) or 1 (pair1/pair.c): the two files have the same shape and the same field names. */
#ifndef VP_PAIRX_GHOST_H
#define VP_PAIRX_GHOST_H
struct pair0_sock; struct pair0_pipe; struct pair1_sock; struct pair1_pipe;
struct pair0_sock *g_s0;  /* the PAIRv0 socket */
struct pair0_pipe *g_pp0; /* the pipe that is attached when g_s0->p != NULL */
struct pair0_pipe *g_px0; /* another pipe of the same socket that is NOT attached (refused / already detached) */
struct pair1_sock *g_s1;
struct pair1_pipe *g_pp1;
struct pair1_pipe *g_px1;
nni_msg *g_hm;            /* the real message object in the slot of the send buffer's oldest message (harness-built) */
nni_aio *g_ca;            /* *_cancel: the aio being cancelled */
int      g_which;         /* *_cancel: which aio is cancelled (see contract) */
size_t   g_held0;         /* ghost equation: PRE-state value of the conservation counter PX_HELD */
size_t   g_n2;            /* ghost scalar: length of the first waiting sender's message */
/* life cycle of the two per-pipe aios + descriptor getter: ghost records (modules/pairx/env.h) */
size_t   g_aio_init_calls, g_aio_stop_calls, g_aio_fini_calls;
nni_aio *g_aio_init_a, *g_aio_init_b, *g_aio_stop_a, *g_aio_stop_b, *g_aio_fini_a, *g_aio_fini_b, *g_aio_close_a, *g_aio_close_b;
nni_cb   g_aio_init_cb_a, g_aio_init_cb_b;
void    *g_aio_init_arg_a, *g_aio_init_arg_b;
int      g_getfd_rv, g_getfd_fd;
size_t   g_getfd_calls;
nni_pollable *g_getfd_last;
#endif
