#define VP_HAVOC_GHOSTS()                         \
	do {                                      \
		g_k = nondet_size_t(); g_j = nondet_size_t(); g_b = nondet_u8(); \
		g_hk = nondet_size_t(); g_u32 = nondet_u32(); g_hb = nondet_u8(); \
		g_free_calls = nondet_size_t(); g_alloc_ok = nondet_size_t(); g_alloc_fail = nondet_size_t(); \
		g_msg_freed = nondet_size_t(); g_msg_freed_at_j = NULL; \
		g_sent0 = nondet_size_t(); g_sent1 = nondet_size_t(); g_sent2 = nondet_size_t(); \
		g_aio_init_calls = 0; g_aio_init_a = NULL; g_aio_init_b = NULL; g_aio_init_cb_a = NULL; g_aio_init_cb_b = NULL; \
		g_aio_init_arg_a = NULL; g_aio_init_arg_b = NULL; g_aio_stop_a = NULL; g_aio_stop_b = NULL; g_aio_fini_a = NULL; g_aio_fini_b = NULL; \
		g_aio_stop_calls = nondet_size_t(); g_aio_fini_calls = nondet_size_t(); g_getfd_calls = nondet_size_t(); \
		g_poll_init_calls = nondet_size_t(); g_poll_fini_calls = nondet_size_t(); g_getfd_last = NULL; \
		g_getfd_rv = nondet_int(); g_getfd_fd = nondet_int(); g_which = nondet_int(); g_ca = NULL; \
		__CPROVER_assume(g_free_calls < ((size_t) 1 << 40) && g_alloc_ok < ((size_t) 1 << 40) && g_alloc_fail < ((size_t) 1 << 40) && g_msg_freed < ((size_t) 1 << 40)); \
		__CPROVER_assume(g_sent0 < ((size_t) 1 << 40) && g_sent1 < ((size_t) 1 << 40) && g_sent2 < ((size_t) 1 << 40)); \
		__CPROVER_assume(g_aio_stop_calls < ((size_t) 1 << 40) && g_aio_fini_calls < ((size_t) 1 << 40) && g_getfd_calls < ((size_t) 1 << 40)); \
		__CPROVER_assume(g_poll_init_calls < ((size_t) 1 << 40) && g_poll_fini_calls < ((size_t) 1 << 40)); \
		VP_HAVOC_PROTO(); VP_HAVOC_SYNC();    \
		/* "last seen" pointer records start as NULL (only ever compared); queue heads are made real by \
		 * VP_AIOQS_PRE or by the harness; an unknown tail is NULL (see VP_AIOQ_OK) */ \
		g_pipe_close_last = NULL; g_pipe_recv_pipe = NULL; g_pipe_recv_aio = NULL; g_pipe_send_pipe = NULL; \
		g_pipe_send_aio = NULL; g_pipe_send_msg = NULL; g_fin_last = NULL; g_fin_last_msg = NULL; g_start_last = NULL; \
		g_qa.head = NULL; g_qa.tail = NULL; g_qb.head = NULL; g_qb.tail = NULL; g_last_app = NULL; \
		g_qa_addr = NULL; g_qb_addr = NULL; g_pollr_addr = NULL; g_pollw_addr = NULL; \
	} while (0)
/* typed allocation of an object that always exists, contents nondeterministic */
#define VP_NEW(T) ((T *) __CPROVER_allocate(sizeof(T), 0))
/* a queued message: real structure, real body buffer of BUSX_QBODY bytes (its content plays no role
 * in these functions; the size matters only to the sized free) */
#define BUSX_QBODY 16
static nng_msg *vp_mk_qmsg(void)
{
	nng_msg *m       = VP_NEW(struct nng_msg);
	m->m_body.ch_cap = BUSX_QBODY;
	m->m_body.ch_buf = (uint8_t *) __CPROVER_allocate(BUSX_QBODY, 0);
	m->m_body.ch_ptr = m->m_body.ch_buf;
	return (m);
}
/* a heap ring of BUS_QSLOTS slots (BUSX_INLINE: the two-slot array inside the queue object), each holding a real message object */
static void vp_mk_ring(nni_lmq *q)
{
#ifdef BUSX_INLINE
	q->lmq_msgs    = &q->lmq_buf[0];
	q->lmq_msgs[0] = vp_mk_qmsg(); q->lmq_msgs[1] = vp_mk_qmsg();
#else
	q->lmq_msgs    = (nng_msg **) __CPROVER_allocate(BUS_QSLOTS * sizeof(nng_msg *), 0);
	q->lmq_msgs[0] = vp_mk_qmsg(); q->lmq_msgs[1] = vp_mk_qmsg();
	q->lmq_msgs[2] = vp_mk_qmsg(); q->lmq_msgs[3] = vp_mk_qmsg();
#endif
}
static bus0_pipe *vp_mk_pipe(bool on)
{
	bus0_pipe *p    = VP_NEW(bus0_pipe);
	p->bus          = g_s;
	p->pipe         = (nni_pipe *) VP_NEW(uint32_t); /* transport pipe handle: a cell holding its id */
	p->node.ln_next = NULL;
	p->node.ln_prev = NULL;
	vp_mk_ring(&p->send_queue);
	if (on) {
		real_list_append(&g_s->pipes, p); /* the real list code */
	}
	return (p);
}
#ifndef BUS_NPMIN
#define BUS_NPMIN 0
#endif
#ifndef BUS_NPMAX
#define BUS_NPMAX 3
#endif
static void vp_mk_bus(size_t np)
{
#if BUS_NPMIN == BUS_NPMAX
	np = BUS_NPMAX; /* a constant: the list shape is then concrete for symbolic execution */
#else
	__CPROVER_assume(np >= BUS_NPMIN && np <= BUS_NPMAX);
#endif
	g_np = np;
	g_s  = VP_NEW(bus0_sock);
	real_list_init_offset(&g_s->pipes, offsetof(bus0_pipe, node));
	g_s->recv_wait.ll_offset = VP_AIO_OFF; /* nni_aio_list_init */
	vp_mk_ring(&g_s->recv_msgs);
	g_bp0 = vp_mk_pipe(np > 0);
	g_bp1 = vp_mk_pipe(np > 1);
	g_bp2 = vp_mk_pipe(np > 2);
	g_qa_addr    = &g_s->recv_wait;
	g_pollr_addr = &g_s->can_recv;
	g_pollw_addr = &g_s->can_send;
}
void h_bus0_pipe_start(void)
{
	void *arg;
	VP_HAVOC_GHOSTS(); vp_mk_bus(nondet_size_t());
	__CPROVER_assume(g_np <= 2);
	arg = (g_np == 0 ? g_bp0 : (g_np == 1 ? g_bp1 : g_bp2)); /* the first unattached pipe */
	(void) bus0_pipe_start(arg);
	VP_CANARY();
}
void h_bus0_pipe_recv(void) { VP_HAVOC_GHOSTS(); vp_mk_bus(nondet_size_t()); bus0_pipe_recv(g_bp0); VP_CANARY(); }
void h_bus0_pipe_close(void)
{
	void *arg;
	VP_HAVOC_GHOSTS(); vp_mk_bus(nondet_size_t());
	/* case split over the pipe under contract (attached iff its number < g_np) */
#if !defined(BUSX_CLOSE_IDX) || BUSX_CLOSE_IDX == 0
	arg = g_bp0;
#elif BUSX_CLOSE_IDX == 1
	arg = g_bp1;
#else
	arg = g_bp2;
#endif
	bus0_pipe_close(arg);
	VP_CANARY();
}
void h_bus0_pipe_stop(void) { VP_HAVOC_GHOSTS(); vp_mk_bus(nondet_size_t()); bus0_pipe_stop(g_bp0); VP_CANARY(); }
void h_bus0_pipe_fini(void) { VP_HAVOC_GHOSTS(); vp_mk_bus(nondet_size_t()); bus0_pipe_fini(g_bp0); VP_CANARY(); }
void h_bus0_pipe_init(void)
{
	void *arg; nni_pipe *np;
	VP_HAVOC_GHOSTS(); vp_mk_bus(nondet_size_t());
	(void) bus0_pipe_init(arg, np, g_s);
	VP_CANARY();
}
void h_bus0_recv_cancel(void)
{
	nng_err rv;
	VP_HAVOC_GHOSTS(); vp_mk_bus(nondet_size_t());
	/* the wait list: members are real aio objects built here; the cancelled aio is the first waiter,
	 * the last appended one, or not on the list */
	g_ca       = VP_NEW(nni_aio);
	g_qa.head  = nondet_bool() ? g_ca : VP_NEW(nni_aio);
	g_qa.tail  = nondet_bool() ? NULL : (nondet_bool() ? g_ca : (nondet_bool() ? g_qa.head : VP_NEW(nni_aio)));
	g_last_app = nondet_bool() ? g_qa.tail : NULL;
	if (g_qa.n == 0) { g_qa.head = NULL; g_qa.tail = NULL; }
	bus0_recv_cancel(g_ca, g_s, rv);
	VP_CANARY();
}
void h_bus0_sock_close(void) { VP_HAVOC_GHOSTS(); vp_mk_bus(nondet_size_t()); bus0_sock_close(g_s); VP_CANARY(); }
/* a NEW socket object: every field unconstrained (not yet initialised); only the identities of its two pollables are bound */
static void vp_mk_rawsock(void) { g_s = VP_NEW(bus0_sock); g_pollr_addr = &g_s->can_recv; g_pollw_addr = &g_s->can_send; }
void h_bus0_sock_init(void) { nni_sock *ns; VP_HAVOC_GHOSTS(); vp_mk_rawsock(); bus0_sock_init(g_s, ns); VP_CANARY(); }
void h_bus0_sock_init_raw(void) { nni_sock *ns; VP_HAVOC_GHOSTS(); vp_mk_rawsock(); bus0_sock_init_raw(g_s, ns); VP_CANARY(); }
void h_bus0_sock_fini(void) { VP_HAVOC_GHOSTS(); vp_mk_bus(nondet_size_t()); bus0_sock_fini(g_s); VP_CANARY(); }
void h_bus0_sock_set_recv_buf_len(void)
{
	const void *buf; size_t sz; nni_type t;
	VP_HAVOC_GHOSTS(); vp_mk_bus(nondet_size_t());
	(void) bus0_sock_set_recv_buf_len(g_s, buf, sz, t);
	VP_CANARY();
}
void h_bus0_sock_get_recv_buf_len(void)
{
	void *buf; size_t *szp; nni_type t;
	VP_HAVOC_GHOSTS(); vp_mk_bus(nondet_size_t());
	(void) bus0_sock_get_recv_buf_len(g_s, buf, szp, t);
	VP_CANARY();
}
void h_bus0_sock_set_send_buf_len(void)
{
	const void *buf; size_t sz; nni_type t;
	VP_HAVOC_GHOSTS(); vp_mk_bus(nondet_size_t());
	(void) bus0_sock_set_send_buf_len(g_s, buf, sz, t);
	VP_CANARY();
}
void h_bus0_sock_get_send_buf_len(void)
{
	void *buf; size_t *szp; nni_type t;
	VP_HAVOC_GHOSTS(); vp_mk_bus(nondet_size_t());
	(void) bus0_sock_get_send_buf_len(g_s, buf, szp, t);
	VP_CANARY();
}
void h_bus0_sock_get_send_fd(void) { int *fdp; VP_HAVOC_GHOSTS(); vp_mk_bus(nondet_size_t()); (void) bus0_sock_get_send_fd(g_s, fdp); VP_CANARY(); }
void h_bus0_sock_get_recv_fd(void) { int *fdp; VP_HAVOC_GHOSTS(); vp_mk_bus(nondet_size_t()); (void) bus0_sock_get_recv_fd(g_s, fdp); VP_CANARY(); }
