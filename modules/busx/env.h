/* modules/busx/env.h -- additional environment models for the life-cycle / option units of
 * bus.c (ASSUMED, ghost accounting only); modules/bus/env.h supplies g_s, g_np, g_bp0..2. */
#ifndef VP_BUSX_ENV_H
#define VP_BUSX_ENV_H
/* aio life cycle of the two per-pipe aios: ghost records (first / second call) */
size_t   g_aio_init_calls, g_aio_stop_calls, g_aio_fini_calls;
nni_aio *g_aio_init_a, *g_aio_init_b;
nni_cb   g_aio_init_cb_a, g_aio_init_cb_b;
void    *g_aio_init_arg_a, *g_aio_init_arg_b;
nni_aio *g_aio_stop_a, *g_aio_stop_b; /* the last two aios stopped (b = most recent) */
nni_aio *g_aio_fini_a, *g_aio_fini_b; /* the last two aios finalised */
void
nni_aio_init(nni_aio *aio, nni_cb cb, void *arg)
{
	if (g_aio_init_calls == 0) {
		g_aio_init_a = aio; g_aio_init_cb_a = cb; g_aio_init_arg_a = arg;
	} else {
		g_aio_init_b = aio; g_aio_init_cb_b = cb; g_aio_init_arg_b = arg;
	}
	g_aio_init_calls++;
}
void nni_aio_stop(nni_aio *aio) { g_aio_stop_a = g_aio_stop_b; g_aio_stop_b = aio; g_aio_stop_calls++; }
void nni_aio_fini(nni_aio *aio) { g_aio_fini_a = g_aio_fini_b; g_aio_fini_b = aio; g_aio_fini_calls++; }

/* pollables: init lowers (src/core/pollable.c: p_raised = false, no descriptor yet); fini counted */
size_t g_poll_init_calls, g_poll_fini_calls;
void
nni_pollable_init(nni_pollable *p)
{
	g_poll_init_calls++;
	if (p == g_pollr_addr) g_pollr = false;
	if (p == g_pollw_addr) g_pollw = false;
}
void nni_pollable_fini(nni_pollable *p) { (void) p; g_poll_fini_calls++; }
/* descriptor of a pollable: may fail (pipe creation); never changes the raised state
 * (src/core/pollable.c: a descriptor created while raised is raised at once); records WHICH pollable */
int           g_getfd_rv, g_getfd_fd;
size_t        g_getfd_calls;
nni_pollable *g_getfd_last;
nng_err
nni_pollable_getfd(nni_pollable *p, int *fdp)
{
	__CPROVER_assert(p == g_pollr_addr || p == g_pollw_addr, "pollable of this socket");
	g_getfd_calls++;
	g_getfd_last = p;
	if (g_getfd_rv == 0) {
		*fdp = g_getfd_fd;
	}
	return ((nng_err) g_getfd_rv);
}
/* the aio under contract in bus0_recv_cancel and its position on the wait list */
nni_aio *g_ca;
int      g_which; /* 0: first waiter, 1: last appended waiter (not first), 2: not on the list */
#endif
