/* modules/busx/post.h -- variant of modules/bus/post.h (included AFTER the real sources).
 * Differences (needed by the life-cycle units): list/aio-list INITIALISATION always runs the real
 * list code (the dispatcher of modules/sub/lists_post.h inspects ll_offset, which is garbage in a
 * not yet initialised socket), nni_aio_list_init is what src/core/aio.c does (NNI_LIST_INIT on
 * a_prov_node), and nni_pollable_init/fini are recorded (env_proto.h has no-ops). */
#include "modules/sub/env_alloc.h"
#include "include/env_sync.h"
#define nni_list_first vp_aioq_first
#define nni_list_empty vp_aioq_empty
#define nni_pipe_id vp_proto_pipe_id
#define nni_pipe_send vp_proto_pipe_send
#define nni_aio_list_init vp_proto_aio_list_init
#define nni_pollable_init vp_proto_pollable_init
#define nni_pollable_fini vp_proto_pollable_fini
#define VP_PROTO_STUBS 1
#include "include/env_proto.h"
#undef nni_list_first
#undef nni_list_empty
#undef nni_pipe_id
#undef nni_pipe_send
#undef nni_aio_list_init
#undef nni_pollable_init
#undef nni_pollable_fini
#define nni_list_init_offset vp_disp_list_init_offset
#include "modules/sub/lists_post.h"
#undef nni_list_init_offset
void nni_list_init_offset(nni_list *l, size_t off) { real_list_init_offset(l, off); }
void nni_aio_list_init(nni_list *l) { real_list_init_offset(l, VP_AIO_OFF); } /* src/core/aio.c: NNI_LIST_INIT(list, nni_aio, a_prov_node) */
#include "modules/bus/env.h"
#include "modules/busx/env.h"
