/* Contracts for the life-cycle, cancel and option functions of src/sp/protocol/bus0/bus.c
 * (C09, C15, C02, C03).  The data-path callbacks are in modules/bus.
 * The object skeleton (socket, three pipes of which the first g_np are on the real pipe list, queue
 * rings with a real message in every slot) is BUILT by the harness and named by the ghosts of
 * modules/bus/env.h (g_s, g_bp0..g_bp2, g_np). */
#ifndef VP_BUSX_CONTRACTS_H
#define VP_BUSX_CONTRACTS_H
/* clang-format off */
#define FREED(p) __CPROVER_was_freed(p)
#define BUSX_MAXWAIT 3 /* bus0_sock_close: at most 3 waiting receivers (grade B) */
#define BX_PROTO_BUS 0x70 /* NNI_PROTO(7, 0): the only peer protocol a BUS socket talks to */
#define BX_HEAD (&g_s->pipes.ll_head)
#define BX_LIST_IS(n) VP_LIST3_IS(BX_HEAD, n, &g_bp0->node, &g_bp1->node, &g_bp2->node)
#define BX_SQ(p) (&(p)->send_queue)
#define BX_RQ (&g_s->recv_msgs)
#define BX_REF_OK(m) ((m)->m_refcnt.v >= 1 && (m)->m_refcnt.v <= 1000)
#define BX_SLOT(q, k) ((q)->lmq_msgs[k])
#define BX_SLOT_WR(q, k) BX_SLOT(q, k)->m_refcnt, BX_SLOT(q, k)->m_body
#define BX_SLOT_FREES(q, k) __CPROVER_frees(BX_SLOT(q, k), BX_SLOT(q, k)->m_body.ch_buf)
#ifdef BUSX_INLINE
/* queue shape variant (units *_inline): the two-slot array inside the queue object (what nni_lmq_init leaves
 * when the ring could not be allocated, or for a depth <= 2): nothing on the heap to release */
#define BX_LMQ_PRE(q) ((q)->lmq_alloc == 0 && LMQ_WF_SCALAR(q) && (q)->lmq_cap >= 1)
#define BX_SLOTS_REF_OK(q) (BX_REF_OK(BX_SLOT(q, 0)) && BX_REF_OK(BX_SLOT(q, 1)))
#define BX_SLOTS_WR(q) BX_SLOT_WR(q, 0), BX_SLOT_WR(q, 1)
#define BX_SLOTS_FREES(q) BX_SLOT_FREES(q, 0) BX_SLOT_FREES(q, 1)
#define BX_RING_FREES(q)
#define BX_NSLOTS 2
#define BX_OLD_RING_GONE(q) 1
#define BX_OLD_RING_STAYS(q) 1
#define BX_RING_RELEASED(q) ((q)->lmq_msgs == OLD((q)->lmq_msgs)) /* (a release of the inline array would trip the sized-free assertions of nni_free) */
#else
#define BX_LMQ_PRE(q) BUS_LMQ_PRE(q)
#define BX_SLOTS_REF_OK(q) (BX_REF_OK(BX_SLOT(q, 0)) && BX_REF_OK(BX_SLOT(q, 1)) && BX_REF_OK(BX_SLOT(q, 2)) && BX_REF_OK(BX_SLOT(q, 3)))
#define BX_SLOTS_WR(q) BX_SLOT_WR(q, 0), BX_SLOT_WR(q, 1), BX_SLOT_WR(q, 2), BX_SLOT_WR(q, 3)
#define BX_SLOTS_FREES(q) BX_SLOT_FREES(q, 0) BX_SLOT_FREES(q, 1) BX_SLOT_FREES(q, 2) BX_SLOT_FREES(q, 3)
#define BX_RING_FREES(q) __CPROVER_frees((q)->lmq_msgs)
#define BX_NSLOTS BUS_QSLOTS
#define BX_OLD_RING_GONE(q) FREED(OLD((q)->lmq_msgs))
#define BX_OLD_RING_STAYS(q) (!FREED(OLD((q)->lmq_msgs)))
#define BX_RING_RELEASED(q) FREED(OLD((q)->lmq_msgs))
#endif
/* one reference of message M (pre-state pointer expression) was released: destroyed when it was
 * the last one, else exactly one count less; KEPT: untouched */
#define BX_BODY_SAME(M) (OLD(M)->m_body.ch_len == OLD((M)->m_body.ch_len) && OLD(M)->m_body.ch_cap == OLD((M)->m_body.ch_cap) && OLD(M)->m_body.ch_buf == OLD((M)->m_body.ch_buf) && OLD(M)->m_body.ch_ptr == OLD((M)->m_body.ch_ptr))
#define BX_RELEASED(M) (OLD((M)->m_refcnt.v) == 1 ? FREED(OLD(M)) : (!FREED(OLD(M)) && OLD(M)->m_refcnt.v == OLD((M)->m_refcnt.v) - 1 && BX_BODY_SAME(M)))
#define BX_KEPT(M) (!FREED(OLD(M)) && OLD(M)->m_refcnt.v == OLD((M)->m_refcnt.v) && BX_BODY_SAME(M))
/* queue q was emptied: every queued entry released exactly once, every other ring slot untouched */
#define BX_EMPTIED(q) ((q)->lmq_len == 0 && (g_j >= OLD((q)->lmq_len) || BX_RELEASED(LMQ_VIEW(q, g_j))) && (g_j < OLD((q)->lmq_len) || g_j > OLD((q)->lmq_mask) || BX_KEPT(LMQ_VIEW(q, g_j))))
/* queue q was resized to depth val: the oldest min(len, val) entries stay, in order and untouched; every
 * younger entry is released exactly once (whole messages only); the old ring is released */
#define BX_RESIZED(q, val) ((q)->lmq_cap == (size_t) (val) && (q)->lmq_len == VP_MIN(OLD((q)->lmq_len), (size_t) (val)) && LMQ_WF_SCALAR(q) && (q)->lmq_alloc >= 2 && \
	BX_OLD_RING_GONE(q) && \
	(g_j >= (q)->lmq_len || (LMQ_VIEW(q, g_j) == OLD(LMQ_VIEW(q, g_j)) && BX_KEPT(LMQ_VIEW(q, g_j)))) && \
	(g_j < (q)->lmq_len || g_j >= OLD((q)->lmq_len) || BX_RELEASED(LMQ_VIEW(q, g_j))) && \
	(g_j < OLD((q)->lmq_len) || g_j >= BX_NSLOTS || BX_KEPT(LMQ_VIEW(q, g_j))))
#define BX_UNTOUCHED(q) ((q)->lmq_cap == OLD((q)->lmq_cap) && (q)->lmq_len == OLD((q)->lmq_len) && (q)->lmq_get == OLD((q)->lmq_get) && (q)->lmq_put == OLD((q)->lmq_put) && \
	(q)->lmq_alloc == OLD((q)->lmq_alloc) && (q)->lmq_mask == OLD((q)->lmq_mask) && (q)->lmq_msgs == OLD((q)->lmq_msgs) && BX_OLD_RING_STAYS(q) && \
	(g_j >= BX_NSLOTS || (LMQ_VIEW(q, g_j) == OLD(LMQ_VIEW(q, g_j)) && BX_KEPT(LMQ_VIEW(q, g_j)))))
/* the environment records that must not move in a function that neither sends, receives nor completes */
#define BX_NO_IO (g_pipe_send_calls == OLD(g_pipe_send_calls) && g_pipe_recv_calls == OLD(g_pipe_recv_calls) && g_pipe_close_calls == OLD(g_pipe_close_calls) && g_fin_calls == OLD(g_fin_calls) && g_start_calls == OLD(g_start_calls))

/* =====================================================================
 * bus0_pipe_start (C09: only BUS peers join the fan-out; a joined pipe is on the list exactly
 * once, at the tail, and exactly one receive is armed).  The pipe under contract is the first
 * UNATTACHED one (number g_np).
 * ===================================================================== */
#define BT_P ((bus0_pipe *) arg)
#define BT_IS_NEXT ((g_np == 0 && arg == g_bp0) || (g_np == 1 && arg == g_bp1) || (g_np == 2 && arg == g_bp2))
static int bus0_pipe_start(void *arg)
__CPROVER_requires(BT_IS_NEXT && VP_NO_LOCK_HELD)
__CPROVER_assigns(VP_PROTO_GHOST_LIST, VP_SYNC_GHOSTS, g_s->pipes.ll_head, g_bp0->node, g_bp1->node, g_bp2->node)
__CPROVER_ensures(VP_NO_LOCK_HELD && g_pipe_close_calls == OLD(g_pipe_close_calls) && g_pipe_send_calls == OLD(g_pipe_send_calls) && g_fin_calls == OLD(g_fin_calls) && g_pollr == OLD(g_pollr))
/* wrong peer protocol: refused with NNG_EPROTO, NOT attached, nothing started on it */
__CPROVER_ensures(g_pipe_peer != BX_PROTO_BUS ==> (RV == NNG_EPROTO && BX_LIST_IS(g_np) && BT_P->node.ln_next == NULL && BT_P->node.ln_prev == NULL && g_pipe_recv_calls == OLD(g_pipe_recv_calls)))
/* accepted: attached exactly once at the tail (existing order kept), exactly one receive armed on its own aio */
__CPROVER_ensures(g_pipe_peer == BX_PROTO_BUS ==> (RV == 0 && BX_LIST_IS(g_np + 1) && g_pipe_recv_calls == OLD(g_pipe_recv_calls) + 1 && g_pipe_recv_pipe == BT_P->pipe && g_pipe_recv_aio == &BT_P->aio_recv))
;

/* =====================================================================
 * bus0_pipe_recv (re-arm): exactly one transport receive, on the pipe's own receive aio
 * ===================================================================== */
static void bus0_pipe_recv(bus0_pipe *p)
__CPROVER_requires(p == g_bp0 || p == g_bp1 || p == g_bp2)
__CPROVER_assigns(g_pipe_recv_calls, g_pipe_recv_pipe, g_pipe_recv_aio)
__CPROVER_ensures(g_pipe_recv_calls == OLD(g_pipe_recv_calls) + 1 && g_pipe_recv_pipe == p->pipe && g_pipe_recv_aio == &p->aio_recv)
;

/* =====================================================================
 * bus0_pipe_close (C09: leaves the fan-out list so later sends do not offer to it; C03: its send
 * queue is flushed, every queued copy released exactly once, the copy in flight on aio_send is
 * NOT released here (bus0_pipe_send_cb does that, once); C15: receive queue and its pollable
 * untouched).  Case split by BUSX_CLOSE_IDX over the pipe under contract.
 * ===================================================================== */
#ifndef BUSX_CLOSE_IDX
#define BUSX_CLOSE_IDX 0
#endif
#if BUSX_CLOSE_IDX == 0
#define PX_P g_bp0
#elif BUSX_CLOSE_IDX == 1
#define PX_P g_bp1
#else
#define PX_P g_bp2
#endif
#define PX_ATTACHED ((size_t) BUSX_CLOSE_IDX < g_np)
static void bus0_pipe_close(void *arg)
__CPROVER_requires(arg == PX_P && g_np <= 3 && VP_NO_LOCK_HELD && BX_LMQ_PRE(BX_SQ(PX_P)) && BX_SLOTS_REF_OK(BX_SQ(PX_P)))
__CPROVER_assigns(PX_P->send_queue.lmq_get, PX_P->send_queue.lmq_len, VP_PROTO_GHOST_LIST, VP_SYNC_GHOSTS, g_free_calls, g_s->pipes.ll_head, g_bp0->node, g_bp1->node, g_bp2->node)
__CPROVER_assigns(BX_SLOTS_WR(BX_SQ(PX_P)))
BX_SLOTS_FREES(BX_SQ(PX_P))
__CPROVER_ensures(VP_NO_LOCK_HELD && g_aio_close_calls == OLD(g_aio_close_calls) + 2 && BX_NO_IO && g_pollr == OLD(g_pollr) && g_qa.n == OLD(g_qa.n))
/* the send queue is emptied: every queued copy is released exactly once, nothing else is */
__CPROVER_ensures(LMQ_WF_SCALAR(BX_SQ(PX_P)) && BX_EMPTIED(BX_SQ(PX_P)))
/* detached from the fan-out: the other pipes keep their order */
__CPROVER_ensures(PX_P->node.ln_next == NULL && PX_P->node.ln_prev == NULL)
__CPROVER_ensures(!PX_ATTACHED ==> BX_LIST_IS(g_np))
__CPROVER_ensures((PX_ATTACHED && arg == g_bp0) ==> VP_LIST3_IS(BX_HEAD, g_np - 1, &g_bp1->node, &g_bp2->node, &g_bp2->node))
__CPROVER_ensures((PX_ATTACHED && arg == g_bp1) ==> VP_LIST3_IS(BX_HEAD, g_np - 1, &g_bp0->node, &g_bp2->node, &g_bp2->node))
__CPROVER_ensures((PX_ATTACHED && arg == g_bp2) ==> VP_LIST3_IS(BX_HEAD, g_np - 1, &g_bp0->node, &g_bp1->node, &g_bp1->node))
;

/* =====================================================================
 * bus0_pipe_stop / bus0_pipe_fini / bus0_pipe_init
 * ===================================================================== */
static void bus0_pipe_stop(void *arg)
__CPROVER_requires(arg == g_bp0)
__CPROVER_assigns(g_aio_stop_calls, g_aio_stop_a, g_aio_stop_b)
/* both per-pipe aios are stopped, each once */
__CPROVER_ensures(g_aio_stop_calls == OLD(g_aio_stop_calls) + 2 && ((g_aio_stop_a == &g_bp0->aio_send && g_aio_stop_b == &g_bp0->aio_recv) || (g_aio_stop_a == &g_bp0->aio_recv && g_aio_stop_b == &g_bp0->aio_send)))
;
/* fini (C03): both aios finalised once; what is still queued is released, each entry exactly once, and the ring */
static void bus0_pipe_fini(void *arg)
__CPROVER_requires(arg == g_bp0 && BX_LMQ_PRE(BX_SQ(g_bp0)) && BX_SLOTS_REF_OK(BX_SQ(g_bp0)))
__CPROVER_assigns(g_bp0->send_queue.lmq_get, g_bp0->send_queue.lmq_len, g_free_calls, g_aio_fini_calls, g_aio_fini_a, g_aio_fini_b)
__CPROVER_assigns(BX_SLOTS_WR(BX_SQ(g_bp0)))
BX_SLOTS_FREES(BX_SQ(g_bp0))
BX_RING_FREES(BX_SQ(g_bp0))
__CPROVER_ensures(BX_RING_RELEASED(BX_SQ(g_bp0)))
__CPROVER_ensures(g_aio_fini_calls == OLD(g_aio_fini_calls) + 2 && ((g_aio_fini_a == &g_bp0->aio_send && g_aio_fini_b == &g_bp0->aio_recv) || (g_aio_fini_a == &g_bp0->aio_recv && g_aio_fini_b == &g_bp0->aio_send)))
__CPROVER_ensures(BX_EMPTIED(BX_SQ(g_bp0)))
;
#define BI_P ((bus0_pipe *) arg)
static int bus0_pipe_init(void *arg, nni_pipe *np, void *s)
/* the pipe's protocol data is zeroed by its allocator (src/core/pipe.c: nni_zalloc) */
__CPROVER_requires(__CPROVER_is_fresh(arg, sizeof(bus0_pipe)) && !BI_P->busy && s == g_s && VP_NO_LOCK_HELD && g_s->send_buf >= 1 && g_s->send_buf <= 8192 && g_aio_init_calls == 0)
__CPROVER_assigns(BI_P->send_queue, BI_P->pipe, BI_P->bus, BI_P->node, VP_SYNC_GHOSTS, g_msg_freed, g_msg_freed_at_j, g_free_calls, g_alloc_ok, g_aio_init_calls, g_aio_init_a, g_aio_init_b, g_aio_init_cb_a, g_aio_init_cb_b, g_aio_init_arg_a, g_aio_init_arg_b)
__CPROVER_ensures(RV == 0 && VP_NO_LOCK_HELD && !BI_P->busy && BI_P->pipe == np && BI_P->bus == g_s && BI_P->node.ln_next == NULL && BI_P->node.ln_prev == NULL)
/* "...and to later pipes": an empty send queue of the socket's configured depth (2 when the ring could not be allocated): never 0 */
__CPROVER_ensures(LMQ_WF_SCALAR(BX_SQ(BI_P)) && BI_P->send_queue.lmq_len == 0 && (BI_P->send_queue.lmq_cap == (size_t) g_s->send_buf || (g_s->send_buf > 2 && BI_P->send_queue.lmq_cap == 2)) && BI_P->send_queue.lmq_cap >= 1)
__CPROVER_ensures(g_aio_init_calls == 2 && g_aio_init_a == &BI_P->aio_send && g_aio_init_cb_a == bus0_pipe_send_cb && g_aio_init_arg_a == arg && g_aio_init_b == &BI_P->aio_recv && g_aio_init_cb_b == bus0_pipe_recv_cb && g_aio_init_arg_b == arg)
;

/* =====================================================================
 * bus0_recv_cancel (C02: the aio is finished exactly once with the given code iff it is still on the
 * wait list, otherwise untouched; C15: queue and pollable untouched)
 * ===================================================================== */
static void bus0_recv_cancel(nng_aio *aio, void *arg, nng_err rv)
__CPROVER_requires(arg == g_s && aio == g_ca && g_qa.n <= 8 && g_qb.n == 0 && VP_AIOQS_OK && VP_NO_LOCK_HELD && BUS_RPOLL_INV)
/* ghost-queue model: the aio is the first waiter, the last appended waiter, or not queued at all */
__CPROVER_requires(g_which == 0 ? (g_qa.n >= 1 && g_qa.head == aio) : (g_which == 1 ? (g_qa.n >= 2 && g_qa.tail == aio && g_qa.head != aio) : (g_which == 2 && !g_aio_active && !(g_qa.n > 0 && (g_qa.head == aio || g_qa.tail == aio)))))
__CPROVER_assigns(VP_PROTO_GHOST_LIST, VP_SYNC_GHOSTS)
__CPROVER_ensures(VP_NO_LOCK_HELD && VP_AIOQS_OK)
/* still waiting: removed and completed ONCE with exactly the given code; its message slot is not touched */
__CPROVER_ensures(g_which != 2 ==> (g_qa.n == OLD(g_qa.n) - 1 && g_fin_calls == OLD(g_fin_calls) + 1 && g_fin_last == aio && g_fin_last_rv == (int) rv && g_fin_last_count == 0))
/* the other known waiter keeps its place (C09: waiting receivers are served in arrival order) */
__CPROVER_ensures((g_which == 1 && OLD(g_qa.n) >= 2) ==> g_qa.head == OLD(g_qa.head))
__CPROVER_ensures((g_which == 0 && OLD(g_qa.n) == 2 && OLD(g_qa.tail) != NULL) ==> g_qa.head == OLD(g_qa.tail))
/* not waiting any more (a message was handed to it meanwhile): nothing happens - single winner */
__CPROVER_ensures(g_which == 2 ==> (g_qa.n == OLD(g_qa.n) && g_fin_calls == OLD(g_fin_calls) && g_qa.head == OLD(g_qa.head) && g_qa.tail == OLD(g_qa.tail)))
__CPROVER_ensures(g_pipe_send_calls == OLD(g_pipe_send_calls) && g_pipe_recv_calls == OLD(g_pipe_recv_calls) && g_pipe_close_calls == OLD(g_pipe_close_calls) && g_start_calls == OLD(g_start_calls))
__CPROVER_ensures(BUS_RPOLL_INV && g_pollr == OLD(g_pollr))
;

/* =====================================================================
 * bus0_sock_close: every waiting receiver fails ONCE with NNG_ECLOSED; the receive queue (and so
 * its pollable, C15) is untouched
 * ===================================================================== */
static void bus0_sock_close(void *arg)
__CPROVER_requires(arg == g_s && VP_NO_LOCK_HELD && VP_AIOQS_PRE && g_qa.n <= BUSX_MAXWAIT && g_qb.n == 0 && BUS_RPOLL_INV)
__CPROVER_assigns(VP_PROTO_GHOST_LIST, VP_SYNC_GHOSTS)
__CPROVER_ensures(VP_NO_LOCK_HELD && VP_AIOQS_OK && g_qa.n == 0)
__CPROVER_ensures(g_fin_calls == OLD(g_fin_calls) + OLD(g_qa.n) && (OLD(g_qa.n) > 0 ==> (g_fin_last_rv == NNG_ECLOSED && g_fin_last_count == 0)))
/* the identities the model tracks: a single waiter / the last appended waiter is the last one completed */
__CPROVER_ensures(OLD(g_qa.n) == 1 ==> g_fin_last == OLD(g_qa.head))
__CPROVER_ensures((OLD(g_qa.n) >= 2 && OLD(g_qa.tail) != NULL) ==> g_fin_last == OLD(g_qa.tail))
__CPROVER_ensures(g_pipe_send_calls == OLD(g_pipe_send_calls) && g_pipe_recv_calls == OLD(g_pipe_recv_calls) && g_pipe_close_calls == OLD(g_pipe_close_calls) && g_start_calls == OLD(g_start_calls))
__CPROVER_ensures(BUS_RPOLL_INV && g_pollr == OLD(g_pollr))
;

/* =====================================================================
 * bus0_sock_init / bus0_sock_init_raw: the initial state - no pipes, no waiting receivers, empty
 * receive queue with its pollable LOWERED (C15 invariant established), send depth 16
 * ===================================================================== */
#define SI_S ((bus0_sock *) arg)
#define SI_EMPTY_LIST(l, off) ((l)->ll_offset == (off) && (l)->ll_head.ln_next == &(l)->ll_head && (l)->ll_head.ln_prev == &(l)->ll_head)
#define SI_POST(RAW) \
__CPROVER_ensures(VP_NO_LOCK_HELD && SI_EMPTY_LIST(&SI_S->pipes, offsetof(bus0_pipe, node)) && SI_EMPTY_LIST(&SI_S->recv_wait, offsetof(nni_aio, a_prov_node))) \
__CPROVER_ensures(SI_S->send_buf == 16 && SI_S->raw == (RAW)) \
__CPROVER_ensures(LMQ_WF_SCALAR(&SI_S->recv_msgs) && SI_S->recv_msgs.lmq_len == 0 && (SI_S->recv_msgs.lmq_cap == 16 || (SI_S->recv_msgs.lmq_cap == 2 && SI_S->recv_msgs.lmq_alloc == 0))) \
__CPROVER_ensures(!g_pollr && !g_pollw && g_poll_init_calls == OLD(g_poll_init_calls) + 2)
#define SI_PRE \
__CPROVER_requires(arg == g_s && VP_NO_LOCK_HELD && g_pollr_addr == &SI_S->can_recv && g_pollw_addr == &SI_S->can_send) \
__CPROVER_assigns(*SI_S, VP_PROTO_GHOST_LIST, g_poll_init_calls, g_msg_freed, g_msg_freed_at_j, g_free_calls, g_alloc_ok)
static void bus0_sock_init(void *arg, nni_sock *ns)
SI_PRE
SI_POST(false)
;
static void bus0_sock_init_raw(void *arg, nni_sock *ns)
SI_PRE
SI_POST(true)
;

/* =====================================================================
 * bus0_sock_fini (C03): whatever is still in the receive queue is released, each entry exactly once,
 * and the ring; both pollables finalised
 * ===================================================================== */
static void bus0_sock_fini(void *arg)
__CPROVER_requires(arg == g_s && VP_NO_LOCK_HELD && BX_LMQ_PRE(BX_RQ) && BX_SLOTS_REF_OK(BX_RQ))
__CPROVER_assigns(g_s->recv_msgs.lmq_get, g_s->recv_msgs.lmq_len, g_free_calls, g_poll_fini_calls)
__CPROVER_assigns(BX_SLOTS_WR(BX_RQ))
BX_SLOTS_FREES(BX_RQ)
BX_RING_FREES(BX_RQ)
__CPROVER_ensures(BX_RING_RELEASED(BX_RQ) && g_poll_fini_calls == OLD(g_poll_fini_calls) + 2)
__CPROVER_ensures(BX_EMPTIED(BX_RQ))
;

/* =====================================================================
 * NNG_OPT_RECVBUF (C09 order: survivors keep their order; whole messages only; C15: the pollable
 * still mirrors "queue not empty" afterwards)
 * ===================================================================== */
#define OB_VAL (*(const int *) buf)
#define OB_OKARG (t == NNI_TYPE_INT32 && OB_VAL >= 1 && OB_VAL <= 8192)
static nng_err bus0_sock_set_recv_buf_len(void *arg, const void *buf, size_t sz, nni_type t)
__CPROVER_requires(arg == g_s && VP_NO_LOCK_HELD && BX_LMQ_PRE(BX_RQ) && BX_SLOTS_REF_OK(BX_RQ) && BUS_RPOLL_INV)
__CPROVER_requires(t == NNI_TYPE_INT32 ==> __CPROVER_is_fresh(buf, sizeof(int)))
__CPROVER_assigns(g_s->recv_msgs, BX_SLOTS_WR(BX_RQ), VP_SYNC_GHOSTS, g_free_calls, g_alloc_ok, g_alloc_fail)
BX_RING_FREES(BX_RQ) BX_SLOTS_FREES(BX_RQ)
__CPROVER_ensures(VP_NO_LOCK_HELD)
__CPROVER_ensures(RV == NNG_OK || RV == NNG_EBADTYPE || RV == NNG_EINVAL || RV == NNG_ENOMEM)
/* wrong type or out of range: refused, nothing changes */
__CPROVER_ensures(t != NNI_TYPE_INT32 ==> RV == NNG_EBADTYPE)
__CPROVER_ensures((t == NNI_TYPE_INT32 && !OB_OKARG) ==> RV == NNG_EINVAL)
__CPROVER_ensures(!OB_OKARG ==> (g_alloc_ok == OLD(g_alloc_ok) && g_alloc_fail == OLD(g_alloc_fail) && g_free_calls == OLD(g_free_calls)))
__CPROVER_ensures(OB_OKARG ==> (RV == NNG_OK || RV == NNG_ENOMEM))
__CPROVER_ensures(g_alloc_fail == OLD(g_alloc_fail) + (RV == NNG_ENOMEM ? 1 : 0) && g_alloc_ok == OLD(g_alloc_ok) + (RV == NNG_OK ? 1 : 0))
/* success: exact new depth, oldest survivors in order, the rest released once each; failure: queue not torn */
__CPROVER_ensures(RV == NNG_OK ==> (BX_RESIZED(BX_RQ, OB_VAL) && __CPROVER_is_fresh(g_s->recv_msgs.lmq_msgs, g_s->recv_msgs.lmq_alloc * sizeof(nng_msg *))))
__CPROVER_ensures(RV != NNG_OK ==> BX_UNTOUCHED(BX_RQ))
/* C15: level-triggered mirror still exact */
__CPROVER_ensures(BUS_RPOLL_INV)
;
static nng_err bus0_sock_get_recv_buf_len(void *arg, void *buf, size_t *szp, nni_type t)
__CPROVER_requires(arg == g_s && VP_NO_LOCK_HELD && BX_LMQ_PRE(BX_RQ))
__CPROVER_requires(t == NNI_TYPE_INT32 ==> __CPROVER_is_fresh(buf, sizeof(int)))
__CPROVER_assigns(VP_SYNC_GHOSTS)
__CPROVER_assigns(t == NNI_TYPE_INT32: *(int *) buf)
__CPROVER_ensures(VP_NO_LOCK_HELD)
__CPROVER_ensures(t == NNI_TYPE_INT32 ? (RV == NNG_OK && *(int *) buf == (int) g_s->recv_msgs.lmq_cap) : RV == NNG_EBADTYPE)
;

/* =====================================================================
 * NNG_OPT_SENDBUF (C09: the depth applies to EVERY attached pipe's queue, none skipped, and is
 * remembered for later pipes; no queue is ever torn)
 * ===================================================================== */
#ifndef BUS_NPMAX
#define BUS_NPMAX 3
#endif
#if BUS_NPMAX > 0
#define BX_IF0(x) x
#else
#define BX_IF0(x)
#endif
#if BUS_NPMAX > 1
#define BX_IF1(x) x
#else
#define BX_IF1(x)
#endif
#if BUS_NPMAX > 2
#define BX_IF2(x) x
#else
#define BX_IF2(x)
#endif
#define SB_PIPE_PRE(i, p) (BX_LMQ_PRE(BX_SQ(p)) && BX_SLOTS_REF_OK(BX_SQ(p)))
#define SB_PIPE_ASSIGNS(i, p) __CPROVER_assigns(g_np > (i): (p)->send_queue, BX_SLOTS_WR(BX_SQ(p))) \
	BX_RING_FREES(BX_SQ(p)) BX_SLOTS_FREES(BX_SQ(p))
/* number of queues resized by this call (each successful resize allocates exactly one new ring) */
#define SB_NRES (g_alloc_ok - OLD(g_alloc_ok))
#define SB_PIPE_POST(i, p) (g_np <= (i) || (SB_NRES > (i) ? BX_RESIZED(BX_SQ(p), OB_VAL) : BX_UNTOUCHED(BX_SQ(p))))
static nng_err bus0_sock_set_send_buf_len(void *arg, const void *buf, size_t sz, nni_type t)
__CPROVER_requires(arg == g_s && VP_NO_LOCK_HELD && g_np <= BUS_NPMAX && g_s->send_buf >= 1 && g_s->send_buf <= 8192)
__CPROVER_requires(t == NNI_TYPE_INT32 ==> __CPROVER_is_fresh(buf, sizeof(int)))
BX_IF0(__CPROVER_requires(SB_PIPE_PRE(0, g_bp0))) BX_IF1(__CPROVER_requires(SB_PIPE_PRE(1, g_bp1))) BX_IF2(__CPROVER_requires(SB_PIPE_PRE(2, g_bp2)))
__CPROVER_assigns(g_s->send_buf, VP_SYNC_GHOSTS, g_free_calls, g_alloc_ok, g_alloc_fail)
BX_IF0(SB_PIPE_ASSIGNS(0, g_bp0)) BX_IF1(SB_PIPE_ASSIGNS(1, g_bp1)) BX_IF2(SB_PIPE_ASSIGNS(2, g_bp2))
__CPROVER_ensures(VP_NO_LOCK_HELD && BX_LIST_IS(g_np))
__CPROVER_ensures(RV == NNG_OK || RV == NNG_EBADTYPE || RV == NNG_EINVAL || RV == NNG_ENOMEM)
/* wrong type or out of range: refused, nothing changes */
__CPROVER_ensures(t != NNI_TYPE_INT32 ==> RV == NNG_EBADTYPE)
__CPROVER_ensures((t == NNI_TYPE_INT32 && !OB_OKARG) ==> RV == NNG_EINVAL)
__CPROVER_ensures(!OB_OKARG ==> (g_s->send_buf == OLD(g_s->send_buf) && SB_NRES == 0 && g_alloc_fail == OLD(g_alloc_fail) && g_free_calls == OLD(g_free_calls)))
/* accepted: success = the socket remembers the depth for later pipes; in every case the range invariant 1..8192 is kept */
__CPROVER_ensures(OB_OKARG ==> (RV == NNG_OK || RV == NNG_ENOMEM))
__CPROVER_ensures((OB_OKARG && RV == NNG_OK) ==> g_s->send_buf == OB_VAL)
__CPROVER_ensures(g_s->send_buf >= 1 && g_s->send_buf <= 8192 && (g_s->send_buf == OLD(g_s->send_buf) || (OB_OKARG && g_s->send_buf == OB_VAL)))
/* the attached pipes are resized in list order; success = ALL of them (none skipped); out of memory = the
 * first SB_NRES of them, every later queue untouched - no queue is ever torn */
__CPROVER_ensures(SB_NRES <= g_np && (OB_OKARG ==> ((RV == NNG_OK) == (SB_NRES == g_np))))
__CPROVER_ensures(g_alloc_fail == OLD(g_alloc_fail) + (RV == NNG_ENOMEM ? 1 : 0))
BX_IF0(__CPROVER_ensures(SB_PIPE_POST(0, g_bp0)))
BX_IF1(__CPROVER_ensures(SB_PIPE_POST(1, g_bp1)))
BX_IF2(__CPROVER_ensures(SB_PIPE_POST(2, g_bp2)))
BX_IF0(__CPROVER_ensures((g_np > 0 && SB_NRES > 0) ==> __CPROVER_is_fresh(g_bp0->send_queue.lmq_msgs, g_bp0->send_queue.lmq_alloc * sizeof(nng_msg *))))
BX_IF1(__CPROVER_ensures((g_np > 1 && SB_NRES > 1) ==> __CPROVER_is_fresh(g_bp1->send_queue.lmq_msgs, g_bp1->send_queue.lmq_alloc * sizeof(nng_msg *))))
BX_IF2(__CPROVER_ensures((g_np > 2 && SB_NRES > 2) ==> __CPROVER_is_fresh(g_bp2->send_queue.lmq_msgs, g_bp2->send_queue.lmq_alloc * sizeof(nng_msg *))))
;
static nng_err bus0_sock_get_send_buf_len(void *arg, void *buf, size_t *szp, nni_type t)
__CPROVER_requires(arg == g_s && VP_NO_LOCK_HELD)
__CPROVER_requires(t == NNI_TYPE_INT32 ==> __CPROVER_is_fresh(buf, sizeof(int)))
__CPROVER_assigns(VP_SYNC_GHOSTS)
__CPROVER_assigns(t == NNI_TYPE_INT32: *(int *) buf)
__CPROVER_ensures(VP_NO_LOCK_HELD)
__CPROVER_ensures(t == NNI_TYPE_INT32 ? (RV == NNG_OK && *(int *) buf == g_s->send_buf) : RV == NNG_EBADTYPE)
;

/* =====================================================================
 * poll descriptors (C15).  BUS send never blocks, so the SEND descriptor must always poll
 * readable: the pollable behind the descriptor handed out is raised (and bus.c never lowers it -
 * frame clauses of every other contract: g_pollw is only written here and in sock_init).
 * The RECEIVE descriptor is that of the pollable that mirrors "receive queue not empty".
 * ===================================================================== */
static nng_err bus0_sock_get_send_fd(void *arg, int *fdp)
__CPROVER_requires(arg == g_s && __CPROVER_is_fresh(fdp, sizeof(int)))
__CPROVER_assigns(*fdp, VP_PROTO_GHOST_LIST, g_getfd_calls, g_getfd_last)
__CPROVER_ensures(g_pollw && g_pollr == OLD(g_pollr) && g_getfd_calls == OLD(g_getfd_calls) + 1 && g_getfd_last == &g_s->can_send)
__CPROVER_ensures(RV == (nng_err) g_getfd_rv && (RV == 0 ==> *fdp == g_getfd_fd))
;
static nng_err bus0_sock_get_recv_fd(void *arg, int *fdp)
__CPROVER_requires(arg == g_s && __CPROVER_is_fresh(fdp, sizeof(int)) && BUS_RPOLL_INV)
__CPROVER_assigns(*fdp, g_getfd_calls, g_getfd_last)
__CPROVER_ensures(g_getfd_calls == OLD(g_getfd_calls) + 1 && g_getfd_last == &g_s->can_recv && BUS_RPOLL_INV)
__CPROVER_ensures(RV == (nng_err) g_getfd_rv && (RV == 0 ==> *fdp == g_getfd_fd))
;
/* clang-format on */
#endif
