/* The SSE2/NEON 16-byte loop of ws_apply_mask uses compiler intrinsics, which
 * are outside CBMC's reach: this unit compiles websocket.c with the SIMD
 * selection macros undefined, so the verified text is the portable path (the
 * 64-bit, 32-bit and byte-tail loops, which also process the SIMD remainder
 * in the shipped build).  Stated in spec.json "assumes". */
#undef __SSE2__
#undef __aarch64__
