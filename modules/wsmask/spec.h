#ifndef VP_WSMASK_SPEC_H
#define VP_WSMASK_SPEC_H
#define WSM_OFF(p) ((size_t) __CPROVER_POINTER_OFFSET(p))
#endif
