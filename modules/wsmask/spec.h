#ifndef VP_WSMASK_SPEC_H
#define VP_WSMASK_SPEC_H
#ifndef WSM_MAXLEN
#define WSM_MAXLEN ((size_t) 1 << 40)
#endif
#define WSM_OFF(p) ((size_t) __CPROVER_POINTER_OFFSET(p))
#endif
