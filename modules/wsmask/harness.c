void h_ws_apply_mask(void) { uint8_t *buf; size_t len; uint8_t *mask; g_k = nondet_size_t(); g_b = nondet_u8(); ws_apply_mask(buf, len, mask); VP_CANARY(); }
