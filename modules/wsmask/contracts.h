/* Contract for ws_apply_mask (RFC 6455 section 5.3): byte i of the payload is
 * XORed with mask[i mod 4]; nothing outside the payload is written.  Applying
 * it twice is the identity (involution) follows from x ^ m ^ m == x. */
#ifndef VP_WSMASK_CONTRACTS_H
#define VP_WSMASK_CONTRACTS_H
/* clang-format off */
static void ws_apply_mask(uint8_t *buf, size_t len, const uint8_t mask[4])
#ifdef WSM_FIXLEN
__CPROVER_requires(len == WSM_FIXLEN)
#endif
#ifdef WSM_FIXALLOC
__CPROVER_requires(len <= WSM_MAXLEN && __CPROVER_is_fresh(buf, WSM_MAXLEN))
#else
__CPROVER_requires(len <= WSM_MAXLEN && (len == 0 || __CPROVER_is_fresh(buf, len)))
#endif
__CPROVER_requires(__CPROVER_is_fresh(mask, 4))
/* ghost equation: g_b is the input byte at index g_k */
__CPROVER_requires(g_k < len ==> g_b == buf[g_k])
__CPROVER_assigns(len > 0: __CPROVER_object_upto(buf, len))
__CPROVER_ensures(g_k < len ==> buf[g_k] == (uint8_t) (g_b ^ mask[g_k & 3]))
;
/* clang-format on */
#endif
