/* included AFTER the real sources of the inproc TU: ASSUMED environment (ghost records only) */
#ifndef VP_INPROC_POST_H
#define VP_INPROC_POST_H
#include "include/env_alloc.h"
#include "include/env_sync.h"

/* ---- atomics: sequential integer model (interleavings NOT explored) ---- */
void nni_atomic_init(nni_atomic_int *v) { v->v = 0; }
void nni_atomic_set(nni_atomic_int *v, int i) { v->v = i; }
int  nni_atomic_get(nni_atomic_int *v) { return (v->v); }
void nni_atomic_inc(nni_atomic_int *v) { v->v++; }
int  nni_atomic_dec_nv(nni_atomic_int *v) { v->v--; return (v->v); }
void
nni_panic(const char *fmt, ...)
{
	(void) fmt;
	__CPROVER_assert(0, "nni_panic reached (library aborts the process)");
	__CPROVER_assume(0);
}

/* ---- aio accessors and wait-list linkage: the bodies of src/core/aio.c, over the REAL list.c ---- */
nni_msg *nni_aio_get_msg(nni_aio *aio) { return (aio->a_msg); }
void     nni_aio_set_msg(nni_aio *aio, nni_msg *m) { aio->a_msg = m; }
void
nni_aio_set_output(nni_aio *aio, unsigned index, void *data)
{
	if (index < NNI_NUM_ELEMENTS(aio->a_outputs)) {
		aio->a_outputs[index] = data;
	}
}
void
nni_aio_reset(nni_aio *aio)
{
	aio->a_result           = NNG_OK;
	aio->a_count            = 0;
	aio->a_abort            = false;
	aio->a_expire_ok        = false;
	aio->a_sleep            = false;
	aio->a_skipped_callback = NULL;
	for (unsigned i = 0; i < NNI_NUM_ELEMENTS(aio->a_outputs); i++) {
		aio->a_outputs[i] = NULL;
	}
}
void nni_aio_list_init(nni_list *list) { NNI_LIST_INIT(list, nni_aio, a_prov_node); }
void nni_aio_list_remove(nni_aio *aio) { nni_list_node_remove(&aio->a_prov_node); }
void
nni_aio_list_append(nni_list *list, nni_aio *aio)
{
	nni_aio_list_remove(aio);
	nni_list_append(list, aio);
}
int nni_aio_list_active(nni_aio *aio) { return (nni_list_node_active(&aio->a_prov_node)); }

/* ---- completion: result and count are stored in the aio (as nni_aio_finish_impl does) and the
 * completion is appended to the ghost log.  Discipline asserted: an aio is taken off its wait list
 * BEFORE it is completed (otherwise a second path could complete it again). ---- */
void
nni_aio_finish(nni_aio *aio, nng_err rv, size_t count)
{
	__CPROVER_assert(aio->a_prov_node.ln_next == NULL && aio->a_prov_node.ln_prev == NULL,
	    "aio is off every wait list when it is completed");
	if (g_ip.fin_calls < IP_NLOG) {
		g_ip.fin_aio[g_ip.fin_calls]   = aio;
		g_ip.fin_rv[g_ip.fin_calls]    = (int) rv;
		g_ip.fin_count[g_ip.fin_calls] = count;
		g_ip.fin_msg[g_ip.fin_calls]   = aio->a_msg;
	}
	g_ip.fin_calls++;
	aio->a_result = rv;
	aio->a_count  = count;
}
void nni_aio_finish_error(nni_aio *aio, nng_err rv) { nni_aio_finish(aio, rv, 0); }

/* nni_aio_start: the answer is the environment's.  When it refuses, the real function has already
 * completed the aio itself (NNG_ECANCELED / NNG_ETIMEDOUT / NNG_ESTOPPED): the transport must then
 * neither queue nor complete it. */
bool
nni_aio_start(nni_aio *aio, nni_aio_cancel_fn fn, void *arg)
{
	g_ip.start_calls++;
	g_ip.start_aio = aio;
	g_ip.start_fn  = fn;
	g_ip.start_arg = arg;
	return (g_aio_start_ok);
}

/* ---- pipe layer: a sequentialised model of src/core/pipe.c (pipe_create, nni_pipe_close -> reap ->
 * p_close/p_stop/release, nni_pipe_rele -> pipe_destroy -> p_fini).  The transport callbacks called
 * are the REAL inproc_pipe_init/close/stop/fini.  One dialer-side and one listener-side pipe tracked. */
struct ip_pipe_blk {
	uint64_t    np_cell; /* stands for struct nni_pipe (opaque to the transport) */
	inproc_pipe tp;      /* the transport part, zeroed by pipe_create's nni_zalloc */
};
static void
ip_pipe_drop(bool dialer)
{
	int *ref = dialer ? &g_ip.dref : &g_ip.lref;
	__CPROVER_assert(*ref > 0, "pipe reference released that is not held");
	(*ref)--;
	if (*ref == 0) {
		inproc_pipe *tp = dialer ? g_ip.dpipe : g_ip.lpipe;
		inproc_pipe_fini(tp);
		free(dialer ? g_ip.dpipe_np : g_ip.lpipe_np);
		g_ip.pipes_gone++;
	}
}
void
nni_pipe_close(nni_pipe *p)
{
	bool dialer = ((void *) p == g_ip.dpipe_np);
	__CPROVER_assert(dialer || (void *) p == g_ip.lpipe_np, "nni_pipe_close: a pipe made by this model");
	g_ip.pclose_calls++;
	if (dialer ? g_ip.dclosed : g_ip.lclosed) {
		return;
	}
	if (dialer) {
		g_ip.dclosed = true;
	} else {
		g_ip.lclosed = true;
	}
	/* pipe_reap: close and stop the transport part, then drop the "open" reference */
	inproc_pipe_close(dialer ? g_ip.dpipe : g_ip.lpipe);
	inproc_pipe_stop(dialer ? g_ip.dpipe : g_ip.lpipe);
	ip_pipe_drop(dialer);
}
void
nni_pipe_rele(nni_pipe *p)
{
	bool dialer = ((void *) p == g_ip.dpipe_np);
	__CPROVER_assert(dialer || (void *) p == g_ip.lpipe_np, "nni_pipe_rele: a pipe made by this model");
	ip_pipe_drop(dialer);
}
static int
ip_pipe_create(void **datap, bool dialer)
{
	bool ok = dialer ? g_palloc_d_ok : g_palloc_l_ok;
	int  rv = (g_palloc_rv != 0) ? g_palloc_rv : NNG_ENOMEM;
	g_ip.palloc_calls++;
	if (!ok && !g_palloc_late) {
		return (rv);
	}
	__CPROVER_assert(sizeof(inproc_pipe) == inproc_pipe_size(), "p_size is the size of the transport part");
	/* malloc + struct assignment instead of calloc: CBMC keeps the object typed (calloc gives a byte array) */
	struct ip_pipe_blk *b = malloc(sizeof(*b));
	if (b == NULL) {
		return (NNG_ENOMEM);
	}
	*b = (struct ip_pipe_blk) { 0 };
	g_ip.pipes_made++;
	if (dialer) {
		g_ip.dpipe = &b->tp; g_ip.dpipe_np = b; g_ip.dref = 2; g_ip.dclosed = false;
	} else {
		g_ip.lpipe = &b->tp; g_ip.lpipe_np = b; g_ip.lref = 2; g_ip.lclosed = false;
	}
	(void) inproc_pipe_init(&b->tp, (nni_pipe *) b);
	if (!ok) {
		/* pipe id or protocol part failed after the transport part was initialised */
		nni_pipe_close((nni_pipe *) b);
		nni_pipe_rele((nni_pipe *) b);
		return (rv);
	}
	*datap = &b->tp;
	return (0);
}
int
nni_pipe_alloc_dialer(void **datap, nni_dialer *d)
{
	g_ip.palloc_dialer = d;
	return (ip_pipe_create(datap, true));
}
int
nni_pipe_alloc_listener(void **datap, nni_listener *l)
{
	g_ip.palloc_listener = l;
	return (ip_pipe_create(datap, false));
}

/* ---- reference counts: the bodies of src/core/refcnt.c; the indirect call of the destructor is
 * resolved to inproc_pair_destroy (the only destructor this file registers) under an assertion ---- */
void
nni_refcnt_init(nni_refcnt *rc, unsigned value, void *data, void (*fini)(void *))
{
	nni_atomic_init(&rc->rc_cnt);
	nni_atomic_set(&rc->rc_cnt, value);
	rc->rc_data = data;
	rc->rc_fini = fini;
}
void nni_refcnt_hold(nni_refcnt *rc) { nni_atomic_inc(&rc->rc_cnt); }
void
nni_refcnt_rele(nni_refcnt *rc)
{
	if (nni_atomic_dec_nv(&rc->rc_cnt) == 0) {
		__CPROVER_assert(rc->rc_fini == inproc_pair_destroy, "destructor of the reference count is inproc_pair_destroy");
		inproc_pair_destroy(rc->rc_data);
	}
}

/* ---- misc ---- */
uint16_t  nni_sock_proto_id(nni_sock *s) { (void) s; return (g_sock_proto); }
nni_sock *nni_dialer_sock(nni_dialer *d) { (void) d; return (NULL); }
nni_sock *nni_listener_sock(nni_listener *l) { (void) l; return (NULL); }
#endif
