/* mem.h -- memcpy model of the inproc module (only in units that define IP_MEMCPY_MODEL; copy of the
 * idea of include/env_mem.h VP_MEMCPY_HAVOC_OBJECT, extended by ONE preserved byte).
 *
 * Sound over-approximation of memcpy into a heap byte buffer: the preconditions are checked, then the
 * WHOLE destination object is havocked and re-established are only
 *   - the copied bytes at the ghost indices g_k and g_hk (relative to this copy), and
 *   - the byte of the destination object at the absolute offset g_abs, when it lies OUTSIDE the written
 *     range (memcpy does not touch it).
 * Every behaviour of the real memcpy is a behaviour of this stub.  g_abs is an instantiation-hint
 * ghost: nni_msg_pull_up fills one new buffer with two memcpy calls (header, then body); the header
 * byte written by the first call survives the second one, and the postcondition about it is stated
 * for the g_abs that names its position (g_abs is universally quantified by the harness). */
#ifndef VP_INPROC_MEM_H
#define VP_INPROC_MEM_H
#ifdef IP_MEMCPY_MODEL
static inline void *
ip_memcpy(void *dst, const void *src, size_t n)
{
	__CPROVER_assert(__CPROVER_r_ok(src, n), "memcpy source region readable");
	__CPROVER_assert(__CPROVER_w_ok(dst, n), "memcpy destination region writeable");
	if (n > 0) {
		const uint8_t *s    = (const uint8_t *) src;
		uint8_t       *d    = (uint8_t *) dst;
		size_t         off  = (size_t) __CPROVER_POINTER_OFFSET(d);
		size_t         osz  = (size_t) __CPROVER_OBJECT_SIZE(d);
		uint8_t       *base = d - off;
		uint8_t        bk   = (g_k < n) ? s[g_k] : 0;
		uint8_t        bh   = (g_hk < n) ? s[g_hk] : 0;
		bool           keep = (g_abs < osz) && (g_abs < off || g_abs - off >= n);
		uint8_t        ba   = keep ? base[g_abs] : 0;
		__CPROVER_havoc_object(d);
		if (g_k < n) {
			d[g_k] = bk;
		}
		if (g_hk < n) {
			d[g_hk] = bh;
		}
		if (keep) {
			base[g_abs] = ba;
		}
	}
	return (dst);
}
#define memcpy ip_memcpy
#endif
#endif
