/* included BEFORE the real sources of the inproc TU (message.c, list.c, inproc.c) */
#ifndef VP_INPROC_PRE_H
#define VP_INPROC_PRE_H
#include "core/nng_impl.h"
#include "modules/message/spec.h"
#include "modules/inproc/spec.h"

/* ---- environment ghosts (one object: a contract names a single assigns target) ---- */
#define IP_NLOG 4
struct ip_env {
	/* completions, in order (nni_aio_finish / nni_aio_finish_error) */
	size_t   fin_calls;
	nni_aio *fin_aio[IP_NLOG];
	int      fin_rv[IP_NLOG];
	size_t   fin_count[IP_NLOG];
	nni_msg *fin_msg[IP_NLOG]; /* message attached to the aio when it completed */
	/* nni_aio_start */
	size_t            start_calls;
	nni_aio          *start_aio;
	nni_aio_cancel_fn start_fn;
	void             *start_arg;
	/* pipe layer (src/core/pipe.c) as seen by inproc_accept_clients */
	size_t palloc_calls;   /* nni_pipe_alloc_dialer + nni_pipe_alloc_listener calls */
	size_t pipes_made;     /* pipe objects created */
	size_t pipes_gone;     /* pipe objects destroyed */
	size_t pclose_calls;   /* nni_pipe_close calls */
	void  *dpipe, *lpipe;  /* transport part (inproc_pipe) of the last pipe made for a dialer / a listener */
	void  *dpipe_np, *lpipe_np; /* their nni_pipe handles */
	int    dref, lref;     /* their reference counts (2 at creation, as pipe_create) */
	bool   dclosed, lclosed;
	nni_dialer   *palloc_dialer;
	nni_listener *palloc_listener;
} g_ip;
bool g_aio_start_ok;   /* answer of nni_aio_start */
bool g_palloc_d_ok, g_palloc_l_ok; /* environment lets the dialer / listener side pipe creation succeed (allocation may still fail) */
int  g_palloc_rv;      /* error pipe_create reports when it does not (pipe id map / protocol part) */
bool g_palloc_late;    /* ... and that failure comes AFTER the transport part was initialised (pipe_create closes the half-made pipe itself) */
uint16_t g_sock_proto;

/* members of the harness-built state */
void *g_q;                       /* the inproc_queue */
void *g_r1, *g_r2, *g_w1, *g_w2; /* waiting readers / writers, in list order */
void *g_pipe;                    /* an inproc_pipe */
void *g_pair;                    /* an inproc_pair */
void *g_srv, *g_cli;             /* endpoints */
void *g_sa, *g_ca;               /* accept aio, connect aio */
void *g_m1, *g_m2;               /* messages of the first / second writer (pre-state) */
void *g_msel;                    /* ghost-selected message for the content clauses */
size_t g_abs;                    /* instantiation-hint ghost: absolute byte offset inside a copy destination (see post.h) */

#define VP_HAVOC_IP()                                                      \
	do {                                                                   \
		g_ip.fin_calls = 0; g_ip.start_calls = nondet_size_t(); g_ip.start_aio = nondet_ptr(); \
		g_ip.start_arg = nondet_ptr(); g_ip.start_fn = NULL;               \
		g_ip.palloc_calls = 0; g_ip.pipes_made = 0; g_ip.pipes_gone = 0; g_ip.pclose_calls = 0; \
		g_ip.dpipe = NULL; g_ip.lpipe = NULL; g_ip.dpipe_np = NULL; g_ip.lpipe_np = NULL; \
		g_ip.dref = 0; g_ip.lref = 0; g_ip.dclosed = false; g_ip.lclosed = false; \
		g_ip.palloc_dialer = NULL; g_ip.palloc_listener = NULL;            \
		g_aio_start_ok = nondet_bool(); g_palloc_d_ok = nondet_bool(); g_palloc_l_ok = nondet_bool(); \
		g_palloc_rv = nondet_int(); g_palloc_late = nondet_bool(); g_sock_proto = nondet_u16(); \
		g_q = nondet_ptr(); g_r1 = nondet_ptr(); g_r2 = nondet_ptr(); g_w1 = nondet_ptr(); g_w2 = nondet_ptr(); \
		g_pipe = nondet_ptr(); g_pair = nondet_ptr(); g_srv = nondet_ptr(); g_cli = nondet_ptr(); \
		g_sa = nondet_ptr(); g_ca = nondet_ptr(); g_m1 = nondet_ptr(); g_m2 = nondet_ptr(); g_msel = nondet_ptr(); \
		g_abs = nondet_size_t();                                           \
		__CPROVER_assume(g_ip.start_calls < ((size_t) 1 << 40));           \
	} while (0)
#endif
