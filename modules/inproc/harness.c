/* Harnesses of the inproc module.  Preconditions live in the contracts; the harness only builds the
 * object skeleton named by the unit's shape (queue, aios, lists linked with plain C; every other field
 * nondeterministic) and havocs the ghosts. */
#define VP_HAVOC_GHOSTS()                         \
	do {                                      \
		g_k = nondet_size_t(); g_j = nondet_size_t(); g_b = nondet_u8(); g_n = nondet_size_t(); \
		g_hk = nondet_size_t(); g_hb = nondet_u8(); g_p = nondet_ptr(); \
		g_free_calls = nondet_size_t(); g_alloc_ok = nondet_size_t(); \
		__CPROVER_assume(g_free_calls < ((size_t) 1 << 40) && g_alloc_ok < ((size_t) 1 << 40)); \
		VP_HAVOC_IP(); VP_HAVOC_SYNC();    \
	} while (0)

static void vp_list_init(nni_list *l, size_t off) { l->ll_offset = off; l->ll_head.ln_next = &l->ll_head; l->ll_head.ln_prev = &l->ll_head; }
static void vp_list_add(nni_list *l, nni_list_node *n)
{
	n->ln_prev = l->ll_head.ln_prev; n->ln_next = &l->ll_head;
	n->ln_prev->ln_next = n; l->ll_head.ln_prev = n;
}
static void vp_node_idle(nni_list_node *n) { n->ln_next = NULL; n->ln_prev = NULL; }
/* typed allocation of an object that always exists, contents nondeterministic */
#define VP_NEW(T, v) T *v = (T *) __CPROVER_allocate(sizeof(T), 0)

static nni_aio *vp_mk_aio(void)
{
	VP_NEW(nni_aio, a);
	vp_node_idle(&a->a_prov_node);
	return (a);
}
/* a message as src/core/message.c keeps it: header block inside the struct, body chunk = one heap buffer with the data
 * pointer somewhere inside; all contents nondeterministic (the contract's precondition constrains them) */
static nni_msg *vp_mk_msg(void)
{
	VP_NEW(nni_msg, m);
#ifdef IP_CAP
	size_t cap = (size_t) IP_CAP;
#else
	size_t cap = nondet_size_t();
#endif
	size_t   off = nondet_size_t();
	uint8_t *buf = (uint8_t *) __CPROVER_allocate(cap, 0);
	m->m_body.ch_buf = buf;
	m->m_body.ch_cap = cap;
	m->m_body.ch_ptr = (off < cap) ? buf + off : buf;
	return (m);
}
static nni_aio *vp_mk_writer(void)
{
	nni_aio *a = vp_mk_aio();
	a->a_msg   = vp_mk_msg();
	return (a);
}
static void vp_init_queue(inproc_queue *q)
{
	vp_list_init(&q->readers, offsetof(nni_aio, a_prov_node));
	vp_list_init(&q->writers, offsetof(nni_aio, a_prov_node));
}
/* readers nr, writers nw on q; names them g_r1.. / g_w1.. */
static void vp_fill_queue(inproc_queue *q, int nr, int nw)
{
	if (nr >= 1) { nni_aio *a = vp_mk_aio(); g_r1 = a; vp_list_add(&q->readers, &a->a_prov_node); }
	if (nr >= 2) { nni_aio *a = vp_mk_aio(); g_r2 = a; vp_list_add(&q->readers, &a->a_prov_node); }
	if (nw >= 1) { nni_aio *a = vp_mk_writer(); g_w1 = a; vp_list_add(&q->writers, &a->a_prov_node); }
	if (nw >= 2) { nni_aio *a = vp_mk_writer(); g_w2 = a; vp_list_add(&q->writers, &a->a_prov_node); }
}
static inproc_queue *vp_mk_queue(int nr, int nw)
{
	VP_NEW(inproc_queue, q);
	g_q = q;
	vp_init_queue(q);
	vp_fill_queue(q, nr, nw);
	return (q);
}

/* ---- message layer ---- */
void h_msg_pull_up(void)
{
	nni_msg *m;
	VP_HAVOC_GHOSTS();
#ifdef IP_PU_OWNERSHIP
	/* the ownership variant of the contract does not mention the content ghosts; the replaced
	 * nni_msg_insert contract requires its ghost equation, which is vacuous for an index out of range */
	g_k = SIZE_MAX;
#endif
	nni_msg_pull_up(m);
	VP_CANARY();
}

/* ---- trivial callbacks ---- */
void h_pipe_peer(void) { void *arg; VP_HAVOC_GHOSTS(); inproc_pipe_peer(arg); VP_CANARY(); }
void h_pipe_addr(void) { void *arg; VP_HAVOC_GHOSTS(); inproc_pipe_addr(arg); VP_CANARY(); }
void h_pipe_size(void) { VP_HAVOC_GHOSTS(); inproc_pipe_size(); VP_CANARY(); }
void h_pipe_init(void) { void *arg; nni_pipe *p; VP_HAVOC_GHOSTS(); inproc_pipe_init(arg, p); VP_CANARY(); }
void h_pipe_stop(void) { void *arg; VP_HAVOC_GHOSTS(); inproc_pipe_stop(arg); VP_CANARY(); }
void h_pipe_fini(void) { void *arg; VP_HAVOC_GHOSTS(); inproc_pipe_fini(arg); VP_CANARY(); }

/* ---- queue ---- */
void h_queue_run_closed(void)
{
	VP_HAVOC_GHOSTS();
	inproc_queue *q = vp_mk_queue(IP_R, IP_W);
	inproc_queue_run_closed(q);
	VP_CANARY();
}
void h_queue_run(void)
{
	VP_HAVOC_GHOSTS();
	inproc_queue *q = vp_mk_queue(IP_R, IP_W);
	inproc_queue_run(q);
	VP_CANARY();
}

void h_queue_cancel(void)
{
	nni_aio *aio; nng_err rv;
	VP_HAVOC_GHOSTS();
	inproc_queue *q = vp_mk_queue(IP_R, IP_W);
#if IP_CAN == 0
	g_ca = vp_mk_aio(); aio = g_ca;
#elif IP_CAN == 1
	aio = g_r1;
#elif IP_CAN == 2
	aio = g_r2;
#elif IP_CAN == 3
	aio = g_w1;
#else
	aio = g_w2;
#endif
	inproc_queue_cancel(aio, q, rv);
	VP_CANARY();
}
static inproc_pipe *vp_mk_pipe(void)
{
	VP_NEW(inproc_pipe, p);
	g_pipe = p;
	return (p);
}
#if IP_W >= 1
void h_pipe_send(void)
{
	VP_HAVOC_GHOSTS();
	inproc_queue *q = vp_mk_queue(IP_R, IP_W - 1);
	nni_aio *a = vp_mk_writer();
	if (IP_W == 1) { g_w1 = a; } else { g_w2 = a; }
	inproc_pipe *p = vp_mk_pipe();
	p->send_queue = q;
	inproc_pipe_send(p, a);
	VP_CANARY();
}
#endif
#if IP_R >= 1
void h_pipe_recv(void)
{
	VP_HAVOC_GHOSTS();
	inproc_queue *q = vp_mk_queue(IP_R - 1, IP_W);
	nni_aio *a = vp_mk_aio();
	if (IP_R == 1) { g_r1 = a; } else { g_r2 = a; }
	inproc_pipe *p = vp_mk_pipe();
	p->recv_queue = q;
	inproc_pipe_recv(p, a);
	VP_CANARY();
}
#endif
void h_pipe_close(void)
{
	void *arg;
	VP_HAVOC_GHOSTS();
#ifndef IP_NOPAIR
	VP_NEW(inproc_pair, pr);
	g_pair = pr;
	vp_init_queue(&pr->queues[0]);
	vp_init_queue(&pr->queues[1]);
	vp_fill_queue(&pr->queues[0], IP_R, 0);
	vp_fill_queue(&pr->queues[1], 0, IP_W);
	inproc_pipe *p = vp_mk_pipe();
	p->pair = pr;
	arg = p;
#endif
	inproc_pipe_close(arg);
	VP_CANARY();
}
static inproc_ep *vp_mk_ep(void)
{
	VP_NEW(inproc_ep, e);
	vp_list_init(&e->clients, offsetof(inproc_ep, node));
	vp_list_init(&e->aios, offsetof(nni_aio, a_prov_node));
	vp_node_idle(&e->node);
	return (e);
}
void h_accept_clients(void)
{
	VP_HAVOC_GHOSTS();
	inproc_ep *srv = vp_mk_ep(); g_srv = srv;
	inproc_ep *cli = vp_mk_ep(); g_cli = cli;
	vp_list_add(&srv->clients, &cli->node);
	nni_aio *ca = vp_mk_aio(); g_ca = ca;
	vp_list_add(&cli->aios, &ca->a_prov_node);
#if IP_SA == 1
	nni_aio *sa = vp_mk_aio(); g_sa = sa;
	vp_list_add(&srv->aios, &sa->a_prov_node);
#endif
	inproc_accept_clients(srv);
	VP_CANARY();
}
