/* Spec macros for src/sp/transport/inproc/inproc.c (C01 inproc clause, C03, C20).  No code.
 *
 * HARNESS-BUILT STATE (as modules/req, modules/bus).  An inproc queue keeps its waiting readers and
 * writers on two real intrusive nni_lists of aios.  The harness of each unit allocates the queue and a
 * CONSTANT number of aios (nondeterministic contents) and links them with plain C in the shape named by
 * the unit (-DIP_R=<readers> -DIP_W=<writers>); the contract states the SAME shape as plain conditions
 * (LIST_IS_*, OBJ_OK, DISTINCT).  Messages stay __CPROVER_is_fresh (real src/core/message.c objects).
 * The real src/core/list.c is compiled in and executed.  Lists are bounded (0..2 members): grade B.
 */
#ifndef VP_INPROC_SPEC_H
#define VP_INPROC_SPEC_H

#define L_HEAD(l) (&(l)->ll_head)
#define NODE_IDLE(n) ((n)->ln_next == NULL && (n)->ln_prev == NULL)
#define LIST_IS_EMPTY(l) ((l)->ll_head.ln_next == L_HEAD(l) && (l)->ll_head.ln_prev == L_HEAD(l))
#define LIST_IS_ONE(l, n1)                                                 \
	((l)->ll_head.ln_next == (n1) && (l)->ll_head.ln_prev == (n1) &&       \
	    (n1)->ln_next == L_HEAD(l) && (n1)->ln_prev == L_HEAD(l))
#define LIST_IS_TWO(l, n1, n2)                                             \
	((l)->ll_head.ln_next == (n1) && (n1)->ln_next == (n2) && (n2)->ln_next == L_HEAD(l) && \
	    (l)->ll_head.ln_prev == (n2) && (n2)->ln_prev == (n1) && (n1)->ln_prev == L_HEAD(l))
#define LIST_IS_THREE(l, n1, n2, n3)                                       \
	((l)->ll_head.ln_next == (n1) && (n1)->ln_next == (n2) && (n2)->ln_next == (n3) && (n3)->ln_next == L_HEAD(l) && \
	    (l)->ll_head.ln_prev == (n3) && (n3)->ln_prev == (n2) && (n2)->ln_prev == (n1) && (n1)->ln_prev == L_HEAD(l))
#define OBJ_OK(p, T) ((p) != NULL && __CPROVER_rw_ok((T *) (p), sizeof(T)) && __CPROVER_POINTER_OFFSET(p) == 0)
#define DISTINCT(a, b) (!__CPROVER_same_object((a), (b)))

/* members of the harness-built state */
#define Q ((inproc_queue *) g_q)
#define R1 ((nni_aio *) g_r1)
#define R2 ((nni_aio *) g_r2)
#define W1 ((nni_aio *) g_w1)
#define W2 ((nni_aio *) g_w2)
#define PN(a) (&(a)->a_prov_node)

#define IP_Q_LISTS_OK(q)                                                   \
	((q)->readers.ll_offset == offsetof(nni_aio, a_prov_node) &&           \
	    (q)->writers.ll_offset == offsetof(nni_aio, a_prov_node))

/* completion log (ghost, see pre.h): entry i names the aio, its result, byte count and the message
 * attached to the aio at that moment */
#define FIN(i, aio, rv, cnt)                                               \
	(g_ip.fin_aio[i] == (aio) && g_ip.fin_rv[i] == (int) (rv) && g_ip.fin_count[i] == (cnt))

#endif
