/* Contracts for src/sp/transport/inproc/inproc.c (redeclarations after the definitions).
 *
 * Properties served: C01 (inproc clause: a sent message reaches the peer's receive whole, once, in
 * order, or not at all), C03 (every message released exactly once; nothing touched after completion;
 * nothing leaked), C20 (allocation failure: clean error, nothing leaked).
 * Shapes: -DIP_R=<waiting readers 0..2> -DIP_W=<waiting writers 0..2>, see spec.h.
 */
#ifndef VP_INPROC_CONTRACTS_H
#define VP_INPROC_CONTRACTS_H
/* clang-format off */

/* the message layer's contracts (modules/message) for the callees replaced in the pull_up units; the
 * nni_msg_pull_up contract of that module is NOT used (its failure clause does not pin the body
 * chunk, and it has no content clause): this module states a stronger one and enforces it itself */
#define nni_msg_pull_up vp_message_module_pull_up_contract_unused
#include "modules/message/contracts.h"
#undef nni_msg_pull_up

#ifndef IP_R
#define IP_R 0
#endif
#ifndef IP_W
#define IP_W 0
#endif

/* ====================================================================== */
/* nni_msg_pull_up (src/core/message.c), as inproc needs it.
 * Variant CONTENT (default): ghost equations on (g_k,g_b) / (g_hk,g_hb) required, byte content ensured.
 * Variant -DIP_PU_OWNERSHIP: no ghost equations, no content clause (used where two messages are
 * pulled up in one call of the code under contract: one ghost pair cannot be tied to both). */
#ifdef IP_PU_OWNERSHIP
#define PU_GHOST_REQ(m) (1)
#define PU_SEL (0)
#else
#define PU_GHOST_REQ(m) (CH_GHOST_PRE(&(m)->m_body) && HDR_GHOST_PRE(m))
#define PU_SEL (1)
#endif
#define PU_COPY (RV != NULL && RV != m)
nni_msg *nni_msg_pull_up(nni_msg *m)
__CPROVER_requires(MSG_PRE(m))
__CPROVER_requires(PU_GHOST_REQ(m))
__CPROVER_assigns(*m, VP_HEAP_GHOSTS, __CPROVER_object_whole(m->m_body.ch_buf))
__CPROVER_frees(m, m->m_body.ch_buf)
/* failure (allocation): the original is still the caller's and is UNCHANGED; nothing leaked */
__CPROVER_ensures(RV == NULL ==> (!__CPROVER_was_freed(m) && !__CPROVER_was_freed(OLD(m->m_body.ch_buf)) && m->m_refcnt.v == OLD(m->m_refcnt.v) && m->m_header_len == OLD(m->m_header_len) && m->m_pipe == OLD(m->m_pipe)))
__CPROVER_ensures(RV == NULL ==> (CH_UNCHANGED(&m->m_body) && CH_FULL_SCALAR(&m->m_body)))
__CPROVER_ensures(RV == NULL ==> (g_alloc_ok - OLD(g_alloc_ok) == g_free_calls - OLD(g_free_calls)))
__CPROVER_ensures((RV == NULL && PU_SEL && g_k < m->m_body.ch_len) ==> CH_BYTE_AT(&m->m_body, g_k))
__CPROVER_ensures((RV == NULL && PU_SEL && g_hk < m->m_header_len) ==> HDR(m)[g_hk] == g_hb)
/* in place (unshared, enough room): header moved in front of the body */
__CPROVER_ensures(RV == m ==> (!__CPROVER_was_freed(m) && OLD(m->m_refcnt.v) == 1 && m->m_refcnt.v == 1 && m->m_header_len == 0 && m->m_pipe == OLD(m->m_pipe) && m->m_body.ch_len == OLD(m->m_body.ch_len) + OLD(m->m_header_len)))
__CPROVER_ensures(RV == m ==> CH_FULL_POST(&m->m_body))
__CPROVER_ensures(RV == m ==> (g_alloc_ok - OLD(g_alloc_ok) == g_free_calls - OLD(g_free_calls)))
__CPROVER_ensures((RV == m && PU_SEL && g_k < OLD(m->m_body.ch_len)) ==> m->m_body.ch_ptr[OLD(m->m_header_len) + g_k] == g_b)
__CPROVER_ensures((RV == m && PU_SEL && g_hk < OLD(m->m_header_len) && g_j == g_hk) ==> m->m_body.ch_ptr[g_hk] == g_hb)
/* by copy: a new unshared message; exactly one reference on the original dropped (released if it was the last) */
__CPROVER_ensures(PU_COPY ==> (__CPROVER_is_fresh(RV, sizeof(struct nng_msg)) && RV->m_header_len == 0 && RV->m_refcnt.v == 1 && RV->m_body.ch_len == OLD(m->m_body.ch_len) + OLD(m->m_header_len)))
#ifdef IP_PU_NOBUF
__CPROVER_ensures(PU_COPY ==> (RV->m_body.ch_cap > 0))
#else
__CPROVER_ensures(PU_COPY ==> (RV->m_body.ch_cap > 0 && __CPROVER_is_fresh(RV->m_body.ch_buf, RV->m_body.ch_cap) && __CPROVER_pointer_in_range_dfcc(RV->m_body.ch_buf, RV->m_body.ch_ptr, RV->m_body.ch_buf + RV->m_body.ch_cap) && CH_FULL_SCALAR(&RV->m_body)))
#endif
__CPROVER_ensures((PU_COPY && OLD(m->m_refcnt.v) > 1) ==> (!__CPROVER_was_freed(m) && !__CPROVER_was_freed(OLD(m->m_body.ch_buf)) && m->m_refcnt.v == OLD(m->m_refcnt.v) - 1 && VP_HEAP_DELTA(2, 0)))
__CPROVER_ensures((PU_COPY && OLD(m->m_refcnt.v) == 1) ==> (__CPROVER_was_freed(m) && __CPROVER_was_freed(OLD(m->m_body.ch_buf)) && VP_HEAP_DELTA(2, 2)))
__CPROVER_ensures((PU_COPY && PU_SEL && g_k < OLD(m->m_body.ch_len)) ==> RV->m_body.ch_ptr[OLD(m->m_header_len) + g_k] == g_b)
__CPROVER_ensures((PU_COPY && PU_SEL && g_hk < OLD(m->m_header_len) && g_abs == CH_OFF(&RV->m_body) + g_hk) ==> RV->m_body.ch_ptr[g_hk] == g_hb)
;

/* ====================================================================== */
/* trivial pipe callbacks */
static uint16_t inproc_pipe_peer(void *arg)
__CPROVER_requires(__CPROVER_is_fresh(arg, sizeof(inproc_pipe)))
__CPROVER_assigns()
__CPROVER_ensures(RV == ((inproc_pipe *) arg)->peer)
;
static const nng_sockaddr *inproc_pipe_addr(void *arg)
__CPROVER_requires(__CPROVER_is_fresh(arg, sizeof(inproc_pipe)))
__CPROVER_assigns()
__CPROVER_ensures(RV == &((inproc_pipe *) arg)->sa)
;
static size_t inproc_pipe_size(void)
__CPROVER_assigns()
__CPROVER_ensures(RV == sizeof(inproc_pipe))
;
static int inproc_pipe_init(void *arg, nni_pipe *p)
__CPROVER_requires(__CPROVER_is_fresh(arg, sizeof(inproc_pipe)))
__CPROVER_assigns(((inproc_pipe *) arg)->pipe)
__CPROVER_ensures(RV == 0 && ((inproc_pipe *) arg)->pipe == p)
;
/* stop: nothing to do for inproc (no I/O in flight that is not on a queue); touches nothing */
static void inproc_pipe_stop(void *arg)
__CPROVER_requires(1)
__CPROVER_assigns()
__CPROVER_ensures(1)
;
/* fini: drops this side's reference on the pair; the LAST one destroys the pair (both queue mutexes,
 * then the block, released with its size); a pipe that never got a pair releases nothing */
#define PAIR_PRE(pr) (__CPROVER_is_fresh((pr), sizeof(inproc_pair)) && (pr)->ref.rc_cnt.v >= 1 && (pr)->ref.rc_cnt.v <= 2 && (pr)->ref.rc_fini == inproc_pair_destroy)
static void inproc_pipe_fini(void *arg)
__CPROVER_requires(__CPROVER_is_fresh(arg, sizeof(inproc_pipe)))
__CPROVER_requires(((inproc_pipe *) arg)->pair == NULL || (PAIR_PRE(((inproc_pipe *) arg)->pair) && __CPROVER_pointer_in_range_dfcc((void *) ((inproc_pipe *) arg)->pair, ((inproc_pipe *) arg)->pair->ref.rc_data, (void *) ((inproc_pipe *) arg)->pair)))
__CPROVER_requires(VP_NO_LOCK_HELD)
__CPROVER_assigns(VP_HEAP_GHOSTS; ((inproc_pipe *) arg)->pair != NULL: ((inproc_pipe *) arg)->pair->ref.rc_cnt)
__CPROVER_frees(((inproc_pipe *) arg)->pair != NULL: ((inproc_pipe *) arg)->pair)
__CPROVER_ensures(OLD(((inproc_pipe *) arg)->pair) == NULL ==> VP_HEAP_DELTA(0, 0))
__CPROVER_ensures((OLD(((inproc_pipe *) arg)->pair) != NULL && OLD(((inproc_pipe *) arg)->pair->ref.rc_cnt.v) == 2) ==> (VP_HEAP_DELTA(0, 0) && !__CPROVER_was_freed(OLD(((inproc_pipe *) arg)->pair)) && ((inproc_pipe *) arg)->pair->ref.rc_cnt.v == 1))
__CPROVER_ensures((OLD(((inproc_pipe *) arg)->pair) != NULL && OLD(((inproc_pipe *) arg)->pair->ref.rc_cnt.v) == 1) ==> (VP_HEAP_DELTA(0, 1) && __CPROVER_was_freed(OLD(((inproc_pipe *) arg)->pair))))
;

/* ====================================================================== */
/* harness-built queue shapes */
#define AIO_PRE(a) (OBJ_OK((a), nni_aio) && DISTINCT((a), g_q))
#define AIO_ASSIGNS(a) (a)->a_prov_node, (a)->a_result, (a)->a_count, (a)->a_msg
#if IP_R == 0
#define IP_READERS_PRE (LIST_IS_EMPTY(&Q->readers))
#elif IP_R == 1
#define IP_READERS_PRE (AIO_PRE(g_r1) && LIST_IS_ONE(&Q->readers, PN(R1)))
#else
#define IP_READERS_PRE (AIO_PRE(g_r1) && AIO_PRE(g_r2) && DISTINCT(g_r1, g_r2) && LIST_IS_TWO(&Q->readers, PN(R1), PN(R2)))
#endif
#if IP_W == 0
#define IP_WRITERS_PRE (LIST_IS_EMPTY(&Q->writers))
#elif IP_W == 1
#define IP_WRITERS_PRE (AIO_PRE(g_w1) && LIST_IS_ONE(&Q->writers, PN(W1)))
#else
#define IP_WRITERS_PRE (AIO_PRE(g_w1) && AIO_PRE(g_w2) && DISTINCT(g_w1, g_w2) && LIST_IS_TWO(&Q->writers, PN(W1), PN(W2)))
#endif
#if IP_R >= 1 && IP_W >= 1
#define IP_X11 DISTINCT(g_r1, g_w1)
#else
#define IP_X11 1
#endif
#if IP_R >= 2 && IP_W >= 1
#define IP_X21 DISTINCT(g_r2, g_w1)
#else
#define IP_X21 1
#endif
#if IP_R >= 1 && IP_W >= 2
#define IP_X12 DISTINCT(g_r1, g_w2)
#else
#define IP_X12 1
#endif
#if IP_R >= 2 && IP_W >= 2
#define IP_X22 DISTINCT(g_r2, g_w2)
#else
#define IP_X22 1
#endif
#define IP_QUEUE_PRE (OBJ_OK(g_q, inproc_queue) && IP_Q_LISTS_OK(Q) && IP_READERS_PRE && IP_WRITERS_PRE && IP_X11 && IP_X21 && IP_X12 && IP_X22 && g_ip.fin_calls == 0)

#if IP_R == 0
#define IP_R_ASSIGNS
#elif IP_R == 1
#define IP_R_ASSIGNS , AIO_ASSIGNS(R1)
#else
#define IP_R_ASSIGNS , AIO_ASSIGNS(R1), AIO_ASSIGNS(R2)
#endif
#if IP_W == 0
#define IP_W_ASSIGNS
#elif IP_W == 1
#define IP_W_ASSIGNS , AIO_ASSIGNS(W1)
#else
#define IP_W_ASSIGNS , AIO_ASSIGNS(W1), AIO_ASSIGNS(W2)
#endif
#define IP_QUEUE_ASSIGNS Q->readers.ll_head, Q->writers.ll_head, g_ip IP_R_ASSIGNS IP_W_ASSIGNS

/* an aio failed with `err`: off the list, result stored, exactly one completion (log entry i), and its
 * message (if any) is STILL ATTACHED: ownership stays with the submitter (C03) */
#define AIO_FAILED(i, a, err) (FIN(i, (a), (err), 0) && g_ip.fin_msg[i] == OLD((a)->a_msg) && (a)->a_msg == OLD((a)->a_msg) && (a)->a_result == (err) && (a)->a_count == 0 && NODE_IDLE(PN(a)))

/* ====================================================================== */
/* inproc_queue_run_closed: every waiting aio fails with NNG_ECLOSED exactly once, readers first, each
 * in queue order; both lists end empty; no message is taken from its sender */
#if IP_R == 0
#define RC_READERS 1
#elif IP_R == 1
#define RC_READERS AIO_FAILED(0, R1, NNG_ECLOSED)
#else
#define RC_READERS (AIO_FAILED(0, R1, NNG_ECLOSED) && AIO_FAILED(1, R2, NNG_ECLOSED))
#endif
#if IP_W == 0
#define RC_WRITERS 1
#elif IP_W == 1
#define RC_WRITERS AIO_FAILED(IP_R, W1, NNG_ECLOSED)
#else
#define RC_WRITERS (AIO_FAILED(IP_R, W1, NNG_ECLOSED) && AIO_FAILED(IP_R + 1, W2, NNG_ECLOSED))
#endif
#define IP_RUN_CLOSED_POST (g_ip.fin_calls == IP_R + IP_W && LIST_IS_EMPTY(&Q->readers) && LIST_IS_EMPTY(&Q->writers) && RC_READERS && RC_WRITERS)

static void inproc_queue_run_closed(inproc_queue *queue)
__CPROVER_requires(IP_QUEUE_PRE && queue == Q)
__CPROVER_assigns(IP_QUEUE_ASSIGNS)
__CPROVER_ensures(IP_RUN_CLOSED_POST)
;

/* ====================================================================== */
/* inproc_queue_run (C01/C03/C20): the matching loop of one direction.
 *
 * closed queue: as inproc_queue_run_closed.
 * open queue: while a reader and a writer wait, the FIRST writer completes with result 0 and the full
 * length (header + body) and no longer has the message (the library owns it now); that message is
 * made whole by nni_msg_pull_up and handed to the FIRST reader, which completes with result 0 and
 * the same length; reader and writer leave their lists.  If pull_up cannot allocate, the message is
 * released exactly once and the reader KEEPS WAITING for the next writer ("delivered completely or
 * not at all"; the send had already been accepted).  Order of completions is the queue order.
 */
/* The messages of the waiting writers are HARNESS-BUILT like the aios (harness.c vp_mk_msg): a struct nng_msg object
 * and a body buffer object of nondeterministic size (-DIP_CAP=N: of the constant size N), data pointer anywhere inside;
 * every field nondeterministic.  The contract states the same shape as plain conditions (is_fresh in the precondition
 * of the function under contract made CBMC's points-to sets of aio->a_msg include the contract library's internal
 * tables: 50 M clauses).  nni_msg_pull_up's own precondition (MSG_PRE, is_fresh form) is CHECKED at the replaced call. */
#define IP_BUF_OK(m) ((m)->m_body.ch_buf != NULL && __CPROVER_POINTER_OFFSET((m)->m_body.ch_buf) == 0 && __CPROVER_OBJECT_SIZE((m)->m_body.ch_buf) == (m)->m_body.ch_cap && \
    __CPROVER_rw_ok((m)->m_body.ch_buf, (m)->m_body.ch_cap) && __CPROVER_same_object((m)->m_body.ch_buf, (m)->m_body.ch_ptr) && DISTINCT((m)->m_body.ch_buf, (m)))
#define IP_MSG_PRE(m) (OBJ_OK((m), struct nng_msg) && DISTINCT((m), g_q) && (m)->m_header_len <= MSG_HDRCAP && (m)->m_body.ch_cap > 0 && (m)->m_body.ch_cap < ((size_t) 1 << 55) /* CBMC's maximum object size, as __CPROVER_is_fresh implies */ && IP_BUF_OK(m) && \
    CH_FULL_SCALAR(&(m)->m_body) && (m)->m_refcnt.v >= 1)
#define MSG_LIVE_PRE(a) (IP_MSG_PRE((a)->a_msg) && (a)->a_msg->m_refcnt.v < 1000)
#if IP_W == 0
#define IP_MSGS_PRE 1
#elif IP_W == 1
#define IP_MSGS_PRE (MSG_LIVE_PRE(W1) && PU_GHOST_REQ(W1->a_msg))
#else
#define IP_MSGS_PRE (MSG_LIVE_PRE(W1) && MSG_LIVE_PRE(W2) && DISTINCT(W1->a_msg, W2->a_msg) && DISTINCT(W1->a_msg->m_body.ch_buf, W2->a_msg->m_body.ch_buf) && DISTINCT(W1->a_msg, W2->a_msg->m_body.ch_buf) && DISTINCT(W2->a_msg, W1->a_msg->m_body.ch_buf))
#endif
#if IP_W == 0
#define IP_MSGS_ASSIGNS
#define IP_MSGS_FREES
#elif IP_W == 1
#define IP_MSGS_ASSIGNS , *(W1->a_msg), __CPROVER_object_whole(W1->a_msg->m_body.ch_buf)
#define IP_MSGS_FREES W1->a_msg, W1->a_msg->m_body.ch_buf
#else
#define IP_MSGS_ASSIGNS , *(W1->a_msg), __CPROVER_object_whole(W1->a_msg->m_body.ch_buf), *(W2->a_msg), __CPROVER_object_whole(W2->a_msg->m_body.ch_buf)
#define IP_MSGS_FREES W1->a_msg, W1->a_msg->m_body.ch_buf, W2->a_msg, W2->a_msg->m_body.ch_buf
#endif

/* pre-state facts of writer w's message */
#define O_MSG(w) OLD((w)->a_msg)
#define O_HL(w) OLD((w)->a_msg->m_header_len)
#define O_BL(w) OLD((w)->a_msg->m_body.ch_len)
#define O_RC(w) OLD((w)->a_msg->m_refcnt.v)
/* writer w completed as log entry i: success, full length, message handed over */
#define W_DONE(i, w) (FIN(i, (w), 0, O_HL(w) + O_BL(w)) && g_ip.fin_msg[i] == NULL && (w)->a_msg == NULL && (w)->a_result == 0 && (w)->a_count == O_HL(w) + O_BL(w) && NODE_IDLE(PN(w)))
/* writer w untouched and still waiting with its message */
#define W_WAITS(w) ((w)->a_msg == O_MSG(w) && !__CPROVER_was_freed(O_MSG(w)) && (w)->a_msg->m_refcnt.v == O_RC(w) && (w)->a_msg->m_header_len == O_HL(w) && (w)->a_msg->m_body.ch_len == O_BL(w))
/* reader r completed as log entry i with writer w's message, whole: empty header, length = header +
 * body, unshared; it is the original (in place) or a new message with one reference of the original dropped */
#define R_GOT(i, r, w) (FIN(i, (r), 0, O_HL(w) + O_BL(w)) && g_ip.fin_msg[i] == (r)->a_msg && (r)->a_result == 0 && (r)->a_count == O_HL(w) + O_BL(w) && NODE_IDLE(PN(r)) && \
    (r)->a_msg != NULL && (r)->a_msg->m_header_len == 0 && (r)->a_msg->m_body.ch_len == O_HL(w) + O_BL(w) && (r)->a_msg->m_refcnt.v == 1 && \
    (((r)->a_msg == O_MSG(w)) ? (O_RC(w) == 1 && !__CPROVER_was_freed(O_MSG(w))) : (O_RC(w) == 1 ? __CPROVER_was_freed(O_MSG(w)) : (!__CPROVER_was_freed(O_MSG(w)) && O_MSG(w)->m_refcnt.v == O_RC(w) - 1))))
/* byte content of what reader r got from writer w (CONTENT variant; g_j, g_abs instantiation hints) */
#ifdef IP_PU_OWNERSHIP
#define R_BYTES(r, w) (1)
#else
#define R_BYTES(r, w) ((g_k < O_BL(w) ==> (r)->a_msg->m_body.ch_ptr[O_HL(w) + g_k] == g_b) && \
    ((g_hk < O_HL(w) && g_j == g_hk && g_abs == CH_OFF(&(r)->a_msg->m_body) + g_hk) ==> (r)->a_msg->m_body.ch_ptr[g_hk] == g_hb))
#endif
/* writer w's message was not delivered: released exactly once */
#define M_DROPPED(w) (O_RC(w) == 1 ? __CPROVER_was_freed(O_MSG(w)) : (!__CPROVER_was_freed(O_MSG(w)) && O_MSG(w)->m_refcnt.v == O_RC(w) - 1))
/* reader r still waits: nothing delivered to it.  IP_IS_NEW(r): r is the aio just submitted through
 * inproc_pipe_recv (its result and count were reset by nni_aio_reset before it was queued) */
#define IP_IS_NEW(r) (0)
#define R_WAITS(r) ((r)->a_msg == OLD((r)->a_msg) && (IP_IS_NEW(r) ? ((r)->a_result == NNG_OK && (r)->a_count == 0) : ((r)->a_result == OLD((r)->a_result) && (r)->a_count == OLD((r)->a_count))))
/* net heap effect: live blocks after - live blocks before */
/* (size_t arithmetic modulo 2^64: -2 is written (size_t) -2; the counters themselves are below 2^40) */
#define HEAP_NET ((size_t) ((g_alloc_ok - OLD(g_alloc_ok)) - (g_free_calls - OLD(g_free_calls))))

#if IP_R == 0 || IP_W == 0
/* nobody to match: nothing happens at all */
#if IP_R == 0
#define NM_R 1
#elif IP_R == 1
#define NM_R (LIST_IS_ONE(&Q->readers, PN(R1)) && R_WAITS(R1))
#else
#define NM_R (LIST_IS_TWO(&Q->readers, PN(R1), PN(R2)) && R_WAITS(R1) && R_WAITS(R2))
#endif
#if IP_W == 0
#define NM_W 1
#elif IP_W == 1
#define NM_W (LIST_IS_ONE(&Q->writers, PN(W1)) && W_WAITS(W1))
#else
#define NM_W (LIST_IS_TWO(&Q->writers, PN(W1), PN(W2)) && W_WAITS(W1) && W_WAITS(W2))
#endif
#define IP_RUN_OPEN_POST (g_ip.fin_calls == 0 && (IP_R == 0 ? LIST_IS_EMPTY(&Q->readers) : 1) && (IP_W == 0 ? LIST_IS_EMPTY(&Q->writers) : 1) && NM_R && NM_W && VP_HEAP_DELTA(0, 0))
#elif IP_R == 1 && IP_W == 1
#define IP_RUN_OPEN_POST (W_DONE(0, W1) && LIST_IS_EMPTY(&Q->writers) && \
    ((g_ip.fin_calls == 2 && R_GOT(1, R1, W1) && R_BYTES(R1, W1) && LIST_IS_EMPTY(&Q->readers) && HEAP_NET == ((R1->a_msg != O_MSG(W1) && O_RC(W1) > 1) ? (size_t) 2 : (size_t) 0)) || \
     (g_ip.fin_calls == 1 && M_DROPPED(W1) && LIST_IS_ONE(&Q->readers, PN(R1)) && R_WAITS(R1) && HEAP_NET == (O_RC(W1) == 1 ? (size_t) -2 : (size_t) 0))))
#elif IP_R == 2 && IP_W == 1
#define IP_RUN_OPEN_POST (W_DONE(0, W1) && LIST_IS_EMPTY(&Q->writers) && R_WAITS(R2) && \
    ((g_ip.fin_calls == 2 && R_GOT(1, R1, W1) && R_BYTES(R1, W1) && LIST_IS_ONE(&Q->readers, PN(R2)) && HEAP_NET == ((R1->a_msg != O_MSG(W1) && O_RC(W1) > 1) ? (size_t) 2 : (size_t) 0)) || \
     (g_ip.fin_calls == 1 && M_DROPPED(W1) && LIST_IS_TWO(&Q->readers, PN(R1), PN(R2)) && R_WAITS(R1) && HEAP_NET == (O_RC(W1) == 1 ? (size_t) -2 : (size_t) 0))))
#elif IP_R == 1 && IP_W == 2
/* first message delivered: the second writer keeps waiting, untouched; first message dropped: the reader
 * is served by the second writer (or keeps waiting if that one is dropped as well) */
#define IP_RUN_OPEN_POST (W_DONE(0, W1) && \
    ((g_ip.fin_calls == 2 && R_GOT(1, R1, W1) && LIST_IS_EMPTY(&Q->readers) && LIST_IS_ONE(&Q->writers, PN(W2)) && W_WAITS(W2)) || \
     (g_ip.fin_calls == 3 && M_DROPPED(W1) && W_DONE(1, W2) && R_GOT(2, R1, W2) && LIST_IS_EMPTY(&Q->readers) && LIST_IS_EMPTY(&Q->writers)) || \
     (g_ip.fin_calls == 2 && M_DROPPED(W1) && W_DONE(1, W2) && M_DROPPED(W2) && LIST_IS_ONE(&Q->readers, PN(R1)) && R_WAITS(R1) && LIST_IS_EMPTY(&Q->writers))))
#else
/* two readers, two writers: pairs are formed in queue order; a dropped message does not use up a reader */
#define IP_RUN_OPEN_POST (W_DONE(0, W1) && LIST_IS_EMPTY(&Q->writers) && \
    ((g_ip.fin_calls == 4 && R_GOT(1, R1, W1) && W_DONE(2, W2) && R_GOT(3, R2, W2) && LIST_IS_EMPTY(&Q->readers)) || \
     (g_ip.fin_calls == 3 && R_GOT(1, R1, W1) && W_DONE(2, W2) && M_DROPPED(W2) && LIST_IS_ONE(&Q->readers, PN(R2)) && R_WAITS(R2)) || \
     (g_ip.fin_calls == 3 && M_DROPPED(W1) && W_DONE(1, W2) && R_GOT(2, R1, W2) && LIST_IS_ONE(&Q->readers, PN(R2)) && R_WAITS(R2)) || \
     (g_ip.fin_calls == 2 && M_DROPPED(W1) && W_DONE(1, W2) && M_DROPPED(W2) && LIST_IS_TWO(&Q->readers, PN(R1), PN(R2)) && R_WAITS(R1) && R_WAITS(R2))))
#endif

#ifdef IP_CLOSED
#define IP_RUN_POST IP_RUN_CLOSED_POST
#define IP_CLOSED_PRE (Q->closed)
#define IP_RUN_MSGS_PRE 1
#define IP_RUN_MSGS_ASSIGNS
#define IP_RUN_MSGS_FREES
#else
#define IP_RUN_POST IP_RUN_OPEN_POST
#define IP_CLOSED_PRE (!Q->closed)
#define IP_RUN_MSGS_PRE IP_MSGS_PRE
#define IP_RUN_MSGS_ASSIGNS IP_MSGS_ASSIGNS
#define IP_RUN_MSGS_FREES IP_MSGS_FREES
#endif

static void inproc_queue_run(inproc_queue *queue)
__CPROVER_requires(IP_QUEUE_PRE && queue == Q && IP_CLOSED_PRE)
__CPROVER_requires(IP_RUN_MSGS_PRE)
__CPROVER_assigns(IP_QUEUE_ASSIGNS, VP_HEAP_GHOSTS IP_RUN_MSGS_ASSIGNS)
__CPROVER_frees(IP_RUN_MSGS_FREES)
__CPROVER_ensures(IP_RUN_POST)
;


/* ====================================================================== */
/* inproc_queue_cancel (C03: single winner).  The cancel callback completes the aio with `rv` ONLY if it
 * is still on its wait list (then: off the list, one completion, message still attached, the other
 * waiters keep their order); an aio that already left the list (completed by the matching loop or by
 * close) is NOT touched and NOT completed a second time.  -DIP_CAN: 0 = aio is on no list,
 * 1 = first reader, 2 = second reader, 3 = first writer, 4 = second writer. */
#ifndef IP_CAN
#define IP_CAN 0
#endif
#define CA ((nni_aio *) g_ca)
#if IP_R >= 1
#define CA_NR1 DISTINCT(g_ca, g_r1)
#else
#define CA_NR1 1
#endif
#if IP_R >= 2
#define CA_NR2 DISTINCT(g_ca, g_r2)
#else
#define CA_NR2 1
#endif
#if IP_W >= 1
#define CA_NW1 DISTINCT(g_ca, g_w1)
#else
#define CA_NW1 1
#endif
#if IP_W >= 2
#define CA_NW2 DISTINCT(g_ca, g_w2)
#else
#define CA_NW2 1
#endif
#if IP_CAN == 0
#define CAN_PRE (AIO_PRE(g_ca) && aio == CA && NODE_IDLE(PN(CA)) && CA_NR1 && CA_NR2 && CA_NW1 && CA_NW2)
#define CAN_ASSIGNS
#define CAN_POST (g_ip.fin_calls == 0 && NODE_IDLE(PN(CA)) && CAN_R_SAME && CAN_W_SAME)
#elif IP_CAN == 1
#define CAN_PRE (aio == R1)
#define CAN_ASSIGNS
#if IP_R == 1
#define CAN_POST (g_ip.fin_calls == 1 && AIO_FAILED(0, R1, rv) && LIST_IS_EMPTY(&Q->readers) && CAN_W_SAME)
#else
#define CAN_POST (g_ip.fin_calls == 1 && AIO_FAILED(0, R1, rv) && LIST_IS_ONE(&Q->readers, PN(R2)) && CAN_W_SAME)
#endif
#elif IP_CAN == 2
#define CAN_PRE (aio == R2)
#define CAN_ASSIGNS
#define CAN_POST (g_ip.fin_calls == 1 && AIO_FAILED(0, R2, rv) && LIST_IS_ONE(&Q->readers, PN(R1)) && CAN_W_SAME)
#elif IP_CAN == 3
#define CAN_PRE (aio == W1)
#define CAN_ASSIGNS
#if IP_W == 1
#define CAN_POST (g_ip.fin_calls == 1 && AIO_FAILED(0, W1, rv) && LIST_IS_EMPTY(&Q->writers) && CAN_R_SAME)
#else
#define CAN_POST (g_ip.fin_calls == 1 && AIO_FAILED(0, W1, rv) && LIST_IS_ONE(&Q->writers, PN(W2)) && CAN_R_SAME)
#endif
#else
#define CAN_PRE (aio == W2)
#define CAN_ASSIGNS
#define CAN_POST (g_ip.fin_calls == 1 && AIO_FAILED(0, W2, rv) && LIST_IS_ONE(&Q->writers, PN(W1)) && CAN_R_SAME)
#endif
#if IP_R == 0
#define CAN_R_SAME LIST_IS_EMPTY(&Q->readers)
#elif IP_R == 1
#define CAN_R_SAME LIST_IS_ONE(&Q->readers, PN(R1))
#else
#define CAN_R_SAME LIST_IS_TWO(&Q->readers, PN(R1), PN(R2))
#endif
#if IP_W == 0
#define CAN_W_SAME LIST_IS_EMPTY(&Q->writers)
#elif IP_W == 1
#define CAN_W_SAME LIST_IS_ONE(&Q->writers, PN(W1))
#else
#define CAN_W_SAME LIST_IS_TWO(&Q->writers, PN(W1), PN(W2))
#endif
static void inproc_queue_cancel(nni_aio *aio, void *arg, nng_err rv)
__CPROVER_requires(IP_QUEUE_PRE && arg == (void *) Q && CAN_PRE && VP_NO_LOCK_HELD)
__CPROVER_assigns(IP_QUEUE_ASSIGNS, VP_SYNC_GHOSTS)
__CPROVER_ensures(CAN_POST)
__CPROVER_ensures(VP_NO_LOCK_HELD && g_lock_ops == OLD(g_lock_ops) + 2)
;

/* ====================================================================== */
/* inproc_pipe_send / inproc_pipe_recv (C01/C03).  The aio is reset, offered to nni_aio_start with
 * inproc_queue_cancel and the queue as cancel handler; refused -> NOT queued, not completed by the
 * transport, message still attached; accepted -> appended at the TAIL of the writers (readers) list and
 * the queue is run: postcondition of inproc_queue_run for the shape that includes the new aio
 * (-DIP_R/-DIP_W count the new one; it is the LAST writer resp. reader).  Closed queue: NNG_ECLOSED. */
#define PIPE ((inproc_pipe *) g_pipe)
#define IP_PIPE_PRE (OBJ_OK(g_pipe, inproc_pipe) && DISTINCT(g_pipe, g_q))
#define NEWAIO_ASSIGNS(a) (a)->a_abort, (a)->a_expire_ok, (a)->a_sleep, (a)->a_skipped_callback, (a)->a_outputs
#if IP_W == 1
#define SEND_AIO W1
#define SEND_W_PRE (LIST_IS_EMPTY(&Q->writers) && AIO_PRE(g_w1) && NODE_IDLE(PN(W1)))
#define SEND_W_SAME (LIST_IS_EMPTY(&Q->writers))
#elif IP_W == 2
#define SEND_AIO W2
#define SEND_W_PRE (AIO_PRE(g_w1) && AIO_PRE(g_w2) && DISTINCT(g_w1, g_w2) && LIST_IS_ONE(&Q->writers, PN(W1)) && NODE_IDLE(PN(W2)))
#define SEND_W_SAME (LIST_IS_ONE(&Q->writers, PN(W1)) && W_WAITS(W1))
#endif
#if IP_R == 1
#define RECV_AIO R1
#define RECV_R_PRE (LIST_IS_EMPTY(&Q->readers) && AIO_PRE(g_r1) && NODE_IDLE(PN(R1)))
#define RECV_R_SAME (LIST_IS_EMPTY(&Q->readers))
#elif IP_R == 2
#define RECV_AIO R2
#define RECV_R_PRE (AIO_PRE(g_r1) && AIO_PRE(g_r2) && DISTINCT(g_r1, g_r2) && LIST_IS_ONE(&Q->readers, PN(R1)) && NODE_IDLE(PN(R2)))
#define RECV_R_SAME (LIST_IS_ONE(&Q->readers, PN(R1)) && R_WAITS(R1))
#endif
#define STARTED(a) (g_ip.start_calls == OLD(g_ip.start_calls) + 1 && g_ip.start_aio == (a) && g_ip.start_fn == inproc_queue_cancel && g_ip.start_arg == (void *) Q)

#if IP_W >= 1
static void inproc_pipe_send(void *arg, nni_aio *aio)
__CPROVER_requires(IP_PIPE_PRE && arg == g_pipe && PIPE->send_queue == Q && aio == SEND_AIO && VP_NO_LOCK_HELD)
__CPROVER_requires(OBJ_OK(g_q, inproc_queue) && IP_Q_LISTS_OK(Q) && IP_READERS_PRE && SEND_W_PRE && IP_X11 && IP_X21 && IP_X12 && IP_X22 && g_ip.fin_calls == 0 && IP_CLOSED_PRE)
__CPROVER_requires(IP_MSGS_PRE)
__CPROVER_assigns(IP_QUEUE_ASSIGNS, VP_HEAP_GHOSTS, VP_SYNC_GHOSTS, NEWAIO_ASSIGNS(SEND_AIO) IP_MSGS_ASSIGNS)
__CPROVER_frees(IP_MSGS_FREES)
__CPROVER_ensures(STARTED(SEND_AIO) && VP_NO_LOCK_HELD && g_lock_ops == OLD(g_lock_ops) + 2)
/* refused: nothing queued, nothing completed, the message stays with the sender */
__CPROVER_ensures(!g_aio_start_ok ==> (g_ip.fin_calls == 0 && NODE_IDLE(PN(SEND_AIO)) && W_WAITS(SEND_AIO) && SEND_W_SAME && CAN_R_SAME && VP_HEAP_DELTA(0, 0)))
__CPROVER_ensures(g_aio_start_ok ==> IP_RUN_POST)
;
#endif
#if IP_R >= 1
#undef IP_IS_NEW
#define IP_IS_NEW(r) ((r) == RECV_AIO)
static void inproc_pipe_recv(void *arg, nni_aio *aio)
__CPROVER_requires(IP_PIPE_PRE && arg == g_pipe && PIPE->recv_queue == Q && aio == RECV_AIO && VP_NO_LOCK_HELD)
__CPROVER_requires(OBJ_OK(g_q, inproc_queue) && IP_Q_LISTS_OK(Q) && RECV_R_PRE && IP_WRITERS_PRE && IP_X11 && IP_X21 && IP_X12 && IP_X22 && g_ip.fin_calls == 0 && IP_CLOSED_PRE)
__CPROVER_requires(IP_MSGS_PRE)
__CPROVER_assigns(IP_QUEUE_ASSIGNS, VP_HEAP_GHOSTS, VP_SYNC_GHOSTS, NEWAIO_ASSIGNS(RECV_AIO) IP_MSGS_ASSIGNS)
__CPROVER_frees(IP_MSGS_FREES)
__CPROVER_ensures(STARTED(RECV_AIO) && VP_NO_LOCK_HELD && g_lock_ops == OLD(g_lock_ops) + 2)
__CPROVER_ensures(!g_aio_start_ok ==> (g_ip.fin_calls == 0 && NODE_IDLE(PN(RECV_AIO)) && RECV_AIO->a_msg == OLD(RECV_AIO->a_msg) && RECV_R_SAME && CAN_W_SAME && VP_HEAP_DELTA(0, 0)))
__CPROVER_ensures(g_aio_start_ok ==> IP_RUN_POST)
;
#endif

/* ====================================================================== */
/* inproc_pipe_close (C03): BOTH directions of the connection are marked closed and every aio waiting on
 * either queue fails with NNG_ECLOSED exactly once (messages stay with their senders); a pipe that was
 * never paired (connection set-up failed half way) has nothing to close.
 * Shape: queue 0 of the pair holds IP_R waiting readers, queue 1 holds IP_W waiting writers
 * (a queue never holds readers and writers at once between calls: the matching loop pairs them). */
#define PAIR ((inproc_pair *) g_pair)
#define Q0 (&PAIR->queues[0])
#define Q1 (&PAIR->queues[1])
#if IP_R == 0
#define PC_Q0_PRE (LIST_IS_EMPTY(&Q0->readers))
#define PC_Q0_POST 1
#elif IP_R == 1
#define PC_Q0_PRE (OBJ_OK(g_r1, nni_aio) && DISTINCT(g_r1, g_pair) && LIST_IS_ONE(&Q0->readers, PN(R1)))
#define PC_Q0_POST AIO_FAILED(0, R1, NNG_ECLOSED)
#else
#define PC_Q0_PRE (OBJ_OK(g_r1, nni_aio) && OBJ_OK(g_r2, nni_aio) && DISTINCT(g_r1, g_pair) && DISTINCT(g_r2, g_pair) && DISTINCT(g_r1, g_r2) && LIST_IS_TWO(&Q0->readers, PN(R1), PN(R2)))
#define PC_Q0_POST (AIO_FAILED(0, R1, NNG_ECLOSED) && AIO_FAILED(1, R2, NNG_ECLOSED))
#endif
#if IP_W == 0
#define PC_Q1_PRE (LIST_IS_EMPTY(&Q1->writers))
#define PC_Q1_POST 1
#elif IP_W == 1
#define PC_Q1_PRE (OBJ_OK(g_w1, nni_aio) && DISTINCT(g_w1, g_pair) && LIST_IS_ONE(&Q1->writers, PN(W1)))
#define PC_Q1_POST AIO_FAILED(IP_R, W1, NNG_ECLOSED)
#else
#define PC_Q1_PRE (OBJ_OK(g_w1, nni_aio) && OBJ_OK(g_w2, nni_aio) && DISTINCT(g_w1, g_pair) && DISTINCT(g_w2, g_pair) && DISTINCT(g_w1, g_w2) && LIST_IS_TWO(&Q1->writers, PN(W1), PN(W2)))
#define PC_Q1_POST (AIO_FAILED(IP_R, W1, NNG_ECLOSED) && AIO_FAILED(IP_R + 1, W2, NNG_ECLOSED))
#endif
#define IP_PIPE_PRE_P (OBJ_OK(g_pipe, inproc_pipe) && OBJ_OK(g_pair, inproc_pair) && DISTINCT(g_pipe, g_pair))
#ifdef IP_NOPAIR
static void inproc_pipe_close(void *arg)
__CPROVER_requires(__CPROVER_is_fresh(arg, sizeof(inproc_pipe)) && ((inproc_pipe *) arg)->pair == NULL && VP_NO_LOCK_HELD && g_ip.fin_calls == 0)
__CPROVER_assigns()
__CPROVER_ensures(g_ip.fin_calls == 0 && VP_NO_LOCK_HELD)
;
#else
static void inproc_pipe_close(void *arg)
__CPROVER_requires(IP_PIPE_PRE_P && arg == g_pipe && PIPE->pair == PAIR && VP_NO_LOCK_HELD && g_ip.fin_calls == 0)
__CPROVER_requires(IP_Q_LISTS_OK(Q0) && IP_Q_LISTS_OK(Q1) && LIST_IS_EMPTY(&Q0->writers) && LIST_IS_EMPTY(&Q1->readers) && PC_Q0_PRE && PC_Q1_PRE && IP_X11 && IP_X12 && IP_X21 && IP_X22)
__CPROVER_assigns(Q0->readers.ll_head, Q0->writers.ll_head, Q1->readers.ll_head, Q1->writers.ll_head, Q0->closed, Q1->closed, g_ip, VP_SYNC_GHOSTS IP_R_ASSIGNS IP_W_ASSIGNS)
__CPROVER_ensures(Q0->closed && Q1->closed && g_ip.fin_calls == IP_R + IP_W && PC_Q0_POST && PC_Q1_POST)
__CPROVER_ensures(LIST_IS_EMPTY(&Q0->readers) && LIST_IS_EMPTY(&Q0->writers) && LIST_IS_EMPTY(&Q1->readers) && LIST_IS_EMPTY(&Q1->writers))
__CPROVER_ensures(VP_NO_LOCK_HELD && g_lock_ops == OLD(g_lock_ops) + 4)
;
#endif

/* ====================================================================== */
/* inproc_accept_clients (C03/C20): the connection pairing step.
 * Shape: server endpoint SRV (a listener) with ONE waiting client CLI (a dialer) that has ONE pending
 * connect aio CAIO; -DIP_SA=1: one pending accept aio SAIO on the server, 0: none.
 * - no accept pending: nothing happens, the client keeps waiting;
 * - otherwise the dialer is paired with exactly that one accept: ONE inproc_pair is allocated, each side
 *   gets ONE pipe, the two pipes share the pair's queues CROSSWISE (what one sends the other receives),
 *   protocol ids are exchanged, both aios complete with 0 and carry their pipe; both leave their lists
 *   and the client leaves the server's client list;
 * - any allocation failure (pair, either pipe; before or after the pipe's transport part was set up):
 *   BOTH aios fail with the same error, and everything obtained is given back: heap balance zero
 *   (pair released with its size), every pipe made is destroyed again, no reference is left. */
#ifndef IP_SA
#define IP_SA 0
#endif
#ifndef IP_ADDRMAX
#define IP_ADDRMAX 3
#endif
#define SRV ((inproc_ep *) g_srv)
#define CLI ((inproc_ep *) g_cli)
#define SAIO ((nni_aio *) g_sa)
#define CAIO ((nni_aio *) g_ca)
#define DP ((inproc_pipe *) g_ip.dpipe)
#define LP ((inproc_pipe *) g_ip.lpipe)
#define EP_LISTS_OK(e) ((e)->clients.ll_offset == offsetof(inproc_ep, node) && (e)->aios.ll_offset == offsetof(nni_aio, a_prov_node))
#define STR_PRE(sp) (__CPROVER_is_fresh((sp), IP_ADDRMAX + 1) && (sp)[IP_ADDRMAX] == 0)
#if IP_SA == 1
#define AC_SA_PRE (OBJ_OK(g_sa, nni_aio) && DISTINCT(g_sa, g_srv) && DISTINCT(g_sa, g_cli) && DISTINCT(g_sa, g_ca) && LIST_IS_ONE(&SRV->aios, PN(SAIO)))
#define AC_SA_ASSIGNS , SAIO->a_prov_node, SAIO->a_result, SAIO->a_count, SAIO->a_outputs
#else
#define AC_SA_PRE (LIST_IS_EMPTY(&SRV->aios))
#define AC_SA_ASSIGNS
#endif
#define AC_OK (g_ip.fin_calls == 2 && g_ip.fin_rv[0] == 0)
static void inproc_accept_clients(inproc_ep *srv)
__CPROVER_requires(OBJ_OK(g_srv, inproc_ep) && OBJ_OK(g_cli, inproc_ep) && DISTINCT(g_srv, g_cli) && srv == SRV && EP_LISTS_OK(SRV) && EP_LISTS_OK(CLI))
__CPROVER_requires(SRV->listener != NULL && SRV->dialer == NULL && CLI->listener == NULL && CLI->dialer != NULL)
__CPROVER_requires(LIST_IS_ONE(&SRV->clients, &CLI->node) && LIST_IS_EMPTY(&CLI->clients) && NODE_IDLE(&SRV->node))
__CPROVER_requires(OBJ_OK(g_ca, nni_aio) && DISTINCT(g_ca, g_srv) && DISTINCT(g_ca, g_cli) && LIST_IS_ONE(&CLI->aios, PN(CAIO)) && AC_SA_PRE)
__CPROVER_requires(STR_PRE(SRV->addr) && STR_PRE(CLI->addr))
__CPROVER_requires(g_ip.fin_calls == 0 && g_ip.palloc_calls == 0 && g_ip.pipes_made == 0 && g_ip.pipes_gone == 0 && VP_NO_LOCK_HELD)
__CPROVER_assigns(SRV->clients.ll_head, SRV->aios.ll_head, CLI->aios.ll_head, CLI->node, CAIO->a_prov_node, CAIO->a_result, CAIO->a_count, CAIO->a_outputs, g_ip, VP_HEAP_GHOSTS, VP_SYNC_GHOSTS AC_SA_ASSIGNS)
#if IP_SA == 0
__CPROVER_ensures(g_ip.fin_calls == 0 && g_ip.palloc_calls == 0 && VP_HEAP_DELTA(0, 0) && LIST_IS_ONE(&SRV->clients, &CLI->node) && LIST_IS_ONE(&CLI->aios, PN(CAIO)) && LIST_IS_EMPTY(&SRV->aios))
#else
/* both complete exactly once, connect side first, with the same result; all lists drained */
__CPROVER_ensures(g_ip.fin_calls == 2 && g_ip.fin_aio[0] == CAIO && g_ip.fin_aio[1] == SAIO && g_ip.fin_rv[0] == g_ip.fin_rv[1] && CAIO->a_result == g_ip.fin_rv[0] && SAIO->a_result == g_ip.fin_rv[0])
__CPROVER_ensures(LIST_IS_EMPTY(&SRV->clients) && NODE_IDLE(&CLI->node) && LIST_IS_EMPTY(&CLI->aios) && LIST_IS_EMPTY(&SRV->aios) && NODE_IDLE(PN(CAIO)) && NODE_IDLE(PN(SAIO)) && VP_NO_LOCK_HELD)
/* failure: nothing is kept */
__CPROVER_ensures(g_ip.fin_rv[0] != 0 ==> (g_alloc_ok - OLD(g_alloc_ok) == g_free_calls - OLD(g_free_calls) && g_alloc_ok - OLD(g_alloc_ok) <= 1 && g_ip.pipes_made == g_ip.pipes_gone))
__CPROVER_ensures((g_ip.fin_rv[0] != 0 && g_ip.palloc_calls == 0) ==> (g_ip.fin_rv[0] == NNG_ENOMEM && VP_HEAP_DELTA(0, 0)))
__CPROVER_ensures((g_ip.fin_rv[0] != 0 && g_ip.palloc_calls > 0) ==> VP_HEAP_DELTA(1, 1))
/* success: one pair, two pipes, queues shared crosswise */
__CPROVER_ensures(g_ip.fin_rv[0] == 0 ==> (VP_HEAP_DELTA(1, 0) && g_ip.palloc_calls == 2 && g_ip.pipes_made == 2 && g_ip.pipes_gone == 0 && g_ip.pclose_calls == 0 && g_ip.dref == 2 && g_ip.lref == 2))
__CPROVER_ensures(g_ip.fin_rv[0] == 0 ==> (g_ip.palloc_dialer == CLI->dialer && g_ip.palloc_listener == SRV->listener && CAIO->a_outputs[0] == g_ip.dpipe_np && SAIO->a_outputs[0] == g_ip.lpipe_np && DP->pipe == (nni_pipe *) g_ip.dpipe_np && LP->pipe == (nni_pipe *) g_ip.lpipe_np))
__CPROVER_ensures(g_ip.fin_rv[0] == 0 ==> (DP->pair != NULL && DP->pair == LP->pair && DP->pair->ref.rc_cnt.v == 2 && DP->pair->ref.rc_fini == inproc_pair_destroy && DP->pair->ref.rc_data == (void *) DP->pair))
__CPROVER_ensures(g_ip.fin_rv[0] == 0 ==> (DP->send_queue == &DP->pair->queues[0] && LP->recv_queue == &DP->pair->queues[0] && DP->recv_queue == &DP->pair->queues[1] && LP->send_queue == &DP->pair->queues[1]))
__CPROVER_ensures(g_ip.fin_rv[0] == 0 ==> (IP_Q_LISTS_OK(&DP->pair->queues[0]) && IP_Q_LISTS_OK(&DP->pair->queues[1]) && !DP->pair->queues[0].closed && !DP->pair->queues[1].closed && LIST_IS_EMPTY(&DP->pair->queues[0].readers) && LIST_IS_EMPTY(&DP->pair->queues[0].writers) && LIST_IS_EMPTY(&DP->pair->queues[1].readers) && LIST_IS_EMPTY(&DP->pair->queues[1].writers)))
__CPROVER_ensures(g_ip.fin_rv[0] == 0 ==> (DP->proto == CLI->proto && LP->proto == SRV->proto && DP->peer == SRV->proto && LP->peer == CLI->proto && DP->addr == CLI->addr && LP->addr == SRV->addr))
__CPROVER_ensures(g_ip.fin_rv[0] == 0 ==> (DP->sa.s_inproc.sa_family == NNG_AF_INPROC && LP->sa.s_inproc.sa_family == NNG_AF_INPROC))
/* the address name is the endpoint's string (every character up to and including the first NUL) */
#define NO_NUL_BEFORE(sp, k) (((k) < 1 || (sp)[0] != 0) && ((k) < 2 || (sp)[1] != 0) && ((k) < 3 || (sp)[2] != 0))
__CPROVER_ensures((g_ip.fin_rv[0] == 0 && g_k <= IP_ADDRMAX && NO_NUL_BEFORE(CLI->addr, g_k)) ==> DP->sa.s_inproc.sa_name[g_k] == CLI->addr[g_k])
__CPROVER_ensures((g_ip.fin_rv[0] == 0 && g_k <= IP_ADDRMAX && NO_NUL_BEFORE(SRV->addr, g_k)) ==> LP->sa.s_inproc.sa_name[g_k] == SRV->addr[g_k])
#endif
;

/* clang-format on */
#endif
