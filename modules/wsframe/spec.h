/* Spec macros for the WebSocket frame codec (src/supplemental/websocket/websocket.c).
 * Oracle: RFC 6455 section 5.2 (base framing), 5.1 (masking by role), 5.4
 * (fragmentation), 5.5 (control frames), 7.1.7 / 7.4.1 (fail the connection,
 * status codes) and the nng option documentation (NNG_OPT_WS_RECVMAXFRAME,
 * NNG_OPT_RECVMAXSZ: 0 = unlimited, larger frames/messages close the
 * connection; NNG_OPT_WS_SENDMAXFRAME = fragment size; NNG_OPT_WS_RECV_TEXT).
 *
 *   byte 0: FIN(0x80) RSV1-3(0x70) opcode(0x0f)
 *   byte 1: MASK(0x80) len7(0x7f); len7==126: 16-bit big-endian length follows,
 *           len7==127: 64-bit big-endian length follows (top bit MUST be 0);
 *           "the minimal number of bytes MUST be used to encode the length";
 *   then 4 mask bytes iff MASK.
 *
 * Every macro takes the header as a byte accessor `h` (a function-like macro:
 * h(i) = header byte i), so that the same text is used on the current bytes
 * (preconditions) and on the bytes as received (__CPROVER_old, postconditions).
 * Macros only, no code. */
#ifndef VP_WSFRAME_SPEC_H
#define VP_WSFRAME_SPEC_H

#define WSF_K 3 /* capacity of the ghost frame queues (bound of grade B units) */

#define WS_FIN(h) ((h(0) & 0x80u) != 0)
#define WS_RSV(h) (h(0) & 0x70u)
#define WS_OPC(h) (h(0) & 0x0fu)
#define WS_MASKED(h) ((h(1) & 0x80u) != 0)
#define WS_LEN7(h) (h(1) & 0x7fu)
#define WS_XBE16(h) ((uint64_t) ((((uint16_t) h(2)) << 8) | (uint16_t) h(3)))
#define WS_XBE64(h)                                                           \
	(((uint64_t) h(2) << 56) | ((uint64_t) h(3) << 48) |                      \
	    ((uint64_t) h(4) << 40) | ((uint64_t) h(5) << 32) |                   \
	    ((uint64_t) h(6) << 24) | ((uint64_t) h(7) << 16) |                   \
	    ((uint64_t) h(8) << 8) | (uint64_t) h(9))
/* total header length announced by the first two bytes */
#define WS_HLEN(h) ((size_t) 2 + (WS_LEN7(h) == 126 ? 2u : (WS_LEN7(h) == 127 ? 8u : 0u)) + (WS_MASKED(h) ? 4u : 0u))
/* payload length announced by the (complete) header */
#define WS_PAYLEN(h) (WS_LEN7(h) < 126 ? (uint64_t) WS_LEN7(h) : (WS_LEN7(h) == 126 ? WS_XBE16(h) : WS_XBE64(h)))
/* minimal encoding, split into the two ways to break it */
#define WS_LEN_SHORT(h) ((WS_LEN7(h) == 126 && WS_XBE16(h) < 126) || (WS_LEN7(h) == 127 && WS_XBE64(h) <= 65535))
#define WS_LEN_TOPBIT(h) (WS_LEN7(h) == 127 && (WS_XBE64(h) >> 63) != 0)
#define WS_LEN_MINIMAL(h) (!WS_LEN_SHORT(h) && !WS_LEN_TOPBIT(h))

#define WS_OP_CONT 0x0u
#define WS_OP_TEXT 0x1u
#define WS_OP_BIN 0x2u
#define WS_OP_CLOSE 0x8u
#define WS_OP_PING 0x9u
#define WS_OP_PONG 0xAu
#define WS_OP_KNOWN(o) ((o) == WS_OP_CONT || (o) == WS_OP_TEXT || (o) == WS_OP_BIN || (o) == WS_OP_CLOSE || (o) == WS_OP_PING || (o) == WS_OP_PONG)
#define WS_OP_IS_CTL(o) (((o) & 0x8u) != 0)
#define WS_OP_IS_DATA(o) ((o) == WS_OP_TEXT || (o) == WS_OP_BIN)
/* 5.5: control frames MUST have a payload of 125 bytes or less and MUST NOT be fragmented */
#define WS_CTL_OK(h) (!WS_OP_IS_CTL(WS_OPC(h)) || (WS_FIN(h) && WS_LEN7(h) <= 125))
/* 5.1: a client MUST mask every frame, a server MUST NOT mask any frame */
#define WS_MASK_OK(h, we_are_server) (WS_MASKED(h) == ((we_are_server) ? 1 : 0))
/* 5.2: RSV1-3 MUST be 0, unknown opcodes fail the connection; 5.5 */
#define WS_HDR_BAD_OPBITS(h) (WS_RSV(h) != 0 || !WS_OP_KNOWN(WS_OPC(h)) || !WS_CTL_OK(h))

/* status codes, RFC 6455 7.4.1 */
#define WS_ST_NORMAL 1000
#define WS_ST_PROTO 1002
#define WS_ST_UNSUPP 1003
#define WS_ST_TOOBIG 1009
#define WS_ST_INTERNAL 1011

/* sending side: minimal header for a payload of n bytes */
#define WS_TX_LEN7(n) ((n) <= 125 ? (uint8_t) (n) : ((n) <= 65535 ? (uint8_t) 126 : (uint8_t) 127))
#define WS_TX_HLEN(n, client) ((size_t) 2 + ((n) <= 125 ? 0u : ((n) <= 65535 ? 2u : 8u)) + ((client) ? 4u : 0u))

/* what the ghost pair (g_k, g_b) speaks about (free ghost g_eq, see contracts.h) */
#define WSF_EQ_CTL 1 /* payload handed to ws_msg_init_control / status code of ws_close */
#define WSF_EQ_RX 2  /* payload of the received frame */
#define WSF_EQ_TX 3  /* concatenation of the scatter/gather vector to send */

/* well-formed aio wait queue model (as in tcpframe) */
#define WSF_Q_OK(q) ((((q).n == 0) == ((q).head == NULL)) && (((q).n >= 2) == ((q).next != NULL)) && ((q).n < 2 || (q).next != (q).head))
#endif
